import BppModel.VecTools
import BppProofs.Lemmas.ScalarReal
import Mathlib.Algebra.BigOperators.Group.List.Basic
import Mathlib.Algebra.Order.BigOperators.Group.List
import Mathlib.Tactic.Ring
import Mathlib.Tactic.Linarith
import Mathlib.Tactic.FieldSimp
import Mathlib.Tactic.Positivity
import Mathlib.Order.Defs.LinearOrder
import Mathlib.Algebra.Order.Archimedean.Real.Basic
import Mathlib.Algebra.BigOperators.Group.Finset.Basic
/-!
Helper lemmas for C07 (model `BppModel/VecTools.lean` read at `ℝ`).
-/
namespace Bpp.VecTools
open Bpp Bpp.ScalarReal

/-! ### sums and products -/

theorem foldl_add_eq (l : List ℝ) (a : ℝ) : l.foldl (· + ·) a = a + l.sum := by
  induction l generalizing a with
  | nil => simp
  | cons x xs ih => simp [List.foldl_cons, ih, add_assoc]

theorem foldl_mul_eq (l : List ℝ) (a : ℝ) : l.foldl (· * ·) a = a * l.prod := by
  induction l generalizing a with
  | nil => simp
  | cons x xs ih => simp [List.foldl_cons, ih, mul_assoc]

theorem sum_eq (v : List ℝ) : VecTools.sum v = v.sum := by
  simp [VecTools.sum, foldl_add_eq]

theorem prod_eq (v : List ℝ) : VecTools.prod v = v.prod := by
  simp [VecTools.prod, foldl_mul_eq]

@[simp] theorem specSum_eq (v : List ℝ) : Spec.sum v = v.sum := by
  induction v with
  | nil => simp [Spec.sum]
  | cons x xs ih => simp only [Spec.sum, List.foldr_cons, List.sum_cons] at *; rw [ih]

@[simp] theorem specProd_eq (v : List ℝ) : Spec.prod v = v.prod := by
  induction v with
  | nil => simp [Spec.prod]
  | cons x xs ih => simp only [Spec.prod, List.foldr_cons, List.prod_cons] at *; rw [ih]

theorem cumSumAux_length (acc : ℝ) (v : List ℝ) : (cumSumAux acc v).length = v.length := by
  induction v generalizing acc with
  | nil => rfl
  | cons x xs ih => simp [cumSumAux, ih]

theorem cumSumAux_get (acc : ℝ) (v : List ℝ) (i : Nat) (h : i < v.length) :
    (cumSumAux acc v)[i]? = some (acc + (v.take (i + 1)).sum) := by
  induction v generalizing acc i with
  | nil => simp at h
  | cons x xs ih =>
    cases i with
    | zero => simp [cumSumAux]
    | succ j =>
      have hj : j < xs.length := by simpa using h
      simp only [cumSumAux, List.getElem?_cons_succ, List.take_succ_cons, List.sum_cons]
      rw [ih (acc + x) j hj]; congr 1; ring

theorem cumProdAux_length (acc : ℝ) (v : List ℝ) : (cumProdAux acc v).length = v.length := by
  induction v generalizing acc with
  | nil => rfl
  | cons x xs ih => simp [cumProdAux, ih]

theorem cumProdAux_get (acc : ℝ) (v : List ℝ) (i : Nat) (h : i < v.length) :
    (cumProdAux acc v)[i]? = some (acc * (v.take (i + 1)).prod) := by
  induction v generalizing acc i with
  | nil => simp at h
  | cons x xs ih =>
    cases i with
    | zero => simp [cumProdAux, mul_comm]
    | succ j =>
      have hj : j < xs.length := by simpa using h
      simp only [cumProdAux, List.getElem?_cons_succ, List.take_succ_cons, List.prod_cons]
      rw [ih (x * acc) j hj]; congr 1; ring

/-! ### scalar products, means, covariance -/

theorem scalar_eq (v1 v2 : List ℝ) (h : v1.length = v2.length) :
    scalar v1 v2 = .ok (List.zipWith (· * ·) v1 v2).sum := by
  simp [scalar, h, foldl_add_eq]

theorem scalar_mismatch (v1 v2 : List ℝ) (h : v1.length ≠ v2.length) :
    scalar v1 v2 = .error .dimension := by
  simp [scalar, h]

@[simp] theorem specDot_eq (a b : List ℝ) : Spec.dot a b = (List.zipWith (· * ·) a b).sum := by
  simp [Spec.dot]

theorem mean_eq (v : List ℝ) : mean v = v.sum / (v.length : ℝ) := by
  simp [mean, sum_eq]

@[simp] theorem specMean_eq (v : List ℝ) : Spec.mean v = v.sum / (v.length : ℝ) := by
  simp [Spec.mean]

theorem center_eq (v : List ℝ) : center v = v.map (· - v.sum / (v.length : ℝ)) := by
  simp [center, mean_eq]

theorem specCov_eq (a b : List ℝ) (u : Bool) :
    Spec.cov a b u = (List.zipWith (fun x y => (x - a.sum / (a.length : ℝ)) * (y - b.sum / (b.length : ℝ))) a b).sum /
      (if u then (a.length : ℝ) - 1 else (a.length : ℝ)) := by
  unfold Spec.cov; cases u <;> simp

theorem zipWith_mul_comm (a b : List ℝ) : List.zipWith (· * ·) a b = List.zipWith (· * ·) b a := by
  induction a generalizing b with
  | nil => simp
  | cons x xs ih => cases b with
    | nil => simp
    | cons y ys => simp [ih ys, mul_comm]

/-- Σ (aᵢ - c) = Σ aᵢ - n·c -/
theorem sum_map_sub_const (a : List ℝ) (c : ℝ) : (a.map (· - c)).sum = a.sum - a.length * c := by
  induction a with
  | nil => simp
  | cons x xs ih => simp [ih]; ring

theorem zipWith_mul_map_div (v w : List ℝ) (s : ℝ) :
    (List.zipWith (· * ·) v (w.map (· / s))).sum = (List.zipWith (· * ·) v w).sum / s := by
  induction v generalizing w with
  | nil => simp
  | cons x xs ih => cases w with
    | nil => simp
    | cons y ys =>
      simp only [List.map_cons, List.zipWith_cons_cons, List.sum_cons, ih ys]
      ring

theorem meanW_eq (v w : List ℝ) (h : v.length = w.length) :
    meanW v w true = .ok ((List.zipWith (· * ·) v w).sum / w.sum) := by
  have hl : v.length = (divC w (VecTools.sum w)).length := by simp [divC, h]
  rw [meanW, if_pos rfl, scalar_eq _ _ hl, sum_eq, divC]
  rw [← zipWith_mul_map_div]

theorem scalar_center (v1 v2 : List ℝ) (h : v1.length = v2.length) :
    scalar (center v1) (center v2) = .ok (List.zipWith (fun x y => (x - v1.sum / (v1.length : ℝ)) * (y - v2.sum / (v2.length : ℝ))) v1 v2).sum := by
  have hl : (center v1).length = (center v2).length := by simp [center, h]
  rw [scalar_eq _ _ hl, center_eq, center_eq, List.zipWith_map]

theorem cov_eq (v1 v2 : List ℝ) (u : Bool) (h : v1.length = v2.length)
    (hn : (if u then 2 else 1) ≤ v1.length) : cov v1 v2 u = .ok (Spec.cov v1 v2 u) := by
  have hn0 : (v1.length : ℝ) ≠ 0 := by
    have : 1 ≤ v1.length := by split at hn <;> omega
    exact_mod_cast (by omega : v1.length ≠ 0)
  rw [cov, scalar_center v1 v2 h, specCov_eq]
  simp only [bind, Except.bind, pure, Except.pure, ofInt_eq, one_eq, Int.cast_natCast]
  cases u with
  | false => simp
  | true =>
    simp only [if_true]
    have hn1 : (v1.length : ℝ) - 1 ≠ 0 := by
      have : (2:ℝ) ≤ (v1.length : ℝ) := by exact_mod_cast hn
      linarith
    have key : ∀ S : ℝ, S / (v1.length : ℝ) * (v1.length : ℝ) / ((v1.length : ℝ) - 1) = S / ((v1.length : ℝ) - 1) := by
      intro S; field_simp
    rw [key]

theorem cov_mismatch (v1 v2 : List ℝ) (u : Bool) (h : v1.length ≠ v2.length) :
    cov v1 v2 u = .error .dimension := by
  have hl : (center v1).length ≠ (center v2).length := by simp [center, h]
  rw [cov, scalar_mismatch _ _ hl]; rfl

theorem zipWith_comm_of {f : ℝ → ℝ → ℝ} {g : ℝ → ℝ → ℝ} (hfg : ∀ x y, f x y = g y x) (a b : List ℝ) :
    List.zipWith f a b = List.zipWith g b a := by
  induction a generalizing b with
  | nil => simp
  | cons x xs ih => cases b with
    | nil => simp
    | cons y ys => simp [ih ys, hfg]

theorem sum_zipWith_sq_nonneg (a : List ℝ) (c : ℝ) :
    0 ≤ (List.zipWith (fun x y => (x - c) * (y - c)) a a).sum := by
  induction a with
  | nil => simp
  | cons x xs ih => simp only [List.zipWith_cons_cons, List.sum_cons]; nlinarith [mul_self_nonneg (x - c)]

theorem specCov_symm (a b : List ℝ) (u : Bool) (h : a.length = b.length) : Spec.cov a b u = Spec.cov b a u := by
  rw [specCov_eq, specCov_eq]
  have hd : (a.length : ℝ) = (b.length : ℝ) := by rw [h]
  rw [zipWith_comm_of (g := fun x y => (x - b.sum / (b.length : ℝ)) * (y - a.sum / (a.length : ℝ))) (by intro x y; ring) a b, hd]

/-! ### extrema -/

/-- the comparisons handed to the extremum loops are strict weak orders -/
structure StrictWeak {β : Type} (better : β → β → Bool) : Prop where
  irrefl : ∀ a, better a a = false
  trans : ∀ a b c, better a b = true → better b c = true → better a c = true
  negTrans : ∀ a b c, better a b = false → better b c = false → better a c = false

theorem isFirstExtremum_iff {β : Type} (better : β → β → Bool) (v : List β) (pos : Nat) :
    IsFirstExtremum better v pos ↔
      ∃ m, v[pos]? = some m ∧ (∀ y ∈ v, better y m = false) ∧ (∀ y ∈ v.take pos, better m y = true) := by
  unfold IsFirstExtremum
  split
  · rename_i h; simp [h]
  · rename_i m h; simp [h]

theorem extremum_fold_spec {β : Type} {better : β → β → Bool} (hb : StrictWeak better) (xs : List β) (x : β) :
    (xs.foldl (fun m y => if better y m then y else m) x) ∈ x :: xs ∧
    ∀ y ∈ x :: xs, better y (xs.foldl (fun m y => if better y m then y else m) x) = false := by
  induction xs generalizing x with
  | nil => simp [hb.irrefl]
  | cons z zs ih =>
    simp only [List.foldl_cons]
    by_cases hz : better z x = true
    · simp only [hz, if_true]
      obtain ⟨hm, hall⟩ := ih z
      refine ⟨by simp only [List.mem_cons] at hm ⊢; tauto, ?_⟩
      intro y hy
      simp only [List.mem_cons] at hy
      rcases hy with rfl | rfl | hy
      · -- y = x : z beats x, result is not beaten by z
        have h1 := hall z (by simp)
        by_contra hc
        have hc' : better y (zs.foldl (fun m y => if better y m then y else m) z) = true := by simpa using hc
        -- better z x, better x r → better z r, contradiction
        have := hb.trans _ _ _ hz hc'
        simp [this] at h1
      · exact hall _ (by simp)
      · exact hall _ (by simp [hy])
    · have hz' : better z x = false := by simpa using hz
      simp only [hz', Bool.false_eq_true, if_false]
      obtain ⟨hm, hall⟩ := ih x
      refine ⟨by simp only [List.mem_cons] at hm ⊢; tauto, ?_⟩
      intro y hy
      simp only [List.mem_cons] at hy
      rcases hy with rfl | rfl | hy
      · exact hall _ (by simp)
      · exact hb.negTrans _ _ _ hz' (hall x (by simp))
      · exact hall _ (by simp [hy])

theorem whichLoop_spec {β : Type} {better : β → β → Bool} (hb : StrictWeak better)
    (ys pre : List β) (m : β) (pos i : Nat) (hi : i = pre.length) (hm : pre[pos]? = some m)
    (h1 : ∀ y ∈ pre, better y m = false) (h2 : ∀ y ∈ pre.take pos, better m y = true) :
    IsFirstExtremum better (pre ++ ys) (whichLoop better m pos i ys) := by
  induction ys generalizing pre m pos i with
  | nil =>
    rw [isFirstExtremum_iff]; simp only [whichLoop, List.append_nil]
    exact ⟨m, hm, h1, h2⟩
  | cons y ys ih =>
    have hpos : pos < pre.length := by
      rcases Nat.lt_or_ge pos pre.length with h | h
      · exact h
      · simp [List.getElem?_eq_none h] at hm
    simp only [whichLoop]
    have happ : pre ++ y :: ys = (pre ++ [y]) ++ ys := by simp
    by_cases hy : better y m = true
    · simp only [hy, if_true]
      rw [happ]
      apply ih (pre ++ [y]) y i (i + 1) (by simp [hi])
      · subst hi; simp
      · intro z hz
        simp only [List.mem_append, List.mem_singleton] at hz
        rcases hz with hz | rfl
        · by_contra hc
          have hc' : better z y = true := by simpa using hc
          have := hb.trans _ _ _ hc' hy
          simp [h1 z hz] at this
        · exact hb.irrefl _
      · intro z hz
        subst hi
        simp only [List.take_left'] at hz
        by_contra hc
        have hc' : better y z = false := by simpa using hc
        have := hb.negTrans _ _ _ hc' (h1 z hz)
        simp [this] at hy
    · have hy' : better y m = false := by simpa using hy
      simp only [hy', Bool.false_eq_true, if_false]
      rw [happ]
      apply ih (pre ++ [y]) m pos (i + 1) (by simp [hi])
      · rw [List.getElem?_append_left hpos]; exact hm
      · intro z hz
        simp only [List.mem_append, List.mem_singleton] at hz
        rcases hz with hz | rfl
        · exact h1 z hz
        · exact hy'
      · intro z hz
        rw [List.take_append_of_le_length (Nat.le_of_lt hpos)] at hz
        exact h2 z hz

theorem whichExtremum_spec {β : Type} {better : β → β → Bool} (hb : StrictWeak better) (v : List β) (p : Nat)
    (h : whichExtremum better v = .ok p) : IsFirstExtremum better v p := by
  cases v with
  | nil => simp [whichExtremum] at h
  | cons x xs =>
    simp only [whichExtremum, Except.ok.injEq] at h
    subst h
    have := whichLoop_spec hb xs [x] x 0 1 rfl (by simp) (by simp [hb.irrefl]) (by simp)
    simpa using this

theorem gt_strictWeak : StrictWeak (fun (y m : ℝ) => Scalar.gtb y m) where
  irrefl a := by simp [Scalar.gtb]
  trans a b c := by simp only [gtb_iff]; intro h1 h2; linarith
  negTrans a b c := by
    simp only [Scalar.gtb, ltb_false_iff]; intro h1 h2; linarith

theorem lt_strictWeak : StrictWeak (fun (y m : ℝ) => Scalar.ltb y m) where
  irrefl a := by simp
  trans a b c := by simp only [ltb_iff]; intro h1 h2; linarith
  negTrans a b c := by
    simp only [ltb_false_iff]; intro h1 h2; linarith

/-! ### sorting -/

/-- the sort comparator `!(b < a)` derived from `<` on ℝ is `≤` -/
theorem leOfLt_iff (a b : ℝ) : leOfLt Scalar.ltb a b = true ↔ a ≤ b := by
  simp [leOfLt]

theorem sortedBy_sortVals (v : List ℝ) : SortedBy Scalar.ltb (sortVals v) := by
  unfold SortedBy sortVals
  have := List.pairwise_mergeSort (le := leOfLt (Scalar.ltb (α := ℝ)))
    (fun a b c h1 h2 => by rw [leOfLt_iff] at *; linarith)
    (fun a b => by
      rcases le_total a b with h | h
      · simp [(leOfLt_iff a b).mpr h]
      · simp [(leOfLt_iff b a).mpr h]) v
  exact this.imp (fun {a b} h => by have := (leOfLt_iff a b).mp h; simpa using this)

theorem sortVals_perm (v : List ℝ) : (sortVals v).Perm v := List.mergeSort_perm v _

theorem filterMap_eq_map_of {α β : Type} (f : α → Option β) (g : α → β) (l : List α)
    (h : ∀ x ∈ l, f x = some (g x)) : l.filterMap f = l.map g := by
  induction l with
  | nil => rfl
  | cons a as ih =>
    simp only [List.filterMap_cons, h a (by simp), List.map_cons]
    rw [ih (fun x hx => h x (by simp [hx]))]

theorem order_spec (v : List ℝ) (idx : List Nat) (h : order v = .ok idx) : IsSortingPerm Scalar.ltb v idx := by
  unfold order at h
  split at h
  · simp at h
  · simp only [Except.ok.injEq] at h
    subst h
    set S := v.zipIdx.mergeSort (fun a b => leOfLt Scalar.ltb a.1 b.1) with hS
    have hperm : S.Perm v.zipIdx := List.mergeSort_perm _ _
    constructor
    · have := hperm.map Prod.snd
      rw [List.zipIdx_map_snd] at this
      rw [List.range_eq_range']; exact this
    · have hfm : (S.map (·.2)).filterMap (fun i => v[i]?) = S.map (·.1) := by
        rw [List.filterMap_map]
        have : ∀ x ∈ S, ((fun i => v[i]?) ∘ (fun x : ℝ × Nat => x.2)) x = some x.1 := by
          intro x hx
          have := (hperm.mem_iff).mp hx
          exact List.mem_zipIdx_iff_getElem?.mp this
        exact filterMap_eq_map_of _ _ S this
      rw [hfm]
      unfold SortedBy
      rw [List.pairwise_map]
      have := List.pairwise_mergeSort (le := fun (a b : ℝ × Nat) => leOfLt Scalar.ltb a.1 b.1)
        (fun a b c h1 h2 => by rw [leOfLt_iff] at *; linarith)
        (fun a b => by
          rcases le_total a.1 b.1 with h | h
          · simp [(leOfLt_iff a.1 b.1).mpr h]
          · simp [(leOfLt_iff b.1 a.1).mpr h]) v.zipIdx
      exact this.imp (fun {a b} h => by have := (leOfLt_iff a.1 b.1).mp h; simpa using this)

/-! ### median -/

theorem sorted_getElem_le (s : List ℝ) (hs : SortedBy Scalar.ltb s) (i j : Nat) (hj : j < s.length) (hij : i ≤ j) :
    s[i]'(by omega) ≤ s[j] := by
  rcases Nat.lt_or_eq_of_le hij with h | h
  · have := (List.pairwise_iff_getElem.mp hs) i j (by omega) hj h
    simpa using this
  · subst h; exact le_refl _

/-- in a sorted list, at least `j+1` elements are `≤ m` when `s[j] ≤ m` -/
theorem count_le_of_sorted (s : List ℝ) (hs : SortedBy Scalar.ltb s) (j : Nat) (hj : j < s.length) (m : ℝ)
    (hm : s[j] ≤ m) : j + 1 ≤ s.countP (fun x => !(Scalar.ltb m x)) := by
  have h1 : (s.take (j + 1)).countP (fun x => !(Scalar.ltb m x)) = (s.take (j + 1)).length := by
    rw [List.countP_eq_length]
    intro x hx
    obtain ⟨i, hi, rfl⟩ := List.mem_take_iff_getElem.mp hx
    have hi' : i ≤ j := by
      have : i < Nat.min (j + 1) s.length := hi
      have := Nat.lt_min.mp this
      omega
    have := sorted_getElem_le s hs i j hj hi'
    simp only [Bool.not_eq_eq_eq_not, Bool.not_true, ltb_false_iff]; linarith
  have h2 := (List.take_sublist (j + 1) s).countP_le (p := fun x => !(Scalar.ltb m x))
  rw [h1, List.length_take] at h2
  omega

/-- in a sorted list, at least `n - j` elements are `≥ m` when `m ≤ s[j]` -/
theorem count_ge_of_sorted (s : List ℝ) (hs : SortedBy Scalar.ltb s) (j : Nat) (hj : j < s.length) (m : ℝ)
    (hm : m ≤ s[j]) : s.length - j ≤ s.countP (fun x => !(Scalar.ltb x m)) := by
  have h1 : (s.drop j).countP (fun x => !(Scalar.ltb x m)) = (s.drop j).length := by
    rw [List.countP_eq_length]
    intro x hx
    obtain ⟨i, hi, rfl⟩ := List.mem_drop_iff_getElem.mp hx
    have := sorted_getElem_le s hs j (j + i) (by omega) (by omega)
    simp only [Bool.not_eq_eq_eq_not, Bool.not_true, ltb_false_iff]; linarith
  have h2 := (List.drop_sublist j s).countP_le (p := fun x => !(Scalar.ltb x m))
  rw [h1, List.length_drop] at h2
  exact h2

theorem isMedian_perm {v s : List ℝ} (hp : s.Perm v) (m : ℝ) (h : IsMedian Scalar.ltb s m) : IsMedian Scalar.ltb v m := by
  unfold IsMedian at *
  rw [← hp.countP_eq, ← hp.countP_eq, ← hp.length_eq]; exact h

theorem at?_eq_getElem {α : Type} (s : List α) (i : Nat) (h : i < s.length) : at? s i = .ok s[i] := by
  simp [at?, List.getElem?_eq_getElem h]

theorem median_sorted_case (s : List ℝ) (hs : SortedBy Scalar.ltb s) (hn : 2 ≤ s.length) :
    ∃ m, (if s.length % 2 = 0 then (do
        let a ← at? s (s.length / 2 - 1)
        let b ← at? s (s.length / 2)
        pure ((a + b) / Scalar.ofInt 2, s) : Res (ℝ × List ℝ))
      else do
        let b ← at? s (s.length / 2)
        pure (b, s)) = .ok (m, s) ∧ IsMedian Scalar.ltb s m := by
  have hk : s.length / 2 < s.length := by omega
  have hk1 : s.length / 2 - 1 < s.length := by omega
  by_cases hpar : s.length % 2 = 0
  · rw [if_pos hpar, at?_eq_getElem s _ hk, at?_eq_getElem s _ hk1]
    refine ⟨_, rfl, ?_⟩
    have hab : s[s.length / 2 - 1] ≤ s[s.length / 2] := sorted_getElem_le s hs _ _ hk (by omega)
    simp only [ofInt_eq, Int.cast_ofNat]
    constructor
    · have := count_le_of_sorted s hs (s.length / 2 - 1) hk1 ((s[s.length / 2 - 1] + s[s.length / 2]) / 2) (by linarith)
      omega
    · have := count_ge_of_sorted s hs (s.length / 2) hk ((s[s.length / 2 - 1] + s[s.length / 2]) / 2) (by linarith)
      omega
  · rw [if_neg hpar, at?_eq_getElem s _ hk]
    refine ⟨_, rfl, ?_⟩
    constructor
    · have := count_le_of_sorted s hs (s.length / 2) hk s[s.length / 2] (le_refl _)
      omega
    · have := count_ge_of_sorted s hs (s.length / 2) hk s[s.length / 2] (le_refl _)
      omega

theorem median_spec' (v : List ℝ) (hv : v ≠ []) :
    ∃ m s, median v = .ok (m, s) ∧ IsMedian Scalar.ltb v m ∧ s.Perm v ∧ (2 ≤ v.length → SortedBy Scalar.ltb s) := by
  unfold median
  have h0 : v.length ≠ 0 := by simpa using hv
  rw [if_neg h0]
  by_cases h1 : v.length = 1
  · rw [if_pos h1]
    obtain ⟨x, rfl⟩ := List.length_eq_one_iff.mp h1
    refine ⟨x, [x], rfl, ?_, List.Perm.refl _, by simp⟩
    simp [IsMedian]
  · rw [if_neg h1]
    have hn : 2 ≤ (sortVals v).length := by
      rw [(sortVals_perm v).length_eq]; omega
    obtain ⟨m, hm, hmed⟩ := median_sorted_case (sortVals v) (sortedBy_sortVals v) hn
    exact ⟨m, sortVals v, hm, isMedian_perm (sortVals_perm v) m hmed, sortVals_perm v, fun _ => sortedBy_sortVals v⟩

/-! ### Cauchy–Schwarz and the correlation -/

theorem cs_step (x y S A B : ℝ) (hA : 0 ≤ A) (hB : 0 ≤ B) (h : S ^ 2 ≤ A * B) :
    (x * y + S) ^ 2 ≤ (x ^ 2 + A) * (y ^ 2 + B) := by
  have h0 : 0 ≤ x ^ 2 * B + y ^ 2 * A := by positivity
  have hsq : (2 * x * y * S) ^ 2 ≤ (x ^ 2 * B + y ^ 2 * A) ^ 2 := by
    nlinarith [sq_nonneg (x ^ 2 * B - y ^ 2 * A), mul_nonneg (sq_nonneg (x * y)) (sub_nonneg.mpr h)]
  have := abs_le_of_sq_le_sq' hsq h0
  nlinarith [this.2]

/-- Cauchy–Schwarz for lists -/
theorem cauchy_schwarz_list (a b : List ℝ) :
    (List.zipWith (· * ·) a b).sum ^ 2 ≤ (a.map (· ^ 2)).sum * (b.map (· ^ 2)).sum := by
  induction a generalizing b with
  | nil => simp
  | cons x xs ih =>
    cases b with
    | nil =>
      simp only [List.zipWith_nil_right, List.sum_nil, List.map_nil, mul_zero]; norm_num
    | cons y ys =>
      simp only [List.zipWith_cons_cons, List.sum_cons, List.map_cons]
      apply cs_step _ _ _ _ _ _ _ (ih ys)
      · exact List.sum_nonneg (by intro z hz; simp only [List.mem_map] at hz; obtain ⟨w, -, rfl⟩ := hz; positivity)
      · exact List.sum_nonneg (by intro z hz; simp only [List.mem_map] at hz; obtain ⟨w, -, rfl⟩ := hz; positivity)

theorem sum_sq_pos_of_ne (a : List ℝ) (c : ℝ) (h : ∃ x ∈ a, x ≠ c) : 0 < (a.map (fun x => (x - c) ^ 2)).sum := by
  obtain ⟨x, hx, hne⟩ := h
  induction a with
  | nil => simp at hx
  | cons y ys ih =>
    simp only [List.map_cons, List.sum_cons]
    have hnn : 0 ≤ (ys.map (fun x => (x - c) ^ 2)).sum :=
      List.sum_nonneg (by intro z hz; simp only [List.mem_map] at hz; obtain ⟨w, -, rfl⟩ := hz; positivity)
    simp only [List.mem_cons] at hx
    rcases hx with rfl | hx
    · have : 0 < (x - c) ^ 2 := by
        have : x - c ≠ 0 := sub_ne_zero.mpr hne
        positivity
      linarith
    · have := ih hx
      have : 0 ≤ (y - c) ^ 2 := by positivity
      linarith

theorem exists_ne_of_nonconst (a : List ℝ) (c : ℝ) (h : ∃ x ∈ a, ∃ y ∈ a, x ≠ y) : ∃ x ∈ a, x ≠ c := by
  obtain ⟨x, hx, y, hy, hne⟩ := h
  by_cases hxc : x = c
  · exact ⟨y, hy, fun hyc => hne (hxc.trans hyc.symm)⟩
  · exact ⟨x, hx, hxc⟩

/-- the three centred sums behind cov/var -/
theorem centred_sums (a b : List ℝ) (ca cb : ℝ) :
    (List.zipWith (fun x y => (x - ca) * (y - cb)) a b).sum ^ 2 ≤
      (a.map (fun x => (x - ca) ^ 2)).sum * (b.map (fun x => (x - cb) ^ 2)).sum := by
  have := cauchy_schwarz_list (a.map (· - ca)) (b.map (· - cb))
  rw [List.zipWith_map, List.map_map, List.map_map] at this
  exact this

theorem zipWith_self_sq (a : List ℝ) (c : ℝ) :
    List.zipWith (fun x y => (x - c) * (y - c)) a a = a.map (fun x => (x - c) ^ 2) := by
  induction a with
  | nil => rfl
  | cons x xs ih => simp [sq]

theorem cor_sq_le_one' (v1 v2 : List ℝ) (h : v1.length = v2.length) (hn : 2 ≤ v1.length)
    (h1 : ∃ x ∈ v1, ∃ y ∈ v1, x ≠ y) (h2 : ∃ x ∈ v2, ∃ y ∈ v2, x ≠ y) :
    ∃ r, cor v1 v2 = .ok r ∧ r ^ 2 ≤ 1 := by
  have hn2 : 2 ≤ v2.length := h ▸ hn
  unfold cor sd var
  rw [cov_eq v1 v2 true h (by simpa using hn), cov_eq v1 v1 true rfl (by simpa using hn),
    cov_eq v2 v2 true rfl (by simpa using hn2)]
  refine ⟨_, rfl, ?_⟩
  simp only [specCov_eq, if_true, zipWith_self_sq, sqrt_eq]
  set m1 := v1.sum / (v1.length : ℝ)
  set m2 := v2.sum / (v2.length : ℝ)
  have hcs := centred_sums v1 v2 m1 m2
  have hA := sum_sq_pos_of_ne v1 m1 (exists_ne_of_nonconst v1 m1 h1)
  have hB := sum_sq_pos_of_ne v2 m2 (exists_ne_of_nonconst v2 m2 h2)
  set S := (List.zipWith (fun x y => (x - m1) * (y - m2)) v1 v2).sum
  set A := (v1.map (fun x => (x - m1) ^ 2)).sum
  set B := (v2.map (fun x => (x - m2) ^ 2)).sum
  have hD : (0:ℝ) < (v1.length : ℝ) - 1 := by
    have : (2:ℝ) ≤ (v1.length : ℝ) := by exact_mod_cast hn
    linarith
  have hD2 : (v2.length : ℝ) - 1 = (v1.length : ℝ) - 1 := by rw [h]
  rw [hD2]
  set D := (v1.length : ℝ) - 1
  have hvA : 0 < A / D := div_pos hA hD
  have hvB : 0 < B / D := div_pos hB hD
  rw [div_pow, mul_pow, Real.sq_sqrt hvA.le, Real.sq_sqrt hvB.le, div_le_one (mul_pos hvA hvB)]
  rw [div_pow, div_mul_div_comm, ← sq]
  exact div_le_div_of_nonneg_right hcs (by positivity)

/-! ### set-like helpers over a linear order -/

section Sets
variable {β : Type} [LinearOrder β]

/-- `==` and `<` of a linear order, as the Boolean comparisons the model is parameterised by -/
def deq : β → β → Bool := fun a b => decide (a = b)
def dlt : β → β → Bool := fun a b => decide (a < b)

@[simp] theorem deq_iff (a b : β) : deq a b = true ↔ a = b := by simp [deq]
@[simp] theorem dlt_iff (a b : β) : dlt a b = true ↔ a < b := by simp [dlt]
@[simp] theorem deq_false_iff (a b : β) : deq a b = false ↔ a ≠ b := by simp [deq]
@[simp] theorem dlt_false_iff (a b : β) : dlt a b = false ↔ b ≤ a := by simp [dlt]

@[simp] theorem contains_deq (v : List β) (x : β) : contains deq v x = true ↔ x ∈ v := by
  simp only [contains, List.any_eq_true, deq_iff]
  constructor
  · rintro ⟨y, hy, rfl⟩; exact hy
  · intro h; exact ⟨x, h, rfl⟩

theorem contains_deq_false (v : List β) (x : β) : contains deq v x = false ↔ x ∉ v := by
  rw [← contains_deq, Bool.not_eq_true]

theorem listEq_refl (l : List β) : listEq deq l l = true := by
  induction l with
  | nil => rfl
  | cons x xs ih => simp [listEq, ih]

/-! union -/
def unionAdd : List β → List β → List β
  | _, [] => []
  | u, y :: ys => if y ∈ u then unionAdd u ys else y :: unionAdd (u ++ [y]) ys

theorem vectorUnionOrig_eq (u v2 : List β) : vectorUnionOrig deq u v2 = u ++ unionAdd u v2 := by
  unfold vectorUnionOrig
  induction v2 generalizing u with
  | nil => simp [unionAdd]
  | cons y ys ih =>
    simp only [List.foldl_cons, unionAdd]
    by_cases hy : y ∈ u
    · have : contains deq u y = true := (contains_deq u y).mpr hy
      simp only [this, Bool.not_true, Bool.false_eq_true, if_false, hy, if_true]
      exact ih u
    · have : contains deq u y = false := (contains_deq_false u y).mpr hy
      simp only [this, Bool.not_false, if_true, hy, if_false]
      rw [ih (u ++ [y])]; simp

theorem unionAdd_spec (u v2 : List β) :
    (∀ x ∈ unionAdd u v2, x ∈ v2 ∧ x ∉ u) ∧ (unionAdd u v2).Nodup ∧ (∀ x ∈ v2, x ∈ u ∨ x ∈ unionAdd u v2) := by
  induction v2 generalizing u with
  | nil => simp [unionAdd]
  | cons y ys ih =>
    simp only [unionAdd]
    by_cases hy : y ∈ u
    · simp only [hy, if_true]
      obtain ⟨h1, h2, h3⟩ := ih u
      refine ⟨fun x hx => ⟨List.mem_cons_of_mem _ (h1 x hx).1, (h1 x hx).2⟩, h2, ?_⟩
      intro x hx
      rcases List.mem_cons.mp hx with rfl | hx
      · exact Or.inl hy
      · exact h3 x hx
    · simp only [hy, if_false]
      obtain ⟨h1, h2, h3⟩ := ih (u ++ [y])
      refine ⟨?_, ?_, ?_⟩
      · intro x hx
        rcases List.mem_cons.mp hx with rfl | hx
        · exact ⟨by simp, hy⟩
        · have := h1 x hx
          exact ⟨List.mem_cons_of_mem _ this.1, fun hu => this.2 (by simp [hu])⟩
      · rw [List.nodup_cons]
        exact ⟨fun hin => (h1 y hin).2 (by simp), h2⟩
      · intro x hx
        rcases List.mem_cons.mp hx with rfl | hx
        · exact Or.inr (by simp)
        · rcases h3 x hx with h | h
          · rcases List.mem_append.mp h with h | h
            · exact Or.inl h
            · exact Or.inr (by simp at h; simp [h])
          · exact Or.inr (List.mem_cons_of_mem _ h)

theorem mem_vectorUnionOrig (a b : List β) (x : β) : x ∈ vectorUnionOrig deq a b ↔ x ∈ a ∨ x ∈ b := by
  rw [vectorUnionOrig_eq, List.mem_append]
  obtain ⟨h1, -, h3⟩ := unionAdd_spec a b
  constructor
  · rintro (h | h)
    · exact Or.inl h
    · exact Or.inr (h1 x h).1
  · rintro (h | h)
    · exact Or.inl h
    · exact h3 x h

theorem isUnion_vectorUnionOrig (a b : List β) : IsUnion deq a b (vectorUnionOrig deq a b) := by
  obtain ⟨h1, h2, h3⟩ := unionAdd_spec a b
  unfold IsUnion
  refine ⟨?_, ?_, ?_, ?_, ?_, ?_⟩
  · intro x hx; simpa using (mem_vectorUnionOrig a b x).mp hx
  · intro x hx; simpa using (mem_vectorUnionOrig a b x).mpr (Or.inl hx)
  · intro x hx; simpa using (mem_vectorUnionOrig a b x).mpr (Or.inr hx)
  · rw [vectorUnionOrig_eq]; simp [listEq_refl]
  · rw [vectorUnionOrig_eq]; simp only [List.drop_left']
    unfold NoDup
    exact h2.imp (fun {a b} h => by simpa using h)
  · rw [vectorUnionOrig_eq]; simp only [List.drop_left']
    intro x hx; exact (contains_deq_false a x).mpr (h1 x hx).2

theorem nodup_vectorUnionOrig (a b : List β) (ha : a.Nodup) : (vectorUnionOrig deq a b).Nodup := by
  obtain ⟨h1, h2, -⟩ := unionAdd_spec a b
  rw [vectorUnionOrig_eq, List.nodup_append]
  exact ⟨ha, h2, fun x hx y hy hxy => (h1 y hy).2 (hxy ▸ hx)⟩

theorem mem_vectorIntersection (a b : List β) (x : β) : x ∈ vectorIntersection deq a b ↔ x ∈ a ∧ x ∈ b := by
  simp [vectorIntersection, List.mem_filter]

/-! sorting with the derived comparator -/
theorem leOfLt_dlt (a b : β) : leOfLt dlt a b = true ↔ a ≤ b := by simp [leOfLt]

theorem sorted_mergeSort_dlt (v : List β) : (v.mergeSort (leOfLt dlt)).Pairwise (· ≤ ·) := by
  have := List.pairwise_mergeSort (le := leOfLt (dlt (β := β)))
    (fun a b c h1 h2 => by rw [leOfLt_dlt] at *; exact le_trans h1 h2)
    (fun a b => by
      rcases le_total a b with h | h
      · simp [(leOfLt_dlt a b).mpr h]
      · simp [(leOfLt_dlt b a).mpr h]) v
  exact this.imp (fun {a b} h => (leOfLt_dlt a b).mp h)

/-! unique -/
theorem dedupAdj_spec (prev : β) (l : List β) (hs : (prev :: l).Pairwise (· ≤ ·)) :
    (prev :: dedupAdj deq prev l).Pairwise (· < ·) ∧ ∀ z, z ∈ prev :: dedupAdj deq prev l ↔ z ∈ prev :: l := by
  induction l generalizing prev with
  | nil => simp [dedupAdj]
  | cons y ys ih =>
    have hpy : prev ≤ y := (List.pairwise_cons.mp hs).1 y (by simp)
    have hs' : (y :: ys).Pairwise (· ≤ ·) := (List.pairwise_cons.mp hs).2
    obtain ⟨ih1, ih2⟩ := ih y hs'
    simp only [dedupAdj]
    by_cases hy : y = prev
    · subst hy
      simp only [deq, decide_true, Bool.not_true, Bool.false_eq_true, if_false]
      refine ⟨ih1, fun z => ?_⟩
      rw [ih2 z]; simp
    · have : deq y prev = false := by simp [hy]
      simp only [this, Bool.not_false, if_true]
      have hlt : prev < y := lt_of_le_of_ne hpy (Ne.symm hy)
      refine ⟨?_, fun z => ?_⟩
      · rw [List.pairwise_cons]
        refine ⟨fun z hz => ?_, ih1⟩
        have hz' := (ih2 z).mp hz
        rcases List.mem_cons.mp hz' with rfl | hz'
        · exact hlt
        · exact lt_of_lt_of_le hlt ((List.pairwise_cons.mp hs').1 z hz')
      · simp only [List.mem_cons] at ih2 ⊢
        rw [ih2 z]

theorem unique_spec (v : List β) :
    (unique deq dlt v).Pairwise (· < ·) ∧ ∀ z, z ∈ unique deq dlt v ↔ z ∈ v := by
  unfold unique
  have hs := sorted_mergeSort_dlt v
  have hm : ∀ z, z ∈ v.mergeSort (leOfLt dlt) ↔ z ∈ v := fun z => List.mem_mergeSort
  generalize v.mergeSort (leOfLt dlt) = s at hs hm
  cases s with
  | nil => simp only [List.Pairwise.nil, true_and]; intro z; rw [← hm z]
  | cons x xs =>
    obtain ⟨h1, h2⟩ := dedupAdj_spec x xs hs
    exact ⟨h1, fun z => (h2 z).trans (hm z)⟩

/-! diff -/
theorem advance_spec (x : β) (s : List β) (hs : s.Pairwise (· ≤ ·)) :
    (advance dlt x s).Pairwise (· ≤ ·) ∧ (∀ z, x ≤ z → (z ∈ advance dlt x s ↔ z ∈ s)) ∧
    (∀ y rest, advance dlt x s = y :: rest → (x ∈ s ↔ y = x)) ∧ (advance dlt x s = [] ↔ s = []) := by
  induction s with
  | nil => simp [advance]
  | cons y ys ih =>
    cases ys with
    | nil =>
      simp only [advance]
      refine ⟨hs, (by intro w _; trivial), ?_, by simp⟩
      intro y' rest h
      simp only [List.cons.injEq] at h
      obtain ⟨rfl, -⟩ := h
      simp [eq_comm]
    | cons z zs =>
      have hs' : (z :: zs).Pairwise (· ≤ ·) := (List.pairwise_cons.mp hs).2
      have hyall : ∀ w ∈ z :: zs, y ≤ w := (List.pairwise_cons.mp hs).1
      simp only [advance]
      by_cases hyx : y < x
      · have : dlt y x = true := by simp [hyx]
        simp only [this, if_true]
        obtain ⟨i1, i2, i3, i4⟩ := ih hs'
        refine ⟨i1, ?_, ?_, ?_⟩
        · intro w hw
          rw [i2 w hw]
          constructor
          · intro h; exact List.mem_cons_of_mem _ h
          · intro h
            rcases List.mem_cons.mp h with rfl | h
            · exact absurd (lt_of_lt_of_le hyx hw) (lt_irrefl _)
            · exact h
        · intro y' rest h
          rw [← i3 y' rest h]
          constructor
          · intro hx
            rcases List.mem_cons.mp hx with rfl | hx
            · exact absurd hyx (lt_irrefl _)
            · exact hx
          · intro hx; exact List.mem_cons_of_mem _ hx
        · simp only [i4]; simp
      · have : dlt y x = false := by simp [not_lt.mp hyx]
        simp only [this, Bool.false_eq_true, if_false]
        refine ⟨hs, (by intro w _; trivial), ?_, by simp⟩
        intro y' rest h
        simp only [List.cons.injEq] at h
        obtain ⟨rfl, -⟩ := h
        constructor
        · intro hx
          rcases List.mem_cons.mp hx with rfl | hx
          · rfl
          · exact le_antisymm (hyall x hx) (not_lt.mp hyx)
        · rintro rfl; simp

theorem skip_false (prev : Option β) (x : β) (h : ¬ prev = some x) : sameAsPrev deq prev x = false := by
  cases prev with
  | none => rfl
  | some p =>
    simp only [sameAsPrev, deq_false_iff]
    intro h'; exact h (by rw [h'])

theorem diffLoopFixed_spec (xs s : List β) (prev : Option β) (hxs : xs.Pairwise (· ≤ ·)) (hs : s.Pairwise (· ≤ ·))
    (hp : ∀ p, prev = some p → ∀ x ∈ xs, p ≤ x) :
    (∀ z, z ∈ diffLoopFixed deq dlt prev xs s ↔ (z ∈ xs ∧ z ∉ s ∧ prev ≠ some z)) ∧
    (diffLoopFixed deq dlt prev xs s).Pairwise (· < ·) ∧
    (∀ p, prev = some p → ∀ z ∈ diffLoopFixed deq dlt prev xs s, p < z) := by
  induction xs generalizing prev s with
  | nil => simp [diffLoopFixed]
  | cons x xs ih =>
    have hxs' : xs.Pairwise (· ≤ ·) := (List.pairwise_cons.mp hxs).2
    have hxall : ∀ w ∈ xs, x ≤ w := (List.pairwise_cons.mp hxs).1
    by_cases hdup : prev = some x
    · -- duplicate of the previous element: skipped
      subst hdup
      have : diffLoopFixed deq dlt (some x) (x :: xs) s = diffLoopFixed deq dlt (some x) xs s := by
        simp [diffLoopFixed, sameAsPrev]
      rw [this]
      obtain ⟨i1, i2, i3⟩ := ih s (some x) hxs' hs (by intro p hp' w hw; cases hp'; exact hxall w hw)
      refine ⟨fun z => ?_, i2, i3⟩
      rw [i1 z]
      constructor
      · rintro ⟨h1, h2, h3⟩; exact ⟨List.mem_cons_of_mem _ h1, h2, h3⟩
      · rintro ⟨h1, h2, h3⟩
        rcases List.mem_cons.mp h1 with rfl | h1
        · exact absurd rfl h3
        · exact ⟨h1, h2, h3⟩
    · have hskip := skip_false prev x hdup
      have hplt : ∀ p, prev = some p → p < x := by
        intro p hp'
        have hle := hp p hp' x (by simp)
        exact lt_of_le_of_ne hle (fun h => hdup (by rw [hp', h]))
      obtain ⟨a1, a2, a3, a4⟩ := advance_spec x s hs
      obtain ⟨i1, i2, i3⟩ := ih (advance dlt x s) (some x) hxs' a1
        (by intro p hp' w hw; cases hp'; exact hxall w hw)
      have hstep : diffLoopFixed deq dlt prev (x :: xs) s =
          (if x ∈ s then diffLoopFixed deq dlt (some x) xs (advance dlt x s)
           else x :: diffLoopFixed deq dlt (some x) xs (advance dlt x s)) := by
        simp only [diffLoopFixed, hskip, Bool.false_eq_true, if_false]
        cases hadv : advance dlt x s with
        | nil =>
          have : s = [] := a4.mp hadv
          simp [this]
        | cons y rest =>
          have := a3 y rest hadv
          simp only
          by_cases hyx : y = x
          · have h1 : deq y x = true := by simp [hyx]
            simp [h1, this.mpr hyx]
          · have h1 : deq y x = false := by simp [hyx]
            have h2 : x ∉ s := fun h => hyx (this.mp h)
            simp [h1, h2]
      rw [hstep]
      have hmem : ∀ z, z ∈ xs → (z ∉ advance dlt x s ↔ z ∉ s) := fun z hz => not_congr (a2 z (hxall z hz))
      by_cases hxs_in : x ∈ s
      · simp only [hxs_in, if_true]
        refine ⟨fun z => ?_, i2, fun p hp' z hz => lt_trans (hplt p hp') (i3 x rfl z hz)⟩
        rw [i1 z]
        constructor
        · rintro ⟨h1, h2, h3⟩
          refine ⟨List.mem_cons_of_mem _ h1, (hmem z h1).mp h2, ?_⟩
          intro hpz
          have := hplt z hpz
          exact absurd (lt_of_lt_of_le this (hxall z h1)) (lt_irrefl _)
        · rintro ⟨h1, h2, h3⟩
          rcases List.mem_cons.mp h1 with rfl | h1
          · exact absurd hxs_in h2
          · refine ⟨h1, (hmem z h1).mpr h2, ?_⟩
            intro h; cases h; exact h2 hxs_in
      · simp only [hxs_in, if_false]
        refine ⟨fun z => ?_, ?_, ?_⟩
        · rw [List.mem_cons, i1 z]
          constructor
          · rintro (rfl | ⟨h1, h2, h3⟩)
            · exact ⟨by simp, hxs_in, fun h => hdup h⟩
            · refine ⟨List.mem_cons_of_mem _ h1, (hmem z h1).mp h2, ?_⟩
              intro hpz
              have := hplt z hpz
              exact absurd (lt_of_lt_of_le this (hxall z h1)) (lt_irrefl _)
          · rintro ⟨h1, h2, h3⟩
            by_cases hzx : z = x
            · exact Or.inl hzx
            · rcases List.mem_cons.mp h1 with rfl | h1
              · exact absurd rfl hzx
              · exact Or.inr ⟨h1, (hmem z h1).mpr h2, fun h => hzx (by cases h; rfl)⟩
        · rw [List.pairwise_cons]; exact ⟨fun z hz => i3 x rfl z hz, i2⟩
        · intro p hp' z hz
          rcases List.mem_cons.mp hz with rfl | hz
          · exact hplt p hp'
          · exact lt_trans (hplt p hp') (i3 x rfl z hz)

theorem diff_spec (a b : List β) :
    (∀ z, z ∈ diff deq dlt a b ↔ z ∈ a ∧ z ∉ b) ∧ (diff deq dlt a b).Pairwise (· < ·) := by
  unfold diff
  obtain ⟨h1, h2, -⟩ := diffLoopFixed_spec (a.mergeSort (leOfLt dlt)) (b.mergeSort (leOfLt dlt)) none
    (sorted_mergeSort_dlt a) (sorted_mergeSort_dlt b) (by intro p hp; cases hp)
  refine ⟨fun z => ?_, h2⟩
  rw [h1 z]; simp [List.mem_mergeSort]

end Sets

/-! ### computeFdr -/

/-- sorting the (value, position) pairs by a total preorder on the values and projecting the
positions gives a sorting permutation -/
theorem sortIdx_spec (lt' : ℝ → ℝ → Bool)
    (htrans : ∀ a b c, leOfLt lt' a b = true → leOfLt lt' b c = true → leOfLt lt' a c = true)
    (htotal : ∀ a b, (leOfLt lt' a b || leOfLt lt' b a) = true) (v : List ℝ) :
    let S := v.zipIdx.mergeSort (fun a b => leOfLt lt' a.1 b.1)
    S.Perm v.zipIdx ∧ IsSortingPerm lt' v (S.map (·.2)) ∧ (S.map (·.2)).filterMap (fun i => v[i]?) = S.map (·.1) := by
  intro S
  have hperm : S.Perm v.zipIdx := List.mergeSort_perm _ _
  have hfm : (S.map (·.2)).filterMap (fun i => v[i]?) = S.map (·.1) := by
    rw [List.filterMap_map]
    have : ∀ x ∈ S, ((fun i => v[i]?) ∘ (fun x : ℝ × Nat => x.2)) x = some x.1 := by
      intro x hx
      have := (hperm.mem_iff).mp hx
      exact List.mem_zipIdx_iff_getElem?.mp this
    exact filterMap_eq_map_of _ _ S this
  refine ⟨hperm, ⟨?_, ?_⟩, hfm⟩
  · have := hperm.map Prod.snd
    rw [List.zipIdx_map_snd] at this
    rw [List.range_eq_range']; exact this
  · rw [hfm]
    unfold SortedBy
    rw [List.pairwise_map]
    have := List.pairwise_mergeSort (le := fun (a b : ℝ × Nat) => leOfLt lt' a.1 b.1)
      (fun a b c h1 h2 => htrans _ _ _ h1 h2) (fun a b => htotal _ _) v.zipIdx
    exact this.imp (fun {a b} h => by simpa [leOfLt] using h)

theorem setAt?_ok {β : Type} (v : List β) (i : Nat) (x : β) (h : i < v.length) : setAt? v i x = .ok (v.set i x) := by
  simp [setAt?, h]

/-- the scatter loop writes, for the entry at position `t` of the list, the value computed with
`denom (k + t)`, provided the target positions are in range and pairwise distinct -/
theorem fdrLoop_spec (n : Nat) (denom : Nat → (ℝ × Nat) → Nat) (S : List (ℝ × Nat)) (k : Nat) (out : List ℝ)
    (hr : ∀ e ∈ S, e.2 < out.length) (hnd : (S.map (·.2)).Nodup) :
    ∃ out', fdrLoop n denom k S out = .ok out' ∧ out'.length = out.length ∧
      (∀ t e, S[t]? = some e → out'[e.2]? = some (e.1 * Scalar.ofInt n / Scalar.ofInt (denom (k + t) e))) ∧
      (∀ j, j ∉ S.map (·.2) → out'[j]? = out[j]?) := by
  induction S generalizing k out with
  | nil => exact ⟨out, rfl, rfl, by simp, fun _ _ => rfl⟩
  | cons e es ih =>
    have he : e.2 < out.length := hr e (by simp)
    simp only [List.map_cons, List.nodup_cons] at hnd
    set out1 := out.set e.2 (e.1 * Scalar.ofInt n / Scalar.ofInt (denom k e)) with hout1
    obtain ⟨out', h1, h2, h3, h4⟩ := ih (k + 1) out1 (by intro e' he'; rw [hout1, List.length_set]; exact hr e' (by simp [he'])) hnd.2
    refine ⟨out', ?_, by rw [h2, hout1, List.length_set], ?_, ?_⟩
    · simp only [fdrLoop, setAt?_ok out e.2 _ he, bind, Except.bind]; exact h1
    · intro t e' ht
      cases t with
      | zero =>
        simp only [List.getElem?_cons_zero, Option.some.injEq] at ht
        subst ht
        rw [h4 e.2 hnd.1, hout1, List.getElem?_set_self he]; simp
      | succ t' =>
        simp only [List.getElem?_cons_succ] at ht
        have := h3 t' e' ht
        rw [this, show k + 1 + t' = k + (t' + 1) by omega]
    · intro j hj
      simp only [List.map_cons, List.mem_cons, not_or] at hj
      rw [h4 j hj.2, hout1, List.getElem?_set_ne (Ne.symm hj.1)]

theorem flip_ltb_trans (a b c : ℝ) : leOfLt (fun x y => Scalar.ltb y x) a b = true →
    leOfLt (fun x y => Scalar.ltb y x) b c = true → leOfLt (fun x y => Scalar.ltb y x) a c = true := by
  simp only [leOfLt, Bool.not_eq_eq_eq_not, Bool.not_true, ltb_false_iff]; intro h1 h2; linarith

theorem flip_ltb_total (a b : ℝ) :
    (leOfLt (fun x y => Scalar.ltb y x) a b || leOfLt (fun x y => Scalar.ltb y x) b a) = true := by
  simp only [leOfLt, Bool.or_eq_true, Bool.not_eq_eq_eq_not, Bool.not_true, ltb_false_iff]
  exact le_total b a

theorem computeFdr_spec (p : List ℝ) :
    ∃ out, computeFdr p = .ok out ∧ IsFdrVia p out ((sortPValues p).map (·.2)) := by
  have hS : sortPValues p = p.zipIdx.mergeSort (fun a b => leOfLt (fun x y => Scalar.ltb y x) a.1 b.1) := rfl
  obtain ⟨hperm, hsort, hfm⟩ := sortIdx_spec (fun x y => Scalar.ltb y x) flip_ltb_trans flip_ltb_total p
  rw [← hS] at hperm hsort hfm
  have hr : ∀ e ∈ sortPValues p, e.2 < (List.replicate p.length (Scalar.zero : ℝ)).length := by
    intro e he
    have := List.snd_lt_of_mem_zipIdx ((hperm.mem_iff).mp he)
    simpa using this
  have hnd : ((sortPValues p).map (·.2)).Nodup := by
    have := (hperm.map Prod.snd).nodup_iff
    rw [this, List.zipIdx_map_snd]; exact List.nodup_range'
  obtain ⟨out, h1, h2, h3, -⟩ := fdrLoop_spec p.length (fun k _ => p.length - k) (sortPValues p) 0 _ hr hnd
  refine ⟨out, h1, hsort, by simpa using h2, ?_⟩
  intro k hk
  rw [List.length_map] at hk
  have he : (sortPValues p)[k]? = some (sortPValues p)[k] := List.getElem?_eq_getElem hk
  have hmem : (sortPValues p)[k] ∈ p.zipIdx := (hperm.mem_iff).mp (List.getElem_mem hk)
  have hp : p[(sortPValues p)[k].2]? = some (sortPValues p)[k].1 := List.mem_zipIdx_iff_getElem?.mp hmem
  have ho := h3 k _ he
  simp only [fdrEntryOk, List.getElem?_map, he, Option.map_some, hp, ho, Nat.zero_add]
  simp

/-- before the repair every entry is `pᵢ·n/(i+1)`: the divisor is the position in the *input* -/
theorem computeFdrOrig_spec (p : List ℝ) :
    ∃ out, computeFdrOrig p = .ok out ∧ out.length = p.length ∧
      ∀ (i : Nat) (x : ℝ), p[i]? = some x → out[i]? = some (x * (p.length : ℝ) / ((i : ℝ) + 1)) := by
  have hS : sortPValues p = p.zipIdx.mergeSort (fun a b => leOfLt (fun x y => Scalar.ltb y x) a.1 b.1) := rfl
  have hperm : (sortPValues p).Perm p.zipIdx := List.mergeSort_perm _ _
  have hr : ∀ e ∈ sortPValues p, e.2 < (List.replicate p.length (Scalar.zero : ℝ)).length := by
    intro e he
    have := List.snd_lt_of_mem_zipIdx ((hperm.mem_iff).mp he)
    simpa using this
  have hnd : ((sortPValues p).map (·.2)).Nodup := by
    have := (hperm.map Prod.snd).nodup_iff
    rw [this, List.zipIdx_map_snd]; exact List.nodup_range'
  obtain ⟨out, h1, h2, h3, -⟩ := fdrLoop_spec p.length (fun _ e => e.2 + 1) (sortPValues p) 0 _ hr hnd
  refine ⟨out, h1, by simpa using h2, ?_⟩
  intro i x hi
  have hmem : (x, i) ∈ sortPValues p := (hperm.mem_iff).mpr (List.mk_mem_zipIdx_iff_getElem?.mpr hi)
  obtain ⟨t, ht, het⟩ := List.getElem_of_mem hmem
  have := h3 t (x, i) (by rw [List.getElem?_eq_getElem ht, het])
  rw [this]; simp

theorem count_le_of_strict_desc (D : List ℝ) (hd : D.Pairwise (fun a b => b < a)) (k : Nat) (hk : k < D.length) :
    D.countP (fun y => decide (y ≤ D[k])) = D.length - k := by
  have hbefore : ∀ j (hj : j < D.length), j < k → D[k] < D[j] := fun j hj hjk =>
    (List.pairwise_iff_getElem.mp hd) j k hj hk hjk
  have hafter : ∀ j (hj : j < D.length), k ≤ j → D[j] ≤ D[k] := by
    intro j hj hkj
    rcases Nat.lt_or_eq_of_le hkj with h | h
    · exact le_of_lt ((List.pairwise_iff_getElem.mp hd) k j hk hj h)
    · subst h; exact le_refl _
  generalize D[k] = m at hbefore hafter
  have h1 : (D.take k).countP (fun y => decide (y ≤ m)) = 0 := by
    rw [List.countP_eq_zero]
    intro y hy
    obtain ⟨j, hj, rfl⟩ := List.mem_take_iff_getElem.mp hy
    have hjk : j < k := (Nat.lt_min.mp hj).1
    simp only [decide_eq_true_eq, not_le]; exact hbefore j (by omega) hjk
  have h2 : (D.drop k).countP (fun y => decide (y ≤ m)) = (D.drop k).length := by
    rw [List.countP_eq_length]
    intro y hy
    obtain ⟨j, hj, rfl⟩ := List.mem_drop_iff_getElem.mp hy
    simp only [decide_eq_true_eq]
    exact hafter (k + j) (by omega) (by omega)
  have hsplit : D.countP (fun y => decide (y ≤ m)) =
      (D.take k).countP (fun y => decide (y ≤ m)) + (D.drop k).countP (fun y => decide (y ≤ m)) := by
    rw [← List.countP_append, List.take_append_drop]
  rw [hsplit, h1, h2, List.length_drop]; omega

/-- for pairwise distinct p-values the repaired `computeFdr` is the Benjamini–Hochberg formula
`pᵢ·n / rank(pᵢ)` with `rank(pᵢ) = #{j | pⱼ ≤ pᵢ}` -/
theorem computeFdr_rank (p : List ℝ) (hnd : p.Nodup) :
    ∃ out, computeFdr p = .ok out ∧ out.length = p.length ∧
      ∀ (i : Nat) (x : ℝ), p[i]? = some x →
        out[i]? = some (x * (p.length : ℝ) / ((p.countP (fun y => decide (y ≤ x)) : Nat) : ℝ)) := by
  obtain ⟨out, hout, ⟨hperm', hsorted⟩, hlen, hent⟩ := computeFdr_spec p
  refine ⟨out, hout, hlen, ?_⟩
  intro i x hi
  set S := sortPValues p with hSdef
  have hperm : S.Perm p.zipIdx := List.mergeSort_perm _ _
  have hmem : (x, i) ∈ S := (hperm.mem_iff).mpr (List.mk_mem_zipIdx_iff_getElem?.mpr hi)
  obtain ⟨k, hk, hek⟩ := List.getElem_of_mem hmem
  have := hent k (by simpa using hk)
  have hSk : S[k]? = some (x, i) := by rw [List.getElem?_eq_getElem hk, hek]
  simp only [fdrEntryOk, List.getElem?_map, hSk, Option.map_some, hi] at this
  -- the list of values in ranking order
  set D := S.map (·.1) with hD
  have hDp : D.Perm p := by
    have := hperm.map Prod.fst
    rwa [List.zipIdx_map_fst] at this
  have hfm : (S.map (·.2)).filterMap (fun i => p[i]?) = D :=
    filterMap_eq_map_of _ _ S (fun e he => List.mem_zipIdx_iff_getElem?.mp ((hperm.mem_iff).mp he))
    |> fun h => by rw [List.filterMap_map]; exact h
  have hdesc : D.Pairwise (fun a b => b < a) := by
    rw [hfm] at hsorted
    have hne : D.Nodup := hDp.nodup_iff.mpr hnd
    have := hsorted.and hne
    exact this.imp (fun {a b} h => by
      obtain ⟨h1, h2⟩ := h
      have h1' : b ≤ a := by simpa using h1
      exact lt_of_le_of_ne h1' (Ne.symm h2))
  have hkD : k < D.length := by simpa [hD] using hk
  have hDk : D[k] = x := by simp [hD, hek]
  have hcount := count_le_of_strict_desc D hdesc k hkD
  rw [hDk, hDp.countP_eq, hDp.length_eq] at hcount
  cases ho : out[i]? with
  | none => simp [ho] at this
  | some o =>
    simp only [ho, eqb_iff] at this
    rw [this, hcount]; simp

/-! ### seq -/

theorem seqFill_length (step : ℝ) (n : Nat) (val : ℝ) : (seqFill step n val).length = n := by
  induction n generalizing val with
  | zero => rfl
  | succ k ih => simp [seqFill, ih]

theorem seqFill_get (step : ℝ) (n : Nat) (val : ℝ) (i : Nat) (h : i < n) :
    (seqFill step n val)[i]? = some (val + i * step) := by
  induction n generalizing val i with
  | zero => omega
  | succ k ih =>
    cases i with
    | zero => simp [seqFill]
    | succ j =>
      simp only [seqFill, List.getElem?_cons_succ]
      rw [ih (val + step) j (by omega)]; congr 1; push_cast; ring

/-- the `(size_t)` conversion of a non-negative real -/
noncomputable def truncR (x : ℝ) : Nat := ⌊x⌋₊

theorem seq_spec' (frm tt by_ : ℝ) (hby : 0 < by_) :
    ∃ l, seq truncR frm tt by_ = .ok l ∧
      l.length = ⌊(|frm - tt| + by_ / 100) / by_⌋₊ + 1 ∧
      ∀ i, i < l.length → l[i]? = some (frm + i * (if frm < tt then by_ else -by_)) := by
  unfold seq seqWith
  have : Scalar.gtb by_ Scalar.zero = true := by simp [hby]
  simp only [this, Bool.not_true, Bool.false_eq_true, if_false]
  refine ⟨_, rfl, ?_, ?_⟩
  · simp [seqFill_length, truncR]
  · intro i hi
    rw [seqFill_length] at hi
    rw [seqFill_get _ _ _ i hi]
    simp

/-- when `tt` is reached from `from` by a whole number `k` of steps, the sequence has `k+1`
elements and its last one is `tt` (the end point is included) -/
theorem seq_hits_to (frm by_ : ℝ) (k : Nat) (up : Bool) (hby : 0 < by_) :
    let tt := if up then frm + k * by_ else frm - k * by_
    ∃ l, seq truncR frm tt by_ = .ok l ∧ l.length = k + 1 ∧ l[0]? = some frm ∧ l[k]? = some tt := by
  intro tt
  obtain ⟨l, hl, hlen, hget⟩ := seq_spec' frm tt by_ hby
  have habs : |frm - tt| = k * by_ := by
    have hk : (0:ℝ) ≤ k * by_ := by positivity
    cases up with
    | true => simp only [tt, if_true]; rw [show frm - (frm + k * by_) = -(k * by_) by ring, abs_neg, abs_of_nonneg hk]
    | false => simp only [tt, Bool.false_eq_true, if_false]; rw [show frm - (frm - k * by_) = k * by_ by ring, abs_of_nonneg hk]
  have hn : ⌊(|frm - tt| + by_ / 100) / by_⌋₊ = k := by
    rw [habs, show ((k:ℝ) * by_ + by_ / 100) / by_ = (k:ℝ) + 1 / 100 by field_simp]
    rw [Nat.floor_eq_iff (by positivity)]
    constructor <;> norm_num
  rw [hn] at hlen
  refine ⟨l, hl, hlen, ?_, ?_⟩
  · rw [hget 0 (by omega)]; simp
  · rw [hget k (by omega)]
    congr 1
    cases up with
    | true =>
      simp only [tt, if_true]
      rcases Nat.eq_zero_or_pos k with rfl | hk
      · simp
      · have : frm < frm + k * by_ := by
          have : (0:ℝ) < k * by_ := by positivity
          linarith
        simp [this]
    | false =>
      simp only [tt, Bool.false_eq_true, if_false]
      have : ¬ frm < frm - k * by_ := by
        have : (0:ℝ) ≤ k * by_ := by positivity
        linarith
      simp only [this, if_false]; ring

/-- witness: before the repair a descending sequence started at `tt` -/
theorem seqOrig_starts_at_to (trunc : ℝ → Nat) (frm tt by_ : ℝ) (hby : 0 < by_) (h : tt < frm) :
    ∃ l, seqOrig trunc frm tt by_ = .ok (tt :: l) := by
  unfold seqOrig seqWith
  have h1 : Scalar.gtb by_ Scalar.zero = true := by simp [hby]
  have h2 : Scalar.ltb frm tt = false := by simp [le_of_lt h]
  simp only [h1, Bool.not_true, Bool.false_eq_true, if_false, h2, seqFill]
  exact ⟨_, rfl⟩

/-! ### no out-of-range read -/

/-- "does not read out of range" -/
def NoUb {β : Type} (r : Res β) : Prop := r ≠ .error .ub

theorem noUb_ok {β : Type} (x : β) : NoUb (.ok x : Res β) := by simp [NoUb]
theorem noUb_err {β : Type} (e : Err) (h : e ≠ .ub) : NoUb (.error e : Res β) := by
  simp only [NoUb, ne_eq, Except.error.injEq]; exact h
theorem noUb_bind {β γ : Type} (r : Res β) (f : β → Res γ) (hr : NoUb r) (hf : ∀ x, NoUb (f x)) : NoUb (r >>= f) := by
  cases r with
  | ok x => exact hf x
  | error e =>
    intro h
    simp only [bind, Except.bind, Except.error.injEq] at h
    exact hr (by rw [h])
theorem noUb_map {β γ : Type} (r : Res β) (f : β → γ) (hr : NoUb r) : NoUb (r >>= fun x => pure (f x)) :=
  noUb_bind r _ hr (fun _ => noUb_ok _)

theorem zipOp_noUb (f : ℝ → ℝ → ℝ) (a b : List ℝ) : NoUb (zipOp f a b) := by
  unfold zipOp; split
  · exact noUb_err _ (by decide)
  · exact noUb_ok _

theorem scalar_noUb (a b : List ℝ) : NoUb (scalar a b) := by
  unfold scalar; split
  · exact noUb_err _ (by decide)
  · exact noUb_ok _

theorem sumProd_noUb (a b : List ℝ) : NoUb (sumProd a b) := by
  unfold sumProd; split
  · exact noUb_err _ (by decide)
  · exact noUb_ok _

theorem scalarW_noUb (a b w : List ℝ) : NoUb (scalarW a b w) := by
  unfold scalarW; split
  · exact noUb_err _ (by decide)
  · split
    · exact noUb_err _ (by decide)
    · exact noUb_ok _

theorem normW_noUb (a w : List ℝ) : NoUb (normW a w) := by
  unfold normW; split
  · exact noUb_err _ (by decide)
  · exact noUb_ok _

theorem cos_noUb (a b : List ℝ) : NoUb (VecTools.cos a b) := noUb_map _ _ (scalar_noUb a b)

theorem extremum_noUb {β : Type} (better : β → β → Bool) (v : List β) : NoUb (extremum better v) := by
  cases v with
  | nil => exact noUb_err _ (by decide)
  | cons x xs => exact noUb_ok _

theorem whichExtremum_noUb {β : Type} (better : β → β → Bool) (v : List β) : NoUb (whichExtremum better v) := by
  cases v with
  | nil => exact noUb_err _ (by decide)
  | cons x xs => exact noUb_ok _

theorem whichMaxAll_noUb (v : List ℝ) : NoUb (whichMaxAll v) ∧ NoUb (whichMinAll v) := by
  unfold whichMaxAll whichMinAll
  constructor
  · split
    · exact noUb_err _ (by decide)
    · exact noUb_map _ _ (extremum_noUb _ v)
  · split
    · exact noUb_err _ (by decide)
    · exact noUb_map _ _ (extremum_noUb _ v)

theorem range_noUb (v : List ℝ) : NoUb (VecTools.range v) := by
  cases v with
  | nil => exact noUb_err _ (by decide)
  | cons x xs => exact noUb_ok _

theorem order_noUb (v : List ℝ) : NoUb (order v) := by
  unfold order; split
  · exact noUb_err _ (by decide)
  · exact noUb_ok _

theorem meanW_noUb (v w : List ℝ) (nw : Bool) : NoUb (meanW v w nw) := by
  unfold meanW; split <;> exact scalar_noUb _ _

theorem centerW_noUb (v w : List ℝ) (nw : Bool) : NoUb (centerW v w nw) := noUb_map _ _ (meanW_noUb v w nw)

theorem cov_noUb (a b : List ℝ) (u : Bool) : NoUb (cov a b u) := noUb_map _ _ (scalar_noUb _ _)

theorem covW_noUb (a b w : List ℝ) (u nw : Bool) : NoUb (covW a b w u nw) := by
  unfold covW
  exact noUb_bind _ _ (centerW_noUb _ _ _) (fun c1 => noUb_bind _ _ (centerW_noUb _ _ _)
    (fun c2 => noUb_map _ _ (scalarW_noUb _ _ _)))

theorem sd_noUb (a : List ℝ) (u : Bool) : NoUb (sd a u) := noUb_map _ _ (cov_noUb a a u)
theorem sdW_noUb (a w : List ℝ) (u nw : Bool) : NoUb (sdW a w u nw) := noUb_map _ _ (covW_noUb a a w u nw)

theorem cor_noUb (a b : List ℝ) : NoUb (cor a b) := by
  unfold cor
  exact noUb_bind _ _ (cov_noUb _ _ _) (fun c => noUb_bind _ _ (sd_noUb _ _) (fun s1 => noUb_map _ _ (sd_noUb _ _)))

theorem corW_noUb (a b w : List ℝ) (nw : Bool) : NoUb (corW a b w nw) := by
  unfold corW
  exact noUb_bind _ _ (covW_noUb _ _ _ _ _) (fun c => noUb_bind _ _ (sdW_noUb _ _ _ _) (fun s1 => noUb_map _ _ (sdW_noUb _ _ _ _)))

theorem median_noUb (v : List ℝ) : NoUb (median v) := by
  cases v with
  | nil => simp [median, NoUb]
  | cons x xs =>
    obtain ⟨m, s, h, -⟩ := median_spec' (x :: xs) (by simp)
    rw [h]; exact noUb_ok _

theorem which_noUb {β : Type} (eq : β → β → Bool) (v : List β) (x : β) : NoUb (which eq v x) := by
  unfold which
  generalize 0 = k
  induction v generalizing k with
  | nil => exact noUb_err _ (by decide)
  | cons y ys ih =>
    unfold whichFrom; split
    · exact noUb_ok _
    · exact ih _

theorem seq_noUb (frm tt by_ : ℝ) (h : 0 < by_) : NoUb (seq truncR frm tt by_) := by
  obtain ⟨l, hl, -⟩ := seq_spec' frm tt by_ h
  rw [hl]; exact noUb_ok _

theorem computeFdr_noUb (p : List ℝ) : NoUb (computeFdr p) := by
  obtain ⟨out, h, -⟩ := computeFdr_spec p
  rw [h]; exact noUb_ok _

/-! ### size mismatches -/

theorem zipOp_mismatch (f : ℝ → ℝ → ℝ) (v1 v2 : List ℝ) (h : v1.length ≠ v2.length) :
    zipOp f v1 v2 = .error .dimension := by simp [zipOp, h]

theorem meanW_mismatch (v w : List ℝ) (nw : Bool) (h : v.length ≠ w.length) : meanW v w nw = .error .dimension := by
  unfold meanW; split
  · exact scalar_mismatch _ _ (by simpa [divC] using h)
  · exact scalar_mismatch _ _ h

theorem centerW_mismatch (v w : List ℝ) (nw : Bool) (h : v.length ≠ w.length) : centerW v w nw = .error .dimension := by
  unfold centerW; rw [meanW_mismatch v w nw h]; rfl

theorem centerW_ok (v w : List ℝ) (nw : Bool) (h : v.length = w.length) : ∃ c, centerW v w nw = .ok c ∧ c.length = v.length := by
  unfold centerW meanW
  split
  · rw [scalar_eq _ _ (by simpa [divC] using h)]; exact ⟨_, rfl, by simp⟩
  · rw [scalar_eq _ _ h]; exact ⟨_, rfl, by simp⟩


/-! ### norm, range, center, which, shannon -/

theorem norm_eq (v : List ℝ) : norm v = Real.sqrt (v.map (fun x => x * x)).sum := by
  simp [norm, foldl_add_eq]

theorem zipWith3_eq {β γ δ ε : Type} (f : β → γ → δ → ε) (a : List β) (b : List γ) (c : List δ) :
    zipWith3 f a b c = List.zipWith (fun (p : β × γ) z => f p.1 p.2 z) (List.zip a b) c := by
  induction a generalizing b c with
  | nil => simp [zipWith3]
  | cons x xs ih =>
    cases b with
    | nil => simp [zipWith3]
    | cons y ys =>
      cases c with
      | nil => simp [zipWith3]
      | cons z zs => simp [zipWith3, ih]

theorem scalarW_eq (v1 v2 w : List ℝ) (h1 : v1.length = w.length) (h2 : v2.length = w.length) :
    scalarW v1 v2 w = .ok (zipWith3 (fun a b c => a * b * c) v1 v2 w).sum := by
  simp [scalarW, h1, h2, foldl_add_eq]

theorem range_spec' (v : List ℝ) (lo hi : ℝ) (h : VecTools.range v = .ok (lo, hi)) :
    VecTools.min v = .ok lo ∧ VecTools.max v = .ok hi := by
  cases v with
  | nil => simp [VecTools.range] at h
  | cons x xs =>
    simp only [VecTools.range, Except.ok.injEq] at h
    simp only [VecTools.min, VecTools.max, extremum, Except.ok.injEq]
    have key : ∀ (l : List ℝ) (a b : ℝ),
        l.foldl (fun (r : ℝ × ℝ) y => (if Scalar.ltb y r.1 then y else r.1, if Scalar.gtb y r.2 then y else r.2)) (a, b) =
        (l.foldl (fun m y => if Scalar.ltb y m then y else m) a, l.foldl (fun m y => if Scalar.gtb y m then y else m) b) := by
      intro l
      induction l with
      | nil => intro a b; rfl
      | cons y ys ih => intro a b; simp only [List.foldl_cons]; rw [ih]
    rw [key] at h
    exact ⟨congrArg Prod.fst h, congrArg Prod.snd h⟩

theorem sum_center (v : List ℝ) (hv : v ≠ []) : (center v).sum = 0 := by
  rw [center_eq, sum_map_sub_const]
  have : (v.length : ℝ) ≠ 0 := by
    have : v.length ≠ 0 := by simpa using hv
    exact_mod_cast this
  field_simp; ring

theorem whichFrom_spec {β : Type} (eq : β → β → Bool) (x : β) (v : List β) (k p : Nat) (h : whichFrom eq x k v = .ok p) :
    k ≤ p ∧ (∃ y, v[p - k]? = some y ∧ eq y x = true) ∧ ∀ y ∈ v.take (p - k), eq y x = false := by
  induction v generalizing k with
  | nil => simp [whichFrom] at h
  | cons y ys ih =>
    unfold whichFrom at h
    by_cases hy : eq y x = true
    · simp only [hy, if_true, Except.ok.injEq] at h
      subst h
      exact ⟨le_refl _, ⟨y, by simp, hy⟩, by simp⟩
    · have hy' : eq y x = false := by simpa using hy
      simp only [hy', Bool.false_eq_true, if_false] at h
      obtain ⟨h1, ⟨z, hz, hzx⟩, h3⟩ := ih (k + 1) h
      have hpk : p - k = (p - (k + 1)) + 1 := by omega
      refine ⟨by omega, ⟨z, by rw [hpk, List.getElem?_cons_succ]; exact hz, hzx⟩, ?_⟩
      intro w hw
      rw [hpk, List.take_succ_cons] at hw
      rcases List.mem_cons.mp hw with rfl | hw
      · exact hy'
      · exact h3 w hw

theorem whichFrom_notfound {β : Type} (eq : β → β → Bool) (x : β) (v : List β) (k : Nat)
    (h : ∀ y ∈ v, eq y x = false) : whichFrom eq x k v = .error .notfound := by
  induction v generalizing k with
  | nil => rfl
  | cons y ys ih =>
    unfold whichFrom
    simp only [h y (by simp), Bool.false_eq_true, if_false]
    exact ih (k + 1) (fun z hz => h z (by simp [hz]))

theorem shannon_fold (base : ℝ) (v : List ℝ) (a : ℝ) :
    v.foldl (fun s x => if Scalar.gtb x Scalar.zero then s + x * Scalar.log x / Scalar.log base else s) a =
      a + ((v.filter (fun x => decide (0 < x))).map (fun x => x * Real.log x / Real.log base)).sum := by
  induction v generalizing a with
  | nil => simp
  | cons x xs ih =>
    simp only [List.foldl_cons]
    rw [ih]
    by_cases hx : 0 < x
    · simp [hx]; ring
    · simp [hx]

theorem shannon_eq (v : List ℝ) (base : ℝ) :
    shannon v base = - ((v.filter (fun x => decide (0 < x))).map (fun x => x * Real.log x / Real.log base)).sum := by
  unfold shannon; rw [shannon_fold]; simp

theorem list_sum_nonpos (l : List ℝ) (h : ∀ t ∈ l, t ≤ 0) : l.sum ≤ 0 := by
  induction l with
  | nil => simp
  | cons x xs ih =>
    simp only [List.sum_cons]
    have := ih (fun t ht => h t (by simp [ht]))
    linarith [h x (by simp)]

theorem shannon_nonneg' (v : List ℝ) (base : ℝ) (hb : 1 < base) (hv : ∀ x ∈ v, x ≤ 1) : 0 ≤ shannon v base := by
  rw [shannon_eq, neg_nonneg]
  apply list_sum_nonpos
  intro t ht
  simp only [List.mem_map, List.mem_filter, decide_eq_true_eq] at ht
  obtain ⟨x, ⟨hx, hpos⟩, rfl⟩ := ht
  have h1 : Real.log x ≤ 0 := Real.log_nonpos hpos.le (hv x hx)
  have h2 : 0 < Real.log base := Real.log_pos hb
  exact div_nonpos_of_nonpos_of_nonneg (mul_nonpos_of_nonneg_of_nonpos hpos.le h1) h2.le

/-! ### whichMaxAll, isUnique, haveSameElements -/

theorem positionsOf_eq (x : ℝ) (k : Nat) (l : List ℝ) :
    positionsOf x k l = ((List.range l.length).filter (holdsAt Scalar.eqb l x)).map (· + k) := by
  induction l generalizing k with
  | nil => simp [positionsOf]
  | cons y ys ih =>
    rw [List.length_cons, List.range_succ_eq_map, List.filter_cons, List.filter_map]
    have hcomp : (holdsAt Scalar.eqb (y :: ys) x ∘ Nat.succ) = holdsAt Scalar.eqb ys x := by
      funext i; simp [holdsAt]
    have h0 : holdsAt Scalar.eqb (y :: ys) x 0 = Scalar.eqb y x := by simp [holdsAt]
    rw [hcomp, h0]
    simp only [positionsOf, ih (k + 1)]
    split <;> simp [List.map_map, Function.comp_def, Nat.add_comm, Nat.add_left_comm]

theorem whichMaxAll_spec (v : List ℝ) (pos : List Nat) (h : whichMaxAll v = .ok pos) :
    ∃ m, VecTools.max v = .ok m ∧ IsPositionsOf Scalar.eqb v m pos := by
  unfold whichMaxAll at h
  by_cases hv : v.length = 0
  · simp [hv] at h; cases h
  · simp only [hv, if_false] at h
    cases hm : VecTools.max v with
    | error e => rw [hm] at h; simp [bind, Except.bind] at h
    | ok m =>
      rw [hm] at h
      simp only [bind, Except.bind, pure, Except.pure, Except.ok.injEq] at h
      refine ⟨m, rfl, ?_⟩
      unfold IsPositionsOf
      rw [← h, positionsOf_eq]; simp

section Sets
variable {β : Type} [LinearOrder β]

theorem noAdjDup_iff (prev : β) (l : List β) (hs : (prev :: l).Pairwise (· ≤ ·)) :
    noAdjDup deq prev l = true ↔ (prev :: l).Pairwise (· < ·) := by
  induction l generalizing prev with
  | nil => simp [noAdjDup]
  | cons y ys ih =>
    have hpy : prev ≤ y := (List.pairwise_cons.mp hs).1 y (by simp)
    have hs' : (y :: ys).Pairwise (· ≤ ·) := (List.pairwise_cons.mp hs).2
    unfold noAdjDup
    by_cases hy : y = prev
    · subst hy
      simp only [deq, decide_true, if_true, Bool.false_eq_true, false_iff]
      intro hp
      exact absurd ((List.pairwise_cons.mp hp).1 y (by simp)) (lt_irrefl _)
    · have hd : deq y prev = false := by simp [hy]
      simp only [hd, Bool.false_eq_true, if_false]
      rw [ih y hs']
      have hlt : prev < y := lt_of_le_of_ne hpy (Ne.symm hy)
      constructor
      · intro hp
        rw [List.pairwise_cons]
        refine ⟨fun z hz => ?_, hp⟩
        rcases List.mem_cons.mp hz with rfl | hz
        · exact hlt
        · exact lt_of_lt_of_le hlt ((List.pairwise_cons.mp hs').1 z hz)
      · intro hp; exact (List.pairwise_cons.mp hp).2

theorem isUnique_iff' (v : List β) : isUnique deq dlt v = true ↔ v.Nodup := by
  unfold isUnique
  have hs := sorted_mergeSort_dlt v
  have hp : (v.mergeSort (leOfLt dlt)).Perm v := List.mergeSort_perm _ _
  rw [← hp.nodup_iff]
  generalize v.mergeSort (leOfLt dlt) = s at hs hp
  cases s with
  | nil => simp
  | cons x xs =>
    simp only
    rw [noAdjDup_iff x xs hs]
    constructor
    · intro h; exact h.imp (fun {a b} hab => ne_of_lt hab)
    · intro h
      have := hs.and h
      exact this.imp (fun {a b} hab => lt_of_le_of_ne hab.1 hab.2)

theorem listEq_iff (l1 l2 : List β) : listEq deq l1 l2 = true ↔ l1 = l2 := by
  induction l1 generalizing l2 with
  | nil => cases l2 <;> simp [listEq]
  | cons x xs ih =>
    cases l2 with
    | nil => simp [listEq]
    | cons y ys => simp [listEq, ih ys]

theorem haveSameElements_iff' (a b : List β) : haveSameElements deq dlt a b = true ↔ a.Perm b := by
  unfold haveSameElements
  have pa : (a.mergeSort (leOfLt dlt)).Perm a := List.mergeSort_perm _ _
  have pb : (b.mergeSort (leOfLt dlt)).Perm b := List.mergeSort_perm _ _
  by_cases hl : a.length = b.length
  · simp only [hl, ne_eq, not_true_eq_false, if_false, listEq_iff]
    constructor
    · intro h; exact pa.symm.trans (h ▸ pb)
    · intro h
      exact List.Perm.eq_of_pairwise (le := (· ≤ ·)) (fun x y _ _ h1 h2 => le_antisymm h1 h2)
        (sorted_mergeSort_dlt a) (sorted_mergeSort_dlt b) (pa.trans (h.trans pb.symm))
  · simp only [hl, ne_eq, not_false_eq_true, if_true, Bool.false_eq_true, false_iff]
    intro h; exact hl h.length_eq
end Sets

/-! ### containsAll -/
section SetsC
variable {β : Type} [LinearOrder β]

theorem containsAllLoop_spec (xs s : List β) (prev : Option β) (hxs : xs.Pairwise (· ≤ ·)) (hs : s.Pairwise (· ≤ ·))
    (hp : ∀ p, prev = some p → ∀ x ∈ xs, p ≤ x) :
    containsAllLoop deq dlt prev xs s = true ↔ ∀ z ∈ xs, (prev = some z ∨ z ∈ s) := by
  induction xs generalizing prev s with
  | nil => simp [containsAllLoop]
  | cons x xs ih =>
    have hxs' : xs.Pairwise (· ≤ ·) := (List.pairwise_cons.mp hxs).2
    have hxall : ∀ w ∈ xs, x ≤ w := (List.pairwise_cons.mp hxs).1
    by_cases hdup : prev = some x
    · subst hdup
      have : containsAllLoop deq dlt (some x) (x :: xs) s = containsAllLoop deq dlt (some x) xs s := by
        simp [containsAllLoop, sameAsPrev]
      rw [this, ih s (some x) hxs' hs (by intro p hp' w hw; cases hp'; exact hxall w hw)]
      constructor
      · intro h z hz
        rcases List.mem_cons.mp hz with rfl | hz
        · exact Or.inl rfl
        · exact h z hz
      · intro h z hz; exact h z (List.mem_cons_of_mem _ hz)
    · have hskip := skip_false prev x hdup
      have hplt : ∀ p, prev = some p → p < x := by
        intro p hp'
        have hle := hp p hp' x (by simp)
        exact lt_of_le_of_ne hle (fun h => hdup (by rw [hp', h]))
      obtain ⟨a1, a2, a3, a4⟩ := advance_spec x s hs
      have hrest := ih (advance dlt x s) (some x) hxs' a1 (by intro p hp' w hw; cases hp'; exact hxall w hw)
      have hstep : containsAllLoop deq dlt prev (x :: xs) s =
          (if x ∈ s then containsAllLoop deq dlt (some x) xs (advance dlt x s) else false) := by
        simp only [containsAllLoop, hskip, Bool.false_eq_true, if_false]
        cases hadv : advance dlt x s with
        | nil =>
          have : s = [] := a4.mp hadv
          simp [this]
        | cons y rest =>
          have := a3 y rest hadv
          simp only
          by_cases hyx : y = x
          · have h1 : deq y x = true := by simp [hyx]
            simp [h1, this.mpr hyx]
          · have h1 : deq y x = false := by simp [hyx]
            have h2 : x ∉ s := fun h => hyx (this.mp h)
            simp [h1, h2]
      rw [hstep]
      by_cases hxs_in : x ∈ s
      · simp only [hxs_in, if_true]
        rw [hrest]
        constructor
        · intro h z hz
          rcases List.mem_cons.mp hz with rfl | hz
          · exact Or.inr hxs_in
          · rcases h z hz with h' | h'
            · cases h'; exact Or.inr hxs_in
            · exact Or.inr ((a2 z (hxall z hz)).mp h')
        · intro h z hz
          rcases h z (List.mem_cons_of_mem _ hz) with h' | h'
          · have := hplt z h'
            exact absurd (lt_of_lt_of_le this (hxall z hz)) (lt_irrefl _)
          · exact Or.inr ((a2 z (hxall z hz)).mpr h')
      · simp only [hxs_in, if_false, Bool.false_eq_true, false_iff]
        intro h
        rcases h x (by simp) with h' | h'
        · exact hdup h'
        · exact hxs_in h'

theorem containsAll_iff' (a b : List β) : containsAll deq dlt a b = true ↔ ∀ x ∈ b, x ∈ a := by
  unfold containsAll
  rw [containsAllLoop_spec _ _ none (sorted_mergeSort_dlt b) (sorted_mergeSort_dlt a) (by intro p hp; cases hp)]
  simp [List.mem_mergeSort]

theorem containsAllOrig_empty_ub' (b : List β) (hb : b ≠ []) : containsAllOrig deq dlt [] b = .error .ub := by
  unfold containsAllOrig
  have hlen : (b.mergeSort (leOfLt dlt)).length = b.length := List.length_mergeSort b
  cases hs : b.mergeSort (leOfLt dlt) with
  | nil => rw [hs] at hlen; exact absurd (List.length_eq_zero_iff.mp hlen.symm) hb
  | cons x xs => simp [containsAllLoopOrig, sameAsPrev, advance]
end SetsC

/-! ### std::map as a sorted association list -/

section Maps
variable {β γ : Type} [LinearOrder β] (lt : β → β → Bool) (hlt : ∀ a b, lt a b = true ↔ a < b)

def SortedKeys (m : List (β × γ)) : Prop := (m.map (·.1)).Pairwise (· < ·)

include hlt in
theorem lt_false_iff (a b : β) : lt a b = false ↔ b ≤ a := by
  rw [← not_lt, ← hlt a b]; simp

include hlt in
theorem mapGet?_update (k : β) (f : Option γ → γ) (m : List (β × γ)) (hm : SortedKeys m) (k' : β) :
    mapGet? lt k' (mapUpdate lt k f m) = if k' = k then some (f (mapGet? lt k m)) else mapGet? lt k' m := by
  induction m with
  | nil =>
    simp only [mapUpdate, mapGet?]
    by_cases h : k' = k
    · subst h; simp [(lt_false_iff lt hlt k' k').mpr (le_refl _)]
    · simp only [h, if_false]
      rcases lt_or_gt_of_ne h with h' | h'
      · simp [(hlt k' k).mpr h']
      · simp [(lt_false_iff lt hlt k' k).mpr h'.le, (hlt k k').mpr h']
  | cons e es ih =>
    obtain ⟨k0, c0⟩ := e
    have hes : SortedKeys es := (List.pairwise_cons.mp hm).2
    have hk0 : ∀ x ∈ es.map (·.1), k0 < x := (List.pairwise_cons.mp hm).1
    simp only [mapUpdate]
    rcases lt_trichotomy k k0 with hlt0 | heq | hgt0
    · -- new key goes in front
      simp only [(hlt k k0).mpr hlt0, if_true, mapGet?]
      by_cases h : k' = k
      · subst h; simp [(lt_false_iff lt hlt k' k').mpr (le_refl _)]
      · simp only [h, if_false]
        rcases lt_or_gt_of_ne h with h' | h'
        · simp [(hlt k' k).mpr h', (hlt k' k0).mpr (lt_trans h' hlt0)]
        · simp [(lt_false_iff lt hlt k' k).mpr h'.le, (hlt k k').mpr h']
    · subst heq
      simp only [(lt_false_iff lt hlt k k).mpr (le_refl _), Bool.false_eq_true, if_false, mapGet?]
      by_cases h : k' = k
      · subst h; simp [(lt_false_iff lt hlt k' k').mpr (le_refl _)]
      · simp only [h, if_false]
        rcases lt_or_gt_of_ne h with h' | h'
        · simp [(hlt k' k).mpr h']
        · simp [(lt_false_iff lt hlt k' k).mpr h'.le, (hlt k k').mpr h']
    · simp only [(lt_false_iff lt hlt k k0).mpr hgt0.le, Bool.false_eq_true, if_false, (hlt k0 k).mpr hgt0, if_true, mapGet?]
      rw [ih hes]
      by_cases h : k' = k
      · subst h
        simp [(lt_false_iff lt hlt k' k0).mpr hgt0.le, (hlt k0 k').mpr hgt0]
      · simp only [h, if_false]

include hlt in
theorem mapUpdate_keys (k : β) (f : Option γ → γ) (m : List (β × γ)) (hm : SortedKeys m) :
    SortedKeys (mapUpdate lt k f m) ∧ ∀ x, x ∈ (mapUpdate lt k f m).map (·.1) ↔ x = k ∨ x ∈ m.map (·.1) := by
  induction m with
  | nil => simp [mapUpdate, SortedKeys]
  | cons e es ih =>
    obtain ⟨k0, c0⟩ := e
    have hes : SortedKeys es := (List.pairwise_cons.mp hm).2
    have hk0 : ∀ x ∈ es.map (·.1), k0 < x := (List.pairwise_cons.mp hm).1
    simp only [mapUpdate]
    rcases lt_trichotomy k k0 with hlt0 | heq | hgt0
    · simp only [(hlt k k0).mpr hlt0, if_true]
      refine ⟨?_, by intro x; simp⟩
      unfold SortedKeys
      simp only [List.map_cons, List.pairwise_cons]
      refine ⟨?_, List.pairwise_cons.mp hm⟩
      intro x hx
      rcases List.mem_cons.mp hx with h | hx
      · rw [h]; exact hlt0
      · exact lt_trans hlt0 (hk0 x hx)
    · subst heq
      simp only [(lt_false_iff lt hlt k k).mpr (le_refl _), Bool.false_eq_true, if_false]
      refine ⟨hm, by intro x; simp⟩
    · simp only [(lt_false_iff lt hlt k k0).mpr hgt0.le, Bool.false_eq_true, if_false, (hlt k0 k).mpr hgt0, if_true]
      obtain ⟨i1, i2⟩ := ih hes
      refine ⟨?_, ?_⟩
      · unfold SortedKeys
        simp only [List.map_cons, List.pairwise_cons]
        refine ⟨?_, i1⟩
        intro x hx
        rcases (i2 x).mp hx with rfl | hx
        · exact hgt0
        · exact hk0 x hx
      · intro x
        simp only [List.map_cons, List.mem_cons, i2 x]
        tauto

include hlt in
theorem mapGet?_eq_some_iff (m : List (β × γ)) (hm : SortedKeys m) (k : β) (c : γ) :
    mapGet? lt k m = some c ↔ (k, c) ∈ m := by
  induction m with
  | nil => simp [mapGet?]
  | cons e es ih =>
    obtain ⟨k0, c0⟩ := e
    have hes : SortedKeys es := (List.pairwise_cons.mp hm).2
    have hk0 : ∀ x ∈ es.map (·.1), k0 < x := (List.pairwise_cons.mp hm).1
    simp only [mapGet?, List.mem_cons, Prod.mk.injEq]
    rcases lt_trichotomy k k0 with hlt0 | heq | hgt0
    · simp only [(hlt k k0).mpr hlt0, if_true]
      constructor
      · intro h; cases h
      · rintro (⟨rfl, -⟩ | h)
        · exact absurd hlt0 (lt_irrefl _)
        · have := hk0 k (List.mem_map.mpr ⟨(k, c), h, rfl⟩)
          exact absurd (lt_trans hlt0 this) (lt_irrefl _)
    · subst heq
      simp only [(lt_false_iff lt hlt k k).mpr (le_refl _), Bool.false_eq_true, if_false, Option.some.injEq, true_and]
      constructor
      · intro h; exact Or.inl h.symm
      · rintro (h | h)
        · exact h.symm
        · have := hk0 k (List.mem_map.mpr ⟨(k, c), h, rfl⟩)
          exact absurd this (lt_irrefl _)
    · simp only [(lt_false_iff lt hlt k k0).mpr hgt0.le, Bool.false_eq_true, if_false, (hlt k0 k).mpr hgt0, if_true]
      rw [ih hes]
      constructor
      · intro h; exact Or.inr h
      · rintro (⟨rfl, -⟩ | h)
        · exact absurd hgt0 (lt_irrefl _)
        · exact h
end Maps

/-! ### count maps, shannonDiscrete -/
section CountMaps
open scoped BigOperators

theorem real_ltb_iff (a b : ℝ) : Scalar.ltb a b = true ↔ a < b := ltb_iff a b

/-- invariant of the count map after processing `l` -/
def CountInv (m : List (ℝ × ℝ)) (l : List ℝ) : Prop :=
  SortedKeys m ∧ ∀ k, mapGet? Scalar.ltb k m = if l.count k = 0 then none else some (l.count k : ℝ)

theorem countMap_fold (v l : List ℝ) (m : List (ℝ × ℝ)) (h : CountInv m l) :
    CountInv (v.foldl (fun m x => mapUpdate Scalar.ltb x (fun o => o.getD Scalar.zero + Scalar.one) m) m) (l ++ v) := by
  induction v generalizing m l with
  | nil => simpa using h
  | cons x xs ih =>
    simp only [List.foldl_cons]
    have := ih (l ++ [x]) (mapUpdate Scalar.ltb x (fun o => o.getD Scalar.zero + Scalar.one) m) ?_
    · simpa using this
    · obtain ⟨hs, hg⟩ := h
      refine ⟨(mapUpdate_keys _ real_ltb_iff x _ m hs).1, ?_⟩
      intro k
      rw [mapGet?_update _ real_ltb_iff x _ m hs k]
      by_cases hk : k = x
      · subst hk
        simp only [if_true, hg k, List.count_append, List.count_singleton_self]
        by_cases hc : l.count k = 0
        · simp [hc]
        · simp [hc]
      · simp only [hk, if_false, hg k, List.count_append]
        have : [x].count k = 0 := by simp [Ne.symm hk]
        simp [this]

theorem countMap_inv (v : List ℝ) : CountInv (countMap v) v := by
  have := countMap_fold v [] [] ⟨by simp [SortedKeys], by intro k; simp [mapGet?]⟩
  simpa [countMap] using this

theorem countMap_mem (v : List ℝ) (k c : ℝ) : (k, c) ∈ countMap v ↔ k ∈ v ∧ c = (v.count k : ℝ) := by
  obtain ⟨hs, hg⟩ := countMap_inv v
  rw [← mapGet?_eq_some_iff _ real_ltb_iff _ hs, hg k]
  by_cases hc : v.count k = 0
  · simp only [hc, if_true]
    have : k ∉ v := List.count_eq_zero.mp hc
    simp [this]
  · simp only [hc, if_false, Option.some.injEq]
    have : k ∈ v := by
      by_contra h; exact hc (List.count_eq_zero.mpr h)
    simp [this, eq_comm]

theorem countMap_get (v : List ℝ) (k : ℝ) : (mapGet? Scalar.ltb k (countMap v)).getD Scalar.zero = (v.count k : ℝ) := by
  obtain ⟨-, hg⟩ := countMap_inv v
  rw [hg k]
  by_cases hc : v.count k = 0 <;> simp [hc]

/-- a sum over the count map is a sum over the distinct elements -/
theorem countMap_sum (v : List ℝ) (g : ℝ → ℝ → ℝ) :
    ((countMap v).map (fun kc => g kc.1 kc.2)).sum = ∑ k ∈ v.toFinset, g k (v.count k : ℝ) := by
  obtain ⟨hs, -⟩ := countMap_inv v
  have hnd : ((countMap v).map (·.1)).Nodup := hs.imp (fun {a b} h => ne_of_lt h)
  have hval : (countMap v).map (fun kc => g kc.1 kc.2) = ((countMap v).map (·.1)).map (fun k => g k (v.count k : ℝ)) := by
    rw [List.map_map]
    apply List.map_congr_left
    intro kc hkc
    have := (countMap_mem v kc.1 kc.2).mp hkc
    simp [this.2]
  have hfs : ((countMap v).map (·.1)).toFinset = v.toFinset := by
    ext k
    simp only [List.mem_toFinset, List.mem_map]
    constructor
    · rintro ⟨kc, hkc, rfl⟩; exact ((countMap_mem v kc.1 kc.2).mp hkc).1
    · intro hk; exact ⟨(k, (v.count k : ℝ)), (countMap_mem v k _).mpr ⟨hk, rfl⟩, rfl⟩
  rw [hval, ← List.sum_toFinset _ hnd, hfs]

theorem shannonDiscrete_eq (v : List ℝ) (base : ℝ) :
    shannonDiscrete v base =
      - ∑ k ∈ v.toFinset, ((v.count k : ℝ) / v.length) * Real.log ((v.count k : ℝ) / v.length) / Real.log base := by
  unfold shannonDiscrete
  simp only
  have : ∀ (m : List (ℝ × ℝ)) (a : ℝ),
      m.foldl (fun s (kc : ℝ × ℝ) => s + (kc.2 / Scalar.ofInt (v.length : Int)) * Scalar.log (kc.2 / Scalar.ofInt (v.length : Int)) / Scalar.log base) a =
        a + (m.map (fun kc => (kc.2 / (v.length : ℝ)) * Real.log (kc.2 / (v.length : ℝ)) / Real.log base)).sum := by
    intro m
    induction m with
    | nil => intro a; simp
    | cons e es ih => intro a; simp only [List.foldl_cons, List.map_cons, List.sum_cons]; rw [ih]; simp; ring
  rw [this, countMap_sum v (fun _ c => (c / (v.length : ℝ)) * Real.log (c / (v.length : ℝ)) / Real.log base)]
  simp

/-! joint count map, miDiscrete -/

/-- the inner map of the row `a` holds the occurrence counts of the pairs `(a, ·)` -/
def RowInv (a : ℝ) (inner : List (ℝ × ℝ)) (l : List (ℝ × ℝ)) : Prop :=
  SortedKeys inner ∧ ∀ b, mapGet? Scalar.ltb b inner = if l.count (a, b) = 0 then none else some (l.count (a, b) : ℝ)

/-- invariant of the joint count map after processing the pairs `l` -/
def Count2Inv (m : List (ℝ × List (ℝ × ℝ))) (l : List (ℝ × ℝ)) : Prop :=
  SortedKeys m ∧ ∀ a, match mapGet? Scalar.ltb a m with
    | none => ∀ b, l.count (a, b) = 0
    | some inner => RowInv a inner l

theorem rowInv_nil (a : ℝ) (l : List (ℝ × ℝ)) (h : ∀ b, l.count (a, b) = 0) : RowInv a [] l :=
  ⟨by simp [SortedKeys], by intro b; simp [mapGet?, h b]⟩

theorem count2_fold (z l : List (ℝ × ℝ)) (m : List (ℝ × List (ℝ × ℝ))) (h : Count2Inv m l) :
    Count2Inv (z.foldl (fun m (ab : ℝ × ℝ) =>
      mapUpdate Scalar.ltb ab.1 (fun o => mapUpdate Scalar.ltb ab.2 (fun c => c.getD Scalar.zero + Scalar.one) (o.getD [])) m) m) (l ++ z) := by
  induction z generalizing m l with
  | nil => simpa using h
  | cons ab rest ih =>
    obtain ⟨a, b⟩ := ab
    simp only [List.foldl_cons]
    have := ih (l ++ [(a, b)]) (mapUpdate Scalar.ltb a (fun o => mapUpdate Scalar.ltb b (fun c => c.getD Scalar.zero + Scalar.one) (o.getD [])) m) ?_
    · simpa using this
    · obtain ⟨hs, hg⟩ := h
      refine ⟨(mapUpdate_keys _ real_ltb_iff a _ m hs).1, ?_⟩
      intro a'
      rw [mapGet?_update _ real_ltb_iff a _ m hs a']
      by_cases ha : a' = a
      · subst ha
        simp only [if_true]
        -- the old row (possibly absent)
        have hold : RowInv a' ((mapGet? Scalar.ltb a' m).getD []) l := by
          have := hg a'
          cases hget : mapGet? Scalar.ltb a' m with
          | none => rw [hget] at this; exact rowInv_nil a' l this
          | some inner => rw [hget] at this; exact this
        obtain ⟨hs', hg'⟩ := hold
        refine ⟨(mapUpdate_keys _ real_ltb_iff b _ _ hs').1, ?_⟩
        intro b'
        rw [mapGet?_update _ real_ltb_iff b _ _ hs' b']
        by_cases hb : b' = b
        · subst hb
          simp only [if_true, hg' b', List.count_append, List.count_singleton_self]
          by_cases hc : l.count (a', b') = 0 <;> simp [hc]
        · simp only [hb, if_false, hg' b', List.count_append]
          have : [(a', b)].count (a', b') = 0 := by
            simp only [List.count_singleton, beq_iff_eq, Prod.mk.injEq, true_and]
            simp [Ne.symm hb]
          simp [this]
      · simp only [ha, if_false]
        have hcnt : ∀ b', (l ++ [(a, b)]).count (a', b') = l.count (a', b') := by
          intro b'
          have : [(a, b)].count (a', b') = 0 := by
            simp only [List.count_singleton, beq_iff_eq, Prod.mk.injEq]
            simp [Ne.symm ha]
          simp [List.count_append, this]
        have := hg a'
        cases hget : mapGet? Scalar.ltb a' m with
        | none => rw [hget] at this; simpa [hcnt] using this
        | some inner =>
          rw [hget] at this
          obtain ⟨i1, i2⟩ := this
          exact ⟨i1, by intro b'; rw [hcnt b']; exact i2 b'⟩

theorem countMap2_inv (v1 v2 : List ℝ) : Count2Inv (countMap2 v1 v2) (List.zip v1 v2) := by
  have := count2_fold (List.zip v1 v2) [] [] ⟨by simp [SortedKeys], by intro a; simp [mapGet?]⟩
  simpa [countMap2] using this

/-- the entries of the joint count map -/
theorem countMap2_mem (v1 v2 : List ℝ) (a b c : ℝ) :
    (∃ inner, (a, inner) ∈ countMap2 v1 v2 ∧ (b, c) ∈ inner) ↔
      (a, b) ∈ List.zip v1 v2 ∧ c = ((List.zip v1 v2).count (a, b) : ℝ) := by
  obtain ⟨hs, hg⟩ := countMap2_inv v1 v2
  constructor
  · rintro ⟨inner, h1, h2⟩
    have hget := (mapGet?_eq_some_iff _ real_ltb_iff _ hs a inner).mpr h1
    have := hg a
    rw [hget] at this
    obtain ⟨i1, i2⟩ := this
    have hb := (mapGet?_eq_some_iff _ real_ltb_iff _ i1 b c).mpr h2
    rw [i2 b] at hb
    by_cases hc : (List.zip v1 v2).count (a, b) = 0
    · simp [hc] at hb
    · simp only [hc, if_false, Option.some.injEq] at hb
      exact ⟨by by_contra h; exact hc (List.count_eq_zero.mpr h), hb.symm⟩
  · rintro ⟨hmem, rfl⟩
    have hc : (List.zip v1 v2).count (a, b) ≠ 0 := fun h => (List.count_eq_zero.mp h) hmem
    have := hg a
    cases hget : mapGet? Scalar.ltb a (countMap2 v1 v2) with
    | none => rw [hget] at this; exact absurd (this b) hc
    | some inner =>
      rw [hget] at this
      obtain ⟨i1, i2⟩ := this
      refine ⟨inner, (mapGet?_eq_some_iff _ real_ltb_iff _ hs a inner).mp hget, ?_⟩
      rw [← mapGet?_eq_some_iff _ real_ltb_iff _ i1, i2 b]; simp [hc]

/-- the joint count map flattened to ((a,b), count) entries -/
def flat2 (m : List (ℝ × List (ℝ × ℝ))) : List ((ℝ × ℝ) × ℝ) :=
  m.flatMap (fun row => row.2.map (fun kc => ((row.1, kc.1), kc.2)))

theorem flat2_mem (v1 v2 : List ℝ) (p : ℝ × ℝ) (c : ℝ) :
    (p, c) ∈ flat2 (countMap2 v1 v2) ↔ p ∈ List.zip v1 v2 ∧ c = ((List.zip v1 v2).count p : ℝ) := by
  obtain ⟨a, b⟩ := p
  rw [← countMap2_mem]
  simp only [flat2, List.mem_flatMap, List.mem_map, Prod.mk.injEq, Prod.exists]
  constructor
  · rintro ⟨a', inner, h1, b', c', h2, ⟨rfl, rfl⟩, rfl⟩; exact ⟨inner, h1, h2⟩
  · rintro ⟨inner, h1, h2⟩; exact ⟨a, inner, h1, b, c, h2, ⟨rfl, rfl⟩, rfl⟩

theorem flat2_keys_nodup (v1 v2 : List ℝ) : ((flat2 (countMap2 v1 v2)).map (·.1)).Nodup := by
  obtain ⟨hs, hg⟩ := countMap2_inv v1 v2
  have hrows : ∀ row ∈ countMap2 v1 v2, SortedKeys row.2 := by
    intro row hrow
    have hget := (mapGet?_eq_some_iff _ real_ltb_iff _ hs row.1 row.2).mpr hrow
    have := hg row.1
    rw [hget] at this
    exact this.1
  generalize countMap2 v1 v2 = m at hs hrows
  unfold flat2
  induction m with
  | nil => simp
  | cons row rest ih =>
    have hrest : SortedKeys rest := (List.pairwise_cons.mp hs).2
    have hk : ∀ x ∈ rest.map (·.1), row.1 < x := (List.pairwise_cons.mp hs).1
    simp only [List.flatMap_cons, List.map_append, List.map_map]
    rw [List.nodup_append]
    refine ⟨?_, ih hrest (fun r hr => hrows r (List.mem_cons_of_mem _ hr)), ?_⟩
    · have hsr := hrows row (by simp)
      have : (row.2.map ((fun x => x.1) ∘ fun kc => ((row.1, kc.1), kc.2))) = (row.2.map (·.1)).map (fun b => (row.1, b)) := by
        rw [List.map_map]; rfl
      rw [this]
      apply List.Nodup.map
      · intro b b' h; exact (Prod.mk.inj h).2
      · exact hsr.imp (fun {x y} h => ne_of_lt h)
    · intro p hp q hq hpq
      obtain ⟨kc, -, rfl⟩ := List.mem_map.mp hp
      simp only [List.mem_map, List.mem_flatMap] at hq
      obtain ⟨e, ⟨row', hrow', hin⟩, rfl⟩ := hq
      obtain ⟨kc', -, rfl⟩ := hin
      have : row.1 = row'.1 := (Prod.mk.inj hpq).1
      have hl := hk row'.1 (List.mem_map.mpr ⟨row', hrow', rfl⟩)
      rw [this] at hl; exact absurd hl (lt_irrefl _)

theorem fold2_eq (G : ℝ → ℝ → ℝ → ℝ) (m : List (ℝ × List (ℝ × ℝ))) (a : ℝ) :
    m.foldl (fun s (row : ℝ × List (ℝ × ℝ)) => row.2.foldl (fun s (kc : ℝ × ℝ) => s + G row.1 kc.1 kc.2) s) a =
      a + ((flat2 m).map (fun e => G e.1.1 e.1.2 e.2)).sum := by
  have inner : ∀ (r : ℝ) (l : List (ℝ × ℝ)) (s : ℝ),
      l.foldl (fun s (kc : ℝ × ℝ) => s + G r kc.1 kc.2) s = s + (l.map (fun kc => G r kc.1 kc.2)).sum := by
    intro r l
    induction l with
    | nil => intro s; simp
    | cons e es ih => intro s; simp only [List.foldl_cons, List.map_cons, List.sum_cons]; rw [ih]; ring
  induction m generalizing a with
  | nil => simp [flat2]
  | cons row rest ih =>
    simp only [List.foldl_cons]
    rw [ih, inner]
    simp only [flat2, List.flatMap_cons, List.map_append, List.sum_append, List.map_map]
    rw [add_assoc]; rfl

/-- a sum over the joint count map is a sum over the distinct observed pairs -/
theorem countMap2_sum (v1 v2 : List ℝ) (G : ℝ → ℝ → ℝ → ℝ) :
    ((flat2 (countMap2 v1 v2)).map (fun e => G e.1.1 e.1.2 e.2)).sum =
      ∑ p ∈ (List.zip v1 v2).toFinset, G p.1 p.2 ((List.zip v1 v2).count p : ℝ) := by
  have hnd := flat2_keys_nodup v1 v2
  have hval : (flat2 (countMap2 v1 v2)).map (fun e => G e.1.1 e.1.2 e.2) =
      ((flat2 (countMap2 v1 v2)).map (·.1)).map (fun p => G p.1 p.2 ((List.zip v1 v2).count p : ℝ)) := by
    rw [List.map_map]
    apply List.map_congr_left
    intro e he
    have := (flat2_mem v1 v2 e.1 e.2).mp he
    simp [this.2]
  have hfs : ((flat2 (countMap2 v1 v2)).map (·.1)).toFinset = (List.zip v1 v2).toFinset := by
    ext p
    simp only [List.mem_toFinset, List.mem_map]
    constructor
    · rintro ⟨e, he, rfl⟩; exact ((flat2_mem v1 v2 e.1 e.2).mp he).1
    · intro hp; exact ⟨(p, _), (flat2_mem v1 v2 p _).mpr ⟨hp, rfl⟩, rfl⟩
  rw [hval, ← List.sum_toFinset _ hnd, hfs]

theorem miDiscrete_eq (v1 v2 : List ℝ) (base : ℝ) (h : v1.length = v2.length) :
    miDiscrete v1 v2 base = .ok (∑ p ∈ (List.zip v1 v2).toFinset,
      (((List.zip v1 v2).count p : ℝ) / v1.length) *
        Real.log (((List.zip v1 v2).count p : ℝ) * v1.length / ((v1.count p.1 : ℝ) * (v2.count p.2 : ℝ))) / Real.log base) := by
  unfold miDiscrete
  rw [if_neg (by simpa using h)]
  simp only
  congr 1
  have hget : ∀ (v : List ℝ) (k : ℝ), (mapGet? Scalar.ltb k (countMap v)).getD 0 = (v.count k : ℝ) := fun v k => by
    have := countMap_get v k; simpa using this
  simp only [ofInt_eq, Int.cast_natCast, log_eq, zero_eq, hget]
  have key := fold2_eq (fun a b c => (c / (v1.length : ℝ)) *
      Real.log (c * (v1.length : ℝ) / ((v1.count a : ℝ) * (v2.count b : ℝ))) / Real.log base) (countMap2 v1 v2) 0
  have key2 := countMap2_sum v1 v2 (fun a b c => (c / (v1.length : ℝ)) *
      Real.log (c * (v1.length : ℝ) / ((v1.count a : ℝ) * (v2.count b : ℝ))) / Real.log base)
  rw [zero_add] at key
  exact key.trans key2
end CountMaps

/-! ### weighted moments -/

theorem zipWith3_self_nonneg (xs cs : List ℝ) (h : ∀ c ∈ cs, 0 ≤ c) :
    0 ≤ (zipWith3 (fun x y c => x * y * c) xs xs cs).sum := by
  induction xs generalizing cs with
  | nil => simp [zipWith3]
  | cons z zs ih =>
    cases cs with
    | nil => simp [zipWith3]
    | cons d ds =>
      simp only [zipWith3, List.sum_cons]
      have := ih ds (fun e he => h e (by simp [he]))
      have hd : 0 ≤ d := h d (by simp)
      nlinarith [mul_self_nonneg z]

/-- weighted Cauchy–Schwarz for lists (non-negative weights) -/
theorem cauchy_schwarz_weighted (a b w : List ℝ) (hw : ∀ c ∈ w, 0 ≤ c) :
    (zipWith3 (fun x y c => x * y * c) a b w).sum ^ 2 ≤
      (zipWith3 (fun x y c => x * y * c) a a w).sum * (zipWith3 (fun x y c => x * y * c) b b w).sum := by
  induction a generalizing b w with
  | nil => simp [zipWith3]
  | cons x xs ih =>
    cases b with
    | nil => simp [zipWith3]
    | cons y ys =>
      cases w with
      | nil => simp [zipWith3]
      | cons c cs =>
        have hc : 0 ≤ c := hw c (by simp)
        have hcs : ∀ d ∈ cs, 0 ≤ d := fun d hd => hw d (by simp [hd])
        simp only [zipWith3, List.sum_cons]
        have hA := zipWith3_self_nonneg xs cs hcs
        have hB := zipWith3_self_nonneg ys cs hcs
        have key := cs_step (Real.sqrt c * x) (Real.sqrt c * y) _ _ _ hA hB (ih ys cs hcs)
        have hs : Real.sqrt c * Real.sqrt c = c := Real.mul_self_sqrt hc
        have e1 : Real.sqrt c * x * (Real.sqrt c * y) = x * y * c := by
          calc Real.sqrt c * x * (Real.sqrt c * y) = (Real.sqrt c * Real.sqrt c) * (x * y) := by ring
            _ = x * y * c := by rw [hs]; ring
        have e2 : (Real.sqrt c * x) ^ 2 = x * x * c := by
          calc (Real.sqrt c * x) ^ 2 = (Real.sqrt c * Real.sqrt c) * (x * x) := by ring
            _ = x * x * c := by rw [hs]; ring
        have e3 : (Real.sqrt c * y) ^ 2 = y * y * c := by
          calc (Real.sqrt c * y) ^ 2 = (Real.sqrt c * Real.sqrt c) * (y * y) := by ring
            _ = y * y * c := by rw [hs]; ring
        rw [e1, e2, e3] at key
        exact key

/-- the weights actually used by the weighted moments -/
noncomputable def normW' (w : List ℝ) (nw : Bool) : List ℝ := if nw then w.map (· / w.sum) else w

theorem covW_eq (v1 v2 w : List ℝ) (u nw : Bool) (h1 : v1.length = w.length) (h2 : v2.length = w.length) :
    covW v1 v2 w u nw = .ok (
      let wn := normW' w nw
      let m1 := (List.zipWith (· * ·) v1 wn).sum
      let m2 := (List.zipWith (· * ·) v2 wn).sum
      let x := (zipWith3 (fun a b c => a * b * c) (v1.map (· - m1)) (v2.map (· - m2)) wn).sum
      if u then x / (1 - (wn.map (fun a => a * a)).sum) else x) := by
  have hwn : (normW' w nw).length = w.length := by unfold normW'; split <;> simp
  have hwn' : (if nw then divC w (VecTools.sum w) else w) = normW' w nw := by
    unfold normW'; simp [divC, sum_eq]
  unfold covW
  simp only [hwn']
  have c1 : centerW v1 (normW' w nw) false = .ok (v1.map (· - (List.zipWith (· * ·) v1 (normW' w nw)).sum)) := by
    simp [centerW, meanW, scalar_eq v1 _ (h1.trans hwn.symm), bind, Except.bind, pure, Except.pure]
  have c2 : centerW v2 (normW' w nw) false = .ok (v2.map (· - (List.zipWith (· * ·) v2 (normW' w nw)).sum)) := by
    simp [centerW, meanW, scalar_eq v2 _ (h2.trans hwn.symm), bind, Except.bind, pure, Except.pure]
  rw [c1, c2]
  simp only [bind, Except.bind]
  rw [scalarW_eq _ _ _ (by simp [h1, hwn]) (by simp [h2, hwn])]
  simp [pure, Except.pure, sum_eq]

theorem corW_sq_le_one' (v1 v2 w : List ℝ) (nw : Bool) (h1 : v1.length = w.length) (h2 : v2.length = w.length)
    (hw : ∀ c ∈ normW' w nw, 0 ≤ c)
    (hA : ∃ a, varW v1 (normW' w nw) false false = .ok a ∧ 0 < a)
    (hB : ∃ b, varW v2 (normW' w nw) false false = .ok b ∧ 0 < b) :
    ∃ r, corW v1 v2 w nw = .ok r ∧ r ^ 2 ≤ 1 := by
  have hwn : (normW' w nw).length = w.length := by unfold normW'; split <;> simp
  have hwn' : (if nw then divC w (VecTools.sum w) else w) = normW' w nw := by
    unfold normW'; simp [divC, sum_eq]
  have hid : normW' (normW' w nw) false = normW' w nw := by simp [normW']
  obtain ⟨a, ha, hapos⟩ := hA
  obtain ⟨b, hb, hbpos⟩ := hB
  unfold varW at ha hb
  have e12 := covW_eq v1 v2 (normW' w nw) false false (h1.trans hwn.symm) (h2.trans hwn.symm)
  have e11 := covW_eq v1 v1 (normW' w nw) false false (h1.trans hwn.symm) (h1.trans hwn.symm)
  have e22 := covW_eq v2 v2 (normW' w nw) false false (h2.trans hwn.symm) (h2.trans hwn.symm)
  simp only [hid, Bool.false_eq_true, if_false] at e12 e11 e22
  rw [e11] at ha; rw [e22] at hb
  simp only [Except.ok.injEq] at ha hb
  unfold corW sdW varW
  simp only [hwn']
  rw [e12, e11, e22]
  refine ⟨_, rfl, ?_⟩
  simp only [sqrt_eq]
  set wn := normW' w nw
  set c1 := v1.map (· - (List.zipWith (· * ·) v1 wn).sum)
  set c2 := v2.map (· - (List.zipWith (· * ·) v2 wn).sum)
  have hcs := cauchy_schwarz_weighted c1 c2 wn hw
  rw [ha] at hcs ⊢; rw [hb] at hcs ⊢
  rw [div_pow, mul_pow, Real.sq_sqrt hapos.le, Real.sq_sqrt hbpos.le, div_le_one (mul_pos hapos hbpos)]
  exact hcs

theorem foldl_append_flatten {α : Type} (vs : List (List α)) (acc : List α) :
    vs.foldl (fun acc v => acc ++ v) acc = acc ++ vs.flatten := by
  induction vs generalizing acc with
  | nil => simp
  | cons v rest ih => simp [ih]


end Bpp.VecTools
