import BppModel.VecTools
import BppProofs.Lemmas.ScalarReal
import Mathlib.Algebra.BigOperators.Group.List.Basic
import Mathlib.Algebra.Order.BigOperators.Group.List
import Mathlib.Tactic.Ring
import Mathlib.Tactic.Linarith
import Mathlib.Tactic.FieldSimp
/-!
Helper lemmas for C07 (model `BppModel/VecTools.lean` read at `ℝ`).
-/
namespace Bpp.VecTools
open Bpp Bpp.ScalarReal

/-! ### sums and products -/

theorem foldl_add_eq (l : List ℝ) (a : ℝ) : l.foldl (· + ·) a = a + l.sum := by
  induction l generalizing a with
  | nil => simp
  | cons x xs ih => simp [List.foldl_cons, ih, add_assoc]

theorem foldl_mul_eq (l : List ℝ) (a : ℝ) : l.foldl (· * ·) a = a * l.prod := by
  induction l generalizing a with
  | nil => simp
  | cons x xs ih => simp [List.foldl_cons, ih, mul_assoc]

theorem sum_eq (v : List ℝ) : VecTools.sum v = v.sum := by
  simp [VecTools.sum, foldl_add_eq]

theorem prod_eq (v : List ℝ) : VecTools.prod v = v.prod := by
  simp [VecTools.prod, foldl_mul_eq]

@[simp] theorem specSum_eq (v : List ℝ) : Spec.sum v = v.sum := by
  induction v with
  | nil => simp [Spec.sum]
  | cons x xs ih => simp only [Spec.sum, List.foldr_cons, List.sum_cons] at *; rw [ih]

@[simp] theorem specProd_eq (v : List ℝ) : Spec.prod v = v.prod := by
  induction v with
  | nil => simp [Spec.prod]
  | cons x xs ih => simp only [Spec.prod, List.foldr_cons, List.prod_cons] at *; rw [ih]

theorem cumSumAux_length (acc : ℝ) (v : List ℝ) : (cumSumAux acc v).length = v.length := by
  induction v generalizing acc with
  | nil => rfl
  | cons x xs ih => simp [cumSumAux, ih]

theorem cumSumAux_get (acc : ℝ) (v : List ℝ) (i : Nat) (h : i < v.length) :
    (cumSumAux acc v)[i]? = some (acc + (v.take (i + 1)).sum) := by
  induction v generalizing acc i with
  | nil => simp at h
  | cons x xs ih =>
    cases i with
    | zero => simp [cumSumAux]
    | succ j =>
      have hj : j < xs.length := by simpa using h
      simp only [cumSumAux, List.getElem?_cons_succ, List.take_succ_cons, List.sum_cons]
      rw [ih (acc + x) j hj]; congr 1; ring

theorem cumProdAux_length (acc : ℝ) (v : List ℝ) : (cumProdAux acc v).length = v.length := by
  induction v generalizing acc with
  | nil => rfl
  | cons x xs ih => simp [cumProdAux, ih]

theorem cumProdAux_get (acc : ℝ) (v : List ℝ) (i : Nat) (h : i < v.length) :
    (cumProdAux acc v)[i]? = some (acc * (v.take (i + 1)).prod) := by
  induction v generalizing acc i with
  | nil => simp at h
  | cons x xs ih =>
    cases i with
    | zero => simp [cumProdAux, mul_comm]
    | succ j =>
      have hj : j < xs.length := by simpa using h
      simp only [cumProdAux, List.getElem?_cons_succ, List.take_succ_cons, List.prod_cons]
      rw [ih (x * acc) j hj]; congr 1; ring

/-! ### scalar products, means, covariance -/

theorem scalar_eq (v1 v2 : List ℝ) (h : v1.length = v2.length) :
    scalar v1 v2 = .ok (List.zipWith (· * ·) v1 v2).sum := by
  simp [scalar, h, foldl_add_eq]

theorem scalar_mismatch (v1 v2 : List ℝ) (h : v1.length ≠ v2.length) :
    scalar v1 v2 = .error .dimension := by
  simp [scalar, h]

@[simp] theorem specDot_eq (a b : List ℝ) : Spec.dot a b = (List.zipWith (· * ·) a b).sum := by
  simp [Spec.dot]

theorem mean_eq (v : List ℝ) : mean v = v.sum / (v.length : ℝ) := by
  simp [mean, sum_eq]

@[simp] theorem specMean_eq (v : List ℝ) : Spec.mean v = v.sum / (v.length : ℝ) := by
  simp [Spec.mean]

theorem center_eq (v : List ℝ) : center v = v.map (· - v.sum / (v.length : ℝ)) := by
  simp [center, mean_eq]

theorem specCov_eq (a b : List ℝ) (u : Bool) :
    Spec.cov a b u = (List.zipWith (fun x y => (x - a.sum / (a.length : ℝ)) * (y - b.sum / (b.length : ℝ))) a b).sum /
      (if u then (a.length : ℝ) - 1 else (a.length : ℝ)) := by
  unfold Spec.cov; cases u <;> simp

theorem zipWith_mul_comm (a b : List ℝ) : List.zipWith (· * ·) a b = List.zipWith (· * ·) b a := by
  induction a generalizing b with
  | nil => simp
  | cons x xs ih => cases b with
    | nil => simp
    | cons y ys => simp [ih ys, mul_comm]

/-- Σ (aᵢ - c) = Σ aᵢ - n·c -/
theorem sum_map_sub_const (a : List ℝ) (c : ℝ) : (a.map (· - c)).sum = a.sum - a.length * c := by
  induction a with
  | nil => simp
  | cons x xs ih => simp [ih]; ring

theorem zipWith_mul_map_div (v w : List ℝ) (s : ℝ) :
    (List.zipWith (· * ·) v (w.map (· / s))).sum = (List.zipWith (· * ·) v w).sum / s := by
  induction v generalizing w with
  | nil => simp
  | cons x xs ih => cases w with
    | nil => simp
    | cons y ys =>
      simp only [List.map_cons, List.zipWith_cons_cons, List.sum_cons, ih ys]
      ring

theorem meanW_eq (v w : List ℝ) (h : v.length = w.length) :
    meanW v w true = .ok ((List.zipWith (· * ·) v w).sum / w.sum) := by
  have hl : v.length = (divC w (VecTools.sum w)).length := by simp [divC, h]
  rw [meanW, if_pos rfl, scalar_eq _ _ hl, sum_eq, divC]
  rw [← zipWith_mul_map_div]

theorem scalar_center (v1 v2 : List ℝ) (h : v1.length = v2.length) :
    scalar (center v1) (center v2) = .ok (List.zipWith (fun x y => (x - v1.sum / (v1.length : ℝ)) * (y - v2.sum / (v2.length : ℝ))) v1 v2).sum := by
  have hl : (center v1).length = (center v2).length := by simp [center, h]
  rw [scalar_eq _ _ hl, center_eq, center_eq, List.zipWith_map]

theorem cov_eq (v1 v2 : List ℝ) (u : Bool) (h : v1.length = v2.length)
    (hn : (if u then 2 else 1) ≤ v1.length) : cov v1 v2 u = .ok (Spec.cov v1 v2 u) := by
  have hn0 : (v1.length : ℝ) ≠ 0 := by
    have : 1 ≤ v1.length := by split at hn <;> omega
    exact_mod_cast (by omega : v1.length ≠ 0)
  rw [cov, scalar_center v1 v2 h, specCov_eq]
  simp only [bind, Except.bind, pure, Except.pure, ofInt_eq, one_eq, Int.cast_natCast]
  cases u with
  | false => simp
  | true =>
    simp only [if_true]
    have hn1 : (v1.length : ℝ) - 1 ≠ 0 := by
      have : (2:ℝ) ≤ (v1.length : ℝ) := by exact_mod_cast hn
      linarith
    have key : ∀ S : ℝ, S / (v1.length : ℝ) * (v1.length : ℝ) / ((v1.length : ℝ) - 1) = S / ((v1.length : ℝ) - 1) := by
      intro S; field_simp
    rw [key]

theorem cov_mismatch (v1 v2 : List ℝ) (u : Bool) (h : v1.length ≠ v2.length) :
    cov v1 v2 u = .error .dimension := by
  have hl : (center v1).length ≠ (center v2).length := by simp [center, h]
  rw [cov, scalar_mismatch _ _ hl]; rfl

theorem zipWith_comm_of {f : ℝ → ℝ → ℝ} {g : ℝ → ℝ → ℝ} (hfg : ∀ x y, f x y = g y x) (a b : List ℝ) :
    List.zipWith f a b = List.zipWith g b a := by
  induction a generalizing b with
  | nil => simp
  | cons x xs ih => cases b with
    | nil => simp
    | cons y ys => simp [ih ys, hfg]

theorem sum_zipWith_sq_nonneg (a : List ℝ) (c : ℝ) :
    0 ≤ (List.zipWith (fun x y => (x - c) * (y - c)) a a).sum := by
  induction a with
  | nil => simp
  | cons x xs ih => simp only [List.zipWith_cons_cons, List.sum_cons]; nlinarith [mul_self_nonneg (x - c)]

theorem specCov_symm (a b : List ℝ) (u : Bool) (h : a.length = b.length) : Spec.cov a b u = Spec.cov b a u := by
  rw [specCov_eq, specCov_eq]
  have hd : (a.length : ℝ) = (b.length : ℝ) := by rw [h]
  rw [zipWith_comm_of (g := fun x y => (x - b.sum / (b.length : ℝ)) * (y - a.sum / (a.length : ℝ))) (by intro x y; ring) a b, hd]

end Bpp.VecTools
