import BppModel.VecTools
import BppProofs.Lemmas.ScalarReal
import Mathlib.Algebra.BigOperators.Group.List.Basic
import Mathlib.Algebra.Order.BigOperators.Group.List
import Mathlib.Tactic.Ring
import Mathlib.Tactic.Linarith
import Mathlib.Tactic.FieldSimp
import Mathlib.Tactic.Positivity
/-!
Helper lemmas for C07 (model `BppModel/VecTools.lean` read at `ℝ`).
-/
namespace Bpp.VecTools
open Bpp Bpp.ScalarReal

/-! ### sums and products -/

theorem foldl_add_eq (l : List ℝ) (a : ℝ) : l.foldl (· + ·) a = a + l.sum := by
  induction l generalizing a with
  | nil => simp
  | cons x xs ih => simp [List.foldl_cons, ih, add_assoc]

theorem foldl_mul_eq (l : List ℝ) (a : ℝ) : l.foldl (· * ·) a = a * l.prod := by
  induction l generalizing a with
  | nil => simp
  | cons x xs ih => simp [List.foldl_cons, ih, mul_assoc]

theorem sum_eq (v : List ℝ) : VecTools.sum v = v.sum := by
  simp [VecTools.sum, foldl_add_eq]

theorem prod_eq (v : List ℝ) : VecTools.prod v = v.prod := by
  simp [VecTools.prod, foldl_mul_eq]

@[simp] theorem specSum_eq (v : List ℝ) : Spec.sum v = v.sum := by
  induction v with
  | nil => simp [Spec.sum]
  | cons x xs ih => simp only [Spec.sum, List.foldr_cons, List.sum_cons] at *; rw [ih]

@[simp] theorem specProd_eq (v : List ℝ) : Spec.prod v = v.prod := by
  induction v with
  | nil => simp [Spec.prod]
  | cons x xs ih => simp only [Spec.prod, List.foldr_cons, List.prod_cons] at *; rw [ih]

theorem cumSumAux_length (acc : ℝ) (v : List ℝ) : (cumSumAux acc v).length = v.length := by
  induction v generalizing acc with
  | nil => rfl
  | cons x xs ih => simp [cumSumAux, ih]

theorem cumSumAux_get (acc : ℝ) (v : List ℝ) (i : Nat) (h : i < v.length) :
    (cumSumAux acc v)[i]? = some (acc + (v.take (i + 1)).sum) := by
  induction v generalizing acc i with
  | nil => simp at h
  | cons x xs ih =>
    cases i with
    | zero => simp [cumSumAux]
    | succ j =>
      have hj : j < xs.length := by simpa using h
      simp only [cumSumAux, List.getElem?_cons_succ, List.take_succ_cons, List.sum_cons]
      rw [ih (acc + x) j hj]; congr 1; ring

theorem cumProdAux_length (acc : ℝ) (v : List ℝ) : (cumProdAux acc v).length = v.length := by
  induction v generalizing acc with
  | nil => rfl
  | cons x xs ih => simp [cumProdAux, ih]

theorem cumProdAux_get (acc : ℝ) (v : List ℝ) (i : Nat) (h : i < v.length) :
    (cumProdAux acc v)[i]? = some (acc * (v.take (i + 1)).prod) := by
  induction v generalizing acc i with
  | nil => simp at h
  | cons x xs ih =>
    cases i with
    | zero => simp [cumProdAux, mul_comm]
    | succ j =>
      have hj : j < xs.length := by simpa using h
      simp only [cumProdAux, List.getElem?_cons_succ, List.take_succ_cons, List.prod_cons]
      rw [ih (x * acc) j hj]; congr 1; ring

/-! ### scalar products, means, covariance -/

theorem scalar_eq (v1 v2 : List ℝ) (h : v1.length = v2.length) :
    scalar v1 v2 = .ok (List.zipWith (· * ·) v1 v2).sum := by
  simp [scalar, h, foldl_add_eq]

theorem scalar_mismatch (v1 v2 : List ℝ) (h : v1.length ≠ v2.length) :
    scalar v1 v2 = .error .dimension := by
  simp [scalar, h]

@[simp] theorem specDot_eq (a b : List ℝ) : Spec.dot a b = (List.zipWith (· * ·) a b).sum := by
  simp [Spec.dot]

theorem mean_eq (v : List ℝ) : mean v = v.sum / (v.length : ℝ) := by
  simp [mean, sum_eq]

@[simp] theorem specMean_eq (v : List ℝ) : Spec.mean v = v.sum / (v.length : ℝ) := by
  simp [Spec.mean]

theorem center_eq (v : List ℝ) : center v = v.map (· - v.sum / (v.length : ℝ)) := by
  simp [center, mean_eq]

theorem specCov_eq (a b : List ℝ) (u : Bool) :
    Spec.cov a b u = (List.zipWith (fun x y => (x - a.sum / (a.length : ℝ)) * (y - b.sum / (b.length : ℝ))) a b).sum /
      (if u then (a.length : ℝ) - 1 else (a.length : ℝ)) := by
  unfold Spec.cov; cases u <;> simp

theorem zipWith_mul_comm (a b : List ℝ) : List.zipWith (· * ·) a b = List.zipWith (· * ·) b a := by
  induction a generalizing b with
  | nil => simp
  | cons x xs ih => cases b with
    | nil => simp
    | cons y ys => simp [ih ys, mul_comm]

/-- Σ (aᵢ - c) = Σ aᵢ - n·c -/
theorem sum_map_sub_const (a : List ℝ) (c : ℝ) : (a.map (· - c)).sum = a.sum - a.length * c := by
  induction a with
  | nil => simp
  | cons x xs ih => simp [ih]; ring

theorem zipWith_mul_map_div (v w : List ℝ) (s : ℝ) :
    (List.zipWith (· * ·) v (w.map (· / s))).sum = (List.zipWith (· * ·) v w).sum / s := by
  induction v generalizing w with
  | nil => simp
  | cons x xs ih => cases w with
    | nil => simp
    | cons y ys =>
      simp only [List.map_cons, List.zipWith_cons_cons, List.sum_cons, ih ys]
      ring

theorem meanW_eq (v w : List ℝ) (h : v.length = w.length) :
    meanW v w true = .ok ((List.zipWith (· * ·) v w).sum / w.sum) := by
  have hl : v.length = (divC w (VecTools.sum w)).length := by simp [divC, h]
  rw [meanW, if_pos rfl, scalar_eq _ _ hl, sum_eq, divC]
  rw [← zipWith_mul_map_div]

theorem scalar_center (v1 v2 : List ℝ) (h : v1.length = v2.length) :
    scalar (center v1) (center v2) = .ok (List.zipWith (fun x y => (x - v1.sum / (v1.length : ℝ)) * (y - v2.sum / (v2.length : ℝ))) v1 v2).sum := by
  have hl : (center v1).length = (center v2).length := by simp [center, h]
  rw [scalar_eq _ _ hl, center_eq, center_eq, List.zipWith_map]

theorem cov_eq (v1 v2 : List ℝ) (u : Bool) (h : v1.length = v2.length)
    (hn : (if u then 2 else 1) ≤ v1.length) : cov v1 v2 u = .ok (Spec.cov v1 v2 u) := by
  have hn0 : (v1.length : ℝ) ≠ 0 := by
    have : 1 ≤ v1.length := by split at hn <;> omega
    exact_mod_cast (by omega : v1.length ≠ 0)
  rw [cov, scalar_center v1 v2 h, specCov_eq]
  simp only [bind, Except.bind, pure, Except.pure, ofInt_eq, one_eq, Int.cast_natCast]
  cases u with
  | false => simp
  | true =>
    simp only [if_true]
    have hn1 : (v1.length : ℝ) - 1 ≠ 0 := by
      have : (2:ℝ) ≤ (v1.length : ℝ) := by exact_mod_cast hn
      linarith
    have key : ∀ S : ℝ, S / (v1.length : ℝ) * (v1.length : ℝ) / ((v1.length : ℝ) - 1) = S / ((v1.length : ℝ) - 1) := by
      intro S; field_simp
    rw [key]

theorem cov_mismatch (v1 v2 : List ℝ) (u : Bool) (h : v1.length ≠ v2.length) :
    cov v1 v2 u = .error .dimension := by
  have hl : (center v1).length ≠ (center v2).length := by simp [center, h]
  rw [cov, scalar_mismatch _ _ hl]; rfl

theorem zipWith_comm_of {f : ℝ → ℝ → ℝ} {g : ℝ → ℝ → ℝ} (hfg : ∀ x y, f x y = g y x) (a b : List ℝ) :
    List.zipWith f a b = List.zipWith g b a := by
  induction a generalizing b with
  | nil => simp
  | cons x xs ih => cases b with
    | nil => simp
    | cons y ys => simp [ih ys, hfg]

theorem sum_zipWith_sq_nonneg (a : List ℝ) (c : ℝ) :
    0 ≤ (List.zipWith (fun x y => (x - c) * (y - c)) a a).sum := by
  induction a with
  | nil => simp
  | cons x xs ih => simp only [List.zipWith_cons_cons, List.sum_cons]; nlinarith [mul_self_nonneg (x - c)]

theorem specCov_symm (a b : List ℝ) (u : Bool) (h : a.length = b.length) : Spec.cov a b u = Spec.cov b a u := by
  rw [specCov_eq, specCov_eq]
  have hd : (a.length : ℝ) = (b.length : ℝ) := by rw [h]
  rw [zipWith_comm_of (g := fun x y => (x - b.sum / (b.length : ℝ)) * (y - a.sum / (a.length : ℝ))) (by intro x y; ring) a b, hd]

/-! ### extrema -/

/-- the comparisons handed to the extremum loops are strict weak orders -/
structure StrictWeak {β : Type} (better : β → β → Bool) : Prop where
  irrefl : ∀ a, better a a = false
  trans : ∀ a b c, better a b = true → better b c = true → better a c = true
  negTrans : ∀ a b c, better a b = false → better b c = false → better a c = false

theorem isFirstExtremum_iff {β : Type} (better : β → β → Bool) (v : List β) (pos : Nat) :
    IsFirstExtremum better v pos ↔
      ∃ m, v[pos]? = some m ∧ (∀ y ∈ v, better y m = false) ∧ (∀ y ∈ v.take pos, better m y = true) := by
  unfold IsFirstExtremum
  split
  · rename_i h; simp [h]
  · rename_i m h; simp [h]

theorem extremum_fold_spec {β : Type} {better : β → β → Bool} (hb : StrictWeak better) (xs : List β) (x : β) :
    (xs.foldl (fun m y => if better y m then y else m) x) ∈ x :: xs ∧
    ∀ y ∈ x :: xs, better y (xs.foldl (fun m y => if better y m then y else m) x) = false := by
  induction xs generalizing x with
  | nil => simp [hb.irrefl]
  | cons z zs ih =>
    simp only [List.foldl_cons]
    by_cases hz : better z x = true
    · simp only [hz, if_true]
      obtain ⟨hm, hall⟩ := ih z
      refine ⟨by simp only [List.mem_cons] at hm ⊢; tauto, ?_⟩
      intro y hy
      simp only [List.mem_cons] at hy
      rcases hy with rfl | rfl | hy
      · -- y = x : z beats x, result is not beaten by z
        have h1 := hall z (by simp)
        by_contra hc
        have hc' : better y (zs.foldl (fun m y => if better y m then y else m) z) = true := by simpa using hc
        -- better z x, better x r → better z r, contradiction
        have := hb.trans _ _ _ hz hc'
        simp [this] at h1
      · exact hall _ (by simp)
      · exact hall _ (by simp [hy])
    · have hz' : better z x = false := by simpa using hz
      simp only [hz', Bool.false_eq_true, if_false]
      obtain ⟨hm, hall⟩ := ih x
      refine ⟨by simp only [List.mem_cons] at hm ⊢; tauto, ?_⟩
      intro y hy
      simp only [List.mem_cons] at hy
      rcases hy with rfl | rfl | hy
      · exact hall _ (by simp)
      · exact hb.negTrans _ _ _ hz' (hall x (by simp))
      · exact hall _ (by simp [hy])

theorem whichLoop_spec {β : Type} {better : β → β → Bool} (hb : StrictWeak better)
    (ys pre : List β) (m : β) (pos i : Nat) (hi : i = pre.length) (hm : pre[pos]? = some m)
    (h1 : ∀ y ∈ pre, better y m = false) (h2 : ∀ y ∈ pre.take pos, better m y = true) :
    IsFirstExtremum better (pre ++ ys) (whichLoop better m pos i ys) := by
  induction ys generalizing pre m pos i with
  | nil =>
    rw [isFirstExtremum_iff]; simp only [whichLoop, List.append_nil]
    exact ⟨m, hm, h1, h2⟩
  | cons y ys ih =>
    have hpos : pos < pre.length := by
      rcases Nat.lt_or_ge pos pre.length with h | h
      · exact h
      · simp [List.getElem?_eq_none h] at hm
    simp only [whichLoop]
    have happ : pre ++ y :: ys = (pre ++ [y]) ++ ys := by simp
    by_cases hy : better y m = true
    · simp only [hy, if_true]
      rw [happ]
      apply ih (pre ++ [y]) y i (i + 1) (by simp [hi])
      · subst hi; simp
      · intro z hz
        simp only [List.mem_append, List.mem_singleton] at hz
        rcases hz with hz | rfl
        · by_contra hc
          have hc' : better z y = true := by simpa using hc
          have := hb.trans _ _ _ hc' hy
          simp [h1 z hz] at this
        · exact hb.irrefl _
      · intro z hz
        subst hi
        simp only [List.take_left'] at hz
        by_contra hc
        have hc' : better y z = false := by simpa using hc
        have := hb.negTrans _ _ _ hc' (h1 z hz)
        simp [this] at hy
    · have hy' : better y m = false := by simpa using hy
      simp only [hy', Bool.false_eq_true, if_false]
      rw [happ]
      apply ih (pre ++ [y]) m pos (i + 1) (by simp [hi])
      · rw [List.getElem?_append_left hpos]; exact hm
      · intro z hz
        simp only [List.mem_append, List.mem_singleton] at hz
        rcases hz with hz | rfl
        · exact h1 z hz
        · exact hy'
      · intro z hz
        rw [List.take_append_of_le_length (Nat.le_of_lt hpos)] at hz
        exact h2 z hz

theorem whichExtremum_spec {β : Type} {better : β → β → Bool} (hb : StrictWeak better) (v : List β) (p : Nat)
    (h : whichExtremum better v = .ok p) : IsFirstExtremum better v p := by
  cases v with
  | nil => simp [whichExtremum] at h
  | cons x xs =>
    simp only [whichExtremum, Except.ok.injEq] at h
    subst h
    have := whichLoop_spec hb xs [x] x 0 1 rfl (by simp) (by simp [hb.irrefl]) (by simp)
    simpa using this

theorem gt_strictWeak : StrictWeak (fun (y m : ℝ) => Scalar.gtb y m) where
  irrefl a := by simp [Scalar.gtb]
  trans a b c := by simp only [gtb_iff]; intro h1 h2; linarith
  negTrans a b c := by
    simp only [Scalar.gtb, ltb_false_iff]; intro h1 h2; linarith

theorem lt_strictWeak : StrictWeak (fun (y m : ℝ) => Scalar.ltb y m) where
  irrefl a := by simp
  trans a b c := by simp only [ltb_iff]; intro h1 h2; linarith
  negTrans a b c := by
    simp only [ltb_false_iff]; intro h1 h2; linarith

/-! ### sorting -/

/-- the sort comparator `!(b < a)` derived from `<` on ℝ is `≤` -/
theorem leOfLt_iff (a b : ℝ) : leOfLt Scalar.ltb a b = true ↔ a ≤ b := by
  simp [leOfLt]

theorem sortedBy_sortVals (v : List ℝ) : SortedBy Scalar.ltb (sortVals v) := by
  unfold SortedBy sortVals
  have := List.pairwise_mergeSort (le := leOfLt (Scalar.ltb (α := ℝ)))
    (fun a b c h1 h2 => by rw [leOfLt_iff] at *; linarith)
    (fun a b => by
      rcases le_total a b with h | h
      · simp [(leOfLt_iff a b).mpr h]
      · simp [(leOfLt_iff b a).mpr h]) v
  exact this.imp (fun {a b} h => by have := (leOfLt_iff a b).mp h; simpa using this)

theorem sortVals_perm (v : List ℝ) : (sortVals v).Perm v := List.mergeSort_perm v _

theorem filterMap_eq_map_of {α β : Type} (f : α → Option β) (g : α → β) (l : List α)
    (h : ∀ x ∈ l, f x = some (g x)) : l.filterMap f = l.map g := by
  induction l with
  | nil => rfl
  | cons a as ih =>
    simp only [List.filterMap_cons, h a (by simp), List.map_cons]
    rw [ih (fun x hx => h x (by simp [hx]))]

theorem order_spec (v : List ℝ) (idx : List Nat) (h : order v = .ok idx) : IsSortingPerm Scalar.ltb v idx := by
  unfold order at h
  split at h
  · simp at h
  · simp only [Except.ok.injEq] at h
    subst h
    set S := v.zipIdx.mergeSort (fun a b => leOfLt Scalar.ltb a.1 b.1) with hS
    have hperm : S.Perm v.zipIdx := List.mergeSort_perm _ _
    constructor
    · have := hperm.map Prod.snd
      rw [List.zipIdx_map_snd] at this
      rw [List.range_eq_range']; exact this
    · have hfm : (S.map (·.2)).filterMap (fun i => v[i]?) = S.map (·.1) := by
        rw [List.filterMap_map]
        have : ∀ x ∈ S, ((fun i => v[i]?) ∘ (fun x : ℝ × Nat => x.2)) x = some x.1 := by
          intro x hx
          have := (hperm.mem_iff).mp hx
          exact List.mem_zipIdx_iff_getElem?.mp this
        exact filterMap_eq_map_of _ _ S this
      rw [hfm]
      unfold SortedBy
      rw [List.pairwise_map]
      have := List.pairwise_mergeSort (le := fun (a b : ℝ × Nat) => leOfLt Scalar.ltb a.1 b.1)
        (fun a b c h1 h2 => by rw [leOfLt_iff] at *; linarith)
        (fun a b => by
          rcases le_total a.1 b.1 with h | h
          · simp [(leOfLt_iff a.1 b.1).mpr h]
          · simp [(leOfLt_iff b.1 a.1).mpr h]) v.zipIdx
      exact this.imp (fun {a b} h => by have := (leOfLt_iff a.1 b.1).mp h; simpa using this)

/-! ### median -/

theorem sorted_getElem_le (s : List ℝ) (hs : SortedBy Scalar.ltb s) (i j : Nat) (hj : j < s.length) (hij : i ≤ j) :
    s[i]'(by omega) ≤ s[j] := by
  rcases Nat.lt_or_eq_of_le hij with h | h
  · have := (List.pairwise_iff_getElem.mp hs) i j (by omega) hj h
    simpa using this
  · subst h; exact le_refl _

/-- in a sorted list, at least `j+1` elements are `≤ m` when `s[j] ≤ m` -/
theorem count_le_of_sorted (s : List ℝ) (hs : SortedBy Scalar.ltb s) (j : Nat) (hj : j < s.length) (m : ℝ)
    (hm : s[j] ≤ m) : j + 1 ≤ s.countP (fun x => !(Scalar.ltb m x)) := by
  have h1 : (s.take (j + 1)).countP (fun x => !(Scalar.ltb m x)) = (s.take (j + 1)).length := by
    rw [List.countP_eq_length]
    intro x hx
    obtain ⟨i, hi, rfl⟩ := List.mem_take_iff_getElem.mp hx
    have hi' : i ≤ j := by
      have : i < Nat.min (j + 1) s.length := hi
      have := Nat.lt_min.mp this
      omega
    have := sorted_getElem_le s hs i j hj hi'
    simp only [Bool.not_eq_eq_eq_not, Bool.not_true, ltb_false_iff]; linarith
  have h2 := (List.take_sublist (j + 1) s).countP_le (p := fun x => !(Scalar.ltb m x))
  rw [h1, List.length_take] at h2
  omega

/-- in a sorted list, at least `n - j` elements are `≥ m` when `m ≤ s[j]` -/
theorem count_ge_of_sorted (s : List ℝ) (hs : SortedBy Scalar.ltb s) (j : Nat) (hj : j < s.length) (m : ℝ)
    (hm : m ≤ s[j]) : s.length - j ≤ s.countP (fun x => !(Scalar.ltb x m)) := by
  have h1 : (s.drop j).countP (fun x => !(Scalar.ltb x m)) = (s.drop j).length := by
    rw [List.countP_eq_length]
    intro x hx
    obtain ⟨i, hi, rfl⟩ := List.mem_drop_iff_getElem.mp hx
    have := sorted_getElem_le s hs j (j + i) (by omega) (by omega)
    simp only [Bool.not_eq_eq_eq_not, Bool.not_true, ltb_false_iff]; linarith
  have h2 := (List.drop_sublist j s).countP_le (p := fun x => !(Scalar.ltb x m))
  rw [h1, List.length_drop] at h2
  exact h2

theorem isMedian_perm {v s : List ℝ} (hp : s.Perm v) (m : ℝ) (h : IsMedian Scalar.ltb s m) : IsMedian Scalar.ltb v m := by
  unfold IsMedian at *
  rw [← hp.countP_eq, ← hp.countP_eq, ← hp.length_eq]; exact h

theorem at?_eq_getElem {α : Type} (s : List α) (i : Nat) (h : i < s.length) : at? s i = .ok s[i] := by
  simp [at?, List.getElem?_eq_getElem h]

theorem median_sorted_case (s : List ℝ) (hs : SortedBy Scalar.ltb s) (hn : 2 ≤ s.length) :
    ∃ m, (if s.length % 2 = 0 then (do
        let a ← at? s (s.length / 2 - 1)
        let b ← at? s (s.length / 2)
        pure ((a + b) / Scalar.ofInt 2, s) : Res (ℝ × List ℝ))
      else do
        let b ← at? s (s.length / 2)
        pure (b, s)) = .ok (m, s) ∧ IsMedian Scalar.ltb s m := by
  have hk : s.length / 2 < s.length := by omega
  have hk1 : s.length / 2 - 1 < s.length := by omega
  by_cases hpar : s.length % 2 = 0
  · rw [if_pos hpar, at?_eq_getElem s _ hk, at?_eq_getElem s _ hk1]
    refine ⟨_, rfl, ?_⟩
    have hab : s[s.length / 2 - 1] ≤ s[s.length / 2] := sorted_getElem_le s hs _ _ hk (by omega)
    simp only [ofInt_eq, Int.cast_ofNat]
    constructor
    · have := count_le_of_sorted s hs (s.length / 2 - 1) hk1 ((s[s.length / 2 - 1] + s[s.length / 2]) / 2) (by linarith)
      omega
    · have := count_ge_of_sorted s hs (s.length / 2) hk ((s[s.length / 2 - 1] + s[s.length / 2]) / 2) (by linarith)
      omega
  · rw [if_neg hpar, at?_eq_getElem s _ hk]
    refine ⟨_, rfl, ?_⟩
    constructor
    · have := count_le_of_sorted s hs (s.length / 2) hk s[s.length / 2] (le_refl _)
      omega
    · have := count_ge_of_sorted s hs (s.length / 2) hk s[s.length / 2] (le_refl _)
      omega

theorem median_spec' (v : List ℝ) (hv : v ≠ []) :
    ∃ m s, median v = .ok (m, s) ∧ IsMedian Scalar.ltb v m ∧ s.Perm v ∧ (2 ≤ v.length → SortedBy Scalar.ltb s) := by
  unfold median
  have h0 : v.length ≠ 0 := by simpa using hv
  rw [if_neg h0]
  by_cases h1 : v.length = 1
  · rw [if_pos h1]
    obtain ⟨x, rfl⟩ := List.length_eq_one_iff.mp h1
    refine ⟨x, [x], rfl, ?_, List.Perm.refl _, by simp⟩
    simp [IsMedian]
  · rw [if_neg h1]
    have hn : 2 ≤ (sortVals v).length := by
      rw [(sortVals_perm v).length_eq]; omega
    obtain ⟨m, hm, hmed⟩ := median_sorted_case (sortVals v) (sortedBy_sortVals v) hn
    exact ⟨m, sortVals v, hm, isMedian_perm (sortVals_perm v) m hmed, sortVals_perm v, fun _ => sortedBy_sortVals v⟩

/-! ### Cauchy–Schwarz and the correlation -/

theorem cs_step (x y S A B : ℝ) (hA : 0 ≤ A) (hB : 0 ≤ B) (h : S ^ 2 ≤ A * B) :
    (x * y + S) ^ 2 ≤ (x ^ 2 + A) * (y ^ 2 + B) := by
  have h0 : 0 ≤ x ^ 2 * B + y ^ 2 * A := by positivity
  have hsq : (2 * x * y * S) ^ 2 ≤ (x ^ 2 * B + y ^ 2 * A) ^ 2 := by
    nlinarith [sq_nonneg (x ^ 2 * B - y ^ 2 * A), mul_nonneg (sq_nonneg (x * y)) (sub_nonneg.mpr h)]
  have := abs_le_of_sq_le_sq' hsq h0
  nlinarith [this.2]

/-- Cauchy–Schwarz for lists -/
theorem cauchy_schwarz_list (a b : List ℝ) :
    (List.zipWith (· * ·) a b).sum ^ 2 ≤ (a.map (· ^ 2)).sum * (b.map (· ^ 2)).sum := by
  induction a generalizing b with
  | nil => simp
  | cons x xs ih =>
    cases b with
    | nil =>
      simp only [List.zipWith_nil_right, List.sum_nil, List.map_nil, mul_zero]; norm_num
    | cons y ys =>
      simp only [List.zipWith_cons_cons, List.sum_cons, List.map_cons]
      apply cs_step _ _ _ _ _ _ _ (ih ys)
      · exact List.sum_nonneg (by intro z hz; simp only [List.mem_map] at hz; obtain ⟨w, -, rfl⟩ := hz; positivity)
      · exact List.sum_nonneg (by intro z hz; simp only [List.mem_map] at hz; obtain ⟨w, -, rfl⟩ := hz; positivity)

theorem sum_sq_pos_of_ne (a : List ℝ) (c : ℝ) (h : ∃ x ∈ a, x ≠ c) : 0 < (a.map (fun x => (x - c) ^ 2)).sum := by
  obtain ⟨x, hx, hne⟩ := h
  induction a with
  | nil => simp at hx
  | cons y ys ih =>
    simp only [List.map_cons, List.sum_cons]
    have hnn : 0 ≤ (ys.map (fun x => (x - c) ^ 2)).sum :=
      List.sum_nonneg (by intro z hz; simp only [List.mem_map] at hz; obtain ⟨w, -, rfl⟩ := hz; positivity)
    simp only [List.mem_cons] at hx
    rcases hx with rfl | hx
    · have : 0 < (x - c) ^ 2 := by
        have : x - c ≠ 0 := sub_ne_zero.mpr hne
        positivity
      linarith
    · have := ih hx
      have : 0 ≤ (y - c) ^ 2 := by positivity
      linarith

theorem exists_ne_of_nonconst (a : List ℝ) (c : ℝ) (h : ∃ x ∈ a, ∃ y ∈ a, x ≠ y) : ∃ x ∈ a, x ≠ c := by
  obtain ⟨x, hx, y, hy, hne⟩ := h
  by_cases hxc : x = c
  · exact ⟨y, hy, fun hyc => hne (hxc.trans hyc.symm)⟩
  · exact ⟨x, hx, hxc⟩

/-- the three centred sums behind cov/var -/
theorem centred_sums (a b : List ℝ) (ca cb : ℝ) :
    (List.zipWith (fun x y => (x - ca) * (y - cb)) a b).sum ^ 2 ≤
      (a.map (fun x => (x - ca) ^ 2)).sum * (b.map (fun x => (x - cb) ^ 2)).sum := by
  have := cauchy_schwarz_list (a.map (· - ca)) (b.map (· - cb))
  rw [List.zipWith_map, List.map_map, List.map_map] at this
  exact this

theorem zipWith_self_sq (a : List ℝ) (c : ℝ) :
    List.zipWith (fun x y => (x - c) * (y - c)) a a = a.map (fun x => (x - c) ^ 2) := by
  induction a with
  | nil => rfl
  | cons x xs ih => simp [sq]

theorem cor_sq_le_one' (v1 v2 : List ℝ) (h : v1.length = v2.length) (hn : 2 ≤ v1.length)
    (h1 : ∃ x ∈ v1, ∃ y ∈ v1, x ≠ y) (h2 : ∃ x ∈ v2, ∃ y ∈ v2, x ≠ y) :
    ∃ r, cor v1 v2 = .ok r ∧ r ^ 2 ≤ 1 := by
  have hn2 : 2 ≤ v2.length := h ▸ hn
  unfold cor sd var
  rw [cov_eq v1 v2 true h (by simpa using hn), cov_eq v1 v1 true rfl (by simpa using hn),
    cov_eq v2 v2 true rfl (by simpa using hn2)]
  refine ⟨_, rfl, ?_⟩
  simp only [specCov_eq, if_true, zipWith_self_sq, sqrt_eq]
  set m1 := v1.sum / (v1.length : ℝ)
  set m2 := v2.sum / (v2.length : ℝ)
  have hcs := centred_sums v1 v2 m1 m2
  have hA := sum_sq_pos_of_ne v1 m1 (exists_ne_of_nonconst v1 m1 h1)
  have hB := sum_sq_pos_of_ne v2 m2 (exists_ne_of_nonconst v2 m2 h2)
  set S := (List.zipWith (fun x y => (x - m1) * (y - m2)) v1 v2).sum
  set A := (v1.map (fun x => (x - m1) ^ 2)).sum
  set B := (v2.map (fun x => (x - m2) ^ 2)).sum
  have hD : (0:ℝ) < (v1.length : ℝ) - 1 := by
    have : (2:ℝ) ≤ (v1.length : ℝ) := by exact_mod_cast hn
    linarith
  have hD2 : (v2.length : ℝ) - 1 = (v1.length : ℝ) - 1 := by rw [h]
  rw [hD2]
  set D := (v1.length : ℝ) - 1
  have hvA : 0 < A / D := div_pos hA hD
  have hvB : 0 < B / D := div_pos hB hD
  rw [div_pow, mul_pow, Real.sq_sqrt hvA.le, Real.sq_sqrt hvB.le, div_le_one (mul_pos hvA hvB)]
  rw [div_pow, div_mul_div_comm, ← sq]
  exact div_le_div_of_nonneg_right hcs (by positivity)

end Bpp.VecTools
