import BppModel.VecTools
import BppProofs.Lemmas.ScalarReal
import Mathlib.Algebra.BigOperators.Group.List.Basic
/-!
Helper lemmas for C07 (model `BppModel/VecTools.lean` read at `ℝ`).
-/
namespace Bpp.VecTools
open Bpp Bpp.ScalarReal

theorem foldl_add_eq (l : List ℝ) (a : ℝ) : l.foldl (· + ·) a = a + l.sum := by
  induction l generalizing a with
  | nil => simp
  | cons x xs ih => simp [List.foldl_cons, ih, add_assoc]

theorem sum_eq (v : List ℝ) : VecTools.sum v = v.sum := by
  simp [VecTools.sum, foldl_add_eq]

end Bpp.VecTools
