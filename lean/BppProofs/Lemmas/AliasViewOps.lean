import BppProofs.Lemmas.AliasSync2
/-! The executable clauses `namespaceOk`, `aliasOk`, `unaliasOk` of `BppModel/AliasSpec.lean` hold of
the model (C03). -/
namespace Bpp.Alias
open Bpp.ParamList (Bnd Con Par Store ObjId nameOf find? hasParameter names startsWith)

/-! ## `namespaceOk` -/

theorem namespaceOk_model {w : World} (h : Inv w) {k : Nat} {o : Obj} (ho : w.objs k = some o) (new : String) :
    ∃ o', (setNamespace w k new).w.objs k = some o' ∧
      namespaceOk new (svOf w o) (svOf (setNamespace w k new).w o') = true := by
  have hi := h.obj k o ho
  rw [setNamespace_eq ho]
  obtain ⟨_, _, f3, f4, f5, f6⟩ := nsWorld_facts hi new
  refine ⟨{ params := o.params, indep := o.indep, reg := o.reg, pre := new },
    by show (nsWorld w k o new).objs k = _; rw [f4]; simp, ?_⟩
  show namespaceOk new (svOf w o) (svOf (nsWorld w k o new) _) = true
  generalize nsWorld w k o new = W at f3 f4 f5 f6
  have hname : ∀ i ∈ o.params, nameOf W.heap i = renamed o.pre new (nameOf w.heap i) := by
    intro i him; simp only [nameOf, f5 i, him, if_true]
  have hshort : ∀ i ∈ o.params, stripNs new (nameOf W.heap i) = stripNs o.pre (nameOf w.heap i) := by
    intro i him
    obtain ⟨x, hx, _, hs⟩ := hi.short him
    rw [hname i him, hs, hx, renamed_append, stripNs_append]
  have hlis : ∀ l, (W.lis l).id = (w.lis l).id := by
    intro l; rw [f6 l]; split <;> rfl
  have hhas : ∀ i id, hasListener W i id = hasListener w i id := by
    intro i id; simp only [hasListener, f3, hlis]
  have hsn : shortNames W { params := o.params, indep := o.indep, reg := o.reg, pre := new } = shortNames w o := by
    simp only [shortNames]
    exact List.map_congr_left (fun i hi' => hshort i hi')
  simp only [namespaceOk, Bool.and_eq_true, beq_iff_eq]
  refine ⟨⟨⟨rfl, ?_⟩, ?_⟩, ?_⟩
  · simp only [svOf, List.map_map]
    apply List.map_congr_left
    intro i him
    simp only [Function.comp, hname i him, f5 i, him, if_true]
  · show linksOf W _ = linksOf w o
    simp only [linksOf, hsn]
    apply List.flatMap_congr
    intro i him
    rw [hshort i him]
    congr 1
    apply List.filter_congr
    intro y _
    exact hhas i _
  · simp only [svOf, List.map_map]
    apply List.map_congr_left
    intro i him
    simp only [Function.comp, hname i (hi.indepSub i him)]

/-! ## `aliasOk` -/

theorem plain_of_short {w : World} {k : Nat} {o : Obj} (h : ObjInv w k o) {y : String} (hy : y ∈ shortNames w o) :
    Plain y := by
  obtain ⟨t, ht, htn⟩ := (mem_shortNames h).1 hy
  obtain ⟨z, hz, pz⟩ := h.plain t ht
  have : z = y := append_left_cancel' (hz.symm.trans htn)
  exact this ▸ pz

theorem con?_svOf (w : World) (o : Obj) (x : String) :
    (svOf w o).con? x = (find? w.heap o.params (o.pre ++ x)).map (fun i => (w.heap.get i).con) := by
  simp only [SV.con?, svOf, find?, List.find?_map, Option.map_map]
  rfl

/-- an independent parameter is the target of no registered link: its alias ids are all free -/
theorem aliasId_fresh {w : World} {k : Nat} {o : Obj} (h : ObjInv w k o) {p1 p2 : String} {i2 : ObjId}
    (hm2 : i2 ∈ o.params) (hn2 : nameOf w.heap i2 = o.pre ++ p2) (hind : i2 ∈ o.indep) :
    aliasId p1 p2 ∉ o.reg.map Prod.fst := by
  have pp2 : Plain p2 := by
    obtain ⟨x, hx, px⟩ := h.plain i2 hm2
    have : x = p2 := append_left_cancel' (hx.symm.trans hn2)
    exact this ▸ px
  intro hm
  obtain ⟨e, he, hk⟩ := List.mem_map.1 hm
  obtain ⟨t, y, ht, htn, _, hid⟩ := (h.regOk e he).tgt
  have py : Plain y := by
    obtain ⟨x, hx, px⟩ := h.plain t (List.mem_of_getElem? ht)
    have : x = y := append_left_cancel' (hx.symm.trans htn)
    exact this ▸ px
  have := (aliasId_inj py pp2 (hid.symm.trans hk)).2
  subst this
  have : t = i2 := h.name_inj (List.mem_of_getElem? ht) hm2 (htn.trans hn2.symm)
  subst this
  exact (h.indepIff t hm2).1 hind ⟨e, he, ht⟩

theorem aliasOk_model {w : World} (h : Inv w) {k : Nat} {o : Obj} (ho : w.objs k = some o) {p1 p2 : String}
    (ok : (aliasPair w k p1 p2).err = none) :
    ∃ o', (aliasPair w k p1 p2).w.objs k = some o' ∧
      aliasOk p1 p2 (svOf w o) (svOf (aliasPair w k p1 p2).w o') = true := by
  have hi := h.obj k o ho
  obtain ⟨⟨i1, i2, pos1, pos2, hi1, hi2, hn1, hn2, hind, hcons, heq, hnoanc, _⟩⟩ := aliasPair_done hi ho ok
  have hss := aliasConstraints_sameShape w i1 i2
  have hm1 := List.mem_of_getElem? hi1
  have hm2 := List.mem_of_getElem? hi2
  have hne : i1 ≠ i2 := by
    rintro rfl
    exact hnoanc pos1 i1 Relation.ReflTransGen.refl hi1 hn2
  obtain ⟨c1, c2, c3, _⟩ := aliasConstraints_spec hne hcons
  have hinvW := inv_aliasPair h k p1 p2
  have hobj : (aliasPair w k p1 p2).w.objs k = some (aliasedObj o p1 p2 i2 w.lnext) := by
    rw [heq]; simp [aliased, hss.lnext]
  have hname : ∀ j, nameOf (aliasPair w k p1 p2).w.heap j = nameOf w.heap j := by
    intro j; rw [heq]; exact hss.name j
  have hval : ∀ j, ((aliasPair w k p1 p2).w.heap.get j).value = (w.heap.get j).value := by
    intro j; rw [heq]; exact aliasConstraints_val w i1 i2 j
  have hc1 : ((aliasPair w k p1 p2).w.heap.get i1).con = (aliasConSpec (w.heap.get i1).con (w.heap.get i2).con).1 := by
    rw [heq]; exact c1
  have hc2 : ((aliasPair w k p1 p2).w.heap.get i2).con = (aliasConSpec (w.heap.get i1).con (w.heap.get i2).con).2 := by
    rw [heq]; exact c2
  have hc3 : ∀ j, j ≠ i1 → j ≠ i2 → (aliasPair w k p1 p2).w.heap.get j = w.heap.get j := by
    intro j a b; rw [heq]; exact c3 j a b
  refine ⟨_, hobj, ?_⟩
  have hi' := hinvW.obj k _ hobj
  generalize (aliasPair w k p1 p2).w = W at hobj hname hval hc1 hc2 hc3 hi'
  have hfresh : aliasId p1 p2 ∉ o.reg.map Prod.fst := aliasId_fresh hi hm2 hn2 hind
  have hsn : shortNames W (aliasedObj o p1 p2 i2 w.lnext) = shortNames w o := by
    simp only [shortNames, hname]
  have hkeys : ∀ id, id ∈ (mapInsert (aliasId p1 p2) w.lnext o.reg).map Prod.fst ↔
      id = aliasId p1 p2 ∨ id ∈ o.reg.map Prod.fst := by
    intro id
    simp only [List.mem_map]
    constructor
    · rintro ⟨e, he, rfl⟩
      rcases (mem_mapInsert hfresh e).1 he with rfl | he
      · exact Or.inl rfl
      · exact Or.inr ⟨e, he, rfl⟩
    · rintro (rfl | ⟨e, he, rfl⟩)
      · exact ⟨_, (mem_mapInsert hfresh _).2 (Or.inl rfl), rfl⟩
      · exact ⟨e, (mem_mapInsert hfresh _).2 (Or.inr he), rfl⟩
  have hlinks : ∀ x y, (x, y) ∈ linksOf W (aliasedObj o p1 p2 i2 w.lnext) ↔ (x, y) = (p1, p2) ∨ (x, y) ∈ linksOf w o := by
    intro x y
    rw [mem_linksOf hi', mem_linksOf hi, hsn]
    have hk := hkeys (aliasId x y)
    have hk' : aliasId x y ∈ (aliasedObj o p1 p2 i2 w.lnext).reg.map Prod.fst ↔
        aliasId x y = aliasId p1 p2 ∨ aliasId x y ∈ o.reg.map Prod.fst := hk
    rw [hk']
    have hp1 : p1 ∈ shortNames w o := (mem_shortNames hi).2 ⟨i1, hm1, hn1⟩
    have hp2 : p2 ∈ shortNames w o := (mem_shortNames hi).2 ⟨i2, hm2, hn2⟩
    constructor
    · rintro ⟨hx, hy, hid | hid⟩
      · left
        obtain ⟨a, b⟩ := aliasId_inj (plain_of_short hi hy) (plain_of_short hi hp2) hid
        rw [a, b]
      · exact Or.inr ⟨hx, hy, hid⟩
    · rintro (e | ⟨hx, hy, hid⟩)
      · cases e; exact ⟨hp1, hp2, Or.inl rfl⟩
      · exact ⟨hx, hy, Or.inr hid⟩
  have hf1 : find? w.heap o.params (o.pre ++ p1) = some i1 := (find?_iff hi.nodup).2 ⟨hm1, hn1⟩
  have hf2 : find? w.heap o.params (o.pre ++ p2) = some i2 := (find?_iff hi.nodup).2 ⟨hm2, hn2⟩
  have hF : ∀ n, find? W.heap o.params n = find? w.heap o.params n :=
    fun n => ParamList.find?_congr (fun i _ => hname i) n
  -- the conjuncts
  have k1 : ((svOf W (aliasedObj o p1 p2 i2 w.lnext)).pre == (svOf w o).pre) = true := by simp [svOf]
  have k2 : ((svOf W (aliasedObj o p1 p2 i2 w.lnext)).params.map (fun p => (p.name, p.value)) ==
      (svOf w o).params.map (fun p => (p.name, p.value))) = true := by
    rw [beq_iff_eq]
    simp only [svOf, List.map_map]
    apply List.map_congr_left
    intro i _
    simp only [Function.comp, hname, hval]
  have k3 : (svOf W (aliasedObj o p1 p2 i2 w.lnext)).links.contains (p1, p2) = true := by
    rw [List.contains_iff_mem]
    exact (hlinks p1 p2).2 (Or.inl rfl)
  have k4 : (svOf W (aliasedObj o p1 p2 i2 w.lnext)).links.all
      (fun l => l == (p1, p2) || (svOf w o).links.contains l) = true := by
    rw [List.all_eq_true]
    rintro ⟨x, y⟩ hl
    rcases (hlinks x y).1 hl with e | e
    · rw [e]; simp
    · have : (svOf w o).links.contains (x, y) = true := List.contains_iff_mem.2 e
      rw [this]; simp
  have k5 : (svOf w o).links.all (fun l => (svOf W (aliasedObj o p1 p2 i2 w.lnext)).links.contains l) = true := by
    rw [List.all_eq_true]
    rintro ⟨x, y⟩ hl
    exact List.contains_iff_mem.2 ((hlinks x y).2 (Or.inr hl))
  have hnameI : ∀ i ∈ o.indep, (nameOf w.heap i != o.pre ++ p2) = (i != i2) := by
    intro i hii
    by_cases e : i = i2
    · subst e; simp [hn2]
    · have : nameOf w.heap i ≠ o.pre ++ p2 := fun c => e (hi.name_inj (hi.indepSub i hii) hm2 (c.trans hn2.symm))
      rw [bne_iff_ne.2 this, bne_iff_ne.2 e]
  have k6 : ((svOf W (aliasedObj o p1 p2 i2 w.lnext)).indep ==
      (svOf w o).indep.filter (fun e => e.1 != (svOf w o).pre ++ p2)) = true := by
    rw [beq_iff_eq]
    simp only [svOf, List.filter_map, hname]
    congr 1
    rw [hi.indepNodup.erase_eq_filter]
    apply List.filter_congr
    intro i hii
    simp only [Function.comp]
    exact (hnameI i hii).symm
  have k7 : (!((svOf W (aliasedObj o p1 p2 i2 w.lnext)).indep.any
      (fun e => e.1 == (svOf W (aliasedObj o p1 p2 i2 w.lnext)).pre ++ p2))) = true := by
    rw [Bool.not_eq_true', List.any_eq_false]
    intro e he
    simp only [svOf, List.mem_map] at he
    obtain ⟨i, hie, rfl⟩ := he
    obtain ⟨hne2, hii⟩ := hi.indepNodup.mem_erase_iff.1 hie
    have := hnameI i hii
    simp only [hname, svOf]
    intro c
    rw [beq_iff_eq] at c
    rw [c] at this
    simp [hne2] at this
  have k8 : (match (svOf w o).con? p1, (svOf w o).con? p2 with
      | some c1, some c2 =>
        (svOf W (aliasedObj o p1 p2 i2 w.lnext)).con? p1 == some (aliasConSpec c1 c2).1 &&
          (svOf W (aliasedObj o p1 p2 i2 w.lnext)).con? p2 == some (aliasConSpec c1 c2).2
      | _, _ => false) = true := by
    have a1 : (svOf W (aliasedObj o p1 p2 i2 w.lnext)).con? p1 = some (W.heap.get i1).con := by
      rw [con?_svOf]; show (find? W.heap o.params (o.pre ++ p1)).map _ = _; rw [hF, hf1]; rfl
    have a2 : (svOf W (aliasedObj o p1 p2 i2 w.lnext)).con? p2 = some (W.heap.get i2).con := by
      rw [con?_svOf]; show (find? W.heap o.params (o.pre ++ p2)).map _ = _; rw [hF, hf2]; rfl
    have b1 : (svOf w o).con? p1 = some (w.heap.get i1).con := by rw [con?_svOf, hf1]; rfl
    have b2 : (svOf w o).con? p2 = some (w.heap.get i2).con := by rw [con?_svOf, hf2]; rfl
    rw [b1, b2, a1, a2, hc1, hc2]
    simp
  have k9 : (svOf W (aliasedObj o p1 p2 i2 w.lnext)).params.all (fun p =>
      p.name == (svOf W (aliasedObj o p1 p2 i2 w.lnext)).pre ++ p1 ||
      p.name == (svOf W (aliasedObj o p1 p2 i2 w.lnext)).pre ++ p2 ||
      (svOf w o).params.any (fun q => q.name == p.name && q.con == p.con)) = true := by
    rw [List.all_eq_true]
    intro p hp
    simp only [svOf, List.mem_map] at hp
    obtain ⟨i, him, rfl⟩ := hp
    simp only [Bool.or_eq_true, beq_iff_eq, List.any_eq_true, Bool.and_eq_true]
    by_cases e1 : i = i1
    · left; left; subst e1; rw [hname, hn1]; rfl
    by_cases e2 : i = i2
    · left; right; subst e2; rw [hname, hn2]; rfl
    right
    refine ⟨⟨nameOf w.heap i, (w.heap.get i).value, (w.heap.get i).con⟩, ?_, ?_, ?_⟩
    · simp only [svOf, List.mem_map]; exact ⟨i, him, rfl⟩
    · exact (hname i).symm
    · show (w.heap.get i).con = (W.heap.get i).con
      rw [hc3 i e1 e2]
  simp only [aliasOk, Bool.and_eq_true]
  exact ⟨⟨⟨⟨⟨⟨⟨⟨k1, k2⟩, k3⟩, k4⟩, k5⟩, k6⟩, k7⟩, k8⟩, k9⟩

/-! ## `unaliasOk` -/

/-- the object after a successful `unaliasParameters(p1, p2)` -/
abbrev unaliasedObj (o : Obj) (p1 p2 : String) (i2 : ObjId) : Obj :=
  { params := o.params, indep := o.indep ++ [i2], reg := mapErase (aliasId p1 p2) o.reg, pre := o.pre }

/-- a refused un-alias changes nothing -/
theorem unalias_refused_unchanged {w : World} (h : Inv w) {k : Nat} {o : Obj} (ho : w.objs k = some o) {p1 p2 : String}
    (bad : (unalias w k p1 p2).err ≠ none) :
    (unalias w k p1 p2).w = w :=
  (unalias_spec (h.obj k o ho) ho p1 p2).1 bad

theorem unaliasOk_model {w : World} (h : Inv w) {k : Nat} {o : Obj} (ho : w.objs k = some o) {p1 p2 : String}
    (ok : (unalias w k p1 p2).err = none) :
    ∃ o', (unalias w k p1 p2).w.objs k = some o' ∧
      unaliasOk p1 p2 (svOf w o) (svOf (unalias w k p1 p2).w o') = true := by
  have hi := h.obj k o ho
  obtain ⟨_, s2⟩ := unalias_spec hi ho p1 p2
  obtain ⟨i1, i2, l0, h1, h2, he, hnot, heq⟩ := s2 ok
  obtain ⟨hm1, hn1⟩ := ParamList.find?_some h1
  obtain ⟨hm2, hn2⟩ := ParamList.find?_some h2
  have hi' : ObjInv (unaliased w k o p1 p2 i1 i2) k (unaliasedObj o p1 p2 i2) := objInv_unaliased hi h1 h2 he hnot
  rw [← heq] at hi'
  have hobj : (unalias w k p1 p2).w.objs k = some (unaliasedObj o p1 p2 i2) := by rw [heq]; simp [unaliased]
  have hheap : (unalias w k p1 p2).w.heap = w.heap := by rw [heq]; rfl
  have hlis : (unalias w k p1 p2).w.lis = w.lis := by rw [heq]; rfl
  have hlsn : ∀ j, (unalias w k p1 p2).w.lsn j =
      if j = i1 then (w.lsn i1).filter (fun l => (w.lis l).id != aliasId p1 p2) else w.lsn j := by
    intro j; rw [heq]; simp [unaliased]
  refine ⟨_, hobj, ?_⟩
  generalize (unalias w k p1 p2).w = W at hi' hobj hheap hlis hlsn
  have hp1 : p1 ∈ shortNames w o := (mem_shortNames hi).2 ⟨i1, hm1, hn1⟩
  have hp2 : p2 ∈ shortNames w o := (mem_shortNames hi).2 ⟨i2, hm2, hn2⟩
  have pp2 : Plain p2 := plain_of_short hi hp2
  have hsn : shortNames W (unaliasedObj o p1 p2 i2) = shortNames w o := by
    simp only [shortNames, hheap]
  have hasL : ∀ i ∈ o.params, ∀ y ∈ shortNames w o,
      hasListener W i (aliasId (stripNs o.pre (nameOf w.heap i)) y) =
        (((stripNs o.pre (nameOf w.heap i), y) != (p1, p2)) &&
          hasListener w i (aliasId (stripNs o.pre (nameOf w.heap i)) y)) := by
    intro i him y hy
    have py := plain_of_short hi hy
    simp only [hasListener, hlis, hlsn]
    by_cases e1 : i = i1
    · subst e1
      rw [if_pos rfl, hn1, stripNs_append, List.any_filter]
      by_cases ey : y = p2
      · subst ey
        have : ((p1, y) != (p1, y)) = false := by simp
        rw [this, Bool.false_and, List.any_eq_false]
        intro l _ c
        simp only [Bool.and_eq_true, bne_iff_ne, beq_iff_eq] at c
        exact c.1 c.2
      · have hne : aliasId p1 y ≠ aliasId p1 p2 := fun c => ey (aliasId_inj py pp2 c).2
        have : ((p1, y) != (p1, p2)) = true := by simp [ey]
        rw [this, Bool.true_and, Bool.eq_iff_iff]
        simp only [List.any_eq_true, Bool.and_eq_true, bne_iff_ne, beq_iff_eq]
        constructor
        · rintro ⟨l, hl, _, hid⟩; exact ⟨l, hl, hid⟩
        · rintro ⟨l, hl, hid⟩; exact ⟨l, hl, by rw [hid]; exact hne, hid⟩
    · rw [if_neg e1]
      have : ((stripNs o.pre (nameOf w.heap i), y) != (p1, p2)) = true := by
        rw [bne_iff_ne]; intro c
        obtain ⟨x, hx, _, hs⟩ := hi.short him
        rw [hs] at c
        have hxp := (Prod.mk.inj c).1
        subst hxp
        exact e1 (hi.name_inj him hm1 (hx.trans hn1.symm))
      rw [this, Bool.true_and]
  have k1 : ((svOf W (unaliasedObj o p1 p2 i2)).pre == (svOf w o).pre) = true := by simp [svOf]
  have k2 : ((svOf W (unaliasedObj o p1 p2 i2)).params == (svOf w o).params) = true := by
    rw [beq_iff_eq]; simp only [svOf, hheap]
  have k3 : (svOf w o).links.contains (p1, p2) = true := by
    rw [List.contains_iff_mem]
    exact (mem_linksOf hi).2 ⟨hp1, hp2, List.mem_map.2 ⟨_, he, rfl⟩⟩
  have k4 : ((svOf W (unaliasedObj o p1 p2 i2)).links == (svOf w o).links.filter (fun l => l != (p1, p2))) = true := by
    rw [beq_iff_eq]
    show linksOf W (unaliasedObj o p1 p2 i2) = (linksOf w o).filter (fun l => l != (p1, p2))
    simp only [linksOf, hsn, hheap]
    rw [List.filter_flatMap]
    apply List.flatMap_congr
    intro i him
    rw [List.filter_map, List.filter_filter]
    congr 1
    apply List.filter_congr
    intro y hy
    exact hasL i him y hy
  have k5 : ((svOf W (unaliasedObj o p1 p2 i2)).indep.map (·.1) ==
      (svOf w o).indep.map (·.1) ++ [(svOf w o).pre ++ p2]) = true := by
    rw [beq_iff_eq]
    simp only [svOf, hheap, List.map_append, List.map_map, List.map_cons, List.map_nil, hn2]
  have k6 : (svOf W (unaliasedObj o p1 p2 i2)).indep.all (fun e => match e.2 with
      | some pos => ((svOf W (unaliasedObj o p1 p2 i2)).params[pos]?).map (·.name) == some e.1
      | none => false) = true := by
    rw [List.all_eq_true]
    intro e hem
    simp only [svOf, List.mem_map] at hem
    obtain ⟨i, hii, rfl⟩ := hem
    have him : i ∈ o.params := hi'.indepSub i hii
    obtain ⟨pos, hpos⟩ := hi.exists_pos him
    have hf : o.params.findIdx? (fun j => j == i) = some pos := findIdx?_nodup hi.idsNodup hpos
    simp only [svOf, hf, List.getElem?_map, hpos, Option.map_some, beq_self_eq_true]
  simp only [unaliasOk, Bool.and_eq_true]
  exact ⟨⟨⟨⟨⟨k1, k2⟩, k3⟩, k4⟩, k5⟩, k6⟩

end Bpp.Alias
