import BppModel.ObserverExt
/-!
Transcription of `AssociationGraphImplObserver::operator=` of the *unchanged* tree
(AssociationGraphImplObserver.h:255-299 before commit e21657d), used only by the witness theorem in
`Props/C14Witness.lean`.  Source and target observe the same graph.

    graphidToN_.resize(src.graphidToN_.size()); … (the four vectors: resized, not cleared)
    for (itN : src.NToGraphid_) { node = copy(*itN.first); NToGraphid_[node] = id; graphidToN_[id] = node;
                                  if src has an index i: NToIndex_[node] = i; indexToN_[i] = node; }
    … (edges likewise; the four maps are never cleared)
    subjectGraph_ = src.getGraph(); getGraph()->registerObserver(this);   // throws: already registered

The objects made by the assignment get the owner tag `fresh`.
-/
namespace Bpp.Graph.Legacy
open Bpp.Graph Bpp.Graph.IObs

def resize (v : IVec) (n : Nat) : IVec := v.take n ++ List.replicate (n - v.length) none

def assignI (fresh : Nat) (src tgt : IObs) : IObs :=
  let fr (a : Ident) : Ident := ⟨fresh, a.label⟩
  let gN := src.Ng.foldl (fun v p => put v p.2 (some (fr p.1))) (resize tgt.gN src.gN.length)
  let gE := src.Eg.foldl (fun v p => put v p.2 (some (fr p.1))) (resize tgt.gE src.gE.length)
  let ni := src.Ng.filterMap (fun p => (ifind p.1 src.Ni).map (fun i => (fr p.1, i)))
  let ei := src.Eg.filterMap (fun p => (ifind p.1 src.Ei).map (fun i => (fr p.1, i)))
  let iN := ni.foldl (fun v p => put v p.2 (some p.1)) (resize tgt.iN src.iN.length)
  let iE := ei.foldl (fun v p => put v p.2 (some p.1)) (resize tgt.iE src.iE.length)
  { gN := gN, gE := gE, Ng := tgt.Ng ++ src.Ng.map (fun p => (fr p.1, p.2)), Eg := tgt.Eg ++ src.Eg.map (fun p => (fr p.1, p.2)),
    iN := iN, iE := iE, Ni := tgt.Ni ++ ni, Ei := tgt.Ei ++ ei }

end Bpp.Graph.Legacy
