import BppModel.DagObs
import BppProofs.Lemmas.TreeObsCopy
import BppProofs.Lemmas.Dag
/-! Helper lemmas for C15, object-level wrappers of the DAG container watched by observers
(`BppModel/DagObs.lean`).  Property theorems are in `Props/C15DagObs.lean`. -/
set_option linter.unusedSimpArgs false
set_option linter.unusedVariables false
namespace Bpp
namespace Graph
open AL

/-! ### the operations of the base observer keep the direction flag of the graph -/

theorem state_directed_of_all {α : Type} {g : G} {r : GOut α} (h : r.All (fun g' => g'.directed = g.directed)) :
    r.state.directed = g.directed := by
  cases r <;> exact h

theorem world_createNode_dir (w : World) (k a : Nat) : (w.createNode k a).All (fun w' => w'.g.directed = w.g.directed) := by
  unfold World.createNode
  split
  · trivial
  · split
    · exact rfl
    · have hd := G.dir_createNode w.g
      split
      · rename_i g' hg; rw [hg] at hd; exact hd
      · rename_i id g' hg; rw [hg] at hd
        split
        · exact hd
        · exact hd

theorem world_link_dir (w : World) (k a b : Nat) (x : Option Obj) : (w.link k a b x).All (fun w' => w'.g.directed = w.g.directed) := by
  unfold World.link
  rcases w.getObs k with _ | o
  · trivial
  · simp only
    rcases find a o.Ng with _ | ia
    · exact rfl
    · rcases find b o.Ng with _ | ib
      · exact rfl
      · have hd := G.dir_link w.g ia ib
        cases x with
        | none =>
          simp only [Bool.false_eq_true, if_false]
          rcases hl : G.link ia ib w.g with ⟨e, g'⟩ | g' <;> rw [hl] at hd
          · exact hd
          · exact hd
        | some x =>
          simp only
          by_cases hx : o.hasEdge x = true
          · rw [if_pos hx]; exact rfl
          · rw [if_neg hx]
            rcases hl : G.link ia ib w.g with ⟨e, g'⟩ | g' <;> rw [hl] at hd
            · exact hd
            · exact hd

theorem world_unlink_dir {w : World} (hc : Consistent w.g) (k a b : Nat) :
    (w.unlink k a b).All (fun w' => w'.g.directed = w.g.directed) := by
  unfold World.unlink
  split
  · trivial
  · split
    · rename_i ia ib _ _
      have hd := G.dir_unlink hc ia ib
      split
      · rename_i g' hg; rw [hg] at hd; exact hd
      · rename_i u g' hg; rw [hg] at hd; exact hd
    · exact rfl

theorem world_deleteNode_dir {w : World} (hc : Consistent w.g) (k a : Nat) :
    (w.deleteNode k a).All (fun w' => w'.g.directed = w.g.directed) := by
  unfold World.deleteNode
  split
  · trivial
  · split
    · exact rfl
    · rename_i id _
      have hd := G.dir_deleteNode hc id
      split
      · rename_i g' hg; rw [hg] at hd; exact hd
      · rename_i u g' hg; rw [hg] at hd
        simp only
        split
        · trivial
        · split
          · split
            · exact hd
            · exact hd
          · exact hd

/-! ### same undirected edges: same edge ids -/

theorem hasEdge_of_uedges {g g' : G} (h : uedges g' = uedges g) (e : Nat) : g'.hasEdge e = g.hasEdge e := by
  have hk : AL.keys g'.edges = AL.keys g.edges := by
    have := congrArg (List.map (fun p : Nat × Nat × Nat => p.1)) h
    simpa [uedges, AL.keys, List.map_map, Function.comp_def] using this
  have h1 := mem_keys_iff e g'.edges
  have h2 := mem_keys_iff e g.edges
  rw [hk] at h1
  unfold G.hasEdge has
  cases ha : (find e g'.edges).isSome <;> cases hb : (find e g.edges).isSome <;> simp_all

theorem ginv_lift {α : Type} (d : D) (r : GOut α) (h : r.All GInv) : GInv (d.lift r).2.g := by
  rw [D.lift_g]
  cases r <;> exact ⟨consistent_setPending h.1 _, h.2⟩

namespace DW
open TW (WRes)

/-! ### `liftW` -/

theorem liftW_w {α : Type} (dw : DW) (r : GOut α) : (dw.liftW r).2.w = ({ dw.w with g := r.state } : World).deliver := by
  cases r <;> rfl

theorem liftW_g {α : Type} (dw : DW) (r : GOut α) : (dw.liftW r).2.w.g = { r.state with pending := [] } := by
  cases r <;> rfl

theorem liftW_winv {α : Type} {dw : DW} (hw : WInv dw.w) (r : GOut α) (hc : Consistent r.state)
    (hn : Notified dw.w.g r.state) : WInv (dw.liftW r).2.w := by
  rw [liftW_w]; exact deliver_winv hw hc hn

theorem touch_w (r : GOut Unit × DW) : (touch r).2.w = r.2.w := by
  unfold touch; split <;> rfl

theorem touch_fst (r : GOut Unit × DW) : (touch r).1 = r.1 := by
  unfold touch; split <;> rfl

theorem ofG_snd (r : GOut Unit × DW) : (ofG r).2 = r.2 := by
  unfold ofG; split <;> rfl

theorem andThen_prop {α β : Type} (P : DW → Prop) (r : GOut α × DW) (f : α → DW → GOut β × DW) (h : P r.2)
    (hf : ∀ a t, P t → P (f a t).2) : P (andThen r f).2 := by
  unfold andThen
  split
  · exact hf _ _ h
  · exact h

/-! ### the invariant of the observed DAG container -/

/-- world in order, graph directed, both cached flags sound -/
structure Inv (dw : DW) : Prop where
  winv : WInv dw.w
  dir : dw.w.g.directed = true
  sound : D.CacheSound dw.toD

theorem Inv.toD {dw : DW} (hi : Inv dw) : D.Inv dw.toD := ⟨⟨hi.winv.graph, hi.dir⟩, hi.sound⟩

theorem inv_init (hw : WInv (World.init true)) : Inv DW.init := ⟨hw, rfl, D.cacheSound_off _⟩

theorem liftW_inv {α : Type} {dw : DW} (hi : Inv dw) (r : GOut α) (hc : Consistent r.state)
    (hn : Notified dw.w.g r.state) (hd : r.state.directed = true) : Inv (dw.liftW r).2 := by
  refine ⟨liftW_winv hi.winv r hc hn, by rw [liftW_g]; exact hd, ?_⟩
  cases r with
  | ok a g' => exact D.cacheSound_off _
  | exc g' =>
    by_cases hg : g' = dw.w.g
    · subst hg
      have hq : ({ dw.w.g with pending := [] } : G) = dw.w.g := D.setPending_self hi.winv.quiet
      have : (dw.liftW (.exc dw.w.g : GOut α)).2.toD = dw.toD := by
        simp [liftW, DW.toD, World.graphOp, World.deliver, hq]
      rw [this]; exact hi.sound
    · refine ⟨fun hv => ?_, fun hv => ?_⟩ <;> simp [liftW, DW.toD, hg] at hv

theorem touch_inv {r : GOut Unit × DW} (hi : Inv r.2) : Inv (touch r).2 := by
  unfold touch
  split
  · exact ⟨hi.winv, hi.dir, D.cacheSound_off _⟩
  · exact hi

theorem link_inv {dw : DW} (hi : Inv dw) (a b : Nat) : Inv (dw.liftW (dw.w.g.link a b)).2 :=
  liftW_inv hi _ (TW.link_state_consistent hi.winv.graph a b) (G.link_notified a b dw.w.g)
    ((state_directed_of_all (G.dir_link dw.w.g a b)).trans hi.dir)

theorem unlink_inv {dw : DW} (hi : Inv dw) (a b : Nat) : Inv (dw.liftW (dw.w.g.unlink a b)).2 :=
  liftW_inv hi _ (TW.unlink_state_consistent hi.winv.graph a b) (G.unlink_notified hi.winv.graph a b)
    ((state_directed_of_all (G.dir_unlink hi.winv.graph a b)).trans hi.dir)

/-- an operation of the base observer -/
theorem ofO_inv {dw : DW} (hi : Inv dw) {r : OOut Unit} (h : r.All WInv)
    (hd : r.All (fun w' => w'.g.directed = dw.w.g.directed)) : Inv (dw.ofO r).2 := by
  unfold ofO
  cases r with
  | ok u w' => exact ⟨h, (show w'.g.directed = _ from hd).trans hi.dir, D.cacheSound_off _⟩
  | exc kd w' =>
    refine ⟨h, (show w'.g.directed = _ from hd).trans hi.dir, ?_⟩
    by_cases hg : w'.g = dw.w.g
    · have : ({ w := w', valid := decide (w'.g = dw.w.g) && dw.valid, rooted := decide (w'.g = dw.w.g) && dw.rooted } : DW).toD
          = dw.toD := by
        simp [DW.toD, hg]
      simp only
      rw [this]; exact hi.sound
    · refine ⟨fun hv => ?_, fun hv => ?_⟩ <;> simp [DW.toD, hg] at hv
  | ub => exact hi

theorem world_setRootObj_dir (w : World) (k a : Nat) : (w.setRootObj k a).All (fun w' => w'.g.directed = w.g.directed) := by
  unfold World.setRootObj
  split
  · trivial
  · split
    · exact rfl
    · rename_i id _
      have hd := G.dir_setRoot w.g id
      split
      · rename_i u g' hg; rw [hg] at hd; exact hd
      · rename_i g' hg; rw [hg] at hd; exact hd

theorem setRootObj_inv {dw : DW} (hi : Inv dw) (k : Nat) (a : Obj) : Inv (dw.setRootObj k a).2 :=
  ofO_inv hi (world_setRootObj_inv hi.winv k a) (world_setRootObj_dir dw.w k a)

theorem createNode_inv {dw : DW} (hi : Inv dw) (k : Nat) (a : Obj) : Inv (dw.createNode k a).2 :=
  ofO_inv hi (world_createNode_inv hi.winv k a) (world_createNode_dir dw.w k a)
theorem linkO_inv {dw : DW} (hi : Inv dw) (k : Nat) (a b : Obj) (x : Option Obj) : Inv (dw.link k a b x).2 :=
  ofO_inv hi (world_link_inv hi.winv k a b x) (world_link_dir dw.w k a b x)
theorem unlinkO_inv {dw : DW} (hi : Inv dw) (k : Nat) (a b : Obj) : Inv (dw.unlink k a b).2 :=
  ofO_inv hi (world_unlink_inv hi.winv k a b) (world_unlink_dir hi.winv.graph k a b)
theorem deleteNode_inv {dw : DW} (hi : Inv dw) (k : Nat) (a : Obj) : Inv (dw.deleteNode k a).2 :=
  ofO_inv hi (world_deleteNode_inv hi.winv k a) (world_deleteNode_dir hi.winv.graph k a)

theorem addFather_inv {dw : DW} (hi : Inv dw) (k : Nat) (n f : Obj) (x : Option Obj) : Inv (dw.addFather k n f x).2 := by
  unfold addFather
  cases x with
  | some x => exact linkO_inv hi k f n _
  | none =>
    simp only
    split
    · exact hi
    · exact hi
    · rw [ofG_snd]; exact touch_inv (link_inv hi _ _)

theorem addSon_inv {dw : DW} (hi : Inv dw) (k : Nat) (n s : Obj) (x : Option Obj) : Inv (dw.addSon k n s x).2 := by
  unfold addSon
  cases x with
  | some x => exact linkO_inv hi k n s _
  | none =>
    simp only
    split
    · exact hi
    · exact hi
    · rw [ofG_snd]; exact touch_inv (link_inv hi _ _)

theorem removeSonG_inv {dw : DW} (hi : Inv dw) (n s : Nat) : Inv (dw.removeSonG n s).2 := unlink_inv hi n s

theorem removeFatherG_inv {dw : DW} (hi : Inv dw) (n f : Nat) : Inv (dw.removeFatherG n f).2 := by
  have key : ∀ d1 : DW, Inv d1 → Inv (unit (d1.liftW (d1.w.g.unlink f n))).2 := fun d1 h1 => unlink_inv h1 f n
  unfold removeFatherG
  split
  · exact hi
  · apply key
    split
    · exact ⟨hi.winv, hi.dir, ⟨hi.sound.1, by intro h; cases h⟩⟩
    · exact hi

theorem removeSon_inv {dw : DW} (hi : Inv dw) (k : Nat) (n s : Obj) : Inv (dw.removeSon k n s).2 := by
  unfold removeSon
  split
  · exact hi
  · exact hi
  · rw [ofG_snd]; exact removeSonG_inv hi _ _

theorem removeFather_inv {dw : DW} (hi : Inv dw) (k : Nat) (n f : Obj) : Inv (dw.removeFather k n f).2 := by
  unfold removeFather
  split
  · exact hi
  · exact hi
  · rw [ofG_snd]; exact removeFatherG_inv hi _ _

theorem removeAll_inv {dw : DW} (hi : Inv dw) (k : Nat) (a : Obj) (fathers : Bool) : Inv (dw.removeAll k a fathers).2.2 := by
  unfold removeAll
  split
  · exact hi
  · split
    · exact hi
    · rename_i ia _
      split
      · exact hi
      · rename_i l _
        have h := D.foldl_ind (fun acc : GOut Unit × DW => Inv acc.2)
          (fun acc s => andThen acc (fun _ d' => if fathers then d'.removeFatherG ia s else d'.removeSonG ia s))
          (fun acc s hacc => andThen_prop Inv acc _ hacc (fun _ d' h' => by
            cases fathers
            · exact removeSonG_inv h' ia s
            · exact removeFatherG_inv h' ia s))
          l (.ok () dw.w.g, dw) hi
        simp only
        split
        · split
          · exact h
          · exact h
        · exact h

/-! ### the cache-writing queries -/

theorem isValid_toD (dw : DW) : dw.isValid.2.toD = dw.toD.isValid.2 := by
  unfold isValid DW.toD D.isValid
  simp only
  split
  · rename_i hv; simp [hv]
  · split <;> rfl

theorem isRooted_toD (dw : DW) : dw.isRooted.2.toD = dw.toD.isRooted.2 := by
  unfold isRooted DW.toD D.isRooted
  simp only
  split
  · rename_i hv; simp [hv]
  · split <;> rfl

theorem isValid_inv {dw : DW} (hi : Inv dw) : Inv dw.isValid.2 :=
  ⟨hi.winv, hi.dir, by rw [isValid_toD]; exact (D.inv_isValid _ hi.toD).2⟩

theorem isRooted_inv {dw : DW} (hi : Inv dw) : Inv dw.isRooted.2 :=
  ⟨hi.winv, hi.dir, by rw [isRooted_toD]; exact (D.inv_isRooted _ hi.toD).2⟩

/-! ### re-rooting -/

theorem rootAt_obs {dw : DW} {k : Nat} {a : Obj} {r : WRes × DW} (h : dw.rootAt k a = .ok r) : r.2.w.obs = dw.w.obs := by
  unfold rootAt at h
  split at h
  · injection h with h; subst h; rfl
  · split at h
    · injection h with h; subst h; rfl
    · split at h
      · injection h with h; subst h; rfl
      · cases h
      · cases h
      · cases h

/-- re-rooting keeps the world in order (no hypothesis on the caches): the re-rooted graph is consistent, quiet,
and has the same node ids and edge ids -/
theorem rootAt_winv {dw : DW} (hw : WInv dw.w) (hd : dw.w.g.directed = true) {k : Nat} {a : Obj} {r : WRes × DW}
    (h : dw.rootAt k a = .ok r) : WInv r.2.w ∧ r.2.w.g.directed = true := by
  unfold rootAt at h
  split at h
  · injection h with h; subst h; exact ⟨hw, hd⟩
  · split at h
    · injection h with h; subst h; exact ⟨hw, hd⟩
    · rename_i ia _
      split at h
      · rename_i r' hr'
        injection h with h; subst h
        obtain ⟨hs, _, _⟩ := D.rootAt_shape dw.toD ⟨hw.graph, hd⟩ hw.quiet ia r' hr'
        have hG : GInv r'.2.g :=
          D.rootAt_ind (fun d => GInv d.g)
            (fun d a b h => ginv_lift d _ (ginv_of h (G.switchNodes_consistent h.1 a b) (G.dir_switchNodes _ a b)))
            (fun d h => by rw [D.isRooted_g]; exact h) (fun d h => by rw [D.isValid_g]; exact h)
            (fun d h => by
              rcases D.orient_cases d with ho | ho <;> rw [ho]
              · have h1 : GInv d.g.orientRun.g :=
                  G.orientRun_of_all (ginv_of h (G.orientate_consistent h.1) (G.dir_orientate h.2))
                exact ⟨consistent_setPending h1.1 _, h1.2⟩
              · exact ⟨consistent_setPending h.1 _, h.2⟩)
            (fun d n h => ginv_lift d _ (ginv_of h (G.setRoot_consistent h.1 n) (G.dir_setRoot _ n)))
            dw.toD ia r' ⟨hw.graph, hd⟩ hr'
        exact ⟨winv_graph_grow hw hG.1 hs.pending (fun n hn => by rw [hs.hasNode]; exact hn)
          (fun e he => by rw [hasEdge_of_uedges hs.uedges]; exact he), hG.2⟩
      · cases h
      · cases h
      · cases h

theorem rootAt_inv {dw : DW} (hi : Inv dw) {k : Nat} {a : Obj} {r : WRes × DW} (h : dw.rootAt k a = .ok r) : Inv r.2 := by
  obtain ⟨hw', hd'⟩ := rootAt_winv hi.winv hi.dir h
  refine ⟨hw', hd', ?_⟩
  unfold rootAt at h
  split at h
  · injection h with h; subst h; exact hi.sound
  · split at h
    · injection h with h; subst h; exact hi.sound
    · rename_i ia _
      split at h
      · rename_i r' hr'
        injection h with h; subst h
        exact (D.inv_rootAt dw.toD hi.toD ia r' hr').2
      · cases h
      · cases h
      · cases h

/-! ### observer copies: the graph and the flags are untouched -/

theorem ofObsOnly_inv {dw : DW} (hi : Inv dw) {r : OOut Unit} (h : r.All (TW.SameG dw.w.g)) : Inv (dw.ofObsOnly r).2 := by
  have key : ∀ w', TW.SameG dw.w.g w' → Inv ({ dw with w := w' } : DW) := by
    intro w' hs
    refine ⟨hs.1, by rw [hs.2]; exact hi.dir, ?_⟩
    have : ({ dw with w := w' } : DW).toD = dw.toD := by simp [DW.toD, hs.2]
    rw [this]; exact hi.sound
  unfold ofObsOnly
  cases r with
  | ok u w' => exact key w' h
  | exc kd w' => exact key w' h
  | ub => exact hi

theorem copyObs_inv {dw : DW} (hi : Inv dw) (j k : Nat) : Inv (dw.copyObs j k).2 :=
  ofObsOnly_inv hi (TW.world_copy_sameG hi.winv j k)

theorem cloneObs_inv {dw : DW} (hi : Inv dw) (j k : Nat) : Inv (dw.cloneObs j k).2 :=
  ofObsOnly_inv hi (TW.world_copy_sameG hi.winv j k)

theorem assignObs_inv {dw : DW} (hi : Inv dw) (j k : Nat) : Inv (dw.assignObs j k).2 :=
  ofObsOnly_inv hi (TW.world_assign_sameG hi.winv j k)

/-! ### histories -/

theorem step_inv {dw : DW} (hi : Inv dw) (op : DWOp) : Inv (dw.step op) := by
  cases op with
  | createNode k a => exact createNode_inv hi k a
  | link k a b x => exact linkO_inv hi k a b x
  | unlink k a b => exact unlinkO_inv hi k a b
  | deleteNode k a => exact deleteNode_inv hi k a
  | addFather k n f x => exact addFather_inv hi k n f x
  | addSon k n s x => exact addSon_inv hi k n s x
  | removeFather k n f => exact removeFather_inv hi k n f
  | removeSon k n s => exact removeSon_inv hi k n s
  | removeFathers k n => exact removeAll_inv hi k n true
  | removeSons k n => exact removeAll_inv hi k n false
  | rootAt k a =>
    simp only [step]
    rcases hr : dw.rootAt k a with r | _ | _ | _
    · exact rootAt_inv hi hr
    · exact hi
    · exact hi
    · exact hi
  | isValid => exact isValid_inv hi
  | isRooted => exact isRooted_inv hi
  | copy j k => exact copyObs_inv hi j k
  | clone j k => exact cloneObs_inv hi j k
  | assign j k => exact assignObs_inv hi j k
  | setRoot k a => exact setRootObj_inv hi k a

theorem run_inv (ops : List DWOp) : ∀ dw : DW, Inv dw → Inv (dw.run ops) := by
  induction ops with
  | nil => intro dw hi; exact hi
  | cons op r ih => intro dw hi; exact ih _ (step_inv hi op)

/-! ### what the successful calls did -/

theorem ofO_ok {dw dw' : DW} {r : OOut Unit} (h : dw.ofO r = (.ok, dw')) : ∃ u, r = .ok u dw'.w := by
  unfold ofO at h
  split at h
  · injection h with _ h; subst h; exact ⟨_, rfl⟩
  · injection h with h _; cases h
  · injection h with h _; cases h

theorem ofObsOnly_ok {dw dw' : DW} {r : OOut Unit} (h : dw.ofObsOnly r = (.ok, dw')) :
    ∃ u w', r = .ok u w' ∧ dw' = { dw with w := w' } := by
  unfold ofObsOnly at h
  split at h
  · rename_i u w'
    injection h with _ h2
    exact ⟨u, w', rfl, h2.symm⟩
  · injection h with h1 _; cases h1
  · injection h with h1 _; cases h1

/-- slot `k` holds `c`, everything else is as before -/
structure Installed (dw : DW) (k : Nat) (c : Obs) (dw' : DW) : Prop where
  slot : dw'.w.getObs k = some c
  graph : dw'.w.g = dw.w.g
  valid : dw'.valid = dw.valid
  rooted : dw'.rooted = dw.rooted
  others : ∀ i, i ≠ k → dw'.w.getObs i = dw.w.getObs i

theorem installed_setObs (dw : DW) (k : Nat) (c : Obs) (hk : k < dw.w.obs.length) :
    Installed dw k c { dw with w := dw.w.setObs k c } := by
  refine ⟨?_, rfl, rfl, rfl, ?_⟩
  · show (dw.w.setObs k c).getObs k = _
    rw [getObs_setObs _ _ _ _ hk]; simp
  · intro i hik
    show (dw.w.setObs k c).getObs i = _
    rw [getObs_setObs _ _ _ _ hk, if_neg (fun hh => hik hh.symm)]

theorem copyObs_ok {dw dw' : DW} {j k : Nat} {o : Obs} (hj : dw.w.getObs j = some o) (hk : k < dw.w.obs.length)
    (h : dw.copyObs j k = (.ok, dw')) : Installed dw k (World.copyObs o) dw' := by
  obtain ⟨u, w', hr, ht⟩ := ofObsOnly_ok h
  rw [ht, TW.world_copy_ok hj hr]
  exact installed_setObs dw k _ hk

theorem assignObs_ok {dw dw' : DW} {j k : Nat} {o : Obs} (hj : dw.w.getObs j = some o) (hjk : j ≠ k)
    (h : dw.assignObs j k = (.ok, dw')) : Installed dw k (World.copyObs o) dw' := by
  obtain ⟨u, w', hr, ht⟩ := ofObsOnly_ok h
  obtain ⟨hw', hk⟩ := TW.world_assign_ok hj hjk hr
  rw [ht, hw']
  exact installed_setObs dw k _ hk

end DW
end Graph
end Bpp
