import BppProofs.Lemmas.LapFullInit
/-! Helper lemmas for C04 (`lap`, the whole routine): the augmenting row reduction keeps the
invariant, never leaves the vectors, and (with the cut of the repaired text) stops after at most
`prev * n + prev` row scans. -/
namespace Bpp.Mx.Lap
open Bpp Bpp.Mx

/-- the two smallest reduced costs of row `i` -/
structure Scan2Post (n : Nat) (c : Nat → Nat → ℝ) (v : Nat → ℝ) (i : Nat) (sc : Scan2 ℝ) : Prop where
  j1lt : sc.j1 < n
  umin : sc.uMin = c i sc.j1 - v sc.j1
  minle : ∀ j, j < n → sc.uMin ≤ c i j - v j
  sub : 2 ≤ n → ∃ us j2, sc.uSub = some us ∧ sc.j2 = some j2 ∧ j2 < n ∧ j2 ≠ sc.j1 ∧ us = c i j2 - v j2 ∧
    (∀ j, j < n → j ≠ sc.j1 → us ≤ c i j - v j) ∧ sc.uMin ≤ us

theorem scan2_spec (n : Nat) (hn : 1 ≤ n) (c : Nat → Nat → ℝ) (v : Nat → ℝ) (i : Nat) (j2 : Option Nat) :
    Scan2Post n c v i (scan2 n c v i j2) := by
  unfold scan2
  have key := foldl_range_inv'
    (fun t (sc : Scan2 ℝ) =>
      sc.j1 ≤ t ∧ sc.uMin = c i sc.j1 - v sc.j1 ∧ (∀ j, j ≤ t → sc.uMin ≤ c i j - v j) ∧
      (t = 0 → sc.uSub = none) ∧
      (1 ≤ t → ∃ us j2, sc.uSub = some us ∧ sc.j2 = some j2 ∧ j2 ≤ t ∧ j2 ≠ sc.j1 ∧ us = c i j2 - v j2 ∧
        (∀ j, j ≤ t → j ≠ sc.j1 → us ≤ c i j - v j) ∧ sc.uMin ≤ us))
    (n - 1) (scan2Step c v i) { uMin := c i 0 - v 0, j1 := 0, uSub := none, j2 := some 0 }
    ⟨Nat.le_refl 0, rfl, fun j hj => by have : j = 0 := by omega
                                        subst this; exact le_refl _, fun _ => rfl, fun h => by omega⟩
    (by
      intro t sc ht ⟨h1, h2, h3, h4, h5⟩
      unfold scan2Step
      simp only
      by_cases ht0 : t = 0
      · -- the first column after column 0: the subminimum is still `+inf`
        have hnone := h4 ht0
        have hlt : ltExt (c i (t + 1) - v (t + 1)) sc.uSub = true := by rw [hnone]; rfl
        rw [if_pos hlt]
        have hj1 : sc.j1 = 0 := by omega
        by_cases hge : sc.uMin ≤ c i (t + 1) - v (t + 1)
        · rw [if_pos ((ScalarReal.geb_iff _ _).2 hge)]
          refine ⟨by simp; omega, h2, ?_, fun h => by omega, fun _ => ?_⟩
          · intro j hj
            by_cases hjt : j ≤ t
            · exact h3 j hjt
            · have : j = t + 1 := by omega
              subst this; exact hge
          · refine ⟨_, t + 1, rfl, rfl, Nat.le_refl _, by simp; omega, rfl, ?_, hge⟩
            intro j hj hne
            simp only at hne
            have : j = t + 1 := by omega
            subst this; exact le_refl _
        · have hng : ¬ Scalar.geb (c i (t + 1) - v (t + 1)) sc.uMin = true := fun e => hge ((ScalarReal.geb_iff _ _).1 e)
          rw [if_neg hng]
          have hlt' : c i (t + 1) - v (t + 1) < sc.uMin := not_le.mp hge
          refine ⟨Nat.le_refl _, rfl, ?_, fun h => by omega, fun _ => ?_⟩
          · intro j hj
            simp only
            by_cases hjt : j ≤ t
            · exact le_trans (le_of_lt hlt') (h3 j hjt)
            · have : j = t + 1 := by omega
              subst this; exact le_refl _
          · refine ⟨sc.uMin, sc.j1, rfl, rfl, by omega, by simp; omega, h2, ?_, le_of_lt hlt'⟩
            intro j hj hne
            simp only at hne
            exact h3 j (by omega)
      · obtain ⟨us, j2', e1, e2, e3, e4, e5, e6, e7⟩ := h5 (by omega)
        by_cases hlt : c i (t + 1) - v (t + 1) < us
        · have hlt1 : ltExt (c i (t + 1) - v (t + 1)) sc.uSub = true := by rw [e1]; exact (ltExt_some _ _).2 hlt
          rw [if_pos hlt1]
          by_cases hge : sc.uMin ≤ c i (t + 1) - v (t + 1)
          · rw [if_pos ((ScalarReal.geb_iff _ _).2 hge)]
            refine ⟨by simp; omega, h2, ?_, fun h => by omega, fun _ => ?_⟩
            · intro j hj
              by_cases hjt : j ≤ t
              · exact h3 j hjt
              · have : j = t + 1 := by omega
                subst this; exact hge
            · refine ⟨_, t + 1, rfl, rfl, Nat.le_refl _, by simp; omega, rfl, ?_, hge⟩
              intro j hj hne
              simp only at hne
              by_cases hjt : j ≤ t
              · exact le_trans (le_of_lt hlt) (e6 j hjt hne)
              · have : j = t + 1 := by omega
                subst this; exact le_refl _
          · have hng : ¬ Scalar.geb (c i (t + 1) - v (t + 1)) sc.uMin = true := fun e => hge ((ScalarReal.geb_iff _ _).1 e)
            rw [if_neg hng]
            have hlt' : c i (t + 1) - v (t + 1) < sc.uMin := not_le.mp hge
            refine ⟨Nat.le_refl _, rfl, ?_, fun h => by omega, fun _ => ?_⟩
            · intro j hj
              simp only
              by_cases hjt : j ≤ t
              · exact le_trans (le_of_lt hlt') (h3 j hjt)
              · have : j = t + 1 := by omega
                subst this; exact le_refl _
            · refine ⟨sc.uMin, sc.j1, rfl, rfl, by omega, by simp; omega, h2, ?_, le_of_lt hlt'⟩
              intro j hj hne
              simp only at hne
              exact h3 j (by omega)
        · have hlt1 : ¬ ltExt (c i (t + 1) - v (t + 1)) sc.uSub = true := by rw [e1]; exact fun e => hlt ((ltExt_some _ _).1 e)
          rw [if_neg hlt1]
          have hle : us ≤ c i (t + 1) - v (t + 1) := not_lt.mp hlt
          refine ⟨by omega, h2, ?_, fun h => by omega, fun _ => ?_⟩
          · intro j hj
            by_cases hjt : j ≤ t
            · exact h3 j hjt
            · have : j = t + 1 := by omega
              subst this; exact le_trans e7 hle
          · refine ⟨us, j2', e1, e2, by omega, e4, e5, ?_, e7⟩
            intro j hj hne
            by_cases hjt : j ≤ t
            · exact e6 j hjt hne
            · have : j = t + 1 := by omega
              subst this; exact hle)
  obtain ⟨h1, h2, h3, _, h5⟩ := key
  refine ⟨by omega, h2, fun j hj => h3 j (by omega), fun h2n => ?_⟩
  have h1n : 1 ≤ n - 1 := by omega
  obtain ⟨us, j2', e1, e2, e3, e4, e5, e6, e7⟩ := h5 h1n
  have e3' : j2' < n := Nat.lt_of_le_of_lt e3 (Nat.sub_lt hn Nat.one_pos)
  exact ⟨us, j2', e1, e2, e3', e4, e5, fun j hj hne => e6 j (Nat.le_sub_one_of_lt hj) hne, e7⟩


/-- the indices of `free` that hold a free row during a sweep: the new list `0..nf-1` and the rows
still to be scanned `k..prev-1` -/
def IA (nf k prev : Nat) : Nat → Prop := fun t => t < nf ∨ (k ≤ t ∧ t < prev)

theorem FL_replace {free : Nat → Nat} {I' J : Nat → Prop} {p x0 : Nat} (hp : ¬ I' p) (hJ : ∀ t, J t ↔ I' t ∨ t = p) (x : Nat) :
    FL (upd free p x0) J x ↔ FL free I' x ∨ x = x0 := by
  constructor
  · rintro ⟨t, ht, hx⟩
    rcases (hJ t).1 ht with h | h
    · have : t ≠ p := fun e => hp (e ▸ h)
      rw [upd_ne _ _ this] at hx
      exact Or.inl ⟨t, h, hx⟩
    · subst h; rw [upd_same] at hx; exact Or.inr hx.symm
  · rintro (⟨t, ht, hx⟩ | hx)
    · have : t ≠ p := fun e => hp (e ▸ ht)
      exact ⟨t, (hJ t).2 (Or.inl ht), by rw [upd_ne _ _ this]; exact hx⟩
    · exact ⟨p, (hJ p).2 (Or.inr rfl), by rw [upd_same]; exact hx.symm⟩

theorem Inj_replace {free : Nat → Nat} {I' J : Nat → Prop} {p x0 : Nat} (hinj : InjOnI free I') (hp : ¬ I' p)
    (hJ : ∀ t, J t ↔ I' t ∨ t = p) (hx0 : ¬ FL free I' x0) : InjOnI (upd free p x0) J := by
  intro t t' ht ht' he
  rcases (hJ t).1 ht with h | h <;> rcases (hJ t').1 ht' with h' | h'
  · have h1 : t ≠ p := fun e => hp (e ▸ h)
    have h2 : t' ≠ p := fun e => hp (e ▸ h')
    rw [upd_ne _ _ h1, upd_ne _ _ h2] at he
    exact hinj t t' h h' he
  · subst h'
    have h1 : t ≠ t' := fun e => hp (e ▸ h)
    rw [upd_ne _ _ h1, upd_same] at he
    exact absurd ⟨t, h, he⟩ hx0
  · subst h
    have h2 : t' ≠ t := fun e => hp (e ▸ h')
    rw [upd_ne _ _ h2, upd_same] at he
    exact absurd ⟨t', h', he.symm⟩ hx0
  · omega

/-- invariant of `while (k < previousNumFree)` -/
structure ArrInv (n : Nat) (c : Nat → Nat → ℝ) (s : Arr ℝ) : Prop where
  inv : Inv n c s.rowSol s.colSol s.v (FL s.free (IA s.numFree s.k s.prev))
  inj : InjOnI s.free (IA s.numFree s.k s.prev)
  nfk : s.numFree ≤ s.k
  kp : s.k ≤ s.prev
  pn : s.prev ≤ n
  n2 : s.prev = 0 ∨ 2 ≤ n

theorem arrStep_good (n : Nat) (hn : n < 32768) (c : Nat → Nat → ℝ) (cut : Nat → Nat → Bool) (s : Arr ℝ) (h : ArrInv n c s) (hk : s.k < s.prev) :
    ∃ s', arrStep n c cut s = .ok s' ∧ ArrInv n c s' ∧ s'.prev = s.prev ∧ s'.cnt = s.cnt + 1 ∧
      (s'.k = s.k + 1 ∨ (s'.k = s.k ∧ cut (s.cnt + 1) (s.k + 1) = true)) := by
  have hkn : s.k < n := by have := h.pn; omega
  have hn2 : 2 ≤ n := by rcases h.n2 with h0 | h2; omega; exact h2
  have hFi : FL s.free (IA s.numFree s.k s.prev) (s.free s.k) := ⟨s.k, Or.inr ⟨Nat.le_refl _, hk⟩, rfl⟩
  obtain ⟨hi, hfree⟩ := h.inv.freeOk _ hFi
  have hsc := scan2_spec n (by omega) c s.v (s.free s.k) s.j2
  obtain ⟨us, j2', e1, e2, hj2, hj2ne, hus, hsub, hminle⟩ := hsc.sub hn2
  -- the rows still free once `free[k]` has been taken off the list
  have hI' : ∀ x, FL s.free (IA s.numFree (s.k + 1) s.prev) x ↔ (FL s.free (IA s.numFree s.k s.prev) x ∧ x ≠ s.free s.k) := by
    intro x
    constructor
    · rintro ⟨t, ht, hx⟩
      have ht' : IA s.numFree s.k s.prev t := by
        rcases ht with ht | ht
        · exact Or.inl ht
        · exact Or.inr ⟨by omega, ht.2⟩
      refine ⟨⟨t, ht', hx⟩, fun e => ?_⟩
      have := h.inj t s.k ht' (Or.inr ⟨Nat.le_refl _, hk⟩) (by rw [hx, e])
      have := h.nfk
      rcases ht with ht | ht <;> omega
    · rintro ⟨⟨t, ht, hx⟩, hne⟩
      have htk : t ≠ s.k := fun e => hne (by rw [← hx, e])
      refine ⟨t, ?_, hx⟩
      rcases ht with ht | ht
      · exact Or.inl ht
      · exact Or.inr ⟨by omega, ht.2⟩
  have hinj' : InjOnI s.free (IA s.numFree (s.k + 1) s.prev) := by
    intro t t' ht ht' he
    apply h.inj t t' _ _ he
    · rcases ht with ht | ht
      · exact Or.inl ht
      · exact Or.inr ⟨by omega, ht.2⟩
    · rcases ht' with ht' | ht'
      · exact Or.inl ht'
      · exact Or.inr ⟨by omega, ht'.2⟩
  -- `:1400-1422`: the (re-)assignment and what happens to the row that loses its column
  have tail : ∀ (v' : Nat → ℝ) (j1 : Nat) (i0 : Int) (lt : Bool), j1 < n → i0 = s.colSol j1 →
      (∀ k, k < n → v' k ≤ s.v k) → (∀ k, k < n → k ≠ j1 → v' k = s.v k) →
      (∀ k, k < n → c (s.free s.k) j1 - v' j1 ≤ c (s.free s.k) k - v' k) →
      ∃ s', (if i0 ≥ 0 then
            if (lt && cut (s.cnt + 1) (s.k + 1)) = true then
              (Except.ok
                { rowSol := upd s.rowSol (s.free s.k) ↑j1, colSol := upd s.colSol j1 ↑(s.free s.k), v := v',
                  free := upd s.free s.k (szOfInt i0), numFree := s.numFree, j2 := some j2', k := s.k, prev := s.prev,
                  cnt := s.cnt + 1 } : Res (Arr ℝ))
            else
              match wr n s.free s.numFree (szOfInt i0) with
              | Except.ok fr =>
                Except.ok
                  { rowSol := upd s.rowSol (s.free s.k) ↑j1, colSol := upd s.colSol j1 ↑(s.free s.k), v := v',
                    free := fr, numFree := s.numFree + 1, j2 := some j2', k := s.k + 1, prev := s.prev,
                    cnt := s.cnt + 1 }
              | Except.error e => Except.error e
          else
            Except.ok
              { rowSol := upd s.rowSol (s.free s.k) ↑j1, colSol := upd s.colSol j1 ↑(s.free s.k), v := v',
                free := s.free, numFree := s.numFree, j2 := some j2', k := s.k + 1, prev := s.prev,
                cnt := s.cnt + 1 }) = Except.ok s' ∧
        ArrInv n c s' ∧ s'.prev = s.prev ∧ s'.cnt = s.cnt + 1 ∧
          (s'.k = s.k + 1 ∨ s'.k = s.k ∧ cut (s.cnt + 1) (s.k + 1) = true) := by
    intro v' j1 i0 lt hj1 hi0 hle heq ht
    have hasg := h.inv.assign hFi hj1 v' hle heq ht
    have hnfk := h.nfk
    have hpn := h.pn
    by_cases hneg : i0 ≥ 0
    · rw [if_pos hneg]
      obtain ⟨x0, hx0⟩ : ∃ x0 : Nat, i0 = (x0 : Int) := ⟨i0.toNat, by omega⟩
      have hx0n : x0 < n := (h.inv.colOk j1 hj1 x0 (by rw [← hi0, hx0])).1
      have hsz : szOfInt i0 = x0 := by rw [hx0]; exact szOfInt_ofNat x0 (by omega)
      -- `x0` holds a column: it is not on the list
      have hx0F : ¬ FL s.free (IA s.numFree (s.k + 1) s.prev) x0 := by
        intro hf
        have := ((hI' x0).1 hf).1
        exact (h.inv.freeOk x0 this).2 j1 hj1 (by rw [← hi0, hx0])
      have hF' : ∀ x, ((FL s.free (IA s.numFree s.k s.prev) x ∧ x ≠ s.free s.k) ∨ s.colSol j1 = (x : Int)) ↔
          (FL s.free (IA s.numFree (s.k + 1) s.prev) x ∨ x = x0) := by
        intro x
        rw [hI' x, ← hi0, hx0]
        constructor
        · rintro (h1 | h1)
          · exact Or.inl h1
          · right; omega
        · rintro (h1 | h1)
          · exact Or.inl h1
          · right; omega
      by_cases hre : (lt && cut (s.cnt + 1) (s.k + 1)) = true
      · rw [if_pos hre]
        have hp : ¬ IA s.numFree (s.k + 1) s.prev s.k := by rintro (h1 | h1) <;> omega
        have hJ : ∀ t, IA s.numFree s.k s.prev t ↔ IA s.numFree (s.k + 1) s.prev t ∨ t = s.k := by
          intro t; unfold IA; omega
        refine ⟨_, rfl, ⟨?_, ?_, hnfk, h.kp, hpn, h.n2⟩, rfl, rfl, Or.inr ⟨rfl, ?_⟩⟩
        · refine hasg.congrF (fun x _ => ?_) (fun x hx => ?_)
          · rw [hsz, FL_replace hp hJ x]; exact hF' x
          · rw [hsz] at hx
            rcases (FL_replace hp hJ x).1 hx with h1 | h1
            · exact (h.inv.freeOk x ((hI' x).1 h1).1).1
            · omega
        · rw [hsz]; exact Inj_replace hinj' hp hJ hx0F
        · simp only [Bool.and_eq_true] at hre; exact hre.2
      · rw [if_neg hre]
        have hnf : s.numFree < n := by omega
        rw [wr_of_lt _ _ hnf]
        have hp : ¬ IA s.numFree (s.k + 1) s.prev s.numFree := by rintro (h1 | h1) <;> omega
        have hJ : ∀ t, IA (s.numFree + 1) (s.k + 1) s.prev t ↔ IA s.numFree (s.k + 1) s.prev t ∨ t = s.numFree := by
          intro t; unfold IA; omega
        refine ⟨_, rfl, ⟨?_, ?_, by simp; omega, by simp; omega, hpn, h.n2⟩, rfl, rfl, Or.inl rfl⟩
        · refine hasg.congrF (fun x _ => ?_) (fun x hx => ?_)
          · rw [hsz, FL_replace hp hJ x]; exact hF' x
          · rw [hsz] at hx
            rcases (FL_replace hp hJ x).1 hx with h1 | h1
            · exact (h.inv.freeOk x ((hI' x).1 h1).1).1
            · omega
        · rw [hsz]; exact Inj_replace hinj' hp hJ hx0F
    · rw [if_neg hneg]
      refine ⟨_, rfl, ⟨?_, hinj', by simp; omega, by simp; omega, hpn, h.n2⟩, rfl, rfl, Or.inl rfl⟩
      refine hasg.congrF (fun x _ => ?_) (fun x hx => (h.inv.freeOk x ((hI' x).1 hx).1).1)
      rw [hI' x]
      constructor
      · rintro (h1 | h1)
        · exact h1
        · omega
      · exact fun h1 => Or.inl h1
  unfold arrStep
  simp only [rd_of_lt _ hkn, hi, not_true_eq_false, if_false, e1, e2]
  by_cases hlt : (scan2 n c s.v (s.free s.k) s.j2).uMin < us
  · have hl : ltExt (scan2 n c s.v (s.free s.k) s.j2).uMin (some us) = true := (ltExt_some _ _).2 hlt
    simp only [hl, if_true]
    apply tail _ _ _ true hsc.j1lt rfl
    · intro k hk'
      by_cases hkj : k = (scan2 n c s.v (s.free s.k) s.j2).j1
      · rw [hkj, upd_same]; linarith
      · rw [upd_ne _ _ hkj]
    · intro k _ hkj; rw [upd_ne _ _ hkj]
    · intro k hk'
      rw [upd_same]
      by_cases hkj : k = (scan2 n c s.v (s.free s.k) s.j2).j1
      · rw [hkj, upd_same]
      · rw [upd_ne _ _ hkj]
        have h1 := hsub k hk' hkj
        have h2 := hsc.umin
        linarith
  · have hl : ¬ ltExt (scan2 n c s.v (s.free s.k) s.j2).uMin (some us) = true := fun e => hlt ((ltExt_some _ _).1 e)
    have hl' : ltExt (scan2 n c s.v (s.free s.k) s.j2).uMin (some us) = false := Bool.eq_false_iff.2 hl
    simp only [hl', Bool.false_eq_true, if_false]
    have hueq : us = (scan2 n c s.v (s.free s.k) s.j2).uMin := le_antisymm (not_lt.mp hlt) hminle
    by_cases hneg : s.colSol (scan2 n c s.v (s.free s.k) s.j2).j1 ≥ 0
    · simp only [hneg, if_true, rd_of_lt _ hj2]
      apply tail _ _ _ false hj2 rfl (fun k _ => le_refl _) (fun k _ _ => rfl)
      intro k hk'
      have := hsc.minle k hk'
      rw [← hus, hueq]; exact this
    · simp only [hneg, if_false]
      obtain ⟨s', hs', rest⟩ := tail s.v _ _ false hsc.j1lt rfl (fun k _ => le_refl _) (fun k _ _ => rfl)
        (by
          intro k hk'
          have := hsc.minle k hk'
          rw [← hsc.umin]; exact this)
      rw [if_neg hneg] at hs'
      exact ⟨s', hs', rest⟩

/-- bound on the number of further passes through the loop body (repaired text) -/
def arrPhi (n : Nat) (s : Arr ℝ) : Nat := (s.prev - s.k) + (s.prev * n - s.cnt)

theorem arrLoop_good (n : Nat) (hn : n < 32768) (c : Nat → Nat → ℝ) (cut : Nat → Nat → Bool) (B : Prop) :
    ∀ (fuel : Nat) (s : Arr ℝ), ArrInv n c s → (B → cut = arrCut n ∧ arrPhi n s ≤ fuel) →
      Good B (arrLoop n c cut fuel s) (fun s' => ArrInv n c s' ∧ s'.k = s'.prev) := by
  intro fuel
  induction fuel with
  | zero =>
    intro s h hB
    unfold arrLoop
    by_cases hk : s.k < s.prev
    · rw [if_pos hk]
      refine Or.inr ⟨rfl, fun hb => ?_⟩
      have := (hB hb).2
      unfold arrPhi at this
      omega
    · rw [if_neg hk]
      exact Good.ok ⟨h, by have := h.kp; omega⟩
  | succ fuel ih =>
    intro s h hB
    unfold arrLoop
    by_cases hk : s.k < s.prev
    · rw [if_pos hk]
      obtain ⟨s', hs', hinv', hprev, hcnt, hkk⟩ := arrStep_good n hn c cut s h hk
      rw [hs']
      apply ih s' hinv'
      intro hb
      obtain ⟨hcut, hphi⟩ := hB hb
      refine ⟨hcut, ?_⟩
      unfold arrPhi at hphi ⊢
      rw [hprev, hcnt]
      rcases hkk with hk1 | ⟨hk1, hc⟩
      · rw [hk1]; omega
      · rw [hk1]
        rw [hcut] at hc
        simp only [arrCut, decide_eq_true_eq] at hc
        have : (s.k + 1) * n ≤ s.prev * n := Nat.mul_le_mul_right n (by omega)
        omega
    · rw [if_neg hk]
      exact Good.ok ⟨h, by have := h.kp; omega⟩

theorem arrPass_good (n : Nat) (hn : n < 32768) (c : Nat → Nat → ℝ) (cut : Nat → Nat → Bool) (B : Prop) (fuel : Nat)
    (hB : B → cut = arrCut n ∧ n * n + n ≤ fuel) (s : Core ℝ) (h : CoreInv n c s) :
    Good B (arrPass fuel n c cut s) (CoreInv n c) := by
  unfold arrPass
  have hIA : ∀ t, IA 0 0 s.numFree t ↔ t < s.numFree := by intro t; unfold IA; omega
  have h0 : ArrInv n c { s with numFree := 0, k := 0, prev := s.numFree, cnt := 0 } := by
    refine ⟨?_, ?_, Nat.le_refl 0, Nat.zero_le _, h.le, h.n2⟩
    · refine h.inv.congrF (fun x _ => ?_) (fun x hx => ?_)
      · constructor
        · rintro ⟨t, ht, hx⟩; exact ⟨t, (hIA t).2 ht, hx⟩
        · rintro ⟨t, ht, hx⟩; exact ⟨t, (hIA t).1 ht, hx⟩
      · obtain ⟨t, ht, hx⟩ := hx
        exact (h.inv.freeOk x ⟨t, (hIA t).1 ht, hx⟩).1
    · intro t t' ht ht' he
      exact h.inj t t' ((hIA t).1 ht) ((hIA t').1 ht') he
  have hg := arrLoop_good n hn c cut B fuel _ h0 (by
    intro hb
    obtain ⟨hcut, hf⟩ := hB hb
    refine ⟨hcut, ?_⟩
    unfold arrPhi
    simp only
    have := h.le
    have : s.numFree * n ≤ n * n := Nat.mul_le_mul_right n h.le
    omega)
  rcases hg with ⟨a, hga, ha, hk⟩ | ⟨hge, hb⟩
  swap
  · rw [hge]; exact Or.inr ⟨rfl, hb⟩
  rw [hga]
  apply Good.ok
  have hIA' : ∀ t, IA a.numFree a.k a.prev t ↔ t < a.numFree := by intro t; unfold IA; omega
  refine ⟨?_, ?_, by have := ha.nfk; have := ha.pn; omega, ?_⟩
  · refine ha.inv.congrF (fun x _ => ?_) (fun x hx => ?_)
    · constructor
      · rintro ⟨t, ht, hx⟩; exact ⟨t, (hIA' t).1 ht, hx⟩
      · rintro ⟨t, ht, hx⟩; exact ⟨t, (hIA' t).2 ht, hx⟩
    · obtain ⟨t, ht, hx⟩ := hx
      exact (ha.inv.freeOk x ⟨t, (hIA' t).2 ht, hx⟩).1
  · intro t t' ht ht' he
    exact ha.inj t t' ((hIA' t).2 ht) ((hIA' t').2 ht') he
  · rcases ha.n2 with h1 | h1
    · left; have := ha.nfk; show a.numFree = 0; omega
    · exact Or.inr h1

theorem phaseA_good (n : Nat) (hn : n < 32768) (c : Nat → Nat → ℝ) (cut : Nat → Nat → Bool) (B : Prop) (fuel : Nat)
    (hB : B → cut = arrCut n ∧ n * n + n ≤ fuel) (rs0 cs0 : Nat → Int) (v0 : Nat → ℝ) :
    Good B (phaseA fuel n c cut rs0 cs0 v0) (CoreInv n c) := by
  unfold phaseA
  simp only
  have hcr := colRed_spec n hn c rs0 cs0 v0
  rcases redTransfer_good n hn c _ hcr B with ⟨rt, hrt, hp⟩ | ⟨he, hb⟩
  swap
  · rw [he]; exact Or.inr ⟨rfl, hb⟩
  rw [hrt]
  simp only
  rcases arrPass_good n hn c cut B fuel hB _ hp with ⟨s1, hs1, hp1⟩ | ⟨he, hb⟩
  swap
  · rw [he]; exact Or.inr ⟨rfl, hb⟩
  rw [hs1]
  exact arrPass_good n hn c cut B fuel hB s1 hp1

end Bpp.Mx.Lap
