import BppProofs.Lemmas.MatrixStore
/-! Helper lemmas for C04: loops (`loopM`, `fillBlock`, `dot`) of `BppModel/Matrix.lean`. -/
namespace Bpp.Mx
open Bpp

theorem loopM_inv {σ : Type} (P : Nat → σ → Prop) (n : Nat) (f : Nat → σ → Res σ) (s : σ) (h0 : P 0 s)
    (hstep : ∀ k t, k < n → P k t → ∃ t', f k t = .ok t' ∧ P (k + 1) t') :
    ∃ t, loopM n f s = .ok t ∧ P n t := by
  induction n with
  | zero => exact ⟨s, rfl, h0⟩
  | succ n ih =>
    obtain ⟨t, ht, hp⟩ := ih (fun k t hk => hstep k t (by omega))
    obtain ⟨t', ht', hp'⟩ := hstep n t (by omega) hp
    exact ⟨t', by simp only [loopM, ht, ht'], hp'⟩

/-- an error in the body at the first iteration that fails propagates -/
theorem loopM_succ {σ : Type} (n : Nat) (f : Nat → σ → Res σ) (s : σ) :
    loopM (n + 1) f s = (match loopM n f s with | .ok t => f n t | .error e => .error e) := rfl

namespace Store
variable {α : Type}

/-- `O'` is a store of the same class and dimensions as `O` -/
def Same (O O' : Store α) : Prop := O'.WF ∧ O'.kind = O.kind ∧ O'.nrows = O.nrows ∧ O'.ncols = O.ncols

theorem Same.refl {O : Store α} (hw : O.WF) : Same O O := ⟨hw, rfl, rfl, rfl⟩
theorem Same.trans {O O' O'' : Store α} (h1 : Same O O') (h2 : Same O' O'') : Same O O'' :=
  ⟨h2.1, h2.2.1.trans h1.2.1, h2.2.2.1.trans h1.2.2.1, h2.2.2.2.trans h1.2.2.2⟩

/-- `O'` agrees with `O` except on the positions in `W`, where it holds `val` -/
def Written (O O' : Store α) (W : Nat → Nat → Prop) (val : Nat → Nat → α) : Prop :=
  Same O O' ∧ ∀ p q, p < O.nrows → q < O.ncols →
    (W p q → O'.get p q = .ok (val p q)) ∧ (¬ W p q → O'.get p q = O.get p q)

theorem Written.init {O : Store α} (hw : O.WF) (val : Nat → Nat → α) : Written O O (fun _ _ => False) val :=
  ⟨Same.refl hw, fun _ _ _ _ => ⟨fun h => h.elim, fun _ => rfl⟩⟩

theorem Written.mono {O O' : Store α} {W W' : Nat → Nat → Prop} {val : Nat → Nat → α}
    (h : Written O O' W val) (hiff : ∀ p q, p < O.nrows → q < O.ncols → (W p q ↔ W' p q)) : Written O O' W' val :=
  ⟨h.1, fun p q hp hq => ⟨fun hw' => (h.2 p q hp hq).1 ((hiff p q hp hq).2 hw'),
    fun hn => (h.2 p q hp hq).2 (fun hw => hn ((hiff p q hp hq).1 hw))⟩⟩

/-- one more assignment `O'(i,j) = val i j` -/
theorem Written.step {O O' : Store α} {W : Nat → Nat → Prop} {val : Nat → Nat → α} (h : Written O O' W val)
    {i j : Nat} (hi : i < O.nrows) (hj : j < O.ncols) :
    ∃ O'', O'.set i j (val i j) = .ok O'' ∧ Written O O'' (fun p q => W p q ∨ (p = i ∧ q = j)) val := by
  obtain ⟨⟨hw, hk, hr, hc⟩, hget⟩ := h
  obtain ⟨O'', hset, hw'', hk'', hr'', hc'', hgij, hoth⟩ := set_spec hw (hr ▸ hi) (hc ▸ hj) (val i j)
  refine ⟨O'', hset, ⟨hw'', hk''.trans hk, hr''.trans hr, hc''.trans hc⟩, ?_⟩
  intro p q hp hq
  by_cases hpq : p = i ∧ q = j
  · obtain ⟨rfl, rfl⟩ := hpq
    exact ⟨fun _ => hgij, fun hn => absurd (Or.inr ⟨rfl, rfl⟩) hn⟩
  · have hne : p ≠ i ∨ q ≠ j := by
      by_contra hcon
      push_neg at hcon
      exact hpq hcon
    have := hoth p q (hr ▸ hp) (hc ▸ hq) hne
    constructor
    · intro hW
      rcases hW with hW | hW
      · rw [this]; exact (hget p q hp hq).1 hW
      · exact absurd hW hpq
    · intro hn
      rw [this]
      exact (hget p q hp hq).2 (fun hW => hn (Or.inl hW))

end Store

section Fill
variable {α : Type} [Scalar α]
open Store

/-- the inner loop of `fillBlock`: row `r0+i`, columns `c0 .. c0+c-1` -/
theorem fillRow_written {O Oi : Store α} {W : Nat → Nat → Prop} {val : Nat → Nat → α}
    (hinv : Written O Oi W val) {r0 c0 i c : Nat} (hr : r0 + i < O.nrows) (hc : c0 + c ≤ O.ncols)
    {f : Nat → Nat → Res α} (hf : ∀ j, j < c → f i j = .ok (val (r0 + i) (c0 + j))) :
    ∃ O', loopM c (fun j O =>
        match f i j with
        | .ok x => O.set (r0 + i) (c0 + j) x
        | .error e => .error e) Oi = .ok O' ∧
      Written O O' (fun p q => W p q ∨ (p = r0 + i ∧ c0 ≤ q ∧ q < c0 + c)) val := by
  apply loopM_inv (fun j (O' : Store α) => Written O O' (fun p q => W p q ∨ (p = r0 + i ∧ c0 ≤ q ∧ q < c0 + j)) val)
  · exact hinv.mono (by intro p q _ _; constructor; exact fun h => Or.inl h; intro h; rcases h with h | h; exact h; omega)
  · intro j Oj hj hinv2
    simp only [hf j hj]
    obtain ⟨O3, hset, hwr⟩ := hinv2.step (i := r0 + i) (j := c0 + j) (by omega) (by omega)
    refine ⟨O3, hset, hwr.mono ?_⟩
    intro p q _ _
    constructor
    · intro h
      rcases h with (h | h) | h
      · exact Or.inl h
      · exact Or.inr ⟨h.1, h.2.1, by omega⟩
      · exact Or.inr ⟨h.1, by omega, by omega⟩
    · intro h
      rcases h with h | h
      · exact Or.inl (Or.inl h)
      · by_cases hq : q = c0 + j
        · exact Or.inr ⟨h.1, hq⟩
        · exact Or.inl (Or.inr ⟨h.1, h.2.1, by omega⟩)

/-- the double loop `O(r0+i, c0+j) = f(i,j)` over a block inside `O` whose entry computations all
succeed: the block holds the computed values, everything else is untouched -/
theorem fillBlock_written {O : Store α} (hw : O.WF) {r0 c0 r c : Nat} (hr : r0 + r ≤ O.nrows) (hc : c0 + c ≤ O.ncols)
    {f : Nat → Nat → Res α} {g : Nat → Nat → α} (hf : ∀ i j, i < r → j < c → f i j = .ok (g i j)) :
    ∃ O', fillBlock O r0 c0 r c f = .ok O' ∧
      Written O O' (fun p q => r0 ≤ p ∧ p < r0 + r ∧ c0 ≤ q ∧ q < c0 + c) (fun p q => g (p - r0) (q - c0)) := by
  unfold fillBlock
  apply loopM_inv (fun i (O' : Store α) =>
    Written O O' (fun p q => r0 ≤ p ∧ p < r0 + i ∧ c0 ≤ q ∧ q < c0 + c) (fun p q => g (p - r0) (q - c0)))
  · exact (Written.init hw _).mono (by intro p q _ _; constructor; exact fun h => h.elim; intro h; omega)
  · intro i Oi hi hinv
    obtain ⟨O'', h3, h4⟩ := fillRow_written hinv (r0 := r0) (c0 := c0) (i := i) (c := c) (by omega) hc (f := f)
      (by intro j hj; rw [hf i j hi hj]; simp)
    refine ⟨O'', h3, h4.mono ?_⟩
    intro p q _ _
    constructor
    · intro h
      rcases h with h | h
      · exact ⟨h.1, by omega, h.2.2⟩
      · exact ⟨by omega, by omega, h.2⟩
    · intro h
      by_cases hp : p = r0 + i
      · exact Or.inr ⟨hp, h.2.2⟩
      · exact Or.inl ⟨h.1, by omega, h.2.2⟩

theorem loopM_id {σ : Type} (n : Nat) (f : Nat → σ → Res σ) (s : σ) (h : ∀ k t, k < n → f k t = .ok t) :
    loopM n f s = .ok s := by
  induction n with
  | zero => rfl
  | succ n ih => rw [loopM_succ, ih (fun k t hk => h k t (by omega))]; exact h n s (by omega)

theorem fillBlock_empty (O : Store α) (r0 c0 r c : Nat) (f : Nat → Nat → Res α) (h : r = 0 ∨ c = 0) :
    fillBlock O r0 c0 r c f = .ok O := by
  unfold fillBlock
  rcases h with h | h
  · subst h; rfl
  · subst h; exact loopM_id _ _ _ (fun _ _ _ => rfl)

theorem shape_pos (k : Kind) {r c : Nat} (hr : 0 < r) (hc : 0 < c) : k.shape r c = (r, c) := by
  cases k <;> simp [Kind.shape] <;> omega

/-- filling all `r × c` entries of a store whose reported dimensions are those of an `r × c` matrix -/
theorem fill_holds {O : Store α} (hw : O.WF) {r c : Nat} (hd : (O.nrows, O.ncols) = O.kind.shape r c)
    {f : Nat → Nat → Res α} {g : Nat → Nat → α} (hf : ∀ i j, i < r → j < c → f i j = .ok (g i j)) :
    ∃ O', fill O r c f = .ok O' ∧ O'.kind = O.kind ∧ O'.Holds r c g := by
  unfold fill
  by_cases h0 : r = 0 ∨ c = 0
  · refine ⟨O, fillBlock_empty O 0 0 r c f h0, rfl, hw, hd, ?_⟩
    intro i j hi hj; omega
  · have hr : 0 < r := by omega
    have hc : 0 < c := by omega
    rw [shape_pos _ hr hc] at hd
    have hnr : O.nrows = r := (Prod.mk.inj hd).1
    have hnc : O.ncols = c := (Prod.mk.inj hd).2
    obtain ⟨O', h1, ⟨hw', hk', hr', hc'⟩, hget⟩ := fillBlock_written hw (r0 := 0) (c0 := 0) (r := r) (c := c)
      (by omega) (by omega) hf
    refine ⟨O', h1, hk', hw', ?_, ?_⟩
    · rw [hr', hc', hk', shape_pos _ hr hc, hnr, hnc]
    · intro i j hi hj
      have := (hget i j (by omega) (by omega)).1 ⟨by omega, by omega, by omega, by omega⟩
      simpa using this

theorem fill_resize_holds (O : Store α) {r c : Nat}
    {f : Nat → Nat → Res α} {g : Nat → Nat → α} (hf : ∀ i j, i < r → j < c → f i j = .ok (g i j)) :
    ∃ O', fill (O.resize r c) r c f = .ok O' ∧ O'.kind = O.kind ∧ O'.Holds r c g := by
  obtain ⟨O', h1, h2, h3⟩ := fill_holds (resize_wf O r c) (by rw [resize_dims, resize_kind]) hf
  exact ⟨O', h1, by rw [h2, resize_kind], h3⟩

/-- a store that holds an `r × c` matrix with both dimensions positive has exactly those dimensions -/
theorem Store.Holds.dims_pos {S : Store α} {r c : Nat} {g : Nat → Nat → α} (h : S.Holds r c g) (hr : 0 < r) (hc : 0 < c) :
    S.nrows = r ∧ S.ncols = c := by
  have := h.2.1
  rw [shape_pos _ hr hc] at this
  exact ⟨(Prod.mk.inj this).1, (Prod.mk.inj this).2⟩

theorem Store.Holds.congr {S : Store α} {r c : Nat} {g g' : Nat → Nat → α} (h : S.Holds r c g)
    (hg : ∀ i j, i < r → j < c → g i j = g' i j) : S.Holds r c g' :=
  ⟨h.1, h.2.1, fun i j hi hj => by rw [h.2.2 i j hi hj, hg i j hi hj]⟩

/-- a well-formed store holds its own entries -/
theorem holds_self {S : Store α} (hw : S.WF) (hd : (S.nrows, S.ncols) = S.kind.shape S.nrows S.ncols) :
    S.Holds S.nrows S.ncols S.entry :=
  ⟨hw, hd, fun _ _ hi hj => get_eq_entry hw hi hj⟩

end Fill

section Dot
variable {α : Type} [Scalar α]

theorem sumTo_succ (n : Nat) (t : Nat → α) : Spec.sumTo (n + 1) t = Spec.sumTo n t + t n := by
  simp [Spec.sumTo, List.range_succ, List.foldl_append]

theorem dot_ok {n : Nat} {f : Nat → Res α} {t : Nat → α} (h : ∀ k, k < n → f k = .ok (t k)) :
    dot n f = .ok (Spec.sumTo n t) := by
  unfold dot
  induction n with
  | zero => rfl
  | succ n ih =>
    rw [loopM_succ, ih (fun k hk => h k (by omega)), h n (by omega), sumTo_succ]

end Dot
end Bpp.Mx
