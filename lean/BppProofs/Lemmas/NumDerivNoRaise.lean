import BppProofs.Lemmas.NumDerivExact
/-!
C12 helper lemmas, part 6: the two-point scheme and the three-point scheme without cross
derivatives never raise from their probing: a probe refused by a constraint is retried on the
other side / with a smaller step, and after ten refusals the NaN marker is stored.
-/
namespace Bpp.NumDeriv
open Bpp Bpp.Scalar

theorem Dev.skel {B l : PList ℝ} {S : Name → Prop} (h : Dev B l S) : Skel l B := by
  unfold Dev at h; unfold Skel
  exact h.imp (fun _ _ hab => hab.1)

/-- a list whose values are base values is accepted by the wrapped function wherever it is -/
theorem noViolation_of_base {params B : PList ℝ} (hc : Ctx params B) (hfeas : Feas B) {l : PList ℝ} {S : Name → Prop}
    (hD : Dev B l S) (pl : PList ℝ) (hpl : ∀ q ∈ pl, q ∈ params) : anyViolation l pl = false := by
  unfold anyViolation
  rw [List.any_eq_false]
  intro q hq
  rcases find?_skel hD.skel q.name with ⟨h1, _⟩ | ⟨p, b, h1, h2, h3⟩
  · rw [h1]; simp
  · rw [h1]
    simp only [Bool.not_eq_true]
    have hb := find?_some h2
    rw [violates_skel h3, ← hc.sync q (hpl q hq) b hb.1 hb.2]
    exact hfeas b hb.1

theorem setParameters_base_ok (f : List ℝ → ℝ) {params B : PList ℝ} (hc : Ctx params B) (hfeas : Feas B) (fn : Fn ℝ)
    {S : Name → Prop} (hD : Dev B fn.params S) (pl : PList ℝ) (hpl : ∀ q ∈ pl, q ∈ params) (hnd : (names pl).Nodup) :
    (fn.setParameters f pl).2 = none := by
  obtain ⟨fired, h, _⟩ := setParameters_eq f fn pl (hc.own hD) hnd (noViolation_of_base hc hfeas hD pl hpl)
  rw [h]

/-- the retry loops do not raise: the step never becomes 0 and the reset of the give-up branch
only carries a base value -/
theorem retry_noexc (f : List ℝ → ℝ) {params B : PList ℝ} (hc : Ctx params B) (hfeas : Feas B) {var : Name}
    (rp : Bool) (value : ℝ) :
    ∀ (n : Nat) (fn : Fn ℝ) (p : PList ℝ) (h : ℝ) (fv : Option ℝ), RI f params B var fn p → h ≠ 0 →
      (retry f rp (n + 1) fn p value h fv).exc = none := by
  intro n
  induction n with
  | zero =>
    intro fn p h fv hri hh
    obtain ⟨hri', _, _, _, _, _⟩ := attempt_RI f hc hri (value + h)
    have hz : eqb h zero = false := by
      cases hb : eqb h zero with
      | false => rfl
      | true => exact absurd ((ScalarReal.eqb_iff _ _).mp hb) (by simpa using hh)
    unfold retry
    simp only []
    split
    · rw [hz]; simp
    · simp only [if_true]
      split
      · rename_i hcond
        simp only [Bool.and_eq_true, decide_eq_true_eq] at hcond
        obtain ⟨_, q0, rest, hp, _, hnd, hrest, hlen, hD⟩ := hri'
        rw [hp] at hcond
        obtain ⟨ql, rfl⟩ : ∃ ql, rest = [ql] := by
          cases rest with
          | nil => simp at hcond
          | cons a r =>
            cases r with
            | nil => exact ⟨a, rfl⟩
            | cons b r' => simp at hlen
        have hsub : subIdx (attempt f fn p (value + h)).p 1 = [ql] := by rw [hp]; rfl
        rw [hsub]
        exact setParameters_base_ok f hc hfeas _ hD [ql] (fun q hq => by simp at hq; subst hq; exact hrest q (by simp))
          (by simp [names])
      · rfl
  | succ n ih =>
    intro fn p h fv hri hh
    obtain ⟨hri', _, _, _, _, _⟩ := attempt_RI f hc hri (value + h)
    have hz : eqb h zero = false := by
      cases hb : eqb h zero with
      | false => rfl
      | true => exact absurd ((ScalarReal.eqb_iff _ _).mp hb) (by simpa using hh)
    unfold retry
    simp only []
    split
    · rw [hz]; simp
    · simp only [Nat.add_one_ne_zero, if_false]
      apply ih _ _ _ _ hri'
      split
      · exact neg_ne_zero.mpr hh
      · simp only [ScalarReal.ofInt_eq]
        exact div_ne_zero hh (by norm_num)


theorem prepare_ok (f : List ℝ → ℝ) {params B : PList ℝ} {w0 : W ℝ} {slot : W ℝ → ℝ} {lp : Loop ℝ}
    (hLI : LI f params B w0 slot lp) (var : Name) (hhas : has params var = true) (hvar : var ∈ names B)
    (hlast : lp.lastVar ≠ some var) (hh : lp.w.h ≠ 0) :
    ∃ p value h, prepare params lp.w.h lp var = .ok (p, value, h) ∧ h ≠ 0 := by
  obtain ⟨_, hD, hl, _, _⟩ := hLI
  obtain ⟨qv, hqv⟩ : ∃ qv, find? params var = some qv := by
    cases hf : find? params var with
    | none => exact absurd ((has_iff params var).mp hhas) (find?_none hf)
    | some q => exact ⟨q, rfl⟩
  obtain ⟨pv, hpv⟩ : ∃ pv, find? lp.w.fn.params var = some pv := by
    cases hf : find? lp.w.fn.params var with
    | none => exact absurd (hD.names ▸ hvar) (find?_none hf)
    | some q => exact ⟨q, rfl⟩
  have hval : lp.w.fn.valueOf var = .ok pv.value := by unfold Fn.valueOf; rw [hpv]
  have hne : ∀ prec : ℝ, (if ltb (Scalar.abs (-(one + Scalar.abs pv.value) * lp.w.h)) prec = true then
      (if ltb (-(one + Scalar.abs pv.value) * lp.w.h) zero = true then -prec else prec)
      else -(one + Scalar.abs pv.value) * lp.w.h) ≠ 0 := by
    intro prec
    have h0 : -(one + Scalar.abs pv.value) * lp.w.h ≠ 0 := by
      simp only [ScalarReal.one_eq, ScalarReal.abs_eq]
      have : (1 + |pv.value|) ≠ 0 := by positivity
      exact mul_ne_zero (neg_ne_zero.mpr this) hh
    split
    · rename_i hlt
      rw [ScalarReal.ltb_iff, ScalarReal.abs_eq] at hlt
      have hp : prec ≠ 0 := by
        intro e; rw [e] at hlt; exact absurd hlt (not_lt.mpr (abs_nonneg _))
      split
      · exact neg_ne_zero.mpr hp
      · exact hp
    · exact h0
  unfold prepare
  simp only []
  cases hlv : lp.lastVar with
  | none =>
    simp only []
    rw [subNames_one params var qv hqv, hval]
    exact ⟨_, _, _, rfl, hne qv.prec⟩
  | some l =>
    simp only []
    obtain ⟨ql, hql⟩ : ∃ ql, find? params l = some ql := by
      cases hf : find? params l with
      | none => exact absurd ((has_iff params l).mp (hl l hlv)) (find?_none hf)
      | some q => exact ⟨q, rfl⟩
    rw [subNames_two params var l qv ql hqv hql (fun e => hlast (by rw [hlv, e])), hval]
    exact ⟨_, _, _, rfl, hne qv.prec⟩

theorem retry_h_ne (f : List ℝ → ℝ) (rp : Bool) (value : ℝ) : ∀ (n : Nat) (fn : Fn ℝ) (p : PList ℝ) (h : ℝ) (fv : Option ℝ),
    h ≠ 0 → (retry f rp n fn p value h fv).h ≠ 0 := by
  intro n
  induction n with
  | zero => intro fn p h fv hh; unfold retry; exact hh
  | succ n ih =>
    intro fn p h fv hh
    unfold retry
    simp only []
    split
    · split <;> exact hh
    · split
      · split <;> exact hh
      · apply ih
        split
        · exact neg_ne_zero.mpr hh
        · simp only [ScalarReal.ofInt_eq]; exact div_ne_zero hh (by norm_num)

theorem step2_noexc (f : List ℝ → ℝ) {params B : PList ℝ} (hc : Ctx params B) (hfeas : Feas B) {w0 : W ℝ} (lp : Loop ℝ)
    (hLI : LI f params B w0 (fun w => w.f1) lp) (i : Nat) (var : Name) (hvar : has params var = true → var ∈ names B)
    (hlast : lp.lastVar ≠ some var) (hh : lp.w.h ≠ 0) : (step2 f params lp i var).2 = none := by
  unfold step2
  split
  · rfl
  · rename_i hhas
    have hhas' : has params var = true := by simpa using hhas
    obtain ⟨p, value, h, hprep, hne⟩ := prepare_ok f hLI var hhas' (hvar hhas') hlast hh
    rw [hprep]
    simp only []
    have hri := prepare_RI f hLI var lp.w.h p value h hprep
    have := retry_noexc f hc hfeas true value 9 lp.w.fn p h none hri hne
    rw [this]
    simp

theorem step3_noexc (f : List ℝ → ℝ) {params B : PList ℝ} (hc : Ctx params B) (hfeas : Feas B) {w0 : W ℝ} (lp : Loop ℝ)
    (hLI : LI f params B w0 (fun w => w.f2) lp) (i : Nat) (var : Name) (hvar : has params var = true → var ∈ names B)
    (hlast : lp.lastVar ≠ some var) (hh : lp.w.h ≠ 0) : (step3 f params lp i var).2 = none := by
  unfold step3
  split
  · rfl
  · rename_i hhas
    have hhas' : has params var = true := by simpa using hhas
    obtain ⟨p, value, h, hprep, hne⟩ := prepare_ok f hLI var hhas' (hvar hhas') hlast hh
    rw [hprep]
    simp only []
    have hri := prepare_RI f hLI var lp.w.h p value h hprep
    have hx1 := retry_noexc f hc hfeas true value 9 lp.w.fn p h none hri hne
    have hR1 := retry_RI f hc true value 9 lp.w.fn p h none hri (Or.inl rfl) hx1
    have hh1 := retry_h_ne f true value 10 lp.w.fn p h none hne
    generalize retry f true 10 lp.w.fn p value h none = r1 at hx1 hR1 hh1
    rw [hx1]
    simp only [Option.isSome_none, Bool.false_eq_true, if_false]
    obtain ⟨h1, h2, h3, _, _, _⟩ := hR1
    split
    · rfl
    · rename_i hf1 hhf
      obtain ⟨q, hq, hqn⟩ := h3 (by rw [hhf]; simp)
      have hri3 : RI f params B var r1.fn r1.p := by
        rw [hq]
        exact ⟨h1, q, [], rfl, hqn, by simp [names], by simp, by simp, h2.mono (fun m hm => Or.inl hm)⟩
      have hne3 : (if ltb r1.h zero = true then -r1.h else r1.h / ofInt 2) ≠ 0 := by
        split
        · exact neg_ne_zero.mpr hh1
        · simp only [ScalarReal.ofInt_eq]; exact div_ne_zero hh1 (by norm_num)
      have hx3 := retry_noexc f hc hfeas false value 9 r1.fn r1.p _ none hri3 hne3
      rw [hx3]
      simp only [Option.isSome_none, Bool.false_eq_true, if_false]
      split <;> rfl

/-- the loops of the two schemes do not raise when the selection has no duplicate and only names
of the wrapped function -/
theorem loop_noexc (f : List ℝ → ℝ) {params B : PList ℝ} {w0 : W ℝ} {slot : W ℝ → ℝ}
    (step : Loop ℝ → Nat → Name → Loop ℝ × Option Exc)
    (hLIstep : ∀ lp, LI f params B w0 slot lp → ∀ i var r, step lp i var = r → r.2 = none → LI f params B w0 slot r.1)
    (hno : ∀ lp, LI f params B w0 slot lp → ∀ i var, (has params var = true → var ∈ names B) → lp.lastVar ≠ some var →
      (step lp i var).2 = none)
    (hlast : ∀ lp i var, (step lp i var).1.lastVar = lp.lastVar ∨ (step lp i var).1.lastVar = some var) :
    ∀ (vs : List Name) (i : Nat) (lp : Loop ℝ), LI f params B w0 slot lp → (∀ l, lp.lastVar = some l → l ∉ vs) →
      vs.Nodup → (∀ v ∈ vs, has params v = true → v ∈ names B) → (loopGo step vs i lp).2 = none := by
  intro vs
  induction vs with
  | nil => intro i lp _ _ _ _; rfl
  | cons v vs ih =>
    intro i lp hLI hl hnd hin
    have hnd' := List.nodup_cons.mp hnd
    unfold loopGo
    have h1 := hno lp hLI i v (hin v (List.mem_cons_self ..)) (fun e => hl v e (List.mem_cons_self ..))
    have h2 := hLIstep lp hLI i v _ rfl h1
    have h3 := hlast lp i v
    rcases hs : step lp i v with ⟨lp1, e1⟩
    rw [hs] at h1 h2 h3
    simp only [] at h1 h2 h3
    subst h1
    simp only []
    apply ih (i + 1) lp1 h2 _ hnd'.2 (fun x hx => hin x (List.mem_cons_of_mem _ hx))
    intro l hl1 hm
    rcases h3 with h3 | h3
    · exact hl l (h3 ▸ hl1) (List.mem_cons_of_mem _ hm)
    · rw [h3] at hl1; injection hl1 with hl1; subst hl1; exact hnd'.1 hm


theorem step2_lastVar (f : List ℝ → ℝ) (params : PList ℝ) (lp : Loop ℝ) (i : Nat) (var : Name) :
    (step2 f params lp i var).1.lastVar = lp.lastVar ∨ (step2 f params lp i var).1.lastVar = some var := by
  unfold step2
  split
  · exact Or.inl rfl
  · split
    · exact Or.inl rfl
    · simp only []
      repeat' split
      all_goals first | exact Or.inl rfl | exact Or.inr rfl

theorem step3_lastVar (f : List ℝ → ℝ) (params : PList ℝ) (lp : Loop ℝ) (i : Nat) (var : Name) :
    (step3 f params lp i var).1.lastVar = lp.lastVar ∨ (step3 f params lp i var).1.lastVar = some var := by
  unfold step3
  split
  · exact Or.inl rfl
  · split
    · exact Or.inl rfl
    · simp only []
      repeat' split
      all_goals first | exact Or.inl rfl | exact Or.inr rfl

theorem finish_noexc (f : List ℝ → ℝ) {params B : PList ℝ} (hc : Ctx params B) (hfeas : Feas B)
    (lastVar : Option Name) (w : W ℝ) {S : Name → Prop} (hD : Dev B w.fn.params S)
    (hl : ∀ l, lastVar = some l → has params l = true) : (finish f params lastVar false w).2 = none := by
  unfold finish
  simp only []
  cases lastVar with
  | none => rfl
  | some l =>
    simp only [Bool.false_eq_true, if_false]
    obtain ⟨q, hq⟩ : ∃ q, find? params l = some q := by
      cases hf : find? params l with
      | none => exact absurd ((has_iff params l).mp (hl l rfl)) (find?_none hf)
      | some q => exact ⟨q, rfl⟩
    rw [subNames_one params l q hq]
    simp only []
    exact setParameters_base_ok f hc hfeas _ (S := S) (by simpa using hD) [q]
      (fun x hx => by simp at hx; subst hx; exact (find?_some hq).1) (by simp [names])

theorem update2_noexc (f : List ℝ → ℝ) (w : W ℝ) (params : PList ℝ) (hown : Own w.fn) (hok : w.fn.OK f)
    (hfeas : Feas w.fn.params) (hsync : Synced params w.fn.params) (hpnd : (names params).Nodup)
    (hvars : w.vars.Nodup) (hin : ∀ v ∈ w.vars, v ∈ names w.fn.params) (hh : w.h ≠ 0) :
    (update2 f w params).2 = none := by
  have hc : Ctx params w.fn.params := ⟨hown.1, hown.2, hsync⟩
  unfold update2
  split
  · simp only []
    have hown0 : Own (w.fn.enable1 false) := by unfold Own; simp; exact hown
    have hok0 : (w.fn.enable1 false).OK f := enable1_OK f _ _ hok
    have h0 := first_set f (w.fn.enable1 false) hown0 hok0 (by simpa using hsync) hpnd
    have hn0 := setParameters_base_ok f hc hfeas (w.fn.enable1 false) (S := fun _ => False)
      (by simpa using Dev.refl w.fn.params _) params (fun q hq => hq) hpnd
    rcases hs1 : (w.fn.enable1 false).setParameters f params with ⟨fn1, e1⟩
    rw [hs1] at h0 hn0
    simp only [] at hn0
    subst hn0
    obtain ⟨g1, g2, g3, _, _⟩ := h0
    simp only [] at g1 g2 g3
    have hp1 : fn1.params = w.fn.params := by have := g1 trivial; simpa using this
    simp only []
    split
    · rfl
    · have hLI0 : LI f params w.fn.params { w with fn := fn1, f1 := fn1.fval } (fun w => w.f1)
          { w := { w with fn := fn1, f1 := fn1.fval }, p := [], lastVar := none } :=
        ⟨g2, (by rw [hp1]; exact Dev.refl _ _), (fun l h => by cases h), Frame.refl _, rfl⟩
      have hloopLI := loopGo_LI f (step2 f params) (fun lp h i var r => step2_LI f hc lp h i var r) w.vars 0 _ hLI0
      have hloop := loop_noexc f (step2 f params) (fun lp h i var r => step2_LI f hc lp h i var r)
        (fun lp h i var hv hl => step2_noexc f hc hfeas lp h i var hv hl (by rw [h.2.2.2.1.h]; exact hh))
        (step2_lastVar f params) w.vars 0 _ hLI0 (fun l h => by cases h) hvars (fun v hv _ => hin v hv)
      rcases hl : loopGo (step2 f params) w.vars 0 { w := { w with fn := fn1, f1 := fn1.fval }, p := [], lastVar := none } with ⟨lp, e⟩
      rw [hl] at hloop hloopLI
      simp only [] at hloop hloopLI
      subst hloop
      simp only []
      obtain ⟨_, l2, l3, _, _⟩ := hloopLI rfl
      exact finish_noexc f hc hfeas lp.lastVar lp.w l2 l3
  · simp only []
    have hn0 := setParameters_base_ok f hc hfeas (({ w with fn := w.fn.enable1 w.c1 } : W ℝ).enable2 w.c2)
      (S := fun _ => False) (by simpa using Dev.refl w.fn.params _) params (fun q hq => hq) hpnd
    rcases hs1 : (({ w with fn := w.fn.enable1 w.c1 } : W ℝ).enable2 w.c2).setParameters f params with ⟨fn1, e1⟩
    rw [hs1] at hn0
    simp only [] at hn0
    subst hn0
    rfl

theorem update3_noexc (f : List ℝ → ℝ) (w : W ℝ) (params : PList ℝ) (hown : Own w.fn) (hok : w.fn.OK f)
    (hfeas : Feas w.fn.params) (hsync : Synced params w.fn.params) (hpnd : (names params).Nodup)
    (hvars : w.vars.Nodup) (hin : ∀ v ∈ w.vars, v ∈ names w.fn.params) (hh : w.h ≠ 0) (hcx : w.cx = false) :
    (update3 f w params).2 = none := by
  have hc : Ctx params w.fn.params := ⟨hown.1, hown.2, hsync⟩
  unfold update3
  split
  · simp only []
    have hown0 : Own ((w.fn.enable1 false).enable2 false) := by unfold Own; simp; exact hown
    have hok0 : ((w.fn.enable1 false).enable2 false).OK f := enable2_OK f _ _ (enable1_OK f _ _ hok)
    have h0 := first_set f ((w.fn.enable1 false).enable2 false) hown0 hok0 (by simpa using hsync) hpnd
    have hn0 := setParameters_base_ok f hc hfeas ((w.fn.enable1 false).enable2 false) (S := fun _ => False)
      (by simpa using Dev.refl w.fn.params _) params (fun q hq => hq) hpnd
    rcases hs1 : ((w.fn.enable1 false).enable2 false).setParameters f params with ⟨fn1, e1⟩
    rw [hs1] at h0 hn0
    simp only [] at hn0
    subst hn0
    obtain ⟨g1, g2, g3, _, _⟩ := h0
    simp only [] at g1 g2 g3
    have hp1 : fn1.params = w.fn.params := by have := g1 trivial; simpa using this
    simp only []
    split
    · rfl
    · have hLI0 : LI f params w.fn.params { w with fn := fn1, f2 := fn1.fval } (fun w => w.f2)
          { w := { w with fn := fn1, f2 := fn1.fval }, p := [], lastVar := none } :=
        ⟨g2, (by rw [hp1]; exact Dev.refl _ _), (fun l h => by cases h), Frame.refl _, rfl⟩
      have hloopLI := loopGo_LI f (step3 f params) (fun lp h i var r => step3_LI f hc lp h i var r) w.vars 0 _ hLI0
      have hloop := loop_noexc f (step3 f params) (fun lp h i var r => step3_LI f hc lp h i var r)
        (fun lp h i var hv hl => step3_noexc f hc hfeas lp h i var hv hl (by rw [h.2.2.2.1.h]; exact hh))
        (step3_lastVar f params) w.vars 0 _ hLI0 (fun l h => by cases h) hvars (fun v hv _ => hin v hv)
      rcases hl : loopGo (step3 f params) w.vars 0 { w := { w with fn := fn1, f2 := fn1.fval }, p := [], lastVar := none } with ⟨lp, e⟩
      rw [hl] at hloop hloopLI
      simp only [] at hloop hloopLI
      subst hloop
      simp only []
      obtain ⟨_, l2, l3, l4, _⟩ := hloopLI rfl
      have hcx' : lp.w.cx = false := by rw [l4.cx]; exact hcx
      rw [hcx']
      simp only [Bool.false_eq_true, if_false]
      exact finish_noexc f hc hfeas lp.lastVar lp.w l2 l3
  · simp only []
    have hn0 := setParameters_base_ok f hc hfeas ((w.fn.enable1 w.c1).enable2 w.c2)
      (S := fun _ => False) (by simpa using Dev.refl w.fn.params _) params (fun q hq => hq) hpnd
    rcases hs1 : ((w.fn.enable1 w.c1).enable2 w.c2).setParameters f params with ⟨fn1, e1⟩
    rw [hs1] at hn0
    simp only [] at hn0
    subst hn0
    rfl

end Bpp.NumDeriv
