import BppProofs.Lemmas.KeyvalU
import BppModel.Text.DistU
/-! Helper lemmas for `Props/C16Dist.lean`: the text stage of
BppODiscreteDistributionFormat::readDiscreteDistribution (UB-aware model `BppModel/Text/DistU.lean`). -/
namespace Bpp.Text.U
open Bpp.Text Bpp.Text.Keyval

/-! ### generic -/

/-- equality of outcomes is decidable (for the concrete instances proved by `decide`) -/
instance distDecEqR {α : Type} [DecidableEq α] : DecidableEq (R α) := fun a b =>
  match a, b with
  | .ok x, .ok y =>
    if h : x = y then isTrue (by rw [h]) else isFalse (by intro h'; cases h'; exact h rfl)
  | .error x, .error y =>
    if h : x = y then isTrue (by rw [h]) else isFalse (by intro h'; cases h'; exact h rfl)
  | .ok _, .error _ => isFalse (by intro h; cases h)
  | .error _, .ok _ => isFalse (by intro h; cases h)

theorem dist_toDoubleClass_safe (dec sci : Char) (s : Str) : safe (toDoubleClass dec sci s) = true := by
  unfold toDoubleClass; split <;> rfl

theorem dist_toIntClass_safe (sci : Char) (s : Str) : safe (toIntClass sci s) = true := by
  unfold toIntClass; split <;> rfl

theorem dist_strOk_of_le {a b : Str} (h : a.length ≤ b.length) (hb : StrOk b) : StrOk a := by
  unfold StrOk at *; omega

theorem dist_length_pos {s : Str} (h : s ≠ []) : 1 ≤ s.length := List.length_pos_iff.mpr h

theorem dist_sumLen_take_getElem (l : List Str) (i : Nat) (h : i < l.length) :
    sumLen (l.take i) + l[i].length ≤ sumLen l := by
  induction l generalizing i with
  | nil => simp at h
  | cons a l ih =>
    cases i with
    | zero => simp
    | succ i =>
      simp only [List.take_succ_cons, sumLen_cons, List.getElem_cons_succ]
      have := ih i (by simpa using h)
      omega

theorem dist_sumLen_drop_succ {l : List Str} {i : Nat} (h : i < l.length) :
    sumLen (l.drop i) = l[i].length + sumLen (l.drop (i + 1)) := by
  rw [List.drop_eq_getElem_cons h, sumLen_cons]

theorem dist_mem_length_le_sumLen {l : List Str} {a : Str} (h : a ∈ l) : a.length ≤ sumLen l :=
  kv_length_le_sumLen h

/-! ### `listContent_` -/

theorem listContent_safe' (rf : Str) : safe (listContent rf) = true := by
  unfold listContent
  split
  · rfl
  · rw [substr_ok _ (by omega)]; rfl

theorem listContent_len' (rf c : Str) (h : listContent rf = .ok c) : c.length ≤ rf.length := by
  unfold listContent at h
  split at h
  · cases h
  · have := (substr_len h).1; omega

/-! ### the tokens of a non-solid tokenizer without empty tokens are not empty -/

theorem dist_nsLoop_tokens_nonempty (s d : Str) (hs : StrOk s) (fuel : Nat) :
    ∀ (index : Nat) (ts ss : List Str),
      (∃ c, s[index]? = some c ∧ d.contains c = false) →
      nsLoop s d false fuel index = .ok (ts, ss) → ∀ tok ∈ ts, tok ≠ [] := by
  have hsz := hs.lt_SZ
  induction fuel with
  | zero => intro index ts ss _ h; simp [nsLoop] at h
  | succ fuel ih =>
    intro index ts ss hc h
    obtain ⟨c, hc1, hc2⟩ := hc
    have hilt : index < s.length := (List.getElem?_eq_some_iff.mp hc1).1
    unfold nsLoop at h
    cases h1 : findFirstOf d s index with
    | none =>
      simp only [h1, substrFrom_ok (Nat.le_of_lt hilt), bind_ok, pure_eq_ok, Except.ok.injEq,
        Prod.mk.injEq] at h
      obtain ⟨rfl, _⟩ := h
      intro tok htok
      simp only [List.mem_cons, List.not_mem_nil, or_false] at htok
      subst htok
      intro e
      have := congrArg List.length e
      simp only [List.length_drop, List.length_nil] at this
      omega
    | some n =>
      have hb := findFirstOf_bounds h1
      obtain ⟨c', hc', hp'⟩ := findIdxFrom_spec h1
      have hne : n ≠ index := by
        intro e; subst e
        rw [hc1] at hc'; cases hc'
        have hp'' : d.contains c = true := hp'
        rw [hp''] at hc2; cases hc2
      have hn : n ≤ s.length := by omega
      have hw : wsub n index = n - index := wsub_eq hb.1 (by omega)
      have htk : (s.drop index).take (n - index) ≠ [] := by
        intro e
        have := congrArg List.length e
        simp only [List.length_take, List.length_drop, List.length_nil] at this
        omega
      simp only [h1, substr_ok _ (Nat.le_of_lt hilt), substr_ok _ hn, bind_ok, hw, Bool.not_false,
        if_true] at h
      cases h' : findFirstNotOf d s n with
      | none =>
        simp only [h', pure_eq_ok, Except.ok.injEq, Prod.mk.injEq] at h
        obtain ⟨rfl, _⟩ := h
        intro tok htok
        simp only [List.mem_cons, List.not_mem_nil, or_false] at htok
        subst htok
        exact htk
      | some i =>
        simp only [h'] at h
        obtain ⟨⟨ts', ss'⟩, er, hp⟩ := bind_pure_eq_ok h
        simp only [Prod.mk.injEq] at hp
        obtain ⟨rfl, rfl⟩ := hp
        obtain ⟨ci, hci, hpi⟩ := findIdxFrom_spec h'
        have hrec := ih i ts' ss' ⟨ci, hci, by simpa using hpi⟩ er
        intro tok htok
        rcases List.mem_cons.mp htok with rfl | hm
        · exact htk
        · exact hrec tok hm

theorem tokenizer_tokens_nonempty' (s d : Str) (hs : StrOk s) (t : Tokenizer)
    (h : mkTokenizer s d false false = .ok t) : ∀ tok ∈ t.tokens, tok ≠ [] := by
  unfold mkTokenizer mkTokenizerG at h
  simp only [Bool.not_false, if_true] at h
  cases h0 : findFirstNotOf d s 0 with
  | none =>
    simp only [h0, Except.ok.injEq] at h
    subst h
    intro tok htok; cases htok
  | some index =>
    simp only [h0] at h
    obtain ⟨⟨ts, ss⟩, er, rfl⟩ := bind_pure_eq_ok h
    obtain ⟨ci, hci, hpi⟩ := findIdxFrom_spec h0
    exact dist_nsLoop_tokens_nonempty s d hs _ index ts ss ⟨ci, hci, by simpa using hpi⟩ er

/-! ### one item of `ranges` -/

/-- `find(c) + 1` in `size_t` is a valid `substr` position: `npos + 1 = 0`, a found index is
smaller than the size -/
theorem dist_wadd_toSz_find_le (c : Char) (desc : Str) : wadd (toSz (find [c] desc)) 1 ≤ desc.length := by
  cases h : find [c] desc with
  | none => simp [toSz, wadd, npos, SZ]
  | some k =>
    have h1 := find_bounds h
    have h2 := wadd_le k 1
    simp only [List.length_cons, List.length_nil] at h1
    simp only [toSz]; omega

theorem dist_substr_safe_of {s : Str} {pos : Nat} (n : Nat) (h : pos ≤ s.length) :
    safe (substr s pos n) = true := by
  rw [substr_ok _ h]; rfl

theorem rangeItem_safe' (desc : Str) (hne : desc ≠ []) : safe (rangeItem desc) = true := by
  have hl := dist_length_pos hne
  unfold rangeItem
  refine safe_bind (dist_substr_safe_of _ hl) (fun _ _ => ?_)
  refine safe_bind (dist_toIntClass_safe _ _) (fun _ _ => ?_)
  refine safe_bind (dist_substr_safe_of _ (dist_wadd_toSz_find_le '[' desc)) (fun _ _ => ?_)
  refine safe_bind (dist_toDoubleClass_safe _ _ _) (fun _ _ => ?_)
  refine safe_bind (dist_substr_safe_of _ (dist_wadd_toSz_find_le ';' desc)) (fun _ _ => ?_)
  refine safe_bind (dist_toDoubleClass_safe _ _ _) (fun _ _ => ?_)
  rfl

/-! ### the two token loops -/

theorem drainDoubles_safe' (fuel : Nat) (st : Tokenizer) (acc : List Str)
    (hpos : st.pos ≤ st.tokens.length) (hfuel : st.tokens.length - st.pos < fuel) :
    safe (drainDoubles fuel st acc) = true := by
  induction fuel generalizing st acc with
  | zero => omega
  | succ fuel ih =>
    unfold drainDoubles
    cases hm : st.hasMoreToken with
    | false => simp
    | true =>
      have hlt := (kv_hasMore_iff st).mp hm
      simp only [Bool.not_true, Bool.false_eq_true, if_false, kv_nextToken_eq hlt, bind_ok]
      refine safe_bind (dist_toDoubleClass_safe _ _ _) (fun _ _ => ?_)
      apply ih
      · simp only; omega
      · simp only; omega

/-- the accepted items are tokens, in order -/
theorem drainDoubles_sumLen (fuel : Nat) (st : Tokenizer) (acc items : List Str)
    (h : drainDoubles fuel st acc = .ok items) :
    sumLen items ≤ sumLen acc + sumLen (st.tokens.drop st.pos) := by
  induction fuel generalizing st acc with
  | zero => simp [drainDoubles] at h
  | succ fuel ih =>
    unfold drainDoubles at h
    cases hm : st.hasMoreToken with
    | false =>
      simp only [hm, Bool.not_false, if_true, Except.ok.injEq] at h
      subst h; omega
    | true =>
      have hlt := (kv_hasMore_iff st).mp hm
      simp only [hm, Bool.not_true, Bool.false_eq_true, if_false, kv_nextToken_eq hlt, bind_ok] at h
      obtain ⟨_, _, h⟩ := bind_eq_ok h
      have := ih _ _ h
      have e := dist_sumLen_drop_succ hlt
      simp only [sumLen_append, sumLen_cons, sumLen_nil] at this
      omega

theorem drainRanges_safe' (fuel : Nat) (st : Tokenizer) (acc : List (Str × Str × Str))
    (hne : ∀ tok ∈ st.tokens, tok ≠ [])
    (hpos : st.pos ≤ st.tokens.length) (hfuel : st.tokens.length - st.pos < fuel) :
    safe (drainRanges fuel st acc) = true := by
  induction fuel generalizing st acc with
  | zero => omega
  | succ fuel ih =>
    unfold drainRanges
    cases hm : st.hasMoreToken with
    | false => simp
    | true =>
      have hlt := (kv_hasMore_iff st).mp hm
      simp only [Bool.not_true, Bool.false_eq_true, if_false, kv_nextToken_eq hlt, bind_ok]
      refine safe_bind (rangeItem_safe' _ (hne _ (List.getElem_mem hlt))) (fun _ _ => ?_)
      apply ih
      · exact hne
      · simp only; omega
      · simp only; omega

/-! ### the list arguments -/

theorem numberList_safe' (rf : Str) (hs : StrOk rf) : safe (numberList rf) = true := by
  unfold numberList
  refine safe_bind (listContent_safe' rf) (fun c hc => ?_)
  have hcs : StrOk c := dist_strOk_of_le (listContent_len' rf c hc) hs
  rcases mkTokenizer_spec c [','] false false hcs with e | ⟨t, e, hwf, hp, _⟩
  · rw [e]; rfl
  · rw [e, bind_ok]
    exact drainDoubles_safe' _ t [] hwf.pos_le (by omega)

theorem rangeList_safe' (rr : Str) (hs : StrOk rr) : safe (rangeList rr) = true := by
  unfold rangeList
  refine safe_bind (listContent_safe' rr) (fun c hc => ?_)
  have hcs : StrOk c := dist_strOk_of_le (listContent_len' rr c hc) hs
  rcases mkTokenizer_spec c [','] false false hcs with e | ⟨t, e, hwf, hp, _⟩
  · rw [e]; rfl
  · rw [e, bind_ok]
    exact drainRanges_safe' _ t [] (tokenizer_tokens_nonempty' c [','] hcs t e) hwf.pos_le (by omega)

/-! ### the map -/

theorem dist_mapFind_mem {k v : Str} {m : Map} (h : mapFind k m = some v) : (k, v) ∈ m := by
  induction m with
  | nil => simp [mapFind] at h
  | cons kv m ih =>
    obtain ⟨k', v'⟩ := kv
    unfold mapFind at h
    split at h
    · rename_i hk
      have hk' : k = k' := by simpa using hk
      cases h; subst hk'
      exact List.mem_cons_self
    · exact List.mem_cons_of_mem _ (ih h)

theorem dist_mapFind_strOk {k v : Str} {m : Map} (hm : ∀ kv ∈ m, StrOk kv.2) (h : mapFind k m = some v) :
    StrOk v := hm _ (dist_mapFind_mem h)

theorem dist_mem_mapInsert {k v : Str} {m : Map} {kv : Str × Str} (h : kv ∈ mapInsert k v m) :
    kv = (k, v) ∨ kv ∈ m := by
  induction m with
  | nil =>
    simp only [mapInsert, List.mem_cons, List.not_mem_nil, or_false] at h
    exact Or.inl h
  | cons kv' m ih =>
    obtain ⟨k', v'⟩ := kv'
    unfold mapInsert at h
    split at h
    · rcases List.mem_cons.mp h with e | e
      · exact Or.inl e
      · exact Or.inr (List.mem_cons_of_mem _ e)
    · split at h
      · rcases List.mem_cons.mp h with e | e
        · exact Or.inl e
        · exact Or.inr e
      · rcases List.mem_cons.mp h with e | e
        · exact Or.inr (by rw [e]; exact List.mem_cons_self)
        · rcases ih e with e' | e'
          · exact Or.inl e'
          · exact Or.inr (List.mem_cons_of_mem _ e')

/-! ### the stages -/

theorem simpleStage_safe' (args : Map) (h : ∀ kv ∈ args, StrOk kv.2) :
    safe (simpleStage args) = true := by
  unfold simpleStage
  cases h1 : mapFind "values".toList args with
  | none => rfl
  | some rfv =>
    simp only []
    cases h2 : mapFind "probas".toList args with
    | none => rfl
    | some rfp =>
      simp only []
      refine safe_bind (numberList_safe' rfv (dist_mapFind_strOk h h1)) (fun values _ => ?_)
      refine safe_bind (numberList_safe' rfp (dist_mapFind_strOk h h2)) (fun probas _ => ?_)
      split
      · rfl
      · cases h3 : mapFind "ranges".toList args with
        | none => rfl
        | some rr =>
          simp only []
          exact safe_bind (rangeList_safe' rr (dist_mapFind_strOk h h3)) (fun _ _ => rfl)

theorem mixtureStage_safe' (args : Map) (h : ∀ kv ∈ args, StrOk kv.2) :
    safe (mixtureStage args) = true := by
  unfold mixtureStage
  cases h1 : mapFind "probas".toList args with
  | none => rfl
  | some rf =>
    simp only []
    refine safe_bind (numberList_safe' rf (dist_mapFind_strOk h h1)) (fun probas _ => ?_)
    split
    · rfl
    · split <;> rfl

/-! ### the values of the map of `parseProcedure` are pieces of the description -/

theorem dist_length_removeLastWS_le (s : Str) : (removeLastWS s).length ≤ s.length := by
  unfold removeLastWS
  rw [List.length_reverse]
  have := (List.dropWhile_sublist isSpace (l := s.reverse)).length_le
  rw [List.length_reverse] at this; exact this

theorem dist_length_trim_le (s : Str) : (trim s).length ≤ s.length := by
  unfold trim
  have h1 := dist_length_removeLastWS_le (removeFirstWS s)
  have h2 := kv_length_removeFirstWS_le s
  omega

theorem dist_mergeLoop_sumLen (fuel : Nat) (st : Tokenizer) (acc toks : List Str)
    (hsz : acc.length + (st.tokens.length - st.pos) < SZ)
    (h : mergeLoop fuel st acc = .ok toks) :
    sumLen toks ≤ sumLen acc + sumLen (st.tokens.drop st.pos) := by
  induction fuel generalizing st acc with
  | zero => simp [mergeLoop] at h
  | succ fuel ih =>
    unfold mergeLoop at h
    cases hm : st.hasMoreToken with
    | false =>
      simp only [hm, Bool.not_false, if_true, Except.ok.injEq] at h
      subst h; omega
    | true =>
      have hlt := (kv_hasMore_iff st).mp hm
      have e1 := dist_sumLen_drop_succ hlt
      simp only [hm, Bool.not_true, Bool.false_eq_true, if_false, kv_nextToken_eq hlt, bind_ok] at h
      split at h
      · rename_i heq
        split at h
        · cases h
        · rename_i hacc
          cases hm2 : Tokenizer.hasMoreToken { st with pos := st.pos + 1 } with
          | false => simp [hm2] at h
          | true =>
            have hlt2 := (kv_hasMore_iff _).mp hm2
            simp only at hlt2
            have e2 := dist_sumLen_drop_succ hlt2
            simp only [hm2, Bool.not_true, Bool.false_eq_true, if_false,
              kv_nextToken_eq (t := { st with pos := st.pos + 1 }) hlt2, bind_ok] at h
            split at h
            · cases h
            · have hne : acc.length ≠ 0 := by simpa using hacc
              have hw : wsub acc.length 1 = acc.length - 1 := wsub_eq (by omega) (by omega)
              have hlast : acc.length - 1 < acc.length := by omega
              rw [hw, vecAt_ok hlast] at h
              simp only [bind_ok] at h
              have h3 := ih _ _ (by simp; omega) h
              have h4 := dist_sumLen_take_getElem acc (acc.length - 1) hlast
              have h5 : st.tokens[st.pos].length = 1 := by
                have : st.tokens[st.pos] = ['='] := by simpa using heq
                rw [this]; rfl
              simp only [sumLen_append, sumLen_cons, sumLen_nil, List.length_append, List.length_cons] at h3
              omega
      · have h3 := ih _ _ (by simp; omega) h
        simp only [sumLen_append, sumLen_cons, sumLen_nil] at h3
        omega
theorem dist_kvStepU_vals (B : Nat) (m m' : Map) (tok : Str) (ht : tok.length ≤ B)
    (hm : ∀ kv ∈ m, kv.2.length ≤ B) (h : kvStepU m tok = .ok m') : ∀ kv ∈ m', kv.2.length ≤ B := by
  unfold kvStepU at h
  obtain ⟨⟨k, v⟩, hkv, h⟩ := bind_eq_ok h
  simp only [pure_eq_ok, Except.ok.injEq] at h
  subst h
  obtain ⟨i, _, _, _, rfl⟩ := singleKeyval_eq_ok hkv
  intro kv hmem
  rcases dist_mem_mapInsert hmem with e | e
  · rw [e]
    have := dist_length_trim_le (tok.drop (wadd i 1))
    simp only [List.length_drop] at this
    simp only
    omega
  · exact hm kv e

theorem dist_foldlM_kvStepU_vals (B : Nat) (toks : List Str) :
    ∀ (m0 m : Map), (∀ t ∈ toks, t.length ≤ B) → (∀ kv ∈ m0, kv.2.length ≤ B) →
      toks.foldlM kvStepU m0 = .ok m → ∀ kv ∈ m, kv.2.length ≤ B := by
  induction toks with
  | nil =>
    intro m0 m _ hm0 h
    simp only [List.foldlM, pure_eq_ok, Except.ok.injEq] at h
    subst h; exact hm0
  | cons t toks ih =>
    intro m0 m ht hm0 h
    simp only [List.foldlM] at h
    obtain ⟨m1, h1, h⟩ := bind_eq_ok h
    exact ih m1 m (fun t' ht' => ht t' (List.mem_cons_of_mem _ ht'))
      (dist_kvStepU_vals B m0 m1 t (ht t List.mem_cons_self) hm0 h1) h

theorem multipleKeyvals_values_len (inner : Str) (m : Map) (hs : inner.length < 2147483648)
    (h : multipleKeyvals inner [] [','] true = .ok m) : ∀ kv ∈ m, kv.2.length ≤ inner.length := by
  unfold multipleKeyvals at h
  obtain ⟨st, hst, h⟩ := bind_eq_ok h
  obtain ⟨toks, htoks, h⟩ := bind_eq_ok h
  have hmk : mkNested inner ['('] [')'] [','] false = .ok st := by
    simpa [mkKvTokenizer] using hst
  obtain ⟨hp, _, hsum, hlen⟩ := (mkNested_spec inner ['('] [')'] [','] false hs).2 st hmk
  have h1 := dist_mergeLoop_sumLen _ st [] toks (by simp only [List.length_nil]; unfold SZ; omega) htoks
  rw [hp] at h1
  simp only [List.drop_zero, sumLen_nil] at h1
  refine dist_foldlM_kvStepU_vals inner.length toks [] m (fun t ht => ?_) (fun kv hkv => by cases hkv) h
  have := dist_mem_length_le_sumLen ht
  omega

theorem parseProcedure_values_len' (desc name : Str) (args : Map) (hs : desc.length < 2147483648)
    (h : parseProcedure desc = .ok (name, args)) : ∀ kv ∈ args, kv.2.length ≤ desc.length := by
  unfold parseProcedure at h
  obtain ⟨r, hr, h⟩ := bind_eq_ok h
  cases r with
  | none =>
    simp only [pure_eq_ok, Except.ok.injEq, Prod.mk.injEq] at h
    obtain ⟨_, rfl⟩ := h
    intro kv hkv; cases hkv
  | some p =>
    obtain ⟨nm, inner⟩ := p
    simp only [] at h
    obtain ⟨m, hm, h⟩ := bind_eq_ok h
    simp only [pure_eq_ok, Except.ok.injEq, Prod.mk.injEq] at h
    obtain ⟨_, rfl⟩ := h
    have hl := (splitProcedure_inner' desc nm inner hr).1
    intro kv hkv
    have := multipleKeyvals_values_len inner m (by omega) hm kv hkv
    omega

/-! ### the text stage -/

theorem distStage_safe' (desc : Str) (hs : desc.length < 2147483648) : safe (distStage desc) = true := by
  unfold distStage
  refine safe_bind (parseProcedure_safe' desc hs) (fun p hp => ?_)
  obtain ⟨name, args⟩ := p
  have hv : ∀ kv ∈ args, StrOk kv.2 := by
    intro kv hkv
    have := parseProcedure_values_len' desc name args hs hp kv hkv
    unfold StrOk maxStr; omega
  simp only []
  split
  · split <;> rfl
  · split
    · split <;> rfl
    · split
      · exact simpleStage_safe' args hv
      · split
        · exact mixtureStage_safe' args hv
        · split
          · rfl
          · split
            · rfl
            · split
              · rfl
              · split <;> rfl
/-! ### what a number list allocates (no hypothesis on the size) -/

theorem dist_wsub_le_sub {a b : Nat} (h : b ≤ a) : wsub a b ≤ a - b := by
  unfold wsub SZ; omega

/-- whatever the size of `s` (no `StrOk`): the tokens of the non-solid loop without empty tokens
are disjoint pieces of `s` -/
theorem dist_nsLoop_sumLen (s d : Str) (fuel : Nat) :
    ∀ (index : Nat) (ts ss : List Str), index ≤ s.length →
      nsLoop s d false fuel index = .ok (ts, ss) → sumLen ts ≤ s.length - index := by
  induction fuel with
  | zero => intro index ts ss _ h; simp [nsLoop] at h
  | succ fuel ih =>
    intro index ts ss hi h
    unfold nsLoop at h
    cases h1 : findFirstOf d s index with
    | none =>
      simp only [h1, substrFrom_ok hi, bind_ok, pure_eq_ok, Except.ok.injEq, Prod.mk.injEq] at h
      obtain ⟨rfl, _⟩ := h
      simp
    | some n =>
      have hb := findFirstOf_bounds h1
      have hn : n ≤ s.length := by omega
      have hw := dist_wsub_le_sub hb.1
      simp only [h1, substr_ok _ hi, substr_ok _ hn, bind_ok, Bool.not_false, if_true] at h
      cases h' : findFirstNotOf d s n with
      | none =>
        simp only [h', pure_eq_ok, Except.ok.injEq, Prod.mk.injEq] at h
        obtain ⟨rfl, _⟩ := h
        simp only [sumLen_cons, sumLen_nil, List.length_take, List.length_drop]
        omega
      | some i =>
        simp only [h'] at h
        obtain ⟨⟨ts', ss'⟩, er, hp⟩ := bind_pure_eq_ok h
        simp only [Prod.mk.injEq] at hp
        obtain ⟨rfl, rfl⟩ := hp
        have hb' := findFirstNotOf_bounds h'
        have hgt := findFirstNotOf_gt h1 h'
        have := ih i ts' ss' (by omega) er
        simp only [sumLen_cons, List.length_take, List.length_drop]
        omega

theorem dist_mkTokenizer_ns_sumLen (s d : Str) (t : Tokenizer)
    (h : mkTokenizer s d false false = .ok t) : t.pos = 0 ∧ sumLen t.tokens ≤ s.length := by
  unfold mkTokenizer mkTokenizerG at h
  simp only [Bool.not_false, if_true] at h
  cases h0 : findFirstNotOf d s 0 with
  | none =>
    simp only [h0, Except.ok.injEq] at h
    subst h
    exact ⟨rfl, by simp⟩
  | some index =>
    simp only [h0] at h
    obtain ⟨⟨ts, ss⟩, er, rfl⟩ := bind_pure_eq_ok h
    have hb := findFirstNotOf_bounds h0
    have := dist_nsLoop_sumLen s d _ index ts ss (by omega) er
    exact ⟨rfl, by show sumLen ts ≤ s.length; omega⟩

theorem numberList_alloc' (rf : Str) (items : List Str) (h : numberList rf = .ok items) :
    sumLen items ≤ rf.length := by
  unfold numberList at h
  obtain ⟨c, hc, h⟩ := bind_eq_ok h
  obtain ⟨t, ht, h⟩ := bind_eq_ok h
  have hl := listContent_len' rf c hc
  obtain ⟨hp, hsum⟩ := dist_mkTokenizer_ns_sumLen c [','] t ht
  have := drainDoubles_sumLen _ _ _ _ h
  rw [hp] at this
  simp only [List.drop_zero, sumLen_nil] at this
  omega
end Bpp.Text.U
