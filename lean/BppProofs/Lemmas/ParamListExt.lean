import BppProofs.Lemmas.ParamList
import BppModel.ParamListExt
import BppModel.ParamListExtSpec
/-! Helper lemmas for the completion of C02 (`BppModel/ParamListExt.lean`).
Property theorems are in `Props/C02Complete.lean`. -/
namespace Bpp.ParamList

/-! ## Whole-parameter assignment: the second pass never raises after a successful first pass -/

theorem takeWhile_eq_self_of_all {α : Type} {p : α → Bool} : ∀ {l : List α}, l.all p = true → l.takeWhile p = l
  | [], _ => rfl
  | a :: t, h => by
    simp only [List.all_cons, Bool.and_eq_true] at h
    rw [List.takeWhile_cons, h.1]
    simp [takeWhile_eq_self_of_all h.2]

theorem takeWhile_length_lt_of_not_all {α : Type} {p : α → Bool} :
    ∀ {l : List α}, l.all p = false → (l.takeWhile p).length ≠ l.length
  | [], h => by simp at h
  | a :: t, h => by
    rw [List.takeWhile_cons]
    by_cases ha : p a = true
    · simp only [ha, if_true, List.length_cons]
      have : t.all p = false := by simpa [List.all_cons, ha] using h
      have := takeWhile_length_lt_of_not_all this
      omega
    · simp [ha]

/-- `setParameters` on a heap that has the names of `h0`: every name of the source is in the list
→ no raise, and names are still those of `h0` -/
theorem setParameters_noerr (h0 : Store) (l : List ObjId) (src : List ObjId) (h : Store)
    (sn : ∀ i, nameOf h i = nameOf h0 i) (all : ∀ s ∈ src, hasParameter h0 l (nameOf h0 s) = true) :
    (setParameters h l src).err = none ∧ ∀ i, nameOf (setParameters h l src).heap i = nameOf h0 i := by
  induction src generalizing h with
  | nil => exact ⟨rfl, sn⟩
  | cons s rest ih =>
    have hf : find? h l (nameOf h s) = find? h0 l (nameOf h0 s) := by
      rw [sn s]; exact find?_congr (fun i _ => sn i) _
    have hs := all s (List.mem_cons_self ..)
    rw [← find?_isSome] at hs
    cases e : find? h0 l (nameOf h0 s) with
    | none => rw [e] at hs; cases hs
    | some t =>
      rw [e] at hf
      have nm := put_assign_names (h := h) (t := t) (s := s) (find?_some hf).2
      simp only [setParameters, hf]
      exact ih _ (fun i => by rw [nm i, sn i]) (fun x hx => all x (List.mem_cons_of_mem _ hx))

theorem setAllParameters_noerr (h0 : Store) (src : List ObjId) (l : List ObjId) (h : Store)
    (sn : ∀ i, nameOf h i = nameOf h0 i) (all : ∀ i ∈ l, hasParameter h0 src (nameOf h0 i) = true) :
    (setAllParameters h src l).err = none ∧ ∀ i, nameOf (setAllParameters h src l).heap i = nameOf h0 i := by
  induction l generalizing h with
  | nil => exact ⟨rfl, sn⟩
  | cons i rest ih =>
    have hf : find? h src (nameOf h i) = find? h0 src (nameOf h0 i) := by
      rw [sn i]; exact find?_congr (fun x _ => sn x) _
    have hs := all i (List.mem_cons_self ..)
    rw [← find?_isSome] at hs
    cases e : find? h0 src (nameOf h0 i) with
    | none => rw [e] at hs; cases hs
    | some j =>
      rw [e] at hf
      have nm := put_assign_names (h := h) (t := i) (s := j) (find?_some hf).2.symm
      simp only [setAllParameters, hf]
      exact ih _ (fun x => by rw [nm x, sn x]) (fun x hx => all x (List.mem_cons_of_mem _ hx))

theorem setParametersA_err_iff (h : Store) (l src : List ObjId) :
    ((setParametersA h l src).err = none ↔ ∀ s ∈ src, hasParameter h l (nameOf h s) = true) ∧
    (∀ e, (setParametersA h l src).err = some e → e = .notfound ∧ (setParametersA h l src).heap = h) := by
  unfold setParametersA
  by_cases c : src.all (fun s => hasParameter h l (nameOf h s)) = true
  · have c' := List.all_eq_true.1 c
    have ne := (setParameters_noerr h l src h (fun _ => rfl) c').1
    simp only [c, if_true]
    exact ⟨⟨fun _ => c', fun _ => ne⟩, fun e he => by rw [ne] at he; cases he⟩
  · simp only [c]
    refine ⟨⟨fun x => (by cases x), fun x => absurd (List.all_eq_true.2 x) c⟩, fun e he => ?_⟩
    cases he; exact ⟨rfl, rfl⟩

theorem setAllParametersA_err_iff (h : Store) (src l : List ObjId) :
    ((setAllParametersA h src l).err = none ↔ ∀ i ∈ l, hasParameter h src (nameOf h i) = true) ∧
    (∀ e, (setAllParametersA h src l).err = some e → e = .notfound ∧ (setAllParametersA h src l).heap = h) := by
  unfold setAllParametersA
  by_cases c : l.all (fun i => hasParameter h src (nameOf h i)) = true
  · have c' := List.all_eq_true.1 c
    have ne := (setAllParameters_noerr h src l h (fun _ => rfl) c').1
    simp only [c, if_true]
    exact ⟨⟨fun _ => c', fun _ => ne⟩, fun e he => by rw [ne] at he; cases he⟩
  · simp only [c]
    refine ⟨⟨fun x => (by cases x), fun x => absurd (List.all_eq_true.2 x) c⟩, fun e he => ?_⟩
    cases he; exact ⟨rfl, rfl⟩

/-- exact effect of a successful repaired `setParameters` (pairwise different source names) -/
theorem setParametersA_spec (h : Store) (l src : List ObjId) (nds : (names h src).Nodup)
    (all : src.all (fun s => hasParameter h l (nameOf h s)) = true) :
    let r := setParametersA h l src
    r.err = none ∧ r.heap.next = h.next ∧ (∀ x, nameOf r.heap x = nameOf h x) ∧
    (∀ i, r.heap.get i = expectedPar h l src i) := by
  obtain ⟨a, b, c, d⟩ := setParameters_spec l src h nds
  have kp : knownPrefix h l src = src := takeWhile_eq_self_of_all all
  simp only [setParametersA, all, if_true]
  rw [kp] at a d
  exact ⟨by simpa using a, b, c, d⟩

theorem setAllParametersA_spec (h : Store) (src l : List ObjId) (ndl : (names h l).Nodup)
    (all : l.all (fun i => hasParameter h src (nameOf h i)) = true) :
    let r := setAllParametersA h src l
    r.err = none ∧ r.heap.next = h.next ∧ (∀ x, nameOf r.heap x = nameOf h x) ∧
    (∀ i, r.heap.get i = expectedAllPar h l src i) := by
  obtain ⟨a, b, c, d⟩ := setAllParameters_spec src l h ndl
  have kp : l.takeWhile (fun i => hasParameter h src (nameOf h i)) = l := takeWhile_eq_self_of_all all
  simp only [setAllParametersA, all, if_true]
  rw [kp] at a d
  exact ⟨by simpa using a, b, c, d⟩

theorem setParametersA_pres (h : Store) (l src : List ObjId) (vs : Valid h src) :
    Pres h (setParametersA h l src).heap := by
  unfold setParametersA; split
  · exact setParameters_pres l src h vs
  · exact Pres.refl h

theorem setAllParametersA_pres (h : Store) (src l : List ObjId) (vs : Valid h src) :
    Pres h (setAllParametersA h src l).heap := by
  unfold setAllParametersA; split
  · exact setAllParameters_pres src l h vs
  · exact Pres.refl h

/-! ## Index-set deletion for arbitrary index vectors -/

theorem eraseDesc_length (ds : List Nat) (l : List ObjId) (ok : (eraseDesc l ds).2 = none) :
    (eraseDesc l ds).1.length + ds.length = l.length := by
  induction ds generalizing l with
  | nil => simp [eraseDesc]
  | cons d rest ih =>
    unfold eraseDesc at ok ⊢
    by_cases hd : d ≥ l.length
    · simp [hd] at ok
    · simp only [hd, if_false] at ok ⊢
      have := ih _ ok
      rw [List.length_eraseIdx] at this
      simp only [List.length_cons]
      have : d < l.length := by omega
      simp only [this, if_true] at *
      omega

theorem sortNat_length (l : List Nat) : (sortNat l).length = l.length := (sortNat_perm l).length_eq

/-- the result of the sort depends on the index *set with multiplicities* only -/
theorem sortNat_eq_of_perm {a b : List Nat} (p : a.Perm b) : sortNat a = sortNat b :=
  List.Perm.eq_of_pairwise (le := (· ≤ ·)) (fun _ _ _ _ h1 h2 => Nat.le_antisymm h1 h2)
    (sortNat_sorted a) (sortNat_sorted b) (((sortNat_perm a).trans p).trans (sortNat_perm b).symm)

/-! ## Lookups answering an object -/

/-- `find?` is the entry at the first position carrying the name -/
theorem find?_first (h : Store) (l : List ObjId) (n : String) (i : ObjId) :
    find? h l n = some i ↔
      ∃ p : Nat, l[p]? = some i ∧ nameOf h i = n ∧ ∀ q : Nat, q < p → (names h l)[q]? ≠ some n := by
  induction l with
  | nil => simp [find?]
  | cons a t ih =>
    unfold find? at ih ⊢
    rw [List.find?_cons]
    by_cases ha : nameOf h a = n
    · simp only [ha, beq_self_eq_true]
      constructor
      · intro e; cases e
        exact ⟨0, rfl, ha, fun q hq => by omega⟩
      · rintro ⟨p, hp, _, hq⟩
        cases p with
        | zero => simpa using hp
        | succ p => exact absurd (by simp [names, ha]) (hq 0 (by omega))
    · have : (nameOf h a == n) = false := by simpa using ha
      simp only [this]
      rw [ih]
      constructor
      · rintro ⟨p, hp, hn, hq⟩
        refine ⟨p + 1, by simpa using hp, hn, fun q hq' => ?_⟩
        cases q with
        | zero => simpa [names] using ha
        | succ q => simpa [names] using hq q (by omega)
      · rintro ⟨p, hp, hn, hq⟩
        cases p with
        | zero =>
          have : a = i := by simpa using hp
          exact absurd (this ▸ hn) ha
        | succ p =>
          refine ⟨p, by simpa using hp, hn, fun q hq' => ?_⟩
          have := hq (q + 1) (by omega)
          simpa [names] using this

/-! ## Strings: prefixes -/

theorem startsWith_iff (s pre : String) : startsWith s pre = true ↔ pre.toList ++ s.toList.drop pre.length = s.toList := by
  unfold startsWith
  rw [List.isPrefixOf_iff_prefix, List.prefix_iff_eq_append, String.length_toList]

/-- `prefix + getParameterNameWithoutNamespace(name) = name` for a name under the namespace -/
theorem prefix_nameWithoutNamespace {pre name : String} (hp : startsWith name pre = true) :
    pre ++ nameWithoutNamespace pre name = name := by
  unfold nameWithoutNamespace
  rw [if_pos hp, ← String.toList_inj, String.toList_append, String.toList_ofList]
  exact (startsWith_iff name pre).1 hp

theorem nameWithoutNamespace_other {pre name : String} (hp : startsWith name pre = false) :
    nameWithoutNamespace pre name = name := by
  unfold nameWithoutNamespace; simp [hp]

/-- stripping the prefix of a prefixed name -/
theorem nameWithoutNamespace_prefix (pre n : String) : nameWithoutNamespace pre (pre ++ n) = n := by
  have hp : startsWith (pre ++ n) pre = true := by
    unfold startsWith; rw [List.isPrefixOf_iff_prefix, String.toList_append]; exact List.prefix_append _ _
  have := prefix_nameWithoutNamespace hp
  rw [← String.toList_inj, String.toList_append, String.toList_append] at this
  rw [← String.toList_inj]
  exact List.append_cancel_left this

/-- renaming is injective on the names that carry the current prefix -/
theorem renamed_injective {o n a b : String} (ha : startsWith a o = true) (hb : startsWith b o = true)
    (e : renamed o n a = renamed o n b) : a = b := by
  unfold renamed at e
  rw [← String.toList_inj, String.toList_append, String.toList_append] at e
  have e' := List.append_cancel_left e
  rw [String.toList_inj] at e'
  rw [← prefix_nameWithoutNamespace ha, ← prefix_nameWithoutNamespace hb, e']

/-! ## `setNamespace`, exactly -/

theorem setNamespace_get (o n : String) (l : List ObjId) (h : Store) (nd : l.Nodup) (i : ObjId) :
    (setNamespace h o n l).get i =
      if i ∈ l then { h.get i with name := renamed o n (nameOf h i) } else h.get i := by
  induction l generalizing h with
  | nil => simp [setNamespace]
  | cons a t ih =>
    have nd' := List.nodup_cons.1 nd
    unfold setNamespace; dsimp only
    rw [ih _ nd'.2]
    have hn : (if startsWith (nameOf h a) o = true then n ++ String.ofList ((nameOf h a).toList.drop o.length)
        else n ++ nameOf h a) = renamed o n (nameOf h a) := by
      unfold renamed nameWithoutNamespace; split <;> rfl
    rw [hn]
    by_cases hia : i = a
    · subst hia
      simp [nd'.1]
    · by_cases hit : i ∈ t
      · simp [hit, hia, nameOf]
      · simp [hit, hia]

theorem names_setNamespace_own (o n : String) (l : List ObjId) (h : Store) (nd : l.Nodup) :
    names (setNamespace h o n l) l = (names h l).map (renamed o n) := by
  unfold names
  rw [List.map_map]
  apply List.map_congr_left
  intro i hi
  simp [nameOf, setNamespace_get o n l h nd i, hi]

/-- **the guarded case**: all names of the list carry the current prefix → the new names are
pairwise different again -/
theorem nodup_setNamespace_own (o n : String) (l : List ObjId) (h : Store) (nd : (names h l).Nodup)
    (disc : ∀ i ∈ l, startsWith (nameOf h i) o = true) :
    (names (setNamespace h o n l) l).Nodup := by
  have ndl : l.Nodup := List.Nodup.of_map _ nd
  rw [names_setNamespace_own o n l h ndl]
  refine List.Nodup.map_on ?_ nd
  intro a ha b hb e
  obtain ⟨i, hi, rfl⟩ := List.mem_map.1 ha
  obtain ⟨j, hj, rfl⟩ := List.mem_map.1 hb
  exact renamed_injective (disc i hi) (disc j hj) e

theorem names_setNamespace_other (o n : String) (l : List ObjId) (h : Store) (l' : List ObjId)
    (v : Valid h l') (disj : ∀ i ∈ l', i ∉ l) : names (setNamespace h o n l) l' = names h l' := by
  apply names_congr
  intro i hi
  unfold nameOf
  rw [(setNamespace_frame o n l h).same i (v i hi) (disj i hi)]

/-- `Inv` survives `setNamespace` under the naming discipline when no other register holds one of
the owner's objects -/
theorem inv_setNamespace {s : State} (inv : Inv s) (k : Nat) (p : String)
    (disc : ∀ i ∈ s.lists k, startsWith (nameOf s.heap i) (s.pre k) = true)
    (priv : ∀ r, r ≠ k → ∀ i ∈ s.lists r, i ∉ s.lists k) :
    Inv (step s (.apNamespace k p)).1 := by
  obtain ⟨w, o⟩ := wf_ok_step inv (.apNamespace k p)
  refine ⟨w, o, fun r => ?_⟩
  simp only [step]
  by_cases hr : r = k
  · subst hr; exact nodup_setNamespace_own _ _ _ _ (inv.names r) disc
  · rw [names_setNamespace_other _ _ _ _ _ (inv.wf r) (priv r hr)]; exact inv.names r

/-! ## The extended machine keeps the invariant -/

/-- the guard of `setNamespace` steps (all registers); `True` for every other operation -/
def XOp.nsSafe (s : State) : XOp → Prop
  | .base (.apNamespace k _) =>
    (∀ i ∈ s.lists k, startsWith (nameOf s.heap i) (s.pre k) = true) ∧
    (∀ r, r ≠ k → ∀ i ∈ s.lists r, i ∉ s.lists k)
  | _ => True

theorem xOfExcept_state (s : State) (r : Except Err ObjId) : (xOfExcept s r).1 = s := by
  cases r <;> rfl

theorem xstep_readOnly (s : State) (op : XOp) (ro : op.readOnly = true) : (xstep s op).1 = s := by
  cases op <;> simp [XOp.readOnly] at ro <;> simp only [xstep, xOfExcept_state]
  all_goals (try split) <;> rfl

theorem inv_xstep {s : State} (inv : Inv s) (op : XOp) (safe : op.nsSafe s) : Inv (xstep s op).1 := by
  by_cases ro : op.readOnly = true
  · rw [xstep_readOnly s op ro]; exact inv
  · cases op <;> simp [XOp.readOnly] at ro
    · next op =>
      simp only [xstep]
      by_cases hk : op.keepsNames = true
      · exact inv_step inv op hk
      · cases op <;> simp [Op.keepsNames] at hk
        next k p => exact inv_setNamespace inv k p safe.1 safe.2
    · next k j => exact inv_heap inv (setAllParametersA_pres _ _ _ (inv.wf j))
    · next k j => exact inv_heap inv (setParametersA_pres _ _ _ (inv.wf j))

/-- a history all of whose `setNamespace` steps are guarded -/
def SafeRun : State → List XOp → Prop
  | _, [] => True
  | s, op :: rest => op.nsSafe s ∧ SafeRun (xstep s op).1 rest

theorem inv_xrun {s : State} (inv : Inv s) (ops : List XOp) (safe : SafeRun s ops) : Inv (xrun s ops) := by
  induction ops generalizing s with
  | nil => exact inv
  | cons op rest ih => exact ih (inv_xstep inv op safe.1) safe.2

end Bpp.ParamList
