import BppProofs.Lemmas.ParamList
import BppModel.ParamListExt
import BppModel.ParamListExtSpec
/-! Helper lemmas for the completion of C02 (`BppModel/ParamListExt.lean`).
Property theorems are in `Props/C02Complete.lean`. -/
namespace Bpp.ParamList

/-! ## Whole-parameter assignment: the second pass never raises after a successful first pass -/

theorem takeWhile_eq_self_of_all {α : Type} {p : α → Bool} : ∀ {l : List α}, l.all p = true → l.takeWhile p = l
  | [], _ => rfl
  | a :: t, h => by
    simp only [List.all_cons, Bool.and_eq_true] at h
    rw [List.takeWhile_cons, h.1]
    simp [takeWhile_eq_self_of_all h.2]

theorem takeWhile_length_lt_of_not_all {α : Type} {p : α → Bool} :
    ∀ {l : List α}, l.all p = false → (l.takeWhile p).length ≠ l.length
  | [], h => by simp at h
  | a :: t, h => by
    rw [List.takeWhile_cons]
    by_cases ha : p a = true
    · simp only [ha, if_true, List.length_cons]
      have : t.all p = false := by simpa [List.all_cons, ha] using h
      have := takeWhile_length_lt_of_not_all this
      omega
    · simp [ha]

/-- `setParameters` on a heap that has the names of `h0`: every name of the source is in the list
→ no raise, and names are still those of `h0` -/
theorem setParameters_noerr (h0 : Store) (l : List ObjId) (src : List ObjId) (h : Store)
    (sn : ∀ i, nameOf h i = nameOf h0 i) (all : ∀ s ∈ src, hasParameter h0 l (nameOf h0 s) = true) :
    (setParameters h l src).err = none ∧ ∀ i, nameOf (setParameters h l src).heap i = nameOf h0 i := by
  induction src generalizing h with
  | nil => exact ⟨rfl, sn⟩
  | cons s rest ih =>
    have hf : find? h l (nameOf h s) = find? h0 l (nameOf h0 s) := by
      rw [sn s]; exact find?_congr (fun i _ => sn i) _
    have hs := all s (List.mem_cons_self ..)
    rw [← find?_isSome] at hs
    cases e : find? h0 l (nameOf h0 s) with
    | none => rw [e] at hs; cases hs
    | some t =>
      rw [e] at hf
      have nm := put_assign_names (h := h) (t := t) (s := s) (find?_some hf).2
      simp only [setParameters, hf]
      exact ih _ (fun i => by rw [nm i, sn i]) (fun x hx => all x (List.mem_cons_of_mem _ hx))

theorem setAllParameters_noerr (h0 : Store) (src : List ObjId) (l : List ObjId) (h : Store)
    (sn : ∀ i, nameOf h i = nameOf h0 i) (all : ∀ i ∈ l, hasParameter h0 src (nameOf h0 i) = true) :
    (setAllParameters h src l).err = none ∧ ∀ i, nameOf (setAllParameters h src l).heap i = nameOf h0 i := by
  induction l generalizing h with
  | nil => exact ⟨rfl, sn⟩
  | cons i rest ih =>
    have hf : find? h src (nameOf h i) = find? h0 src (nameOf h0 i) := by
      rw [sn i]; exact find?_congr (fun x _ => sn x) _
    have hs := all i (List.mem_cons_self ..)
    rw [← find?_isSome] at hs
    cases e : find? h0 src (nameOf h0 i) with
    | none => rw [e] at hs; cases hs
    | some j =>
      rw [e] at hf
      have nm := put_assign_names (h := h) (t := i) (s := j) (find?_some hf).2.symm
      simp only [setAllParameters, hf]
      exact ih _ (fun x => by rw [nm x, sn x]) (fun x hx => all x (List.mem_cons_of_mem _ hx))

theorem setParametersA_err_iff (h : Store) (l src : List ObjId) :
    ((setParametersA h l src).err = none ↔ ∀ s ∈ src, hasParameter h l (nameOf h s) = true) ∧
    (∀ e, (setParametersA h l src).err = some e → e = .notfound ∧ (setParametersA h l src).heap = h) := by
  unfold setParametersA
  by_cases c : src.all (fun s => hasParameter h l (nameOf h s)) = true
  · have c' := List.all_eq_true.1 c
    have ne := (setParameters_noerr h l src h (fun _ => rfl) c').1
    simp only [c, if_true]
    exact ⟨⟨fun _ => c', fun _ => ne⟩, fun e he => by rw [ne] at he; cases he⟩
  · simp only [c]
    refine ⟨⟨fun x => (by cases x), fun x => absurd (List.all_eq_true.2 x) c⟩, fun e he => ?_⟩
    cases he; exact ⟨rfl, rfl⟩

theorem setAllParametersA_err_iff (h : Store) (src l : List ObjId) :
    ((setAllParametersA h src l).err = none ↔ ∀ i ∈ l, hasParameter h src (nameOf h i) = true) ∧
    (∀ e, (setAllParametersA h src l).err = some e → e = .notfound ∧ (setAllParametersA h src l).heap = h) := by
  unfold setAllParametersA
  by_cases c : l.all (fun i => hasParameter h src (nameOf h i)) = true
  · have c' := List.all_eq_true.1 c
    have ne := (setAllParameters_noerr h src l h (fun _ => rfl) c').1
    simp only [c, if_true]
    exact ⟨⟨fun _ => c', fun _ => ne⟩, fun e he => by rw [ne] at he; cases he⟩
  · simp only [c]
    refine ⟨⟨fun x => (by cases x), fun x => absurd (List.all_eq_true.2 x) c⟩, fun e he => ?_⟩
    cases he; exact ⟨rfl, rfl⟩

/-- exact effect of a successful repaired `setParameters` (pairwise different source names) -/
theorem setParametersA_spec (h : Store) (l src : List ObjId) (nds : (names h src).Nodup)
    (all : src.all (fun s => hasParameter h l (nameOf h s)) = true) :
    let r := setParametersA h l src
    r.err = none ∧ r.heap.next = h.next ∧ (∀ x, nameOf r.heap x = nameOf h x) ∧
    (∀ i, r.heap.get i = expectedPar h l src i) := by
  obtain ⟨a, b, c, d⟩ := setParameters_spec l src h nds
  have kp : knownPrefix h l src = src := takeWhile_eq_self_of_all all
  simp only [setParametersA, all, if_true]
  rw [kp] at a d
  exact ⟨by simpa using a, b, c, d⟩

theorem setAllParametersA_spec (h : Store) (src l : List ObjId) (ndl : (names h l).Nodup)
    (all : l.all (fun i => hasParameter h src (nameOf h i)) = true) :
    let r := setAllParametersA h src l
    r.err = none ∧ r.heap.next = h.next ∧ (∀ x, nameOf r.heap x = nameOf h x) ∧
    (∀ i, r.heap.get i = expectedAllPar h l src i) := by
  obtain ⟨a, b, c, d⟩ := setAllParameters_spec src l h ndl
  have kp : l.takeWhile (fun i => hasParameter h src (nameOf h i)) = l := takeWhile_eq_self_of_all all
  simp only [setAllParametersA, all, if_true]
  rw [kp] at a d
  exact ⟨by simpa using a, b, c, d⟩

theorem setParametersA_pres (h : Store) (l src : List ObjId) (vs : Valid h src) :
    Pres h (setParametersA h l src).heap := by
  unfold setParametersA; split
  · exact setParameters_pres l src h vs
  · exact Pres.refl h

theorem setAllParametersA_pres (h : Store) (src l : List ObjId) (vs : Valid h src) :
    Pres h (setAllParametersA h src l).heap := by
  unfold setAllParametersA; split
  · exact setAllParameters_pres src l h vs
  · exact Pres.refl h

/-! ## Index-set deletion for arbitrary index vectors -/

theorem eraseDesc_length (ds : List Nat) (l : List ObjId) (ok : (eraseDesc l ds).2 = none) :
    (eraseDesc l ds).1.length + ds.length = l.length := by
  induction ds generalizing l with
  | nil => simp [eraseDesc]
  | cons d rest ih =>
    unfold eraseDesc at ok ⊢
    by_cases hd : d ≥ l.length
    · simp [hd] at ok
    · simp only [hd, if_false] at ok ⊢
      have := ih _ ok
      rw [List.length_eraseIdx] at this
      simp only [List.length_cons]
      have : d < l.length := by omega
      simp only [this, if_true] at *
      omega

theorem sortNat_length (l : List Nat) : (sortNat l).length = l.length := (sortNat_perm l).length_eq

/-- the result of the sort depends on the index *set with multiplicities* only -/
theorem sortNat_eq_of_perm {a b : List Nat} (p : a.Perm b) : sortNat a = sortNat b :=
  List.Perm.eq_of_pairwise (le := (· ≤ ·)) (fun _ _ _ _ h1 h2 => Nat.le_antisymm h1 h2)
    (sortNat_sorted a) (sortNat_sorted b) (((sortNat_perm a).trans p).trans (sortNat_perm b).symm)

/-! ## Lookups answering an object -/

/-- `find?` is the entry at the first position carrying the name -/
theorem find?_first (h : Store) (l : List ObjId) (n : String) (i : ObjId) :
    find? h l n = some i ↔
      ∃ p : Nat, l[p]? = some i ∧ nameOf h i = n ∧ ∀ q : Nat, q < p → (names h l)[q]? ≠ some n := by
  induction l with
  | nil => simp [find?]
  | cons a t ih =>
    unfold find? at ih ⊢
    rw [List.find?_cons]
    by_cases ha : nameOf h a = n
    · simp only [ha, beq_self_eq_true]
      constructor
      · intro e; cases e
        exact ⟨0, rfl, ha, fun q hq => by omega⟩
      · rintro ⟨p, hp, _, hq⟩
        cases p with
        | zero => simpa using hp
        | succ p => exact absurd (by simp [names, ha]) (hq 0 (by omega))
    · have : (nameOf h a == n) = false := by simpa using ha
      simp only [this]
      rw [ih]
      constructor
      · rintro ⟨p, hp, hn, hq⟩
        refine ⟨p + 1, by simpa using hp, hn, fun q hq' => ?_⟩
        cases q with
        | zero => simpa [names] using ha
        | succ q => simpa [names] using hq q (by omega)
      · rintro ⟨p, hp, hn, hq⟩
        cases p with
        | zero =>
          have : a = i := by simpa using hp
          exact absurd (this ▸ hn) ha
        | succ p =>
          refine ⟨p, by simpa using hp, hn, fun q hq' => ?_⟩
          have := hq (q + 1) (by omega)
          simpa [names] using this

/-! ## Strings: prefixes -/

theorem startsWith_iff (s pre : String) : startsWith s pre = true ↔ pre.toList ++ s.toList.drop pre.length = s.toList := by
  unfold startsWith
  rw [List.isPrefixOf_iff_prefix, List.prefix_iff_eq_append, String.length_toList]

/-- `prefix + getParameterNameWithoutNamespace(name) = name` for a name under the namespace -/
theorem prefix_nameWithoutNamespace {pre name : String} (hp : startsWith name pre = true) :
    pre ++ nameWithoutNamespace pre name = name := by
  unfold nameWithoutNamespace
  rw [if_pos hp, ← String.toList_inj, String.toList_append, String.toList_ofList]
  exact (startsWith_iff name pre).1 hp

theorem nameWithoutNamespace_other {pre name : String} (hp : startsWith name pre = false) :
    nameWithoutNamespace pre name = name := by
  unfold nameWithoutNamespace; simp [hp]

/-- stripping the prefix of a prefixed name -/
theorem nameWithoutNamespace_prefix (pre n : String) : nameWithoutNamespace pre (pre ++ n) = n := by
  have hp : startsWith (pre ++ n) pre = true := by
    unfold startsWith; rw [List.isPrefixOf_iff_prefix, String.toList_append]; exact List.prefix_append _ _
  have := prefix_nameWithoutNamespace hp
  rw [← String.toList_inj, String.toList_append, String.toList_append] at this
  rw [← String.toList_inj]
  exact List.append_cancel_left this

/-- renaming is injective on the names that carry the current prefix -/
theorem renamed_injective {o n a b : String} (ha : startsWith a o = true) (hb : startsWith b o = true)
    (e : renamed o n a = renamed o n b) : a = b := by
  unfold renamed at e
  rw [← String.toList_inj, String.toList_append, String.toList_append] at e
  have e' := List.append_cancel_left e
  rw [String.toList_inj] at e'
  rw [← prefix_nameWithoutNamespace ha, ← prefix_nameWithoutNamespace hb, e']

/-! ## `setNamespace`, exactly -/

theorem setNamespace_get (o n : String) (l : List ObjId) (h : Store) (nd : l.Nodup) (i : ObjId) :
    (setNamespace h o n l).get i =
      if i ∈ l then { h.get i with name := renamed o n (nameOf h i) } else h.get i := by
  induction l generalizing h with
  | nil => simp [setNamespace]
  | cons a t ih =>
    have nd' := List.nodup_cons.1 nd
    unfold setNamespace; dsimp only
    rw [ih _ nd'.2]
    have hn : (if startsWith (nameOf h a) o = true then n ++ String.ofList ((nameOf h a).toList.drop o.length)
        else n ++ nameOf h a) = renamed o n (nameOf h a) := by
      unfold renamed nameWithoutNamespace; split <;> rfl
    rw [hn]
    by_cases hia : i = a
    · subst hia
      simp [nd'.1]
    · by_cases hit : i ∈ t
      · simp [hit, hia, nameOf]
      · simp [hit, hia]

theorem names_setNamespace_own (o n : String) (l : List ObjId) (h : Store) (nd : l.Nodup) :
    names (setNamespace h o n l) l = (names h l).map (renamed o n) := by
  unfold names
  rw [List.map_map]
  apply List.map_congr_left
  intro i hi
  simp [nameOf, setNamespace_get o n l h nd i, hi]

/-- **the guarded case**: all names of the list carry the current prefix → the new names are
pairwise different again -/
theorem nodup_setNamespace_own (o n : String) (l : List ObjId) (h : Store) (nd : (names h l).Nodup)
    (disc : ∀ i ∈ l, startsWith (nameOf h i) o = true) :
    (names (setNamespace h o n l) l).Nodup := by
  have ndl : l.Nodup := List.Nodup.of_map _ nd
  rw [names_setNamespace_own o n l h ndl]
  refine List.Nodup.map_on ?_ nd
  intro a ha b hb e
  obtain ⟨i, hi, rfl⟩ := List.mem_map.1 ha
  obtain ⟨j, hj, rfl⟩ := List.mem_map.1 hb
  exact renamed_injective (disc i hi) (disc j hj) e

theorem names_setNamespace_other (o n : String) (l : List ObjId) (h : Store) (l' : List ObjId)
    (v : Valid h l') (disj : ∀ i ∈ l', i ∉ l) : names (setNamespace h o n l) l' = names h l' := by
  apply names_congr
  intro i hi
  unfold nameOf
  rw [(setNamespace_frame o n l h).same i (v i hi) (disj i hi)]

/-- `Inv` survives `setNamespace` under the naming discipline when no other register holds one of
the owner's objects -/
theorem inv_setNamespace {s : State} (inv : Inv s) (k : Nat) (p : String)
    (disc : ∀ i ∈ s.lists k, startsWith (nameOf s.heap i) (s.pre k) = true)
    (priv : ∀ r, r ≠ k → ∀ i ∈ s.lists r, i ∉ s.lists k) :
    Inv (step s (.apNamespace k p)).1 := by
  obtain ⟨w, o⟩ := wf_ok_step inv (.apNamespace k p)
  refine ⟨w, o, fun r => ?_⟩
  simp only [step]
  by_cases hr : r = k
  · subst hr; exact nodup_setNamespace_own _ _ _ _ (inv.names r) disc
  · rw [names_setNamespace_other _ _ _ _ _ (inv.wf r) (priv r hr)]; exact inv.names r

/-! ## The extended machine keeps the invariant -/

/-- the guard of `setNamespace` steps (all registers); `True` for every other operation -/
def XOp.nsSafe (s : State) : XOp → Prop
  | .base (.apNamespace k _) =>
    (∀ i ∈ s.lists k, startsWith (nameOf s.heap i) (s.pre k) = true) ∧
    (∀ r, r ≠ k → ∀ i ∈ s.lists r, i ∉ s.lists k)
  | _ => True

theorem xOfExcept_state (s : State) (r : Except Err ObjId) : (xOfExcept s r).1 = s := by
  cases r <;> rfl

theorem xstep_readOnly (s : State) (op : XOp) (ro : op.readOnly = true) : (xstep s op).1 = s := by
  cases op <;> simp [XOp.readOnly] at ro <;> simp only [xstep, xOfExcept_state]
  all_goals (try split) <;> rfl

theorem inv_xstep {s : State} (inv : Inv s) (op : XOp) (safe : op.nsSafe s) : Inv (xstep s op).1 := by
  by_cases ro : op.readOnly = true
  · rw [xstep_readOnly s op ro]; exact inv
  · cases op <;> simp [XOp.readOnly] at ro
    · next op =>
      simp only [xstep]
      by_cases hk : op.keepsNames = true
      · exact inv_step inv op hk
      · cases op <;> simp [Op.keepsNames] at hk
        next k p => exact inv_setNamespace inv k p safe.1 safe.2
    · next k j => exact inv_heap inv (setAllParametersA_pres _ _ _ (inv.wf j))
    · next k j => exact inv_heap inv (setParametersA_pres _ _ _ (inv.wf j))
    · next k j =>
      obtain ⟨p1, p2, _, _, p5, _⟩ := cloneAll_spec (s.lists k) s.heap (inv.wf k)
      have i2 := inv_update inv p1 j p2 (by rw [names_eq_of_map_get p5]; exact inv.names k)
      exact ⟨i2.wf, i2.ok, i2.names⟩

/-- a history all of whose `setNamespace` steps are guarded -/
def SafeRun : State → List XOp → Prop
  | _, [] => True
  | s, op :: rest => op.nsSafe s ∧ SafeRun (xstep s op).1 rest

theorem inv_xrun {s : State} (inv : Inv s) (ops : List XOp) (safe : SafeRun s ops) : Inv (xrun s ops) := by
  induction ops generalizing s with
  | nil => exact inv
  | cons op rest ih => exact ih (inv_xstep inv op safe.1) safe.2

/-! ## The owner (AbstractParametrizable): what is notified -/

/-- the raw specification of a successful `matchParametersValues` -/
theorem matchParametersValues_full {h : Store} {l src : List ObjId} (nd : (names h src).Nodup)
    (ok : (matchParametersValues h l src).err = none) :
    let r := matchParametersValues h l src
    r.pos = diffPos h l 0 src ∧ SameShape h r.heap ∧ r.heap.next = h.next ∧
    (∀ s ∈ src, ∀ t, find? h l (nameOf h s) = some t → (r.heap.get t).value = (h.get s).value) ∧
    (∀ i, (∀ s ∈ src, find? h l (nameOf h s) ≠ some i) → r.heap.get i = h.get i) := by
  have c : checkSome h l src = none := by
    unfold matchParametersValues at ok; split at ok
    · simp at ok
    · assumption
  simp only [matchParametersValues, c]
  exact (matchSome_spec l src h 0 nd (checkSome_none.1 c)).2

theorem setParametersValues_full {h : Store} {l src : List ObjId} (nd : (names h src).Nodup)
    (ok : (setParametersValues h l src).err = none) :
    let r := setParametersValues h l src
    SameShape h r.heap ∧ r.heap.next = h.next ∧
    (∀ s ∈ src, ∀ t, find? h l (nameOf h s) = some t → (r.heap.get t).value = (h.get s).value) ∧
    (∀ i, (∀ s ∈ src, find? h l (nameOf h s) ≠ some i) → r.heap.get i = h.get i) := by
  have c : checkSome h l src = none := by
    unfold setParametersValues at ok; split at ok
    · simp at ok
    · assumption
  simp only [setParametersValues, c]
  exact (applySome_spec l src h nd (checkSome_none.1 c)).2

/-- the list handed to `fireParameterChanged` by the owner's `matchParametersValues` -/
theorem apMatch_fired (h : Store) (l src : List ObjId) (nd : (names h src).Nodup)
    (ok : (matchParametersValues h l src).err = none) :
    let r := apMatchParametersValues h l src
    r.heap = (matchParametersValues h l src).heap ∧ r.err = none ∧
    r.flag = (r.fired.getD []).isEmpty.not ∧ (r.fired = none ↔ r.fired.getD [] = []) ∧
    (∀ s, s ∈ r.fired.getD [] ↔
      ∃ p : Nat, ∃ t, src[p]? = some s ∧ find? h l (nameOf h s) = some t ∧ (h.get t).value ≠ (h.get s).value) := by
  obtain ⟨h1, h2, h3, _⟩ := apMatchParametersValues_spec h l src nd
  obtain ⟨f1, f2⟩ := h3 ok
  have hp := (matchParametersValues_full nd ok).1
  have hsel : ∀ s, s ∈ (diffPos h l 0 src).filterMap (src[·]?) ↔
      ∃ p : Nat, ∃ t, src[p]? = some s ∧ find? h l (nameOf h s) = some t ∧ (h.get t).value ≠ (h.get s).value := by
    intro s
    rw [List.mem_filterMap]
    constructor
    · rintro ⟨p, hp', hs⟩
      obtain ⟨_, s', t, e1, e2, e3⟩ := (mem_diffPos h l src 0 p).1 hp'
      simp only [Nat.sub_zero] at e1
      rw [hs] at e1; cases e1
      exact ⟨p, t, hs, e2, e3⟩
    · rintro ⟨p, t, e1, e2, e3⟩
      exact ⟨p, (mem_diffPos h l src 0 p).2 ⟨Nat.zero_le _, s, t, by simpa using e1, e2, e3⟩, e1⟩
  dsimp only
  rw [h2, ok, f1, f2, hp]
  refine ⟨h1, rfl, ?_, ?_, ?_⟩
  · by_cases he : diffPos h l 0 src = []
    · simp [he]
    · have : (diffPos h l 0 src).filterMap (src[·]?) ≠ [] := by
        obtain ⟨p, hp'⟩ := List.exists_mem_of_ne_nil _ he
        obtain ⟨_, s', t, e1, e2, e3⟩ := (mem_diffPos h l src 0 p).1 hp'
        intro c
        have := (hsel s').2 ⟨p, t, by simpa using e1, e2, e3⟩
        rw [c] at this; cases this
      simp [he, this]
  · by_cases he : diffPos h l 0 src = []
    · simp [he]
    · have : (diffPos h l 0 src).filterMap (src[·]?) ≠ [] := by
        obtain ⟨p, hp'⟩ := List.exists_mem_of_ne_nil _ he
        obtain ⟨_, s', t, e1, e2, e3⟩ := (mem_diffPos h l src 0 p).1 hp'
        intro c
        have := (hsel s').2 ⟨p, t, by simpa using e1, e2, e3⟩
        rw [c] at this; cases this
      simp [he, this]
  · intro s
    by_cases he : diffPos h l 0 src = []
    · simp only [he, if_true, Option.getD_none]
      rw [← hsel s, he]; simp
    · simp only [he, if_false, Option.getD_some]
      exact hsel s

/-- every parameter of the target list whose value a successful source-iterating setter changed
carries the name of a source entry whose value differed from it -/
theorem changed_has_source {h h' : Store} {l src : List ObjId}
    (hv : ∀ s ∈ src, ∀ t, find? h l (nameOf h s) = some t → (h'.get t).value = (h.get s).value)
    (hu : ∀ i, (∀ s ∈ src, find? h l (nameOf h s) ≠ some i) → h'.get i = h.get i) (t : ObjId) :
    (h'.get t).value = (h.get t).value ∨
      ∃ s ∈ src, find? h l (nameOf h s) = some t ∧ (h.get t).value ≠ (h.get s).value := by
  by_cases c : ∃ s ∈ src, find? h l (nameOf h s) = some t ∧ (h.get t).value ≠ (h.get s).value
  · exact Or.inr c
  · left
    by_cases c2 : ∃ s ∈ src, find? h l (nameOf h s) = some t
    · obtain ⟨s, hs, e⟩ := c2
      rw [hv s hs t e]
      by_contra hne
      exact c ⟨s, hs, e, fun x => hne x.symm⟩
    · rw [hu t (fun s hs e => c2 ⟨s, hs, e⟩)]

theorem clauseOwnerAtomic_sound {s : State} (inv : Inv s) (op : Op) :
    clauseOwnerAtomic op (step s op).2.out (step s op).2.fired = true := by
  cases op with
  | apSetAll k j =>
    obtain ⟨_, h2, h3⟩ := apSetAllParametersValues_spec s.heap (s.lists k) (s.lists j)
    simp only [clauseOwnerAtomic, step, stepAR, h2, h3]
    cases (setAllParametersValues s.heap (s.lists k) (s.lists j)).err <;> simp [Out.isErr]
  | apSetValues k j =>
    obtain ⟨_, h2, h3⟩ := apSetParametersValues_spec s.heap (s.lists k) (s.lists j)
    simp only [clauseOwnerAtomic, step, stepAR, h2, h3]
    cases (setParametersValues s.heap (s.lists k) (s.lists j)).err <;> simp [Out.isErr]
  | apMatch k j =>
    obtain ⟨_, h2, _, h4⟩ := apMatchParametersValues_spec s.heap (s.lists k) (s.lists j) (inv.names j)
    simp only [clauseOwnerAtomic, step, stepAR, h2]
    cases e : (matchParametersValues s.heap (s.lists k) (s.lists j)).err with
    | none => simp [Out.isErr]
    | some x => simp [Out.isErr, h4 (by rw [e]; simp)]
  | apSetValue k n v =>
    obtain ⟨c, _⟩ := apSetParameterValue_fired s.heap (s.lists k) (s.pre k) n v (inv.wf k)
    simp only [clauseOwnerAtomic, step, stepAR]
    cases e : (apSetParameterValue s.heap (s.lists k) (s.pre k) n v).err with
    | none => simp [Out.isErr]
    | some x => simp [Out.isErr, c (by rw [e]; simp)]
  | add k p | addPtr k p => simp only [clauseOwnerAtomic, step]; split <;> rfl
  | share k j n => simp only [clauseOwnerAtomic, step]; split <;> rfl
  | setParam k i p => simp only [clauseOwnerAtomic, step]; split <;> rfl
  | testValues k j => simp only [clauseOwnerAtomic, step]; split <;> rfl
  | delName k n => simp only [clauseOwnerAtomic, step]; split <;> rfl
  | delIdx k i => simp only [clauseOwnerAtomic, step]; split <;> rfl
  | which k n => simp only [clauseOwnerAtomic, step]; split <;> rfl
  | getValue k n => simp only [clauseOwnerAtomic, step]; split <;> rfl
  | subNames k j ns | subName k j n | subIdxs k j idx | subIdx k j i | shareSubNames k j ns | shareSubIdxs k j idx =>
    simp only [clauseOwnerAtomic, step, stepSub]; split <;> rfl
  | _ => rfl

theorem clauseOwnerFired_sound {s : State} (inv : Inv s) (op : Op) :
    clauseOwnerFired s op (step s op).2.out (step s op).2.fired (step s op).1 = true := by
  cases op with
  | apMatch k j =>
    simp only [clauseOwnerFired, step, stepAR]
    cases e : (matchParametersValues s.heap (s.lists k) (s.lists j)).err with
    | some x =>
      have := (apMatchParametersValues_spec s.heap (s.lists k) (s.lists j) (inv.names j)).2.1
      rw [e] at this
      simp [this, Out.isErr]
    | none =>
      obtain ⟨g1, g2, _, _, g5⟩ := apMatch_fired s.heap (s.lists k) (s.lists j) (inv.names j) e
      obtain ⟨_, _, _, hv, hu⟩ := matchParametersValues_full (inv.names j) e
      simp only [g2, Out.isErr, State.withHeap, g1]
      rw [Bool.or_eq_true]
      right
      rw [Bool.and_eq_true, List.all_eq_true, List.all_eq_true]
      constructor
      · intro x hx
        obtain ⟨p, t, e1, e2, e3⟩ := (g5 x).1 hx
        have hxs : x ∈ s.lists j := List.mem_of_getElem? e1
        simp only [e2, Bool.and_eq_true, List.contains_iff_mem, decide_eq_true_eq]
        exact ⟨hxs, e3, hv x hxs t e2⟩
      · intro t _
        rw [Bool.or_eq_true, decide_eq_true_eq, List.any_eq_true]
        rcases changed_has_source hv hu t with c | ⟨x, hx, e2, e3⟩
        · exact Or.inl c
        · right
          obtain ⟨p, hp⟩ := List.getElem?_of_mem hx
          exact ⟨x, (g5 x).2 ⟨p, t, hp, e2, e3⟩, by simpa using (find?_some e2).2.symm⟩
  | apSetValues k j =>
    obtain ⟨h1, h2, h3⟩ := apSetParametersValues_spec s.heap (s.lists k) (s.lists j)
    simp only [clauseOwnerFired, step, stepAR, h2, h3, State.withHeap, h1]
    cases e : (setParametersValues s.heap (s.lists k) (s.lists j)).err with
    | some x => simp [Out.isErr]
    | none =>
      obtain ⟨_, _, hv, hu⟩ := setParametersValues_full (inv.names j) e
      simp only [Out.isErr, Bool.false_eq_true, if_false, if_true, Option.getD_some, Bool.false_or]
      rw [List.all_eq_true]
      intro t _
      rw [Bool.or_eq_true, decide_eq_true_eq, List.any_eq_true]
      rcases changed_has_source hv hu t with c | ⟨x, hx, e2, _⟩
      · exact Or.inl c
      · exact Or.inr ⟨x, hx, by simpa using (find?_some e2).2.symm⟩
  | apSetAll k j =>
    obtain ⟨h1, h2, h3⟩ := apSetAllParametersValues_spec s.heap (s.lists k) (s.lists j)
    simp only [clauseOwnerFired, step, stepAR, h2, h3, State.withHeap, h1]
    cases e : (setAllParametersValues s.heap (s.lists k) (s.lists j)).err with
    | some x => simp [Out.isErr]
    | none =>
      have acc := (acceptsAll_iff _ _ _).1 ((setAllParametersValues_err_iff _ _ _).1 e)
      simp only [Out.isErr, Bool.false_eq_true, if_false, if_true, Option.getD_some, Bool.false_or]
      rw [List.all_eq_true]
      intro t ht
      rw [Bool.or_eq_true, decide_eq_true_eq, List.any_eq_true]
      obtain ⟨j', e2, _⟩ := acc t ht
      exact Or.inr ⟨j', (find?_some e2).1, by simpa using (find?_some e2).2⟩
  | _ => rfl

theorem clauseDeleteAny_sound (s : State) (op : Op) :
    clauseDeleteAny s op (step s op).2.out (step s op).1 = true := by
  cases op with
  | delIdxs k idx =>
    simp only [clauseDeleteAny, step, State.setList, if_true, Bool.and_eq_true, List.isSublist_iff_sublist]
    refine ⟨deleteParametersIdx_sublist idx (s.lists k), ?_⟩
    cases e : (deleteParametersIdx (s.lists k) idx).2 with
    | some x => simp [Out.ofErr, Out.isErr]
    | none =>
      have := eraseDesc_length _ _ e
      rw [List.length_reverse, sortNat_length] at this
      simp only [Out.ofErr, Out.isErr, Bool.false_or, beq_iff_eq]
      exact this
  | _ => rfl

theorem clauseNamespaceExact_sound (n : Nat) {s : State} (inv : Inv s) (op : Op) :
    clauseNamespaceExact n s op (step s op).1 = true := by
  cases op with
  | apNamespace k p =>
    have ndl : (s.lists k).Nodup := List.Nodup.of_map _ (inv.names k)
    simp only [clauseNamespaceExact, step, if_true, Bool.and_eq_true, beq_iff_eq, Bool.or_eq_true,
      List.all_eq_true, List.mem_range, sameLists]
    refine ⟨⟨fun _ _ => trivial, trivial⟩, Or.inr (fun i _ => ?_)⟩
    rw [setNamespace_get _ _ _ _ ndl i]
    by_cases hi : i ∈ s.lists k <;> simp [hi]
  | _ => rfl

theorem clauseNamespace_sound (n : Nat) {s : State} (inv : Inv s) (op : Op)
    (safe : (XOp.base op).nsSafe s) : clauseNamespace n s op (step s op).1 = true := by
  cases op with
  | apNamespace k p =>
    simp only [clauseNamespace]
    rw [allNamesUnique_of_inv (inv_setNamespace inv k p safe.1 safe.2)]; simp
  | _ => rfl

theorem clauseNamespaceGuarded_sound (n : Nat) {s : State} (inv : Inv s) (op : Op)
    (safe : (XOp.base op).nsSafe s) : clauseNamespaceGuarded n s op (step s op).1 = true := by
  cases op with
  | apNamespace k p =>
    simp only [clauseNamespaceGuarded]
    rw [allNamesUnique_of_inv (inv_setNamespace inv k p safe.1 safe.2)]; simp
  | _ => rfl

/-! ### the new operations -/

theorem lookupObjOk_sound (h : Store) (l : List ObjId) (n : String) :
    lookupObjOk h l n (match parameterNamed h l n with
      | .ok i => .obj i
      | .error e => .base (.err e)) = true := by
  unfold parameterNamed
  cases e : find? h l n with
  | some i =>
    obtain ⟨p, hp, hn, hq⟩ := (find?_first h l n i).1 e
    simp only [lookupObjOk, List.any_eq_true, List.mem_range, Bool.and_eq_true, beq_iff_eq,
      List.all_eq_true, bne_iff_ne, ne_eq]
    have hlt : p < l.length := by
      by_contra c
      rw [List.getElem?_eq_none (by omega)] at hp; cases hp
    exact ⟨p, hlt, ⟨hp, hn⟩, hq⟩
  | none =>
    simp only [lookupObjOk, Bool.not_eq_true', List.contains_eq_mem, decide_eq_false_iff_not]
    exact fun c => by
      have := (hasParameter_iff h l n).2 c
      rw [← find?_isSome, e] at this; cases this

theorem xOfExcept_out (s : State) (r : Except Err ObjId) :
    (xOfExcept s r).2.out = (match r with
      | .ok i => .obj i
      | .error e => .base (.err e)) := by
  cases r <;> rfl

theorem clauseXLookup_sound (s : State) (op : XOp) : clauseXLookup s op (xstep s op).2.out = true := by
  cases op with
  | nth k i =>
    simp only [clauseXLookup, xstep, at?]
    cases (s.lists k)[i]? <;> simp
  | param k n =>
    simp only [clauseXLookup, xstep, xOfExcept_out]
    exact lookupObjOk_sound ..
  | apParam k n =>
    simp only [clauseXLookup, xstep, xOfExcept_out, apParameterNamed]
    exact lookupObjOk_sound ..
  | apHas k n =>
    simp only [clauseXLookup, xstep, apHasParameter, beq_iff_eq]
    congr 2
    rw [Bool.eq_iff_iff, hasParameter_iff]; simp
  | apGetValue k n =>
    simp only [clauseXLookup, xstep, apGetParameterValue, getParameterValue]
    cases find? s.heap (s.lists k) (s.pre k ++ n) <;> simp
  | apAt k i =>
    simp only [clauseXLookup, xstep, xOfExcept_out, apParameterAt]
    cases (s.lists k)[i]? <;> simp
  | apNameNoNs k n =>
    simp only [clauseXLookup, xstep]
    by_cases hp : startsWith n (s.pre k) = true
    · simp [hp, prefix_nameWithoutNamespace hp]
    · have hp' : startsWith n (s.pre k) = false := by simpa using hp
      simp [hp', nameWithoutNamespace_other hp']
  | apAddNull k => rfl
  | _ => rfl

theorem clauseXAssign_sound (n : Nat) {s : State} (inv : Inv s) (op : XOp) :
    clauseXAssign n s op (xstep s op).2.out (xstep s op).1 = true := by
  have nu : ∀ j, namesUniqueB s j = true := fun j => by simp [namesUniqueB, inv.names j]
  cases op with
  | setAllParamsA k j =>
    simp only [clauseXAssign, xstep]
    by_cases c : (s.lists k).all (fun i => hasParameter s.heap (s.lists j) (nameOf s.heap i)) = true
    · obtain ⟨a1, a2, _, a4⟩ := setAllParametersA_spec s.heap (s.lists j) (s.lists k) (inv.names k) c
      simp only [c, if_true, a1, Out.ofErr, beq_self_eq_true, Bool.true_and, nu, Bool.not_true, Bool.false_or,
        Bool.and_eq_true, sameLists, List.all_eq_true, State.withHeap]
      exact ⟨fun _ _ => trivial, decide_forall_lt a4⟩
    · have e := (setAllParametersA_err_iff s.heap (s.lists j) (s.lists k))
      have hne : (setAllParametersA s.heap (s.lists j) (s.lists k)).err ≠ none :=
        fun x => c (List.all_eq_true.2 (e.1.1 x))
      obtain ⟨x, hx⟩ := Option.ne_none_iff_exists'.1 hne
      obtain ⟨rfl, hh⟩ := e.2 x hx
      simp only [c, hx, Out.ofErr, hh, Bool.false_eq_true, if_false, beq_self_eq_true, Bool.true_and]
      exact unchanged_of (fun _ => rfl) (fun _ _ => rfl)
  | setParamsA k j =>
    simp only [clauseXAssign, xstep]
    by_cases c : (s.lists j).all (fun x => hasParameter s.heap (s.lists k) (nameOf s.heap x)) = true
    · obtain ⟨a1, a2, _, a4⟩ := setParametersA_spec s.heap (s.lists k) (s.lists j) (inv.names j) c
      simp only [c, if_true, a1, Out.ofErr, beq_self_eq_true, Bool.true_and, nu, Bool.not_true, Bool.false_or,
        Bool.and_eq_true, sameLists, List.all_eq_true, State.withHeap]
      exact ⟨fun _ _ => trivial, decide_forall_lt a4⟩
    · have e := (setParametersA_err_iff s.heap (s.lists k) (s.lists j))
      have hne : (setParametersA s.heap (s.lists k) (s.lists j)).err ≠ none :=
        fun x => c (List.all_eq_true.2 (e.1.1 x))
      obtain ⟨x, hx⟩ := Option.ne_none_iff_exists'.1 hne
      obtain ⟨rfl, hh⟩ := e.2 x hx
      simp only [c, hx, Out.ofErr, hh, Bool.false_eq_true, if_false, beq_self_eq_true, Bool.true_and]
      exact unchanged_of (fun _ => rfl) (fun _ _ => rfl)
  | _ => rfl

theorem clauseXOwnerCopy_sound (n : Nat) {s : State} (inv : Inv s) (op : XOp) :
    clauseXOwnerCopy n s op (xstep s op).2.out (xstep s op).1 = true := by
  cases op with
  | apCopy k j =>
    obtain ⟨_, _, p3, p4, p5, p6⟩ := cloneAll_spec (s.lists k) s.heap (inv.wf k)
    simp only [clauseXOwnerCopy, xstep, beq_self_eq_true, Bool.true_and, Bool.and_eq_true, if_true,
      List.all_eq_true, List.mem_range, Bool.or_eq_true, beq_iff_eq, sameObjs, State.setList, State.withHeap]
    refine ⟨⟨⟨?_, trivial⟩, fun r _ => ?_⟩, fun i hi => (p6 i hi).symm⟩
    · exact freshWith_of (by simpa [State.setList, State.withHeap] using p5)
        (by simpa [State.setList, State.withHeap] using p3) (by simpa [State.setList, State.withHeap] using p4)
    · by_cases hr : r = j
      · exact Or.inl hr
      · exact Or.inr (by simp [hr])
  | _ => rfl

theorem xstep_fired_none (s : State) (op : XOp) (nb : ∀ o, op ≠ .base o) : (xstep s op).2.fired = none := by
  cases op with
  | base o => exact absurd rfl (nb o)
  | nth k i => simp only [xstep]; split <;> rfl
  | apGetValue k n => simp only [xstep]; split <;> rfl
  | param k n => simp only [xstep]; cases parameterNamed s.heap (s.lists k) n <;> rfl
  | apParam k n => simp only [xstep]; cases apParameterNamed s.heap (s.lists k) (s.pre k) n <;> rfl
  | apAt k i => simp only [xstep]; cases apParameterAt (s.lists k) i <;> rfl
  | _ => rfl

end Bpp.ParamList
