import BppProofs.Lemmas.LapFullInv
/-! Helper lemmas for C04 (`lap`, the whole routine): the shortest-path search of the augmentation
phase (`djIter`, `djLoop`) — the column list stays a permutation, the three inner `for` loops. -/
namespace Bpp.Mx.Lap
open Bpp Bpp.Mx

/-! ## the column list -/

/-- `colList[a] = colList[b]; colList[b] = j` with `j` the old `colList[a]` -/
def swapAt (cl : Nat → Nat) (a b : Nat) : Nat → Nat := upd (upd cl a (cl b)) b (cl a)

theorem swapAt_apply (cl : Nat → Nat) (a b x : Nat) :
    swapAt cl a b x = if x = b then cl a else if x = a then cl b else cl x := by
  unfold swapAt upd; rfl

theorem swapAt_eq (cl : Nat → Nat) (a b x : Nat) :
    swapAt cl a b x = cl (if x = b then a else if x = a then b else x) := by
  rw [swapAt_apply]; split_ifs <;> rfl

/-- `cl` restricted to `0..n-1` is a permutation of `0..n-1` -/
structure PermOn (n : Nat) (cl : Nat → Nat) : Prop where
  lt : ∀ k, k < n → cl k < n
  inj : ∀ a b, a < n → b < n → cl a = cl b → a = b

theorem PermOn.swap {n : Nat} {cl : Nat → Nat} (h : PermOn n cl) {a b : Nat} (ha : a < n) (hb : b < n) :
    PermOn n (swapAt cl a b) := by
  constructor
  · intro k hk
    rw [swapAt_apply]
    split
    · exact h.lt a ha
    · split
      · exact h.lt b hb
      · exact h.lt k hk
  · intro x y hx hy he
    rw [swapAt_eq, swapAt_eq] at he
    have := h.inj _ _ (by split_ifs <;> assumption) (by split_ifs <;> assumption) he
    split_ifs at this <;> omega

/-- the positions `< lo` of `cl` are those of `cl0`, and every entry at a position `≥ lo` is an
entry of `cl0` at a position `≥ lo` -/
structure SameRegion (lo n : Nat) (cl0 cl : Nat → Nat) : Prop where
  fix : ∀ a, a < lo → cl a = cl0 a
  reg : ∀ a, lo ≤ a → a < n → ∃ b, lo ≤ b ∧ b < n ∧ cl a = cl0 b

theorem SameRegion.refl (lo n : Nat) (cl : Nat → Nat) : SameRegion lo n cl cl :=
  ⟨fun _ _ => rfl, fun a h1 h2 => ⟨a, h1, h2, rfl⟩⟩

theorem SameRegion.swap {lo n : Nat} {cl0 cl : Nat → Nat} (h : SameRegion lo n cl0 cl) {a b : Nat}
    (ha : lo ≤ a) (han : a < n) (hb : lo ≤ b) (hbn : b < n) : SameRegion lo n cl0 (swapAt cl a b) := by
  constructor
  · intro x hx
    rw [swapAt_apply, if_neg (by omega), if_neg (by omega)]
    exact h.fix x hx
  · intro x hx hxn
    rw [swapAt_apply]
    split
    · exact h.reg a ha han
    · split
      · exact h.reg b hb hbn
      · exact h.reg x hx hxn

theorem SameRegion.trans {lo lo' n : Nat} {cl0 cl1 cl2 : Nat → Nat} (h1 : SameRegion lo n cl0 cl1) (h2 : SameRegion lo' n cl1 cl2)
    (hlo : lo ≤ lo') : SameRegion lo n cl0 cl2 := by
  constructor
  · intro a ha
    rw [h2.fix a (by omega)]; exact h1.fix a ha
  · intro a ha han
    by_cases hal : a < lo'
    · rw [h2.fix a hal]; exact h1.reg a ha han
    · obtain ⟨b, hb1, hb2, hb3⟩ := h2.reg a (by omega) han
      rw [hb3]; exact h1.reg b (by omega) hb2

/-! ## the scan for the columns of minimal `d` (`:1472-1487`) -/

/-- the state of the scan before position `k` -/
structure MinInv (n : Nat) (d : Nat → ℝ) (cl0 : Nat → Nat) (low k : Nat) (st : MinSc ℝ) : Prop where
  perm : PermOn n st.colList
  same : SameRegion low n cl0 st.colList
  lowup : low < st.up
  upk : st.up ≤ k
  eq : ∀ a, low ≤ a → a < st.up → d (st.colList a) = st.min
  ge : ∀ a, st.up ≤ a → a < k → st.min ≤ d (st.colList a)

theorem minStep_good (n : Nat) (d : Nat → ℝ) (cl0 : Nat → Nat) (low k : Nat) (hk : k < n) (B : Prop) (st : MinSc ℝ)
    (h : MinInv n d cl0 low k st) : Good B (minStep n d low k st) (MinInv n d cl0 low (k + 1)) := by
  unfold minStep
  have hj := h.perm.lt k hk
  simp only [rd_of_lt _ hj]
  have hupk := h.upk
  have hlowup := h.lowup
  by_cases hle : d (st.colList k) ≤ st.min
  · rw [if_pos ((ScalarReal.leb_iff _ _).2 hle)]
    by_cases hlt : d (st.colList k) < st.min
    · -- a new minimum: the list restarts at `low`
      have hl : Scalar.ltb (d (st.colList k)) st.min = true := (ScalarReal.ltb_iff _ _).2 hlt
      simp only [hl, if_true]
      have hlown : low < n := by omega
      rw [rd_of_lt _ hlown]
      apply Good.ok
      have hsw : (upd (upd st.colList k (st.colList low)) low (st.colList k)) = swapAt st.colList k low := rfl
      simp only [hsw]
      refine ⟨h.perm.swap hk hlown, h.same.swap (by omega) hk (Nat.le_refl _) hlown, by simp, by simp; omega, ?_, ?_⟩
      · intro a ha1 ha2
        simp only at ha2 ⊢
        have : a = low := by omega
        subst this
        rw [swapAt_apply]; simp
      · intro a ha1 ha2
        simp only at ha1 ⊢
        rw [swapAt_apply, if_neg (by omega)]
        split
        · -- position `k` now holds the old `colList[low]`
          have := h.eq low (Nat.le_refl _) hlowup
          rw [this]; exact le_of_lt hlt
        · by_cases hau : a < st.up
          · have := h.eq a (by omega) hau
            rw [this]; exact le_of_lt hlt
          · have := h.ge a (by omega) (by omega)
            linarith
    · -- the same minimum again: appended to the list
      have hl : Scalar.ltb (d (st.colList k)) st.min = false := Bool.eq_false_iff.2 (fun e => hlt ((ScalarReal.ltb_iff _ _).1 e))
      simp only [hl, Bool.false_eq_true, if_false]
      have heq : d (st.colList k) = st.min := le_antisymm hle (not_lt.mp hlt)
      have hupn : st.up < n := by omega
      rw [rd_of_lt _ hupn]
      apply Good.ok
      have hsw : (upd (upd st.colList k (st.colList st.up)) st.up (st.colList k)) = swapAt st.colList k st.up := rfl
      simp only [hsw]
      refine ⟨h.perm.swap hk hupn, h.same.swap (by omega) hk (by omega) hupn, by simp; omega, by simp; omega, ?_, ?_⟩
      · intro a ha1 ha2
        simp only at ha2 ⊢
        rw [swapAt_apply]
        split
        · exact heq
        · next hne =>
          have hak : a ≠ k := by omega
          rw [if_neg hak]
          exact h.eq a ha1 (by omega)
      · intro a ha1 ha2
        simp only at ha1 ⊢
        rw [swapAt_apply, if_neg (by omega)]
        split
        · exact h.ge st.up (Nat.le_refl _) (by omega)
        · exact h.ge a (by omega) (by omega)
  · have hl : ¬ Scalar.leb (d (st.colList k)) st.min = true := fun e => hle ((ScalarReal.leb_iff _ _).1 e)
    rw [if_neg hl]
    apply Good.ok
    refine ⟨h.perm, h.same, hlowup, by omega, h.eq, ?_⟩
    intro a ha1 ha2
    by_cases hak : a = k
    · subst hak; exact le_of_lt (not_le.mp hle)
    · exact h.ge a ha1 (by omega)

/-- the whole scan, started after `min = d[colList[up++]]` with `up = low` -/
theorem minScan_good (n : Nat) (d : Nat → ℝ) (cl0 : Nat → Nat) (low : Nat) (hlow : low < n) (hperm : PermOn n cl0) (B : Prop) :
    Good B (loopM (n - (low + 1)) (fun t st => minStep n d low (low + 1 + t) st) { colList := cl0, up := low + 1, min := d (cl0 low) })
      (MinInv n d cl0 low n) := by
  have := loopM_good (B := B) (fun t st => MinInv n d cl0 low (low + 1 + t) st) (n - (low + 1))
    (fun t st => minStep n d low (low + 1 + t) st) { colList := cl0, up := low + 1, min := d (cl0 low) }
    ⟨hperm, SameRegion.refl _ _ _, by simp, by simp, fun a h1 h2 => by
        simp only at h2 ⊢
        have : a = low := by omega
        subst this; rfl, fun a h1 h2 => by simp only at h1; omega⟩
    (fun t st ht h => minStep_good n d cl0 low (low + 1 + t) (by omega) B st h)
  have e : low + 1 + (n - (low + 1)) = n := by omega
  rw [e] at this
  exact this

/-! ## the check for an unassigned column among the minimal ones (`:1491-1499`) -/

def UnasgInv (n : Nat) (cs : Nat → Int) (cl : Nat → Nat) (low up k : Nat) (f : Option Nat) : Prop :=
  match f with
  | none => ∀ a, low ≤ a → a < k → 0 ≤ cs (cl a)
  | some e => ∃ a, low ≤ a ∧ a < up ∧ cl a = e ∧ cs e < 0

theorem unasg_good (n : Nat) (cs : Nat → Int) (cl : Nat → Nat) (low up : Nat) (hup : up ≤ n) (hperm : PermOn n cl) (B : Prop) :
    Good B (loopM (up - low) (fun t f => unasgStep n cs cl (low + t) f) none) (UnasgInv n cs cl low up up) := by
  by_cases hlu : low ≤ up
  · have := loopM_good (B := B) (fun t f => UnasgInv n cs cl low up (low + t) f) (up - low)
      (fun t f => unasgStep n cs cl (low + t) f) none (fun a h1 h2 => by omega)
      (by
        intro t f ht h
        unfold unasgStep
        cases f with
        | some e => exact Good.ok h
        | none =>
          simp only
          have hlt : cl (low + t) < n := hperm.lt _ (by omega)
          rw [rd_of_lt _ hlt]
          simp only
          by_cases hneg : cs (cl (low + t)) < 0
          · rw [if_pos hneg]
            exact Good.ok ⟨low + t, by omega, by omega, rfl, hneg⟩
          · rw [if_neg hneg]
            apply Good.ok
            intro a h1 h2
            by_cases ha : a = low + t
            · subst ha; omega
            · exact h a h1 (by omega))
    have e : low + (up - low) = up := by omega
    rw [e] at this
    exact this
  · have e : up - low = 0 := by omega
    rw [e]
    exact Good.ok (fun a h1 h2 => by omega)

/-! ## the relaxation through a scanned row (`:1510-1535`) -/

/-- the state of the relaxation through row `i` (reduced costs shifted by `h`) before position `k`;
`d0`, `pred0`, `cl0`, `up0` are the values at the start of the loop -/
structure RxInv (n : Nat) (c : Nat → Nat → ℝ) (cs : Nat → Int) (v : Nat → ℝ) (i : Nat) (h mn : ℝ)
    (d0 : Nat → ℝ) (pred0 cl0 : Nat → Nat) (up0 k : Nat) (r : Rx ℝ) : Prop where
  perm : PermOn n r.colList
  same : SameRegion up0 n cl0 r.colList
  upge : up0 ≤ r.up
  upk : r.up ≤ k
  scan : ∀ a, up0 ≤ a → a < r.up → r.d (r.colList a) = mn ∧ 0 ≤ cs (r.colList a)
  ge : ∀ a, r.up ≤ a → a < n → mn ≤ r.d (r.colList a)
  dle : ∀ j, j < n → r.d j ≤ d0 j
  relaxed : r.found = none → ∀ a, up0 ≤ a → a < k → r.d (r.colList a) ≤ c i (r.colList a) - v (r.colList a) - h
  chg : ∀ j, j < n → (r.pred j = pred0 j ∧ r.d j = d0 j) ∨
    (r.pred j = i ∧ (r.d j = c i j - v j - h ∨ r.found = some j) ∧ ∃ a, up0 ≤ a ∧ a < n ∧ cl0 a = j)
  fnd : ∀ e, r.found = some e → e < n ∧ cs e < 0 ∧ r.pred e = i ∧ c i e - v e - h = mn ∧
    (∃ a, r.up ≤ a ∧ a < n ∧ r.colList a = e) ∧ mn ≤ r.d e

theorem relaxStep_good (n : Nat) (c : Nat → Nat → ℝ) (cs : Nat → Int) (v : Nat → ℝ) (i : Nat) (h mn : ℝ)
    (d0 : Nat → ℝ) (pred0 cl0 : Nat → Nat) (up0 k : Nat) (hk : k < n) (hk0 : up0 ≤ k) (B : Prop)
    (hperm0 : PermOn n cl0)
    (hv2 : ∀ j, j < n → mn ≤ c i j - v j - h)
    (r : Rx ℝ) (hr : RxInv n c cs v i h mn d0 pred0 cl0 up0 k r) :
    Good B (relaxStep n c cs v i h mn k r) (RxInv n c cs v i h mn d0 pred0 cl0 up0 (k + 1)) := by
  unfold relaxStep
  cases hf : r.found with
  | some e =>
    simp only
    apply Good.ok
    exact ⟨hr.perm, hr.same, hr.upge, by have := hr.upk; omega, hr.scan, hr.ge, hr.dle,
      (fun hn => by rw [hf] at hn; cases hn), hr.chg, hr.fnd⟩
  | none =>
    simp only
    have hj : r.colList k < n := hr.perm.lt k hk
    have hupk := hr.upk
    have hupge := hr.upge
    simp only [hj, not_true_eq_false, if_false]
    -- where a column sits: the entry at position `k` is at no other position
    have hpos : ∀ a, a < n → r.colList a = r.colList k → a = k := fun a ha he => hr.perm.inj a k ha hk he
    by_cases hlt : c i (r.colList k) - v (r.colList k) - h < r.d (r.colList k)
    · rw [if_pos ((ScalarReal.ltb_iff _ _).2 hlt)]
      -- the column was among those still to be considered at the start
      have horig : ∃ a, up0 ≤ a ∧ a < n ∧ cl0 a = r.colList k := by
        obtain ⟨b, hb1, hb2, hb3⟩ := hr.same.reg k hk0 hk
        exact ⟨b, hb1, hb2, hb3.symm⟩
      by_cases heq : c i (r.colList k) - v (r.colList k) - h = mn
      · rw [if_pos ((ScalarReal.eqb_iff _ _).2 heq)]
        by_cases hneg : cs (r.colList k) < 0
        · -- an unassigned column at the current minimum: the path is complete
          rw [if_pos hneg]
          apply Good.ok
          refine ⟨hr.perm, hr.same, hupge, by show r.up ≤ k + 1; omega, hr.scan, hr.ge, hr.dle, fun hn => by simp at hn, ?_, ?_⟩
          · intro j hjn
            simp only
            by_cases hjk : j = r.colList k
            · subst hjk
              right
              exact ⟨by simp, Or.inr rfl, horig⟩
            · rw [upd_ne _ _ hjk]
              rcases hr.chg j hjn with h1 | ⟨h1, h2, h3⟩
              · exact Or.inl h1
              · right
                refine ⟨h1, ?_, h3⟩
                rcases h2 with h2 | h2
                · exact Or.inl h2
                · rw [hf] at h2; cases h2
          · intro e he
            simp only [Option.some.injEq] at he
            subst he
            refine ⟨hj, hneg, by simp, heq, ⟨k, hupk, hk, rfl⟩, ?_⟩
            simp only; linarith
        · -- an assigned column at the current minimum: appended to the list to be scanned
          rw [if_neg hneg]
          have hupn : r.up < n := by omega
          rw [rd_of_lt _ hupn]
          apply Good.ok
          have hsw : (upd (upd r.colList k (r.colList r.up)) r.up (r.colList k)) = swapAt r.colList k r.up := rfl
          simp only [hsw]
          have hperm' := hr.perm.swap hk hupn
          refine ⟨hperm', hr.same.swap hk0 hk hupge hupn, by simp; omega, by simp; omega, ?_, ?_, ?_, ?_, ?_, ?_⟩
          · intro a ha1 ha2
            simp only at ha2 ⊢
            rw [swapAt_apply]
            split
            · rw [upd_same]; exact ⟨heq, by omega⟩
            · next hne =>
              have hak : a ≠ k := by omega
              rw [if_neg hak]
              have hne' : r.colList a ≠ r.colList k := fun e => hak (hpos a (by omega) e)
              rw [upd_ne _ _ hne']
              exact hr.scan a ha1 (by omega)
          · intro a ha1 ha2
            simp only at ha1 ⊢
            rw [swapAt_apply, if_neg (by omega)]
            split
            · next hak =>
              -- position `k` now holds the old `colList[up]`
              by_cases hku : r.up = k
              · rw [hku, upd_same]; linarith
              · have hne' : r.colList r.up ≠ r.colList k := fun e => hku (hpos r.up hupn e)
                rw [upd_ne _ _ hne']
                exact hr.ge r.up (Nat.le_refl _) hupn
            · next hak =>
              have hne' : r.colList a ≠ r.colList k := fun e => hak (hpos a ha2 e)
              rw [upd_ne _ _ hne']
              exact hr.ge a (by omega) ha2
          · intro j hjn
            simp only
            by_cases hjk : j = r.colList k
            · subst hjk; rw [upd_same]; have := hr.dle _ hjn; linarith
            · rw [upd_ne _ _ hjk]; exact hr.dle j hjn
          · intro _ a ha1 ha2
            simp only
            rw [swapAt_apply]
            split
            · rw [upd_same]
            · split
              · next hne hak =>
                by_cases hku : r.up = k
                · omega
                · have hne' : r.colList r.up ≠ r.colList k := fun e => hku (hpos r.up hupn e)
                  rw [upd_ne _ _ hne']
                  exact hr.relaxed hf r.up hupge (by omega)
              · next hne hak =>
                have hne' : r.colList a ≠ r.colList k := fun e => hak (hpos a (by omega) e)
                rw [upd_ne _ _ hne']
                exact hr.relaxed hf a ha1 (by omega)
          · intro j hjn
            simp only
            by_cases hjk : j = r.colList k
            · subst hjk
              right
              exact ⟨by simp, Or.inl (by simp), horig⟩
            · rw [upd_ne _ _ hjk, upd_ne _ _ hjk]
              rcases hr.chg j hjn with h1 | ⟨h1, h2, h3⟩
              · exact Or.inl h1
              · right
                refine ⟨h1, ?_, h3⟩
                rcases h2 with h2 | h2
                · exact Or.inl h2
                · rw [hf] at h2; cases h2
          · intro e he
            simp only at he
            cases he
      · -- a shorter, but not minimal, distance
        rw [if_neg (fun e => heq ((ScalarReal.eqb_iff _ _).1 e))]
        apply Good.ok
        have hgt : mn < c i (r.colList k) - v (r.colList k) - h := lt_of_le_of_ne (hv2 _ hj) (fun e => heq e.symm)
        refine ⟨hr.perm, hr.same, hupge, by show r.up ≤ k + 1; omega, ?_, ?_, ?_, ?_, ?_, ?_⟩
        · intro a ha1 ha2
          simp only at ha2 ⊢
          have hne' : r.colList a ≠ r.colList k := fun e => by have := hpos a (by omega) e; omega
          rw [upd_ne _ _ hne']
          exact hr.scan a ha1 ha2
        · intro a ha1 ha2
          simp only at ha1 ⊢
          by_cases hak : a = k
          · subst hak; rw [upd_same]; linarith
          · have hne' : r.colList a ≠ r.colList k := fun e => hak (hpos a ha2 e)
            rw [upd_ne _ _ hne']
            exact hr.ge a ha1 ha2
        · intro j hjn
          simp only
          by_cases hjk : j = r.colList k
          · subst hjk; rw [upd_same]; have := hr.dle _ hjn; linarith
          · rw [upd_ne _ _ hjk]; exact hr.dle j hjn
        · intro _ a ha1 ha2
          simp only
          by_cases hak : a = k
          · subst hak; rw [upd_same]
          · have hne' : r.colList a ≠ r.colList k := fun e => hak (hpos a (by omega) e)
            rw [upd_ne _ _ hne']
            exact hr.relaxed hf a ha1 (by omega)
        · intro j hjn
          simp only
          by_cases hjk : j = r.colList k
          · subst hjk
            right
            exact ⟨by simp, Or.inl (by simp), horig⟩
          · rw [upd_ne _ _ hjk, upd_ne _ _ hjk]
            rcases hr.chg j hjn with h1 | ⟨h1, h2, h3⟩
            · exact Or.inl h1
            · right
              refine ⟨h1, ?_, h3⟩
              rcases h2 with h2 | h2
              · exact Or.inl h2
              · rw [hf] at h2; cases h2
        · intro e he
          simp only at he
          cases he
    · -- no improvement
      rw [if_neg (fun e => hlt ((ScalarReal.ltb_iff _ _).1 e))]
      apply Good.ok
      refine ⟨hr.perm, hr.same, hupge, by omega, hr.scan, hr.ge, hr.dle, ?_, hr.chg, hr.fnd⟩
      intro _ a ha1 ha2
      by_cases hak : a = k
      · subst hak; exact not_lt.mp hlt
      · exact hr.relaxed hf a ha1 (by omega)

theorem relax_good (n : Nat) (c : Nat → Nat → ℝ) (cs : Nat → Int) (v : Nat → ℝ) (i : Nat) (h mn : ℝ)
    (d0 : Nat → ℝ) (pred0 cl0 : Nat → Nat) (up0 : Nat) (hup0 : up0 ≤ n) (B : Prop)
    (hperm0 : PermOn n cl0) (hv2 : ∀ j, j < n → mn ≤ c i j - v j - h)
    (hge0 : ∀ a, up0 ≤ a → a < n → mn ≤ d0 (cl0 a)) :
    Good B (loopM (n - up0) (fun t st => relaxStep n c cs v i h mn (up0 + t) st)
        { d := d0, pred := pred0, colList := cl0, up := up0, found := none })
      (RxInv n c cs v i h mn d0 pred0 cl0 up0 n) := by
  have := loopM_good (B := B) (fun t r => RxInv n c cs v i h mn d0 pred0 cl0 up0 (up0 + t) r) (n - up0)
    (fun t st => relaxStep n c cs v i h mn (up0 + t) st) { d := d0, pred := pred0, colList := cl0, up := up0, found := none }
    ⟨hperm0, SameRegion.refl _ _ _, Nat.le_refl _, Nat.le_refl _, fun a h1 h2 => by simp only at h2; omega, hge0,
      fun j _ => le_refl _, fun _ a h1 h2 => by omega, fun j _ => Or.inl ⟨rfl, rfl⟩, fun e he => by simp at he⟩
    (fun t r ht hr => relaxStep_good n c cs v i h mn d0 pred0 cl0 up0 (up0 + t) (by omega) (by omega) B hperm0 hv2 r hr)
  have e : up0 + (n - up0) = n := by omega
  rw [e] at this
  exact this

/-! ## the search -/

/-- what holds of the search state whether or not the end of the path has been found -/
structure DjCore (n : Nat) (c : Nat → Nat → ℝ) (cs : Nat → Int) (v : Nat → ℝ) (fr : Nat) (s : Dj ℝ) : Prop where
  perm : PermOn n s.colList
  lowup : s.low ≤ s.up
  upn : s.up ≤ n
  lastlow : s.last ≤ s.low
  predlt : ∀ j, j < n → s.pred j < n
  asgLow : ∀ k, k < s.low → 0 ≤ cs (s.colList k)
  b1 : ∀ k k', k < s.low → s.low ≤ k' → k' < n → s.d (s.colList k) ≤ s.d (s.colList k')
  b2 : ∀ k, s.low ≤ k → k < s.up → s.d (s.colList k) = s.min
  b3 : s.low < s.up → ∀ k', s.up ≤ k' → k' < n → s.min ≤ s.d (s.colList k')
  b4 : ∀ k, s.last ≤ k → k < s.low → s.d (s.colList k) = s.min
  p2 : ∀ k, k < s.low → ∀ i : Nat, cs (s.colList k) = (i : Int) → ∀ j, j < n →
    s.d j ≤ s.d (s.colList k) + (c i j - v j) - (c i (s.colList k) - v (s.colList k))
  pfree : ∀ j, j < n → s.d j ≤ c fr j - v j
  p3 : ∀ m, m < n → (s.pred (s.colList m) = fr ∧ s.d (s.colList m) = c fr (s.colList m) - v (s.colList m)) ∨
    ∃ k, k < s.low ∧ k < m ∧ cs (s.colList k) = (s.pred (s.colList m) : Int) ∧
      s.d (s.colList m) = s.d (s.colList k) + (c (s.pred (s.colList m)) (s.colList m) - v (s.colList m)) -
        (c (s.pred (s.colList m)) (s.colList k) - v (s.colList k))

/-- the loop invariant of `do … while (!unassignedFound)` -/
structure DjInv (n : Nat) (c : Nat → Nat → ℝ) (cs : Nat → Int) (v : Nat → ℝ) (fr : Nat) (s : Dj ℝ) : Prop where
  core : DjCore n c cs v fr s
  nf : s.found = none
  asg : ∀ k, k < s.up → 0 ≤ cs (s.colList k)

/-- what the search hands to the price update and the path reversal; `D` = the distances `d` with
the entry of the end of the path set to its true value `min` (the C++ leaves the loop before
storing it) -/
structure DjPost (n : Nat) (c : Nat → Nat → ℝ) (cs : Nat → Int) (v : Nat → ℝ) (fr : Nat) (s : Dj ℝ) (e : Nat) (D : Nat → ℝ) : Prop where
  perm : PermOn n s.colList
  lastlow : s.last ≤ s.low
  lown : s.low ≤ n
  predlt : ∀ j, j < n → s.pred j < n
  elt : e < n
  eun : cs e < 0
  epos : ∃ me, s.low ≤ me ∧ me < n ∧ s.colList me = e
  asg : ∀ k, k < s.low → 0 ≤ cs (s.colList k)
  Dd : ∀ k, k < s.last → D (s.colList k) = s.d (s.colList k)
  q1 : ∀ k, k < s.last → D (s.colList k) ≤ s.min
  q2 : ∀ k, s.last ≤ k → k < n → s.min ≤ D (s.colList k)
  q4 : ∀ k, s.last ≤ k → k < s.low → D (s.colList k) = s.min
  q4e : D e = s.min
  q3 : ∀ k, k < s.last → ∀ i : Nat, cs (s.colList k) = (i : Int) → ∀ j, j < n →
    D j ≤ D (s.colList k) + (c i j - v j) - (c i (s.colList k) - v (s.colList k))
  qfree : ∀ j, j < n → D j ≤ c fr j - v j
  q5 : ∀ m, m < n → (m < s.low ∨ s.colList m = e) →
    (s.pred (s.colList m) = fr ∧ D (s.colList m) = c fr (s.colList m) - v (s.colList m)) ∨
    ∃ k, k < s.low ∧ k < m ∧ cs (s.colList k) = (s.pred (s.colList m) : Int) ∧
      D (s.colList m) = D (s.colList k) + (c (s.pred (s.colList m)) (s.colList m) - v (s.colList m)) -
        (c (s.pred (s.colList m)) (s.colList k) - v (s.colList k))

/-- the end of the path was found among the columns of minimal distance -/
theorem DjCore.post_of_scan {n : Nat} {c : Nat → Nat → ℝ} {cs : Nat → Int} {v : Nat → ℝ} {fr : Nat} {s : Dj ℝ}
    (h : DjCore n c cs v fr s) {e : Nat} (he : ∃ a, s.low ≤ a ∧ a < s.up ∧ s.colList a = e ∧ cs e < 0) :
    DjPost n c cs v fr s e (upd s.d e s.min) := by
  obtain ⟨a, ha1, ha2, ha3, ha4⟩ := he
  have hde : s.d e = s.min := by rw [← ha3]; exact h.b2 a ha1 ha2
  have hD : ∀ j, upd s.d e s.min j = s.d j := by
    intro j
    by_cases hj : j = e
    · subst hj; rw [upd_same, hde]
    · rw [upd_ne _ _ hj]
  have hupn := h.upn
  have hlowlt : s.low < s.up := by omega
  have hmin : s.d (s.colList s.low) = s.min := h.b2 s.low (Nat.le_refl _) hlowlt
  refine ⟨h.perm, h.lastlow, by omega, h.predlt, by rw [← ha3]; exact h.perm.lt a (by omega), ha4,
    ⟨a, ha1, by omega, ha3⟩, h.asgLow, fun k _ => hD _, ?_, ?_, ?_, by rw [hD]; exact hde, ?_, ?_, ?_⟩
  · intro k hk
    rw [hD, ← hmin]
    exact h.b1 k s.low (by have := h.lastlow; omega) (Nat.le_refl _) (by omega)
  · intro k hk1 hk2
    rw [hD]
    by_cases hkl : k < s.low
    · exact le_of_eq (h.b4 k hk1 hkl).symm
    · by_cases hku : k < s.up
      · exact le_of_eq (h.b2 k (by omega) hku).symm
      · exact h.b3 hlowlt k (by omega) hk2
  · intro k hk1 hk2
    rw [hD]; exact h.b4 k hk1 hk2
  · intro k hk i hi j hj
    rw [hD, hD]
    exact h.p2 k (by have := h.lastlow; omega) i hi j hj
  · intro j hj; rw [hD]; exact h.pfree j hj
  · intro m hm _
    rcases h.p3 m hm with h1 | ⟨k, h1, h2, h3, h4⟩
    · left; rw [hD]; exact h1
    · right; exact ⟨k, h1, h2, h3, by rw [hD, hD]; exact h4⟩

end Bpp.Mx.Lap
