import BppModel.Reparam
import BppProofs.Lemmas.Transform
/-!
Helper lemmas for C11: the wrapper model (`BppModel/Reparam.lean`) read at `ℝ`.
-/
namespace Bpp.Reparam
open Bpp Bpp.Scalar Bpp.ScalarReal Bpp.Transform

/-! ### constraints over ℝ -/

/-- the set of values an `IntervalConstraint` of the given shape accepts -/
def Shape.Accepts : Shape ℝ → ℝ → Prop
  | .none, _ => True
  | .cc a b, v => a ≤ v ∧ v ≤ b
  | .oo a b, v => a < v ∧ v < b
  | .co a b, v => a ≤ v ∧ v < b
  | .oc a b, v => a < v ∧ v ≤ b
  | .gt a, v => a < v
  | .ge a, v => a ≤ v
  | .lt b, v => v < b
  | .le b, v => v ≤ b

theorem isCorrect_iff (sh : Shape ℝ) (v : ℝ) : sh.isCorrect v = true ↔ sh.Accepts v := by
  cases sh <;> simp [Shape.isCorrect, Shape.Accepts]

@[simp] theorem neb_real (a b : ℝ) : neb a b = true ↔ a ≠ b := by
  unfold neb
  rw [Bool.not_eq_true', ← Bool.not_eq_true, eqb_iff]

/-- over ℝ `Parameter::setValue` with a constraint stores an accepted value -/
theorem paramSetC_real (sh : Shape ℝ) (cur v : ℝ) (h : sh.Accepts v) : paramSetC sh cur v = .ok v := by
  unfold paramSetC
  have hc : sh.isCorrect v = true := (isCorrect_iff sh v).mpr h
  split
  · simp [hc]
  · rename_i h'
    simp at h'
    have : v = cur := by linarith
    rw [this]

/-- ... and raises on a rejected value that differs from the current one -/
theorem paramSetC_real_rejects (sh : Shape ℝ) (cur v : ℝ) (h : ¬ sh.Accepts v) (hne : v ≠ cur) :
    paramSetC sh cur v = .error .constraint := by
  unfold paramSetC
  have hc : sh.isCorrect v = false := by
    rw [← Bool.not_eq_true, isCorrect_iff]; exact h
  have : (0 : ℝ) < |v - cur| := abs_pos.mpr (sub_ne_zero.mpr hne)
  simp [hc, this]

/-! ### transformed parameters as functions of the coordinate -/

@[simp] theorem setX_x (tp : TP ℝ) (x : ℝ) : (tp.setX x).x = x := by
  cases tp <;> simp [TP.setX, TP.x]

@[simp] theorem setX_self (tp : TP ℝ) : tp.setX tp.x = tp := by
  cases tp <;> simp [TP.setX, TP.x]

@[simp] theorem setX_setX (tp : TP ℝ) (x y : ℝ) : (tp.setX x).setX y = tp.setX y := by
  cases tp <;> simp [TP.setX]

/-- which transform `init_` builds for a shape (at any coordinate): kind, nudged bounds,
orientation, unit scale, hyperbolic variant -/
def Matches (tiny : ℝ) : Shape ℝ → TP ℝ → Prop
  | .none, .p _ => True
  | .cc a b, .i t => t.lo = a ∧ t.hi = b ∧ t.scale = 1 ∧ t.hyper = true
  | .oo a b, .i t => t.lo = a + tiny ∧ t.hi = b - tiny ∧ t.scale = 1 ∧ t.hyper = true
  | .co a b, .i t => t.lo = a ∧ t.hi = b - tiny ∧ t.scale = 1 ∧ t.hyper = true
  | .oc a b, .i t => t.lo = a + tiny ∧ t.hi = b ∧ t.scale = 1 ∧ t.hyper = true
  | .gt a, .r t => t.bound = a + tiny ∧ t.positive = true ∧ t.scale = 1
  | .ge a, .r t => t.bound = a ∧ t.positive = true ∧ t.scale = 1
  | .lt b, .r t => t.bound = b - tiny ∧ t.positive = false ∧ t.scale = 1
  | .le b, .r t => t.bound = b ∧ t.positive = false ∧ t.scale = 1
  | _, _ => False

/-- the interval is wide enough for the nudged bounds to be ordered -/
def Shape.Wide (tiny : ℝ) : Shape ℝ → Prop
  | .cc a b => a < b
  | .oo a b => a + tiny < b - tiny
  | .co a b => a < b - tiny
  | .oc a b => a + tiny < b
  | _ => True

theorem matches_setX {tiny : ℝ} {sh : Shape ℝ} {tp : TP ℝ} (h : Matches tiny sh tp) (x : ℝ) :
    Matches tiny sh (tp.setX x) := by
  cases sh <;> cases tp <;> simp_all [Matches, TP.setX]

/-- `back_in_domain` for the wrapper: whatever the coordinate, the back-transformed value is
accepted by the original constraint -/
theorem matches_accepts {pi tiny : ℝ} (htiny : 0 < tiny) {sh : Shape ℝ} {tp : TP ℝ}
    (h : Matches tiny sh tp) (hw : sh.Wide tiny) : sh.Accepts (tp.getOriginal pi) := by
  cases sh <;> cases tp <;> simp only [Matches] at h <;> try exact h.elim
  all_goals simp only [Shape.Accepts, TP.getOriginal, Shape.Wide] at *
  -- interval shapes
  case cc.i a b t =>
    obtain ⟨h1, h2, _, h4⟩ := h
    have := IT.getOriginal_at_hyper pi t h4 (by rw [h1, h2]; exact hw) t.x
    have m := IT.gh_mem t.scale t.lo t.hi t.x (by rw [h1, h2]; exact hw)
    rw [IT.at_self] at this; rw [this]; constructor <;> linarith [m.1, m.2, h1, h2]
  case oo.i a b t =>
    obtain ⟨h1, h2, _, h4⟩ := h
    have := IT.getOriginal_at_hyper pi t h4 (by rw [h1, h2]; exact hw) t.x
    have m := IT.gh_mem t.scale t.lo t.hi t.x (by rw [h1, h2]; exact hw)
    rw [IT.at_self] at this; rw [this]; constructor <;> linarith [m.1, m.2, h1, h2]
  case co.i a b t =>
    obtain ⟨h1, h2, _, h4⟩ := h
    have := IT.getOriginal_at_hyper pi t h4 (by rw [h1, h2]; exact hw) t.x
    have m := IT.gh_mem t.scale t.lo t.hi t.x (by rw [h1, h2]; exact hw)
    rw [IT.at_self] at this; rw [this]; constructor <;> linarith [m.1, m.2, h1, h2]
  case oc.i a b t =>
    obtain ⟨h1, h2, _, h4⟩ := h
    have := IT.getOriginal_at_hyper pi t h4 (by rw [h1, h2]; exact hw) t.x
    have m := IT.gh_mem t.scale t.lo t.hi t.x (by rw [h1, h2]; exact hw)
    rw [IT.at_self] at this; rw [this]; constructor <;> linarith [m.1, m.2, h1, h2]
  -- half-lines
  case gt.r a t =>
    obtain ⟨h1, h2, h3⟩ := h
    have m := Bpp.C11aux.r_inside t (by rw [h3]; norm_num)
    simp only [RT.Inside, h2, if_true, h1] at m; linarith
  case ge.r a t =>
    obtain ⟨h1, h2, h3⟩ := h
    have m := Bpp.C11aux.r_inside t (by rw [h3]; norm_num)
    simp only [RT.Inside, h2, if_true, h1] at m; linarith
  case lt.r b t =>
    obtain ⟨h1, h2, h3⟩ := h
    have m := Bpp.C11aux.r_inside t (by rw [h3]; norm_num)
    simp only [RT.Inside, h2, if_false, Bool.false_eq_true, h1] at m; linarith
  case le.r b t =>
    obtain ⟨h1, h2, h3⟩ := h
    have m := Bpp.C11aux.r_inside t (by rw [h3]; norm_num)
    simp only [RT.Inside, h2, if_false, Bool.false_eq_true, h1] at m; linarith

/-! ### `init_` -/

/-- a finite interval is wide enough for the corrected bounds and the corrected values to be
ordered: wider than `2 tiny` (`3 tiny` when both bounds are open) -/
def Shape.Roomy (tiny : ℝ) : Shape ℝ → Prop
  | .cc a b => 2 * tiny < b - a
  | .oo a b => 3 * tiny < b - a
  | .co a b => 2 * tiny < b - a
  | .oc a b => 2 * tiny < b - a
  | _ => True

/-- hypotheses of `wrap_preserves_values` on the initial value of a parameter: *any* value accepted
by its constraint (this is what the constructor of the wrapped function's own `Parameter`
enforces), and a finite interval wider than `2 tiny` (`3 tiny` when both bounds are open) -/
def Admits (tiny : ℝ) (sh : Shape ℝ) (v : ℝ) : Prop := sh.Accepts v ∧ sh.Roomy tiny

theorem admits_accepts {tiny : ℝ} {sh : Shape ℝ} {v : ℝ} (h : Admits tiny sh v) : sh.Accepts v := h.1

theorem roomy_wide {tiny : ℝ} (ht : 0 < tiny) {sh : Shape ℝ} (h : sh.Roomy tiny) : sh.Wide tiny := by
  cases sh <;> simp only [Shape.Roomy, Shape.Wide] at * <;> linarith

theorem admits_wide {tiny : ℝ} (ht : 0 < tiny) {sh : Shape ℝ} {v : ℝ} (h : Admits tiny sh v) :
    sh.Wide tiny := roomy_wide ht h.2

@[simp] theorem correctLower_real (tiny value a cv : ℝ) :
    correctLower tiny value a cv = if |value - a| < tiny then a + tiny else cv := by
  simp [correctLower]
@[simp] theorem correctUpper_real (tiny value b cv : ℝ) :
    correctUpper tiny value b cv = if |value - b| < tiny then b - tiny else cv := by
  simp [correctUpper]
@[simp] theorem correctLowerOpen_real (tiny value lo cv : ℝ) :
    correctLowerOpen tiny value lo cv = if value - lo < tiny then lo + tiny else cv := by
  simp [correctLowerOpen]
@[simp] theorem correctUpperOpen_real (tiny value hi cv : ℝ) :
    correctUpperOpen tiny value hi cv = if hi - value < tiny then hi - tiny else cv := by
  simp [correctUpperOpen]

/-- the open interval (corrected bounds) of the transformed parameter `init_` builds for a shape -/
def Shape.Inner (tiny : ℝ) : Shape ℝ → ℝ → Prop
  | .none, _ => True
  | .cc a b, c => a < c ∧ c < b
  | .oo a b, c => a + tiny < c ∧ c < b - tiny
  | .co a b, c => a < c ∧ c < b - tiny
  | .oc a b, c => a + tiny < c ∧ c < b
  | .gt a, c => a + tiny < c
  | .ge a, c => a < c
  | .lt b, c => c < b - tiny
  | .le b, c => c < b

/-- not moved by `init_`: at least `tiny` away from each closed bound and `2 tiny` away from each
open bound (i.e. `tiny` away from the corrected bound) -/
def NotNudged (tiny : ℝ) : Shape ℝ → ℝ → Prop
  | .none, _ => True
  | .cc a b, v => tiny ≤ |v - a| ∧ tiny ≤ |v - b|
  | .oo a b, v => a + 2 * tiny ≤ v ∧ v ≤ b - 2 * tiny
  | .co a b, v => tiny ≤ |v - a| ∧ v ≤ b - 2 * tiny
  | .oc a b, v => a + 2 * tiny ≤ v ∧ tiny ≤ |v - b|
  | .gt a, v => a + 2 * tiny ≤ v
  | .ge a, v => tiny ≤ |v - a|
  | .lt b, v => v ≤ b - 2 * tiny
  | .le b, v => tiny ≤ |v - b|

/-- the driver's test `isNudged` is the negation of `NotNudged` -/
theorem isNudged_false_iff (tiny : ℝ) (sh : Shape ℝ) (v : ℝ) :
    isNudged tiny sh v = false ↔ NotNudged tiny sh v := by
  cases sh <;> simp [isNudged, NotNudged]
  all_goals first
    | (constructor <;> intro h <;> linarith)
    | (intro _; constructor <;> intro h <;> linarith)
    | (constructor <;> rintro ⟨h1, h2⟩ <;> constructor <;> linarith)

/-- the value `init_` transforms (`corrected`), for a value accepted by the constraint of a roomy
interval: strictly inside the corrected bounds, and at most `2 tiny` away from the value -/
theorem corrected_spec {tiny : ℝ} (ht : 0 < tiny) {sh : Shape ℝ} {v : ℝ} (h : Admits tiny sh v) :
    sh.Inner tiny (corrected tiny sh v) ∧ |corrected tiny sh v - v| ≤ 2 * tiny := by
  obtain ⟨ha, hr⟩ := h
  cases sh with
  | none => simp [corrected, Shape.Inner, ht.le]
  | cc a b =>
    obtain ⟨h1, h2⟩ := ha
    have hr : 2 * tiny < b - a := hr
    have ea : |v - a| = v - a := abs_of_nonneg (by linarith)
    have eb : |v - b| = b - v := by rw [abs_sub_comm]; exact abs_of_nonneg (by linarith)
    simp only [corrected, correctLower_real, correctUpper_real, ea, eb, Shape.Inner]
    split_ifs <;> refine ⟨⟨?_, ?_⟩, ?_⟩ <;> (try rw [abs_le]) <;> (try constructor) <;> linarith
  | oo a b =>
    obtain ⟨h1, h2⟩ := ha
    have hr : 3 * tiny < b - a := hr
    simp only [corrected, correctLowerOpen_real, correctUpperOpen_real, Shape.Inner]
    split_ifs <;> refine ⟨⟨?_, ?_⟩, ?_⟩ <;> (try rw [abs_le]) <;> (try constructor) <;> linarith
  | co a b =>
    obtain ⟨h1, h2⟩ := ha
    have hr : 2 * tiny < b - a := hr
    have ea : |v - a| = v - a := abs_of_nonneg (by linarith)
    simp only [corrected, correctLower_real, correctUpperOpen_real, ea, Shape.Inner]
    split_ifs <;> refine ⟨⟨?_, ?_⟩, ?_⟩ <;> (try rw [abs_le]) <;> (try constructor) <;> linarith
  | oc a b =>
    obtain ⟨h1, h2⟩ := ha
    have hr : 2 * tiny < b - a := hr
    have eb : |v - b| = b - v := by rw [abs_sub_comm]; exact abs_of_nonneg (by linarith)
    simp only [corrected, correctLowerOpen_real, correctUpper_real, eb, Shape.Inner]
    split_ifs <;> refine ⟨⟨?_, ?_⟩, ?_⟩ <;> (try rw [abs_le]) <;> (try constructor) <;> linarith
  | gt a =>
    have h1 : a < v := ha
    simp only [corrected, correctLowerOpen_real, Shape.Inner]
    split_ifs <;> refine ⟨?_, ?_⟩ <;> (try rw [abs_le]) <;> (try constructor) <;> linarith
  | ge a =>
    have h1 : a ≤ v := ha
    have ea : |v - a| = v - a := abs_of_nonneg (by linarith)
    simp only [corrected, correctLower_real, ea, Shape.Inner]
    split_ifs <;> refine ⟨?_, ?_⟩ <;> (try rw [abs_le]) <;> (try constructor) <;> linarith
  | lt b =>
    have h1 : v < b := ha
    simp only [corrected, correctUpperOpen_real, Shape.Inner]
    split_ifs <;> refine ⟨?_, ?_⟩ <;> (try rw [abs_le]) <;> (try constructor) <;> linarith
  | le b =>
    have h1 : v ≤ b := ha
    have eb : |v - b| = b - v := by rw [abs_sub_comm]; exact abs_of_nonneg (by linarith)
    simp only [corrected, correctUpper_real, eb, Shape.Inner]
    split_ifs <;> refine ⟨?_, ?_⟩ <;> (try rw [abs_le]) <;> (try constructor) <;> linarith

theorem corrected_inner {tiny : ℝ} (ht : 0 < tiny) {sh : Shape ℝ} {v : ℝ} (h : Admits tiny sh v) :
    sh.Inner tiny (corrected tiny sh v) := (corrected_spec ht h).1

/-- `init_` moves a value by at most `2 tiny` (`tiny` inside the corrected bound) -/
theorem corrected_close {tiny : ℝ} (ht : 0 < tiny) {sh : Shape ℝ} {v : ℝ} (h : Admits tiny sh v) :
    |corrected tiny sh v - v| ≤ 2 * tiny := (corrected_spec ht h).2

/-- ... and not at all when it is `tiny` away from every closed bound and `2 tiny` away from every
open bound -/
theorem corrected_eq_self {tiny : ℝ} {sh : Shape ℝ} {v : ℝ} (h : NotNudged tiny sh v) :
    corrected tiny sh v = v := by
  cases sh <;> simp only [NotNudged] at h <;>
    simp only [corrected, correctLower_real, correctUpper_real, correctLowerOpen_real,
      correctUpperOpen_real]
  case cc a b => rw [if_neg (not_lt.mpr h.2), if_neg (not_lt.mpr h.1)]
  case oo a b =>
    rw [if_neg (show ¬ (b - tiny - v < tiny) by linarith [h.2]),
      if_neg (show ¬ (v - (a + tiny) < tiny) by linarith [h.1])]
  case co a b =>
    rw [if_neg (show ¬ (b - tiny - v < tiny) by linarith [h.2]), if_neg (not_lt.mpr h.1)]
  case oc a b =>
    rw [if_neg (not_lt.mpr h.2), if_neg (show ¬ (v - (a + tiny) < tiny) by linarith [h.1])]
  case gt a => rw [if_neg (show ¬ (v - (a + tiny) < tiny) by linarith)]
  case ge a => rw [if_neg (not_lt.mpr h)]
  case lt b => rw [if_neg (show ¬ (b - tiny - v < tiny) by linarith)]
  case le b => rw [if_neg (not_lt.mpr h)]

/-- the interval constructor followed by `getOriginalValue` (hyperbolic variant) -/
theorem IT_new_getOriginal (pi cv lo hi : ℝ) (h1 : lo < cv) (h2 : cv < hi) :
    IT.getOriginal pi (IT.new pi cv lo hi 1 true) = cv := by
  have hb : lo < hi := lt_trans h1 h2
  have e : IT.new pi cv lo hi 1 true
      = (IT.mk 1 lo hi true 0).at (IT.fwd pi 1 lo hi true cv) := by
    simp [IT.new, IT.at]
  rw [e, IT.getOriginal_at_hyper pi _ rfl hb, IT.fwd_hyper_real _ _ _ _ _ h1 h2]
  exact IT.gh_fwd one_ne_zero h1 h2

/-- the half-line constructor followed by `getOriginalValue` -/
theorem RT_new_getOriginal (v b : ℝ) (pos : Bool) (hv : if pos then b < v else v < b) :
    ∃ t, RT.new v b pos 1 = some t ∧ t.getOriginal = v ∧ t.bound = b ∧ t.positive = pos ∧ t.scale = 1 := by
  unfold RT.new
  have := Bpp.C11aux.r_roundtrip { scale := (1 : ℝ), bound := b, positive := pos, x := one }
    rfl v (by simpa [RT.Inside] using hv)
  obtain ⟨t', h1, h2, h3, h4, h5⟩ := this
  exact ⟨t', h1, h2, h4, h5, h3⟩

/-- `wrap_preserves_values`, one parameter: for every value accepted by the constraint the
transformed parameter `init_` builds is of the expected kind and back-transforms to the
(corrected) initial value; in particular its constructor does not raise -/
theorem initOne_spec {pi tiny : ℝ} (ht : 0 < tiny) {sh : Shape ℝ} {v : ℝ} (h : Admits tiny sh v) :
    ∃ tp, initOne pi tiny sh v = some tp ∧ Matches tiny sh tp ∧
      tp.getOriginal pi = corrected tiny sh v := by
  have hin := corrected_inner ht h
  generalize hc : corrected tiny sh v = cv at hin
  cases sh with
  | none => exact ⟨.p cv, by simp [initOne, hc, TP.placebo], trivial, rfl⟩
  | cc a b =>
    exact ⟨.i (IT.new pi cv a b 1 true), by simp [initOne, mkIT, hc, hin.1, hin.2], by simp [Matches, IT.new],
      IT_new_getOriginal pi cv a b hin.1 hin.2⟩
  | oo a b =>
    exact ⟨.i (IT.new pi cv (a + tiny) (b - tiny) 1 true), by simp [initOne, mkIT, hc, hin.1, hin.2], by simp [Matches, IT.new],
      IT_new_getOriginal pi cv (a + tiny) (b - tiny) hin.1 hin.2⟩
  | co a b =>
    exact ⟨.i (IT.new pi cv a (b - tiny) 1 true), by simp [initOne, mkIT, hc, hin.1, hin.2], by simp [Matches, IT.new],
      IT_new_getOriginal pi cv a (b - tiny) hin.1 hin.2⟩
  | oc a b =>
    exact ⟨.i (IT.new pi cv (a + tiny) b 1 true), by simp [initOne, mkIT, hc, hin.1, hin.2], by simp [Matches, IT.new],
      IT_new_getOriginal pi cv (a + tiny) b hin.1 hin.2⟩
  | gt a =>
    have h' : a + tiny < cv := hin
    obtain ⟨t, e, g, hb, hp, hs⟩ := RT_new_getOriginal cv (a + tiny) true (by simpa using h')
    exact ⟨.r t, by simp [initOne, hc, e], ⟨hb, hp, hs⟩, by simpa [TP.getOriginal] using g⟩
  | ge a =>
    have h' : a < cv := hin
    obtain ⟨t, e, g, hb, hp, hs⟩ := RT_new_getOriginal cv a true (by simpa using h')
    exact ⟨.r t, by simp [initOne, hc, e], ⟨hb, hp, hs⟩, by simpa [TP.getOriginal] using g⟩
  | lt b =>
    have h' : cv < b - tiny := hin
    obtain ⟨t, e, g, hb, hp, hs⟩ := RT_new_getOriginal cv (b - tiny) false (by simpa using h')
    exact ⟨.r t, by simp [initOne, hc, e], ⟨hb, hp, hs⟩, by simpa [TP.getOriginal] using g⟩
  | le b =>
    have h' : cv < b := hin
    obtain ⟨t, e, g, hb, hp, hs⟩ := RT_new_getOriginal cv b false (by simpa using h')
    exact ⟨.r t, by simp [initOne, hc, e], ⟨hb, hp, hs⟩, by simpa [TP.getOriginal] using g⟩

/-- `1e-9`, the distance from a bound down to which the property quantifies -/
noncomputable def margin : ℝ := 1 / 10 ^ 9

/-- the property's quantifier on initial values: inside the constraint and at least `1e-9` away
from every finite bound -/
def Margin : Shape ℝ → ℝ → Prop
  | .none, _ => True
  | .cc a b, v => a + margin ≤ v ∧ v ≤ b - margin
  | .oo a b, v => a + margin ≤ v ∧ v ≤ b - margin
  | .co a b, v => a + margin ≤ v ∧ v ≤ b - margin
  | .oc a b, v => a + margin ≤ v ∧ v ≤ b - margin
  | .gt a, v => a + margin ≤ v
  | .ge a, v => a + margin ≤ v
  | .lt b, v => v ≤ b - margin
  | .le b, v => v ≤ b - margin

/-- the nudge `TINY()` of the bounds is smaller than the property's margin: this is what makes
every value of the property's quantifier admissible (false for e.g. `TINY() = 1e-8`) -/
theorem libTINY_lt_margin : (libTINY : ℝ) < margin := by
  simp only [libTINY, Generated.TransformConstants.TINY, ofRat_eq, margin]
  norm_num

/-- ... with room for the two steps of `TINY()` an open bound and the value next to it are moved by -/
theorem two_libTINY_lt_margin : 2 * (libTINY : ℝ) < margin := by
  simp only [libTINY, Generated.TransformConstants.TINY, ofRat_eq, margin]
  norm_num

theorem margin_admits {sh : Shape ℝ} {v : ℝ} (h : Margin sh v) :
    Admits libTINY sh v ∧ NotNudged libTINY sh v := by
  have h0 := libTINY_pos
  have h1 := two_libTINY_lt_margin
  have e : (margin : ℝ) = 1 / 1000000000 := by unfold margin; norm_num
  rw [e] at h1
  cases sh with
  | none => exact ⟨⟨trivial, trivial⟩, trivial⟩
  | cc a b =>
    obtain ⟨p, q⟩ := h; rw [e] at p q
    refine ⟨⟨⟨by linarith, by linarith⟩, by show 2 * libTINY < b - a; linarith⟩, ?_, ?_⟩
    · exact le_trans (by linarith) (le_abs_self (v - a))
    · exact le_trans (by linarith) (neg_le_abs (v - b))
  | oo a b =>
    obtain ⟨p, q⟩ := h; rw [e] at p q
    exact ⟨⟨⟨by linarith, by linarith⟩, by show 3 * libTINY < b - a; linarith⟩,
      by constructor <;> linarith⟩
  | co a b =>
    obtain ⟨p, q⟩ := h; rw [e] at p q
    exact ⟨⟨⟨by linarith, by linarith⟩, by show 2 * libTINY < b - a; linarith⟩,
      le_trans (by linarith) (le_abs_self (v - a)), by linarith⟩
  | oc a b =>
    obtain ⟨p, q⟩ := h; rw [e] at p q
    exact ⟨⟨⟨by linarith, by linarith⟩, by show 2 * libTINY < b - a; linarith⟩,
      by linarith, le_trans (by linarith) (neg_le_abs (v - b))⟩
  | gt a =>
    have p : a + margin ≤ v := h
    rw [e] at p
    exact ⟨⟨by show a < v; linarith, trivial⟩, by show a + 2 * libTINY ≤ v; linarith⟩
  | ge a =>
    have p : a + margin ≤ v := h
    rw [e] at p
    exact ⟨⟨by show a ≤ v; linarith, trivial⟩, le_trans (by linarith) (le_abs_self (v - a))⟩
  | lt b =>
    have p : v ≤ b - margin := h
    rw [e] at p
    exact ⟨⟨by show v < b; linarith, trivial⟩, by show v ≤ b - 2 * libTINY; linarith⟩
  | le b =>
    have p : v ≤ b - margin := h
    rw [e] at p
    exact ⟨⟨by show v ≤ b; linarith, trivial⟩, le_trans (by linarith) (neg_le_abs (v - b))⟩

/-! ### lists of slots: `init`, `fireParameterChanged`, `setParameters` -/

theorem mapM_ok {A B E : Type} {f : A → Except E B} {g : A → B} :
    ∀ (l : List A), (∀ a ∈ l, f a = .ok (g a)) → l.mapM f = .ok (l.map g) := by
  intro l
  induction l with
  | nil => intro _; rfl
  | cons a l ih =>
    intro h
    have h1 := h a (by simp)
    have h2 := ih (fun b hb => h b (by simp [hb]))
    simp [List.mapM_cons, h1, h2, bind, Except.bind, pure, Except.pure]

/-- per-slot invariant of a wrapper: the transform is the one `init_` builds for the constraint,
the interval is wide enough, the stored values are accepted by the constraint -/
structure SlotInv (tiny : ℝ) (s : Slot ℝ) : Prop where
  m : Matches tiny s.shape s.tp
  w : s.shape.Wide tiny
  fp : s.shape.Accepts s.fp
  fn : s.shape.Accepts s.fn

/-- the two coordinate systems agree on a slot -/
def Sync (pi : ℝ) (s : Slot ℝ) : Prop := s.fn = s.tp.getOriginal pi ∧ s.fp = s.fn

/-- what `init` builds for one parameter -/
def InitRel (pi tiny : ℝ) (p : Shape ℝ × ℝ) (s : Slot ℝ) : Prop :=
  s.shape = p.1 ∧ s.fp = p.2 ∧ s.fn = p.2 ∧ Matches tiny p.1 s.tp ∧
    s.tp.getOriginal pi = corrected tiny p.1 p.2

theorem init_spec {pi tiny : ℝ} (ht : 0 < tiny) :
    ∀ (ps : List (Shape ℝ × ℝ)), (∀ p ∈ ps, Admits tiny p.1 p.2) →
      ∃ w, init pi tiny ps = .ok w ∧ List.Forall₂ (InitRel pi tiny) ps w := by
  intro ps
  induction ps with
  | nil => intro _; exact ⟨[], rfl, List.Forall₂.nil⟩
  | cons p ps ih =>
    intro h
    obtain ⟨w, hw, hrel⟩ := ih (fun q hq => h q (by simp [hq]))
    obtain ⟨tp, e, hm, hg⟩ := initOne_spec (pi := pi) ht (h p (by simp))
    refine ⟨{ tp := tp, shape := p.1, fp := p.2, fn := p.2 } :: w, ?_, ?_⟩
    · unfold init at hw ⊢
      simp [List.mapM_cons, e, hw, bind, Except.bind, pure, Except.pure]
    · exact List.Forall₂.cons ⟨rfl, rfl, rfl, hm, hg⟩ hrel

/-- `fireParameterChanged` over ℝ: every copy is refreshed with the back-transformed value, and no
ConstraintException is raised -/
theorem fire_real {pi tiny : ℝ} (ht : 0 < tiny) (w : W ℝ)
    (h : ∀ s ∈ w, Matches tiny s.shape s.tp ∧ s.shape.Wide tiny) :
    fire pi w = .ok (w.map (fun s => { s with fp := s.tp.getOriginal pi })) := by
  unfold fire
  apply mapM_ok
  intro s hs
  unfold fireOne
  rw [paramSetC_real _ _ _ (matches_accepts ht (h s hs).1 (h s hs).2)]

/-- one slot after `setParameters`, over ℝ.  `ch`: did any named coordinate change? -/
noncomputable def setSlot (pi : ℝ) (ch : Bool) (s : Slot ℝ) (u : Option ℝ) : Slot ℝ :=
  let tp' := match u with | some v => s.tp.setX v | none => s.tp
  let fp' := if ch then tp'.getOriginal pi else s.fp
  { tp := tp', shape := s.shape, fp := fp', fn := match u with | some _ => fp' | none => s.fn }

theorem matchOne_real (s : Slot ℝ) (u : Option ℝ) :
    matchOne s u = { s with tp := match u with | some v => s.tp.setX v | none => s.tp } := by
  cases u with
  | none => rfl
  | some v =>
    simp only [matchOne]
    split_ifs with h
    · rfl
    · have : s.tp.x = v := by
        by_contra hne; exact h ((neb_real _ _).mpr hne)
      rw [← this, setX_self]

theorem pushOne_real (s : Slot ℝ) (u : Option ℝ) :
    pushOne s u = { s with fn := match u with | some _ => s.fp | none => s.fn } := by
  cases u with
  | none => rfl
  | some v =>
    simp only [pushOne]
    split_ifs with h
    · simp
    · have : s.fn = s.fp := by
        by_contra hne; exact h ((neb_real _ _).mpr hne)
      cases s; simp_all

/-- the state after the matching and (when something changed) the refresh -/
noncomputable def midSlot (pi : ℝ) (ch : Bool) (s : Slot ℝ) (u : Option ℝ) : Slot ℝ :=
  let tp' := match u with | some v => s.tp.setX v | none => s.tp
  { s with tp := tp', fp := if ch then tp'.getOriginal pi else s.fp }

theorem zipWith_map_left {A B C D : Type} (g : A → B → C) (r : C → D) :
    ∀ (l : List A) (m : List B), (List.zipWith g l m).map r = List.zipWith (fun a b => r (g a b)) l m := by
  intro l
  induction l with
  | nil => intro m; simp
  | cons a l ih => intro m; cases m <;> simp [ih]

theorem forall_zipWith {A B C : Type} {g : A → B → C} {P : A → Prop} {Q : C → Prop}
    (h : ∀ a b, P a → Q (g a b)) :
    ∀ (l : List A) (m : List B), (∀ a ∈ l, P a) → ∀ c ∈ List.zipWith g l m, Q c := by
  intro l
  induction l with
  | nil => intro m _ c hc; simp at hc
  | cons a l ih =>
    intro m hl c hc
    cases m with
    | nil => simp at hc
    | cons b m =>
      simp only [List.zipWith_cons_cons, List.mem_cons] at hc
      rcases hc with rfl | hc
      · exact h a b (hl a (by simp))
      · exact ih m (fun x hx => hl x (by simp [hx])) c hc

theorem zipWith_zipWith_left {A B C D : Type} (g : A → B → C) (k : C → B → D) :
    ∀ (l : List A) (m : List B),
      List.zipWith k (List.zipWith g l m) m = List.zipWith (fun a b => k (g a b) b) l m := by
  intro l
  induction l with
  | nil => intro m; simp
  | cons a l ih => intro m; cases m <;> simp [ih]

theorem any_zipWith_false {A B : Type} {g : A → B → Bool} {P : A → Prop}
    (h : ∀ a b, P a → g a b = false) :
    ∀ (l : List A) (m : List B), (∀ a ∈ l, P a) → (List.zipWith g l m).any id = false := by
  intro l
  induction l with
  | nil => intro m _; simp
  | cons a l ih =>
    intro m hl
    cases m with
    | nil => simp
    | cons b m =>
      simp only [List.zipWith_cons_cons, List.any_cons, id, Bool.or_eq_false_iff]
      exact ⟨h a b (hl a (by simp)), ih m (fun x hx => hl x (by simp [hx]))⟩

/-- `setParameters` over ℝ never raises on a wrapper satisfying the invariant, and its result is
`setSlot` slot by slot -/
theorem set_real {pi tiny : ℝ} (ht : 0 < tiny) (w : W ℝ) (upd : List (Option ℝ))
    (hinv : ∀ s ∈ w, SlotInv tiny s) (hlen : upd.length = w.length) :
    Reparam.set pi w upd =
      .ok (List.zipWith (setSlot pi ((List.zipWith changed w upd).any id)) w upd) := by
  unfold Reparam.set
  rw [if_neg (by simpa using hlen)]
  generalize (List.zipWith changed w upd).any id = ch
  -- the matching step
  have hmatch : List.zipWith matchOne w upd
      = List.zipWith (fun s u => ({ s with tp := match u with | some v => s.tp.setX v | none => s.tp } : Slot ℝ)) w upd := by
    congr 1; funext s u; exact matchOne_real s u
  -- the refresh step
  have hmid : (if ch then fire pi (List.zipWith matchOne w upd) else .ok (List.zipWith matchOne w upd))
      = .ok (List.zipWith (midSlot pi ch) w upd) := by
    cases ch
    · simp only [Bool.false_eq_true, if_false, hmatch]
      congr 1
    · simp only [if_true]
      rw [fire_real ht, hmatch, zipWith_map_left]
      · congr 1
      · rw [hmatch]
        refine forall_zipWith (P := SlotInv tiny)
          (Q := fun c : Slot ℝ => Matches tiny c.shape c.tp ∧ c.shape.Wide tiny) ?_ w upd hinv
        intro s u hs
        refine ⟨?_, hs.w⟩
        cases u with
        | none => exact hs.m
        | some v => exact matches_setX hs.m v
  simp only [hmid]
  -- no rejected value is pushed
  have hbad : (List.zipWith pushBad (List.zipWith (midSlot pi ch) w upd) upd).any id = false := by
    rw [zipWith_zipWith_left]
    apply any_zipWith_false (P := SlotInv tiny) _ w upd hinv
    intro s u hs
    cases u with
    | none => rfl
    | some v =>
      simp only [pushBad, midSlot, Bool.not_eq_false']
      rw [isCorrect_iff]
      cases ch
      · simpa using hs.fp
      · simpa using matches_accepts ht (matches_setX hs.m v) hs.w
  rw [if_neg (by simp [hbad])]
  congr 1
  rw [zipWith_zipWith_left]
  congr 1
  funext s u
  rw [pushOne_real]
  cases u <;> rfl

theorem setSlot_inv {pi tiny : ℝ} (ht : 0 < tiny) (ch : Bool) (s : Slot ℝ) (u : Option ℝ)
    (hs : SlotInv tiny s) : SlotInv tiny (setSlot pi ch s u) := by
  cases u with
  | none =>
    cases ch
    · exact ⟨hs.m, hs.w, by simpa [setSlot] using hs.fp, hs.fn⟩
    · exact ⟨hs.m, hs.w, by simpa [setSlot] using matches_accepts ht hs.m hs.w, hs.fn⟩
  | some v =>
    have hm := matches_setX hs.m v
    cases ch
    · exact ⟨hm, hs.w, by simpa [setSlot] using hs.fp, by simpa [setSlot] using hs.fp⟩
    · exact ⟨hm, hs.w, by simpa [setSlot] using matches_accepts ht hm hs.w,
        by simpa [setSlot] using matches_accepts ht hm hs.w⟩

theorem setSlot_sync {pi : ℝ} (ch : Bool) (s : Slot ℝ) (u : Option ℝ) (hs : Sync pi s)
    (hch : ch = false → changed s u = false) : Sync pi (setSlot pi ch s u) := by
  obtain ⟨h1, h2⟩ := hs
  cases u with
  | none =>
    cases ch <;> simp [setSlot, Sync, h1, h2]
  | some v =>
    cases ch
    · have hc := hch rfl
      have hx : s.tp.x = v := by
        by_contra hne
        have : changed s (some v) = true := by simp [changed, hne]
        rw [hc] at this; exact Bool.false_ne_true this
      simp only [setSlot, Sync, Bool.false_eq_true, if_false]
      rw [← hx, setX_self]
      exact ⟨by rw [h2, h1], trivial⟩
    · simp [setSlot, Sync]

theorem sync_zipWith (pi : ℝ) (ch : Bool) :
    ∀ (w : W ℝ) (upd : List (Option ℝ)), (∀ s ∈ w, Sync pi s) →
      (ch = false → (List.zipWith changed w upd).any id = false) →
      ∀ s' ∈ List.zipWith (setSlot pi ch) w upd, Sync pi s' := by
  intro w
  induction w with
  | nil => intro upd _ _ s' hs'; simp at hs'
  | cons s w ih =>
    intro upd hw hch s' hs'
    cases upd with
    | nil => simp at hs'
    | cons u upd =>
      simp only [List.zipWith_cons_cons, List.mem_cons] at hs'
      have hch' : ch = false → changed s u = false ∧ (List.zipWith changed w upd).any id = false := by
        intro h
        have := hch h
        simpa [List.zipWith_cons_cons, List.any_cons, Bool.or_eq_false_iff] using this
      rcases hs' with rfl | hs'
      · exact setSlot_sync ch s u (hw s (by simp)) (fun h => (hch' h).1)
      · exact ih upd (fun x hx => hw x (by simp [hx])) (fun h => (hch' h).2) s' hs'

/-- the two coordinate systems agree on a slot up to `d`: the wrapped function's value is within
`d` of the back-transformed coordinate, and the wrapper's copy holds one of the two.  (`d = 0`
with `fp = fn` is `Sync`; after a construction that moved a value, `d = 2 tiny`.) -/
def Near (pi d : ℝ) (s : Slot ℝ) : Prop :=
  |s.fn - s.tp.getOriginal pi| ≤ d ∧ (s.fp = s.fn ∨ s.fp = s.tp.getOriginal pi)

theorem sync_near {pi d : ℝ} (hd : 0 ≤ d) {s : Slot ℝ} (h : Sync pi s) : Near pi d s := by
  obtain ⟨h1, h2⟩ := h
  exact ⟨by rw [h1]; simpa using hd, Or.inl h2⟩

theorem setSlot_near {pi d : ℝ} (hd : 0 ≤ d) (ch : Bool) (s : Slot ℝ) (u : Option ℝ)
    (hs : Near pi d s) (hch : ch = false → changed s u = false) : Near pi d (setSlot pi ch s u) := by
  obtain ⟨h1, h2⟩ := hs
  cases u with
  | none =>
    cases ch
    · exact ⟨by simpa [setSlot] using h1, by simpa [setSlot] using h2⟩
    · exact ⟨by simpa [setSlot] using h1, by simp [setSlot]⟩
  | some v =>
    cases ch
    · have hc := hch rfl
      have hx : s.tp.x = v := by
        by_contra hne
        have : changed s (some v) = true := by simp [changed, hne]
        rw [hc] at this; exact Bool.false_ne_true this
      simp only [setSlot, Near, Bool.false_eq_true, if_false]
      rw [← hx, setX_self]
      refine ⟨?_, Or.inl trivial⟩
      rcases h2 with e | e
      · rw [e]; exact h1
      · rw [e]; simpa using hd
    · simp only [setSlot, Near, if_true]
      exact ⟨by simpa using hd, Or.inl trivial⟩

theorem forall₂_zipWith_right {A B C : Type} {R : A → B → Prop} {g : B → C → B} {Q : B → C → Prop}
    (h : ∀ a b c, Q b c → R a b → R a (g b c)) :
    ∀ {l : List A} {m : List B}, List.Forall₂ R l m → ∀ (n : List C), n.length = m.length →
      (∀ p ∈ List.zip m n, Q p.1 p.2) → List.Forall₂ R l (List.zipWith g m n) := by
  intro l m hr
  induction hr with
  | nil => intro n _ _; simp
  | cons hab _ ih =>
    intro n hn hq
    cases n with
    | nil => simp at hn
    | cons c n =>
      simp only [List.zipWith_cons_cons]
      exact List.Forall₂.cons (h _ _ c (hq (_, c) (by simp)) hab)
        (ih n (by simpa using hn) (fun p hp => hq p (by simp [hp])))

theorem forall₂_imp_right {A B : Type} {R S : A → B → Prop} (h : ∀ a b, R a b → S a b) :
    ∀ {l : List A} {m : List B}, List.Forall₂ R l m → List.Forall₂ S l m := by
  intro l m hr
  induction hr with
  | nil => exact List.Forall₂.nil
  | cons hab _ ih => exact List.Forall₂.cons (h _ _ hab) ih

/-- if no named coordinate changes (`any changed = false`), none does -/
theorem changed_of_any_false :
    ∀ (w : W ℝ) (upd : List (Option ℝ)), (List.zipWith changed w upd).any id = false →
      ∀ p ∈ List.zip w upd, changed p.1 p.2 = false := by
  intro w
  induction w with
  | nil => intro upd _ p hp; simp at hp
  | cons s w ih =>
    intro upd h p hp
    cases upd with
    | nil => simp at hp
    | cons u upd =>
      simp only [List.zipWith_cons_cons, List.any_cons, id, Bool.or_eq_false_iff] at h
      simp only [List.zip_cons_cons, List.mem_cons] at hp
      rcases hp with rfl | hp
      · exact h.1
      · exact ih upd h.2 p hp

/-- what is known of the slot of a parameter with constraint `p.1` and initial value `p.2` at any
time after the construction: the invariant, the two coordinate systems within `2 tiny` of each other,
and exactly equal when `init_` did not move the initial value -/
def Tracks (pi tiny : ℝ) (p : Shape ℝ × ℝ) (s : Slot ℝ) : Prop :=
  s.shape = p.1 ∧ SlotInv tiny s ∧ Near pi (2 * tiny) s ∧ (NotNudged tiny p.1 p.2 → Sync pi s)

theorem setSlot_tracks {pi tiny : ℝ} (ht : 0 < tiny) (ch : Bool) (p : Shape ℝ × ℝ) (s : Slot ℝ)
    (u : Option ℝ) (hch : ch = false → changed s u = false) (h : Tracks pi tiny p s) :
    Tracks pi tiny p (setSlot pi ch s u) := by
  obtain ⟨h1, h2, h3, h4⟩ := h
  exact ⟨by simpa [setSlot] using h1, setSlot_inv ht ch s u h2,
    setSlot_near (by linarith) ch s u h3 hch, fun hn => setSlot_sync ch s u (h4 hn) hch⟩

theorem forall₂_map_eq {A B C : Type} {R : A → B → Prop} {f : A → C} {g : B → C}
    (h : ∀ a b, R a b → f a = g b) :
    ∀ {l : List A} {m : List B}, List.Forall₂ R l m → l.map f = m.map g := by
  intro l m hr
  induction hr with
  | nil => rfl
  | cons hab _ ih => simp [h _ _ hab, ih]

theorem forall₂_right {A B : Type} {R : A → B → Prop} {Q : B → Prop} (h : ∀ a b, R a b → Q b) :
    ∀ {l : List A} {m : List B}, List.Forall₂ R l m → ∀ b ∈ m, Q b := by
  intro l m hr
  induction hr with
  | nil => intro b hb; simp at hb
  | cons hab _ ih =>
    intro b hb
    simp only [List.mem_cons] at hb
    rcases hb with rfl | hb
    · exact h _ _ hab
    · exact ih b hb

theorem forall₂_and_left {A B : Type} {R : A → B → Prop} {P : A → Prop} :
    ∀ {l : List A} {m : List B}, List.Forall₂ R l m → (∀ a ∈ l, P a) →
      List.Forall₂ (fun a b => R a b ∧ P a) l m := by
  intro l m hr
  induction hr with
  | nil => intro _; exact List.Forall₂.nil
  | cons hab _ ih =>
    intro h
    exact List.Forall₂.cons ⟨hab, h _ (by simp)⟩ (ih (fun q hq => h q (by simp [hq])))

/-- the back-transformed point of a wrapper -/
noncomputable def origs (pi : ℝ) (w : W ℝ) : List ℝ := w.map (fun s => s.tp.getOriginal pi)

theorem fnVals_eq_origs {pi : ℝ} {w : W ℝ} (h : ∀ s ∈ w, Sync pi s) : fnVals w = origs pi w := by
  unfold fnVals origs
  apply List.map_congr_left
  intro s hs; exact (h s hs).1

/-- slot `s` with its transformed coordinate moved to `x` -/
noncomputable def Slot.atX (s : Slot ℝ) (x : ℝ) : Slot ℝ := { s with tp := s.tp.setX x }

theorem origs_set (pi : ℝ) (w : W ℝ) (i : Nat) (s : Slot ℝ) (x : ℝ) :
    origs pi (w.set i (s.atX x)) = (origs pi w).set i ((s.tp.setX x).getOriginal pi) := by
  unfold origs; rw [List.map_set]; rfl

/-! ### transformed parameters as differentiable functions of their coordinate -/

/-- hypotheses under which the derivative theorems of a transformed parameter apply; they hold for
everything `init_` builds (`matches_tpwf`) -/
def TPWF : TP ℝ → Prop
  | .r t => t.scale = 1
  | .i t => t.hyper = true ∧ 0 < t.scale ∧ t.lo < t.hi
  | .p _ => True

theorem matches_tpwf {tiny : ℝ} {sh : Shape ℝ} {tp : TP ℝ} (h : Matches tiny sh tp) (hw : sh.Wide tiny) :
    TPWF tp := by
  cases sh <;> cases tp <;> simp only [Matches] at h <;> try exact h.elim
  all_goals simp only [TPWF, Shape.Wide] at *
  all_goals first
    | exact h.2.2
    | (obtain ⟨h1, h2, h3, h4⟩ := h; exact ⟨h4, by rw [h3]; norm_num, by rw [h1, h2]; exact hw⟩)

end Bpp.Reparam
