import BppProofs.Lemmas.TreeSwitch
/-
Re-rooting a valid rooted tree (`rootAt`, directed case): `propagateDirection_` turns round the
father chain of the new root, one `switchNodes` per relation, each of which re-roots the tree at a
son of the current root.
-/
namespace Bpp.Graph
open AL

namespace T

theorem isValid_of_tree {t : T} (h : isTree t.g = .ok true) : t.isValid = (.ok true, { t with valid := true }) := by
  unfold isValid
  by_cases hv : t.valid = true
  · rw [if_pos hv]
    cases t with
    | mk g valid => simp only at hv; subst hv; rfl
  · rw [if_neg hv, h]

theorem lift_ok {α : Type} (t : T) (a : α) (g' : G) :
    t.lift (.ok a g') = (.ok a { g' with pending := [] }, { g := { g' with pending := [] }, valid := false }) := rfl

end T

theorem SameShape.quiet {g g' : G} (h : SameShape g g') : SameShape g { g' with pending := [] } :=
  ⟨h.keys, h.uedges, rfl⟩

theorem SameShape.refl' (g : G) (hq : g.pending = []) : SameShape g g := ⟨rfl, rfl, hq⟩

namespace DTree
variable {P : PTree}

theorem arc_out {g : G} (h : DTree g P) {a b : Nat} (hp : P.par b = some a) : ∃ e, g.outE a b = some e := by
  have : Arc g a b := (h.arc a b).2 hp
  unfold Arc at this
  cases ho : g.outE a b with
  | none => rw [ho] at this; cases this
  | some e => exact ⟨e, rfl⟩

/-- `propagateDirection_` from `n`: the tree re-rooted at `n`; relations off the father chain of `n` are untouched -/
theorem propagate : ∀ (fuel : Nat) (t : T) (P : PTree) (n : Nat), DTree t.g P → t.g.pending = [] → n ∈ P.nodes → P.rank n + 1 ≤ fuel →
    ∃ (t' : T) (P' : PTree), T.propagate fuel t n = .ok (.ok () t'.g, t') ∧ DTree t'.g P' ∧ P'.root = n ∧ P'.nodes = P.nodes ∧
      (∀ v, ¬ IsAnc P.par v n → P'.par v = P.par v) ∧ SameShape t.g t'.g ∧ t'.g.root = t.g.root := by
  intro fuel
  induction fuel with
  | zero => intro t P n _ _ _ hr; omega
  | succ f ih =>
    intro t P n h hq hn hr
    have hnode := (h.nodes n).1 hn
    simp only [T.propagate]
    rw [h.hasFather hnode]
    cases hp : P.par n with
    | none =>
      simp only [Option.isSome_none]
      have hroot : n = P.root := by
        refine Classical.byContradiction fun hne => ?_
        obtain ⟨p, hp', _, _⟩ := h.wf.par_some n hn hne
        rw [hp] at hp'; cases hp'
      exact ⟨t, P, rfl, h, hroot.symm, rfl, fun _ _ => rfl, SameShape.refl' _ hq, rfl⟩
    | some fa =>
      simp only [Option.isSome_some]
      rw [h.father hnode, hp]
      simp only
      have hm := h.wf.par_mem hp
      obtain ⟨t1, P1, hr1, h1, hroot1, hnodes1, hpar1, hs1, hrt1⟩ := ih t P fa h hq hm.2.2.1 (by omega)
      rw [hr1]
      simp only [T.andThen]
      -- in the tree rooted at the father, `n` is still a son of the root
      have hpn : P1.par n = some P1.root := by
        rw [hroot1, hpar1 n (h.wf.son_not_anc hp)]; exact hp
      obtain ⟨e, he⟩ := h1.arc_out hpn
      have hne : P1.root ≠ n := T.par_ne_self h1.wf hpn
      have hno : t1.g.outE n P1.root = none := by
        cases ho : t1.g.outE n P1.root with
        | none => rfl
        | some e' =>
          have : Arc t1.g n P1.root := by unfold Arc; rw [ho]; rfl
          have := (h1.arc n P1.root).1 this
          rw [h1.wf.par_root] at this; cases this
      obtain ⟨g', hsw, _, hfl⟩ := switch_flip h1.cons h1.dir he hne hno
      rw [← hroot1, hsw, T.lift_ok]
      have hd' : DTree g' (P1.reroot n) := h1.flip hpn hfl
      refine ⟨{ g := { g' with pending := [] }, valid := false }, P1.reroot n, rfl,
        hd'.congr rfl rfl rfl rfl rfl, rfl, hnodes1, ?_, ?_, ?_⟩
      · intro v hv
        have hvn : v ≠ n := fun e => hv (e ▸ .refl _)
        have hvf : ¬ IsAnc P.par v fa := fun ha => hv (.step hp ha)
        have hvr : v ≠ P1.root := by rw [hroot1]; exact fun e => hvf (e ▸ .refl _)
        rw [PTree.reroot_par_other n v hvr hvn]
        exact hpar1 v hvf
      · exact hs1.trans (hfl.sameShape h1.cons h1.dir he hs1.pending).quiet
      · show g'.root = t.g.root
        rw [hfl.root, hrt1]

end DTree

/-- what `rootAt` promises -/
structure Rerooted (g g' : G) (n : Nat) : Prop where
  valid : ValidRooted g'
  root : g'.root = n
  shape : SameShape g g'
  fatherless : ∀ x, g'.hasNode x = true → (T.hasFather g' x = some false ↔ x = n)

theorem DTree.fatherless_iff {g : G} {P : PTree} (h : DTree g P) {x : Nat} (hx : g.hasNode x = true) :
    T.hasFather g x = some false ↔ x = P.root := by
  rw [h.hasFather hx]
  constructor
  · intro hh
    refine Classical.byContradiction fun hne => ?_
    obtain ⟨p, hp, _, _⟩ := h.wf.par_some x ((h.nodes x).2 hx) hne
    rw [hp] at hh; cases hh
  · intro e; subst e; rw [h.wf.par_root]; rfl

/-- `rootAt` on a valid rooted tree -/
theorem rootAt_rooted (t : T) (hv : ValidRooted t.g) (n : Nat) (hn : t.g.hasNode n = true) :
    ∃ t', t.rootAt n = .ok (.ok () t'.g, t') ∧ Rerooted t.g t'.g n := by
  obtain ⟨P, hd, _⟩ := hv.dtree
  unfold T.rootAt
  rw [T.isValid_of_tree hv.tree]
  simp only [hn, Bool.not_true, Bool.false_eq_true, if_false, hv.dir, if_true]
  have hsr : ({ t with valid := true } : T).setRoot n =
      (.ok () { t.g with root := n, pending := [] }, { g := { t.g with root := n, pending := [] }, valid := false }) := by
    simp only [T.setRoot, G.setRoot, hn, if_true]; rfl
  rw [hsr]
  simp only
  have hd2 : DTree ({ t.g with root := n, pending := [] } : G) P := hd.congr rfl rfl rfl rfl rfl
  have hnP : n ∈ P.nodes := (hd.nodes n).2 hn
  obtain ⟨t', P', hr, hd', hroot', _, _, hs', hrt'⟩ := DTree.propagate (t.g.nodes.length + 2)
    { g := { t.g with root := n, pending := [] }, valid := false } P n hd2 rfl hnP (by have := hd.rank_lt hnP; omega)
  refine ⟨t', hr, ?_⟩
  have hroot : t'.g.root = n := hrt'
  refine ⟨hd'.validRooted (by rw [hroot', hroot]), hroot, ⟨hs'.keys, hs'.uedges, hs'.pending⟩, ?_⟩
  intro x hx
  rw [hd'.fatherless_iff hx, hroot']

end Bpp.Graph
