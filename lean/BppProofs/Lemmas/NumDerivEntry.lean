import BppProofs.Lemmas.NumDerivSteps
/-!
C12 helper lemmas, part 3: the calls the entry points forward to the wrapped function.
-/
namespace Bpp.NumDeriv
open Bpp Bpp.Scalar

/-- second loop of `setParametersValues` when the first loop found no violation -/
theorem setLoop_spec (pl : PList ℝ) : ∀ (own : PList ℝ), (names own).Nodup → Z own →
    (names pl).Nodup → anyViolation own pl = false → setLoop own pl = .ok (updL pl own) := by
  induction pl with
  | nil => intro own _ _ _ _; simp [setLoop, updL_nil]
  | cons q qs ih =>
    intro own hnd hz hpl hv
    rw [anyViolation_cons, Bool.or_eq_false_iff] at hv
    have hqs : (names qs).Nodup := by
      simp only [names, List.map_cons, List.nodup_cons] at hpl; exact hpl.2
    have hqn : q.name ∉ names qs := by
      simp only [names, List.map_cons, List.nodup_cons] at hpl; exact hpl.1
    unfold setLoop
    cases hf : find? own q.name with
    | none =>
      have hh : has own q.name = false := by
        cases hb : has own q.name with
        | false => rfl
        | true => exact absurd ((has_iff own q.name).mp hb) (find?_none hf)
      rw [hh]
      simp only [Bool.false_eq_true, if_false]
      rw [updL_cons_not_mem q qs own (find?_none hf)]
      exact ih own hnd hz hqs hv.2
    | some p =>
      have hpm := find?_some hf
      have hh : has own q.name = true := (has_iff own q.name).mpr (by rw [← hpm.2]; exact List.mem_map_of_mem hpm.1)
      have hviol : p.violates q.value = false := by
        have := hv.1; rw [hf] at this; exact this
      rw [hh, if_pos rfl, setValueOf_spec own hnd q.name q.value p hf (hz p hpm.1) hviol]
      simp only []
      rw [updL_cons_mem q qs own hqn]
      have hv' : anyViolation (upd1 own q.name q.value) qs = false := by
        unfold upd1; rw [anyViolation_map own qs _ (upd1_hg q.name q.value)]; exact hv.2
      exact ih (upd1 own q.name q.value) (by rw [names_upd1]; exact hnd) (Z_upd1 hz _ _) hqs hv'

/-- the values of `pl` are those of `updL pl own` -/
theorem synced_updL (pl own : PList ℝ) (hpl : (names pl).Nodup) : Synced pl (updL pl own) := by
  intro q hq b hb hn
  simp only [updL, List.mem_map] at hb
  obtain ⟨p, _, rfl⟩ := hb
  have hpn : p.name = q.name := by
    revert hn; split <;> exact id
  have hf : find? pl p.name = some q := by rw [hpn]; exact find?_of_mem hpl hq
  rw [hf]

theorem own_updL {fn : Fn ℝ} (h : Own fn) (pl : PList ℝ) : Own (fn.withParams (updL pl fn.params)) :=
  ⟨by rw [withParams_params, names_updL]; exact h.1, by rw [withParams_params]; exact Z_updL h.2 pl⟩


theorem allSet_spec (pl : PList ℝ) : ∀ (own : PList ℝ), Z own → allCheck own pl = none →
    allSet own pl = .ok (updL pl own) := by
  intro own
  induction own with
  | nil => intro _ _; rfl
  | cons p r ih =>
    intro hz hc
    have hc' := hc
    unfold allCheck at hc
    rw [List.findSome?_cons] at hc
    unfold allSet
    cases hf : find? pl p.name with
    | none => rw [hf] at hc; simp at hc
    | some q =>
      rw [hf] at hc
      simp only [] at hc ⊢
      have hv : p.violates q.value = false := by
        cases hb : p.violates q.value with
        | false => rfl
        | true => rw [hb] at hc; simp at hc
      rw [hv] at hc
      simp only [Bool.false_eq_true, if_false] at hc
      rw [setValue_ok p q.value (hz p (List.mem_cons_self ..)) hv]
      simp only []
      have hr : allCheck r pl = none := hc
      rw [ih (fun x hx => hz x (List.mem_cons_of_mem _ hx)) hr]
      simp only [updL, List.map_cons, hf]


theorem setValueOf_frame : ∀ (l l' : PList ℝ) (n : Name) (v : ℝ), setValueOf l n v = .ok l' →
    names l' = names l ∧ (Z l → Z l') ∧ n ∈ names l := by
  intro l
  induction l with
  | nil => intro l' n v h; simp [setValueOf] at h
  | cons p r ih =>
    intro l' n v h
    unfold setValueOf at h
    split at h
    · rename_i hn
      have hn' : p.name = n := by simpa using hn
      split at h
      · rename_i p' hp'
        injection h with h; subst h
        obtain ⟨a, b, _, _⟩ := setValue_name p p' v hp'
        refine ⟨by simp [names, a], ?_, by simp [names, hn']⟩
        intro hz x hx
        rcases List.mem_cons.mp hx with rfl | hx
        · rw [b]; exact hz p (List.mem_cons_self ..)
        · exact hz x (List.mem_cons_of_mem _ hx)
      · cases h
    · split at h
      · rename_i r' hr'
        injection h with h; subst h
        obtain ⟨a, b, c⟩ := ih r' n v hr'
        refine ⟨by simp only [names, List.map_cons] at a ⊢; rw [a], ?_, by simp only [names, List.map_cons] at c ⊢; exact List.mem_cons_of_mem _ c⟩
        intro hz x hx
        rcases List.mem_cons.mp hx with rfl | hx
        · exact hz x (List.mem_cons_self ..)
        · exact b (fun y hy => hz y (List.mem_cons_of_mem _ hy)) x hx
      · cases h

theorem subNames_single (l : PList ℝ) (n : Name) (hn : n ∈ names l) :
    ∃ p, subNames l [n] = .ok [p] ∧ p ∈ l := by
  cases hf : find? l n with
  | none => exact absurd hn (find?_none hf)
  | some p =>
    refine ⟨p, ?_, (find?_some hf).1⟩
    simp [subNames, subNamesGo, hf, has]

/-- an entry point's list has no duplicate name (`ParameterList::addParameter` guarantees it) -/
def Entry.Nodup : Entry ℝ → Prop
  | .setParameters pl | .f pl | .setAll pl | .setVals pl | .matchPV pl => (names pl).Nodup
  | .setOne _ _ => True

theorem synced_self (own : PList ℝ) (hnd : (names own).Nodup) (q : PList ℝ) (hq : ∀ x ∈ q, x ∈ own) : Synced q own := by
  intro x hx b hb hn
  have h1 := find?_of_mem hnd hb
  have h2 := find?_of_mem hnd (hq x hx)
  rw [hn, h2] at h1
  injection h1 with h1; rw [h1]

/-- the call forwarded to the wrapped function, when it does not raise: the wrapped function then
holds the values of the list handed to `updateDerivatives` -/
theorem forward_spec (f : List ℝ → ℝ) (fn : Fn ℝ) (e : Entry ℝ) (hown : Own fn) (hok : fn.OK f) (he : e.Nodup) :
    ∀ r, fn.forward f e = r → r.2.1 = none →
      Own r.1 ∧ r.1.OK f ∧ r.1.kind = fn.kind ∧
      ∃ pl, e.list r.1 = .ok pl ∧ Synced pl r.1.params ∧ (names pl).Nodup := by
  intro r hr hnone
  have hmatch : ∀ pl, (names pl).Nodup → ∀ r', fn.setParameters f pl = r' → r'.2 = none →
      Own r'.1 ∧ r'.1.OK f ∧ r'.1.kind = fn.kind ∧ Synced pl r'.1.params := by
    intro pl hpl r' hr' hn'
    rcases setParameters_cases f fn pl hown hpl with ⟨h, _⟩ | ⟨_, fired, h, hnf⟩
    · rw [h] at hr'; subst hr'; simp at hn'
    · rw [h] at hr'; subst hr'
      cases fired with
      | true =>
        simp only [if_true]
        exact ⟨own_updL hown pl, fire_OK f _, rfl, synced_updL pl _ hpl⟩
      | false =>
        simp only [Bool.false_eq_true, if_false]
        refine ⟨own_updL hown pl, ?_, rfl, synced_updL pl _ hpl⟩
        unfold Fn.OK; rw [withParams_params, hnf rfl]; exact hok
  cases e with
  | setParameters pl =>
    simp only [Fn.forward] at hr; subst hr
    obtain ⟨a, b, c, d⟩ := hmatch pl he _ rfl hnone
    exact ⟨a, b, c, pl, rfl, d, he⟩
  | f pl =>
    simp only [Fn.forward] at hr; subst hr
    obtain ⟨a, b, c, d⟩ := hmatch pl he _ rfl hnone
    exact ⟨a, b, c, pl, rfl, d, he⟩
  | matchPV pl =>
    simp only [Fn.forward] at hr; subst hr
    have : (fn.setParameters f pl) = ((fn.matchPV f pl).1, (fn.matchPV f pl).2.1) := rfl
    obtain ⟨a, b, c, d⟩ := hmatch pl he _ this hnone
    exact ⟨a, b, c, pl, rfl, d, he⟩
  | setVals pl =>
    simp only [Fn.forward, Fn.setParametersValues] at hr
    cases hv : anyViolation fn.params pl with
    | true => rw [hv] at hr; subst hr; simp at hnone
    | false =>
      rw [hv, setLoop_spec pl fn.params hown.1 hown.2 he hv] at hr
      simp only [Bool.false_eq_true, if_false] at hr
      subst hr
      exact ⟨own_updL hown pl, fire_OK f _, rfl, pl, rfl, synced_updL pl _ he, he⟩
  | setAll pl =>
    simp only [Fn.forward, Fn.setAllParametersValues] at hr
    cases hc : allCheck fn.params pl with
    | some x => rw [hc] at hr; subst hr; simp at hnone
    | none =>
      rw [hc, allSet_spec pl fn.params hown.2 hc] at hr
      simp only [] at hr
      subst hr
      exact ⟨own_updL hown pl, fire_OK f _, rfl, pl, rfl, synced_updL pl _ he, he⟩
  | setOne n v =>
    simp only [Fn.forward, Fn.setParameterValue] at hr
    cases hs : setValueOf fn.params n v with
    | error x => rw [hs] at hr; subst hr; simp at hnone
    | ok own' =>
      rw [hs] at hr
      simp only [] at hr
      subst hr
      obtain ⟨a, b, c⟩ := setValueOf_frame fn.params own' n v hs
      have hown' : Own (({ fn with params := own' } : Fn ℝ).fire f) := ⟨by simp only [fire_params]; rw [a]; exact hown.1, by simp only [fire_params]; exact b hown.2⟩
      obtain ⟨p, hp1, hp2⟩ := subNames_single own' n (by rw [a]; exact c)
      refine ⟨hown', fire_OK f _, rfl, [p], hp1, ?_, by simp [names]⟩
      apply synced_self _ hown'.1
      intro x hx; simp at hx; subst hx; exact hp2


theorem update_spec (f : List ℝ → ℝ) (w : W ℝ) (params : PList ℝ) (hown : Own w.fn) (hok : w.fn.OK f)
    (hsync : Synced params w.fn.params) (hpnd : (names params).Nodup) :
    ∀ r, w.update f params = r → r.2 = none →
      r.1.fn.params = w.fn.params ∧ r.1.fn.OK f ∧ Keep w r.1 ∧ r.1.value = f (values w.fn.params) := by
  intro r hr hnone
  unfold W.update at hr
  cases hs : w.scheme with
  | two =>
    rw [hs] at hr; simp only [] at hr
    obtain ⟨a, b, c, d⟩ := update2_spec f w params hown hok hsync hpnd r hr hnone
    refine ⟨a, b, c, ?_⟩
    unfold W.value; rw [c.scheme, hs]; exact d
  | three =>
    rw [hs] at hr; simp only [] at hr
    obtain ⟨a, b, c, d⟩ := update3_spec f w params hown hok hsync hpnd r hr hnone
    refine ⟨a, b, c, ?_⟩
    unfold W.value; rw [c.scheme, hs]; exact d
  | five =>
    rw [hs] at hr; simp only [] at hr
    obtain ⟨a, b, c, d⟩ := update5_spec f w params hown hok hsync hpnd r hr hnone
    refine ⟨a, b, c, ?_⟩
    unfold W.value; rw [c.scheme, hs]; exact d

/-- an entry point of the wrapper that returns normally -/
theorem call_spec (f : List ℝ → ℝ) (w : W ℝ) (e : Entry ℝ) (hown : Own w.fn) (hok : w.fn.OK f) (he : e.Nodup)
    (hret : (w.call f e).2.1 = none) :
    (w.fn.forward f e).2.1 = none ∧
    (w.call f e).1.fn.params = (w.fn.forward f e).1.params ∧
    (w.call f e).1.value = f (values (w.call f e).1.fn.params) ∧
    (w.call f e).1.fn.OK f ∧ Own (w.call f e).1.fn ∧ Keep w (w.call f e).1 := by
  unfold W.call at hret ⊢
  rcases hfw : w.fn.forward f e with ⟨fn1, x, b⟩
  rw [hfw] at hret
  cases x with
  | some x => simp at hret
  | none =>
    simp only [] at hret ⊢
    obtain ⟨o1, o2, o3, pl, hl, hsy, hnd⟩ := forward_spec f w.fn e hown hok he _ hfw rfl
    simp only [] at o1 o2 o3 hl hsy
    rw [hl] at hret ⊢
    simp only [] at hret ⊢
    obtain ⟨a, b', c, d⟩ := update_spec f ({ w with fn := fn1 } : W ℝ) pl o1 o2 hsy hnd _ rfl hret
    simp only [] at a b' d
    refine ⟨trivial, a, by rw [d, a], b', ?_, ?_⟩
    · unfold Own; rw [a]; exact o1
    · exact Keep.trans (⟨rfl, rfl, rfl, rfl, rfl, rfl, o3⟩ : Keep w { w with fn := fn1 }) c


theorem setValue_prec0 (p p' : Param ℝ) (v : ℝ) (hp : p.prec = 0) (h : p.setValue v = .ok p') :
    p' = { p with value := v } := by
  unfold Param.setValue at h
  split at h
  · split at h
    · cases h
    · injection h with h; exact h.symm
  · rename_i hc
    injection h with h; subst h
    have : v = p.value := by
      by_contra hne
      apply hc
      rw [ScalarReal.gtb_iff, hp]; simp; exact sub_ne_zero.mpr hne
    cases p; simp_all

theorem setValueOf_upd1 : ∀ (l l' : PList ℝ) (n : Name) (v : ℝ), (names l).Nodup → Z l →
    setValueOf l n v = .ok l' → l' = upd1 l n v := by
  intro l
  induction l with
  | nil => intro l' n v _ _ h; simp [setValueOf] at h
  | cons p r ih =>
    intro l' n v hnd hz h
    simp only [names, List.map_cons, List.nodup_cons] at hnd
    unfold setValueOf at h
    split at h
    · rename_i hn
      have hn' : p.name = n := by simpa using hn
      split at h
      · rename_i p' hp'
        injection h with h; subst h
        rw [setValue_prec0 p p' v (hz p (List.mem_cons_self ..)) hp']
        simp only [upd1, List.map_cons, hn', if_true]
        congr 1
        symm
        have : ∀ q ∈ r, q.name ≠ n := by
          intro q hq e; apply hnd.1; rw [hn', ← e]; exact List.mem_map_of_mem hq
        calc r.map (fun p => if p.name = n then { p with value := v } else p) = r.map id := by
              apply List.map_congr_left; intro q hq; simp [this q hq]
          _ = r := List.map_id r
      · cases h
    · rename_i hn
      have hn' : p.name ≠ n := by simpa using hn
      split at h
      · rename_i r' hr'
        injection h with h; subst h
        rw [ih r' n v hnd.2 (fun y hy => hz y (List.mem_cons_of_mem _ hy)) hr']
        simp only [upd1, List.map_cons, hn', if_false]
      · cases h

/-- the parameter vector an entry point asks for -/
def Entry.apply (own : PList ℝ) : Entry ℝ → PList ℝ
  | .setParameters pl | .f pl | .setAll pl | .setVals pl | .matchPV pl => updL pl own
  | .setOne n v => upd1 own n v

theorem forward_params (f : List ℝ → ℝ) (fn : Fn ℝ) (e : Entry ℝ) (hown : Own fn) (he : e.Nodup)
    (hnone : (fn.forward f e).2.1 = none) : (fn.forward f e).1.params = e.apply fn.params := by
  have hmatch : ∀ pl, (names pl).Nodup → (fn.setParameters f pl).2 = none →
      (fn.setParameters f pl).1.params = updL pl fn.params := by
    intro pl hpl hn'
    rcases setParameters_cases f fn pl hown hpl with ⟨h, _⟩ | ⟨_, fired, h, _⟩
    · rw [h] at hn'; simp at hn'
    · rw [h]; cases fired <;> simp
  cases e with
  | setParameters pl => exact hmatch pl he hnone
  | f pl => exact hmatch pl he hnone
  | matchPV pl => exact hmatch pl he hnone
  | setVals pl =>
    simp only [Fn.forward, Fn.setParametersValues] at hnone ⊢
    cases hv : anyViolation fn.params pl with
    | true => rw [hv] at hnone; simp at hnone
    | false =>
      rw [setLoop_spec pl fn.params hown.1 hown.2 he hv]
      simp [Entry.apply]
  | setAll pl =>
    simp only [Fn.forward, Fn.setAllParametersValues] at hnone ⊢
    cases hc : allCheck fn.params pl with
    | some x => rw [hc] at hnone; simp at hnone
    | none =>
      rw [allSet_spec pl fn.params hown.2 hc]
      simp [Entry.apply]
  | setOne n v =>
    simp only [Fn.forward, Fn.setParameterValue] at hnone ⊢
    cases hs : setValueOf fn.params n v with
    | error x => rw [hs] at hnone; simp at hnone
    | ok own' =>
      simp only [fire_params, Entry.apply]
      exact setValueOf_upd1 fn.params own' n v hown.1 hown.2 hs

/-- when the forwarded call raises, nothing has happened -/
theorem forward_raise (f : List ℝ → ℝ) (fn : Fn ℝ) (e : Entry ℝ) (hown : Own fn) (he : e.Nodup)
    (hsome : (fn.forward f e).2.1 ≠ none) : (fn.forward f e).1 = fn := by
  cases e with
  | setParameters pl | f pl | matchPV pl =>
    simp only [Fn.forward, Fn.setParameters] at hsome ⊢
    unfold Fn.matchPV at hsome ⊢
    cases hv : anyViolation fn.params pl with
    | true => simp
    | false =>
      obtain ⟨ch, h1, _⟩ := matchLoop_spec pl fn.params false hown.1 hown.2 he hv
      rw [hv, h1] at hsome
      cases ch <;> simp at hsome
  | setVals pl =>
    simp only [Fn.forward, Fn.setParametersValues] at hsome ⊢
    cases hv : anyViolation fn.params pl with
    | true => simp
    | false =>
      rw [hv, setLoop_spec pl fn.params hown.1 hown.2 he hv] at hsome
      simp at hsome
  | setAll pl =>
    simp only [Fn.forward, Fn.setAllParametersValues] at hsome ⊢
    cases hc : allCheck fn.params pl with
    | some x => simp
    | none =>
      rw [hc, allSet_spec pl fn.params hown.2 hc] at hsome
      simp at hsome
  | setOne n v =>
    simp only [Fn.forward, Fn.setParameterValue] at hsome ⊢
    cases hs : setValueOf fn.params n v with
    | error x => simp
    | ok own' => rw [hs] at hsome; simp at hsome

end Bpp.NumDeriv
