import BppModel.NumDeriv
import BppProofs.Lemmas.ScalarReal
import Mathlib.Tactic.FieldSimp
import Mathlib.Tactic.Ring
import Mathlib.Tactic.Linarith
/-!
Helper lemmas for C12 (numerical derivatives): the model of `BppModel/NumDeriv.lean` read at `ℝ`.
-/
namespace Bpp.NumDeriv
open Bpp Bpp.Scalar

/-! ### the difference formulas at ℝ -/
section Formulas
theorem d1Two_real (f1 f2 h : ℝ) : d1Two f1 f2 h = (f2 - f1) / h := rfl
theorem d1Three_real (f1 f3 hf1 hf3 : ℝ) : d1Three f1 f3 hf1 hf3 = (f1 - f3) / (hf1 - hf3) := rfl
theorem d2Three_real (f1 f2 f3 hf1 hf3 : ℝ) :
    d2Three f1 f2 f3 hf1 hf3 = ((f1 - f2) / hf1 - (f3 - f2) / hf3) * 2 / (hf1 - hf3) := by
  simp [d2Three]
theorem crossThree_real (f11 f12 f21 f22 h1 h2 : ℝ) :
    crossThree f11 f12 f21 f22 h1 h2 = ((f22 - f21) - (f12 - f11)) / (4 * h1 * h2) := by
  simp [crossThree]
theorem d1Five_real (f1 f2 f4 f5 h : ℝ) : d1Five f1 f2 f4 f5 h = (f1 - 8 * f2 + 8 * f4 - f5) / (12 * h) := by
  simp [d1Five]
theorem d2Five_real (f1 f2 f3 f4 f5 h : ℝ) :
    d2Five f1 f2 f3 f4 f5 h = (-f1 + 16 * f2 - 30 * f3 + 16 * f4 - f5) / (12 * h * h) := by
  simp [d2Five]
theorem d1Side_real (fa fb h : ℝ) : d1Side fa fb h = (fa - fb) / h := rfl
theorem d2Side_real (fa fb fc h : ℝ) : d2Side fa fb fc h = (fa - 2 * fb + fc) / (h * h) := by
  simp [d2Side]
end Formulas


/-! ### parameters and parameter lists -/
section Lists
variable {α : Type}

def names (l : PList α) : List Name := l.map (·.name)

/-- same name, precision and constraint -/
def SameSkel (p q : Param α) : Prop := p.name = q.name ∧ p.prec = q.prec ∧ p.con = q.con

theorem SameSkel.rfl' (p : Param α) : SameSkel p p := ⟨rfl, rfl, rfl⟩

theorem has_iff (l : PList α) (n : Name) : has l n = true ↔ n ∈ names l := by
  simp [has, names, List.any_eq_true]

theorem find?_some {l : PList α} {n : Name} {p : Param α} (h : find? l n = some p) : p ∈ l ∧ p.name = n := by
  unfold find? at h
  have h1 := List.find?_some h
  have h2 := List.mem_of_find?_eq_some h
  simp at h1
  exact ⟨h2, h1⟩

theorem find?_none {l : PList α} {n : Name} (h : find? l n = none) : n ∉ names l := by
  unfold find? at h
  rw [List.find?_eq_none] at h
  intro hm
  simp [names] at hm
  obtain ⟨p, hp, hn⟩ := hm
  have := h p hp
  simp [hn] at this

theorem find?_isSome_iff (l : PList α) (n : Name) : (find? l n).isSome = true ↔ n ∈ names l := by
  constructor
  · intro h
    obtain ⟨p, hp⟩ := Option.isSome_iff_exists.mp h
    have := find?_some hp
    simp [names]; exact ⟨p, this.1, this.2⟩
  · intro h
    cases hf : find? l n with
    | none => exact absurd h (find?_none hf)
    | some p => rfl

/-- in a list without duplicate names, `find?` returns the element itself -/
theorem find?_of_mem {l : PList α} (hnd : (names l).Nodup) {p : Param α} (hp : p ∈ l) : find? l p.name = some p := by
  induction l with
  | nil => cases hp
  | cons a r ih =>
    simp only [names, List.map_cons, List.nodup_cons] at hnd
    unfold find?
    rw [List.find?_cons]
    rcases List.mem_cons.mp hp with rfl | hpr
    · simp
    · have : a.name ≠ p.name := by
        intro e; apply hnd.1; rw [e]; exact List.mem_map_of_mem hpr
      have hb : (a.name == p.name) = false := by simpa using this
      rw [hb]
      exact ih hnd.2 hpr

end Lists


/-! ### `Parameter::setValue` and the list setters over ℝ, precision 0 -/
section RealLists
open ScalarReal

/-- every parameter has precision 0 -/
def Z (l : PList ℝ) : Prop := ∀ p ∈ l, p.prec = 0

theorem setValue_ok (p : Param ℝ) (v : ℝ) (hp : p.prec = 0) (hv : p.violates v = false) :
    p.setValue v = .ok { p with value := v } := by
  unfold Param.setValue
  by_cases h : v = p.value
  · have : ¬ (Scalar.gtb (Scalar.abs (v - p.value)) (p.prec / Scalar.ofInt 2) = true) := by
      rw [gtb_iff, hp, h]; simp
    rw [if_neg this, h]
  · have : Scalar.gtb (Scalar.abs (v - p.value)) (p.prec / Scalar.ofInt 2) = true := by
      rw [gtb_iff, hp]; simp; exact sub_ne_zero.mpr h
    rw [if_pos this, hv]; rfl

theorem setValue_name (p p' : Param ℝ) (v : ℝ) (h : p.setValue v = .ok p') :
    p'.name = p.name ∧ p'.prec = p.prec ∧ p'.con = p.con ∧ (p'.value = v ∨ p' = p) := by
  unfold Param.setValue at h
  split at h
  · split at h
    · cases h
    · injection h with h; subst h; simp
  · injection h with h; subst h; simp

theorem setValue_error (p : Param ℝ) (v : ℝ) (e : Exc) (h : p.setValue v = .error e) :
    e = .constraint ∧ p.violates v = true := by
  unfold Param.setValue at h
  split at h
  · split at h
    · rename_i hv; injection h with h; exact ⟨h.symm, hv⟩
    · cases h
  · cases h

/-- set the value of the parameter(s) named `n` -/
def upd1 (l : PList ℝ) (n : Name) (v : ℝ) : PList ℝ :=
  l.map (fun p => if p.name = n then { p with value := v } else p)

/-- take over the values of `pl` (first occurrence of each name) -/
def updL (pl l : PList ℝ) : PList ℝ :=
  l.map (fun p => match find? pl p.name with
    | some q => { p with value := q.value }
    | none => p)

theorem names_upd1 (l : PList ℝ) (n : Name) (v : ℝ) : names (upd1 l n v) = names l := by
  simp only [names, upd1, List.map_map]
  apply List.map_congr_left
  intro p _; simp only [Function.comp]; split <;> rfl

theorem names_updL (pl l : PList ℝ) : names (updL pl l) = names l := by
  simp only [names, updL, List.map_map]
  apply List.map_congr_left
  intro p _; simp only [Function.comp]; split <;> rfl

theorem Z_upd1 {l : PList ℝ} (h : Z l) (n : Name) (v : ℝ) : Z (upd1 l n v) := by
  intro p hp
  simp only [upd1, List.mem_map] at hp
  obtain ⟨q, hq, rfl⟩ := hp
  split <;> simp [h q hq]

theorem Z_updL {l : PList ℝ} (h : Z l) (pl : PList ℝ) : Z (updL pl l) := by
  intro p hp
  simp only [updL, List.mem_map] at hp
  obtain ⟨q, hq, rfl⟩ := hp
  split <;> simp [h q hq]

/-- `find?` through a map that keeps names -/
theorem find?_map (l : PList ℝ) (g : Param ℝ → Param ℝ) (hg : ∀ p, (g p).name = p.name) (n : Name) :
    find? (l.map g) n = (find? l n).map g := by
  induction l with
  | nil => rfl
  | cons a r ih =>
    unfold find? at ih ⊢
    rw [List.map_cons, List.find?_cons, List.find?_cons, hg a]
    split
    · rfl
    · exact ih

theorem setValueOf_spec (l : PList ℝ) (hnd : (names l).Nodup) (n : Name) (v : ℝ) (p : Param ℝ)
    (hf : find? l n = some p) (hp : p.prec = 0) (hv : p.violates v = false) :
    setValueOf l n v = .ok (upd1 l n v) := by
  induction l with
  | nil => simp [find?] at hf
  | cons a r ih =>
    simp only [names, List.map_cons, List.nodup_cons] at hnd
    unfold setValueOf
    unfold find? at hf
    rw [List.find?_cons] at hf
    by_cases ha : a.name = n
    · have hb : (a.name == n) = true := by simpa using ha
      rw [hb] at hf
      injection hf with hf; subst hf
      simp only [hb, if_true]
      rw [setValue_ok a v hp hv]
      simp only [upd1, List.map_cons, ha, if_true]
      congr 1
      -- the tail has no parameter named n
      have : ∀ q ∈ r, q.name ≠ n := by
        intro q hq e; apply hnd.1; rw [ha, ← e]; exact List.mem_map_of_mem hq
      congr 1
      symm
      calc r.map (fun p => if p.name = n then { p with value := v } else p) = r.map id := by
            apply List.map_congr_left; intro q hq; simp [this q hq]
        _ = r := List.map_id r
    · have hb : (a.name == n) = false := by simpa using ha
      rw [hb] at hf
      simp only [hb]
      have := ih hnd.2 hf
      simp only [Bool.false_eq_true, if_false, this, upd1, List.map_cons, ha]

theorem anyViolation_map (own pl : PList ℝ) (g : Param ℝ → Param ℝ)
    (hg : ∀ p, (g p).name = p.name ∧ (g p).con = p.con) :
    anyViolation (own.map g) pl = anyViolation own pl := by
  unfold anyViolation
  congr 1
  funext q
  rw [find?_map own g (fun p => (hg p).1)]
  cases find? own q.name with
  | none => rfl
  | some p => simp [Param.violates, (hg p).2]

theorem upd1_hg (n : Name) (v : ℝ) (p : Param ℝ) :
    ((fun p : Param ℝ => if p.name = n then { p with value := v } else p) p).name = p.name ∧
    ((fun p : Param ℝ => if p.name = n then { p with value := v } else p) p).con = p.con := by
  simp only; split <;> simp

theorem updL_cons_not_mem (q : Param ℝ) (qs l : PList ℝ) (h : q.name ∉ names l) :
    updL (q :: qs) l = updL qs l := by
  unfold updL
  apply List.map_congr_left
  intro p hp
  have : q.name ≠ p.name := by
    intro e; apply h; rw [e]; exact List.mem_map_of_mem hp
  have hb : (q.name == p.name) = false := by simpa using this
  simp only [find?, List.find?_cons, hb]

theorem updL_cons_mem (q : Param ℝ) (qs l : PList ℝ) (h : q.name ∉ names qs) :
    updL (q :: qs) l = updL qs (upd1 l q.name q.value) := by
  unfold updL upd1
  rw [List.map_map]
  apply List.map_congr_left
  intro p _
  simp only [Function.comp]
  by_cases e : p.name = q.name
  · have hb : (q.name == p.name) = true := by simpa using e.symm
    have hn : find? qs q.name = none := by
      cases hf : find? qs q.name with
      | none => rfl
      | some x => exact absurd ((find?_isSome_iff qs q.name).mp (by rw [hf]; rfl)) h
    simp only [find?, List.find?_cons, e, if_true]
    have hn' : List.find? (fun p => p.name == q.name) qs = none := hn
    rw [hn']
    simp
  · have hb : (q.name == p.name) = false := by
      have : q.name ≠ p.name := fun x => e x.symm
      simpa using this
    simp only [find?, List.find?_cons, hb, e, if_false]

theorem updL_nil (l : PList ℝ) : updL [] l = l := by
  unfold updL
  conv_rhs => rw [← List.map_id l]
  apply List.map_congr_left
  intro p _; simp [find?]

theorem upd1_same (l : PList ℝ) (n : Name) (v : ℝ) (h : ∀ p ∈ l, p.name = n → p.value = v) : upd1 l n v = l := by
  unfold upd1
  conv_rhs => rw [← List.map_id l]
  apply List.map_congr_left
  intro p hp
  by_cases e : p.name = n
  · simp only [e, if_true, id]
    have := h p hp e
    cases p; simp_all
  · simp [e]


theorem neb_true_iff (x y : ℝ) : neb x y = true ↔ x ≠ y := by
  simp [neb, Scalar.eqb]
theorem neb_false_iff (x y : ℝ) : neb x y = false ↔ x = y := by
  simp [neb, Scalar.eqb]

theorem anyViolation_cons (own : PList ℝ) (q : Param ℝ) (qs : PList ℝ) :
    anyViolation own (q :: qs) = ((match find? own q.name with
      | some p => p.violates q.value
      | none => false) || anyViolation own qs) := by
  unfold anyViolation; rw [List.any_cons]
  cases find? own q.name <;> rfl

/-- second loop of `matchParametersValues` when the first loop found no violation -/
theorem matchLoop_spec (pl : PList ℝ) : ∀ (own : PList ℝ) (ch0 : Bool), (names own).Nodup → Z own →
    (names pl).Nodup → anyViolation own pl = false →
    ∃ ch, matchLoop own pl ch0 = .ok (updL pl own, ch) ∧
      (ch = false → ch0 = false ∧ updL pl own = own) ∧ (ch0 = true → ch = true) := by
  induction pl with
  | nil =>
    intro own ch0 _ _ _ _
    refine ⟨ch0, ?_, ?_, ?_⟩
    · simp [matchLoop, updL_nil]
    · intro h; exact ⟨h, updL_nil own⟩
    · exact id
  | cons q qs ih =>
    intro own ch0 hnd hz hpl hv
    rw [anyViolation_cons, Bool.or_eq_false_iff] at hv
    have hqs : (names qs).Nodup := by
      simp only [names, List.map_cons, List.nodup_cons] at hpl; exact hpl.2
    have hqn : q.name ∉ names qs := by
      simp only [names, List.map_cons, List.nodup_cons] at hpl; exact hpl.1
    unfold matchLoop
    cases hf : find? own q.name with
    | none =>
      simp only []
      rw [updL_cons_not_mem q qs own (find?_none hf)]
      exact ih own ch0 hnd hz hqs hv.2
    | some p =>
      simp only []
      have hpm := find?_some hf
      have hviol : p.violates q.value = false := by
        have := hv.1; rw [hf] at this; exact this
      by_cases hne : neb p.value q.value = true
      · rw [if_pos hne, setValueOf_spec own hnd q.name q.value p hf (hz p hpm.1) hviol]
        simp only []
        rw [updL_cons_mem q qs own hqn]
        have hv' : anyViolation (upd1 own q.name q.value) qs = false := by
          unfold upd1; rw [anyViolation_map own qs _ (upd1_hg q.name q.value)]; exact hv.2
        obtain ⟨ch, h1, _, h3⟩ := ih (upd1 own q.name q.value) true
          (by rw [names_upd1]; exact hnd) (Z_upd1 hz _ _) hqs hv'
        refine ⟨ch, h1, ?_, fun _ => h3 rfl⟩
        intro hch; rw [h3 rfl] at hch; cases hch
      · have heq : p.value = q.value := by
          rw [Bool.not_eq_true] at hne; exact (neb_false_iff _ _).mp hne
        rw [if_neg hne, updL_cons_mem q qs own hqn]
        have hsame : upd1 own q.name q.value = own := by
          apply upd1_same
          intro p' hp' hn'
          have h1 := find?_of_mem hnd hp'
          rw [hn', hf] at h1
          injection h1 with h1; rw [← h1]; exact heq
        rw [hsame]
        exact ih own ch0 hnd hz hqs hv.2


/-! ### the wrapped function's `setParameters` -/

/-- the wrapped function with its parameter list replaced -/
def Fn.withParams (fn : Fn ℝ) (l : PList ℝ) : Fn ℝ := { fn with params := l }

/-- the cached value is the value at the current point -/
def Fn.OK (f : List ℝ → ℝ) (fn : Fn ℝ) : Prop := fn.fval = f (values fn.params)

/-- well-formed own list: no duplicate name, no precision -/
def Own (fn : Fn ℝ) : Prop := (names fn.params).Nodup ∧ Z fn.params

theorem setParameters_viol (f : List ℝ → ℝ) (fn : Fn ℝ) (pl : PList ℝ) (h : anyViolation fn.params pl = true) :
    fn.setParameters f pl = (fn, some .constraint) := by
  simp [Fn.setParameters, Fn.matchPV, h]

/-- without violation: the values of `pl` are taken over; `f` is evaluated iff a value changed -/
theorem setParameters_eq (f : List ℝ → ℝ) (fn : Fn ℝ) (pl : PList ℝ) (ho : Own fn) (hpl : (names pl).Nodup)
    (h : anyViolation fn.params pl = false) :
    ∃ fired : Bool, fn.setParameters f pl =
        ((if fired then (fn.withParams (updL pl fn.params)).fire f else fn.withParams (updL pl fn.params)), none) ∧
      (fired = false → updL pl fn.params = fn.params) := by
  obtain ⟨ch, h1, h2, _⟩ := matchLoop_spec pl fn.params false ho.1 ho.2 hpl h
  refine ⟨ch, ?_, fun hc => (h2 hc).2⟩
  simp only [Fn.setParameters, Fn.matchPV, h, h1, Bool.false_eq_true, if_false, Fn.withParams]
  cases ch <;> simp

theorem setParameters_cases (f : List ℝ → ℝ) (fn : Fn ℝ) (pl : PList ℝ) (ho : Own fn) (hpl : (names pl).Nodup) :
    (fn.setParameters f pl = (fn, some .constraint) ∧ anyViolation fn.params pl = true) ∨
    (anyViolation fn.params pl = false ∧ ∃ fired : Bool, fn.setParameters f pl =
        ((if fired then (fn.withParams (updL pl fn.params)).fire f else fn.withParams (updL pl fn.params)), none) ∧
      (fired = false → updL pl fn.params = fn.params)) := by
  cases h : anyViolation fn.params pl with
  | true => exact Or.inl ⟨setParameters_viol f fn pl h, rfl⟩
  | false => exact Or.inr ⟨rfl, setParameters_eq f fn pl ho hpl h⟩


/-! ### deviation from a base point -/

/-- `l` is the list `B` up to the values of the parameters whose name is in `S` -/
def Dev (B l : PList ℝ) (S : Name → Prop) : Prop :=
  List.Forall₂ (fun p b => SameSkel p b ∧ (¬ S b.name → p.value = b.value)) l B

theorem Dev.refl (B : PList ℝ) (S : Name → Prop) : Dev B B S := by
  unfold Dev
  induction B with
  | nil => exact List.Forall₂.nil
  | cons a r ih => exact List.Forall₂.cons ⟨SameSkel.rfl' a, fun _ => rfl⟩ ih

theorem Dev.mono {B l : PList ℝ} {S S' : Name → Prop} (h : Dev B l S) (hs : ∀ n, S n → S' n) : Dev B l S' := by
  unfold Dev at *
  exact h.imp (fun p b hb => ⟨hb.1, fun hn => hb.2 (fun hS => hn (hs _ hS))⟩)

theorem Dev.eq {B l : PList ℝ} (h : Dev B l (fun _ => False)) : l = B := by
  unfold Dev at h
  induction h with
  | nil => rfl
  | @cons a b l' B' hab _ ih =>
    obtain ⟨⟨h1, h2, h3⟩, h4⟩ := hab
    have h5 := h4 (fun x => x)
    rw [ih]
    cases a; cases b; simp only [Param.mk.injEq, List.cons.injEq, and_true] at *
    exact ⟨h1, h5, h2, h3⟩

theorem Dev.names {B l : PList ℝ} {S : Name → Prop} (h : Dev B l S) : names l = names B := by
  unfold Dev at h
  induction h with
  | nil => rfl
  | @cons a b l' B' hab _ ih =>
    show (a :: l').map (·.name) = (b :: B').map (·.name)
    rw [List.map_cons, List.map_cons, hab.1.1]
    exact congrArg _ ih

theorem Dev.Z {B l : PList ℝ} {S : Name → Prop} (h : Dev B l S) (hz : Z B) : Z l := by
  unfold Dev at h
  induction h with
  | nil => intro p hp; cases hp
  | @cons a b l' B' hab _ ih =>
    intro p hp
    rcases List.mem_cons.mp hp with rfl | hp'
    · rw [hab.1.2.1]; exact hz b (List.mem_cons_self ..)
    · exact ih (fun q hq => hz q (List.mem_cons_of_mem _ hq)) p hp'

theorem forall₂_map_left {R R' : Param ℝ → Param ℝ → Prop} (g : Param ℝ → Param ℝ) {l B : PList ℝ}
    (h : List.Forall₂ R l B) (hg : ∀ p b, b ∈ B → R p b → R' (g p) b) : List.Forall₂ R' (l.map g) B := by
  induction h with
  | nil => exact List.Forall₂.nil
  | @cons a b l' B' hab _ ih =>
    exact List.Forall₂.cons (hg a b (List.mem_cons_self ..) hab)
      (ih (fun p b' hb' => hg p b' (List.mem_cons_of_mem _ hb')))

/-- taking over the values of `pl`: a name stays (or becomes) clean when `pl` carries the base
value for it, or does not mention it and it was clean -/
theorem dev_updL {B l : PList ℝ} {S S' : Name → Prop} (pl : PList ℝ) (h : Dev B l S)
    (hS : ∀ b ∈ B, ¬ S' b.name → match find? pl b.name with
      | some q => q.value = b.value
      | none => ¬ S b.name) : Dev B (updL pl l) S' := by
  unfold Dev updL at *
  apply forall₂_map_left _ h
  intro p b hb hpb
  obtain ⟨⟨h1, h2, h3⟩, h4⟩ := hpb
  rw [h1]
  cases hf : find? pl b.name with
  | none =>
    refine ⟨⟨h1, h2, h3⟩, fun hn => ?_⟩
    have := hS b hb hn; rw [hf] at this
    exact h4 this
  | some q =>
    refine ⟨⟨rfl, h2, h3⟩, fun hn => ?_⟩
    have := hS b hb hn; rw [hf] at this
    exact this

/-- the values the caller passes are those of the base point -/
def Synced (params B : PList ℝ) : Prop := ∀ q ∈ params, ∀ b ∈ B, b.name = q.name → b.value = q.value


/-! ### probing keeps the wrapped function near the base point -/

/-- what is fixed during one `updateDerivatives`: the base point `B` (the wrapped function's list
when the loops start; no duplicate name, no precision) and the list `params` the caller passed,
whose values are those of `B` -/
structure Ctx (params B : PList ℝ) : Prop where
  bnd : (names B).Nodup
  bz : Z B
  sync : Synced params B

theorem Ctx.own {params B : PList ℝ} (hc : Ctx params B) {fn : Fn ℝ} {S : Name → Prop}
    (hD : Dev B fn.params S) : Own fn :=
  ⟨by rw [hD.names]; exact hc.bnd, hD.Z hc.bz⟩

@[simp] theorem fire_params (f : List ℝ → ℝ) (fn : Fn ℝ) : (fn.fire f).params = fn.params := rfl
@[simp] theorem fire_kind (f : List ℝ → ℝ) (fn : Fn ℝ) : (fn.fire f).kind = fn.kind := rfl
@[simp] theorem fire_en1 (f : List ℝ → ℝ) (fn : Fn ℝ) : (fn.fire f).en1 = fn.en1 := rfl
@[simp] theorem fire_en2 (f : List ℝ → ℝ) (fn : Fn ℝ) : (fn.fire f).en2 = fn.en2 := rfl
theorem fire_OK (f : List ℝ → ℝ) (fn : Fn ℝ) : (fn.fire f).OK f := rfl
@[simp] theorem withParams_params (fn : Fn ℝ) (l : PList ℝ) : (fn.withParams l).params = l := rfl
@[simp] theorem withParams_kind (fn : Fn ℝ) (l : PList ℝ) : (fn.withParams l).kind = fn.kind := rfl
@[simp] theorem withParams_en1 (fn : Fn ℝ) (l : PList ℝ) : (fn.withParams l).en1 = fn.en1 := rfl
@[simp] theorem withParams_en2 (fn : Fn ℝ) (l : PList ℝ) : (fn.withParams l).en2 = fn.en2 := rfl
theorem withParams_self (fn : Fn ℝ) : fn.withParams fn.params = fn := rfl

/-- everything the proofs need to know about one `function_->setParameters(pl)` -/
theorem setParameters_dev (f : List ℝ → ℝ) {params B : PList ℝ} (hc : Ctx params B) (fn : Fn ℝ) (pl : PList ℝ)
    (hpl : (names pl).Nodup) {S : Name → Prop} (S' : Name → Prop) (hD : Dev B fn.params S) (hok : fn.OK f)
    (hS : ∀ b ∈ B, ¬ S' b.name → match find? pl b.name with
      | some q => q.value = b.value
      | none => ¬ S b.name) :
    ((fn.setParameters f pl).2 = none → Dev B (fn.setParameters f pl).1.params S') ∧
    ((fn.setParameters f pl).2 ≠ none → (fn.setParameters f pl).1 = fn) ∧
    (fn.setParameters f pl).1.OK f ∧ (fn.setParameters f pl).1.kind = fn.kind ∧
    (fn.setParameters f pl).1.en1 = fn.en1 ∧ (fn.setParameters f pl).1.en2 = fn.en2 := by
  rcases setParameters_cases f fn pl (hc.own hD) hpl with ⟨h, _⟩ | ⟨_, fired, h, hnf⟩
  · rw [h]; simp [hok]
  · rw [h]
    have hd : Dev B (updL pl fn.params) S' := dev_updL pl hD hS
    cases fired with
    | true => simp [hd, fire_OK]
    | false =>
      have := hnf rfl
      simp only [Bool.false_eq_true, if_false, withParams_params, withParams_kind, withParams_en1, withParams_en2]
      refine ⟨fun _ => hd, fun h => absurd rfl h, ?_, trivial, trivial, trivial⟩
      unfold Fn.OK; rw [withParams_params, this]; exact hok


/-- invariant of the retry loops of variable `var`: `p` is `{var}` or `{var, previous variable}`
(the second one with its base value), and the wrapped function is at the base point up to `var`
and the variables still in `p` -/
def RI (f : List ℝ → ℝ) (params B : PList ℝ) (var : Name) (fn : Fn ℝ) (p : PList ℝ) : Prop :=
  fn.OK f ∧ ∃ q0 rest, p = q0 :: rest ∧ q0.name = var ∧ (names p).Nodup ∧ (∀ q ∈ rest, q ∈ params) ∧
    rest.length ≤ 1 ∧ Dev B fn.params (fun n => n = var ∨ n ∈ names rest)

theorem names_cons (q : Param ℝ) (l : PList ℝ) : names (q :: l) = q.name :: names l := rfl

theorem find?_cons_ne (q : Param ℝ) (l : PList ℝ) (n : Name) (h : q.name ≠ n) : find? (q :: l) n = find? l n := by
  have hb : (q.name == n) = false := by simpa using h
  simp only [find?, List.find?_cons, hb]

theorem find?_cons_eq (q : Param ℝ) (l : PList ℝ) (n : Name) (h : q.name = n) : find? (q :: l) n = some q := by
  have hb : (q.name == n) = true := by simpa using h
  simp only [find?, List.find?_cons, hb]

/-- the side condition of `setParameters_dev` for a list `q0 :: rest` whose tail carries base values -/
theorem restore_cond {params B : PList ℝ} (hc : Ctx params B) (var : Name) (q0 : Param ℝ) (rest : PList ℝ)
    (hq0 : q0.name = var) (hrest : ∀ q ∈ rest, q ∈ params) (T : Name → Prop) :
    ∀ b ∈ B, ¬ (b.name = var ∨ T b.name) → match find? (q0 :: rest) b.name with
      | some q => q.value = b.value
      | none => ¬ (b.name = var ∨ b.name ∈ names rest ∨ T b.name) := by
  intro b hb hn
  have hne : q0.name ≠ b.name := by rw [hq0]; exact fun e => hn (Or.inl e.symm)
  rw [find?_cons_ne q0 rest b.name hne]
  cases hf : find? rest b.name with
  | none =>
    simp only []
    rintro (h | h | h)
    · exact hn (Or.inl h)
    · exact find?_none hf h
    · exact hn (Or.inr h)
  | some q =>
    simp only []
    have := find?_some hf
    exact (hc.sync q (hrest q this.1) b hb this.2.symm).symm

theorem attempt_RI (f : List ℝ → ℝ) {params B : PList ℝ} (hc : Ctx params B) {var : Name} {fn : Fn ℝ} {p : PList ℝ}
    (h : RI f params B var fn p) (x : ℝ) :
    RI f params B var (attempt f fn p x).fn (attempt f fn p x).p ∧
    ((attempt f fn p x).ok = true → ∃ q, (attempt f fn p x).p = [q]) ∧
    (attempt f fn p x).p.length ≤ p.length ∧
    (attempt f fn p x).fn.kind = fn.kind ∧ (attempt f fn p x).fn.en1 = fn.en1 ∧ (attempt f fn p x).fn.en2 = fn.en2 := by
  obtain ⟨hok, q0, rest, rfl, hq0, hnd, hrest, hlen, hD⟩ := h
  unfold attempt
  simp only []
  cases hsv : q0.setValue x with
  | error e =>
    simp only []
    exact ⟨⟨hok, q0, rest, rfl, hq0, hnd, hrest, hlen, hD⟩, by simp, by simp, by simp, by simp, by simp⟩
  | ok q0' =>
    simp only []
    obtain ⟨hn', _, _, _⟩ := setValue_name q0 q0' x hsv
    have hq0' : q0'.name = var := by rw [hn', hq0]
    have hnd' : (names (q0' :: rest)).Nodup := by
      rw [names_cons, hn']; rw [names_cons] at hnd; exact hnd
    have hcond := restore_cond hc var q0' rest hq0' hrest (fun _ => False)
    have hsp := setParameters_dev f hc fn (q0' :: rest) hnd' (fun n => n = var ∨ n ∈ names ([] : PList ℝ)) hD hok
      (by
        intro b hb hn
        have hn2 : ¬ (b.name = var ∨ False) := by
          intro h; apply hn; rcases h with h | h
          · exact Or.inl h
          · exact h.elim
        have := hcond b hb hn2
        cases hf : find? (q0' :: rest) b.name with
        | none => rw [hf] at this; simp only [] at this ⊢; intro h; apply this; rcases h with h | h
                  · exact Or.inl h
                  · exact Or.inr (Or.inl h)
        | some q => rw [hf] at this; exact this)
    rcases hr : fn.setParameters f (q0' :: rest) with ⟨fn', e⟩
    rw [hr] at hsp
    obtain ⟨h1, h2, h3, h4, h5, h6⟩ := hsp
    cases e with
    | some e =>
      simp only []
      have : fn' = fn := h2 (by simp)
      subst this
      exact ⟨⟨hok, q0', rest, rfl, hq0', hnd', hrest, hlen, hD⟩, by simp, by simp, by simp, by simp, by simp⟩
    | none =>
      simp only []
      have hD' := h1 rfl
      have hri : RI f params B var fn' [q0'] :=
        ⟨h3, q0', [], rfl, hq0', by simp [names], by simp, by simp, hD'⟩
      split
      · exact ⟨hri, by simp, by simp, h4, h5, h6⟩
      · exact ⟨hri, by simp, by simp, h4, h5, h6⟩


theorem RI.dev_of_single {f : List ℝ → ℝ} {params B : PList ℝ} {var : Name} {fn : Fn ℝ} {p : PList ℝ}
    (h : RI f params B var fn p) (hl : p.length ≤ 1) : Dev B fn.params (fun m => m = var) := by
  obtain ⟨_, q0, rest, rfl, _, _, _, _, hD⟩ := h
  have : rest = [] := by
    cases rest with
    | nil => rfl
    | cons a r => simp at hl
  subst this
  exact hD.mono (fun n hn => by rcases hn with h | h; exact h; simp [names] at h)

/-- the retry loops: unless the reset of the give-up branch throws, the wrapped function ends at the
base point up to `var` (with the fix: also when all ten tries failed) -/
theorem retry_RI (f : List ℝ → ℝ) {params B : PList ℝ} (hc : Ctx params B) {var : Name} (rp : Bool) (value : ℝ) :
    ∀ (n : Nat) (fn : Fn ℝ) (p : PList ℝ) (h : ℝ) (fv : Option ℝ), RI f params B var fn p →
      (rp = true ∨ p.length = 1) → (retry f rp (n + 1) fn p value h fv).exc = none →
      (retry f rp (n + 1) fn p value h fv).fn.OK f ∧
      Dev B (retry f rp (n + 1) fn p value h fv).fn.params (fun m => m = var) ∧
      ((retry f rp (n + 1) fn p value h fv).hf ≠ none → ∃ q, (retry f rp (n + 1) fn p value h fv).p = [q] ∧ q.name = var) ∧
      (retry f rp (n + 1) fn p value h fv).fn.kind = fn.kind ∧
      (retry f rp (n + 1) fn p value h fv).fn.en1 = fn.en1 ∧ (retry f rp (n + 1) fn p value h fv).fn.en2 = fn.en2 := by
  intro n
  induction n with
  | zero =>
    intro fn p h fv hri hrp
    obtain ⟨hri', hok', hlen', hk, he1, he2⟩ := attempt_RI f hc hri (value + h)
    unfold retry
    simp only []
    split
    · -- success
      rename_i haok
      obtain ⟨q, hq⟩ := hok' haok
      have hsingle : (attempt f fn p (value + h)).p.length ≤ 1 := by rw [hq]; simp
      have hq' : q.name = var := by
        obtain ⟨_, q0, rest, hp, hq0, _⟩ := hri'
        rw [hq] at hp; injection hp with hp _; rw [hp]; exact hq0
      split
      · intro hx; simp at hx
      · intro _
        exact ⟨hri'.1, hri'.dev_of_single hsingle, fun _ => ⟨q, hq, hq'⟩, hk, he1, he2⟩
    · -- the tenth failure: give up
      simp only [if_true]
      split
      · rename_i hcond
        intro hexc
        simp only [Bool.and_eq_true, decide_eq_true_eq] at hcond
        obtain ⟨hokA, q0, rest, hp, hq0, hnd, hrest, hlen, hD⟩ := hri'
        rw [hp] at hcond
        obtain ⟨ql, rfl⟩ : ∃ ql, rest = [ql] := by
          cases rest with
          | nil => simp at hcond
          | cons a r =>
            cases r with
            | nil => exact ⟨a, rfl⟩
            | cons b r' => simp at hlen
        have hsub : subIdx (attempt f fn p (value + h)).p 1 = [ql] := by rw [hp]; rfl
        rw [hsub] at hexc ⊢
        have hqlp : ql ∈ params := hrest ql (by simp)
        have hsp := setParameters_dev f hc (attempt f fn p (value + h)).fn [ql] (by simp [names]) (fun m => m = var) hD hokA
          (by
            intro b hb hn
            by_cases e : ql.name = b.name
            · rw [find?_cons_eq ql [] b.name e]
              exact (hc.sync ql hqlp b hb e.symm).symm
            · rw [find?_cons_ne ql [] b.name e]
              simp only [find?, List.find?_nil]
              rintro (h | h)
              · exact hn h
              · simp [names] at h; exact e h.symm)
        obtain ⟨h1, _, h3, h4, h5, h6⟩ := hsp
        exact ⟨h3, h1 hexc, fun hx => absurd rfl hx, by rw [h4, hk], by rw [h5, he1], by rw [h6, he2]⟩
      · rename_i hcond
        intro _
        have hsingle : (attempt f fn p (value + h)).p.length ≤ 1 := by
          simp only [Bool.and_eq_true, decide_eq_true_eq, not_and, not_lt] at hcond
          rcases hrp with hrp | hrp
          · exact hcond hrp
          · omega
        exact ⟨hri'.1, hri'.dev_of_single hsingle, fun hx => absurd rfl hx, hk, he1, he2⟩
  | succ n ih =>
    intro fn p h fv hri hrp
    obtain ⟨hri', hok', hlen', hk, he1, he2⟩ := attempt_RI f hc hri (value + h)
    unfold retry
    simp only []
    split
    · rename_i haok
      obtain ⟨q, hq⟩ := hok' haok
      have hsingle : (attempt f fn p (value + h)).p.length ≤ 1 := by rw [hq]; simp
      have hq' : q.name = var := by
        obtain ⟨_, q0, rest, hp, hq0, _⟩ := hri'
        rw [hq] at hp; injection hp with hp _; rw [hp]; exact hq0
      split
      · intro hx; simp at hx
      · intro _
        exact ⟨hri'.1, hri'.dev_of_single hsingle, fun _ => ⟨q, hq, hq'⟩, hk, he1, he2⟩
    · simp only [Nat.add_one_ne_zero, if_false]
      intro hexc
      have hrp' : rp = true ∨ (attempt f fn p (value + h)).p.length = 1 := by
        rcases hrp with hrp | hrp
        · exact Or.inl hrp
        · right
          obtain ⟨_, q0, rest, hp, _⟩ := hri'
          have h1 : 1 ≤ (attempt f fn p (value + h)).p.length := by rw [hp]; simp
          omega
      obtain ⟨h1, h2, h3, h4, h5, h6⟩ := ih _ _ _ _ hri' hrp' hexc
      exact ⟨h1, h2, h3, by rw [h4, hk], by rw [h5, he1], by rw [h6, he2]⟩


/-! ### `createSubList` -/
theorem subNamesGo_spec (l : PList ℝ) : ∀ (ns : List Name) (acc p : PList ℝ), subNamesGo l acc ns = .ok p →
    names p = names acc ++ ns ∧ (∀ q ∈ p, q ∈ acc ∨ q ∈ l) ∧ ((names acc).Nodup → (names p).Nodup) := by
  intro ns
  induction ns with
  | nil =>
    intro acc p h
    simp only [subNamesGo] at h
    injection h with h; subst h
    exact ⟨by simp, fun q hq => Or.inl hq, id⟩
  | cons n ns ih =>
    intro acc p h
    unfold subNamesGo at h
    cases hf : find? l n with
    | none => rw [hf] at h; cases h
    | some q =>
      rw [hf] at h
      simp only [] at h
      split at h
      · cases h
      · rename_i hhas
        obtain ⟨h1, h2, h3⟩ := ih (acc ++ [q]) p h
        have hq := find?_some hf
        refine ⟨?_, ?_, ?_⟩
        · rw [h1]; simp [names, hq.2]
        · intro x hx
          rcases h2 x hx with hx | hx
          · rcases List.mem_append.mp hx with hx | hx
            · exact Or.inl hx
            · simp at hx; subst hx; exact Or.inr hq.1
          · exact Or.inr hx
        · intro hnd
          apply h3
          have hn : n ∉ names acc := by
            intro hm; apply hhas; exact (has_iff acc n).mpr hm
          simp only [names, List.map_append, List.map_cons, List.map_nil]
          rw [List.nodup_append]
          refine ⟨hnd, by simp, ?_⟩
          intro a ha b hb
          simp at hb; subst hb
          rw [hq.2]
          intro e; subst e; exact hn ha

theorem subNames_spec (l : PList ℝ) (ns : List Name) (p : PList ℝ) (h : subNames l ns = .ok p) :
    names p = ns ∧ (∀ q ∈ p, q ∈ l) ∧ (names p).Nodup := by
  obtain ⟨h1, h2, h3⟩ := subNamesGo_spec l ns [] p h
  refine ⟨by simpa [names] using h1, ?_, h3 (by simp [names])⟩
  intro q hq
  rcases h2 q hq with h | h
  · cases h
  · exact h

end RealLists

end Bpp.NumDeriv
