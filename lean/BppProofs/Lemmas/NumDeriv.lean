import BppModel.NumDeriv
import BppProofs.Lemmas.ScalarReal
import Mathlib.Tactic.FieldSimp
import Mathlib.Tactic.Ring
import Mathlib.Tactic.Linarith
/-!
Helper lemmas for C12 (numerical derivatives): the model of `BppModel/NumDeriv.lean` read at `ℝ`.
-/
namespace Bpp.NumDeriv
open Bpp Bpp.Scalar

/-! ### the difference formulas at ℝ -/
section Formulas
theorem d1Two_real (f1 f2 h : ℝ) : d1Two f1 f2 h = (f2 - f1) / h := rfl
theorem d1Three_real (f1 f3 hf1 hf3 : ℝ) : d1Three f1 f3 hf1 hf3 = (f1 - f3) / (hf1 - hf3) := rfl
theorem d2Three_real (f1 f2 f3 hf1 hf3 : ℝ) :
    d2Three f1 f2 f3 hf1 hf3 = ((f1 - f2) / hf1 - (f3 - f2) / hf3) * 2 / (hf1 - hf3) := by
  simp [d2Three]
theorem crossThree_real (f11 f12 f21 f22 h1 h2 : ℝ) :
    crossThree f11 f12 f21 f22 h1 h2 = ((f22 - f21) - (f12 - f11)) / (4 * h1 * h2) := by
  simp [crossThree]
theorem d1Five_real (f1 f2 f4 f5 h : ℝ) : d1Five f1 f2 f4 f5 h = (f1 - 8 * f2 + 8 * f4 - f5) / (12 * h) := by
  simp [d1Five]
theorem d2Five_real (f1 f2 f3 f4 f5 h : ℝ) :
    d2Five f1 f2 f3 f4 f5 h = (-f1 + 16 * f2 - 30 * f3 + 16 * f4 - f5) / (12 * h * h) := by
  simp [d2Five]
theorem d1Side_real (fa fb h : ℝ) : d1Side fa fb h = (fa - fb) / h := rfl
theorem d2Side_real (fa fb fc h : ℝ) : d2Side fa fb fc h = (fa - 2 * fb + fc) / (h * h) := by
  simp [d2Side]
end Formulas

end Bpp.NumDeriv
