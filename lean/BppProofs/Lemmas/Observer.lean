import BppModel.Observer
import BppProofs.Lemmas.GraphRefine
/-! Helper lemmas for C14, association observer (`BppModel/Observer.lean`). -/
set_option linter.unusedSimpArgs false
set_option linter.unusedVariables false
namespace Bpp
namespace Graph
open AL

/-! ### vectors of object slots -/
namespace Vec

theorem get_eq_some_lt {v : Vec} {i : Nat} {a : Obj} (h : get v i = some a) : i < v.length := by
  unfold get at h
  rcases hv : v[i]? with _ | x
  · simp [hv] at h
  · exact (List.getElem?_eq_some_iff.mp hv).1

theorem get_of_ge {v : Vec} {i : Nat} (h : v.length ≤ i) : get v i = none := by
  unfold get; simp [List.getElem?_eq_none h]

theorem length_put (v : Vec) (i : Nat) (o : Option Obj) : (put v i o).length = v.length := by simp [put]

theorem get_put (v : Vec) (i j : Nat) (o : Option Obj) :
    get (put v i o) j = if i = j ∧ i < v.length then o else get v j := by
  unfold get put
  rw [List.getElem?_set]
  by_cases h : i = j
  · subst h
    by_cases hl : i < v.length
    · simp [hl]
    · simp [hl, List.getElem?_eq_none (Nat.le_of_not_lt hl)]
  · simp [h]

theorem length_grow (v : Vec) (n : Nat) : (grow v n).length = max v.length n := by
  simp [grow]; omega

theorem get_grow (v : Vec) (n j : Nat) : get (grow v n) j = get v j := by
  unfold get grow
  by_cases h : j < v.length
  · rw [List.getElem?_append_left h]
  · have hle : v.length ≤ j := Nat.le_of_not_lt h
    rw [List.getElem?_append_right hle, List.getElem?_eq_none hle]
    by_cases h2 : j - v.length < n - v.length
    · simp [List.getElem?_replicate, h2]
    · simp [List.getElem?_replicate, h2]

theorem firstFree_spec (v : Vec) : firstFree v ≤ v.length ∧ get v (firstFree v) = none ∧
    ∀ j, j < firstFree v → (get v j).isSome = true := by
  induction v with
  | nil => simp [firstFree, get]
  | cons x r ih =>
    cases x with
    | none => simp [firstFree, get]
    | some a =>
      simp only [firstFree, List.length_cons]
      refine ⟨by omega, ?_, ?_⟩
      · have := ih.2.1; unfold get at this ⊢; simpa using this
      · intro j hj
        cases j with
        | zero => simp [get]
        | succ j => have := ih.2.2 j (by omega); unfold get at this ⊢; simpa using this

end Vec

/-! ### the association invariant -/

/-- a vector of slots and an object-keyed map are inverse of each other -/
structure Inverse (v : Vec) (m : List (Nat × Nat)) : Prop where
  asc : Asc m
  fwd : ∀ i a, Vec.get v i = some a → find a m = some i
  bwd : ∀ a i, find a m = some i → Vec.get v i = some a

/-- the association invariant against arbitrary "live node" / "live edge" predicates -/
structure OInvP (N E : Nat → Bool) (o : Obs) : Prop where
  nodes : Inverse o.gN o.Ng
  edges : Inverse o.gE o.Eg
  nidx : Inverse o.iN o.Ni
  eidx : Inverse o.iE o.Ei
  n_live : ∀ a i, find a o.Ng = some i → N i = true
  e_live : ∀ x e, find x o.Eg = some e → E e = true

/-- **the association invariant** of one observer of graph `g`: the four (slot vector, map) pairs
are inverse of each other — each object has at most one graph id and one index and back — and
associated ids are live in the graph -/
abbrev OInv (g : G) (o : Obs) : Prop := OInvP g.hasNode g.hasEdge o

theorem OInvP.mono {N E N' E' : Nat → Bool} {o : Obs} (h : OInvP N E o)
    (hn : ∀ n, N n = true → N' n = true) (he : ∀ e, E e = true → E' e = true) : OInvP N' E' o :=
  ⟨h.nodes, h.edges, h.nidx, h.eidx, fun a i ha => hn i (h.n_live a i ha), fun x e hx => he e (h.e_live x e hx)⟩

theorem Inverse.empty : Inverse [] [] := ⟨asc_nil, by simp [Vec.get], by simp [find]⟩

/-- adding the pair (a, i) when neither the object nor the slot is in use -/
theorem Inverse.add {v : Vec} {m : List (Nat × Nat)} (h : Inverse v m) {a i : Nat}
    (ha : find a m = none) (hi : Vec.get v i = none) :
    Inverse (Vec.put (Vec.grow v (i + 1)) i (some a)) (AL.set a i m) := by
  have hlen : i < (Vec.grow v (i + 1)).length := by rw [Vec.length_grow]; omega
  refine ⟨asc_set _ _ _ h.asc, ?_, ?_⟩
  · intro j b hj
    rw [Vec.get_put, Vec.get_grow] at hj
    rw [find_set]
    by_cases hij : i = j
    · subst hij
      simp only [hlen, and_self, if_true, Option.some.injEq] at hj
      subst hj; simp
    · simp only [hij, false_and, if_false] at hj
      have := h.fwd j b hj
      have hne : ¬ a = b := by intro hh; subst hh; rw [ha] at this; cases this
      simp [hne, this]
  · intro b j hb
    rw [find_set] at hb
    rw [Vec.get_put, Vec.get_grow]
    by_cases hab : a = b
    · subst hab
      simp only [if_true, Option.some.injEq] at hb
      subst hb; simp [hlen]
    · simp only [hab, if_false] at hb
      have := h.bwd b j hb
      have hne : ¬ i = j := by intro hh; subst hh; rw [hi] at this; cases this
      simp [hne, this]

/-- removing the pair of object `a` (slot `i`) -/
theorem Inverse.remove {v : Vec} {m : List (Nat × Nat)} (h : Inverse v m) {a i : Nat} (ha : find a m = some i) :
    Inverse (Vec.put v i none) (AL.erase a m) := by
  have hv := h.bwd a i ha
  have hlt := Vec.get_eq_some_lt hv
  refine ⟨asc_erase _ _ h.asc, ?_, ?_⟩
  · intro j b hj
    rw [Vec.get_put] at hj
    rw [find_erase]
    by_cases hij : i = j
    · subst hij; simp [hlt] at hj
    · simp only [hij, false_and, if_false] at hj
      have := h.fwd j b hj
      have hne : ¬ a = b := by intro hh; subst hh; rw [ha] at this; injection this with this; exact hij this
      simp [hne, this]
  · intro b j hb
    rw [find_erase] at hb
    rw [Vec.get_put]
    by_cases hab : a = b
    · subst hab; simp at hb
    · simp only [hab, if_false] at hb
      have := h.bwd b j hb
      have hne : ¬ i = j := by
        intro hh; subst hh; rw [hv] at this; injection this with this; exact hab this
      simp [hne, this]

/-- clearing a slot that holds no object changes nothing observable -/
theorem Inverse.clear_empty {v : Vec} {m : List (Nat × Nat)} (h : Inverse v m) {i : Nat} (hi : Vec.get v i = none) :
    Inverse (Vec.put v i none) m := by
  refine ⟨h.asc, ?_, ?_⟩
  · intro j b hj
    rw [Vec.get_put] at hj
    by_cases hij : i = j ∧ i < v.length
    · rw [if_pos hij] at hj; cases hj
    · rw [if_neg hij] at hj; exact h.fwd j b hj
  · intro b j hb
    rw [Vec.get_put]
    have := h.bwd b j hb
    by_cases hij : i = j ∧ i < v.length
    · obtain ⟨rfl, _⟩ := hij; rw [hi] at this; cases this
    · simp [hij, this]

theorem Vec.grow_of_le {v : Vec} {n : Nat} (h : n ≤ v.length) : Vec.grow v n = v := by
  unfold Vec.grow
  have : n - v.length = 0 := by omega
  simp [this]

theorem find_none_of_has_false {β : Type} {k : Nat} {l : List (Nat × β)} (h : AL.has k l = false) : find k l = none := by
  unfold has at h; cases hf : find k l <;> simp_all

/-! ### observer-local operations keep the invariant -/

theorem slot_free_of_fromGid {v : Vec} {id : Nat} (h : (if id ≥ v.length then none else Vec.get v id).isSome = false) :
    Vec.get v id = none := by
  by_cases hge : id ≥ v.length
  · exact Vec.get_of_ge hge
  · simp only [hge, if_false] at h
    cases hg : Vec.get v id <;> simp_all

theorem associateNode_inv {g : G} {o o' : Obs} {a id : Nat} (hi : OInv g o)
    (h : World.associateNode g o a id = .ok o') : OInv g o' := by
  unfold World.associateNode at h
  split at h; · cases h
  rename_i h1
  split at h; · cases h
  rename_i h2
  split at h; · cases h
  rename_i h3
  injection h with h; subst h
  have ha : find a o.Ng = none := find_none_of_has_false (by simpa [Obs.hasNode] using h1)
  have hslot : Vec.get o.gN id = none := slot_free_of_fromGid (by simpa [Obs.nodeFromGid] using h3)
  have hlive : g.hasNode id = true := by simpa using h2
  refine ⟨hi.nodes.add ha hslot, hi.edges, hi.nidx, hi.eidx, ?_, hi.e_live⟩
  intro b j hb
  simp only [find_set] at hb
  split at hb
  · injection hb with hb; subst hb; exact hlive
  · exact hi.n_live b j hb

theorem associateEdge_inv {g : G} {o o' : Obs} {x e : Nat} (hi : OInv g o)
    (h : World.associateEdge g o x e = .ok o') : OInv g o' := by
  unfold World.associateEdge at h
  split at h; · cases h
  rename_i h1
  split at h; · cases h
  rename_i h2
  split at h; · cases h
  rename_i h3
  injection h with h; subst h
  have ha : find x o.Eg = none := find_none_of_has_false (by simpa [Obs.hasEdge] using h1)
  have hslot : Vec.get o.gE e = none := slot_free_of_fromGid (by simpa [Obs.edgeFromGid] using h3)
  have hlive : g.hasEdge e = true := by simpa using h2
  refine ⟨hi.nodes, hi.edges.add ha hslot, hi.nidx, hi.eidx, hi.n_live, ?_⟩
  intro b j hb
  simp only [find_set] at hb
  split at hb
  · injection hb with hb; subst hb; exact hlive
  · exact hi.e_live b j hb

theorem dissociateNode_inv {g : G} {o o' : Obs} {a : Nat} (hi : OInv g o)
    (h : World.dissociateNodeO o a = .ok o') : OInv g o' := by
  unfold World.dissociateNodeO at h
  split at h; · cases h
  rename_i id hf
  split at h
  · injection h with h; subst h
    refine ⟨hi.nodes.remove hf, hi.edges, hi.nidx, hi.eidx, ?_, hi.e_live⟩
    intro b j hb
    simp only [find_erase] at hb
    split at hb
    · cases hb
    · exact hi.n_live b j hb
  · cases h

theorem dissociateEdge_inv {g : G} {o o' : Obs} {x : Nat} (hi : OInv g o)
    (h : World.dissociateEdgeO o x = .ok o') : OInv g o' := by
  unfold World.dissociateEdgeO at h
  split at h; · cases h
  rename_i id hf
  split at h
  · injection h with h; subst h
    refine ⟨hi.nodes, hi.edges.remove hf, hi.nidx, hi.eidx, hi.n_live, ?_⟩
    intro b j hb
    simp only [find_erase] at hb
    split at hb
    · cases hb
    · exact hi.e_live b j hb
  · cases h

theorem idx_slot_free {v : Vec} {i : Nat} (h : (decide (i < v.length) && (Vec.get v i).isSome) = false) :
    Vec.get v i = none := by
  by_cases hlt : i < v.length
  · cases hg : Vec.get v i <;> simp_all
  · exact Vec.get_of_ge (Nat.le_of_not_lt hlt)

theorem grow_branch (v : Vec) (i : Nat) : (if i ≥ v.length then Vec.grow v (i + 1) else v) = Vec.grow v (i + 1) := by
  split
  · rfl
  · rename_i h; exact (Vec.grow_of_le (by omega)).symm

theorem setNodeIndex_inv {g : G} {o o' : Obs} {a i : Nat} (hi : OInv g o)
    (h : World.setNodeIndexO o a i = .ok o') : OInv g o' := by
  unfold World.setNodeIndexO at h
  split at h; · cases h
  rename_i h1
  split at h; · cases h
  rename_i h2
  injection h with h; subst h
  have ha : find a o.Ni = none := find_none_of_has_false (by simpa using h2)
  have hslot : Vec.get o.iN i = none := idx_slot_free (by simpa [Obs.hasNodeIdx] using h1)
  rw [grow_branch]
  exact ⟨hi.nodes, hi.edges, hi.nidx.add ha hslot, hi.eidx, hi.n_live, hi.e_live⟩

theorem setEdgeIndex_inv {g : G} {o o' : Obs} {x i : Nat} (hi : OInv g o)
    (h : World.setEdgeIndexO o x i = .ok o') : OInv g o' := by
  unfold World.setEdgeIndexO at h
  split at h; · cases h
  rename_i h1
  split at h; · cases h
  rename_i h2
  injection h with h; subst h
  have ha : find x o.Ei = none := find_none_of_has_false (by simpa using h2)
  have hslot : Vec.get o.iE i = none := idx_slot_free (by simpa [Obs.hasEdgeIdx] using h1)
  rw [grow_branch]
  exact ⟨hi.nodes, hi.edges, hi.nidx, hi.eidx.add ha hslot, hi.n_live, hi.e_live⟩

theorem addNodeIndex_inv {g : G} {o o' : Obs} {a i : Nat} (hi : OInv g o)
    (h : World.addNodeIndexO o a = .ok (i, o')) : OInv g o' ∧ find a o'.Ni = some i ∧ Vec.get o.iN i = none := by
  unfold World.addNodeIndexO at h
  split at h; · cases h
  rename_i h2
  injection h with h; injection h with h1 h; subst h1; subst h
  have ha : find a o.Ni = none := find_none_of_has_false (by simpa using h2)
  have hslot := (Vec.firstFree_spec o.iN).2.1
  rw [grow_branch]
  exact ⟨⟨hi.nodes, hi.edges, hi.nidx.add ha hslot, hi.eidx, hi.n_live, hi.e_live⟩, by simp [find_set], hslot⟩

theorem addEdgeIndex_inv {g : G} {o o' : Obs} {x i : Nat} (hi : OInv g o)
    (h : World.addEdgeIndexO o x = .ok (i, o')) : OInv g o' ∧ find x o'.Ei = some i ∧ Vec.get o.iE i = none := by
  unfold World.addEdgeIndexO at h
  split at h; · cases h
  rename_i h2
  injection h with h; injection h with h1 h; subst h1; subst h
  have ha : find x o.Ei = none := find_none_of_has_false (by simpa using h2)
  have hslot := (Vec.firstFree_spec o.iE).2.1
  rw [grow_branch]
  exact ⟨⟨hi.nodes, hi.edges, hi.nidx, hi.eidx.add ha hslot, hi.n_live, hi.e_live⟩, by simp [find_set], hslot⟩

theorem setEdgeLinking_inv {g : G} {o o' : Obs} {a b x : Nat} (hi : OInv g o)
    (h : World.setEdgeLinkingO g o a b x = .ok o') : OInv g o' := by
  unfold World.setEdgeLinkingO at h
  split at h; · cases h
  split at h; · cases h
  split at h; · cases h
  exact associateEdge_inv hi h

/-! ### notifications -/

theorem forgetEdgeIndex_inv {N E : Nat → Bool} {o : Obs} (x : Nat) (hi : OInvP N E o) : OInvP N E (o.forgetEdgeIndex x) := by
  unfold Obs.forgetEdgeIndex
  split
  · rename_i i hf; exact ⟨hi.nodes, hi.edges, hi.nidx, hi.eidx.remove hf, hi.n_live, hi.e_live⟩
  · exact hi

theorem forgetNodeIndex_inv {N E : Nat → Bool} {o : Obs} (a : Nat) (hi : OInvP N E o) : OInvP N E (o.forgetNodeIndex a) := by
  unfold Obs.forgetNodeIndex
  split
  · rename_i i hf; exact ⟨hi.nodes, hi.edges, hi.nidx.remove hf, hi.eidx, hi.n_live, hi.e_live⟩
  · exact hi

theorem forgetEdgeIndex_same (o : Obs) (x : Nat) :
    (o.forgetEdgeIndex x).gN = o.gN ∧ (o.forgetEdgeIndex x).gE = o.gE ∧ (o.forgetEdgeIndex x).Ng = o.Ng ∧
    (o.forgetEdgeIndex x).Eg = o.Eg ∧ (o.forgetEdgeIndex x).iN = o.iN ∧ (o.forgetEdgeIndex x).Ni = o.Ni := by
  unfold Obs.forgetEdgeIndex; split <;> simp

theorem forgetNodeIndex_same (o : Obs) (a : Nat) :
    (o.forgetNodeIndex a).gN = o.gN ∧ (o.forgetNodeIndex a).gE = o.gE ∧ (o.forgetNodeIndex a).Ng = o.Ng ∧
    (o.forgetNodeIndex a).Eg = o.Eg ∧ (o.forgetNodeIndex a).iE = o.iE ∧ (o.forgetNodeIndex a).Ei = o.Ei := by
  unfold Obs.forgetNodeIndex; split <;> simp

/-- the observer forgets edge `e`; afterwards no object is associated to `e`, so the invariant
holds against any graph that lost at most that edge -/
theorem deletedEdge_inv {N E N' E' : Nat → Bool} {o : Obs} {e : Nat} (hi : OInvP N E o)
    (hn : ∀ n, N n = true → N' n = true)
    (he : ∀ e', e' ≠ e → E e' = true → E' e' = true) : OInvP N' E' (o.deletedEdge e) := by
  unfold Obs.deletedEdge
  split
  · rename_i hlen
    split
    · rename_i x hx
      have hf := hi.edges.fwd e x hx
      have h1 : OInvP N E { o with gE := Vec.put o.gE e none, Eg := AL.erase x o.Eg } :=
        ⟨hi.nodes, hi.edges.remove hf, hi.nidx, hi.eidx, hi.n_live, by
          intro y e' hy; simp only [find_erase] at hy; split at hy
          · cases hy
          · exact hi.e_live y e' hy⟩
      have h2 := forgetEdgeIndex_inv x h1
      have hs := forgetEdgeIndex_same { o with gE := Vec.put o.gE e none, Eg := AL.erase x o.Eg } x
      refine ⟨h2.nodes, h2.edges, h2.nidx, h2.eidx, ?_, ?_⟩
      · intro a i ha; rw [hs.2.2.1] at ha; exact hn i (hi.n_live a i ha)
      · intro y e' hy
        rw [hs.2.2.2.1] at hy
        simp only [find_erase] at hy
        split at hy
        · cases hy
        · rename_i hxy
          have hne : e' ≠ e := by
            intro hh; subst hh
            have := hi.edges.bwd y e' hy
            rw [hx] at this; injection this with this; exact hxy this
          exact he e' hne (hi.e_live y e' hy)
    · rename_i hx
      refine ⟨hi.nodes, hi.edges.clear_empty hx, hi.nidx, hi.eidx, fun a i ha => hn i (hi.n_live a i ha), ?_⟩
      intro y e' hy
      have hne : e' ≠ e := by
        intro hh; subst hh
        have := hi.edges.bwd y e' hy
        rw [hx] at this; cases this
      exact he e' hne (hi.e_live y e' hy)
  · rename_i hlen
    refine ⟨hi.nodes, hi.edges, hi.nidx, hi.eidx, fun a i ha => hn i (hi.n_live a i ha), ?_⟩
    intro y e' hy
    have hne : e' ≠ e := by
      intro hh; subst hh
      have := Vec.get_eq_some_lt (hi.edges.bwd y e' hy)
      omega
    exact he e' hne (hi.e_live y e' hy)

theorem deletedNode_inv {N E N' E' : Nat → Bool} {o : Obs} {n : Nat} (hi : OInvP N E o)
    (hn : ∀ n', n' ≠ n → N n' = true → N' n' = true)
    (he : ∀ e, E e = true → E' e = true) : OInvP N' E' (o.deletedNode n) := by
  unfold Obs.deletedNode
  split
  · rename_i hlen
    split
    · rename_i x hx
      have hf := hi.nodes.fwd n x hx
      have h1 : OInvP N E { o with gN := Vec.put o.gN n none, Ng := AL.erase x o.Ng } :=
        ⟨hi.nodes.remove hf, hi.edges, hi.nidx, hi.eidx, by
          intro y e' hy; simp only [find_erase] at hy; split at hy
          · cases hy
          · exact hi.n_live y e' hy, hi.e_live⟩
      have h2 := forgetNodeIndex_inv x h1
      have hs := forgetNodeIndex_same { o with gN := Vec.put o.gN n none, Ng := AL.erase x o.Ng } x
      refine ⟨h2.nodes, h2.edges, h2.nidx, h2.eidx, ?_, ?_⟩
      · intro y n' hy
        rw [hs.2.2.1] at hy
        simp only [find_erase] at hy
        split at hy
        · cases hy
        · rename_i hxy
          have hne : n' ≠ n := by
            intro hh; subst hh
            have := hi.nodes.bwd y n' hy
            rw [hx] at this; injection this with this; exact hxy this
          exact hn n' hne (hi.n_live y n' hy)
      · intro a i ha; rw [hs.2.2.2.1] at ha; exact he i (hi.e_live a i ha)
    · rename_i hx
      refine ⟨hi.nodes.clear_empty hx, hi.edges, hi.nidx, hi.eidx, ?_, fun a i ha => he i (hi.e_live a i ha)⟩
      intro y n' hy
      have hne : n' ≠ n := by
        intro hh; subst hh
        have := hi.nodes.bwd y n' hy
        rw [hx] at this; cases this
      exact hn n' hne (hi.n_live y n' hy)
  · rename_i hlen
    refine ⟨hi.nodes, hi.edges, hi.nidx, hi.eidx, ?_, fun a i ha => he i (hi.e_live a i ha)⟩
    intro y n' hy
    have hne : n' ≠ n := by
      intro hh; subst hh
      have := Vec.get_eq_some_lt (hi.nodes.bwd y n' hy)
      omega
    exact hn n' hne (hi.n_live y n' hy)

/-! ### deleted items are forgotten in every map -/

/-- an object that sits in no slot and is no key -/
def Forgotten (v : Vec) (m : List (Nat × Nat)) (a : Obj) : Prop := find a m = none ∧ ∀ i, Vec.get v i ≠ some a

theorem Inverse.forgotten_of_none {v : Vec} {m : List (Nat × Nat)} (h : Inverse v m) {a : Obj} (ha : find a m = none) :
    Forgotten v m a := by
  refine ⟨ha, fun i hi => ?_⟩
  have := h.fwd i a hi; rw [ha] at this; cases this

theorem deletedNode_forgets {g : G} {o : Obs} {n : Nat} {a : Obj} (hi : OInv g o) (ha : Vec.get o.gN n = some a) :
    Forgotten (o.deletedNode n).gN (o.deletedNode n).Ng a ∧ Forgotten (o.deletedNode n).iN (o.deletedNode n).Ni a := by
  have hlt := Vec.get_eq_some_lt ha
  have hf := hi.nodes.fwd n a ha
  have h1 : OInv g { o with gN := Vec.put o.gN n none, Ng := AL.erase a o.Ng } :=
    ⟨hi.nodes.remove hf, hi.edges, hi.nidx, hi.eidx, by
      intro y e' hy; simp only [find_erase] at hy; split at hy
      · cases hy
      · exact hi.n_live y e' hy, hi.e_live⟩
  have h2 := forgetNodeIndex_inv a h1
  have hs := forgetNodeIndex_same { o with gN := Vec.put o.gN n none, Ng := AL.erase a o.Ng } a
  have hdel : o.deletedNode n = ({ o with gN := Vec.put o.gN n none, Ng := AL.erase a o.Ng } : Obs).forgetNodeIndex a := by
    unfold Obs.deletedNode; simp [hlt, ha]
  rw [hdel]
  constructor
  · apply h2.nodes.forgotten_of_none
    rw [hs.2.2.1]; simp [find_erase]
  · apply h2.nidx.forgotten_of_none
    unfold Obs.forgetNodeIndex
    split
    · simp [find_erase]
    · rename_i hnone; exact hnone

theorem deletedEdge_forgets {g : G} {o : Obs} {e : Nat} {x : Obj} (hi : OInv g o) (hx : Vec.get o.gE e = some x) :
    Forgotten (o.deletedEdge e).gE (o.deletedEdge e).Eg x ∧ Forgotten (o.deletedEdge e).iE (o.deletedEdge e).Ei x := by
  have hlt := Vec.get_eq_some_lt hx
  have hf := hi.edges.fwd e x hx
  have h1 : OInv g { o with gE := Vec.put o.gE e none, Eg := AL.erase x o.Eg } :=
    ⟨hi.nodes, hi.edges.remove hf, hi.nidx, hi.eidx, hi.n_live, by
      intro y e' hy; simp only [find_erase] at hy; split at hy
      · cases hy
      · exact hi.e_live y e' hy⟩
  have h2 := forgetEdgeIndex_inv x h1
  have hs := forgetEdgeIndex_same { o with gE := Vec.put o.gE e none, Eg := AL.erase x o.Eg } x
  have hdel : o.deletedEdge e = ({ o with gE := Vec.put o.gE e none, Eg := AL.erase x o.Eg } : Obs).forgetEdgeIndex x := by
    unfold Obs.deletedEdge; simp [hlt, hx]
  rw [hdel]
  constructor
  · apply h2.edges.forgotten_of_none
    rw [hs.2.2.2.1]; simp [find_erase]
  · apply h2.eidx.forgotten_of_none
    unfold Obs.forgetEdgeIndex
    split
    · simp [find_erase]
    · rename_i hnone; exact hnone

/-! ### the executable check is the invariant -/

/-- the Boolean test used by `Obs.check` for one (vector, map) pair -/
def invB (v : Vec) (m : List (Nat × Nat)) : Bool :=
  (List.range v.length).all (fun i => match Vec.get v i with | some a => AL.find a m == some i | none => true) &&
  m.all (fun p => decide (p.2 < v.length) && Vec.get v p.2 == some p.1)

theorem invB_iff (v : Vec) (m : List (Nat × Nat)) (hm : Asc m) : invB v m = true ↔ Inverse v m := by
  unfold invB
  rw [Bool.and_eq_true, List.all_eq_true, List.all_eq_true]
  constructor
  · rintro ⟨h1, h2⟩
    refine ⟨hm, ?_, ?_⟩
    · intro i a hi
      have := h1 i (List.mem_range.mpr (Vec.get_eq_some_lt hi))
      simpa [hi] using this
    · intro a i ha
      have := h2 (a, i) (find_some_mem ha)
      simp only [Bool.and_eq_true, decide_eq_true_eq, beq_iff_eq] at this
      exact this.2
  · intro h
    constructor
    · intro i _
      cases hg : Vec.get v i with
      | none => rfl
      | some a => simp [h.fwd i a hg]
    · intro p hp
      have hf := (mem_iff_find hm p.1 p.2).mp hp
      have := h.bwd p.1 p.2 hf
      simp [this, Vec.get_eq_some_lt this]

theorem Obs.check_iff (g : G) (o : Obs) : o.check g = none ↔ OInv g o := by
  have hunf : o.check g =
      (if !ascending (AL.keys o.Ng) || !ascending (AL.keys o.Eg) || !ascending (AL.keys o.Ni) || !ascending (AL.keys o.Ei) then some "maps_sorted"
       else if !invB o.gN o.Ng then some "node_object_id_bijective"
       else if !invB o.gE o.Eg then some "edge_object_id_bijective"
       else if !invB o.iN o.Ni then some "node_object_index_bijective"
       else if !invB o.iE o.Ei then some "edge_object_index_bijective"
       else if !(o.Ng.all (fun p => g.hasNode p.2)) then some "associated_node_is_live"
       else if !(o.Eg.all (fun p => g.hasEdge p.2)) then some "associated_edge_is_live"
       else none) := rfl
  rw [hunf]
  constructor
  · intro h
    split at h; · cases h
    rename_i h0
    split at h; · cases h
    rename_i h1
    split at h; · cases h
    rename_i h2
    split at h; · cases h
    rename_i h3
    split at h; · cases h
    rename_i h4
    split at h; · cases h
    rename_i h5
    split at h; · cases h
    rename_i h6
    simp only [Bool.or_eq_true, Bool.not_eq_true', not_or, Bool.not_eq_false] at h0
    obtain ⟨⟨⟨a1, a2⟩, a3⟩, a4⟩ := h0
    have s1 : Asc o.Ng := (ascending_iff _).mp a1
    have s2 : Asc o.Eg := (ascending_iff _).mp a2
    have s3 : Asc o.Ni := (ascending_iff _).mp a3
    have s4 : Asc o.Ei := (ascending_iff _).mp a4
    refine ⟨(invB_iff _ _ s1).mp (G.of_not_not h1), (invB_iff _ _ s2).mp (G.of_not_not h2),
      (invB_iff _ _ s3).mp (G.of_not_not h3), (invB_iff _ _ s4).mp (G.of_not_not h4), ?_, ?_⟩
    · intro a i ha
      exact List.all_eq_true.mp (G.of_not_not h5) (a, i) (find_some_mem ha)
    · intro a i ha
      exact List.all_eq_true.mp (G.of_not_not h6) (a, i) (find_some_mem ha)
  · intro h
    have a1 := (ascending_iff _).mpr h.nodes.asc
    have a2 := (ascending_iff _).mpr h.edges.asc
    have a3 := (ascending_iff _).mpr h.nidx.asc
    have a4 := (ascending_iff _).mpr h.eidx.asc
    have b1 := (invB_iff _ _ h.nodes.asc).mpr h.nodes
    have b2 := (invB_iff _ _ h.edges.asc).mpr h.edges
    have b3 := (invB_iff _ _ h.nidx.asc).mpr h.nidx
    have b4 := (invB_iff _ _ h.eidx.asc).mpr h.eidx
    have c1 : (o.Ng.all (fun p => g.hasNode p.2)) = true :=
      List.all_eq_true.mpr (fun p hp => h.n_live p.1 p.2 ((mem_iff_find h.nodes.asc p.1 p.2).mp hp))
    have c2 : (o.Eg.all (fun p => g.hasEdge p.2)) = true :=
      List.all_eq_true.mpr (fun p hp => h.e_live p.1 p.2 ((mem_iff_find h.edges.asc p.1 p.2).mp hp))
    have a1' : ascending (AL.keys o.Ng) = true := a1
    have a2' : ascending (AL.keys o.Eg) = true := a2
    have a3' : ascending (AL.keys o.Ni) = true := a3
    have a4' : ascending (AL.keys o.Ei) = true := a4
    simp [a1', a2', a3', a4', b1, b2, b3, b4, c1, c2]

end Graph
end Bpp
