import BppProofs.Lemmas.AliasOk
/-! The observable invariant `SV.inv` (evaluated by the driver on the implementation's views) holds
of the view of every object of a world satisfying `Inv` and `HeapOk` (C03). -/
namespace Bpp.Alias
open Bpp.ParamList (Bnd Con Par Store ObjId nameOf find? hasParameter names startsWith)

/-- is `i` (named `pre ++ y`) written to by a registered listener?  seen from outside: `isTarget y` -/
theorem isTarget_svOf {w : World} {k : Nat} {o : Obj} (h : ObjInv w k o) {i : ObjId} {y : String} (hi : i ∈ o.params)
    (hn : nameOf w.heap i = o.pre ++ y) :
    (svOf w o).isTarget y = true ↔ ∃ e ∈ o.reg, o.params[(w.lis e.2).alias]? = some i := by
  have py : Plain y := by
    obtain ⟨z, hz, pz⟩ := h.plain i hi
    have : z = y := append_left_cancel' (hz.symm.trans hn)
    exact this ▸ pz
  simp only [SV.isTarget, svOf, List.any_eq_true, beq_iff_eq]
  constructor
  · rintro ⟨⟨x, y'⟩, hl, rfl⟩
    obtain ⟨_, _, hk⟩ := (mem_linksOf h).1 hl
    obtain ⟨e, he, hek⟩ := List.mem_map.1 hk
    obtain ⟨t, y'', ht, htn, _, hid⟩ := (h.regOk e he).tgt
    have py'' : Plain y'' := by
      obtain ⟨z, hz, pz⟩ := h.plain t (List.mem_of_getElem? ht)
      have : z = y'' := append_left_cancel' (hz.symm.trans htn)
      exact this ▸ pz
    obtain ⟨_, e2⟩ := aliasId_inj py'' py (hid.symm.trans hek)
    subst e2
    have : t = i := h.name_inj (List.mem_of_getElem? ht) hi (htn.trans hn.symm)
    subst this
    exact ⟨e, he, ht⟩
  · rintro ⟨e, he, ht⟩
    obtain ⟨_, _, _, ⟨s, hs, hsn, _⟩, ⟨t, y', ht', htn, _, hid⟩⟩ := h.regOk e he
    rw [ht] at ht'; cases ht'
    have : y' = y := append_left_cancel' (htn.symm.trans hn)
    subst this
    refine ⟨((w.lis e.2).src, y'), ?_, rfl⟩
    rw [mem_linksOf h]
    exact ⟨(mem_shortNames h).2 ⟨s, hs, hsn⟩, (mem_shortNames h).2 ⟨i, hi, hn⟩, List.mem_map.2 ⟨e, he, hid⟩⟩

theorem shortNames_nodup {w : World} {k : Nat} {o : Obj} (h : ObjInv w k o) : (shortNames w o).Nodup := by
  simp only [shortNames]
  refine List.Nodup.map_on ?_ h.idsNodup
  intro a ha b hb e
  obtain ⟨x, hx, _, sx⟩ := h.short ha
  obtain ⟨y, hy, _, sy⟩ := h.short hb
  rw [sx, sy] at e
  exact h.name_inj ha hb (by rw [hx, hy, e])

theorem linksOf_nodup {w : World} {k : Nat} {o : Obj} (h : ObjInv w k o) : (linksOf w o).Nodup := by
  simp only [linksOf]
  rw [List.nodup_flatMap]
  refine ⟨fun i _ => ?_, ?_⟩
  · exact List.Nodup.map (fun a b e => (Prod.mk.inj e).2) ((shortNames_nodup h).filter _)
  · refine List.Nodup.pairwise_of_forall_ne h.idsNodup ?_
    intro a ha b hb hab
    simp only [Function.onFun, List.disjoint_left]
    intro p hpa hpb
    obtain ⟨y1, _, rfl⟩ := List.mem_map.1 hpa
    obtain ⟨y2, _, e⟩ := List.mem_map.1 hpb
    obtain ⟨x, hx, _, sx⟩ := h.short ha
    obtain ⟨x', hx', _, sx'⟩ := h.short hb
    have := (Prod.mk.inj e).1
    rw [sx, sx'] at this
    exact hab (h.name_inj ha hb (by rw [hx, hx', this]))

theorem links_target_inj {w : World} {k : Nat} {o : Obj} (h : ObjInv w k o) {a b : String × String}
    (ha : a ∈ linksOf w o) (hb : b ∈ linksOf w o) (e : a.2 = b.2) : a = b := by
  obtain ⟨x, y⟩ := a
  obtain ⟨x', y'⟩ := b
  simp only at e; subst e
  obtain ⟨_, hy, hk⟩ := (mem_linksOf h).1 ha
  obtain ⟨_, _, hk'⟩ := (mem_linksOf h).1 hb
  obtain ⟨ty, hty, htyn⟩ := (mem_shortNames h).1 hy
  have py : Plain y := by
    obtain ⟨z, hz, pz⟩ := h.plain ty hty
    have : z = y := append_left_cancel' (hz.symm.trans htyn)
    exact this ▸ pz
  obtain ⟨e1, he1, hk1⟩ := List.mem_map.1 hk
  obtain ⟨e2, he2, hk2⟩ := List.mem_map.1 hk'
  -- both entries write to the parameter named `y`
  have tgtOf : ∀ e ∈ o.reg, ∀ z, e.1 = aliasId z y → o.params[(w.lis e.2).alias]? = some ty ∧ (w.lis e.2).src = z := by
    intro e he z hz
    obtain ⟨t, y'', ht, htn, _, hid⟩ := (h.regOk e he).tgt
    have py'' : Plain y'' := by
      obtain ⟨u, hu, pu⟩ := h.plain t (List.mem_of_getElem? ht)
      have : u = y'' := append_left_cancel' (hu.symm.trans htn)
      exact this ▸ pu
    obtain ⟨a1, a2⟩ := aliasId_inj py'' py (hid.symm.trans hz)
    subst a2
    have : t = ty := h.name_inj (List.mem_of_getElem? ht) hty (htn.trans htyn.symm)
    subst this
    exact ⟨ht, a1⟩
  obtain ⟨t1, s1⟩ := tgtOf e1 he1 x hk1
  obtain ⟨t2, s2⟩ := tgtOf e2 he2 x' hk2
  have := h.once e1 he1 e2 he2 (h.pos_inj t1 t2)
  subst this
  rw [← s1, ← s2]

/-- the position of the parameter with short name `x` -/
def posOf (w : World) (o : Obj) (x : String) : Nat :=
  (o.params.findIdx? (fun i => nameOf w.heap i == o.pre ++ x)).getD 0

theorem posOf_spec {w : World} {k : Nat} {o : Obj} (h : ObjInv w k o) {j : Nat} {i : ObjId} {x : String}
    (hj : o.params[j]? = some i) (hn : nameOf w.heap i = o.pre ++ x) : posOf w o x = j := by
  have hf : find? w.heap o.params (o.pre ++ x) = some i := (find?_iff h.nodup).2 ⟨List.mem_of_getElem? hj, hn⟩
  obtain ⟨pos, hp1, hp2⟩ := findIdx?_of_find? hf
  simp only [posOf, hp1, Option.getD_some]
  exact h.pos_inj hp2 hj

theorem follows_of_link {w : World} {k : Nat} {o : Obj} (h : ObjInv w k o) (ho : w.objs k = some o) {p c : String}
    (hl : (p, c) ∈ linksOf w o) : Follows w o (posOf w o c) (posOf w o p) := by
  obtain ⟨ip, ic, l, hp, hc, hlp, htg⟩ := link_of_mem_linksOf h ho hl
  obtain ⟨hpm, hpn⟩ := ParamList.find?_some hp
  obtain ⟨hcm, hcn⟩ := ParamList.find?_some hc
  obtain ⟨jp, hjp⟩ := h.exists_pos hpm
  obtain ⟨hreg, hsrc⟩ := h.lsnOk ip hpm l hlp
  have hpl := (h.regOk _ hreg).pl
  simp only at hpl
  simp only [tgt, hpl, ho] at htg
  refine ⟨_, hreg, ?_, ip, ?_, hsrc⟩
  · exact (posOf_spec h htg hcn).symm
  · rw [posOf_spec h hjp hpn]; exact hjp

theorem mem_ancestors (s : SV) : ∀ (f : Nat) (y x : String), x ∈ s.ancestors f y →
    Relation.TransGen (fun c p => (p, c) ∈ s.links) y x
  | 0, _, _, h => by simp [SV.ancestors] at h
  | f + 1, y, x, h => by
    simp only [SV.ancestors] at h
    split at h
    · cases h
    · rename_i l hl
      have hlm := List.mem_of_find?_eq_some hl
      have hl2 : l.2 = y := by simpa using List.find?_some hl
      have hstep : (fun c p => (p, c) ∈ s.links) y l.1 := by
        show (l.1, y) ∈ s.links
        rw [← hl2]; cases l; exact hlm
      rcases List.mem_cons.1 h with rfl | h'
      · exact Relation.TransGen.single hstep
      · exact Relation.TransGen.head hstep (mem_ancestors s f l.1 x h')

/-- **the observable invariant holds of the model**: `SV.inv`, the Boolean the driver evaluates on
every view parsed from the implementation's answers, is true of the view of every object of a
world satisfying `Inv` and `HeapOk` (hence of every reachable world) -/
theorem inv_view {w : World} (h : Inv w) (hok : HeapOk w) {k : Nat} {o : Obj} (ho : w.objs k = some o) :
    (svOf w o).inv = true := by
  have hi := h.obj k o ho
  have hpar : (svOf w o).params = o.params.map (fun i => ⟨nameOf w.heap i, (w.heap.get i).value, (w.heap.get i).con⟩) := rfl
  have hlinks : (svOf w o).links = linksOf w o := rfl
  have hind : (svOf w o).indep = o.indep.map (fun i => (nameOf w.heap i, o.params.findIdx? (fun j => j == i))) := rfl
  have hpre : (svOf w o).pre = o.pre := rfl
  have hshorts : (svOf w o).shorts = shortNames w o := by
    simp only [SV.shorts, SV.short, hpar, hpre, shortNames, List.map_map]; rfl
  simp only [SV.inv, Bool.and_eq_true, decide_eq_true_eq, List.all_eq_true]
  refine ⟨⟨⟨⟨⟨⟨⟨⟨?_, ?_⟩, ?_⟩, ?_⟩, ?_⟩, ?_⟩, ?_⟩, ?_⟩, ?_⟩
  · rw [hpar, List.map_map]; exact hi.nodup
  · intro p hp
    rw [hpar] at hp
    obtain ⟨i, him, rfl⟩ := List.mem_map.1 hp
    obtain ⟨x, hx, _⟩ := hi.plain i him
    simp only [hpre, hx, startsWith_append]
  · intro p hp
    rw [hpar] at hp
    obtain ⟨i, him, rfl⟩ := List.mem_map.1 hp
    have := hok i (hi.valid i him)
    simp only [Par.ok, Par.rejects] at this
    cases hc : (w.heap.get i).con with
    | none => rfl
    | some c => rw [hc] at this; simpa using this
  · intro e he
    rw [hind] at he
    obtain ⟨i, him, rfl⟩ := List.mem_map.1 he
    obtain ⟨j, hj⟩ := hi.exists_pos (hi.indepSub i him)
    simp only [findIdx?_nodup hi.idsNodup hj, hpar, List.getElem?_map, hj, Option.map_some, beq_self_eq_true]
  · rw [hind, List.map_map]; exact hi.indepNames
  · intro p hp
    rw [hpar] at hp
    obtain ⟨i, him, rfl⟩ := List.mem_map.1 hp
    obtain ⟨y, hy, _, sy⟩ := hi.short him
    simp only [SV.short, hpre, sy]
    have h1 : ((svOf w o).indep.any (fun e => e.1 == nameOf w.heap i)) = true ↔ i ∈ o.indep := by
      rw [hind, List.any_eq_true]
      constructor
      · rintro ⟨e, he, hen⟩
        obtain ⟨i', hi', rfl⟩ := List.mem_map.1 he
        have : i' = i := hi.name_inj (hi.indepSub i' hi') him (by simpa using hen)
        exact this ▸ hi'
      · intro hin; exact ⟨_, List.mem_map.2 ⟨i, hin, rfl⟩, by simp⟩
    have h2 := isTarget_svOf hi him hy
    have h3 := hi.indepIff i him
    by_cases hin : i ∈ o.indep
    · have ht : (svOf w o).isTarget y = false := by
        cases hb : (svOf w o).isTarget y
        · rfl
        · exact absurd (h2.1 hb) (h3.1 hin)
      rw [h1.2 hin, ht]; rfl
    · have ht : (svOf w o).isTarget y = true := h2.2 (by
        by_contra hno; exact hin (h3.2 hno))
      have hf : ((svOf w o).indep.any (fun e => e.1 == nameOf w.heap i)) = false := by
        cases hb : ((svOf w o).indep.any (fun e => e.1 == nameOf w.heap i))
        · rfl
        · exact absurd (h1.1 hb) hin
      rw [hf, ht]; rfl
  · rw [hlinks]
    exact List.Nodup.map_on (fun a ha b hb e => links_target_inj hi ha hb e) (linksOf_nodup hi)
  · intro l hl
    rw [hlinks] at hl
    obtain ⟨x, y⟩ := l
    obtain ⟨hx, hy, _⟩ := (mem_linksOf hi).1 hl
    simp only [hshorts, List.contains_iff_mem, hx, hy]
    exact ⟨trivial, trivial⟩
  · intro l hl
    rw [hlinks] at hl
    obtain ⟨x, y⟩ := l
    have hfol := follows_of_link hi ho hl
    simp only [Bool.and_eq_true, Bool.not_eq_true', bne_iff_ne, ne_eq]
    refine ⟨?_, ?_⟩
    · cases hb : (svOf w o).follows y x
      · rfl
      · exfalso
        simp only [SV.follows, List.contains_iff_mem] at hb
        have htg := mem_ancestors (svOf w o) _ x y hb
        have hlift : Relation.TransGen (Follows w o) (posOf w o x) (posOf w o y) :=
          Relation.TransGen.lift (posOf w o) (fun c p hcp => follows_of_link hi ho (by rw [← hlinks]; exact hcp)) x y htg
        exact hi.acyclic _ (Relation.TransGen.head hfol hlift)
    · rintro rfl
      exact hi.acyclic _ (Relation.TransGen.single hfol)

/-- for the names of reachable worlds a listener id in use means that very link exists: `p2` is a target -/
theorem idInUse_isTarget {w : World} {k : Nat} {o : Obj} (h : ObjInv w k o) {p1 p2 : String} (hp2 : p2 ∈ shortNames w o)
    (hc : (svOf w o).links.any (fun l => aliasId l.1 l.2 == aliasId p1 p2) = true) : (svOf w o).isTarget p2 = true := by
  simp only [List.any_eq_true, beq_iff_eq] at hc
  obtain ⟨⟨x, y⟩, hl, hid⟩ := hc
  obtain ⟨_, hy, _⟩ := (mem_linksOf h).1 hl
  have plain : ∀ z, z ∈ shortNames w o → Plain z := by
    intro z hz
    obtain ⟨t, ht, htn⟩ := (mem_shortNames h).1 hz
    obtain ⟨z', hz', pz⟩ := h.plain t ht
    have : z' = z := append_left_cancel' (hz'.symm.trans htn)
    exact this ▸ pz
  obtain ⟨_, e2⟩ := aliasId_inj (plain y hy) (plain p2 hp2) hid
  simp only [SV.isTarget, List.any_eq_true, beq_iff_eq]
  exact ⟨(x, y), hl, e2⟩

end Bpp.Alias
