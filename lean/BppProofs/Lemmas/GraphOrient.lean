import BppModel.GraphOrient
import BppProofs.Lemmas.GraphNotify
/-! Helper lemmas for `orientate` (`BppModel/GraphOrient.lean`): whatever the copy `gg` of the graph
tells the loop to do, the graph itself only undergoes `makeDirected` and `switchNodes` calls, each
of which keeps it consistent and removes nothing. -/
namespace Bpp.Graph
namespace G
open AL

/-- consistent, and everything removed since `g0` has been notified -/
def OrientInv (g0 : G) (r : OrientRun) : Prop := Consistent r.g ∧ Notified g0 r.g

theorem orientSwitches_inv {g0 : G} (nb : Nat) (ins : List Nat) (r : OrientRun) (h : OrientInv g0 r) :
    OrientInv g0 (orientSwitches nb ins r) := by
  induction ins generalizing r with
  | nil => exact h
  | cons i rest ih =>
    unfold orientSwitches
    have hc := switchNodes_consistent h.1 nb i
    have hn := switchNodes_notified nb i r.g
    rcases hr : switchNodes nb i r.g with ⟨u, g'⟩ | g' <;> rw [hr] at hc hn
    · exact ih _ ⟨hc, h.2.trans hn⟩
    · exact ⟨hc, h.2.trans hn⟩

theorem orientLoop_inv {g0 : G} (fuel : Nat) (r : OrientRun) (gg : G) (next : List Nat) (h : OrientInv g0 r) :
    OrientInv g0 (orientLoop fuel r gg next) := by
  induction fuel generalizing r gg next with
  | zero => exact h
  | succ fuel ih =>
    unfold orientLoop
    split
    · exact h
    · split
      · exact h
      · split
        · exact h
        · have h1 : ∀ nb ins, OrientInv g0 (orientSwitches nb ins r) := fun nb ins => orientSwitches_inv nb ins r h
          simp only
          split
          · exact h1 _ _
          · split
            · exact ih _ _ _ (h1 _ _)
            · exact h1 _ _

theorem orientRun_inv {g : G} (hc : Consistent g) : OrientInv g g.orientRun := by
  unfold orientRun
  exact orientLoop_inv _ _ _ _ ⟨makeDirected_consistent hc, makeDirected_notified hc⟩

theorem orientate_consistent {g : G} (hc : Consistent g) : (orientate g).All Consistent := by
  unfold orientate
  have := (orientRun_inv hc).1
  simp only
  split <;> exact this

theorem orientate_notified {g : G} (hc : Consistent g) : Notified g (orientate g).state := by
  unfold orientate
  have := (orientRun_inv hc).2
  simp only
  split <;> exact this

end G
end Bpp.Graph
