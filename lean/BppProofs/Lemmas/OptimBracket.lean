import BppProofs.Lemmas.Optim
/-!
Helper lemmas for C10: the two bracketing routines, over `ℝ`, for a function object whose
evaluation step `parameters[0].setValue(x); function.f(parameters)` returns a value that depends
on `x` only (`Det I g`).
-/
set_option linter.unusedSectionVars false
namespace Bpp.Optim
open Bpp

variable {F : Type} {J : F → PList ℝ → Prop}

/-- the evaluation step of the one-dimensional routines, `parameters[0].setValue(x);
function.f(parameters)`, computes `g x`, as long as function and list satisfy `J` (which it keeps):
for the objective of the harness and a one-element list `J` says which coordinate is being moved and
that the other coordinates are what they were (`objective_det`) -/
structure Det (I : FunI F ℝ) (g : ℝ → ℝ) (J : F → PList ℝ → Prop) : Prop where
  eval : ∀ fn pl x fn' pl' v, J fn pl → eval0 I fn pl x = .ok (fn', pl', v) → v = g x ∧ J fn' pl'
  /-- `J` is a condition on the function and a condition on the list -/
  mix : ∀ fn pl fn' pl', J fn pl → J fn' pl' → J fn' pl
  /-- the list after the step holds `x` — or, when the parameter is an auto-correcting one with a
  constraint that refuses `x`, the corrected abscissa `y`, at which `g` has the same value —, and
  evaluating the function at a list that holds `y` (`function.f(parameters)` without a `setValue`)
  gives `g y` -/
  stored : ∀ fn pl x fn' pl' v, J fn pl → eval0 I fn pl x = .ok (fn', pl', v) → ∃ y, value0 pl' = some y ∧ g y = g x
  direct : ∀ fn pl x fn' v, J fn pl → value0 pl = some x → I.f fn pl = .ok (fn', v) → v = g x ∧ J fn' pl
  /-- a `setValue` without evaluation keeps `J`, and the list then holds the (corrected) value -/
  setJ : ∀ fn pl x pl', J fn pl → setValueAt pl 0 x = .ok pl' → J fn pl' ∧ ∃ y, value0 pl' = some y ∧ g y = g x

/-- a recorded point: the value is the function at the abscissa -/
def BPt.Ok (g : ℝ → ℝ) (p : BPt ℝ) : Prop := p.f = g p.x

theorem nonFinite_real (x : ℝ) : nonFinite x = false := by
  unfold nonFinite
  have e1 : Scalar.eqb x x = true := (ScalarReal.eqb_iff _ _).2 rfl
  by_cases h : x = 0
  · have e2 : Scalar.eqb x Scalar.zero = true := (ScalarReal.eqb_iff _ _).2 (by rw [ScalarReal.zero_eq]; exact h)
    rw [e1, e2]; rfl
  · have e3 : Scalar.eqb (x + x) x = false := by
      rw [Bool.eq_false_iff]; intro c
      exact h (by have := (ScalarReal.eqb_iff _ _).1 c; linarith)
    rw [e1, e3]; simp

theorem shrinkB_real (I : FunI F ℝ) (fuel : Nat) (fn : F) (pl : PList ℝ) (b : BPt ℝ) :
    shrinkB I (fuel + 1) fn pl b = .ok (fn, pl, b) := by
  rw [shrinkB]; simp [nonFinite_real]

theorem shrinkB_ok (I : FunI F ℝ) (fuel : Nat) (fn fn' : F) (pl pl' : PList ℝ) (b b' : BPt ℝ)
    (h : shrinkB I fuel fn pl b = .ok (fn', pl', b')) : fn' = fn ∧ pl' = pl ∧ b' = b := by
  cases fuel with
  | zero => rw [shrinkB] at h; cases h
  | succ fuel =>
    rw [shrinkB_real] at h
    simp only [Except.ok.injEq, Prod.mk.injEq] at h
    exact ⟨h.1.symm, h.2.1.symm, h.2.2.symm⟩

/-! ### inward -/

theorem inwardScan_spec (I : FunI F ℝ) (g : ℝ → ℝ) (hd : Det I g J) (jump : ℝ) :
    ∀ (n : Nat) (fn fn' : F) (pl pl' : PList ℝ) (curr : ℝ) (best best' : BPt ℝ),
      inwardScan I jump n fn pl curr best = .ok (fn', pl', best') → J fn pl → best.Ok g →
      best'.Ok g ∧ best'.f ≤ best.f ∧ J fn' pl' := by
  intro n
  induction n with
  | zero =>
    intro fn fn' pl pl' curr best best' h hJ hb
    rw [inwardScan] at h
    simp only [Except.ok.injEq, Prod.mk.injEq] at h
    obtain ⟨rfl, rfl, rfl⟩ := h
    exact ⟨hb, le_refl _, hJ⟩
  | succ n ih =>
    intro fn fn' pl pl' curr best best' h hJ hb
    rw [inwardScan] at h
    try simp only [] at h
    cases he : eval0 I fn pl (curr + jump) with
    | error e => rw [he] at h; cases h
    | ok r =>
      obtain ⟨fn1, pl1, v⟩ := r
      rw [he] at h
      try simp only [] at h
      obtain ⟨hv, hJ1⟩ := hd.eval _ _ _ _ _ _ hJ he
      by_cases hlt : v < best.f
      · rw [if_pos ((ScalarReal.ltb_iff _ _).2 hlt)] at h
        have := ih _ _ _ _ _ _ _ h hJ1 (show BPt.Ok g ⟨curr + jump, v⟩ from hv)
        exact ⟨this.1, le_trans this.2.1 (le_of_lt hlt), this.2.2⟩
      · rw [if_neg (fun c => hlt ((ScalarReal.ltb_iff _ _).1 c))] at h
        exact ih _ _ _ _ _ _ _ h hJ1 hb

theorem inward_spec (I : FunI F ℝ) (g : ℝ → ℝ) (hd : Det I g J) (fuel : Nat) (a b : ℝ) (n : Nat)
    (fn fn' : F) (pl : PList ℝ) (k : Bracket ℝ) (hJ : J fn pl)
    (h : inwardBracketMinimum I fuel a b n fn pl = .ok (fn', k)) :
    k.a.x = a ∧ k.c.x = b ∧ k.a.Ok g ∧ k.b.Ok g ∧ k.c.Ok g ∧ k.b.f ≤ k.a.f ∧ k.b.f ≤ k.c.f ∧ ∃ pl', J fn' pl' := by
  unfold inwardBracketMinimum at h
  cases h1 : eval0 I fn pl a with
  | error e => rw [h1] at h; cases h
  | ok r1 =>
    obtain ⟨fn1, pl1, fa⟩ := r1
    rw [h1] at h
    try simp only [] at h
    cases h2 : eval0 I fn1 pl1 b with
    | error e => rw [h2] at h; cases h
    | ok r2 =>
      obtain ⟨fn2, pl2, fb⟩ := r2
      rw [h2] at h
      try simp only [] at h
      cases h3 : shrinkB I fuel fn2 pl2 ⟨b, fb⟩ with
      | error e => rw [h3] at h; cases h
      | ok r3 =>
        obtain ⟨fn3, pl3, pb⟩ := r3
        rw [h3] at h
        try simp only [] at h
        obtain ⟨rfl, rfl, rfl⟩ := shrinkB_ok I fuel _ _ _ _ _ _ h3
        obtain ⟨hfa, hJ1⟩ := hd.eval _ _ _ _ _ _ hJ h1
        obtain ⟨hfb, hJ2⟩ := hd.eval _ _ _ _ _ _ hJ1 h2
        cases h4 : inwardScan I ((b - a) / Scalar.ofInt (Int.ofNat n)) n fn3 pl3 a
            (if Scalar.ltb fa fb = true then (⟨a, fa⟩ : BPt ℝ) else ⟨b, fb⟩) with
        | error e => rw [h4] at h; cases h
        | ok r4 =>
          obtain ⟨fn4, pl4, best⟩ := r4
          rw [h4] at h
          try simp only [] at h
          cases h5 : eval0 I fn4 pl4 best.x with
          | error e => rw [h5] at h; cases h
          | ok r5 =>
            obtain ⟨fn5, pl5, fbest⟩ := r5
            rw [h5] at h
            simp only [Except.ok.injEq, Prod.mk.injEq] at h
            obtain ⟨rfl, rfl⟩ := h
            have hbest0 : BPt.Ok g (if Scalar.ltb fa fb = true then (⟨a, fa⟩ : BPt ℝ) else ⟨b, fb⟩) := by
              split
              · exact hfa
              · exact hfb
            have hs := inwardScan_spec I g hd _ n _ _ _ _ _ _ _ h4 hJ2 hbest0
            obtain ⟨hfbest, hJ5⟩ := hd.eval _ _ _ _ _ _ hs.2.2 h5
            have hbf : fbest = best.f := by rw [hfbest]; exact hs.1.symm
            have hmin : (if Scalar.ltb fa fb = true then (⟨a, fa⟩ : BPt ℝ) else ⟨b, fb⟩).f ≤ fa ∧
                        (if Scalar.ltb fa fb = true then (⟨a, fa⟩ : BPt ℝ) else ⟨b, fb⟩).f ≤ fb := by
              by_cases hlt : fa < fb
              · rw [if_pos ((ScalarReal.ltb_iff _ _).2 hlt)]; exact ⟨le_refl _, le_of_lt hlt⟩
              · rw [if_neg (fun c => hlt ((ScalarReal.ltb_iff _ _).1 c))]; exact ⟨not_lt.1 hlt, le_refl _⟩
            refine ⟨rfl, rfl, hfa, hfbest, hfb, ?_, ?_, ⟨_, hJ5⟩⟩
            · show fbest ≤ fa; rw [hbf]; exact le_trans hs.2.1 hmin.1
            · show fbest ≤ fb; rw [hbf]; exact le_trans hs.2.1 hmin.2

/-! ### outward -/

/-- the loop invariant of `bracketMinimum`: the three recorded points are evaluations and the
middle one is not above the first -/
structure Bracket.Inv (g : ℝ → ℝ) (m : ℝ) (k : Bracket ℝ) : Prop where
  a : k.a.Ok g
  b : k.b.Ok g
  c : k.c.Ok g
  ba : k.b.f ≤ k.a.f
  bm : k.b.f ≤ m

theorem outwardBody_spec (I : FunI F ℝ) (g : ℝ → ℝ) (hd : Det I g J) (m : ℝ) (fn fn' : F) (pl pl' : PList ℝ)
    (k : Bracket ℝ) (p : Pass ℝ) (hJ : J fn pl) (hk : k.Inv g m) (hguard : k.c.f < k.b.f)
    (h : outwardBody I fn pl k = .ok (fn', pl', p)) :
    J fn' pl' ∧ match p with
    | .ret k' => k'.Inv g m ∧ k'.b.f ≤ k'.c.f
    | .next k' => k'.Inv g m := by
  unfold outwardBody at h
  try simp only [] at h
  split at h
  · -- the parabolic abscissa lies between b and c
    split at h
    · cases h
    · rename_i fn1 pl1 fu he
      obtain ⟨hfu, hJ1⟩ := hd.eval _ _ _ _ _ _ hJ he
      split at h
      · rename_i hlt
        have hlt := (ScalarReal.ltb_iff _ _).1 hlt
        simp only [Except.ok.injEq, Prod.mk.injEq] at h
        obtain ⟨rfl, rfl, rfl⟩ := h
        exact ⟨hJ1, ⟨hk.b, hfu, hk.c, by show fu ≤ k.b.f; linarith, by show fu ≤ m; have := hk.bm; linarith⟩,
          by show fu ≤ k.c.f; linarith⟩
      · split at h
        · rename_i _ hgt
          have hgt := (ScalarReal.gtb_iff _ _).1 hgt
          simp only [Except.ok.injEq, Prod.mk.injEq] at h
          obtain ⟨rfl, rfl, rfl⟩ := h
          exact ⟨hJ1, ⟨hk.a, hk.b, hfu, hk.ba, hk.bm⟩, by show k.b.f ≤ fu; linarith⟩
        · split at h
          · cases h
          · rename_i fn2 pl2 fm he2
            obtain ⟨hfm, hJ2⟩ := hd.eval _ _ _ _ _ _ hJ1 he2
            simp only [Except.ok.injEq, Prod.mk.injEq] at h
            obtain ⟨rfl, rfl, rfl⟩ := h
            exact ⟨hJ2, hk.b, hk.c, hfm, by show k.c.f ≤ k.b.f; linarith, by show k.c.f ≤ m; have := hk.bm; linarith⟩
  · split at h
    · -- between c and the limit
      split at h
      · cases h
      · rename_i fn1 pl1 fu he
        obtain ⟨hfu, hJ1⟩ := hd.eval _ _ _ _ _ _ hJ he
        split at h
        · rename_i hlt
          have hlt := (ScalarReal.ltb_iff _ _).1 hlt
          split at h
          · cases h
          · rename_i fn2 pl2 fm he2
            obtain ⟨hfm, hJ2⟩ := hd.eval _ _ _ _ _ _ hJ1 he2
            simp only [Except.ok.injEq, Prod.mk.injEq] at h
            obtain ⟨rfl, rfl, rfl⟩ := h
            exact ⟨hJ2, hk.c, hfu, hfm, by show fu ≤ k.c.f; linarith, by show fu ≤ m; have := hk.bm; linarith⟩
        · simp only [Except.ok.injEq, Prod.mk.injEq] at h
          obtain ⟨rfl, rfl, rfl⟩ := h
          exact ⟨hJ1, hk.b, hk.c, hfu, by show k.c.f ≤ k.b.f; linarith, by show k.c.f ≤ m; have := hk.bm; linarith⟩
    · split at h
      · split at h
        · cases h
        · rename_i fn1 pl1 fu he
          obtain ⟨hfu, hJ1⟩ := hd.eval _ _ _ _ _ _ hJ he
          simp only [Except.ok.injEq, Prod.mk.injEq] at h
          obtain ⟨rfl, rfl, rfl⟩ := h
          exact ⟨hJ1, hk.b, hk.c, hfu, by show k.c.f ≤ k.b.f; linarith, by show k.c.f ≤ m; have := hk.bm; linarith⟩
      · split at h
        · cases h
        · rename_i fn1 pl1 fu he
          obtain ⟨hfu, hJ1⟩ := hd.eval _ _ _ _ _ _ hJ he
          simp only [Except.ok.injEq, Prod.mk.injEq] at h
          obtain ⟨rfl, rfl, rfl⟩ := h
          exact ⟨hJ1, hk.b, hk.c, hfu, by show k.c.f ≤ k.b.f; linarith, by show k.c.f ≤ m; have := hk.bm; linarith⟩

theorem outwardLoop_spec (I : FunI F ℝ) (g : ℝ → ℝ) (hd : Det I g J) (m : ℝ) :
    ∀ (fuel : Nat) (fn fn' : F) (pl : PList ℝ) (k k' : Bracket ℝ), J fn pl → k.Inv g m →
      outwardLoop I fuel fn pl k = .ok (fn', k') → k'.Inv g m ∧ k'.b.f ≤ k'.c.f ∧ ∃ pl', J fn' pl' := by
  intro fuel
  induction fuel with
  | zero => intro fn fn' pl k k' _ _ h; rw [outwardLoop] at h; cases h
  | succ fuel ih =>
    intro fn fn' pl k k' hJ hk h
    rw [outwardLoop] at h
    by_cases hg : k.c.f < k.b.f
    · rw [if_pos ((ScalarReal.gtb_iff _ _).2 hg)] at h
      cases hb : outwardBody I fn pl k with
      | error e => rw [hb] at h; cases h
      | ok r =>
        obtain ⟨fn1, pl1, p⟩ := r
        rw [hb] at h
        have hs := outwardBody_spec I g hd m _ _ _ _ _ _ hJ hk hg hb
        cases p with
        | ret k1 =>
          simp only [Except.ok.injEq, Prod.mk.injEq] at h
          obtain ⟨rfl, rfl⟩ := h
          exact ⟨hs.2.1, hs.2.2, ⟨_, hs.1⟩⟩
        | next k1 => exact ih _ _ _ _ _ hs.1 hs.2 h
    · rw [if_neg (fun c => hg ((ScalarReal.gtb_iff _ _).1 c))] at h
      simp only [Except.ok.injEq, Prod.mk.injEq] at h
      obtain ⟨rfl, rfl⟩ := h
      exact ⟨hk, not_lt.1 hg, ⟨_, hJ⟩⟩

theorem outward_spec (I : FunI F ℝ) (g : ℝ → ℝ) (hd : Det I g J) (fuel : Nat) (a b : ℝ)
    (fn fn' : F) (pl : PList ℝ) (k : Bracket ℝ) (hJ : J fn pl)
    (h : bracketMinimum I fuel a b fn pl = .ok (fn', k)) :
    k.Inv g (min (g a) (g b)) ∧ k.b.f ≤ k.c.f ∧ ∃ pl', J fn' pl' := by
  unfold bracketMinimum at h
  cases h1 : eval0 I fn pl a with
  | error e => rw [h1] at h; cases h
  | ok r1 =>
    obtain ⟨fn1, pl1, fa⟩ := r1
    rw [h1] at h
    try simp only [] at h
    cases h2 : eval0 I fn1 pl1 b with
    | error e => rw [h2] at h; cases h
    | ok r2 =>
      obtain ⟨fn2, pl2, fb⟩ := r2
      rw [h2] at h
      try simp only [] at h
      cases h3 : shrinkB I fuel fn2 pl2 ⟨b, fb⟩ with
      | error e => rw [h3] at h; cases h
      | ok r3 =>
        obtain ⟨fn3, pl3, pb⟩ := r3
        rw [h3] at h
        try simp only [] at h
        obtain ⟨rfl, rfl, rfl⟩ := shrinkB_ok I fuel _ _ _ _ _ _ h3
        obtain ⟨hfa, hJ1⟩ := hd.eval _ _ _ _ _ _ hJ h1
        obtain ⟨hfb, hJ2⟩ := hd.eval _ _ _ _ _ _ hJ1 h2
        generalize hpp : (if Scalar.gtb (⟨b, fb⟩ : BPt ℝ).f fa = true then ((⟨b, fb⟩ : BPt ℝ), (⟨a, fa⟩ : BPt ℝ))
            else (⟨a, fa⟩, ⟨b, fb⟩)) = pp at h
        have hp : pp.1.Ok g ∧ pp.2.Ok g ∧ pp.2.f ≤ pp.1.f ∧ pp.2.f ≤ min (g a) (g b) := by
          rw [← hpp]
          by_cases hsw : fa < fb
          · rw [if_pos ((ScalarReal.gtb_iff _ _).2 hsw)]
            refine ⟨hfb, hfa, le_of_lt hsw, ?_⟩
            show fa ≤ _; rw [← hfa, ← hfb]; exact le_min (le_refl _) (le_of_lt hsw)
          · rw [if_neg (fun c => hsw ((ScalarReal.gtb_iff _ _).1 c))]
            refine ⟨hfa, hfb, not_lt.1 hsw, ?_⟩
            show fb ≤ _; rw [← hfa, ← hfb]; exact le_min (not_lt.1 hsw) (le_refl _)
        cases h4 : eval0 I fn3 pl3 (pp.2.x + phi * (pp.2.x - pp.1.x)) with
        | error e => rw [h4] at h; cases h
        | ok r4 =>
          obtain ⟨fn4, pl4, fc⟩ := r4
          rw [h4] at h
          try simp only [] at h
          obtain ⟨hfc, hJ4⟩ := hd.eval _ _ _ _ _ _ hJ2 h4
          exact outwardLoop_spec I g hd _ fuel _ _ _ ⟨pp.1, pp.2, ⟨_, fc⟩⟩ _ hJ4 ⟨hp.1, hp.2.1, hfc, hp.2.2.1, hp.2.2.2⟩ h

end Bpp.Optim
