import BppProofs.Lemmas.Observer
import BppProofs.Lemmas.GraphNotify
/-! Helper lemmas for C14: graph + observers (`World`), notifications delivered to every observer. -/
set_option linter.unusedSimpArgs false
set_option linter.unusedVariables false
namespace Bpp
namespace Graph
open AL

theorem notify_edges {N E : Nat → Bool} (l : List Nat) {o : Obs} (hi : OInvP N E o) :
    OInvP N (fun e => E e && !l.contains e) (l.foldl Obs.deletedEdge o) := by
  induction l generalizing o E with
  | nil => exact hi.mono (fun _ h => h) (fun e h => by simpa using h)
  | cons e r ih =>
    simp only [List.foldl_cons]
    have h1 : OInvP N (fun e' => E e' && !decide (e' = e)) (o.deletedEdge e) :=
      deletedEdge_inv hi (fun _ h => h) (fun e' hne h => by simp [h, hne])
    refine (ih h1).mono (fun _ h => h) ?_
    intro e' h
    simp only [Bool.and_eq_true, Bool.not_eq_true', decide_eq_false_iff_not, List.contains_cons, Bool.or_eq_false_iff,
      beq_eq_false_iff_ne, ne_eq] at h ⊢
    obtain ⟨⟨h1, h2⟩, h3⟩ := h
    exact ⟨h1, h2, h3⟩

theorem notify_nodes {N E : Nat → Bool} (l : List Nat) {o : Obs} (hi : OInvP N E o) :
    OInvP (fun n => N n && !l.contains n) E (l.foldl Obs.deletedNode o) := by
  induction l generalizing o N with
  | nil => exact hi.mono (fun e h => by simpa using h) (fun _ h => h)
  | cons n r ih =>
    simp only [List.foldl_cons]
    have h1 : OInvP (fun n' => N n' && !decide (n' = n)) E (o.deletedNode n) :=
      deletedNode_inv hi (fun n' hne h => by simp [h, hne]) (fun _ h => h)
    refine (ih h1).mono ?_ (fun _ h => h)
    intro n' h
    simp only [Bool.and_eq_true, Bool.not_eq_true', decide_eq_false_iff_not, List.contains_cons, Bool.or_eq_false_iff,
      beq_eq_false_iff_ne, ne_eq] at h ⊢
    obtain ⟨⟨h1, h2⟩, h3⟩ := h
    exact ⟨h1, h2, h3⟩

theorem notify_all {N E : Nat → Bool} (evs : List Event) {o : Obs} (hi : OInvP N E o) :
    OInvP (fun n => N n && !(notifiedNodes evs).contains n) (fun e => E e && !(notifiedEdges evs).contains e)
      (evs.foldl Obs.notify o) := by
  induction evs generalizing o N E with
  | nil => exact hi.mono (fun n h => by simpa [notifiedNodes] using h) (fun e h => by simpa [notifiedEdges] using h)
  | cons ev r ih =>
    simp only [List.foldl_cons]
    cases ev with
    | edges l =>
      have h1 := notify_edges l hi
      have e1 : notifiedEdges (Event.edges l :: r) = l ++ notifiedEdges r := by simp [notifiedEdges]
      have e2 : notifiedNodes (Event.edges l :: r) = notifiedNodes r := by simp [notifiedNodes]
      refine (ih h1).mono ?_ ?_
      · intro n h; show (N n && !(notifiedNodes (Event.edges l :: r)).contains n) = true; rw [e2]; exact h
      · intro e h
        show (E e && !(notifiedEdges (Event.edges l :: r)).contains e) = true
        rw [e1, List.contains_append]
        cases hE : E e <;> cases hl : l.contains e <;> cases hr : (notifiedEdges r).contains e <;> simp_all
    | nodes l =>
      have h1 := notify_nodes l hi
      have e1 : notifiedNodes (Event.nodes l :: r) = l ++ notifiedNodes r := by simp [notifiedNodes]
      have e2 : notifiedEdges (Event.nodes l :: r) = notifiedEdges r := by simp [notifiedEdges]
      refine (ih h1).mono ?_ ?_
      · intro n h
        show (N n && !(notifiedNodes (Event.nodes l :: r)).contains n) = true
        rw [e1, List.contains_append]
        cases hN : N n <;> cases hl : l.contains n <;> cases hr : (notifiedNodes r).contains n <;> simp_all
      · intro e h; show (E e && !(notifiedEdges (Event.nodes l :: r)).contains e) = true; rw [e2]; exact h

/-- after the graph went from `g` to `g'` and told the observers, an observer that was in order
against `g` is in order against `g'` -/
theorem deliver_inv {g g' : G} (hp : g.pending = []) (hn : Notified g g') {o : Obs} (hi : OInv g o) :
    OInv g' (g'.pending.foldl Obs.notify o) := by
  obtain ⟨evs, hpe, hnn, hne⟩ := hn
  rw [hp, List.nil_append] at hpe
  rw [hpe]
  refine (notify_all evs hi).mono ?_ ?_
  · intro n h
    simp only [Bool.and_eq_true, Bool.not_eq_true', List.contains_eq_mem, decide_eq_false_iff_not] at h
    cases h' : g'.hasNode n
    · exact absurd (hnn n h.1 h') h.2
    · rfl
  · intro e h
    simp only [Bool.and_eq_true, Bool.not_eq_true', List.contains_eq_mem, decide_eq_false_iff_not] at h
    cases h' : g'.hasEdge e
    · exact absurd (hne e h.1 h') h.2
    · rfl

/-! ### the world invariant -/

/-- graph consistent, nothing pending, every observer in order -/
structure WInv (w : World) : Prop where
  graph : Consistent w.g
  quiet : w.g.pending = []
  obs : ∀ k o, w.getObs k = some o → OInv w.g o

theorem consistent_quiet {g : G} (hc : Consistent g) : Consistent { g with pending := [] } :=
  ⟨hc.views, hc.node_lt, hc.edge_lt, ⟨hc.sorted.nodes, hc.sorted.edges, hc.sorted.rows⟩⟩

theorem getObs_setObs (w : World) (k j : Nat) (o : Obs) (hk : k < w.obs.length) :
    (w.setObs k o).getObs j = if k = j then some o else w.getObs j := by
  simp only [World.getObs, World.setObs, List.getElem?_set]
  by_cases h : k = j
  · subst h; simp [hk]
  · simp [h]

theorem getObs_lt {w : World} {k : Nat} {o : Obs} (h : w.getObs k = some o) : k < w.obs.length := by
  unfold World.getObs at h
  rcases hv : w.obs[k]? with _ | x
  · simp [hv] at h
  · exact (List.getElem?_eq_some_iff.mp hv).1

/-- the graph moved from `w.g` to `g'` (consistent, observers told): delivering keeps the world in order -/
theorem deliver_winv {w : World} (hw : WInv w) {g' : G} (hc' : Consistent g') (hn : Notified w.g g') :
    WInv ({ w with g := g' }.deliver) := by
  refine ⟨consistent_quiet hc', rfl, ?_⟩
  intro k o hk
  simp only [World.deliver, World.getObs, List.getElem?_map] at hk
  rcases hv : w.obs[k]? with _ | x
  · simp [hv] at hk
  · cases x with
    | none => simp [hv] at hk
    | some o0 =>
      simp only [hv, Option.map_some, Option.join_some, Option.some.injEq] at hk
      subst hk
      have h0 : w.getObs k = some o0 := by simp [World.getObs, hv]
      exact deliver_inv hw.quiet hn (hw.obs k o0 h0)

/-- the graph grew (nothing deleted, nothing pending): the other observers stay in order -/
theorem winv_grow {w : World} (hw : WInv w) {g' : G} (hc' : Consistent g') (hq : g'.pending = [])
    (hn : ∀ n, w.g.hasNode n = true → g'.hasNode n = true) (he : ∀ e, w.g.hasEdge e = true → g'.hasEdge e = true)
    (k : Nat) (o' : Obs) (hk : k < w.obs.length) (ho' : OInv g' o') :
    WInv ({ w with g := g' }.setObs k o') := by
  refine ⟨hc', hq, ?_⟩
  intro j o hj
  have hk' : k < ({ w with g := g' } : World).obs.length := hk
  rw [getObs_setObs _ _ _ _ hk'] at hj
  split at hj
  · injection hj with hj; subst hj; exact ho'
  · exact (hw.obs j o hj).mono hn he

/-- the property holds of the world left by the operation, whether it succeeded or raised
(nothing is claimed of an undefined call) -/
def OOut.All {α : Type} (P : World → Prop) : OOut α → Prop
  | .ok _ w => P w
  | .exc _ w => P w
  | .ub => True

theorem winv_same_graph {w : World} (hw : WInv w) (k : Nat) (o' : Obs) (hk : k < w.obs.length) (ho' : OInv w.g o') :
    WInv (w.setObs k o') := by
  refine ⟨hw.graph, hw.quiet, ?_⟩
  intro j o hj
  rw [getObs_setObs _ _ _ _ hk] at hj
  split at hj
  · injection hj with hj; subst hj; exact ho'
  · exact hw.obs j o hj

theorem winv_graph_grow {w : World} (hw : WInv w) {g' : G} (hc' : Consistent g') (hq : g'.pending = [])
    (hn : ∀ n, w.g.hasNode n = true → g'.hasNode n = true) (he : ∀ e, w.g.hasEdge e = true → g'.hasEdge e = true) :
    WInv { w with g := g' } :=
  ⟨hc', hq, fun j o hj => (hw.obs j o hj).mono hn he⟩

theorem Inverse.grow {v : Vec} {m : List (Nat × Nat)} (h : Inverse v m) (n : Nat) : Inverse (Vec.grow v n) m :=
  ⟨h.asc, fun i a hi => h.fwd i a (by rwa [Vec.get_grow] at hi), fun a i ha => by rw [Vec.get_grow]; exact h.bwd a i ha⟩

/-- `localOp`: an observer-local operation -/
theorem localOp_inv {w : World} (hw : WInv w) (k : Nat) (f : G → Obs → Except Kind Obs)
    (hf : ∀ o o', OInv w.g o → f w.g o = .ok o' → OInv w.g o') : (w.localOp k f).All WInv := by
  unfold World.localOp
  rcases hk : w.getObs k with _ | o
  · trivial
  · simp only
    rcases hr : f w.g o with kd | o'
    · exact hw
    · exact winv_same_graph hw k o' (getObs_lt hk) (hf o o' (hw.obs k o hk) hr)

theorem createNode_grows (g : G) : ∃ g', g.createNode = .ok g.nextNode g' ∧ g'.pending = g.pending ∧
    (∀ n, g.hasNode n = true → g'.hasNode n = true) ∧ (∀ e, g.hasEdge e = true → g'.hasEdge e = true) := by
  obtain ⟨h1, hN, _, _, hE, _⟩ := G.createNode_views g
  refine ⟨_, h1, rfl, ?_, ?_⟩
  · intro n h; rw [hN]; simp [h]
  · intro e h; exact h

theorem world_createNode_inv {w : World} (hw : WInv w) (k a : Nat) : (w.createNode k a).All WInv := by
  unfold World.createNode
  rcases hk : w.getObs k with _ | o
  · trivial
  · simp only
    split
    · exact hw
    · obtain ⟨g', h1, hp, hn, he⟩ := createNode_grows w.g
      have hc' : Consistent g' := by have := G.createNode_consistent hw.graph; rw [h1] at this; exact this
      have hq : g'.pending = [] := by rw [hp]; exact hw.quiet
      rw [h1]
      simp only
      have hw1 := winv_graph_grow hw hc' hq hn he
      rcases hr : World.associateNode g' o a w.g.nextNode with kd | o'
      · exact hw1
      · exact winv_grow hw hc' hq hn he k o' (getObs_lt hk) (associateNode_inv ((hw.obs k o hk).mono hn he) hr)

theorem link_grows {g g' : G} {a b e : Nat} (hc : Consistent g) (h : G.link a b g = .ok e g') :
    Consistent g' ∧ g'.pending = g.pending ∧ g.hasEdge e = false ∧ g'.hasEdge e = true ∧
    (∀ n, g.hasNode n = true → g'.hasNode n = true) ∧ (∀ e', g.hasEdge e' = true → g'.hasEdge e' = true) := by
  cases hr : G.linkRefused g a b
  · obtain ⟨ha, hb, hO⟩ := G.linkRefused_false hr
    obtain ⟨h1, hc', hN, _, hE, _⟩ := G.link_views hc ha hb hO
    rw [h1] at h; injection h with h2 h3; subst h2; subst h3
    have hfresh := G.fresh_edge hc (Nat.le_refl g.nextEdge)
    refine ⟨hc', (G.linkWrite_rest _ _ _ _).2.2.2.2, by simp [G.hasEdge, has, hfresh], by simp [G.hasEdge, has, hE], ?_, ?_⟩
    · intro n hn; rw [hN]; exact hn
    · intro e' he'
      simp only [G.hasEdge, has, hE] at he' ⊢
      split
      · rfl
      · exact he'
  · simp [G.link, hr] at h

theorem world_link_inv {w : World} (hw : WInv w) (k a b : Nat) (x : Option Obj) : (w.link k a b x).All WInv := by
  unfold World.link
  rcases hk : w.getObs k with _ | o
  · trivial
  · simp only
    have ho := hw.obs k o hk
    rcases ha : find a o.Ng with _ | ia
    · exact hw
    · rcases hb : find b o.Ng with _ | ib
      · exact hw
      · simp only
        -- the graph part, common to both cases
        have hgraph : ∀ e g', G.link ia ib w.g = .ok e g' →
            Consistent g' ∧ g'.pending = [] ∧ g'.hasEdge e = true ∧ Vec.get o.gE e = none ∧
            (∀ n, w.g.hasNode n = true → g'.hasNode n = true) ∧ (∀ e', w.g.hasEdge e' = true → g'.hasEdge e' = true) := by
          intro e g' hl
          obtain ⟨hc', hp, hfresh, hlive, hn, he⟩ := link_grows hw.graph hl
          refine ⟨hc', by rw [hp]; exact hw.quiet, hlive, ?_, hn, he⟩
          rcases hg : Vec.get o.gE e with _ | y
          · rfl
          · have := ho.e_live y e (ho.edges.fwd e y hg); rw [hfresh] at this; cases this
        have hexc : ∀ g', G.link ia ib w.g = .exc g' → g' = w.g := by
          intro g' hl
          unfold G.link at hl; split at hl
          · injection hl with hl; exact hl.symm
          · cases hl
        cases x with
        | none =>
          simp only [Bool.false_eq_true, if_false]
          rcases hl : G.link ia ib w.g with ⟨e, g'⟩ | g'
          · obtain ⟨hc', hq, hlive, hslot, hn, he⟩ := hgraph e g' hl
            have ho' := ho.mono hn he
            simp only [OOut.All]
            apply winv_grow hw hc' hq hn he k _ (getObs_lt hk)
            exact ⟨ho'.nodes, (ho'.edges.grow (e + 1)).clear_empty (by rw [Vec.get_grow]; exact hslot), ho'.nidx, ho'.eidx,
              ho'.n_live, ho'.e_live⟩
          · have := hexc g' hl; subst this; exact hw
        | some x =>
          simp only
          split
          · exact hw
          · rename_i hx
            rcases hl : G.link ia ib w.g with ⟨e, g'⟩ | g'
            · obtain ⟨hc', hq, hlive, hslot, hn, he⟩ := hgraph e g' hl
              have ho' := ho.mono hn he
              simp only [OOut.All]
              apply winv_grow hw hc' hq hn he k _ (getObs_lt hk)
              have hxfree : find x o.Eg = none := find_none_of_has_false (by simpa [Obs.hasEdge] using hx)
              refine ⟨ho'.nodes, ho'.edges.add hxfree hslot, ho'.nidx, ho'.eidx, ho'.n_live, ?_⟩
              intro y e' hy
              simp only [find_set] at hy
              split at hy
              · injection hy with hy; subst hy; exact hlive
              · exact ho'.e_live y e' hy
            · have := hexc g' hl; subst this; exact hw

theorem world_unlink_inv {w : World} (hw : WInv w) (k a b : Nat) : (w.unlink k a b).All WInv := by
  unfold World.unlink
  rcases hk : w.getObs k with _ | o
  · trivial
  · simp only
    rcases ha : find a o.Ng with _ | ia
    · exact hw
    · rcases hb : find b o.Ng with _ | ib
      · exact hw
      · simp only
        have hc := G.unlink_consistent hw.graph ia ib
        have hn := G.unlink_notified hw.graph ia ib
        rcases hr : G.unlink ia ib w.g with ⟨l, g'⟩ | g' <;> rw [hr] at hc hn
        · exact deliver_winv hw hc hn
        · exact deliver_winv hw hc hn

theorem world_deleteNode_inv {w : World} (hw : WInv w) (k a : Nat) : (w.deleteNode k a).All WInv := by
  unfold World.deleteNode
  rcases hk : w.getObs k with _ | o
  · trivial
  · simp only
    rcases ha : find a o.Ng with _ | id
    · exact hw
    · simp only
      have hc := G.deleteNode_consistent hw.graph id
      have hn := G.deleteNode_notified hw.graph id
      rcases hr : G.deleteNode id w.g with ⟨u, g'⟩ | g' <;> rw [hr] at hc hn
      · have hw1 := deliver_winv hw hc hn
        simp only
        rcases hk1 : ({ w with g := g' } : World).deliver.getObs k with _ | o1
        · trivial
        · simp only
          split
          · rcases hd : World.dissociateNodeO o1 a with kd | o2
            · exact hw1
            · exact winv_same_graph hw1 k o2 (getObs_lt hk1) (dissociateNode_inv (hw1.obs k o1 hk1) hd)
          · exact hw1
      · exact deliver_winv hw hc hn

theorem world_createNodeFrom_inv {w : World} (hw : WInv w) (k origin a : Nat) (x : Option Obj) :
    (w.createNodeFrom k origin a x).All WInv := by
  unfold World.createNodeFrom
  rcases hk : w.getObs k with _ | o
  · trivial
  · simp only
    split
    · exact hw
    · cases x with
      | none =>
        simp only [Bool.false_eq_true, if_false]
        have h1 := world_createNode_inv hw k a
        rcases hr : w.createNode k a with ⟨u, w1⟩ | ⟨kd, w1⟩ | _ <;> rw [hr] at h1
        · exact world_link_inv h1 k origin a _
        · exact h1
        · trivial
      | some x =>
        simp only
        split
        · exact hw
        · have h1 := world_createNode_inv hw k a
          rcases hr : w.createNode k a with ⟨u, w1⟩ | ⟨kd, w1⟩ | _ <;> rw [hr] at h1
          · exact world_link_inv h1 k origin a _
          · exact h1
          · trivial

/-- a graph-level mutator called on the shared graph -/
theorem world_graphOp_inv {w : World} (hw : WInv w) (op : Op) : WInv (w.graphOp (w.g.applyR op)).2 := by
  have hc := G.consistent_step_applyR hw.graph op
  have hn := G.applyR_notified hw.graph op
  unfold World.graphOp
  rcases hr : w.g.applyR op with ⟨v, g'⟩ | g' <;> rw [hr] at hc hn
  · exact deliver_winv hw hc hn
  · exact deliver_winv hw hc hn

theorem world_drop_inv {w : World} (hw : WInv w) (k : Nat) : WInv (w.drop k) := by
  refine ⟨hw.graph, hw.quiet, ?_⟩
  intro j o hj
  simp only [World.drop, World.getObs, List.getElem?_set] at hj
  split at hj
  · split at hj <;> simp at hj
  · exact hw.obs j o (by simpa [World.getObs] using hj)

/-! ### the copy constructor -/

theorem get_foldl_put (m : List (Nat × Nat)) (L : Nat) (hb : ∀ p ∈ m, p.2 < L)
    (hinj : ∀ p ∈ m, ∀ q ∈ m, p.2 = q.2 → p.1 = q.1) (acc : Vec) (hl : acc.length = L) (i a : Nat) :
    Vec.get (m.foldl (fun v p => Vec.put v p.2 (some p.1)) acc) i = some a ↔
      ((a, i) ∈ m ∨ (Vec.get acc i = some a ∧ ∀ p ∈ m, p.2 ≠ i)) := by
  induction m generalizing acc with
  | nil => simp
  | cons p r ih =>
    obtain ⟨b, k⟩ := p
    simp only [List.foldl_cons]
    have hk : k < L := hb (b, k) (by simp)
    rw [ih (fun q hq => hb q (List.mem_cons_of_mem _ hq))
      (fun q hq q' hq' => hinj q (List.mem_cons_of_mem _ hq) q' (List.mem_cons_of_mem _ hq'))
      (Vec.put acc k (some b)) (by rw [Vec.length_put]; exact hl)]
    rw [Vec.get_put]
    by_cases hki : k = i
    · subst hki
      simp only [hl, hk, and_self, if_true, Option.some.injEq, List.mem_cons, Prod.mk.injEq]
      constructor
      · rintro (h | ⟨h, _⟩)
        · exact Or.inl (Or.inr h)
        · exact Or.inl (Or.inl ⟨h.symm, trivial⟩)
      · rintro (h | ⟨_, h⟩)
        · rcases h with ⟨rfl, _⟩ | h
          · by_cases hex : ∃ q ∈ r, q.2 = k
            · obtain ⟨q, hq, hqk⟩ := hex
              have := hinj (a, k) (by simp) q (List.mem_cons_of_mem _ hq) hqk.symm
              left
              have e : q = (a, k) := by
                obtain ⟨q1, q2⟩ := q
                simp only at this hqk
                rw [← this, hqk]
              rw [← e]; exact hq
            · right
              exact ⟨rfl, fun q hq hh => hex ⟨q, hq, hh⟩⟩
          · exact Or.inl h
        · exact absurd rfl (h (b, k) (by simp))
    · simp only [hki, false_and, if_false, List.mem_cons, Prod.mk.injEq]
      constructor
      · rintro (h | ⟨h1, h2⟩)
        · exact Or.inl (Or.inr h)
        · refine Or.inr ⟨h1, ?_⟩
          intro q hq
          rcases hq with rfl | hq
          · exact hki
          · exact h2 q hq
      · rintro (h | ⟨h1, h2⟩)
        · rcases h with ⟨_, h⟩ | h
          · exact absurd h.symm hki
          · exact Or.inl h
        · exact Or.inr ⟨h1, fun q hq => h2 q (Or.inr hq)⟩

/-- a vector rebuilt from the pairs of a map that was inverse of some vector is again inverse of it -/
theorem Inverse.rebuild {v : Vec} {m : List (Nat × Nat)} (h : Inverse v m) (L : Nat) (hL : v.length ≤ L) :
    Inverse (m.foldl (fun v p => Vec.put v p.2 (some p.1)) (List.replicate L none)) m := by
  have hb : ∀ p ∈ m, p.2 < L := by
    intro p hp
    have := Vec.get_eq_some_lt (h.bwd p.1 p.2 ((mem_iff_find h.asc p.1 p.2).mp hp)); omega
  have hinj : ∀ p ∈ m, ∀ q ∈ m, p.2 = q.2 → p.1 = q.1 := by
    intro p hp q hq hpq
    have h1 := h.bwd p.1 p.2 ((mem_iff_find h.asc p.1 p.2).mp hp)
    have h2 := h.bwd q.1 q.2 ((mem_iff_find h.asc q.1 q.2).mp hq)
    rw [hpq, h2] at h1; injection h1 with h1; exact h1.symm
  have key := get_foldl_put m L hb hinj (List.replicate L none) (by simp)
  have hnone : ∀ i a, ¬ Vec.get (List.replicate L (none : Option Obj)) i = some a := by
    intro i a hh
    unfold Vec.get at hh
    rcases hr : (List.replicate L (none : Option Obj))[i]? with _ | x
    · simp [hr] at hh
    · have := (List.getElem?_eq_some_iff.mp hr).2
      simp at this; subst this; simp [hr] at hh
  refine ⟨h.asc, ?_, ?_⟩
  · intro i a hi
    rcases (key i a).mp hi with hm | ⟨hh, _⟩
    · exact (mem_iff_find h.asc a i).mp hm
    · exact absurd hh (hnone i a)
  · intro a i ha
    exact (key i a).mpr (Or.inl (find_some_mem ha))

theorem asc_filterMap_key {l : List (Nat × Nat)} (f : Nat × Nat → Option (Nat × Nat)) (hf : ∀ p q, f p = some q → q.1 = p.1)
    (h : Asc l) : Asc (l.filterMap f) := by
  induction l with
  | nil => exact asc_nil
  | cons p r ih =>
    simp only [List.filterMap_cons]
    rcases hfp : f p with _ | q
    · exact ih (asc_tail h)
    · simp only [Asc, AL.keys, List.map_cons, List.pairwise_cons]
      refine ⟨?_, ih (asc_tail h)⟩
      intro x hx
      simp only [List.mem_map, List.mem_filterMap] at hx
      obtain ⟨q', ⟨p', hp', hfp'⟩, rfl⟩ := hx
      rw [hf p q hfp, hf p' q' hfp']
      exact asc_head_lt h p'.1 (List.mem_map.mpr ⟨p', hp', rfl⟩)

/-- the restriction of an index map to the objects registered in an id map -/
theorem find_restrict (ng ni : List (Nat × Nat)) (hng : Asc ng) (a : Nat) :
    find a (ng.filterMap (fun p => (find p.1 ni).map (fun i => (p.1, i)))) = if (find a ng).isSome then find a ni else none := by
  have hasc : Asc (ng.filterMap (fun p => (find p.1 ni).map (fun i => (p.1, i)))) :=
    asc_filterMap_key _ (by intro p q h; rcases hf : find p.1 ni with _ | i <;> simp [hf] at h; rw [← h]) hng
  rcases hr : find a (ng.filterMap (fun p => (find p.1 ni).map (fun i => (p.1, i)))) with _ | i
  · -- not in the restriction: not registered, or without index
    rcases hg : find a ng with _ | id
    · simp [hr]
    · simp only [Option.isSome_some, if_true]
      rcases hi : find a ni with _ | i
      · exact hr
      · have : (a, i) ∈ ng.filterMap (fun p => (find p.1 ni).map (fun i => (p.1, i))) :=
          List.mem_filterMap.mpr ⟨(a, id), find_some_mem hg, by simp [hi]⟩
        rw [(mem_iff_find hasc a i).mp this] at hr; cases hr
  · have hm := find_some_mem hr
    simp only [List.mem_filterMap] at hm
    obtain ⟨p, hp, hfp⟩ := hm
    rcases hi : find p.1 ni with _ | i' <;> simp only [hi, Option.map_none, Option.map_some, Option.some.injEq, Prod.mk.injEq] at hfp
    · cases hfp
    · obtain ⟨h1, h2⟩ := hfp
      have : find p.1 ng = some p.2 := (mem_iff_find hng p.1 p.2).mp hp
      rw [← h1] at hr ⊢; rw [hr, this, hi, h2]; rfl

theorem copyObs_inv {g : G} {o : Obs} (hi : OInv g o) : OInv g (World.copyObs o) := by
  unfold World.copyObs
  -- the index maps restricted to registered objects are inverse of the index vectors restricted likewise
  have restrict : ∀ (v : Vec) (ng ni : List (Nat × Nat)), Asc ng → Inverse v ni →
      Inverse ((ng.filterMap (fun p => (find p.1 ni).map (fun i => (p.1, i)))).foldl (fun v p => Vec.put v p.2 (some p.1))
        (List.replicate v.length none)) (ng.filterMap (fun p => (find p.1 ni).map (fun i => (p.1, i)))) := by
    intro v ng ni hng hinv
    obtain ⟨m, hm⟩ : ∃ m, m = ng.filterMap (fun p => (find p.1 ni).map (fun i => (p.1, i))) := ⟨_, rfl⟩
    rw [← hm]
    have hasc : Asc m := by
      rw [hm]; exact asc_filterMap_key _ (by intro p q h; rcases hf : find p.1 ni with _ | i <;> simp [hf] at h; rw [← h]) hng
    have hfind : ∀ a i, find a m = some i → find a ni = some i := by
      intro a i h
      rw [hm, find_restrict ng ni hng] at h
      split at h
      · exact h
      · cases h
    -- `v` cleared of the objects outside `m` is inverse of `m`; rebuilding from the pairs only needs the bounds
    have hb : ∀ p ∈ m, p.2 < v.length := by
      intro p hp
      exact Vec.get_eq_some_lt (hinv.bwd p.1 p.2 (hfind p.1 p.2 ((mem_iff_find hasc p.1 p.2).mp hp)))
    have hinj : ∀ p ∈ m, ∀ q ∈ m, p.2 = q.2 → p.1 = q.1 := by
      intro p hp q hq hpq
      have h1 := hinv.bwd p.1 p.2 (hfind p.1 p.2 ((mem_iff_find hasc p.1 p.2).mp hp))
      have h2 := hinv.bwd q.1 q.2 (hfind q.1 q.2 ((mem_iff_find hasc q.1 q.2).mp hq))
      rw [hpq, h2] at h1; injection h1 with h1; exact h1.symm
    have key := get_foldl_put m v.length hb hinj (List.replicate v.length none) (by simp)
    have hnone : ∀ i a, ¬ Vec.get (List.replicate v.length (none : Option Obj)) i = some a := by
      intro i a hh
      unfold Vec.get at hh
      rcases hr : (List.replicate v.length (none : Option Obj))[i]? with _ | x
      · simp [hr] at hh
      · have := (List.getElem?_eq_some_iff.mp hr).2
        simp at this; subst this; simp [hr] at hh
    refine ⟨hasc, ?_, ?_⟩
    · intro i a hh
      rcases (key i a).mp hh with hmem | ⟨h1, _⟩
      · exact (mem_iff_find hasc a i).mp hmem
      · exact absurd h1 (hnone i a)
    · intro a i ha
      exact (key i a).mpr (Or.inl (find_some_mem ha))
  exact ⟨hi.nodes.rebuild _ (Nat.le_refl _), hi.edges.rebuild _ (Nat.le_refl _),
    restrict o.iN o.Ng o.Ni hi.nodes.asc hi.nidx, restrict o.iE o.Eg o.Ei hi.edges.asc hi.eidx, hi.n_live, hi.e_live⟩

theorem world_copy_inv {w : World} (hw : WInv w) (j k : Nat) : (w.copy j k).All WInv := by
  unfold World.copy
  rcases hj : w.getObs j with _ | o
  · trivial
  · simp only
    split
    · trivial
    · simp only [OOut.All]
      by_cases hk : k < w.obs.length
      · exact winv_same_graph hw k _ hk (copyObs_inv (hw.obs j o hj))
      · have : w.setObs k (World.copyObs o) = w := by
          unfold World.setObs
          rw [List.set_eq_of_length_le (Nat.le_of_not_lt hk)]
        rw [this]; exact hw

end Graph
end Bpp
