import BppModel.Optim
import BppProofs.Lemmas.ScalarReal
import BppProofs.Lemmas.Param
/-!
Helper lemmas for C10: `setValue` on a parameter of precision 0 (the parameters the optimisers of
the harness work on).  What a call `setValue(x)` stores — `x` itself when the constraint accepts it,
the auto-corrected value, or nothing (an exception) — depends on the request, the constraint and the
dynamic type only, *not* on the value currently stored, as long as that value is feasible (C01's
invariant).  This is what makes "set the parameter to `x`, evaluate" a function of `x`.
-/
set_option linter.unusedSectionVars false
namespace Bpp.Optim
open Bpp

/-- the parameter with another value -/
def reval (p : Param ℝ) (w : ℝ) : Param ℝ := { p with value := w }

@[simp] theorem reval_value (p : Param ℝ) (w : ℝ) : (reval p w).value = w := rfl
@[simp] theorem reval_precision (p : Param ℝ) (w : ℝ) : (reval p w).precision = p.precision := rfl
@[simp] theorem reval_constraint (p : Param ℝ) (w : ℝ) : (reval p w).constraint = p.constraint := rfl
@[simp] theorem reval_auto (p : Param ℝ) (w : ℝ) : (reval p w).auto = p.auto := rfl
@[simp] theorem reval_reval (p : Param ℝ) (w z : ℝ) : reval (reval p w) z = reval p z := rfl
@[simp] theorem reval_self (p : Param ℝ) : reval p p.value = p := rfl
@[simp] theorem reval_accepts (p : Param ℝ) (w v : ℝ) : (reval p w).accepts v = p.accepts v := rfl

/-- `Parameter::setValue` with precision 0 on a feasible value: check, then write -/
theorem svb0 (p : Param ℝ) (v : ℝ) (hp : p.precision = 0) (hi : p.invOk = true) :
    p.setValueBase v = if p.accepts v = true then .ok (reval p v) else .error .constraint := by
  rcases Param.svb_cases p v with ⟨a, e⟩ | ⟨a, b, e⟩ | ⟨a, b, e⟩
  · rw [hp] at a
    have h0 : |v - p.value| = 0 := le_antisymm (by simpa using a) (abs_nonneg _)
    have hv : v = p.value := by have := abs_eq_zero.1 h0; linarith
    have hacc : p.accepts v = true := by rw [hv]; exact hi
    rw [e, if_pos hacc, hv]; rfl
  · rw [e, if_pos b]; rfl
  · rw [e, if_neg (by rw [b]; simp)]

/-- the stored value plays no role (plain parameter) -/
theorem svb_reval (p : Param ℝ) (w x : ℝ) (hp : p.precision = 0) (hi : p.invOk = true) (hw : p.accepts w = true) :
    (reval p w).setValueBase x = p.setValueBase x := by
  rw [svb0 p x hp hi, svb0 (reval p w) x hp hw]; rfl

/-- the stored value plays no role (virtual `setValue`) -/
theorem setValue_reval (p : Param ℝ) (w x : ℝ) (hp : p.precision = 0) (hi : p.invOk = true) (hw : p.accepts w = true) :
    (reval p w).setValue x = p.setValue x := by
  have hb : ∀ z, (reval p w).setValueBase z = p.setValueBase z := fun z => svb_reval p w z hp hi hw
  have ha : (reval p w).setValueAuto x = p.setValueAuto x := by
    unfold Param.setValueAuto
    simp only [hb, reval_constraint]
  unfold Param.setValue
  rw [ha, hb, reval_auto]

/-- a call that returns has stored a feasible value and changed nothing else -/
theorem setValue_ok_form {p p' : Param ℝ} {x : ℝ} (h : p.setValue x = .ok p') (hi : p.invOk = true) :
    p' = reval p p'.value ∧ p.accepts p'.value = true := by
  have hinv : p.Inv := (Param.invOk_iff p).1 hi
  have key : ∀ z, p.setValueBase z = .ok p' → p' = reval p p'.value ∧ p.accepts p'.value = true := by
    intro z hz
    rcases Param.svb_ok hz with ⟨rfl, _⟩ | ⟨rfl, _, ha⟩
    · exact ⟨rfl, hi⟩
    · exact ⟨rfl, ha⟩
  unfold Param.setValue at h
  split at h
  · obtain ⟨z, hz⟩ := Param.sva_from_svb h; exact key z hz
  · exact key x h

/-- setting a feasible value stores it -/
theorem setValue_accepted (p : Param ℝ) (x : ℝ) (hp : p.precision = 0) (hi : p.invOk = true) (hx : p.accepts x = true) :
    p.setValue x = .ok (reval p x) := by
  have hb : p.setValueBase x = .ok (reval p x) := by rw [svb0 p x hp hi, if_pos hx]
  unfold Param.setValue
  split
  · unfold Param.setValueAuto; rw [hb]
  · exact hb

/-- what `setValue(x)` stores (the request itself when the call raises: never looked at then) -/
noncomputable def corr (p : Param ℝ) (x : ℝ) : ℝ :=
  match p.setValue x with
  | .ok p' => p'.value
  | .error _ => x

theorem corr_ok {p p' : Param ℝ} {x : ℝ} (h : p.setValue x = .ok p') : corr p x = p'.value := by
  unfold corr; rw [h]

theorem corr_accepted (p : Param ℝ) (x : ℝ) (hp : p.precision = 0) (hi : p.invOk = true) (hx : p.accepts x = true) :
    corr p x = x := by
  rw [corr_ok (setValue_accepted p x hp hi hx)]; rfl

theorem corr_reval (p : Param ℝ) (w x : ℝ) (hp : p.precision = 0) (hi : p.invOk = true) (hw : p.accepts w = true) :
    corr (reval p w) x = corr p x := by
  unfold corr; rw [setValue_reval p w x hp hi hw]

/-- correcting twice is correcting once -/
theorem corr_idem {p p' : Param ℝ} {x : ℝ} (h : p.setValue x = .ok p') (hp : p.precision = 0) (hi : p.invOk = true) :
    corr p (corr p x) = corr p x := by
  rw [corr_ok h]
  exact corr_accepted p _ hp hi (setValue_ok_form h hi).2

/-- the policy does not change values, precision or feasibility -/
theorem applyPolicy_single (pol : Policy) (q : NP ℝ) :
    ∃ p0 : Param ℝ, applyPolicy pol [q] = [⟨q.name, p0⟩] ∧ p0.value = q.p.value ∧ p0.precision = q.p.precision ∧
      (q.p.invOk = true → p0.invOk = true) := by
  cases pol with
  | keep => exact ⟨q.p, rfl, rfl, rfl, fun h => h⟩
  | ignore =>
    refine ⟨q.p.removeConstraint.1, rfl, rfl, rfl, fun _ => ?_⟩
    simp [Param.invOk, Param.accepts, Param.removeConstraint]
  | auto => exact ⟨q.p.toAuto, rfl, rfl, rfl, fun h => h⟩

end Bpp.Optim
