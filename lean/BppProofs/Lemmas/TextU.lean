import BppModel.Text.Ub
import BppModel.Text.TextToolsU
import BppProofs.Lemmas.Glob
/-! Shared helper lemmas for C16: the `safe` predicate through `bind`, when the UB-aware
primitives return, `size_t` arithmetic without wrap, bounds of the `find` family. -/
namespace Bpp.Text.U
open Bpp.Text

/-! ### `safe` -/

@[simp] theorem safe_ok {α : Type} (a : α) : safe (Except.ok a : R α) = true := rfl
@[simp] theorem safe_pure {α : Type} (a : α) : safe (pure a : R α) = true := rfl
@[simp] theorem safe_bpp {α : Type} : safe (Except.error Err.bpp : R α) = true := rfl
@[simp] theorem safe_ub {α : Type} : safe (Except.error Err.ub : R α) = false := rfl
@[simp] theorem safe_std {α : Type} : safe (Except.error Err.std : R α) = false := rfl
@[simp] theorem safe_hang {α : Type} : safe (Except.error Err.hang : R α) = false := rfl

/-- a call is safe iff it returned or raised the library's exception -/
theorem safe_iff {α : Type} (x : R α) : safe x = true ↔ (∃ a, x = .ok a) ∨ x = .error .bpp := by
  cases x with
  | ok a => simp
  | error e => cases e <;> simp

theorem safe_bind {α β : Type} {x : R α} {f : α → R β} (hx : safe x = true)
    (hf : ∀ a, x = .ok a → safe (f a) = true) : safe (x >>= f) = true := by
  cases x with
  | ok a => exact hf a rfl
  | error e => cases e <;> simp_all [bind, Except.bind]

theorem safe_map {α β : Type} {x : R α} {f : α → β} (hx : safe x = true) : safe (f <$> x) = true := by
  cases x with
  | ok a => rfl
  | error e => cases e <;> simp_all [Functor.map, Except.map]

theorem safe_exmap {α β : Type} {x : R α} {f : α → β} (hx : safe x = true) : safe (x.map f) = true := by
  cases x with
  | ok a => rfl
  | error e => cases e <;> simp_all [Except.map]

@[simp] theorem bind_ok {α β : Type} (a : α) (f : α → R β) : ((Except.ok a : R α) >>= f) = f a := rfl
@[simp] theorem bind_pure' {α β : Type} (a : α) (f : α → R β) : ((pure a : R α) >>= f) = f a := rfl
@[simp] theorem bind_err {α β : Type} (e : Err) (f : α → R β) : ((Except.error e : R α) >>= f) = .error e := rfl

/-- inversion of a successful `bind` -/
theorem bind_eq_ok {α β : Type} {x : R α} {f : α → R β} {b : β} (h : (x >>= f) = .ok b) :
    ∃ a, x = .ok a ∧ f a = .ok b := by
  cases x with
  | ok a => exact ⟨a, rfl, h⟩
  | error e => cases h

/-! ### `size_t` arithmetic without wrap -/

theorem wadd_eq {a b : Nat} (h : a + b < SZ) : wadd a b = a + b := by
  unfold wadd; exact Nat.mod_eq_of_lt h

theorem wadd_le (a b : Nat) : wadd a b ≤ a + b := by
  unfold wadd; exact Nat.mod_le _ _

theorem wsub_eq {a b : Nat} (hb : b ≤ a) (ha : a < SZ) : wsub a b = a - b := by
  unfold wsub SZ at *
  have : b % 18446744073709551616 = b := Nat.mod_eq_of_lt (by omega)
  rw [this]; omega

theorem wmul_eq {a b : Nat} (h : a * b < SZ) : wmul a b = a * b := by
  unfold wmul; exact Nat.mod_eq_of_lt h

theorem toPtrdiff_eq {x : Nat} (h : x < 9223372036854775808) : toPtrdiff x = (x : Int) := by
  unfold toPtrdiff SZ
  have : x % 18446744073709551616 = x := Nat.mod_eq_of_lt (by omega)
  rw [this]; simp [h]

theorem maxStr_lt : maxStr < 9223372036854775808 := by decide

/-! ### when the primitives return -/

theorem substr_ok {s : Str} {pos : Nat} (n : Nat) (h : pos ≤ s.length) :
    substr s pos n = .ok ((s.drop pos).take n) := by simp [substr, h]

theorem substrFrom_ok {s : Str} {pos : Nat} (h : pos ≤ s.length) :
    substrFrom s pos = .ok (s.drop pos) := by simp [substrFrom, h]

theorem substr_eq_ok {s : Str} {pos n : Nat} {t : Str} (h : substr s pos n = .ok t) :
    pos ≤ s.length ∧ t = (s.drop pos).take n := by
  unfold substr at h; split at h
  · cases h; exact ⟨by assumption, rfl⟩
  · cases h

theorem substrFrom_eq_ok {s : Str} {pos : Nat} {t : Str} (h : substrFrom s pos = .ok t) :
    pos ≤ s.length ∧ t = s.drop pos := by
  unfold substrFrom at h; split at h
  · cases h; exact ⟨by assumption, rfl⟩
  · cases h

theorem substr_len {s : Str} {pos n : Nat} {t : Str} (h : substr s pos n = .ok t) :
    t.length ≤ s.length - pos ∧ t.length ≤ n := by
  obtain ⟨_, rfl⟩ := substr_eq_ok h
  simp only [List.length_take, List.length_drop]; omega

theorem strAt_ok {s : Str} {i : Nat} (h : i < s.length) : strAt s i = .ok s[i] := by simp [strAt, h]

theorem strAt_safe {s : Str} {i : Nat} (h : i ≤ s.length) : ∃ c, strAt s i = .ok c := by
  unfold strAt
  by_cases h1 : i < s.length
  · exact ⟨s[i], by simp [h1]⟩
  · have : i = s.length := by omega
    exact ⟨Char.ofNat 0, by simp [this]⟩

theorem vecAt_ok {α : Type} {v : List α} {i : Nat} (h : i < v.length) : vecAt v i = .ok v[i] := by
  simp [vecAt, h]

theorem vecBack_ok {α : Type} {v : List α} (h : v ≠ []) : ∃ a, vecBack v = .ok a := by
  induction v with
  | nil => exact absurd rfl h
  | cons a r ih =>
    cases r with
    | nil => exact ⟨a, rfl⟩
    | cons b r' =>
      obtain ⟨x, hx⟩ := ih (by simp)
      exact ⟨x, by simpa [vecBack] using hx⟩

theorem vecBack_mem {α : Type} {v : List α} {a : α} (h : vecBack v = .ok a) : a ∈ v := by
  induction v with
  | nil => cases h
  | cons x r ih =>
    cases r with
    | nil => simp [vecBack] at h; simp [h]
    | cons b r' =>
      simp only [vecBack] at h
      exact List.mem_cons_of_mem _ (ih h)

theorem range_ok {s : Str} {a b : Int} (h0 : 0 ≤ a) (h1 : a ≤ b) (h2 : b ≤ (s.length : Int)) :
    range s a b = .ok ((s.drop a.toNat).take (b.toNat - a.toNat)) := by simp [range, h0, h1, h2]

theorem eraseRange_ok {s : Str} {a b : Int} (h0 : 0 ≤ a) (h1 : a ≤ b) (h2 : b ≤ (s.length : Int)) :
    eraseRange s a b = .ok (s.take a.toNat ++ s.drop b.toNat) := by simp [eraseRange, h0, h1, h2]

theorem intRes_ok {v : Int} (h1 : intMin ≤ v) (h2 : v ≤ intMax) : intRes v = .ok v := by
  simp [intRes, h1, h2]

/-! ### bounds of the `find` family -/

theorem find_bounds {g s : Str} {k : Nat} (h : find g s = some k) : k + g.length ≤ s.length := by
  obtain ⟨h1, h2, _⟩ := Glob.find_some h
  have := Glob.isPrefix_length h1
  simp only [List.length_drop] at this
  omega

theorem findFrom_bounds {g s : Str} {pos k : Nat} (h : findFrom g s pos = some k) :
    pos ≤ k ∧ k + g.length ≤ s.length := by
  unfold findFrom at h
  split at h
  · cases h' : find g (s.drop pos) with
    | none => simp [h'] at h
    | some j =>
      simp only [h', Option.map_some, Option.some.injEq] at h
      have := find_bounds h'
      simp only [List.length_drop] at this
      omega
  · cases h

theorem findFirstOf_bounds {set s : Str} {pos k : Nat} (h : findFirstOf set s pos = some k) :
    pos ≤ k ∧ k < s.length := findIdxFrom_bounds h

theorem findFirstNotOf_bounds {set s : Str} {pos k : Nat} (h : findFirstNotOf set s pos = some k) :
    pos ≤ k ∧ k < s.length := findIdxFrom_bounds h

theorem findLastOf_lt {set s : Str} {k : Nat} (h : findLastOf set s = some k) : k < s.length :=
  findLastIdx_lt h

theorem findChar_lt {c : Char} {s : Str} {k : Nat} (h : findChar c s = some k) : k < s.length := by
  induction s generalizing k with
  | nil => simp [findChar] at h
  | cons d s ih =>
    simp only [findChar] at h
    split at h
    · cases h; simp
    · cases h' : findChar c s with
      | none => simp [h'] at h
      | some j =>
        simp only [h', Option.map_some, Option.some.injEq] at h
        have := ih h'
        simp only [List.length_cons]; omega

/-! ### `count` -/

theorem countSub_le (pat s : Str) : countSub pat s ≤ s.length := by
  induction s with
  | nil => simp [countSub]
  | cons c s ih =>
    simp only [countSub, List.length_cons]
    split <;> omega

/-- total length of a list of strings -/
def sumLen (l : List Str) : Nat := (l.map List.length).sum

@[simp] theorem sumLen_nil : sumLen [] = 0 := rfl
@[simp] theorem sumLen_cons (a : Str) (l : List Str) : sumLen (a :: l) = a.length + sumLen l := by
  simp [sumLen]
@[simp] theorem sumLen_append (a b : List Str) : sumLen (a ++ b) = sumLen a + sumLen b := by
  simp [sumLen]

end Bpp.Text.U
