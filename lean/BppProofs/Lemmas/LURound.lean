import BppProofs.Lemmas.LU
namespace Bpp.LU
open Bpp

/-- `γ_k = k·u / (1 − k·u)` -/
noncomputable def gam (k : Nat) (u : ℝ) : ℝ := k * u / (1 - k * u)

theorem gam_nonneg {k : Nat} {u : ℝ} (hu : 0 ≤ u) (hk : k * u < 1) : 0 ≤ gam k u := by
  unfold gam
  apply div_nonneg (mul_nonneg (Nat.cast_nonneg k) hu) (by linarith)

theorem gam_eq {k : Nat} {u : ℝ} (hk : (k : ℝ) * u < 1) : gam k u * (1 - k * u) = k * u := by
  unfold gam
  have : (1 - (k : ℝ) * u) ≠ 0 := by linarith
  field_simp

theorem gam_step1 {k : Nat} {u : ℝ} (hu : 0 ≤ u) (hk : ((k + 1 : Nat) : ℝ) * u < 1) :
    gam k u * (1 + u) + u ≤ gam (k + 1) u := by
  have hk0 : (0 : ℝ) ≤ k := Nat.cast_nonneg k
  push_cast at hk
  have hk' : (k : ℝ) * u < 1 := by nlinarith
  have h1 : 0 < 1 - (k : ℝ) * u := by linarith
  have h2 : 0 < 1 - ((k : ℝ) + 1) * u := by linarith
  have hg := gam_eq hk'
  have hG : gam (k + 1) u = ((k : ℝ) + 1) * u / (1 - ((k : ℝ) + 1) * u) := by unfold gam; push_cast; ring
  rw [hG, le_div_iff₀ h2]
  set g := gam k u
  have e : (g * (1 + u) + u) * (1 - (k : ℝ) * u) = k * u * (1 + u) + u * (1 - k * u) := by linear_combination (1 + u) * hg
  have key : (g * (1 + u) + u) * (1 - ((k : ℝ) + 1) * u) * (1 - (k : ℝ) * u) ≤ ((k : ℝ) + 1) * u * (1 - (k : ℝ) * u) := by
    have : (g * (1 + u) + u) * (1 - ((k : ℝ) + 1) * u) * (1 - (k : ℝ) * u)
        = (k * u * (1 + u) + u * (1 - k * u)) * (1 - ((k : ℝ) + 1) * u) := by linear_combination (1 - ((k : ℝ) + 1) * u) * e
    rw [this]
    nlinarith [mul_nonneg (mul_nonneg hk0 hu) hu, mul_nonneg hu hu]
  exact le_of_mul_le_mul_right key h1

theorem gam_step2 {k : Nat} {u : ℝ} (hu : 0 ≤ u) (hk : ((k + 1 : Nat) : ℝ) * u < 1) :
    (gam k u + u) / (1 - u) ≤ gam (k + 1) u := by
  have hk0 : (0 : ℝ) ≤ k := Nat.cast_nonneg k
  push_cast at hk
  have hk' : (k : ℝ) * u < 1 := by nlinarith
  have h1 : 0 < 1 - (k : ℝ) * u := by linarith
  have h2 : 0 < 1 - ((k : ℝ) + 1) * u := by linarith
  have h3 : 0 < 1 - u := by nlinarith [mul_nonneg hk0 hu]
  have hg := gam_eq hk'
  have hG : gam (k + 1) u = ((k : ℝ) + 1) * u / (1 - ((k : ℝ) + 1) * u) := by unfold gam; push_cast; ring
  rw [hG, div_le_div_iff₀ h3 h2]
  set g := gam k u
  have e : (g + u) * (1 - (k : ℝ) * u) = k * u + u * (1 - k * u) := by linear_combination hg
  have key : (g + u) * (1 - ((k : ℝ) + 1) * u) * (1 - (k : ℝ) * u) ≤ ((k : ℝ) + 1) * u * (1 - u) * (1 - (k : ℝ) * u) := by
    have : (g + u) * (1 - ((k : ℝ) + 1) * u) * (1 - (k : ℝ) * u)
        = (k * u + u * (1 - k * u)) * (1 - ((k : ℝ) + 1) * u) := by linear_combination (1 - ((k : ℝ) + 1) * u) * e
    rw [this]
    nlinarith [mul_nonneg (mul_nonneg hk0 hu) hu, mul_nonneg hu hu, mul_nonneg (mul_nonneg hk0 hu) (mul_nonneg hu hu)]
  exact le_of_mul_le_mul_right key h1

theorem gam_mono {k : Nat} {u : ℝ} (hu : 0 ≤ u) (hk : ((k + 1 : Nat) : ℝ) * u < 1) : gam k u ≤ gam (k + 1) u := by
  have h := gam_step1 hu hk
  have hk' : (k : ℝ) * u < 1 := by push_cast at hk; nlinarith
  have := gam_nonneg hu hk'
  nlinarith [mul_nonneg this hu]

/-! ### the standard model of rounded arithmetic -/

/-- `fl x = x (1 + δ)`, `|δ| ≤ u` -/
def StdModel (fl : ℝ → ℝ) (u : ℝ) : Prop := ∀ x, |fl x - x| ≤ u * |x|

/-- `ℝ` with every arithmetic operation followed by a rounding `fl`; comparisons are exact -/
@[instance_reducible] noncomputable def rndScalar (fl : ℝ → ℝ) : Scalar ℝ :=
  { instScalarReal with
    add := fun a b => fl (a + b)
    sub := fun a b => fl (a - b)
    mul := fun a b => fl (a * b)
    div := fun a b => fl (a / b) }

theorem abs_le_of_round {fl : ℝ → ℝ} {u : ℝ} (h : StdModel fl u) (x : ℝ) : (1 - u) * |x| ≤ |fl x| := by
  have := h x
  have h2 : |x| ≤ |fl x| + |fl x - x| := by
    have : x = fl x - (fl x - x) := by ring
    calc |x| = |fl x - (fl x - x)| := by rw [← this]
      _ ≤ |fl x| + |fl x - x| := abs_sub _ _
  nlinarith

/-- one elimination update `w' = fl(w − fl(l·c))` keeps the error invariant, with `γ_k → γ_{k+1}` -/
theorem cell_update {fl : ℝ → ℝ} {u g G : ℝ} (h : StdModel fl u) (hu : 0 ≤ u) (hu1 : u < 1) (hg : 0 ≤ g)
    (hG1 : g * (1 + u) + u ≤ G) (hG2 : g + u ≤ G * (1 - u)) {a S T w l c : ℝ} (hT : 0 ≤ T)
    (hE : |a - w - S| ≤ g * (|w| + T)) :
    |a - fl (w - fl (l * c)) - (S + l * c)| ≤ G * (|fl (w - fl (l * c))| + (T + |l| * |c|)) := by
  set p := fl (l * c)
  set w' := fl (w - p)
  have hp : |p - l * c| ≤ u * |l * c| := h (l * c)
  have hx : |w' - (w - p)| ≤ u * |w - p| := h (w - p)
  have hX : (1 - u) * |w - p| ≤ |w'| := abs_le_of_round h (w - p)
  have hlc : |l * c| = |l| * |c| := abs_mul l c
  have hpabs : |p| ≤ (1 + u) * |l * c| := by
    have : |p| ≤ |l * c| + |p - l * c| := by
      have e : p = l * c + (p - l * c) := by ring
      calc |p| = |l * c + (p - l * c)| := by rw [← e]
        _ ≤ _ := abs_add_le _ _
    linarith
  have hw : |w| ≤ |w - p| + |p| := by
    have e : w = (w - p) + p := by ring
    calc |w| = |(w - p) + p| := by rw [← e]
      _ ≤ _ := abs_add_le _ _
  have hsplit : a - w' - (S + l * c) = (a - w - S) + ((w - p) - w') + (p - l * c) := by ring
  have h1 : |a - w' - (S + l * c)| ≤ |a - w - S| + |(w - p) - w'| + |p - l * c| := by
    rw [hsplit]
    exact abs_add_three _ _ _
  have h2 : |(w - p) - w'| = |w' - (w - p)| := abs_sub_comm _ _
  have hX0 : 0 ≤ |w - p| := abs_nonneg _
  have hL0 : 0 ≤ |l * c| := abs_nonneg _
  have hG0 : 0 ≤ G := by nlinarith
  rw [← hlc]
  have step : g * (|w| + T) ≤ g * (|w - p| + (1 + u) * |l * c| + T) := by
    apply mul_le_mul_of_nonneg_left _ hg; linarith
  have hGX : (g + u) * |w - p| ≤ G * |w'| := by
    calc (g + u) * |w - p| ≤ G * (1 - u) * |w - p| := mul_le_mul_of_nonneg_right hG2 hX0
      _ = G * ((1 - u) * |w - p|) := by ring
      _ ≤ G * |w'| := mul_le_mul_of_nonneg_left hX hG0
  have hGL : (g * (1 + u) + u) * |l * c| ≤ G * |l * c| := mul_le_mul_of_nonneg_right hG1 hL0
  have hgG : g ≤ G := by nlinarith
  have hT0 : g * T ≤ G * T := mul_le_mul_of_nonneg_right hgG hT
  rw [h2] at h1
  have e1 : g * (|w - p| + (1 + u) * |l * c| + T) = g * |w - p| + g * (1 + u) * |l * c| + g * T := by ring
  have e2 : (g + u) * |w - p| = g * |w - p| + u * |w - p| := by ring
  have e3 : (g * (1 + u) + u) * |l * c| = g * (1 + u) * |l * c| + u * |l * c| := by ring
  have e4 : G * (|w'| + (T + |l * c|)) = G * |w'| + G * T + G * |l * c| := by ring
  rw [e4]
  linarith

/-- the multiplier `l = fl(w / d)` -/
theorem cell_divide {fl : ℝ → ℝ} {u g G : ℝ} (h : StdModel fl u) (hu : 0 ≤ u) (hu1 : u < 1) (hg : 0 ≤ g)
    (hG2 : g + u ≤ G * (1 - u)) {a S T w d : ℝ} (hT : 0 ≤ T) (hd : d ≠ 0)
    (hE : |a - w - S| ≤ g * (|w| + T)) :
    |a - 0 - (S + fl (w / d) * d)| ≤ G * (|(0 : ℝ)| + (T + |fl (w / d)| * |d|)) := by
  set l := fl (w / d)
  have hl : |l - w / d| ≤ u * |w / d| := h (w / d)
  have hL : (1 - u) * |w / d| ≤ |l| := abs_le_of_round h (w / d)
  have hd0 : 0 < |d| := abs_pos.mpr hd
  have hwd : |w / d| * |d| = |w| := by rw [← abs_mul, div_mul_cancel₀ w hd]
  have h1 : |l * d - w| ≤ u * |w| := by
    have : l * d - w = (l - w / d) * d := by field_simp
    rw [this, abs_mul, ← hwd]
    calc |l - w / d| * |d| ≤ u * |w / d| * |d| := mul_le_mul_of_nonneg_right hl hd0.le
      _ = u * (|w / d| * |d|) := by ring
  have h2 : (1 - u) * |w| ≤ |l| * |d| := by
    rw [← hwd]
    calc (1 - u) * (|w / d| * |d|) = (1 - u) * |w / d| * |d| := by ring
      _ ≤ |l| * |d| := mul_le_mul_of_nonneg_right hL hd0.le
  have hsplit : a - 0 - (S + l * d) = (a - w - S) + (w - l * d) := by ring
  have h3 : |a - 0 - (S + l * d)| ≤ |a - w - S| + |l * d - w| := by
    rw [hsplit, abs_sub_comm (l * d) w]; exact abs_add_le _ _
  have hG0 : 0 ≤ G := by nlinarith
  have hgG : g ≤ G := by nlinarith
  have hT0 : g * T ≤ G * T := mul_le_mul_of_nonneg_right hgG hT
  have hw0 : 0 ≤ |w| := abs_nonneg w
  have hGW : (g + u) * |w| ≤ G * (|l| * |d|) := by
    calc (g + u) * |w| ≤ G * (1 - u) * |w| := mul_le_mul_of_nonneg_right hG2 hw0
      _ = G * ((1 - u) * |w|) := by ring
      _ ≤ G * (|l| * |d|) := mul_le_mul_of_nonneg_left h2 hG0
  have e1 : g * (|w| + T) = g * |w| + g * T := by ring
  have e2 : (g + u) * |w| = g * |w| + u * |w| := by ring
  have e4 : G * (|(0 : ℝ)| + (T + |l| * |d|)) = G * T + G * (|l| * |d|) := by simp; ring
  rw [e4]
  linarith


/-! ### the constructor run in rounded arithmetic -/
section Rounded
variable {m n : Nat}

theorem eliminate_rnd (fl : ℝ → ℝ) (W : Mat ℝ m n) (k : Fin n) (kr : Fin m) :
    @eliminate ℝ (rndScalar fl) m n W k kr =
      if W.get kr k = 0 then W else Mat.ofFn fun i j =>
        if kr.val < i.val then
          (if j = k then fl (W.get i k / W.get kr k)
           else if k.val < j.val then fl (W.get i j - fl (fl (W.get i k / W.get kr k) * W.get kr j))
           else W.get i j)
        else W.get i j := by
  unfold eliminate
  have hz : @Scalar.eqb ℝ (rndScalar fl) (W.get kr k) (@Scalar.zero ℝ (rndScalar fl)) = decide (W.get kr k = 0) := by
    show decide (W.get kr k = ((0 : Int) : ℝ)) = _
    simp
  rw [hz]
  by_cases h0 : W.get kr k = 0
  · simp [h0]
  · simp only [h0, decide_false, if_false]
    rfl

theorem findPivot_rnd (fl : ℝ → ℝ) (W : Mat ℝ m n) (k : Fin n) (kr : Fin m) :
    @findPivot ℝ (rndScalar fl) m n W k kr = @findPivot ℝ instScalarReal m n W k kr := rfl

theorem getL_rnd (fl : ℝ → ℝ) (s : State ℝ m n) : @getL ℝ (rndScalar fl) m n s = @getL ℝ instScalarReal m n s := rfl
theorem getU_rnd (fl : ℝ → ℝ) (h : n ≤ m) (s : State ℝ m n) : @getU ℝ (rndScalar fl) m n h s = @getU ℝ instScalarReal m n h s := rfl

/-- working entry `(i,j)` with the stored multipliers read as zeros -/
def Rk (W : Mat ℝ m n) (k : Nat) (i : Fin m) (j : Fin n) : ℝ := if j.val < k ∧ j.val < i.val then 0 else W.get i j
/-- entry `(l,j)` of the upper factor under construction -/
def Rp (h : n ≤ m) (W : Mat ℝ m n) (l j : Fin n) : ℝ := if j.val < l.val then 0 else W.get (l.castLE h) j

/-- loop invariant of the rounded constructor after `k` iterations: componentwise backward error
`|A(piv i, j) − R(i,j) − Σ_{l<min k i} W(i,l)·R(l,j)| ≤ γ_k·(|R(i,j)| + Σ |W(i,l)|·|R(l,j)|)` -/
def RInv (h : n ≤ m) (u : ℝ) (A : Mat ℝ m n) (k : Nat) (s : State ℝ m n) : Prop :=
  ∀ (i : Fin m) (j : Fin n),
    |A.get (s.piv[i.val]'i.isLt) j - Rk s.lu k i j - psum (min k i.val) (fun l => s.lu.get i l * Rp h s.lu l j)|
      ≤ gam k u * (|Rk s.lu k i j| + psum (min k i.val) (fun l => |s.lu.get i l| * |Rp h s.lu l j|))

theorem psum_nonneg (c : Nat) (f : Fin n → ℝ) (hf : ∀ l, 0 ≤ f l) : 0 ≤ psum c f := by
  rw [psum_eq_ite]
  apply Finset.sum_nonneg
  intro l _
  split
  · exact hf l
  · exact le_refl _

theorem bound_mono {x g G B : ℝ} (hx : |x| ≤ g * B) (hB : 0 ≤ B) (hgG : g ≤ G) : |x| ≤ G * B :=
  hx.trans (mul_le_mul_of_nonneg_right hgG hB)

theorem rInv_init (h : n ≤ m) (u : ℝ) (A : Mat ℝ m n) : RInv h u A 0 (init A) := by
  intro i j
  simp [init, psum_zero, Rk, gam]

theorem rInv_exchange (h : n ≤ m) (u : ℝ) (A : Mat ℝ m n) (k : Nat) (s : State ℝ m n) (p kr : Fin m)
    (hp : k ≤ p.val) (hkr : k ≤ kr.val) (hs : RInv h u A k s) : RInv h u A k (exchange s p kr) := by
  unfold exchange
  by_cases hpk : p = kr
  · simp [hpk]; exact hs
  · simp only [ne_eq, hpk, not_false_eq_true, if_true]
    intro i j
    obtain ⟨i', hi'piv, hi'lu, hi'⟩ : ∃ i' : Fin m,
        (swapPiv s.piv p kr)[i.val]'i.isLt = s.piv[i'.val]'i'.isLt ∧
        (∀ j', (swapRows s.lu p kr).get i j' = s.lu.get i' j') ∧
        (i' = i ∨ (k ≤ i.val ∧ k ≤ i'.val)) := by
      by_cases h1 : i = kr
      · refine ⟨p, ?_, ?_, Or.inr ⟨by rw [h1]; exact hkr, hp⟩⟩
        · simp [swapPiv, h1]
        · intro j'; simp [swapRows, h1]
      · by_cases h2 : i = p
        · subst h2
          refine ⟨kr, ?_, ?_, Or.inr ⟨hp, hkr⟩⟩
          · simp [swapPiv, h1]
          · intro j'; simp [swapRows, h1]
        · refine ⟨i, ?_, ?_, Or.inl rfl⟩
          · simp [swapPiv, h1, h2]
          · intro j'; simp [swapRows, h1, h2]
    have hcond : (j.val < k ∧ j.val < i.val) ↔ (j.val < k ∧ j.val < i'.val) := by
      rcases hi' with hi' | hi'
      · rw [hi']
      · constructor <;> intro hh <;> exact ⟨hh.1, by omega⟩
    have hmin : min k i.val = min k i'.val := by
      rcases hi' with hi' | hi'
      · rw [hi']
      · rw [min_eq_left hi'.1, min_eq_left hi'.2]
    have hRp : ∀ l : Fin n, l.val < min k i'.val → Rp h (swapRows s.lu p kr) l j = Rp h s.lu l j := by
      intro l hl
      have hlk : l.val < k := lt_of_lt_of_le hl (min_le_left _ _)
      have h1 : (l.castLE h) ≠ kr := by
        intro e; have := congrArg Fin.val e; simp at this; omega
      have h2 : (l.castLE h) ≠ p := by
        intro e; have := congrArg Fin.val e; simp at this; omega
      simp [Rp, swapRows, h1, h2]
    have e1 : Rk (swapRows s.lu p kr) k i j = Rk s.lu k i' j := by
      unfold Rk
      by_cases hc : j.val < k ∧ j.val < i.val
      · rw [if_pos hc, if_pos (hcond.mp hc)]
      · rw [if_neg hc, if_neg (fun h' => hc (hcond.mpr h')), hi'lu]
    have e2 : psum (min k i.val) (fun l => (swapRows s.lu p kr).get i l * Rp h (swapRows s.lu p kr) l j)
        = psum (min k i'.val) (fun l => s.lu.get i' l * Rp h s.lu l j) := by
      rw [hmin]
      apply psum_congr
      intro l hl
      rw [hi'lu, hRp l hl]
    have e3 : psum (min k i.val) (fun l => |(swapRows s.lu p kr).get i l| * |Rp h (swapRows s.lu p kr) l j|)
        = psum (min k i'.val) (fun l => |s.lu.get i' l| * |Rp h s.lu l j|) := by
      rw [hmin]
      apply psum_congr
      intro l hl
      rw [hi'lu, hRp l hl]
    show |A.get ((swapPiv s.piv p kr)[i.val]'i.isLt) j - _ - _| ≤ _
    rw [hi'piv, e1, e2, e3]
    exact hs i' j

/-- the (rounded) elimination of iteration `k` advances the invariant, `γ_k → γ_{k+1}` -/
theorem rInv_eliminate {fl : ℝ → ℝ} {u : ℝ} (hfl : StdModel fl u) (hu : 0 ≤ u)
    (h : n ≤ m) (A : Mat ℝ m n) (k : Fin n) (hku : ((k.val + 1 : Nat) : ℝ) * u < 1) (s : State ℝ m n)
    (hs : RInv h u A k.val s)
    (hz : s.lu.get (k.castLE h) k = 0 → ∀ i : Fin m, k.val < i.val → s.lu.get i k = 0) :
    RInv h u A (k.val + 1) { s with lu := @eliminate ℝ (rndScalar fl) m n s.lu k (k.castLE h) } := by
  have hk0 : (0 : ℝ) ≤ (k.val : ℝ) := Nat.cast_nonneg _
  have hku' : (k.val : ℝ) * u < 1 := by push_cast at hku; nlinarith
  have hu1 : u < 1 := by push_cast at hku; nlinarith [mul_nonneg hk0 hu]
  have hg := gam_nonneg hu hku'
  have hG1 := gam_step1 hu hku
  have hG2' := gam_step2 hu hku
  have hG2 : gam k.val u + u ≤ gam (k.val + 1) u * (1 - u) := by
    rw [div_le_iff₀ (by linarith)] at hG2'; exact hG2'
  have hgG := gam_mono hu hku
  intro i j
  have hsij := hs i j
  show |A.get (s.piv[i.val]'i.isLt) j - _ - _| ≤ _
  simp only
  rw [eliminate_rnd]
  set W := s.lu with hW
  set a := A.get (s.piv[i.val]'i.isLt) j with ha
  have hTnn : ∀ c, 0 ≤ psum c (fun l => |W.get i l| * |Rp h W l j|) :=
    fun c => psum_nonneg c _ (fun l => mul_nonneg (abs_nonneg _) (abs_nonneg _))
  by_cases hpz : W.get (k.castLE h) k = 0
  · -- skipped iteration: nothing changes, the column is zero below the diagonal
    rw [if_pos hpz]
    by_cases hik : k.val < i.val
    · have hz' := hz hpz i hik
      rw [min_eq_left (le_of_lt hik)] at hsij
      rw [min_eq_left (by omega : k.val + 1 ≤ i.val), psum_succ _ k.isLt, psum_succ _ k.isLt]
      simp only [Fin.eta, hz', zero_mul, add_zero, abs_zero]
      have hR : Rk W (k.val + 1) i j = Rk W k.val i j := by
        unfold Rk
        by_cases hjk : j.val < k.val
        · rw [if_pos ⟨by omega, by omega⟩, if_pos ⟨hjk, by omega⟩]
        · by_cases hjk2 : j.val = k.val
          · have : j = k := Fin.ext hjk2
            rw [if_pos ⟨by omega, by omega⟩, if_neg (fun hh => hjk hh.1), this, hz']
          · rw [if_neg (fun hh => by omega), if_neg (fun hh => hjk hh.1)]
      rw [hR]
      exact bound_mono hsij (add_nonneg (abs_nonneg _) (hTnn _)) hgG
    · have e1 : min k.val i.val = i.val := min_eq_right (by omega)
      have e2 : min (k.val + 1) i.val = i.val := min_eq_right (by omega)
      rw [e1] at hsij
      rw [e2]
      have hR : Rk W (k.val + 1) i j = Rk W k.val i j := by
        unfold Rk
        by_cases hc : j.val < k.val ∧ j.val < i.val
        · rw [if_pos hc, if_pos ⟨by omega, hc.2⟩]
        · rw [if_neg hc, if_neg (fun hh => hc ⟨by omega, hh.2⟩)]
      rw [hR]
      exact bound_mono hsij (add_nonneg (abs_nonneg _) (hTnn _)) hgG
  · rw [if_neg hpz]
    set W' : Mat ℝ m n := Mat.ofFn fun i j =>
        if (k.castLE h).val < i.val then
          (if j = k then fl (W.get i k / W.get (k.castLE h) k)
           else if k.val < j.val then fl (W.get i j - fl (fl (W.get i k / W.get (k.castLE h) k) * W.get (k.castLE h) j))
           else W.get i j)
        else W.get i j with hW'
    have hget : ∀ (i' : Fin m) (j' : Fin n), W'.get i' j' =
        if k.val < i'.val then
          (if j' = k then fl (W.get i' k / W.get (k.castLE h) k)
           else if k.val < j'.val then fl (W.get i' j' - fl (fl (W.get i' k / W.get (k.castLE h) k) * W.get (k.castLE h) j'))
           else W.get i' j')
        else W.get i' j' := by
      intro i' j'; simp [hW']
    -- rows at or above the pivot row are untouched
    have hrow : ∀ (i' : Fin m) (j' : Fin n), ¬ k.val < i'.val → W'.get i' j' = W.get i' j' := by
      intro i' j' hh; rw [hget, if_neg hh]
    have hRp : ∀ l : Fin n, l.val ≤ k.val → Rp h W' l j = Rp h W l j := by
      intro l hl
      unfold Rp
      rw [hrow (l.castLE h) j (by simp; omega)]
    by_cases hik : k.val < i.val
    · -- a row below the pivot row
      have hcol : ∀ l : Fin n, l.val < k.val → W'.get i l = W.get i l := by
        intro l hl
        have h1 : l ≠ k := by intro e; rw [e] at hl; exact lt_irrefl _ hl
        rw [hget, if_pos hik, if_neg h1, if_neg (by omega)]
      have hS : psum k.val (fun l => W'.get i l * Rp h W' l j) = psum k.val (fun l => W.get i l * Rp h W l j) :=
        psum_congr _ _ _ (fun l hl => by rw [hcol l hl, hRp l (le_of_lt hl)])
      have hT : psum k.val (fun l => |W'.get i l| * |Rp h W' l j|) = psum k.val (fun l => |W.get i l| * |Rp h W l j|) :=
        psum_congr _ _ _ (fun l hl => by rw [hcol l hl, hRp l (le_of_lt hl)])
      rw [min_eq_left (le_of_lt hik)] at hsij
      rw [min_eq_left (by omega : k.val + 1 ≤ i.val), psum_succ _ k.isLt, psum_succ _ k.isLt, hS, hT]
      simp only [Fin.eta]
      rw [hRp k (le_refl _)]
      have hlm : W'.get i k = fl (W.get i k / W.get (k.castLE h) k) := by
        rw [hget, if_pos hik, if_pos rfl]
      rw [hlm]
      set S := psum k.val (fun l => W.get i l * Rp h W l j)
      set T := psum k.val (fun l => |W.get i l| * |Rp h W l j|)
      have hT0 : 0 ≤ T := hTnn _
      rcases lt_trichotomy j.val k.val with hjk | hjk | hjk
      · -- a column already eliminated: both `R` entries and the new term are zero
        have r1 : Rk W' (k.val + 1) i j = 0 := by unfold Rk; rw [if_pos ⟨by omega, by omega⟩]
        have r2 : Rk W k.val i j = 0 := by unfold Rk; rw [if_pos ⟨hjk, by omega⟩]
        have r3 : Rp h W k j = 0 := by unfold Rp; rw [if_pos hjk]
        rw [r2] at hsij
        rw [r1, r3]
        simp only [mul_zero, add_zero, abs_zero]
        simp only [abs_zero] at hsij
        exact bound_mono hsij (add_nonneg (le_refl _) hT0) hgG
      · -- the multiplier column
        have hjk' : j = k := Fin.ext hjk
        subst hjk'
        have r1 : Rk W' (j.val + 1) i j = 0 := by unfold Rk; rw [if_pos ⟨by omega, hik⟩]
        have r2 : Rk W j.val i j = W.get i j := by unfold Rk; rw [if_neg (fun hh => lt_irrefl _ hh.1)]
        have r3 : Rp h W j j = W.get (j.castLE h) j := by unfold Rp; rw [if_neg (lt_irrefl _)]
        rw [r2] at hsij
        rw [r1, r3]
        exact cell_divide hfl hu hu1 hg hG2 hT0 hpz hsij
      · -- the trailing block
        have h1 : j ≠ k := by intro e; rw [e] at hjk; exact lt_irrefl _ hjk
        have r1 : Rk W' (k.val + 1) i j =
            fl (W.get i j - fl (fl (W.get i k / W.get (k.castLE h) k) * W.get (k.castLE h) j)) := by
          unfold Rk; rw [if_neg (fun hh => by omega), hget, if_pos hik, if_neg h1, if_pos hjk]
        have r2 : Rk W k.val i j = W.get i j := by unfold Rk; rw [if_neg (fun hh => by omega)]
        have r3 : Rp h W k j = W.get (k.castLE h) j := by unfold Rp; rw [if_neg (by omega)]
        rw [r2] at hsij
        rw [r1, r3]
        exact cell_update hfl hu hu1 hg hG1 hG2 hT0 hsij
    · -- a row at or above the pivot row: nothing changes
      have e1 : min k.val i.val = i.val := min_eq_right (by omega)
      have e2 : min (k.val + 1) i.val = i.val := min_eq_right (by omega)
      rw [e1] at hsij
      rw [e2]
      have hS : psum i.val (fun l => W'.get i l * Rp h W' l j) = psum i.val (fun l => W.get i l * Rp h W l j) :=
        psum_congr _ _ _ (fun l hl => by rw [hrow i l hik, hRp l (by omega)])
      have hT : psum i.val (fun l => |W'.get i l| * |Rp h W' l j|) = psum i.val (fun l => |W.get i l| * |Rp h W l j|) :=
        psum_congr _ _ _ (fun l hl => by rw [hrow i l hik, hRp l (by omega)])
      have hR : Rk W' (k.val + 1) i j = Rk W k.val i j := by
        unfold Rk
        by_cases hc : j.val < k.val ∧ j.val < i.val
        · rw [if_pos hc, if_pos ⟨by omega, hc.2⟩]
        · rw [if_neg hc, if_neg (fun hh => hc ⟨by omega, hh.2⟩), hrow i j hik]
      rw [hS, hT, hR]
      exact bound_mono hsij (add_nonneg (abs_nonneg _) (hTnn _)) hgG

theorem rInv_step {fl : ℝ → ℝ} {u : ℝ} (hfl : StdModel fl u) (hu : 0 ≤ u)
    (h : n ≤ m) (A : Mat ℝ m n) (k : Fin n) (hku : ((k.val + 1 : Nat) : ℝ) * u < 1) (s : State ℝ m n)
    (hs : RInv h u A k.val s) : RInv h u A (k.val + 1) (@step ℝ (rndScalar fl) m n h s k) := by
  unfold step
  simp only
  rw [findPivot_rnd]
  have hp := (findPivot_spec s.lu k (k.castLE h)).1
  have h1 := rInv_exchange h u A k.val s (findPivot s.lu k (k.castLE h)) (k.castLE h)
    (by simpa using hp) (by simp) hs
  apply rInv_eliminate hfl hu h A k hku _ h1
  intro hz i hi
  have := exchange_pivot_max s k (k.castLE h) i (by simp; omega)
  rw [hz, abs_zero] at this
  exact abs_eq_zero.mp (le_antisymm this (abs_nonneg _))

theorem rInv_factor {fl : ℝ → ℝ} {u : ℝ} (hfl : StdModel fl u) (hu : 0 ≤ u)
    (h : n ≤ m) (hnu : (n : ℝ) * u < 1) (A : Mat ℝ m n) : RInv h u A n (@factor ℝ (rndScalar fl) m n h A) := by
  unfold factor
  exact foldl_inv (fun k s => RInv h u A k s) n (@step ℝ (rndScalar fl) m n h) (init A) (rInv_init h u A)
    (fun k t hk => rInv_step hfl hu h A k (by
      have h1 : ((k.val + 1 : Nat) : ℝ) ≤ (n : ℝ) := by exact_mod_cast k.isLt
      nlinarith) t hk)

/-- entry `(i,j)` of `getL · getU`, for any state -/
theorem getLU_entries (h : n ≤ m) (s : State ℝ m n) (i : Fin m) (j : Fin n) :
    psum (min n i.val) (fun l => s.lu.get i l * (if j.val < l.val then 0 else s.lu.get (l.castLE h) j))
      + (if j.val < n ∧ j.val < i.val then 0 else s.lu.get i j)
    = (matMul (getL s) (getU h s)).get i j := by
  simp only [matMul, Mat.get_ofFn, sumFin_eq, getL, getU, ScalarReal.one_eq, ScalarReal.zero_eq]
  have hsplit : ∀ l : Fin n,
      (if l.val < i.val then s.lu.get i l else if i.val = l.val then 1 else 0) *
        (if l.val ≤ j.val then s.lu.get (l.castLE h) j else 0)
      = (if l.val < min n i.val then s.lu.get i l * (if j.val < l.val then 0 else s.lu.get (l.castLE h) j) else 0)
        + (if i.val = l.val then (if l.val ≤ j.val then s.lu.get (l.castLE h) j else 0) else 0) := by
    intro l
    have hl : l.val < n := l.isLt
    by_cases h1 : l.val < i.val
    · have h2 : l.val < min n i.val := lt_min hl h1
      have h3 : ¬ i.val = l.val := by omega
      rw [if_pos h1, if_pos h2, if_neg h3, add_zero]
      by_cases h4 : l.val ≤ j.val
      · rw [if_pos h4, if_neg (by omega)]
      · rw [if_neg h4, if_pos (by omega)]
    · have h2 : ¬ l.val < min n i.val := fun hh => h1 (lt_of_lt_of_le hh (min_le_right _ _))
      rw [if_neg h1, if_neg h2, zero_add]
      by_cases h3 : i.val = l.val
      · rw [if_pos h3, if_pos h3, one_mul]
      · rw [if_neg h3, if_neg h3, zero_mul]
  simp only [hsplit, Finset.sum_add_distrib, psum]
  congr 1
  by_cases hin : i.val < n
  · have : ∀ l : Fin n, (i.val = l.val) = (l = ⟨i.val, hin⟩) := by
      intro l; apply propext; constructor
      · intro e; ext; exact e.symm
      · intro e; rw [e]
    simp only [this, Finset.sum_ite_eq', Finset.mem_univ, if_true]
    have hc : (⟨i.val, hin⟩ : Fin n).castLE h = i := by ext; simp
    rw [hc]
    by_cases h5 : j.val < i.val
    · rw [if_pos ⟨j.isLt, h5⟩, if_neg (by omega)]
    · rw [if_neg (fun hh => h5 hh.2), if_pos (by omega)]
  · have : ∀ l : Fin n, ¬ i.val = l.val := by intro l; have := l.isLt; omega
    simp only [this, if_false, Finset.sum_const_zero]
    rw [if_pos ⟨j.isLt, by have := j.isLt; omega⟩]

/-- entry-wise absolute value -/
noncomputable def absM {a b : Nat} (M : Mat ℝ a b) : Mat ℝ a b := Mat.ofFn fun i j => |M.get i j|

/-- **backward error of the factorisation in rounded arithmetic** (Higham, Accuracy and Stability
of Numerical Algorithms, Thm 9.3, for the code's right-looking elimination with partial pivoting and
zero-pivot skip): `|A(piv,:) − L̂·Û| ≤ γ_n·|L̂|·|Û|` componentwise, `L̂`, `Û`, `piv` being what the
constructor computes when every `/`, `*`, `−` is followed by a rounding `fl` with
`|fl x − x| ≤ u·|x|` and `n·u < 1` -/
theorem factor_rounded_entries {fl : ℝ → ℝ} {u : ℝ} (hfl : StdModel fl u) (hu : 0 ≤ u)
    (h : n ≤ m) (hnu : (n : ℝ) * u < 1) (A : Mat ℝ m n) (i : Fin m) (j : Fin n) :
    |(permuteRows (@factor ℝ (rndScalar fl) m n h A).piv A).get i j
        - (matMul (getL (@factor ℝ (rndScalar fl) m n h A)) (getU h (@factor ℝ (rndScalar fl) m n h A))).get i j|
      ≤ gam n u * (matMul (absM (getL (@factor ℝ (rndScalar fl) m n h A)))
          (absM (getU h (@factor ℝ (rndScalar fl) m n h A)))).get i j := by
  have hinv := rInv_factor hfl hu h hnu A i j
  generalize @factor ℝ (rndScalar fl) m n h A = s at hinv
  -- the state with every packed entry replaced by its magnitude
  set sa : State ℝ m n := { s with lu := absM s.lu } with hsa
  have hL : absM (getL s) = getL sa := by
    apply Mat.ext; intro a b
    simp only [absM, getL, Mat.get_ofFn, hsa, ScalarReal.one_eq, ScalarReal.zero_eq]
    split
    · rfl
    · split <;> simp
  have hU : absM (getU h s) = getU h sa := by
    apply Mat.ext; intro a b
    simp only [absM, getU, Mat.get_ofFn, hsa, ScalarReal.zero_eq]
    split
    · rfl
    · simp
  rw [hL, hU, ← getLU_entries h s i j, ← getLU_entries h sa i j]
  simp only [permuteRows, Mat.get_ofFn]
  have e1 : A.get (s.piv[i.val]'i.isLt) j
        - (psum (min n i.val) (fun l => s.lu.get i l * (if j.val < l.val then 0 else s.lu.get (l.castLE h) j))
          + (if j.val < n ∧ j.val < i.val then 0 else s.lu.get i j))
      = A.get (s.piv[i.val]'i.isLt) j - Rk s.lu n i j - psum (min n i.val) (fun l => s.lu.get i l * Rp h s.lu l j) := by
    simp only [Rk, Rp]; ring
  have e2 : psum (min n i.val) (fun l => sa.lu.get i l * (if j.val < l.val then 0 else sa.lu.get (l.castLE h) j))
        + (if j.val < n ∧ j.val < i.val then 0 else sa.lu.get i j)
      = |Rk s.lu n i j| + psum (min n i.val) (fun l => |s.lu.get i l| * |Rp h s.lu l j|) := by
    rw [add_comm]
    congr 1
    · simp only [Rk, hsa, absM, Mat.get_ofFn]; split <;> simp
    · apply psum_congr
      intro l _
      simp only [Rp, hsa, absM, Mat.get_ofFn]; split <;> simp
  rw [e1, e2]
  exact hinv

end Rounded

end Bpp.LU
