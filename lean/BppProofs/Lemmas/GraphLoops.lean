import BppProofs.Lemmas.Graph
/-! Helper lemmas for C14 (GlobalGraph), continued: the loops (deleteNode, makeDirected, makeUndirected) -/
set_option linter.unusedSimpArgs false
set_option linter.unusedVariables false
set_option linter.unusedSectionVars false
namespace Bpp
namespace Graph
open AL
namespace G

/-! #### deleteNode: the loops of `isolate_` -/

/-- `unlink` over a list of pairs, stopping at the first one that raises -/
def unlinkMany : List (Nat × Nat) → G → GOut Unit
  | [], g => .ok () g
  | p :: rest, g =>
    match unlink p.1 p.2 g with
    | .exc g' => .exc g'
    | .ok _ g' => unlinkMany rest g'

theorem isolateOut_eq (n : Nat) (l : List Nat) (g : G) : isolateOut n l g = unlinkMany (l.map (fun y => (n, y))) g := by
  induction l generalizing g with
  | nil => rfl
  | cons y r ih =>
    simp only [isolateOut, List.map_cons, unlinkMany]
    cases unlink n y g <;> simp [ih]

theorem isolateIn_eq (n : Nat) (l : List Nat) (g : G) : isolateIn n l g = unlinkMany (l.map (fun y => (y, n))) g := by
  induction l generalizing g with
  | nil => rfl
  | cons y r ih =>
    simp only [isolateIn, List.map_cons, unlinkMany]
    cases unlink y n g <;> simp [ih]

theorem unlinkMany_consistent {g : G} (hc : Consistent g) (ps : List (Nat × Nat)) : (unlinkMany ps g).All Consistent := by
  induction ps generalizing g with
  | nil => exact hc
  | cons p r ih =>
    simp only [unlinkMany]
    have h := unlink_consistent hc p.1 p.2
    rcases hr : unlink p.1 p.2 g with ⟨l, g1⟩ | g1 <;> rw [hr] at h <;> simp only [GOut.All] at h ⊢
    · exact ih h
    · exact h

/-- the relation x -> y is one of the removed ones (either orientation when undirected) -/
def Rel (d : Bool) (ps : List (Nat × Nat)) (x y : Nat) : Prop := (x, y) ∈ ps ∨ (d = false ∧ (y, x) ∈ ps)

instance (d : Bool) (ps : List (Nat × Nat)) (x y : Nat) : Decidable (Rel d ps x y) := by unfold Rel; infer_instance

structure UnlinkedMany (ps : List (Nat × Nat)) (g g' : G) : Prop where
  hasNode : ∀ n, g'.hasNode n = g.hasNode n
  keys : AL.keys g'.nodes = AL.keys g.nodes
  outE : ∀ x y, g'.outE x y = if Rel g.directed ps x y then none else g.outE x y
  inE : ∀ x y, g'.inE y x = if Rel g.directed ps x y then none else g.inE y x
  edges : ∀ e, find e g'.edges =
    match find e g.edges with
    | some (a, b) => if Rel g.directed ps a b then none else some (a, b)
    | none => none
  rest : g'.directed = g.directed ∧ g'.nextNode = g.nextNode ∧ g'.nextEdge = g.nextEdge ∧ g'.root = g.root

/-- the pairs are distinct relations: a later pair is neither an earlier one nor (undirected) its reverse -/
def DistinctRel (d : Bool) : List (Nat × Nat) → Prop
  | [] => True
  | p :: rest => ¬ Rel d rest p.1 p.2 ∧ DistinctRel d rest

theorem unlinkMany_spec {g : G} (hc : Consistent g) (ps : List (Nat × Nat))
    (hpres : ∀ p ∈ ps, (g.outE p.1 p.2).isSome = true) (hdist : DistinctRel g.directed ps) :
    ∃ g', unlinkMany ps g = .ok () g' ∧ Consistent g' ∧ UnlinkedMany ps g g' := by
  induction ps generalizing g with
  | nil =>
    refine ⟨g, rfl, hc, ⟨fun _ => rfl, rfl, ?_, ?_, ?_, by simp⟩⟩
    · intro x y; simp [Rel]
    · intro x y; simp [Rel]
    · intro e; rcases find_cases e g.edges with hf | ⟨⟨a, b⟩, hf⟩ <;> simp [hf, Rel]
  | cons p r ih =>
    obtain ⟨a, b⟩ := p
    have hab := hpres (a, b) (by simp)
    rcases hO : g.outE a b with _ | e
    · simp [hO] at hab
    · obtain ⟨g1, h1, u1⟩ := unlink_some hc hO
      have hc1 := u1.consistent hc hO
      have hd1 : g1.directed = g.directed := u1.rest.1
      obtain ⟨hnr, hdr⟩ := hdist
      have hpres1 : ∀ p ∈ r, (g1.outE p.1 p.2).isSome = true := by
        intro q hq
        rw [u1.outE]
        have hq' := hpres q (by simp [hq])
        have : ¬ ((q.1 = a ∧ q.2 = b) ∨ (g.directed = false ∧ q.1 = b ∧ q.2 = a)) := by
          intro hh
          apply hnr
          rcases hh with ⟨h1, h2⟩ | ⟨hd, h1, h2⟩
          · left; show (a, b) ∈ r; rw [← h1, ← h2]; exact hq
          · right; refine ⟨hd, ?_⟩; show (b, a) ∈ r; rw [← h1, ← h2]; exact hq
        simp [this, hq']
      obtain ⟨g', h2, hc', u2⟩ := ih hc1 hpres1 (by rw [hd1]; exact hdr)
      refine ⟨g', by simp [unlinkMany, h1, h2], hc', ?_⟩
      refine ⟨fun n => by rw [u2.hasNode, u1.hasNode], by rw [u2.keys, u1.keys], ?_, ?_, ?_, by simp [u2.rest, u1.rest]⟩
      · intro x y
        rw [u2.outE, u1.outE, hd1]
        simp only [Rel, List.mem_cons, Prod.mk.injEq]
        grind
      · intro x y
        rw [u2.inE, u1.inE, hd1]
        simp only [Rel, List.mem_cons, Prod.mk.injEq]
        grind
      · intro e'
        rw [u2.edges, u1.edges, find_erase, hd1]
        by_cases hee : e = e'
        · subst hee
          -- the erased edge is the one between a and b
          have hE := hc.views.out_edge a b e hO
          rcases hE with hE | ⟨hd, hE⟩
          · simp [hE, Rel]
          · simp [hE, Rel, hd]
        · simp only [hee, if_false]
          rcases find_cases e' g.edges with hf | ⟨⟨x, y⟩, hf⟩
          · simp [hf]
          · simp only [hf]
            -- an edge other than e is not between a and b
            have hne : ¬ ((x = a ∧ y = b) ∨ (g.directed = false ∧ x = b ∧ y = a)) := by
              intro hh
              have hl := hc.views.edge_listed e' x y hf
              rcases hh with ⟨h1, h2⟩ | ⟨hd, h1, h2⟩
              · subst h1; subst h2; rw [hl.1] at hO; injection hO with hO; exact hee hO.symm
              · subst h1; subst h2; rw [(hl.2.2 hd).1] at hO; injection hO with hO; exact hee hO.symm
            simp only [Rel, List.mem_cons, Prod.mk.injEq]
            grind

theorem distinct_out (d : Bool) (n : Nat) (l : List Nat) (h : List.Pairwise (· < ·) l) :
    DistinctRel d (l.map (fun y => (n, y))) := by
  induction l with
  | nil => trivial
  | cons y r ih =>
    rw [List.pairwise_cons] at h
    refine ⟨?_, ih h.2⟩
    simp only [Rel, List.mem_map, Prod.mk.injEq]
    rintro (⟨y', hy', _, rfl⟩ | ⟨_, y', hy', rfl, rfl⟩)
    · have := h.1 _ hy'; omega
    · have := h.1 _ hy'; omega

theorem distinct_in (d : Bool) (n : Nat) (l : List Nat) (h : List.Pairwise (· < ·) l) :
    DistinctRel d (l.map (fun y => (y, n))) := by
  induction l with
  | nil => trivial
  | cons y r ih =>
    rw [List.pairwise_cons] at h
    refine ⟨?_, ih h.2⟩
    simp only [Rel, List.mem_map, Prod.mk.injEq]
    rintro (⟨y', hy', rfl, _⟩ | ⟨_, y', hy', rfl, rfl⟩)
    · have := h.1 _ hy'; omega
    · have := h.1 _ hy'; omega

theorem mem_outKeys {g : G} {n y : Nat} : y ∈ g.outKeys n ↔ (g.outE n y).isSome = true := by
  unfold outKeys G.outE
  rcases find_cases n g.nodes with hf | ⟨r, hf⟩
  · simp [hf]
  · simp [hf, mem_keys_iff]

theorem mem_inKeys {g : G} {n y : Nat} : y ∈ g.inKeys n ↔ (g.inE n y).isSome = true := by
  unfold inKeys G.inE
  rcases find_cases n g.nodes with hf | ⟨r, hf⟩
  · simp [hf]
  · simp [hf, mem_keys_iff]

theorem asc_outKeys {g : G} (hs : Sorted g) (n : Nat) : List.Pairwise (· < ·) (g.outKeys n) := by
  unfold outKeys
  rcases find_cases n g.nodes with hf | ⟨r, hf⟩
  · simp [hf]
  · simp only [hf]; exact (hs.rows n r hf).1

theorem asc_inKeys {g : G} (hs : Sorted g) (n : Nat) : List.Pairwise (· < ·) (g.inKeys n) := by
  unfold inKeys
  rcases find_cases n g.nodes with hf | ⟨r, hf⟩
  · simp [hf]
  · simp only [hf]; exact (hs.rows n r hf).2

/-- what `deleteNode n` did: `n` and every relation touching it are gone from all views -/
structure Deleted (n : Nat) (g g' : G) : Prop where
  hasNode : ∀ x, g'.hasNode x = (!decide (x = n) && g.hasNode x)
  keys : AL.keys g'.nodes = (AL.keys g.nodes).filter (· ≠ n)
  outE : ∀ x y, g'.outE x y = if x = n ∨ y = n then none else g.outE x y
  inE : ∀ x y, g'.inE y x = if x = n ∨ y = n then none else g.inE y x
  edges : ∀ e, find e g'.edges =
    match find e g.edges with
    | some (a, b) => if a = n ∨ b = n then none else some (a, b)
    | none => none
  rest : g'.directed = g.directed ∧ g'.nextNode = g.nextNode ∧ g'.nextEdge = g.nextEdge ∧ g'.root = g.root

theorem deleteNode_absent {g : G} {n : Nat} (h : g.hasNode n = false) : deleteNode n g = .exc g := by
  simp [deleteNode, h]

theorem deleteNode_spec {g : G} (hc : Consistent g) {n : Nat} (hn : g.hasNode n = true) :
    ∃ g', deleteNode n g = .ok () g' ∧ Consistent g' ∧ Deleted n g g' := by
  -- first loop
  have hp1 : ∀ p ∈ (g.outKeys n).map (fun y => (n, y)), (g.outE p.1 p.2).isSome = true := by
    intro p hp
    simp only [List.mem_map] at hp
    obtain ⟨y, hy, rfl⟩ := hp
    exact mem_outKeys.mp hy
  obtain ⟨g1, h1, hc1, u1⟩ := unlinkMany_spec hc _ hp1 (distinct_out _ n _ (asc_outKeys hc.sorted n))
  have hd1 : g1.directed = g.directed := u1.rest.1
  have hO1 : ∀ y, g1.outE n y = none := by
    intro y
    rw [u1.outE]
    by_cases hy : y ∈ g.outKeys n
    · have : Rel g.directed ((g.outKeys n).map (fun y => (n, y))) n y := Or.inl (List.mem_map.mpr ⟨y, hy, rfl⟩)
      simp [this]
    · have : g.outE n y = none := by
        have := mt mem_outKeys.mpr hy
        cases h : g.outE n y <;> simp_all
      split <;> simp [this]
  -- second loop
  have hp2 : ∀ p ∈ (g1.inKeys n).map (fun y => (y, n)), (g1.outE p.1 p.2).isSome = true := by
    intro p hp
    simp only [List.mem_map] at hp
    obtain ⟨y, hy, rfl⟩ := hp
    have hI := mem_inKeys.mp hy
    rcases hIe : g1.inE n y with _ | e
    · simp [hIe] at hI
    · have := hc1.views.in_edge y n e hIe
      rcases this with hE | ⟨hd, hE⟩
      · simp [(hc1.views.edge_listed e y n hE).1]
      · have := (hc1.views.edge_listed e n y hE).1
        rw [hO1] at this; cases this
  obtain ⟨g2, h2, hc2, u2⟩ := unlinkMany_spec hc1 _ hp2 (distinct_in _ n _ (asc_inKeys hc1.sorted n))
  have hO2 : ∀ y, g2.outE n y = none := by
    intro y; rw [u2.outE, hO1]; split <;> rfl
  have hI2 : ∀ y, g2.inE n y = none := by
    intro y
    rw [u2.inE]
    by_cases hy : y ∈ g1.inKeys n
    · have : Rel g1.directed ((g1.inKeys n).map (fun y => (y, n))) y n := Or.inl (List.mem_map.mpr ⟨y, hy, rfl⟩)
      simp [this]
    · have : g1.inE n y = none := by
        have := mt mem_inKeys.mpr hy
        cases h : g1.inE n y <;> simp_all
      split <;> simp [this]
  have hn1 : g1.hasNode n = true := by rw [u1.hasNode]; exact hn
  have hn2 : g2.hasNode n = true := by rw [u2.hasNode]; exact hn1
  have hrun : deleteNode n g = .ok () { g2 with nodes := AL.erase n g2.nodes, pending := g2.pending ++ [.nodes [n]] } := by
    simp only [deleteNode, hn, isolateOut_eq, h1, hn1, isolateIn_eq, h2, hn2]
    simp
  -- views of the final state
  have hrow : ∀ x, find x (AL.erase n g2.nodes) = if n = x then none else find x g2.nodes := fun x => find_erase _ _ _
  have hN' : ∀ x, AL.has x (AL.erase n g2.nodes) = (!decide (x = n) && g2.hasNode x) := by
    intro x
    simp only [has, hrow, G.hasNode]
    by_cases h : n = x
    · subst h; simp
    · have : ¬ x = n := fun h' => h h'.symm
      simp [h, this]
  have hOf : ∀ x y, (find x (AL.erase n g2.nodes)).bind (fun r => find y r.out) = if x = n then none else g2.outE x y := by
    intro x y
    simp only [hrow, G.outE]
    by_cases h : n = x
    · subst h; simp
    · have : ¬ x = n := fun h' => h h'.symm
      simp [h, this]
  have hIf : ∀ x y, (find y (AL.erase n g2.nodes)).bind (fun r => find x r.inn) = if y = n then none else g2.inE y x := by
    intro x y
    simp only [hrow, G.inE]
    by_cases h : n = y
    · subst h; simp
    · have : ¬ y = n := fun h' => h h'.symm
      simp [h, this]
  refine ⟨_, hrun, ?_, ?_⟩
  · refine ⟨?_, ?_, hc2.edge_lt, ?_⟩
    · exact hc2.views.eraseNode n hO2 hI2 hN' hOf hIf
    · intro x hx
      have : g2.hasNode x = true := by
        have := hN' x
        simp only [G.hasNode] at hx
        rw [this] at hx
        simp at hx; exact hx.2
      exact hc2.node_lt x this
    · refine ⟨asc_erase _ _ hc2.sorted.nodes, hc2.sorted.edges, ?_⟩
      intro x r hr
      rw [hrow] at hr
      split at hr
      · cases hr
      · exact hc2.sorted.rows x r hr
  · -- Deleted n g (final)
    have hrel1 : ∀ x y, x ≠ n → y ≠ n → ¬ Rel g.directed ((g.outKeys n).map (fun y => (n, y))) x y := by
      intro x y hx hy h
      simp only [Rel, List.mem_map, Prod.mk.injEq] at h
      rcases h with ⟨_, _, h, _⟩ | ⟨_, _, _, h, _⟩
      · exact hx h.symm
      · exact hy h.symm
    have hrel2 : ∀ x y, x ≠ n → y ≠ n → ¬ Rel g1.directed ((g1.inKeys n).map (fun y => (y, n))) x y := by
      intro x y hx hy h
      simp only [Rel, List.mem_map, Prod.mk.injEq] at h
      rcases h with ⟨_, _, _, h⟩ | ⟨_, _, _, _, h⟩
      · exact hy h.symm
      · exact hx h.symm
    refine ⟨?_, ?_, ?_, ?_, ?_, by simp [u2.rest, u1.rest]⟩
    · intro x
      show AL.has x (AL.erase n g2.nodes) = _
      rw [hN', u2.hasNode, u1.hasNode]
    · show AL.keys (AL.erase n g2.nodes) = _
      rw [← u1.keys, ← u2.keys]
      simp [AL.keys, AL.erase, List.filter_map, Function.comp_def]
    · intro x y
      show (find x (AL.erase n g2.nodes)).bind (fun r => find y r.out) = _
      rw [hOf]
      by_cases hx : x = n
      · simp [hx]
      · by_cases hy : y = n
        · subst hy
          simp only [hx, if_false, or_true, if_true]
          rcases hOe : g2.outE x y with _ | e
          · rfl
          · have := hc2.views.out_edge x y e hOe
            rcases this with hE | ⟨hd, hE⟩
            · have := (hc2.views.edge_listed e x y hE).2.1
              rw [hI2] at this; cases this
            · have := (hc2.views.edge_listed e y x hE).1
              rw [hO2] at this; cases this
        · simp only [hx, hy, if_false, or_self]
          rw [u2.outE, u1.outE]
          simp [hrel1 x y hx hy, hrel2 x y hx hy]
    · intro x y
      show (find y (AL.erase n g2.nodes)).bind (fun r => find x r.inn) = _
      rw [hIf]
      by_cases hy : y = n
      · simp [hy]
      · by_cases hx : x = n
        · subst hx
          simp only [hy, if_false, true_or, if_true]
          rcases hIe : g2.inE y x with _ | e
          · rfl
          · have := hc2.views.in_edge x y e hIe
            rcases this with hE | ⟨hd, hE⟩
            · have := (hc2.views.edge_listed e x y hE).1
              rw [hO2] at this; cases this
            · have := (hc2.views.edge_listed e y x hE).2.1
              rw [hI2] at this; cases this
        · simp only [hx, hy, if_false, or_self]
          rw [u2.inE, u1.inE]
          simp [hrel1 x y hx hy, hrel2 x y hx hy]
    · intro e
      show find e g2.edges = _
      rcases find_cases e g.edges with hf | ⟨⟨a, b⟩, hf⟩
      · rw [u2.edges, u1.edges, hf]
      · simp only [hf]
        by_cases hab : a = n ∨ b = n
        · simp only [hab, if_true]
          rcases hf2 : find e g2.edges with _ | ⟨a', b'⟩
          · rfl
          · have hsub : (a', b') = (a, b) := by
              have := u2.edges e
              rw [u1.edges, hf, hf2] at this
              by_cases r1 : Rel g.directed ((g.outKeys n).map (fun y => (n, y))) a b
              · simp [r1] at this
              · simp only [r1, if_false] at this
                by_cases r2 : Rel g1.directed ((g1.inKeys n).map (fun y => (y, n))) a b
                · simp [r2] at this
                · simp only [r2, if_false] at this
                  injection this
            injection hsub with ha hb; subst ha; subst hb
            have hl := hc2.views.edge_listed e a' b' hf2
            rcases hab with rfl | rfl
            · rw [hO2] at hl; cases hl.1
            · rw [hI2] at hl; cases hl.2.1
        · have ha : a ≠ n := fun h => hab (Or.inl h)
          have hb : b ≠ n := fun h => hab (Or.inr h)
          rw [u2.edges, u1.edges, hf]
          simp [hrel1 a b ha hb, hrel2 a b ha hb, hab]

theorem deleteNode_consistent {g : G} (hc : Consistent g) (n : Nat) : (deleteNode n g).All Consistent := by
  cases hn : g.hasNode n
  · rw [deleteNode_absent hn]; exact hc
  · obtain ⟨g', h, hc', _⟩ := deleteNode_spec hc hn
    rw [h]; exact hc'

/-! #### rebuilding the node table (`makeDirected`, `makeUndirected`) -/

/-- the first edge recorded for the relation x -> y in a list of triples -/
def first : List (Nat × Nat × Nat) → Nat → Nat → Option Nat
  | [], _, _ => none
  | (a, b, e) :: r, x, y => if a = x ∧ b = y then some e else first r x y

/-- folding `linkInNodeStructure_` over a list of triples -/
def rebuild (L : List (Nat × Nat × Nat)) (g : G) : G := L.foldl (fun acc t => linkInNode t.1 t.2.1 t.2.2 acc) g

theorem rebuild_rest (L : List (Nat × Nat × Nat)) (g : G) :
    (∀ n, (rebuild L g).hasNode n = g.hasNode n) ∧ (rebuild L g).edges = g.edges ∧ (rebuild L g).directed = g.directed ∧
    (rebuild L g).nextNode = g.nextNode ∧ (rebuild L g).nextEdge = g.nextEdge ∧ (rebuild L g).root = g.root ∧
    (rebuild L g).pending = g.pending ∧ (Sorted g → Sorted (rebuild L g)) := by
  induction L generalizing g with
  | nil => simp [rebuild]
  | cons t r ih =>
    have := ih (linkInNode t.1 t.2.1 t.2.2 g)
    simp only [rebuild, List.foldl_cons] at this ⊢
    refine ⟨fun n => by rw [this.1, hasNode_linkInNode], by rw [this.2.1]; rfl, by rw [this.2.2.1]; rfl,
      by rw [this.2.2.2.1]; rfl, by rw [this.2.2.2.2.1]; rfl, by rw [this.2.2.2.2.2.1]; rfl, by rw [this.2.2.2.2.2.2.1]; rfl,
      fun hs => this.2.2.2.2.2.2.2 (sorted_linkInNode _ _ _ _ hs)⟩

theorem outE_rebuild (L : List (Nat × Nat × Nat)) (g : G) (x y : Nat) :
    (rebuild L g).outE x y = (g.outE x y).orElse (fun _ => if g.hasNode x = true then first L x y else none) := by
  induction L generalizing g with
  | nil => simp [rebuild, first]
  | cons t r ih =>
    obtain ⟨a, b, e⟩ := t
    have := ih (linkInNode a b e g)
    simp only [rebuild, List.foldl_cons] at this ⊢
    rw [this, outE_linkInNode, hasNode_linkInNode]
    simp only [first]
    by_cases h1 : x = a <;> by_cases h2 : y = b
    · subst h1; subst h2
      cases hn : g.hasNode x <;> cases ho : g.outE x y <;> simp [hn, ho]
    · have : ¬ b = y := fun h => h2 h.symm
      simp [h1, h2, this]
    · have : ¬ a = x := fun h => h1 h.symm
      simp [h1, h2, this]
    · have : ¬ a = x := fun h => h1 h.symm
      simp [h1, h2, this]

theorem inE_rebuild (L : List (Nat × Nat × Nat)) (g : G) (x y : Nat) :
    (rebuild L g).inE y x = (g.inE y x).orElse (fun _ => if g.hasNode y = true then first L x y else none) := by
  induction L generalizing g with
  | nil => simp [rebuild, first]
  | cons t r ih =>
    obtain ⟨a, b, e⟩ := t
    have := ih (linkInNode a b e g)
    simp only [rebuild, List.foldl_cons] at this ⊢
    rw [this, inE_linkInNode, hasNode_linkInNode]
    simp only [first]
    by_cases h1 : x = a <;> by_cases h2 : y = b
    · subst h1; subst h2
      cases hn : g.hasNode y <;> cases ho : g.inE y x <;> simp [hn, ho]
    · have : ¬ b = y := fun h => h2 h.symm
      simp [h1, h2, this]
    · have : ¬ a = x := fun h => h1 h.symm
      simp [h1, h2, this]
    · have : ¬ a = x := fun h => h1 h.symm
      simp [h1, h2, this]

/-- the node table with every row emptied -/
theorem cleared_views (g : G) :
    let g0 := { g with nodes := g.clearedNodes }
    (∀ n, g0.hasNode n = g.hasNode n) ∧ (∀ x y, g0.outE x y = none) ∧ (∀ x y, g0.inE y x = none) ∧
    AL.keys g0.nodes = AL.keys g.nodes ∧ (Sorted g → Sorted g0) := by
  have hrow : ∀ x, find x g.clearedNodes = (find x g.nodes).map (fun _ => ({} : Row)) := by
    intro x; unfold clearedNodes; exact find_map_val x (fun _ => ({} : Row)) g.nodes
  have hk : AL.keys g.clearedNodes = AL.keys g.nodes := by
    unfold clearedNodes; exact keys_map_same (fun p => (p.1, ({} : Row))) (fun _ => rfl) _
  refine ⟨?_, ?_, ?_, hk, ?_⟩
  · intro n; simp only [G.hasNode, has, hrow]; rcases find_cases n g.nodes with hf | ⟨r, hf⟩ <;> simp [hf]
  · intro x y; simp only [G.outE, hrow]; rcases find_cases x g.nodes with hf | ⟨r, hf⟩ <;> simp [hf, find]
  · intro x y; simp only [G.inE, hrow]; rcases find_cases y g.nodes with hf | ⟨r, hf⟩ <;> simp [hf, find]
  · intro hs
    refine ⟨by show Asc g.clearedNodes; unfold Asc; rw [hk]; exact hs.nodes, hs.edges, ?_⟩
    intro n r hr
    simp only [hrow] at hr
    rcases find_cases n g.nodes with hf | ⟨r0, hf⟩
    · simp [hf] at hr
    · simp only [hf, Option.map_some, Option.some.injEq] at hr
      subst hr; exact ⟨asc_nil, asc_nil⟩

theorem mem_outTriples {g : G} (hs : Sorted g) (a b e : Nat) :
    (a, b, e) ∈ outTriples g.nodes ↔ g.outE a b = some e := by
  simp only [outTriples, List.mem_flatMap, List.mem_map, Prod.mk.injEq, G.outE]
  constructor
  · rintro ⟨⟨a', r⟩, hm, ⟨b', e'⟩, hq, rfl, rfl, rfl⟩
    have hf := (mem_iff_find hs.nodes a' r).mp hm
    have := (mem_iff_find (hs.rows a' r hf).1 b' e').mp hq
    simp [hf, this]
  · intro h
    rcases find_cases a g.nodes with hf | ⟨r, hf⟩
    · simp [hf] at h
    · simp only [hf, Option.bind_some] at h
      exact ⟨(a, r), find_some_mem hf, (b, e), find_some_mem h, rfl, rfl, rfl⟩

theorem first_mem {L : List (Nat × Nat × Nat)} {x y e : Nat} (h : first L x y = some e) : (x, y, e) ∈ L := by
  induction L with
  | nil => simp [first] at h
  | cons t r ih =>
    obtain ⟨a, b, e'⟩ := t
    simp only [first] at h
    split at h
    · rename_i hab; obtain ⟨rfl, rfl⟩ := hab; injection h with h; subst h; simp
    · exact List.mem_cons_of_mem _ (ih h)

theorem first_of_mem {L : List (Nat × Nat × Nat)} {x y e : Nat}
    (hfun : ∀ e1 e2, (x, y, e1) ∈ L → (x, y, e2) ∈ L → e1 = e2) (h : (x, y, e) ∈ L) : first L x y = some e := by
  induction L with
  | nil => cases h
  | cons t r ih =>
    obtain ⟨a, b, e'⟩ := t
    simp only [first]
    split
    · rename_i hab; obtain ⟨rfl, rfl⟩ := hab
      congr 1
      exact hfun e' e (by simp) h
    · rename_i hab
      simp only [List.mem_cons, Prod.mk.injEq] at h
      rcases h with ⟨rfl, rfl, rfl⟩ | h
      · exact absurd ⟨rfl, rfl⟩ hab
      · exact ih (fun e1 e2 h1 h2 => hfun e1 e2 (List.mem_cons_of_mem _ h1) (List.mem_cons_of_mem _ h2)) h

theorem first_none {L : List (Nat × Nat × Nat)} {x y : Nat} (h : ∀ e, (x, y, e) ∉ L) : first L x y = none := by
  cases hf : first L x y with
  | none => rfl
  | some e => exact absurd (first_mem hf) (h e)

/-- the unordered pair of end points, as `containsReciprocalRelations` / `makeDirected` key it -/
def upair (t : Nat × Nat × Nat) : Nat × Nat := (min t.1 t.2.1, max t.1 t.2.1)

theorem recipLoop_false (T : List (Nat × Nat × Nat)) (seen : List (Nat × Nat)) :
    recipLoop T seen = false ↔ (∀ t ∈ T, upair t ∉ seen) ∧ List.Pairwise (fun t u => upair t ≠ upair u) T := by
  induction T generalizing seen with
  | nil => simp [recipLoop]
  | cons t r ih =>
    obtain ⟨a, b, e⟩ := t
    simp only [recipLoop]
    by_cases hs : (min a b, max a b) ∈ seen
    · simp [hs, upair]
    · simp only [List.contains_iff_mem, hs, if_false, Bool.false_eq_true]
      rw [ih]
      simp only [List.mem_cons, List.pairwise_cons, upair]
      constructor
      · rintro ⟨h1, h2⟩
        refine ⟨?_, ?_, h2⟩
        · rintro t (rfl | ht)
          · exact hs
          · have := h1 t ht; intro hh; exact this (Or.inr hh)
        · intro u hu heq
          exact h1 u hu (Or.inl heq.symm)
      · rintro ⟨h1, h2, h3⟩
        refine ⟨?_, h3⟩
        intro u hu hh
        rcases hh with hh | hh
        · exact h2 u hu hh.symm
        · exact h1 u (Or.inr hu) hh

theorem pairwise_ne_of_mem {α : Type} {R : α → α → Prop} (hsym : ∀ a b, R a b → R b a) {l : List α}
    (h : List.Pairwise R l) {a b : α} (ha : a ∈ l) (hb : b ∈ l) (hne : a ≠ b) : R a b := by
  induction l with
  | nil => cases ha
  | cons c r ih =>
    rw [List.pairwise_cons] at h
    simp only [List.mem_cons] at ha hb
    rcases ha with rfl | ha <;> rcases hb with rfl | hb
    · exact absurd rfl hne
    · exact h.1 b hb
    · exact hsym _ _ (h.1 a ha)
    · exact ih h.2 ha hb

/-- no reciprocal relation A->B, B->A when the scan of `containsReciprocalRelations` finds none -/
theorem no_recip {g : G} (hs : Sorted g) (h : recipLoop (outTriples g.nodes) [] = false) {x y e e' : Nat}
    (h1 : g.outE x y = some e) (h2 : g.outE y x = some e') : x = y := by
  have hp := ((recipLoop_false _ _).mp h).2
  have m1 := (mem_outTriples hs x y e).mpr h1
  have m2 := (mem_outTriples hs y x e').mpr h2
  by_cases hxy : x = y
  · exact hxy
  · have hne : (x, y, e) ≠ (y, x, e') := by
      intro hh; injection hh with hh; exact hxy hh
    have := pairwise_ne_of_mem (R := fun t u => upair t ≠ upair u) (fun a b h => fun hh => h hh.symm) hp m1 m2 hne
    exfalso; apply this
    simp only [upair, Prod.mk.injEq]
    omega

/-! #### makeUndirected -/

/-- both directions of every relation, in the order `makeUndirected` writes them -/
def bothWays (T : List (Nat × Nat × Nat)) : List (Nat × Nat × Nat) := T.flatMap (fun t => [t, (t.2.1, t.1, t.2.2)])

theorem undirect_fold (T : List (Nat × Nat × Nat)) (g0 : G) :
    T.foldl (fun acc t => linkInNode t.2.1 t.1 t.2.2 (linkInNode t.1 t.2.1 t.2.2 acc)) g0 = rebuild (bothWays T) g0 := by
  induction T generalizing g0 with
  | nil => rfl
  | cons t r ih => simp only [List.foldl_cons, ih, bothWays, List.flatMap_cons, rebuild, List.foldl_append, List.foldl_nil]

theorem mem_bothWays (T : List (Nat × Nat × Nat)) (x y e : Nat) :
    (x, y, e) ∈ bothWays T ↔ (x, y, e) ∈ T ∨ (y, x, e) ∈ T := by
  simp only [bothWays, List.mem_flatMap, List.mem_cons, List.not_mem_nil, or_false]
  constructor
  · rintro ⟨t, ht, rfl | h⟩
    · exact Or.inl ht
    · obtain ⟨a, b, e'⟩ := t; injection h with h1 h; injection h with h2 h3; subst h1; subst h2; subst h3; exact Or.inr ht
  · rintro (h | h)
    · exact ⟨_, h, Or.inl rfl⟩
    · exact ⟨_, h, Or.inr rfl⟩

theorem makeUndirected_already {g : G} (h : g.directed = false) : makeUndirected g = .ok () g := by simp [makeUndirected, h]

theorem makeUndirected_recip {g : G} (h : g.directed = true) (hr : recipLoop (outTriples g.nodes) [] = true) :
    makeUndirected g = .exc g := by simp [makeUndirected, h, hr]

/-- what `makeUndirected` did to a directed graph without reciprocal relations -/
structure Undirected (g g' : G) : Prop where
  hasNode : ∀ n, g'.hasNode n = g.hasNode n
  keys : AL.keys g'.nodes = AL.keys g.nodes
  outE : ∀ x y, g'.outE x y = (g.outE x y).orElse (fun _ => g.outE y x)
  inE : ∀ x y, g'.inE y x = (g.outE x y).orElse (fun _ => g.outE y x)
  rest : g'.edges = g.edges ∧ g'.directed = false ∧ g'.nextNode = g.nextNode ∧ g'.nextEdge = g.nextEdge ∧ g'.root = g.root
    ∧ g'.pending = g.pending

theorem makeUndirected_spec {g : G} (hc : Consistent g) (hd : g.directed = true)
    (hr : recipLoop (outTriples g.nodes) [] = false) :
    ∃ g', makeUndirected g = .ok () g' ∧ Consistent g' ∧ Undirected g g' := by
  let g0 : G := { g with nodes := g.clearedNodes }
  let T := outTriples g.nodes
  have hrun : makeUndirected g = .ok () { rebuild (bothWays T) g0 with directed := false } := by
    unfold makeUndirected
    rw [if_neg (by simp [hd]), if_neg (by simp [hr])]
    dsimp only
    rw [undirect_fold]
  obtain ⟨c1, c2, c3, c4, c5⟩ := cleared_views g
  obtain ⟨r1, r2, r3, r4, r5, r6, r7, r8⟩ := rebuild_rest (bothWays T) g0
  have hnr : ∀ x y e e', g.outE x y = some e → g.outE y x = some e' → x = y :=
    fun x y e e' h1 h2 => no_recip hc.sorted hr h1 h2
  -- the first recorded edge for x -> y is the edge of x -> y or of y -> x
  have hfirst : ∀ x y, first (bothWays T) x y = (g.outE x y).orElse (fun _ => g.outE y x) := by
    intro x y
    have hmem : ∀ e, (x, y, e) ∈ bothWays T ↔ (g.outE x y = some e ∨ g.outE y x = some e) := by
      intro e; rw [mem_bothWays, mem_outTriples hc.sorted, mem_outTriples hc.sorted]
    have hfun : ∀ e1 e2, (x, y, e1) ∈ bothWays T → (x, y, e2) ∈ bothWays T → e1 = e2 := by
      intro e1 e2 h1 h2
      rw [hmem] at h1 h2
      rcases h1 with h1 | h1 <;> rcases h2 with h2 | h2
      · rw [h1] at h2; injection h2
      · have := hnr x y e1 e2 h1 h2; subst this; rw [h1] at h2; injection h2
      · have := hnr x y e2 e1 h2 h1; subst this; rw [h1] at h2; injection h2
      · rw [h1] at h2; injection h2
    cases hxy : g.outE x y with
    | some e => simpa using first_of_mem hfun ((hmem e).mpr (Or.inl hxy))
    | none =>
      cases hyx : g.outE y x with
      | some e => simpa using first_of_mem hfun ((hmem e).mpr (Or.inr hyx))
      | none =>
        simp only [Option.orElse_none]
        apply first_none
        intro e hm; rw [hmem] at hm; rcases hm with h | h <;> simp_all
  have hN : ∀ x, (rebuild (bothWays T) g0).hasNode x = g.hasNode x := fun x => by rw [r1, c1]
  have hO : ∀ x y, (rebuild (bothWays T) g0).outE x y = (g.outE x y).orElse (fun _ => g.outE y x) := by
    intro x y
    rw [outE_rebuild, c2, c1, hfirst]
    simp only [Option.orElse_none]
    cases hn : g.hasNode x
    · simp only [Bool.false_eq_true, if_false]
      cases hxy : g.outE x y with
      | some e => exact absurd (outE_some_hasNode hxy) (by simp [hn])
      | none =>
        cases hyx : g.outE y x with
        | some e =>
          have := inE_some_hasNode (cons_out_some hc hyx).1
          simp [hn] at this
        | none => rfl
    · simp
  have hI : ∀ x y, (rebuild (bothWays T) g0).inE y x = (g.outE x y).orElse (fun _ => g.outE y x) := by
    intro x y
    rw [inE_rebuild, c3, c1, hfirst]
    simp only [Option.orElse_none]
    cases hn : g.hasNode y
    · simp only [Bool.false_eq_true, if_false]
      cases hxy : g.outE x y with
      | some e =>
        have := inE_some_hasNode (cons_out_some hc hxy).1
        simp [hn] at this
      | none =>
        cases hyx : g.outE y x with
        | some e => exact absurd (outE_some_hasNode hyx) (by simp [hn])
        | none => rfl
    · simp
  have hv := hc.views
  rw [hd] at hv
  refine ⟨_, hrun, ⟨?_, ?_, ?_, ?_⟩, ⟨hN, ?_, hO, hI, ?_⟩⟩
  · show ConsV false _ _ _ _
    have hE : (fun e => find e (rebuild (bothWays T) g0).edges) = (fun e => find e g.edges) := by rw [r2]
    show ConsV false (rebuild (bothWays T) g0).hasNode (rebuild (bothWays T) g0).outE (rebuild (bothWays T) g0).inE
      (fun e => find e (rebuild (bothWays T) g0).edges)
    rw [hE]
    exact hv.undirect hnr hN hO hI
  · intro n hn; show n < (rebuild (bothWays T) g0).nextNode; rw [r4]; exact hc.node_lt n (by rw [← hN]; exact hn)
  · intro e he; show e < (rebuild (bothWays T) g0).nextEdge; rw [r5]
    apply hc.edge_lt e; simp only [G.hasEdge] at he ⊢; rw [← r2]; exact he
  · have := r8 (c5 hc.sorted)
    exact ⟨this.nodes, this.edges, this.rows⟩
  · show AL.keys (rebuild (bothWays T) g0).nodes = _
    have : ∀ (L : List (Nat × Nat × Nat)) (g1 : G), AL.keys (rebuild L g1).nodes = AL.keys g1.nodes := by
      intro L
      induction L with
      | nil => intro g1; rfl
      | cons t r ih =>
        intro g1
        simp only [rebuild, List.foldl_cons] at ih ⊢
        rw [ih]; simp [linkInNode, keys_modify]
    rw [this, c4]
  · exact ⟨r2, rfl, r4, r5, r6, r7⟩

theorem makeUndirected_consistent {g : G} (hc : Consistent g) : (makeUndirected g).All Consistent := by
  cases hd : g.directed
  · rw [makeUndirected_already hd]; exact hc
  · cases hr : recipLoop (outTriples g.nodes) []
    · obtain ⟨g', h, hc', _⟩ := makeUndirected_spec hc hd hr
      rw [h]; exact hc'
    · rw [makeUndirected_recip hd hr]; exact hc

/-! #### makeDirected -/

/-- the triples `makeDirected` keeps: those whose unordered pair was not met before -/
def keptOf : List (Nat × Nat × Nat) → List (Nat × Nat) → List (Nat × Nat × Nat)
  | [], _ => []
  | t :: r, seen => if upair t ∈ seen then keptOf r seen else t :: keptOf r (upair t :: seen)

/-- what is done for a kept triple: node rows, then edge table -/
def keepStep (acc : G) (t : Nat × Nat × Nat) : G := linkInEdge t.1 t.2.1 t.2.2 (linkInNode t.1 t.2.1 t.2.2 acc)

theorem makeDirected_fold (T : List (Nat × Nat × Nat)) (g0 : G) (seen : List (Nat × Nat)) :
    (T.foldl makeDirectedStep (g0, seen)).1 = (keptOf T seen).foldl keepStep g0 := by
  induction T generalizing g0 seen with
  | nil => rfl
  | cons t r ih =>
    obtain ⟨a, b, e⟩ := t
    simp only [List.foldl_cons, keptOf, makeDirectedStep, upair]
    by_cases hs : (min a b, max a b) ∈ seen
    · simp only [List.contains_iff_mem, hs, if_true]; exact ih g0 seen
    · simp only [List.contains_iff_mem, hs, if_false, List.foldl_cons]; exact ih _ _

/-- the edge table after the kept triples have been written -/
def setAll (K : List (Nat × Nat × Nat)) (es : List (Nat × (Nat × Nat))) : List (Nat × (Nat × Nat)) :=
  K.foldl (fun es t => AL.set t.2.2 (t.1, t.2.1) es) es

theorem rebuild_edges (L : List (Nat × Nat × Nat)) (g : G) (es : List (Nat × (Nat × Nat))) :
    rebuild L { g with edges := es } = { rebuild L g with edges := es } := by
  induction L generalizing g with
  | nil => rfl
  | cons t r ih =>
    simp only [rebuild, List.foldl_cons] at ih ⊢
    exact ih (linkInNode t.1 t.2.1 t.2.2 g)

theorem keep_fold (K : List (Nat × Nat × Nat)) (g0 : G) :
    K.foldl keepStep g0 = { rebuild K g0 with edges := setAll K g0.edges } := by
  induction K generalizing g0 with
  | nil => rfl
  | cons t r ih =>
    rw [List.foldl_cons, ih]
    have : keepStep g0 t = { linkInNode t.1 t.2.1 t.2.2 g0 with edges := AL.set t.2.2 (t.1, t.2.1) g0.edges } := rfl
    rw [this, rebuild_edges]
    rfl

theorem find_setAll_not_mem (K : List (Nat × Nat × Nat)) (es : List (Nat × (Nat × Nat))) (e : Nat)
    (h : ∀ a b, (a, b, e) ∉ K) : find e (setAll K es) = find e es := by
  induction K generalizing es with
  | nil => rfl
  | cons t r ih =>
    obtain ⟨a, b, e'⟩ := t
    simp only [setAll, List.foldl_cons] at ih ⊢
    rw [ih _ (fun a b hm => h a b (List.mem_cons_of_mem _ hm)), find_set]
    have : ¬ e' = e := by intro hh; subst hh; exact h a b (by simp)
    simp [this]

theorem find_setAll_mem (K : List (Nat × Nat × Nat)) (es : List (Nat × (Nat × Nat))) (e a b : Nat)
    (hfun : ∀ a1 b1 a2 b2, (a1, b1, e) ∈ K → (a2, b2, e) ∈ K → a1 = a2 ∧ b1 = b2) (h : (a, b, e) ∈ K) :
    find e (setAll K es) = some (a, b) := by
  induction K generalizing es with
  | nil => cases h
  | cons t r ih =>
    obtain ⟨a', b', e'⟩ := t
    simp only [setAll, List.foldl_cons] at ih ⊢
    by_cases hr : ∃ a2 b2, (a2, b2, e) ∈ r
    · obtain ⟨a2, b2, h2⟩ := hr
      have := hfun a b a2 b2 h (List.mem_cons_of_mem _ h2)
      obtain ⟨rfl, rfl⟩ := this
      exact ih _ (fun a1 b1 a2 b2 h1 h2 => hfun a1 b1 a2 b2 (List.mem_cons_of_mem _ h1) (List.mem_cons_of_mem _ h2)) h2
    · have hr' : ∀ a2 b2, (a2, b2, e) ∉ r := fun a2 b2 hm => hr ⟨a2, b2, hm⟩
      have := find_setAll_not_mem r (AL.set e' (a', b') es) e hr'
      simp only [setAll] at this
      rw [this, find_set]
      simp only [List.mem_cons, Prod.mk.injEq] at h
      rcases h with ⟨rfl, rfl, rfl⟩ | h
      · simp
      · exact absurd h (hr' a b)

theorem asc_setAll (K : List (Nat × Nat × Nat)) (es : List (Nat × (Nat × Nat))) (h : Asc es) : Asc (setAll K es) := by
  induction K generalizing es with
  | nil => exact h
  | cons t r ih => simp only [setAll, List.foldl_cons] at ih ⊢; exact ih _ (asc_set _ _ _ h)

theorem keptOf_sub (T : List (Nat × Nat × Nat)) (seen : List (Nat × Nat)) : ∀ t ∈ keptOf T seen, t ∈ T := by
  induction T generalizing seen with
  | nil => intro t h; cases h
  | cons c r ih =>
    intro t h
    simp only [keptOf] at h
    split at h
    · exact List.mem_cons_of_mem _ (ih seen t h)
    · simp only [List.mem_cons] at h
      rcases h with rfl | h
      · simp
      · exact List.mem_cons_of_mem _ (ih _ t h)

theorem keptOf_covers (T : List (Nat × Nat × Nat)) (seen : List (Nat × Nat)) :
    ∀ t ∈ T, upair t ∈ seen ∨ ∃ u ∈ keptOf T seen, upair u = upair t := by
  induction T generalizing seen with
  | nil => intro t h; cases h
  | cons c r ih =>
    intro t ht
    simp only [List.mem_cons] at ht
    simp only [keptOf]
    by_cases hs : upair c ∈ seen
    · simp only [hs, if_true]
      rcases ht with rfl | ht
      · exact Or.inl hs
      · exact ih seen t ht
    · simp only [hs, if_false]
      rcases ht with rfl | ht
      · exact Or.inr ⟨t, by simp, rfl⟩
      · rcases ih (upair c :: seen) t ht with h | ⟨u, hu, he⟩
        · simp only [List.mem_cons] at h
          rcases h with h | h
          · exact Or.inr ⟨c, by simp, h.symm⟩
          · exact Or.inl h
        · exact Or.inr ⟨u, List.mem_cons_of_mem _ hu, he⟩

theorem keptOf_distinct (T : List (Nat × Nat × Nat)) (seen : List (Nat × Nat)) :
    (∀ u ∈ keptOf T seen, upair u ∉ seen) ∧ List.Pairwise (fun t u => upair t ≠ upair u) (keptOf T seen) := by
  induction T generalizing seen with
  | nil => simp [keptOf]
  | cons c r ih =>
    simp only [keptOf]
    by_cases hs : upair c ∈ seen
    · simp only [hs, if_true]; exact ih seen
    · simp only [hs, if_false]
      have := ih (upair c :: seen)
      constructor
      · intro u hu
        simp only [List.mem_cons] at hu
        rcases hu with rfl | hu
        · exact hs
        · have := this.1 u hu; intro hh; exact this (List.mem_cons_of_mem _ hh)
      · rw [List.pairwise_cons]
        refine ⟨?_, this.2⟩
        intro u hu heq
        exact this.1 u hu (by rw [← heq]; simp)

theorem makeDirected_already {g : G} (h : g.directed = true) : makeDirected g = g := by simp [makeDirected, h]

/-- what `makeDirected` did to an undirected graph, in terms of the kept triples `K` -/
structure Directed (K : List (Nat × Nat × Nat)) (g g' : G) : Prop where
  hasNode : ∀ n, g'.hasNode n = g.hasNode n
  keys : AL.keys g'.nodes = AL.keys g.nodes
  outE : ∀ x y e, g'.outE x y = some e ↔ (x, y, e) ∈ K
  inE : ∀ x y e, g'.inE y x = some e ↔ (x, y, e) ∈ K
  edges : ∀ e a b, find e g'.edges = some (a, b) ↔ (a, b, e) ∈ K
  /-- every kept triple is one direction of an edge of `g`, and every edge is kept in exactly one direction -/
  kept_sub : ∀ a b e, (a, b, e) ∈ K → g.outE a b = some e
  kept_all : ∀ a b e, g.outE a b = some e → ((a, b, e) ∈ K ∨ (b, a, e) ∈ K)
  kept_one : ∀ a b e, (a, b, e) ∈ K → (b, a, e) ∈ K → a = b
  rest : g'.directed = true ∧ g'.nextNode = g.nextNode ∧ g'.nextEdge = g.nextEdge ∧ g'.root = g.root ∧ g'.pending = g.pending

theorem keys_rebuild (L : List (Nat × Nat × Nat)) (g1 : G) : AL.keys (rebuild L g1).nodes = AL.keys g1.nodes := by
  induction L generalizing g1 with
  | nil => rfl
  | cons t r ih =>
    simp only [rebuild, List.foldl_cons] at ih ⊢
    rw [ih]; simp [linkInNode, keys_modify]

theorem makeDirected_spec {g : G} (hc : Consistent g) (hd : g.directed = false) :
    Consistent (makeDirected g) ∧ Directed (keptOf (outTriples g.nodes) []) g (makeDirected g) := by
  let g0 : G := { g with nodes := g.clearedNodes }
  let T := outTriples g.nodes
  let K := keptOf T []
  have hrun : makeDirected g = { rebuild K g0 with edges := setAll K g.edges, directed := true } := by
    unfold makeDirected
    rw [if_neg (by simp [hd])]
    dsimp only
    rw [makeDirected_fold, keep_fold]
  obtain ⟨c1, c2, c3, c4, c5⟩ := cleared_views g
  obtain ⟨r1, r2, r3, r4, r5, r6, r7, r8⟩ := rebuild_rest K g0
  have hv := hc.views
  rw [hd] at hv
  obtain ⟨v1, v2, v3, v4, v5⟩ := hv
  have hT : ∀ a b e, (a, b, e) ∈ T ↔ g.outE a b = some e := fun a b e => mem_outTriples hc.sorted a b e
  have hsub : ∀ a b e, (a, b, e) ∈ K → g.outE a b = some e := fun a b e h => (hT a b e).mp (keptOf_sub T [] _ h)
  have hdist := (keptOf_distinct T []).2
  -- in an undirected consistent graph both directions carry the same edge
  have hsym : ∀ a b e, g.outE a b = some e → g.outE b a = some e := by
    intro a b e h; exact ((cons_out_some hc h).2.2 hd).1
  -- two kept triples with the same unordered pair are the same triple
  have hsame : ∀ t ∈ K, ∀ u ∈ K, upair t = upair u → t = u := by
    intro t ht u hu heq
    by_cases htu : t = u
    · exact htu
    · exact absurd heq (pairwise_ne_of_mem (R := fun t u => upair t ≠ upair u) (fun a b h => fun hh => h hh.symm) hdist ht hu htu)
  have hall : ∀ a b e, g.outE a b = some e → ((a, b, e) ∈ K ∨ (b, a, e) ∈ K) := by
    intro a b e h
    rcases keptOf_covers T [] (a, b, e) ((hT a b e).mpr h) with hh | ⟨⟨a', b', e'⟩, hu, he⟩
    · cases hh
    · have ho := hsub a' b' e' hu
      simp only [upair, Prod.mk.injEq] at he
      have hcases : (a' = a ∧ b' = b) ∨ (a' = b ∧ b' = a) := by omega
      rcases hcases with ⟨rfl, rfl⟩ | ⟨rfl, rfl⟩
      · rw [h] at ho; injection ho with ho; subst ho; exact Or.inl hu
      · rw [hsym _ _ _ h] at ho; injection ho with ho; subst ho; exact Or.inr hu
  have hone : ∀ a b e, (a, b, e) ∈ K → (b, a, e) ∈ K → a = b := by
    intro a b e h1 h2
    have := hsame _ h1 _ h2 (by simp only [upair, Prod.mk.injEq]; omega)
    injection this
  have hfunK : ∀ x y e1 e2, (x, y, e1) ∈ K → (x, y, e2) ∈ K → e1 = e2 := by
    intro x y e1 e2 h1 h2
    have := hsub x y e1 h1; rw [hsub x y e2 h2] at this; injection this with this; exact this.symm
  have hfirst : ∀ x y e, first K x y = some e ↔ (x, y, e) ∈ K :=
    fun x y e => ⟨first_mem, first_of_mem (hfunK x y)⟩
  have hNx : ∀ x y e, (x, y, e) ∈ K → g.hasNode x = true ∧ g.hasNode y = true := by
    intro x y e h
    have ho := hsub x y e h
    exact ⟨outE_some_hasNode ho, inE_some_hasNode (cons_out_some hc ho).1⟩
  have hO : ∀ x y e, (rebuild K g0).outE x y = some e ↔ (x, y, e) ∈ K := by
    intro x y e
    rw [outE_rebuild, c2, c1]
    simp only [Option.orElse_none]
    constructor
    · intro h; split at h
      · exact (hfirst x y e).mp h
      · cases h
    · intro h; rw [if_pos (hNx x y e h).1]; exact (hfirst x y e).mpr h
  have hI : ∀ x y e, (rebuild K g0).inE y x = some e ↔ (x, y, e) ∈ K := by
    intro x y e
    rw [inE_rebuild, c3, c1]
    simp only [Option.orElse_none]
    constructor
    · intro h; split at h
      · exact (hfirst x y e).mp h
      · cases h
    · intro h; rw [if_pos (hNx x y e h).2]; exact (hfirst x y e).mpr h
  -- a kept triple determines the end points of its edge
  have hfunE : ∀ e a1 b1 a2 b2, (a1, b1, e) ∈ K → (a2, b2, e) ∈ K → a1 = a2 ∧ b1 = b2 := by
    intro e a1 b1 a2 b2 h1 h2
    have o1 := hsub _ _ _ h1; have o2 := hsub _ _ _ h2
    have e1 := v2 _ _ _ o1; have e2 := v2 _ _ _ o2
    have hp : upair (a1, b1, e) = upair (a2, b2, e) := by
      simp only [upair, Prod.mk.injEq]
      rcases e1 with e1 | ⟨_, e1⟩ <;> rcases e2 with e2 | ⟨_, e2⟩ <;> rw [e1] at e2 <;> injection e2 with e2 <;>
        injection e2 with ea eb <;> omega
    have := hsame _ h1 _ h2 hp
    injection this with ha this; injection this with hb _
    exact ⟨ha, hb⟩
  have hE : ∀ e a b, find e (setAll K g.edges) = some (a, b) ↔ (a, b, e) ∈ K := by
    intro e a b
    constructor
    · intro h
      by_cases hk : ∃ a2 b2, (a2, b2, e) ∈ K
      · obtain ⟨a2, b2, h2⟩ := hk
        rw [find_setAll_mem K g.edges e a2 b2 (hfunE e) h2] at h
        injection h with h; injection h with ha hb; subst ha; subst hb; exact h2
      · have hk' : ∀ a2 b2, (a2, b2, e) ∉ K := fun a2 b2 hm => hk ⟨a2, b2, hm⟩
        rw [find_setAll_not_mem K g.edges e hk'] at h
        have := (v1 e a b h).1
        rcases hall a b e this with h1 | h1
        · exact h1
        · exact absurd h1 (hk' b a)
    · intro h; exact find_setAll_mem K g.edges e a b (hfunE e) h
  have hN : ∀ x, (rebuild K g0).hasNode x = g.hasNode x := fun x => by rw [r1, c1]
  rw [hrun]
  refine ⟨⟨?_, ?_, ?_, ?_⟩, ⟨hN, by show AL.keys (rebuild K g0).nodes = _; rw [keys_rebuild, c4], hO, hI, hE, hsub, hall, hone,
    ⟨rfl, r4, r5, r6, r7⟩⟩⟩
  · show ConsV true (rebuild K g0).hasNode (rebuild K g0).outE (rebuild K g0).inE (fun e => find e (setAll K g.edges))
    constructor
    · intro e a b h
      have hk := (hE e a b).mp h
      exact ⟨(hO a b e).mpr hk, (hI a b e).mpr hk, fun hh => by cases hh⟩
    · intro a b e h; exact Or.inl ((hE e a b).mpr ((hO a b e).mp h))
    · intro a b e h; exact Or.inl ((hE e a b).mpr ((hI a b e).mp h))
    · intro a b e h; rw [hN]; exact (hNx a b e ((hO a b e).mp h)).1
    · intro a b e h; rw [hN]; exact (hNx a b e ((hI a b e).mp h)).2
  · intro n hn; show n < (rebuild K g0).nextNode; rw [r4]; exact hc.node_lt n (by rw [← hN]; exact hn)
  · intro e he
    show e < (rebuild K g0).nextEdge
    rw [r5]
    simp only [G.hasEdge, has] at he
    rcases find_cases e (setAll K g.edges) with hf | ⟨⟨a, b⟩, hf⟩
    · simp [hf] at he
    · have := hsub a b e ((hE e a b).mp hf)
      exact hc.edge_lt e (cons_out_some hc this).2.1
  · have := r8 (c5 hc.sorted)
    exact ⟨this.nodes, asc_setAll K g.edges hc.sorted.edges, this.rows⟩

theorem makeDirected_consistent {g : G} (hc : Consistent g) : Consistent (makeDirected g) := by
  cases hd : g.directed
  · exact (makeDirected_spec hc hd).1
  · rw [makeDirected_already hd]; exact hc

end G
end Graph
end Bpp
