import BppProofs.Lemmas.TreeObsCopy
import BppProofs.Lemmas.DagObs
/-!
Helper lemmas for `Props/C15Remove.lean`: what a successful `GlobalGraph::unlink` leaves in the edge table
(`relationRemoved` of `BppModel/TreeObsCopy.lean`), carried through the delivery of the notifications to the
observers of a tree (`TW.liftW`) and of a DAG (`DW.liftW`).
-/
namespace Bpp
namespace Graph
open AL

/-- `relationRemoved` reads the directed flag and the edge table of the graph before, the edge table of the
graph after, and the keys of both node tables — nothing else (in particular not `pending`) -/
theorem relationRemoved_congr {g₁ g₂ g₁' g₂' : G} (a b : Nat) (hd : g₁.directed = g₂.directed)
    (he : g₁.edges = g₂.edges) (hn : AL.keys g₁.nodes = AL.keys g₂.nodes)
    (he' : g₁'.edges = g₂'.edges) (hn' : AL.keys g₁'.nodes = AL.keys g₂'.nodes) :
    relationRemoved g₁ g₁' a b = relationRemoved g₂ g₂' a b := by
  unfold relationRemoved
  simp only [hd, he, hn, he', hn']

/-- the graph after the delivery of the notifications has the tables of the graph before it -/
theorem relationRemoved_quiet (g g' : G) (a b : Nat) :
    relationRemoved g { g' with pending := [] } a b = relationRemoved g g' a b :=
  relationRemoved_congr a b rfl rfl rfl rfl rfl

namespace G

/-- in a consistent graph the edge-table entries that join `a` to `b` (either way round when undirected) are
exactly the ones carrying the id found in the row of `a` -/
theorem hit_iff_id {g : G} (hc : Consistent g) {a b e : Nat} (hO : g.outE a b = some e) {e' x y : Nat}
    (hmem : (e', (x, y)) ∈ g.edges) :
    (((x == a && y == b) || (!g.directed && x == b && y == a)) = true) ↔ e' = e := by
  have hf : find e' g.edges = some (x, y) := (mem_iff_find hc.sorted.edges e' (x, y)).1 hmem
  obtain ⟨hOxy, _, hU⟩ := hc.views.edge_listed e' x y hf
  constructor
  · intro hh
    simp only [Bool.or_eq_true, Bool.and_eq_true, beq_iff_eq, Bool.not_eq_true'] at hh
    rcases hh with ⟨h1, h2⟩ | ⟨⟨hd, h1⟩, h2⟩
    · subst h1; subst h2
      rw [hOxy] at hO; injection hO
    · subst h1; subst h2
      have := (hU hd).1
      rw [this] at hO; injection hO
  · intro he
    subst he
    rcases hc.views.out_edge a b e' hO with h | ⟨hd, h⟩
    · rw [hf] at h; injection h with h; injection h with h1 h2
      subst h1; subst h2; simp
    · rw [hf] at h; injection h with h; injection h with h1 h2
      subst h1; subst h2; simp [hd]

/-- **a successful `unlink(a, b)` on a consistent graph** removes from the edge table exactly the entries
joining `a` to `b` (either way round when the graph is undirected) and no node -/
theorem unlink_ok_removed {g g' : G} (hc : Consistent g) {a b : Nat} {es : List Nat}
    (h : unlink a b g = .ok es g') : relationRemoved g g' a b = true := by
  rcases hO : g.outE a b with _ | e
  · rw [unlink_none hO] at h; cases h
  · obtain ⟨g'', h2, u⟩ := unlink_some hc hO
    rw [h2] at h
    injection h with _ hg
    subst hg
    unfold relationRemoved
    simp only [Bool.and_eq_true, beq_iff_eq]
    refine ⟨?_, u.keys⟩
    rw [u.edges]
    unfold AL.erase
    apply List.filter_congr
    rintro ⟨e', x, y⟩ hmem
    have hi := hit_iff_id hc hO hmem
    by_cases he : e' = e
    · have := hi.2 he
      simp only at this ⊢
      rw [this]; simp [he]
    · have : ((x == a && y == b) || (!g.directed && x == b && y == a)) = false := by
        cases hv : ((x == a && y == b) || (!g.directed && x == b && y == a))
        · rfl
        · exact absurd (hi.1 hv) he
      simp only at this ⊢
      rw [this]; simp [he]

/-- the same on the state reached, whatever the outcome is called -/
theorem unlink_state_removed {g : G} (hc : Consistent g) {a b : Nat} {es : List Nat} {g' : G}
    (h : unlink a b g = .ok es g') : relationRemoved g (unlink a b g).state a b = true := by
  rw [h]; exact unlink_ok_removed hc h

end G

/-! ### through the observers of a tree -/
namespace TW

/-- `removeSonG` succeeded: the `unlink` inside did, and the graph of the new world is its result, quiet -/
theorem removeSonG_ok {tw : TW} {n s : Nat} {u : Unit} {gq : G} (h : (tw.removeSonG n s).1 = .ok u gq) :
    ∃ es g', G.unlink n s tw.w.g = .ok es g' ∧ (tw.removeSonG n s).2.w.g = { g' with pending := [] } := by
  unfold removeSonG at h ⊢
  rw [touch_fst] at h
  rw [touch_w]
  rcases hr : (tw.liftW (tw.w.g.unlink n s)).1 with ⟨es, g1⟩ | g1
  · obtain ⟨g', hl⟩ := liftW_fst_ok _ _ hr
    refine ⟨es, g', hl, ?_⟩
    show (tw.liftW (tw.w.g.unlink n s)).2.w.g = _
    rw [liftW_g, hl]; rfl
  · simp [unit, hr, GOut.forget] at h

theorem removeSonG_removed {tw : TW} (hc : Consistent tw.w.g) {n s : Nat} {u : Unit} {gq : G}
    (h : (tw.removeSonG n s).1 = .ok u gq) : relationRemoved tw.w.g (tw.removeSonG n s).2.w.g n s = true := by
  obtain ⟨es, g', hl, hg⟩ := removeSonG_ok h
  rw [hg, relationRemoved_quiet]
  exact G.unlink_ok_removed hc hl

end TW

/-! ### through the observers of a DAG -/
namespace DW
open TW (WRes)

theorem liftW_fst_ok {α : Type} (dw : DW) (r : GOut α) {a : α} {g : G} (h : (dw.liftW r).1 = .ok a g) :
    ∃ g', r = .ok a g' := by
  cases r with
  | ok a' g' =>
    simp only [liftW, World.graphOp] at h
    injection h with h1 _; subst h1; exact ⟨g', rfl⟩
  | exc g' => simp [liftW, World.graphOp] at h

theorem ofG_ok {r : GOut Unit × DW} {t : DW} (h : ofG r = (.ok, t)) : t = r.2 ∧ ∃ u g, r.1 = .ok u g := by
  unfold ofG at h
  rcases hr : r.1 with ⟨u, g⟩ | g
  · rw [hr] at h; simp only [Prod.mk.injEq, true_and] at h; exact ⟨h.symm, u, g, rfl⟩
  · rw [hr] at h; simp at h

/-- the id-level `unlink` with the observers told succeeded -/
theorem unlinkW_removed {d1 : DW} (hc : Consistent d1.w.g) {x y : Nat} {u : Unit} {gq : G}
    (h : (unit (d1.liftW (d1.w.g.unlink x y))).1 = .ok u gq) :
    relationRemoved d1.w.g (unit (d1.liftW (d1.w.g.unlink x y))).2.w.g x y = true := by
  rcases hr : (d1.liftW (d1.w.g.unlink x y)).1 with ⟨es, g1⟩ | g1
  · obtain ⟨g', hl⟩ := liftW_fst_ok _ _ hr
    show relationRemoved d1.w.g (d1.liftW (d1.w.g.unlink x y)).2.w.g x y = true
    rw [liftW_g, hl]
    show relationRemoved d1.w.g { g' with pending := [] } x y = true
    rw [relationRemoved_quiet]
    exact G.unlink_ok_removed hc hl
  · simp [unit, hr, GOut.forget] at h

theorem removeSonG_removed {dw : DW} (hc : Consistent dw.w.g) {n s : Nat} {u : Unit} {gq : G}
    (h : (dw.removeSonG n s).1 = .ok u gq) : relationRemoved dw.w.g (dw.removeSonG n s).2.w.g n s = true :=
  unlinkW_removed hc h

/-- `removeFather(node, father)` removes the relation father -> node -/
theorem removeFatherG_removed {dw : DW} (hc : Consistent dw.w.g) {n f : Nat} {u : Unit} {gq : G}
    (h : (dw.removeFatherG n f).1 = .ok u gq) : relationRemoved dw.w.g (dw.removeFatherG n f).2.w.g f n = true := by
  unfold removeFatherG at h ⊢
  rcases hq : RowQ.nbIn (dw.w.g.rowOf n) with _ | c
  · rw [hq] at h; simp at h
  · rw [hq] at h
    simp only at h ⊢
    by_cases hc1 : c = 1
    · simp only [hc1, if_true] at h ⊢
      exact unlinkW_removed (d1 := { dw with rooted := false }) hc h
    · simp only [hc1, if_false] at h ⊢
      exact unlinkW_removed hc h

end DW
end Graph
end Bpp
