import BppProofs.Lemmas.Transform
/-!
# C11 — constraint-removing reparametrisation is a faithful change of variables
(src/Bpp/Numeric/TransformedParameter.h, src/Bpp/Numeric/Function/ReparametrizationFunctionWrapper.{h,cpp})

Property theorems only; helper lemmas are in `Lemmas/Transform.lean`.
All statements are about the `Scalar`-generic model read at `ℝ` (exact arithmetic; rounding is
not modelled).  The model is the code after the two `fix:` commits of findings/C11.json.
-/
namespace Bpp.C11
open Bpp Bpp.Transform

/-! ## Half-line transform (RTransformedParameter), unit scale, both orientations -/

/-- `setOriginalValue` raises exactly when the value is not strictly inside the half-line -/
theorem r_setOriginal_raises_iff (t : RT ℝ) (v : ℝ) : t.setOriginal v = none ↔ ¬ t.Inside v := by
  rw [RT.setOriginal_real]; unfold RT.Inside
  cases t.positive <;> simp

/-- original → transformed → original is the identity (both orientations) -/
theorem r_roundtrip (t : RT ℝ) (hs : t.scale = 1) (v : ℝ) (hv : t.Inside v) :
    ∃ t', t.setOriginal v = some t' ∧ t'.getOriginal = v ∧
      t'.scale = t.scale ∧ t'.bound = t.bound ∧ t'.positive = t.positive := by
  rw [RT.setOriginal_real]
  unfold RT.Inside at hv
  cases hp : t.positive <;> simp only [hp, if_true, if_false, Bool.false_eq_true] at hv ⊢
  · -- ]-inf, b[
    rw [if_neg (not_le.mpr hv)]
    refine ⟨_, rfl, ?_, rfl, rfl, rfl⟩
    rw [RT.getOriginal_real]; simp only [hp, hs, RT.fwdR, if_false, Bool.false_eq_true]
    split_ifs with h1 h2 h2
    · rw [Real.exp_log (by linarith)]; ring
    · exfalso
      have : Real.log (-1 * (v - t.bound)) < 0 := Real.log_neg (by linarith) (by linarith)
      exact h2 this
    · exfalso; linarith
    · ring
  · rw [if_neg (not_le.mpr hv)]
    refine ⟨_, rfl, ?_, rfl, rfl, rfl⟩
    rw [RT.getOriginal_real]; simp only [hp, hs, RT.fwdR, if_true]
    split_ifs with h1 h2 h2
    · rw [Real.exp_log (by linarith)]; ring
    · exfalso
      have : Real.log (1 * (v - t.bound)) < 0 := Real.log_neg (by linarith) (by linarith)
      exact h2 this
    · exfalso; linarith
    · ring

/-- transformed → original → transformed is the identity (both orientations) -/
theorem r_roundtrip_coord (t : RT ℝ) (hs : t.scale = 1) : t.setOriginal t.getOriginal = some t := by
  rw [RT.setOriginal_real, RT.getOriginal_real]
  have he := Real.exp_pos t.x
  cases hp : t.positive <;> simp only [hs, RT.fwdR, hp, if_true, if_false, Bool.false_eq_true]
  · by_cases hx : t.x < 0
    · have h1 : Real.exp t.x < 1 := by rw [← Real.exp_zero]; exact Real.exp_lt_exp.mpr hx
      simp only [hx, if_true]
      rw [if_neg (by linarith), if_pos (by linarith)]
      have : -1 * (-Real.exp t.x / 1 + t.bound - t.bound) = Real.exp t.x := by ring
      rw [this, Real.log_exp]
      cases t; simp_all
    · simp only [hx, if_false]
      have hx' : 0 ≤ t.x := not_lt.mp hx
      rw [if_neg (by linarith), if_neg (by linarith)]
      congr 1
      have : -1 * (-t.x / 1 - 1 + t.bound + 1 - t.bound) = t.x := by ring
      cases t; simp_all
  · by_cases hx : t.x < 0
    · have h1 : Real.exp t.x < 1 := by rw [← Real.exp_zero]; exact Real.exp_lt_exp.mpr hx
      simp only [hx, if_true]
      rw [if_neg (by linarith), if_pos (by linarith)]
      have : 1 * (Real.exp t.x / 1 + t.bound - t.bound) = Real.exp t.x := by ring
      rw [this, Real.log_exp]
      cases t; simp_all
    · simp only [hx, if_false]
      have hx' : 0 ≤ t.x := not_lt.mp hx
      rw [if_neg (by linarith), if_neg (by linarith)]
      congr 1
      have : 1 * (t.x / 1 + 1 + t.bound - 1 - t.bound) = t.x := by ring
      cases t; simp_all

end Bpp.C11
