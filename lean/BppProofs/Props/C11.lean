import BppProofs.Lemmas.Transform
/-!
# C11 — constraint-removing reparametrisation is a faithful change of variables
(src/Bpp/Numeric/TransformedParameter.h, src/Bpp/Numeric/Function/ReparametrizationFunctionWrapper.{h,cpp})

Property theorems only; helper lemmas are in `Lemmas/Transform.lean`.
All statements are about the `Scalar`-generic model read at `ℝ` (exact arithmetic; rounding is
not modelled).  The model is the code after the two `fix:` commits of findings/C11.json.
-/
namespace Bpp.C11
open Bpp Bpp.Transform

/-! ## Half-line transform (RTransformedParameter), unit scale, both orientations -/

/-- `setOriginalValue` raises exactly when the value is not strictly inside the half-line -/
theorem r_setOriginal_raises_iff (t : RT ℝ) (v : ℝ) : t.setOriginal v = none ↔ ¬ t.Inside v := by
  rw [RT.setOriginal_real]; unfold RT.Inside
  cases t.positive <;> simp

/-- original → transformed → original is the identity (both orientations) -/
theorem r_roundtrip (t : RT ℝ) (hs : t.scale = 1) (v : ℝ) (hv : t.Inside v) :
    ∃ t', t.setOriginal v = some t' ∧ t'.getOriginal = v ∧
      t'.scale = t.scale ∧ t'.bound = t.bound ∧ t'.positive = t.positive := by
  rw [RT.setOriginal_real]
  unfold RT.Inside at hv
  cases hp : t.positive <;> simp only [hp, if_true, if_false, Bool.false_eq_true] at hv ⊢
  · -- ]-inf, b[
    rw [if_neg (not_le.mpr hv)]
    refine ⟨_, rfl, ?_, rfl, rfl, rfl⟩
    rw [RT.getOriginal_real]; simp only [hp, hs, RT.fwdR, if_false, Bool.false_eq_true]
    split_ifs with h1 h2 h2
    · rw [Real.exp_log (by linarith)]; ring
    · exfalso
      have : Real.log (-1 * (v - t.bound)) < 0 := Real.log_neg (by linarith) (by linarith)
      exact h2 this
    · exfalso; linarith
    · ring
  · rw [if_neg (not_le.mpr hv)]
    refine ⟨_, rfl, ?_, rfl, rfl, rfl⟩
    rw [RT.getOriginal_real]; simp only [hp, hs, RT.fwdR, if_true]
    split_ifs with h1 h2 h2
    · rw [Real.exp_log (by linarith)]; ring
    · exfalso
      have : Real.log (1 * (v - t.bound)) < 0 := Real.log_neg (by linarith) (by linarith)
      exact h2 this
    · exfalso; linarith
    · ring

/-- transformed → original → transformed is the identity (both orientations) -/
theorem r_roundtrip_coord (t : RT ℝ) (hs : t.scale = 1) : t.setOriginal t.getOriginal = some t := by
  rw [RT.setOriginal_real, RT.getOriginal_real]
  have he := Real.exp_pos t.x
  cases hp : t.positive <;> simp only [hs, RT.fwdR, hp, if_true, if_false, Bool.false_eq_true]
  · by_cases hx : t.x < 0
    · have h1 : Real.exp t.x < 1 := by rw [← Real.exp_zero]; exact Real.exp_lt_exp.mpr hx
      simp only [hx, if_true]
      rw [if_neg (by linarith), if_pos (by linarith)]
      have : -1 * (-Real.exp t.x / 1 + t.bound - t.bound) = Real.exp t.x := by ring
      rw [this, Real.log_exp]
      cases t; simp_all
    · simp only [hx, if_false]
      have hx' : 0 ≤ t.x := not_lt.mp hx
      rw [if_neg (by linarith), if_neg (by linarith)]
      congr 1
      have : -1 * (-t.x / 1 - 1 + t.bound + 1 - t.bound) = t.x := by ring
      cases t; simp_all
  · by_cases hx : t.x < 0
    · have h1 : Real.exp t.x < 1 := by rw [← Real.exp_zero]; exact Real.exp_lt_exp.mpr hx
      simp only [hx, if_true]
      rw [if_neg (by linarith), if_pos (by linarith)]
      have : 1 * (Real.exp t.x / 1 + t.bound - t.bound) = Real.exp t.x := by ring
      rw [this, Real.log_exp]
      cases t; simp_all
    · simp only [hx, if_false]
      have hx' : 0 ≤ t.x := not_lt.mp hx
      rw [if_neg (by linarith), if_neg (by linarith)]
      congr 1
      have : 1 * (t.x / 1 + 1 + t.bound - 1 - t.bound) = t.x := by ring
      cases t; simp_all

/-- every real coordinate back-transforms to a value strictly inside the half-line (any positive scale) -/
theorem r_back_in_domain (t : RT ℝ) (hs : 0 < t.scale) : t.Inside t.getOriginal := by
  unfold RT.Inside
  rw [RT.getOriginal_real]
  have he := Real.exp_pos t.x
  cases t.positive <;> simp only [if_true, if_false, Bool.false_eq_true]
  · split_ifs with hx
    · have : 0 < Real.exp t.x / t.scale := div_pos he hs
      have e : -Real.exp t.x / t.scale = -(Real.exp t.x / t.scale) := by ring
      rw [e]; linarith
    · have : 0 ≤ t.x / t.scale := div_nonneg (not_lt.mp hx) hs.le
      have e : -t.x / t.scale = -(t.x / t.scale) := by ring
      rw [e]; linarith
  · split_ifs with hx
    · have : 0 < Real.exp t.x / t.scale := div_pos he hs
      linarith
    · have : 0 ≤ t.x / t.scale := div_nonneg (not_lt.mp hx) hs.le
      linarith

/-- the back-transformation is strictly increasing for `]b,+inf[` and strictly decreasing for
`]-inf,b[` (the mirror image) -/
theorem r_strict_mono (t : RT ℝ) (hs : t.scale = 1) :
    if t.positive then StrictMono (fun x => (t.at x).getOriginal)
    else StrictAnti (fun x => (t.at x).getOriginal) := by
  have e : (fun x => (t.at x).getOriginal) = fun x => RT.g t.positive t.bound x := by
    funext x; rw [RT.getOriginal_unit _ (by simpa using hs)]; rfl
  rw [e]
  cases t.positive <;> simp only [if_true, if_false, Bool.false_eq_true]
  · intro x y hxy
    simp only [RT.g_eq, if_false, Bool.false_eq_true]
    have := RT.gp_strictMono hxy
    linarith
  · intro x y hxy
    simp only [RT.g_eq, if_true]
    have := RT.gp_strictMono hxy
    linarith

/-- `getFirstOrderDerivative` is the derivative of the back-transformation, everywhere (the two
pieces meet with equal slopes at `x = 0` when the scale is 1) -/
theorem r_d1_is_derivative (t : RT ℝ) (hs : t.scale = 1) :
    HasDerivAt (fun x => (t.at x).getOriginal) t.d1 t.x := by
  have e : (fun x => (t.at x).getOriginal) = fun x => RT.g t.positive t.bound x := by
    funext x; rw [RT.getOriginal_unit _ (by simpa using hs)]; rfl
  rw [e, RT.d1_real, hs]
  have h := RT.gp_hasDerivAt t.x
  cases t.positive <;> simp only [if_true, if_false, Bool.false_eq_true]
  · have e2 : (fun x => RT.g false t.bound x) = fun x => -RT.gp x + t.bound := by
      funext x; simp [RT.g_eq]
    rw [e2]
    have hd : (if t.x < 0 then -Real.exp t.x / 1 else -1 / 1) = -RT.gp' t.x := by
      unfold RT.gp'; split_ifs <;> ring
    rw [hd]
    exact h.neg.add_const t.bound
  · have e2 : (fun x => RT.g true t.bound x) = fun x => RT.gp x + t.bound := by
      funext x; simp [RT.g_eq]
    rw [e2]
    have hd : (if t.x < 0 then Real.exp t.x / 1 else 1 / 1) = RT.gp' t.x := by
      unfold RT.gp'; split_ifs <;> ring
    rw [hd]
    exact h.add_const t.bound

/-- `getSecondOrderDerivative` is the derivative of `getFirstOrderDerivative` away from the junction
of the two pieces -/
theorem r_d2_is_derivative (t : RT ℝ) (hs : t.scale = 1) (hx : t.x ≠ 0) :
    HasDerivAt (fun x => (t.at x).d1) t.d2 t.x := by
  have h := RT.gp'_hasDerivAt t.x hx
  rw [RT.d2_real, hs]
  cases hp : t.positive <;> simp only [if_true, if_false, Bool.false_eq_true]
  · have e : (fun x => (t.at x).d1) = fun x => -RT.gp' x := by
      funext x; rw [RT.d1_real]; simp only [RT.at_positive, RT.at_scale, RT.at_x, hp, hs, RT.gp']
      simp only [if_false, Bool.false_eq_true]; split_ifs <;> ring
    rw [e]
    have hd : (if t.x < 0 then -Real.exp t.x / 1 else 0) = -RT.gp'' t.x := by
      unfold RT.gp''; split_ifs <;> ring
    rw [hd]
    exact h.neg
  · have e : (fun x => (t.at x).d1) = fun x => RT.gp' x := by
      funext x; rw [RT.d1_real]; simp only [RT.at_positive, RT.at_scale, RT.at_x, hp, hs, RT.gp']
      simp only [if_true]; split_ifs <;> ring
    rw [e]
    have hd : (if t.x < 0 then Real.exp t.x / 1 else 0) = RT.gp'' t.x := by
      unfold RT.gp''; split_ifs <;> ring
    rw [hd]
    exact h

/-- the hypothesis `x ≠ 0` of `r_d2_is_derivative` is forced: the transform is C¹ but not C² at the
junction (left slope of `d1` is 1, right slope 0) -/
theorem r_d2_not_derivative_at_junction (t : RT ℝ) (hs : t.scale = 1) :
    ¬ DifferentiableAt ℝ (fun x => (t.at x).d1) 0 := by
  cases hp : t.positive
  · have e : (fun x => (t.at x).d1) = fun x => -RT.gp' x := by
      funext x; rw [RT.d1_real]; simp only [RT.at_positive, RT.at_scale, RT.at_x, hp, hs, RT.gp']
      simp only [if_false, Bool.false_eq_true]; split_ifs <;> ring
    rw [e]
    intro h
    apply RT.gp'_not_differentiableAt_zero
    have := h.neg
    simpa using this
  · have e : (fun x => (t.at x).d1) = fun x => RT.gp' x := by
      funext x; rw [RT.d1_real]; simp only [RT.at_positive, RT.at_scale, RT.at_x, hp, hs, RT.gp']
      simp only [if_true]; split_ifs <;> ring
    rw [e]
    exact RT.gp'_not_differentiableAt_zero

/-- why the property restricts half-lines to unit scale: at scale 2 the round trip of 0.75 in
`]0,+inf[` fails (the forward map takes the `log` branch, the inverse the linear one) -/
theorem r_roundtrip_fails_at_scale_two :
    ∃ t', (RT.mk (2 : ℝ) 0 true 0).setOriginal 0.75 = some t' ∧ t'.getOriginal ≠ 0.75 := by
  have hf : RT.fwdR (RT.mk (2 : ℝ) 0 true 0) 0.75 = Real.log 1.5 := by
    simp only [RT.fwdR, if_true]
    rw [if_pos (by norm_num)]; norm_num
  have h : (0 : ℝ) < Real.log 1.5 := Real.log_pos (by norm_num)
  rw [RT.setOriginal_real]
  simp only [if_true]
  rw [if_neg (by norm_num)]
  refine ⟨_, rfl, ?_⟩
  rw [RT.getOriginal_real]
  simp only [hf, if_true]
  rw [if_neg (not_lt.mpr h.le)]
  intro hh
  have : 0 < Real.log 1.5 / 2 := by positivity
  linarith

end Bpp.C11
