import BppProofs.Lemmas.Transform
/-!
# C11 — constraint-removing reparametrisation is a faithful change of variables
(src/Bpp/Numeric/TransformedParameter.h, src/Bpp/Numeric/Function/ReparametrizationFunctionWrapper.{h,cpp})

Property theorems only; helper lemmas are in `Lemmas/Transform.lean`.
All statements are about the `Scalar`-generic model read at `ℝ` (exact arithmetic; rounding is
not modelled).  The model is the code after the two `fix:` commits of findings/C11.json.
-/
namespace Bpp.C11
open Bpp Bpp.Transform

/-! ## Half-line transform (RTransformedParameter), unit scale, both orientations -/

/-- `setOriginalValue` raises exactly when the value is not strictly inside the half-line -/
theorem r_setOriginal_raises_iff (t : RT ℝ) (v : ℝ) : t.setOriginal v = none ↔ ¬ t.Inside v := by
  rw [RT.setOriginal_real]; unfold RT.Inside
  cases t.positive <;> simp

/-- original → transformed → original is the identity (both orientations) -/
theorem r_roundtrip (t : RT ℝ) (hs : t.scale = 1) (v : ℝ) (hv : t.Inside v) :
    ∃ t', t.setOriginal v = some t' ∧ t'.getOriginal = v ∧
      t'.scale = t.scale ∧ t'.bound = t.bound ∧ t'.positive = t.positive :=
  Bpp.C11aux.r_roundtrip t hs v hv

/-- transformed → original → transformed is the identity (both orientations) -/
theorem r_roundtrip_coord (t : RT ℝ) (hs : t.scale = 1) : t.setOriginal t.getOriginal = some t := by
  rw [RT.setOriginal_real, RT.getOriginal_real]
  have he := Real.exp_pos t.x
  cases hp : t.positive <;> simp only [hs, RT.fwdR, hp, if_true, if_false, Bool.false_eq_true]
  · by_cases hx : t.x < 0
    · have h1 : Real.exp t.x < 1 := by rw [← Real.exp_zero]; exact Real.exp_lt_exp.mpr hx
      simp only [hx, if_true]
      rw [if_neg (by linarith), if_pos (by linarith)]
      have : -1 * (-Real.exp t.x / 1 + t.bound - t.bound) = Real.exp t.x := by ring
      rw [this, Real.log_exp]
      cases t; simp_all
    · simp only [hx, if_false]
      have hx' : 0 ≤ t.x := not_lt.mp hx
      rw [if_neg (by linarith), if_neg (by linarith)]
      congr 1
      have : -1 * (-t.x / 1 - 1 + t.bound + 1 - t.bound) = t.x := by ring
      cases t; simp_all
  · by_cases hx : t.x < 0
    · have h1 : Real.exp t.x < 1 := by rw [← Real.exp_zero]; exact Real.exp_lt_exp.mpr hx
      simp only [hx, if_true]
      rw [if_neg (by linarith), if_pos (by linarith)]
      have : 1 * (Real.exp t.x / 1 + t.bound - t.bound) = Real.exp t.x := by ring
      rw [this, Real.log_exp]
      cases t; simp_all
    · simp only [hx, if_false]
      have hx' : 0 ≤ t.x := not_lt.mp hx
      rw [if_neg (by linarith), if_neg (by linarith)]
      congr 1
      have : 1 * (t.x / 1 + 1 + t.bound - 1 - t.bound) = t.x := by ring
      cases t; simp_all

/-- every real coordinate back-transforms to a value strictly inside the half-line (any positive scale) -/
theorem r_back_in_domain (t : RT ℝ) (hs : 0 < t.scale) : t.Inside t.getOriginal :=
  Bpp.C11aux.r_inside t hs

/-- the back-transformation is strictly increasing for `]b,+inf[` and strictly decreasing for
`]-inf,b[` (the mirror image) -/
theorem r_strict_mono (t : RT ℝ) (hs : t.scale = 1) :
    if t.positive then StrictMono (fun x => (t.at x).getOriginal)
    else StrictAnti (fun x => (t.at x).getOriginal) := by
  have e : (fun x => (t.at x).getOriginal) = fun x => RT.g t.positive t.bound x := by
    funext x; rw [RT.getOriginal_unit _ (by simpa using hs)]; rfl
  rw [e]
  cases t.positive <;> simp only [if_true, if_false, Bool.false_eq_true]
  · intro x y hxy
    simp only [RT.g_eq, if_false, Bool.false_eq_true]
    have := RT.gp_strictMono hxy
    linarith
  · intro x y hxy
    simp only [RT.g_eq, if_true]
    have := RT.gp_strictMono hxy
    linarith

/-- `getFirstOrderDerivative` is the derivative of the back-transformation, everywhere (the two
pieces meet with equal slopes at `x = 0` when the scale is 1) -/
theorem r_d1_is_derivative (t : RT ℝ) (hs : t.scale = 1) :
    HasDerivAt (fun x => (t.at x).getOriginal) t.d1 t.x := by
  have e : (fun x => (t.at x).getOriginal) = fun x => RT.g t.positive t.bound x := by
    funext x; rw [RT.getOriginal_unit _ (by simpa using hs)]; rfl
  rw [e, RT.d1_real, hs]
  have h := RT.gp_hasDerivAt t.x
  cases t.positive <;> simp only [if_true, if_false, Bool.false_eq_true]
  · have e2 : (fun x => RT.g false t.bound x) = fun x => -RT.gp x + t.bound := by
      funext x; simp [RT.g_eq]
    rw [e2]
    have hd : (if t.x < 0 then -Real.exp t.x / 1 else -1 / 1) = -RT.gp' t.x := by
      unfold RT.gp'; split_ifs <;> ring
    rw [hd]
    exact h.neg.add_const t.bound
  · have e2 : (fun x => RT.g true t.bound x) = fun x => RT.gp x + t.bound := by
      funext x; simp [RT.g_eq]
    rw [e2]
    have hd : (if t.x < 0 then Real.exp t.x / 1 else 1 / 1) = RT.gp' t.x := by
      unfold RT.gp'; split_ifs <;> ring
    rw [hd]
    exact h.add_const t.bound

/-- Full statement (clause "second derivative agrees with finite differences of the first"):
`HasDerivAt (fun x => (t.at x).d1) t.d2 t.x` for every coordinate.  It is **false at the junction
`x = 0`** of the two pieces (`r_d2_not_derivative_at_junction`), a coordinate ordinary inputs reach
(`[a,+inf[` with the value `a + 1`).  Proved here: everywhere else.  What holds at every coordinate,
the junction included, is `r_d2_is_right_derivative`; the left slope at the junction is
`r_d2_left_derivative_at_junction`. -/
theorem r_d2_is_derivative_partial (t : RT ℝ) (hs : t.scale = 1) (hx : t.x ≠ 0) :
    HasDerivAt (fun x => (t.at x).d1) t.d2 t.x := by
  have h := RT.gp'_hasDerivAt t.x hx
  rw [RT.d2_real, hs]
  cases hp : t.positive <;> simp only [if_true, if_false, Bool.false_eq_true]
  · have e : (fun x => (t.at x).d1) = fun x => -RT.gp' x := by
      funext x; rw [RT.d1_real]; simp only [RT.at_positive, RT.at_scale, RT.at_x, hp, hs, RT.gp']
      simp only [if_false, Bool.false_eq_true]; split_ifs <;> ring
    rw [e]
    have hd : (if t.x < 0 then -Real.exp t.x / 1 else 0) = -RT.gp'' t.x := by
      unfold RT.gp''; split_ifs <;> ring
    rw [hd]
    exact h.neg
  · have e : (fun x => (t.at x).d1) = fun x => RT.gp' x := by
      funext x; rw [RT.d1_real]; simp only [RT.at_positive, RT.at_scale, RT.at_x, hp, hs, RT.gp']
      simp only [if_true]; split_ifs <;> ring
    rw [e]
    have hd : (if t.x < 0 then Real.exp t.x / 1 else 0) = RT.gp'' t.x := by
      unfold RT.gp''; split_ifs <;> ring
    rw [hd]
    exact h

/-- At **every** coordinate, the junction included, `getSecondOrderDerivative` is the *right*
derivative of `getFirstOrderDerivative` (this is what the code guarantees: at `x = 0` it returns the
slope of the linear piece, `0`). -/
theorem r_d2_is_right_derivative (t : RT ℝ) (hs : t.scale = 1) :
    HasDerivWithinAt (fun x => (t.at x).d1) t.d2 (Set.Ici t.x) t.x := by
  have h := RT.gp'_hasDerivWithinAt_Ici t.x
  rw [RT.d2_real, hs]
  cases hp : t.positive <;> simp only [if_true, if_false, Bool.false_eq_true]
  · have e : (fun x => (t.at x).d1) = fun x => -RT.gp' x := by
      funext x; rw [RT.d1_real]; simp only [RT.at_positive, RT.at_scale, RT.at_x, hp, hs, RT.gp']
      simp only [if_false, Bool.false_eq_true]; split_ifs <;> ring
    rw [e]
    have hd : (if t.x < 0 then -Real.exp t.x / 1 else 0) = -RT.gp'' t.x := by
      unfold RT.gp''; split_ifs <;> ring
    rw [hd]
    exact h.neg
  · have e : (fun x => (t.at x).d1) = fun x => RT.gp' x := by
      funext x; rw [RT.d1_real]; simp only [RT.at_positive, RT.at_scale, RT.at_x, hp, hs, RT.gp']
      simp only [if_true]; split_ifs <;> ring
    rw [e]
    have hd : (if t.x < 0 then Real.exp t.x / 1 else 0) = RT.gp'' t.x := by
      unfold RT.gp''; split_ifs <;> ring
    rw [hd]
    exact h

/-- ... and at the junction the *left* derivative of `getFirstOrderDerivative` is `1` (`-1` for the
mirror image), not the `0` that `getSecondOrderDerivative` returns there: a symmetric finite
difference of the first derivative tends to `±1/2`. -/
theorem r_d2_left_derivative_at_junction (t : RT ℝ) (hs : t.scale = 1) :
    HasDerivWithinAt (fun x => (t.at x).d1) (if t.positive then 1 else -1) (Set.Iic 0) 0 ∧
    (t.at 0).d2 = 0 := by
  refine ⟨?_, by rw [RT.d2_real]; simp⟩
  have h := RT.gp'_left_at_zero
  cases hp : t.positive <;> simp only [if_true, if_false, Bool.false_eq_true]
  · have e : (fun x => (t.at x).d1) = fun x => -RT.gp' x := by
      funext x; rw [RT.d1_real]; simp only [RT.at_positive, RT.at_scale, RT.at_x, hp, hs, RT.gp']
      simp only [if_false, Bool.false_eq_true]; split_ifs <;> ring
    rw [e]
    exact h.neg
  · have e : (fun x => (t.at x).d1) = fun x => RT.gp' x := by
      funext x; rw [RT.d1_real]; simp only [RT.at_positive, RT.at_scale, RT.at_x, hp, hs, RT.gp']
      simp only [if_true]; split_ifs <;> ring
    rw [e]
    exact h

/-- the hypothesis `x ≠ 0` of `r_d2_is_derivative_partial` is forced: the transform is C¹ but not C² at the
junction (left slope of `d1` is 1, right slope 0) -/
theorem r_d2_not_derivative_at_junction (t : RT ℝ) (hs : t.scale = 1) :
    ¬ DifferentiableAt ℝ (fun x => (t.at x).d1) 0 := by
  cases hp : t.positive
  · have e : (fun x => (t.at x).d1) = fun x => -RT.gp' x := by
      funext x; rw [RT.d1_real]; simp only [RT.at_positive, RT.at_scale, RT.at_x, hp, hs, RT.gp']
      simp only [if_false, Bool.false_eq_true]; split_ifs <;> ring
    rw [e]
    intro h
    apply RT.gp'_not_differentiableAt_zero
    have := h.neg
    simpa using this
  · have e : (fun x => (t.at x).d1) = fun x => RT.gp' x := by
      funext x; rw [RT.d1_real]; simp only [RT.at_positive, RT.at_scale, RT.at_x, hp, hs, RT.gp']
      simp only [if_true]; split_ifs <;> ring
    rw [e]
    exact RT.gp'_not_differentiableAt_zero

/-- why the property restricts half-lines to unit scale: at scale 2 the round trip of 0.75 in
`]0,+inf[` fails (the forward map takes the `log` branch, the inverse the linear one) -/
theorem r_roundtrip_fails_at_scale_two :
    ∃ t', (RT.mk (2 : ℝ) 0 true 0).setOriginal 0.75 = some t' ∧ t'.getOriginal ≠ 0.75 := by
  have hf : RT.fwdR (RT.mk (2 : ℝ) 0 true 0) 0.75 = Real.log 1.5 := by
    simp only [RT.fwdR, if_true]
    rw [if_pos (by norm_num)]; norm_num
  have h : (0 : ℝ) < Real.log 1.5 := Real.log_pos (by norm_num)
  rw [RT.setOriginal_real]
  simp only [if_true]
  rw [if_neg (by norm_num)]
  refine ⟨_, rfl, ?_⟩
  rw [RT.getOriginal_real]
  simp only [hf, if_true]
  rw [if_neg (not_lt.mpr h.le)]
  intro hh
  have : 0 < Real.log 1.5 / 2 := by positivity
  linarith

/-! ## Interval transform (IntervalTransformedParameter), hyperbolic variant -/

/-- `setOriginalValue` raises exactly when the value is not strictly inside the interval -/
theorem interval_setOriginal_raises_iff (pi : ℝ) (t : IT ℝ) (v : ℝ) :
    IT.setOriginal pi t v = none ↔ ¬ (t.lo < v ∧ v < t.hi) := by
  rw [IT.setOriginal_real]
  by_cases h : v ≤ t.lo ∨ t.hi ≤ v
  · simp only [h, if_true, true_iff]; rintro ⟨h1, h2⟩; rcases h with h | h <;> linarith
  · simp only [h, if_false]
    have h' := not_or.mp h
    simp [not_le.mp h'.1, not_le.mp h'.2]

/-- original → transformed → original is the identity -/
theorem interval_roundtrip_hyper (pi : ℝ) (t : IT ℝ) (hh : t.hyper = true) (hs : t.scale ≠ 0)
    (v : ℝ) (h1 : t.lo < v) (h2 : v < t.hi) :
    ∃ t', IT.setOriginal pi t v = some t' ∧ IT.getOriginal pi t' = v ∧
      t'.scale = t.scale ∧ t'.lo = t.lo ∧ t'.hi = t.hi ∧ t'.hyper = t.hyper := by
  rw [IT.setOriginal_real, if_neg (not_or.mpr ⟨not_le.mpr h1, not_le.mpr h2⟩)]
  refine ⟨_, rfl, ?_, rfl, rfl, rfl, rfl⟩
  have hb : t.lo < t.hi := lt_trans h1 h2
  have := IT.getOriginal_at_hyper pi t hh hb (IT.fwd pi t.scale t.lo t.hi t.hyper v)
  rw [show ({ t with x := IT.fwd pi t.scale t.lo t.hi t.hyper v } : IT ℝ)
    = t.at (IT.fwd pi t.scale t.lo t.hi t.hyper v) from rfl, this, hh,
    IT.fwd_hyper_real _ _ _ _ _ h1 h2]
  exact IT.gh_fwd hs h1 h2

/-- transformed → original → transformed is the identity -/
theorem interval_roundtrip_hyper_coord (pi : ℝ) (t : IT ℝ) (hh : t.hyper = true) (hs : t.scale ≠ 0)
    (hb : t.lo < t.hi) : IT.setOriginal pi t (IT.getOriginal pi t) = some t := by
  have hg : IT.getOriginal pi t = IT.gh t.scale t.lo t.hi t.x := by
    have := IT.getOriginal_at_hyper pi t hh hb t.x; simpa using this
  have ⟨m1, m2⟩ := IT.gh_mem t.scale t.lo t.hi t.x hb
  rw [hg, IT.setOriginal_real, if_neg (not_or.mpr ⟨not_le.mpr m1, not_le.mpr m2⟩)]
  have hf : IT.fwd pi t.scale t.lo t.hi t.hyper (IT.gh t.scale t.lo t.hi t.x) = t.x := by
    rw [hh, IT.fwd_hyper_real _ _ _ _ _ m1 m2]; exact IT.fwd_gh hs hb
  rw [hf]

/-- every real coordinate back-transforms strictly inside the interval (whatever the scale) -/
theorem interval_back_in_domain_hyper (pi : ℝ) (t : IT ℝ) (hh : t.hyper = true) (hb : t.lo < t.hi) :
    t.lo < IT.getOriginal pi t ∧ IT.getOriginal pi t < t.hi := by
  have hg : IT.getOriginal pi t = IT.gh t.scale t.lo t.hi t.x := by
    have := IT.getOriginal_at_hyper pi t hh hb t.x; simpa using this
  rw [hg]; exact IT.gh_mem _ _ _ _ hb

/-- whatever the variant, the constant used for π and the coordinate, the back-transformed value is
in the *closed* interval (this is what the final clamp of `getOriginalValue` gives) -/
theorem interval_back_in_closed_domain (pi : ℝ) (t : IT ℝ) (hb : t.lo ≤ t.hi) :
    t.lo ≤ IT.getOriginal pi t ∧ IT.getOriginal pi t ≤ t.hi := by
  rw [IT.getOriginal_real]; exact IT.clamp_mem hb _

/-! ## Interval transform, tangent variant.  `pi` is the constant the code uses for π -/

/-- round trip with any constant `0 < pi ≤ π`: this upper bound is the hypothesis the proof forces
(the angle `pi·(v-lo)/(hi-lo) - pi/2` must stay inside `]-π/2, π/2[`) -/
theorem interval_roundtrip_tan (pi : ℝ) (hpi : 0 < pi) (hle : pi ≤ Real.pi) (t : IT ℝ)
    (hh : t.hyper = false) (hs : t.scale ≠ 0) (v : ℝ) (h1 : t.lo < v) (h2 : v < t.hi) :
    ∃ t', IT.setOriginal pi t v = some t' ∧ IT.getOriginal pi t' = v ∧
      t'.scale = t.scale ∧ t'.lo = t.lo ∧ t'.hi = t.hi ∧ t'.hyper = t.hyper := by
  rw [IT.setOriginal_real, if_neg (not_or.mpr ⟨not_le.mpr h1, not_le.mpr h2⟩)]
  refine ⟨_, rfl, ?_, rfl, rfl, rfl, rfl⟩
  have hb : t.lo < t.hi := lt_trans h1 h2
  have hf : IT.fwd pi t.scale t.lo t.hi t.hyper v
      = t.scale * Real.tan (pi * (v - t.lo) / (t.hi - t.lo) - pi / 2) := by
    rw [hh, IT.fwd_tan_real]
  -- the angle guard holds at the coordinate the forward map produces
  have ha : |Real.arctan (IT.fwd pi t.scale t.lo t.hi t.hyper v / t.scale)| < pi / 2 := by
    rw [hf, mul_div_cancel_left₀ _ hs, IT.arctan_tan_angle hpi hle h1 h2, abs_lt]
    have ⟨a1, a2⟩ := IT.angle_mem hpi h1 h2
    exact ⟨a1, a2⟩
  have := IT.getOriginal_at_tan pi t hh hb hpi (IT.fwd pi t.scale t.lo t.hi t.hyper v) ha
  rw [show ({ t with x := IT.fwd pi t.scale t.lo t.hi t.hyper v } : IT ℝ)
    = t.at (IT.fwd pi t.scale t.lo t.hi t.hyper v) from rfl, this, hf]
  exact IT.gt_fwd hpi hle hs h1 h2

/-- with the exact π -/
theorem interval_roundtrip_tan_exact (t : IT ℝ) (hh : t.hyper = false) (hs : t.scale ≠ 0)
    (v : ℝ) (h1 : t.lo < v) (h2 : v < t.hi) :
    ∃ t', IT.setOriginal Real.pi t v = some t' ∧ IT.getOriginal Real.pi t' = v ∧
      t'.scale = t.scale ∧ t'.lo = t.lo ∧ t'.hi = t.hi ∧ t'.hyper = t.hyper :=
  interval_roundtrip_tan Real.pi Real.pi_pos le_rfl t hh hs v h1 h2

/-- with the library's `NumConstants::PI()` (regenerated from the source on every run): holds
because `PI() < π`; it did not for the original value `3.141593` -/
theorem interval_roundtrip_tan_lib (t : IT ℝ) (hh : t.hyper = false) (hs : t.scale ≠ 0)
    (v : ℝ) (h1 : t.lo < v) (h2 : v < t.hi) :
    ∃ t', IT.setOriginal libPI t v = some t' ∧ IT.getOriginal libPI t' = v ∧
      t'.scale = t.scale ∧ t'.lo = t.lo ∧ t'.hi = t.hi ∧ t'.hyper = t.hyper :=
  interval_roundtrip_tan libPI libPI_pos libPI_lt_pi.le t hh hs v h1 h2

/-- the hypothesis `pi ≤ π` is necessary: with any larger constant the round trip fails for some
value of every interval (this is what happened with `PI() = 3.141593`) -/
theorem interval_roundtrip_tan_fails_of_gt (pi : ℝ) (hgt : Real.pi < pi) (hlt : pi < 2 * Real.pi)
    (t : IT ℝ) (hh : t.hyper = false) (hs : t.scale ≠ 0) (hb : t.lo < t.hi) :
    ∃ v t', t.lo < v ∧ v < t.hi ∧ IT.setOriginal pi t v = some t' ∧ IT.getOriginal pi t' ≠ v := by
  have hpi := Real.pi_pos
  have hppos : 0 < pi := by linarith
  have hw : 0 < t.hi - t.lo := by linarith
  -- choose the angle θ = (π/2 + pi/2)/2 ∈ ]π/2, pi/2[ ; v = lo + (θ + pi/2)/pi * (hi - lo)
  set θ : ℝ := (Real.pi / 2 + pi / 2) / 2 with hθ
  have hθ1 : Real.pi / 2 < θ := by rw [hθ]; linarith
  have hθ2 : θ < pi / 2 := by rw [hθ]; linarith
  set v : ℝ := t.lo + (θ + pi / 2) / pi * (t.hi - t.lo) with hv
  have hfrac1 : 0 < (θ + pi / 2) / pi := by apply div_pos <;> linarith
  have hfrac2 : (θ + pi / 2) / pi < 1 := by rw [div_lt_one (by linarith)]; linarith
  have h1 : t.lo < v := by rw [hv]; nlinarith
  have h2 : v < t.hi := by rw [hv]; nlinarith
  refine ⟨v, t.at (IT.fwd pi t.scale t.lo t.hi t.hyper v), h1, h2, ?_, ?_⟩
  · rw [IT.setOriginal_real, if_neg (not_or.mpr ⟨not_le.mpr h1, not_le.mpr h2⟩)]; rfl
  · have ha : pi * (v - t.lo) / (t.hi - t.lo) - pi / 2 = θ := by
      rw [hv]; have : t.hi - t.lo ≠ 0 := hw.ne'; have : pi ≠ 0 := by linarith
      field_simp; ring
    have hf : IT.fwd pi t.scale t.lo t.hi t.hyper v = t.scale * Real.tan θ := by
      rw [hh, IT.fwd_tan_real, ha]
    -- tan θ = tan (θ - π) and θ - π ∈ ]-π/2, π/2[
    have hat : Real.arctan (t.scale * Real.tan θ / t.scale) = θ - Real.pi := by
      rw [mul_div_cancel_left₀ _ hs, ← Real.tan_sub_pi θ, Real.arctan_tan (by linarith) (by linarith)]
    have hguard : |Real.arctan (t.scale * Real.tan θ / t.scale)| < pi / 2 := by
      rw [hat, abs_lt]; constructor <;> linarith
    rw [hf, IT.getOriginal_at_tan pi t hh hb hppos _ hguard]
    unfold IT.gt
    rw [hat]
    intro hcontra
    have hne : pi ≠ 0 := by linarith
    have e : (θ - Real.pi + pi / 2) * (t.hi - t.lo) / pi + t.lo = v - Real.pi * (t.hi - t.lo) / pi := by
      rw [hv]; field_simp; ring
    rw [e] at hcontra
    have : 0 < Real.pi * (t.hi - t.lo) / pi := div_pos (mul_pos hpi hw) (by linarith)
    linarith

/-- transformed → original → transformed, under the angle guard that keeps the back-transformed
value strictly inside the interval (automatic when `π ≤ pi`; see
`interval_back_in_domain_tan_lib_partial` for the library's constant) -/
theorem interval_roundtrip_tan_coord (pi : ℝ) (hpi : 0 < pi) (t : IT ℝ) (hh : t.hyper = false)
    (hs : t.scale ≠ 0) (hb : t.lo < t.hi) (ha : |Real.arctan (t.x / t.scale)| < pi / 2) :
    IT.setOriginal pi t (IT.getOriginal pi t) = some t := by
  have hg : IT.getOriginal pi t = IT.gt pi t.scale t.lo t.hi t.x := by
    have := IT.getOriginal_at_tan pi t hh hb hpi t.x ha; simpa using this
  have ⟨m1, m2⟩ := IT.gt_mem_of_angle pi t.scale t.lo t.hi t.x hpi hb ha
  rw [hg, IT.setOriginal_real, if_neg (not_or.mpr ⟨not_le.mpr m1, not_le.mpr m2⟩)]
  have hf : IT.fwd pi t.scale t.lo t.hi t.hyper (IT.gt pi t.scale t.lo t.hi t.x) = t.x := by
    rw [hh, IT.fwd_tan_real]; exact IT.fwd_gt hpi hs hb
  rw [hf]

/-- strictly inside the interval for every real coordinate when the constant is at least π -/
theorem interval_back_in_domain_tan (pi : ℝ) (hpi : Real.pi ≤ pi) (t : IT ℝ) (hh : t.hyper = false)
    (hb : t.lo < t.hi) : t.lo < IT.getOriginal pi t ∧ IT.getOriginal pi t < t.hi := by
  have hp : 0 < pi := lt_of_lt_of_le Real.pi_pos hpi
  have ha := IT.arctan_abs_lt_of_pi_le hpi (t.x / t.scale)
  have hg : IT.getOriginal pi t = IT.gt pi t.scale t.lo t.hi t.x := by
    have := IT.getOriginal_at_tan pi t hh hb hp t.x ha; simpa using this
  rw [hg]; exact IT.gt_mem_of_angle pi _ _ _ _ hp hb ha

/-- with the exact π -/
theorem interval_back_in_domain_tan_exact (t : IT ℝ) (hh : t.hyper = false) (hb : t.lo < t.hi) :
    t.lo < IT.getOriginal Real.pi t ∧ IT.getOriginal Real.pi t < t.hi :=
  interval_back_in_domain_tan Real.pi le_rfl t hh hb

/-- the library's constant is (slightly) smaller than π, so `interval_back_in_domain_tan` does not
apply; what holds is the guarded form: the back-transformed value is strictly inside as long as
`|x / scale| ≤ 10^15` (the property's region is `|x / scale| ≤ 300`).  Missing for the full
statement: coordinates beyond `tan (PI()/2) ≈ 1.6·10^16`, where the value sits *on* a bound
(`interval_tan_lib_reaches_bound`; the closed interval always holds,
`interval_back_in_closed_domain`). -/
theorem interval_back_in_domain_tan_lib_partial (t : IT ℝ) (hh : t.hyper = false) (hb : t.lo < t.hi)
    (hg : |t.x / t.scale| ≤ 10 ^ 15) :
    t.lo < IT.getOriginal libPI t ∧ IT.getOriginal libPI t < t.hi := by
  have ha := arctan_abs_lt_libPI_half hg
  have hgo : IT.getOriginal libPI t = IT.gt libPI t.scale t.lo t.hi t.x := by
    have := IT.getOriginal_at_tan libPI t hh hb libPI_pos t.x ha; simpa using this
  rw [hgo]
  exact IT.gt_mem_of_angle libPI _ _ _ _ libPI_pos hb ha

/-- the guard above cannot be dropped: for a coordinate far enough the value is the lower bound
itself (in exact arithmetic), which an open constraint rejects -/
theorem interval_tan_lib_reaches_bound (t : IT ℝ) (hh : t.hyper = false) (hs : 0 < t.scale)
    (hb : t.lo < t.hi) : ∃ x, IT.getOriginal libPI (t.at x) = t.lo := by
  -- an angle θ with -π/2 < θ < -PI()/2
  have hlt := libPI_lt_pi
  have hpos := libPI_pos
  set θ : ℝ := -((Real.pi / 2 + libPI / 2) / 2) with hθ
  have h1 : -(Real.pi / 2) < θ := by rw [hθ]; linarith
  have h2 : θ < -(libPI / 2) := by rw [hθ]; linarith
  refine ⟨t.scale * Real.tan θ, ?_⟩
  rw [IT.getOriginal_at]; simp only [hh, if_false, Bool.false_eq_true]
  have hraw : IT.gt libPI t.scale t.lo t.hi (t.scale * Real.tan θ) < t.lo := by
    unfold IT.gt
    rw [mul_div_cancel_left₀ _ hs.ne', Real.arctan_tan h1 (by linarith [Real.pi_pos])]
    have hw : 0 < t.hi - t.lo := by linarith
    have : (θ + libPI / 2) * (t.hi - t.lo) / libPI < 0 := by
      apply div_neg_of_neg_of_pos _ hpos
      exact mul_neg_of_neg_of_pos (by linarith) hw
    linarith
  unfold IT.clamp
  rw [if_pos hraw, if_neg (not_lt.mpr hb.le)]

/-! ## Interval transform: monotonicity and derivatives -/

/-- hyperbolic variant: strictly increasing in the coordinate -/
theorem interval_strict_mono_hyper (pi : ℝ) (t : IT ℝ) (hh : t.hyper = true) (hs : 0 < t.scale)
    (hb : t.lo < t.hi) : StrictMono (fun x => IT.getOriginal pi (t.at x)) := by
  have e : (fun x => IT.getOriginal pi (t.at x)) = IT.gh t.scale t.lo t.hi := by
    funext x; exact IT.getOriginal_at_hyper pi t hh hb x
  rw [e]; exact IT.gh_strictMono _ _ _ hs hb

/-- tangent variant with a constant `≥ π` (in particular the exact π): strictly increasing -/
theorem interval_strict_mono_tan (pi : ℝ) (hpi : Real.pi ≤ pi) (t : IT ℝ) (hh : t.hyper = false)
    (hs : 0 < t.scale) (hb : t.lo < t.hi) : StrictMono (fun x => IT.getOriginal pi (t.at x)) := by
  have hp : 0 < pi := lt_of_lt_of_le Real.pi_pos hpi
  have e : (fun x => IT.getOriginal pi (t.at x)) = IT.gt pi t.scale t.lo t.hi := by
    funext x; exact IT.getOriginal_at_tan pi t hh hb hp x (IT.arctan_abs_lt_of_pi_le hpi _)
  rw [e]; exact IT.gt_strictMono _ _ _ _ hp hs hb

/-- tangent variant with the library's constant: strictly increasing on `|x / scale| ≤ 10^15`
(beyond `tan (PI()/2)` the clamp makes it constant, so the global statement is false) -/
theorem interval_strict_mono_tan_lib_partial (t : IT ℝ) (hh : t.hyper = false) (hs : 0 < t.scale)
    (hb : t.lo < t.hi) :
    StrictMonoOn (fun x => IT.getOriginal libPI (t.at x)) {x | |x / t.scale| ≤ 10 ^ 15} := by
  intro x hx y hy hxy
  have hx : |x / t.scale| ≤ 10 ^ 15 := hx
  have hy : |y / t.scale| ≤ 10 ^ 15 := hy
  show IT.getOriginal libPI (t.at x) < IT.getOriginal libPI (t.at y)
  rw [IT.getOriginal_at_tan libPI t hh hb libPI_pos x (arctan_abs_lt_libPI_half hx),
    IT.getOriginal_at_tan libPI t hh hb libPI_pos y (arctan_abs_lt_libPI_half hy)]
  exact IT.gt_strictMono _ _ _ _ libPI_pos hs hb hxy

/-- hyperbolic variant: `getFirstOrderDerivative` is the derivative of the back-transformation 
(`_hs`, and `_hs` / `_hpi` in the following derivative theorems, are not needed by the proofs — at scale 0
the statement would be about Lean's `x / 0 = 0` — and are kept to restrict the theorems to the
meaningful domain; every caller has `0 < scale`, `TPWF`.) -/
theorem interval_d1_is_derivative_hyper (pi : ℝ) (t : IT ℝ) (hh : t.hyper = true) (_hs : t.scale ≠ 0)
    (hb : t.lo < t.hi) : HasDerivAt (fun x => IT.getOriginal pi (t.at x)) (IT.d1 pi t) t.x := by
  have e : (fun x => IT.getOriginal pi (t.at x)) = IT.gh t.scale t.lo t.hi := by
    funext x; exact IT.getOriginal_at_hyper pi t hh hb x
  have e1 := IT.d1_at pi t t.x
  rw [IT.at_self] at e1
  rw [e, e1]; simp only [hh, if_true]
  exact IT.gh_hasDerivAt t.scale t.lo t.hi t.x

/-- tangent variant with a constant `≥ π` -/
theorem interval_d1_is_derivative_tan (pi : ℝ) (hpi : Real.pi ≤ pi) (t : IT ℝ) (hh : t.hyper = false)
    (_hs : t.scale ≠ 0) (hb : t.lo < t.hi) :
    HasDerivAt (fun x => IT.getOriginal pi (t.at x)) (IT.d1 pi t) t.x := by
  have hp : 0 < pi := lt_of_lt_of_le Real.pi_pos hpi
  have e : (fun x => IT.getOriginal pi (t.at x)) = IT.gt pi t.scale t.lo t.hi := by
    funext x; exact IT.getOriginal_at_tan pi t hh hb hp x (IT.arctan_abs_lt_of_pi_le hpi _)
  have e1 := IT.d1_at pi t t.x
  rw [IT.at_self] at e1
  rw [e, e1]; simp only [hh, if_false, Bool.false_eq_true]
  exact IT.gt_hasDerivAt pi t.scale t.lo t.hi t.x

/-- tangent variant with the library's constant, for coordinates with `|x / scale| < 10^15` -/
theorem interval_d1_is_derivative_tan_lib_partial (t : IT ℝ) (hh : t.hyper = false)
    (_hs : t.scale ≠ 0) (hb : t.lo < t.hi) (hg : |t.x / t.scale| < 10 ^ 15) :
    HasDerivAt (fun x => IT.getOriginal libPI (t.at x)) (IT.d1 libPI t) t.x := by
  have e1 := IT.d1_at libPI t t.x
  rw [IT.at_self] at e1
  rw [e1]; simp only [hh, if_false, Bool.false_eq_true]
  refine (IT.gt_hasDerivAt libPI t.scale t.lo t.hi t.x).congr_of_eventuallyEq ?_
  -- on the open set `|x / scale| < 10^15` the clamp is the identity
  have hopen : IsOpen {x : ℝ | |x / t.scale| < 10 ^ 15} :=
    isOpen_lt (continuous_abs.comp (continuous_id.div_const t.scale)) continuous_const
  filter_upwards [hopen.mem_nhds hg] with x hx
  exact IT.getOriginal_at_tan libPI t hh hb libPI_pos x (arctan_abs_lt_libPI_half (le_of_lt hx))

/-- `getSecondOrderDerivative` is the derivative of `getFirstOrderDerivative` (both variants, any
constant) -/
theorem interval_d2_is_derivative (pi : ℝ) (t : IT ℝ) (_hs : t.scale ≠ 0)
    (_hpi : t.hyper = false → pi ≠ 0) :
    HasDerivAt (fun x => IT.d1 pi (t.at x)) (IT.d2 pi t) t.x := by
  have e : (fun x => IT.d1 pi (t.at x)) =
      fun x => if t.hyper then IT.gh' t.scale t.lo t.hi x else IT.gt' pi t.scale t.lo t.hi x := by
    funext x; exact IT.d1_at pi t x
  rw [e, IT.d2_real]
  cases hh : t.hyper
  · simpa using IT.gt'_hasDerivAt pi t.scale t.lo t.hi t.x
  · simpa using IT.gh'_hasDerivAt t.scale t.lo t.hi t.x

/-! ## Placebo transform -/

/-- parameters without an interval constraint pass through unchanged, with derivative 1 and 0 -/
theorem placebo_identity (pi v : ℝ) :
    (TP.placebo v : TP ℝ).getOriginal pi = v ∧ (TP.placebo v : TP ℝ).x = v ∧
    (TP.placebo v : TP ℝ).d1 pi = 1 ∧ (TP.placebo v : TP ℝ).d2 pi = 0 ∧
    (∀ x w, ((TP.p x : TP ℝ).setOriginal pi w) = some (.p w)) ∧
    (∀ x w, ((TP.p x : TP ℝ).setX w).getOriginal pi = w) := by
  simp [TP.placebo, TP.getOriginal, TP.x, TP.d1, TP.d2, TP.setOriginal, TP.setX]

end Bpp.C11
