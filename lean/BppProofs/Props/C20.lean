import BppProofs.Lemmas.Range
/-!
# C20 — range collections behave as sets of points   (src/Bpp/Numeric/Range.h)

Property theorems only; helper lemmas are in `Lemmas/Range.lean`.  Everything in this file is
proved **once, for every coordinate type** that is a decidable linear order with a constant `0`
(`Std.IsLinearOrder`, `Std.LawfulOrderLT`), `std::min`/`std::max` (`MinMaxLaws`) and, for the
shifts only, group laws of `+`/`-` (`ShiftLaws`).  `Props/C20Inst.lean` instantiates the theorems
at `Int` (`int`), `UInt32` (`unsigned`, arithmetic modulo 2^32) and `Rat` (`double`).

No restriction on the sign of the coordinates: since the audit repair of `clean_` (empty ranges
are dropped *before* `std::sort`) the comparator is only ever applied to non-empty pairwise
disjoint ranges (`sort_input_ok`), on which it is a strict weak order whatever the sign.  Before the
repair the `[0,0[` written by `sliceWith` next to a stored range straddling 0 made it inconsistent
(`comparator_inconsistent_negative` in `C20Inst.lean`) and `std::sort` crashed.
-/
set_option linter.unusedSectionVars false
namespace Bpp.C20
open Bpp Bpp.Range Bpp.MultiRange

section
variable {α : Type} [LE α] [LT α] [DecidableLE α] [DecidableLT α] [DecidableEq α] [OfNat α 0]
  [Std.IsLinearOrder α] [Std.LawfulOrderLT α]

/-! ## Range: constructor, comparison operators -/

theorem make_wf [Min α] [Max α] [MinMaxLaws α] (a b : α) :
    (Range.make a b).b ≤ (Range.make a b).e ∧
    (Range.make a b).b = min a b ∧ (Range.make a b).e = max a b ∧
    ((Range.make a b).b = a ∧ (Range.make a b).e = b ∨ (Range.make a b).b = b ∧ (Range.make a b).e = a) := by
  simp only [Range.make, MinMaxLaws.min_def, MinMaxLaws.max_def]; grind

/-- reversed arguments give the same range -/
theorem make_comm [Min α] [Max α] [MinMaxLaws α] (a b : α) : Range.make a b = Range.make b a := by
  simp only [Range.make, Range.mk.injEq, MinMaxLaws.min_def, MinMaxLaws.max_def]; grind

/-- `Range()` is the empty range `[0,0[`; `Range(a)` is `[0,a[` in the universe `a ≥ 0` -/
theorem make_default [Min α] [Max α] [MinMaxLaws α] :
    (Range.default : Range α) = ⟨0, 0⟩ ∧ (Range.default : Range α).isEmpty = true ∧
    ∀ a : α, 0 ≤ a → Range.make1 a = ⟨0, a⟩ := by
  simp only [Range.default, Range.make1, Range.make, Range.isEmpty, Range.mk.injEq,
    MinMaxLaws.min_def, MinMaxLaws.max_def]; grind

/-- `operator==` is equality of ranges, `operator!=` its negation -/
theorem eq_ne_spec (x r : Range α) : (x.eq r = true ↔ x = r) ∧ x.ne r = !x.eq r := by
  cases x; cases r
  simp only [Range.eq, Range.ne, Range.mk.injEq]
  grind

/-- the strict-weak-order axioms of a comparator at three elements: irreflexive, asymmetric,
transitive, and incomparability is transitive -/
def StrictWeakAt (x y z : Range α) : Prop :=
  x.lt x = false ∧ (x.lt y = true → y.lt x = false) ∧
  (x.lt y = true → y.lt z = true → x.lt z = true) ∧
  (x.lt y = false → y.lt x = false → y.lt z = false → z.lt y = false →
    x.lt z = false ∧ z.lt x = false)

/-- `operator<` (`begin < r.begin || end < r.end`) is irreflexive, and on ranges that are
well-formed and pairwise disjoint — what `clean_` sorts — it is a strict weak order, so the result
of any correct `std::sort` is determined (**comparator_consistent**) -/
theorem comparator_consistent (x y z : Range α) (hx : x.b ≤ x.e) (hy : y.b ≤ y.e) (hz : z.b ≤ z.e)
    (hxy : Disj x y) (hyz : Disj y z) (hxz : Disj x z) : StrictWeakAt x y z := by
  simp only [Disj, StrictWeakAt] at *
  simp only [Range.lt, Bool.or_eq_true, Bool.or_eq_false_iff, decide_eq_true_eq, decide_eq_false_iff_not]
  grind

/-- two ranges that neither is "less" than the other under the comparator and that are disjoint
and non-empty are equal: the sorted order is total on what a multi-range stores -/
theorem comparator_total (x y : Range α) (hx : x.b < x.e) (hy : y.b < y.e) (hxy : Disj x y) :
    x.lt y = true ∨ y.lt x = true := by
  simp only [Disj] at *
  simp only [Range.lt, Bool.or_eq_true, decide_eq_true_eq]
  grind

/-! ## Range: predicates, expansion, slicing, shifting -/

theorem isEmpty_iff (x : Range α) (hx : x.b ≤ x.e) : x.isEmpty = true ↔ ∀ p, ¬ mem p x := by
  rw [isEmpty_eq]; unfold mem
  constructor
  · intro h p; grind
  · intro h; have := h x.b; grind

/-- two non-empty ranges overlap iff they share a point.
FULL STATEMENT (the property says "including empty ranges"):
  `∀ x r, x.b ≤ x.e → r.b ≤ r.e → (x.overlap r = true ↔ ∃ p, mem p x ∧ mem p r)`
is FALSE of the code: an empty operand lying strictly inside the other "overlaps" it
(`overlap_empty`, witness `C20Inst.overlap_empty_operand_witness`, known finding
C20-overlap-empty-operand).  What is missing here: the empty operands. -/
theorem overlap_iff_partial (x r : Range α) (hx : x.b < x.e) (hr : r.b < r.e) :
    x.overlap r = true ↔ ∃ p, mem p x ∧ mem p r := by
  rw [overlap_eq]; unfold mem
  constructor
  · intro h
    rcases Std.le_total (a := x.b) (b := r.b) with h1 | h1
    · exact ⟨r.b, by grind⟩
    · exact ⟨x.b, by grind⟩
  · rintro ⟨p, hp⟩; grind

/-- for an empty operand the code reads it as the position `b`: it "overlaps" a range iff it lies
strictly inside (stated outright so that the degenerate case is not hidden) -/
theorem overlap_empty (x r : Range α) (hr : r.b = r.e) :
    x.overlap r = true ↔ (x.b < r.b ∧ r.b < x.e) := by
  rw [overlap_eq]; grind

/-- containment of a non-empty range is set inclusion.
FULL STATEMENT: `∀ x r, r.b ≤ r.e → (x.contains r = true ↔ ∀ p, mem p r → mem p x)` is FALSE of the
code: an empty `r = [c,c[` with `c` outside `[x.b, x.e]` is "not contained" although it has no
point (`contains_endpoints`, witness `C20Inst.contains_empty_range_witness`, known finding
C20-contains-empty-range).  What is missing here: the empty argument. -/
theorem contains_iff_partial (x r : Range α) (hr : r.b < r.e) :
    x.contains r = true ↔ ∀ p, mem p r → mem p x := by
  rw [contains_eq]; unfold mem
  constructor
  · intro h p hp; grind
  · intro h
    have h1 := h r.b (by grind)
    refine ⟨h1.1, ?_⟩
    apply Classical.byContradiction
    intro hc
    have h2 := h x.e (by grind)
    grind

theorem contains_endpoints (x r : Range α) : x.contains r = true ↔ (x.b ≤ r.b ∧ r.e ≤ x.e) := by
  simp [Range.contains]

theorem contiguous_iff (x r : Range α) : x.isContiguous r = true ↔ (r.b = x.e ∨ r.e = x.b) := by
  simp [Range.isContiguous]

/-- `overlap` is symmetric (so `overlap_empty` also covers an empty *first* operand) -/
theorem overlap_comm (x r : Range α) : x.overlap r = r.overlap x := by
  simp only [Range.overlap]; exact Bool.and_comm _ _

/-- contiguity in interval arithmetic (not the definition restated): two non-empty ranges are
contiguous iff they share no point and their union is the whole hull `[min b, max e[` -/
theorem contiguous_spec (x r : Range α) (hx : x.b < x.e) (hr : r.b < r.e) :
    x.isContiguous r = true ↔
      (¬ ∃ p, mem p x ∧ mem p r) ∧
      ∀ p, ((x.b ≤ p ∨ r.b ≤ p) ∧ (p < x.e ∨ p < r.e)) → mem p x ∨ mem p r := by
  rw [contiguous_iff]; unfold mem
  constructor
  · intro h
    refine ⟨?_, ?_⟩
    · rintro ⟨p, hp⟩; grind
    · intro p hp; grind
  · rintro ⟨h1, h2⟩
    have a1 := h2 x.e
    have a2 := h2 r.e
    have b1 : ¬ (x.b ≤ x.b ∧ x.b < x.e ∧ r.b ≤ x.b ∧ x.b < r.e) := fun h => h1 ⟨x.b, ⟨h.1, h.2.1⟩, h.2.2⟩
    have b2 : ¬ (x.b ≤ r.b ∧ r.b < x.e ∧ r.b ≤ r.b ∧ r.b < r.e) := fun h => h1 ⟨r.b, ⟨h.1, h.2.1⟩, h.2.2⟩
    grind

/-- what the predicates of `Range` mean in interval arithmetic on half-open intervals -/
def RangePreds (x r : Range α) : Prop :=
  (x.isEmpty = true ↔ ∀ p, ¬ mem p x) ∧
  (x.b < x.e → r.b < r.e → (x.overlap r = true ↔ ∃ p, mem p x ∧ mem p r)) ∧
  (r.b = r.e → (x.overlap r = true ↔ (x.b < r.b ∧ r.b < x.e))) ∧
  (r.b < r.e → (x.contains r = true ↔ ∀ p, mem p r → mem p x)) ∧
  (x.contains r = true ↔ (x.b ≤ r.b ∧ r.e ≤ x.e)) ∧
  (x.isContiguous r = true ↔ (r.b = x.e ∨ r.e = x.b)) ∧
  (x.b < x.e → r.b < r.e → (x.isContiguous r = true ↔
    (¬ ∃ p, mem p x ∧ mem p r) ∧
    ∀ p, ((x.b ≤ p ∨ r.b ≤ p) ∧ (p < x.e ∨ p < r.e)) → mem p x ∨ mem p r)) ∧
  x.overlap r = r.overlap x

/-- **range_preds_partial**: `overlap`, `contains`, `isContiguous`, `isEmpty` agree with interval
arithmetic on half-open intervals -/
theorem range_preds_partial (x r : Range α) (hx : x.b ≤ x.e) (_hr : r.b ≤ r.e) : RangePreds x r :=
  ⟨isEmpty_iff x hx, overlap_iff_partial x r, overlap_empty x r, contains_iff_partial x r, contains_endpoints x r,
    contiguous_iff x r, contiguous_spec x r, overlap_comm x r⟩

/-- slicing is intersection, for all (possibly empty) well-formed operands -/
theorem slice_spec (x r : Range α) (hx : x.b ≤ x.e) (hr : r.b ≤ r.e) :
    (x.sliceWith r).b ≤ (x.sliceWith r).e ∧ ∀ p, mem p (x.sliceWith r) ↔ mem p x ∧ mem p r := by
  simp only [Range.sliceWith, Range.overlap, mem]
  grind

/-- a slice is either the reset range `[0,0[` or lies inside the sliced range -/
theorem slice_bounds (x r : Range α) (hx : x.b ≤ x.e) :
    x.sliceWith r = ⟨0, 0⟩ ∨
    (x.b ≤ (x.sliceWith r).b ∧ (x.sliceWith r).b ≤ (x.sliceWith r).e ∧ (x.sliceWith r).e ≤ x.e) := by
  simp only [Range.sliceWith, Range.overlap]
  grind

/-- the end points of a slice are end points of the operands, or the literal `0` -/
theorem slice_endpoints (x r : Range α) :
    ((x.sliceWith r).b = x.b ∨ (x.sliceWith r).b = r.b ∨ (x.sliceWith r).b = 0) ∧
    ((x.sliceWith r).e = x.e ∨ (x.sliceWith r).e = r.e ∨ (x.sliceWith r).e = 0) := by
  simp only [Range.sliceWith, Range.overlap]
  grind

/-- expansion is union whenever the union is an interval (overlapping or touching operands),
and leaves the range unchanged otherwise -/
theorem expand_spec (x r : Range α) (hx : x.b ≤ x.e) (_hr : r.b ≤ r.e) :
    (r.b ≤ x.e ∧ x.b ≤ r.e → ∀ p, mem p (x.expandWith r) ↔ mem p x ∨ mem p r) ∧
    (¬ (r.b ≤ x.e ∧ x.b ≤ r.e) → x.expandWith r = x) ∧
    ((x.expandWith r).b = x.b ∨ (x.expandWith r).b = r.b) ∧
    ((x.expandWith r).e = x.e ∨ (x.expandWith r).e = r.e) := by
  refine ⟨?_, ?_, ?_, ?_⟩
  · intro h p; simp only [Range.expandWith, mem]; grind
  · intro h
    cases x
    simp only [Range.expandWith, Range.mk.injEq] at *; grind
  · simp only [Range.expandWith]; grind
  · simp only [Range.expandWith]; grind

def ShiftLength [Add α] [Sub α] (x : Range α) (v : α) : Prop :=
  (x.shift v).length = x.length ∧ (x.unshift v).length = x.length ∧
  (x.shift v).unshift v = x ∧ (x.unshift v).shift v = x

/-- **shift_length**: shifting preserves the length and `- v` undoes `+ v` — in every coordinate
type whose `+`/`-` satisfy the group laws, so also for `unsigned` when the shift wraps -/
theorem shift_length [Add α] [Sub α] [ShiftLaws α] (x : Range α) (v : α) : ShiftLength x v := by
  cases x
  simp only [ShiftLength, Range.shift, Range.unshift, Range.length, ShiftLaws.add_sub_add, ShiftLaws.sub_sub_sub,
    ShiftLaws.add_sub_cancel, ShiftLaws.sub_add_cancel, and_self]

/-! ## MultiRange: one step -/

/-- the admissible arguments: well-formed ranges, as built by the normalising constructor (a
wrapped `unsigned` shift result is not: `C20Inst.illformed_arg_uint`) -/
def Arg (r : Range α) : Prop := r.b ≤ r.e

theorem make_arg [Min α] [Max α] [MinMaxLaws α] (a b : α) : Arg (Range.make a b) := by
  simp only [Arg, Range.make, MinMaxLaws.min_def, MinMaxLaws.max_def]; grind

/-- **component-level meaning of `addRange`**: the stored ranges that do not overlap `r` stay,
and — unless nothing overlaps and `r` is empty — one new non-empty range appears whose points are
exactly those of `r` and of all overlapped ranges -/
def addK (K : Range α → Prop) (r : Range α) (y : Range α) : Prop :=
  (K y ∧ y.overlap r = false) ∨
  (y.b < y.e ∧ ∀ p, mem p y ↔ (mem p r ∨ ∃ x, K x ∧ x.overlap r = true ∧ mem p x))

theorem add_spec (m : List (Range α)) (r : Range α) (hm : MultiRange.Inv m) (hr : Arg r) :
    MultiRange.Inv (addRange m r) ∧ (∀ p, pts (addRange m r) p ↔ pts m p ∨ mem p r) ∧
    (∀ y, y ∈ addRange m r ↔ addK (· ∈ m) r y) := by
  unfold addRange
  cases h : mergeInto r m with
  | none =>
    have hno := (mergeInto_none r m).mp h
    have hpre : PreClean (m ++ [r.clone]) := by
      constructor
      · intro x hx
        rcases List.mem_append.mp hx with e | e
        · have := hm.1 x e; grind
        · simp at e; subst e; exact hr
      · rw [List.pairwise_append]
        refine ⟨hm.2.imp (fun h => Disj.ne (R.disj h)), by simp, ?_⟩
        intro x hx y hy
        simp at hy; rw [hy]
        have h1 := (overlap_false x r).mp (hno x hx)
        have h2 := hm.1 x hx
        simp only [DisjNE, Disj, Arg] at *; grind
    have := clean_spec _ hpre
    refine ⟨this.1, ?_, ?_⟩
    · intro p; rw [this.2 p]
      simp only [pts, List.mem_append, List.mem_singleton, clone_eq]
      constructor
      · rintro ⟨x, (e | e), hp⟩
        · exact Or.inl ⟨x, e, hp⟩
        · subst e; exact Or.inr hp
      · rintro (⟨x, e, hp⟩ | hp)
        · exact ⟨x, Or.inl e, hp⟩
        · exact ⟨r, Or.inr rfl, hp⟩
    · intro y
      simp only [mem_clean, List.mem_append, List.mem_singleton, clone_eq, addK]
      constructor
      · rintro ⟨(e | e), hne⟩
        · exact Or.inl ⟨e, hno y e⟩
        · subst e
          refine Or.inr ⟨by have := hr; simp only [Arg] at this; grind, fun p => ⟨Or.inl, ?_⟩⟩
          rintro (hp | ⟨x, hx, hxo, _⟩)
          · exact hp
          · rw [hno x hx] at hxo; cases hxo
      · rintro (⟨e, _⟩ | ⟨hne, hp⟩)
        · exact ⟨Or.inl e, by have := hm.1 y e; grind⟩
        · have hpr : ∀ p, mem p y ↔ mem p r := by
            intro p; rw [hp p]
            constructor
            · rintro (h1 | ⟨x, hx, hxo, _⟩)
              · exact h1
              · rw [hno x hx] at hxo; cases hxo
            · exact Or.inl
          exact ⟨Or.inr (ext_of_mem y r hne hpr), by grind⟩
  | some v =>
    obtain ⟨mg, l⟩ := v
    obtain ⟨M1, M2, _, M4, M5, M6⟩ := mergeInto_some r hr m hm mg l h
    have hc := clean_spec l M1
    refine ⟨hc.1, ?_, ?_⟩
    · intro p; rw [hc.2 p]; exact M2 p
    · intro y
      rw [mem_clean, M4 y]
      simp only [addK]
      constructor
      · rintro ⟨(⟨e, ho⟩ | e), hne⟩
        · exact Or.inl ⟨e, ho⟩
        · subst e; exact Or.inr ⟨M5, M6⟩
      · rintro (⟨e, ho⟩ | ⟨hne, hp⟩)
        · exact ⟨Or.inl ⟨e, ho⟩, by have := hm.1 y e; grind⟩
        · refine ⟨Or.inr (ext_of_mem y mg hne ?_), by grind⟩
          intro p; rw [hp p, M6 p]

/-- **component-level meaning of `restrictTo`**: the non-empty intersections of the stored
ranges with `r` -/
def restrictK (K : Range α → Prop) (r : Range α) (y : Range α) : Prop :=
  y.b < y.e ∧ ∃ x, K x ∧ ∀ p, mem p y ↔ mem p x ∧ mem p r

theorem restrict_spec (m : List (Range α)) (r : Range α) (hm : MultiRange.Inv m) (hr : Arg r) :
    MultiRange.Inv (restrictTo m r) ∧ (∀ p, pts (restrictTo m r) p ↔ pts m p ∧ mem p r) ∧
    (∀ y, y ∈ restrictTo m r ↔ restrictK (· ∈ m) r y) := by
  unfold restrictTo
  have hslice : ∀ x ∈ m, (x.sliceWith r).b ≤ (x.sliceWith r).e := by
    intro x hx
    have h1 := hm.1 x hx
    exact (slice_spec x r (by grind) hr).1
  have hpre : PreClean (m.map (·.sliceWith r)) := by
    constructor
    · intro y hy
      simp only [List.mem_map] at hy
      obtain ⟨x, hx, e⟩ := hy
      subst e; exact hslice x hx
    · rw [List.pairwise_map]
      apply List.Pairwise.imp_of_mem _ hm.2
      intro x y hx hy hxy
      have h1 := hm.1 x hx
      have h2 := hm.1 y hy
      have bx := slice_bounds x r (by grind)
      have bY := slice_bounds y r (by grind)
      simp only [Arg] at hr
      simp only [R] at hxy
      simp only [DisjNE, Disj]
      rcases bx with e1 | e1 <;> rcases bY with e2 | e2
      · rw [e1]; exact Or.inl rfl
      · rw [e1]; exact Or.inl rfl
      · rw [e2]; exact Or.inr (Or.inl rfl)
      · grind
  have hc := clean_spec _ hpre
  refine ⟨hc.1, ?_, ?_⟩
  · intro p; rw [hc.2 p]
    simp only [pts, List.mem_map]
    constructor
    · rintro ⟨y, ⟨x, hx, e⟩, hp⟩
      subst e
      have h1 := hm.1 x hx
      have := (slice_spec x r (by grind) hr).2 p
      exact ⟨⟨x, hx, (this.mp hp).1⟩, (this.mp hp).2⟩
    · rintro ⟨⟨x, hx, hp⟩, hpr⟩
      have h1 := hm.1 x hx
      exact ⟨_, ⟨x, hx, rfl⟩, ((slice_spec x r (by grind) hr).2 p).mpr ⟨hp, hpr⟩⟩
  · intro y
    simp only [mem_clean, List.mem_map, restrictK]
    constructor
    · rintro ⟨⟨x, hx, e⟩, hne⟩
      subst e
      have h1 := hm.1 x hx
      have hs := slice_spec x r (by grind) hr
      exact ⟨by grind, x, hx, hs.2⟩
    · rintro ⟨hne, x, hx, hp⟩
      have h1 := hm.1 x hx
      have hs := slice_spec x r (by grind) hr
      have : y = x.sliceWith r := ext_of_mem y _ hne (fun p => by rw [hp p, hs.2 p])
      exact ⟨⟨x, hx, this.symm⟩, by grind⟩

/-- **component-level meaning of `filterWithin`**: keep exactly the stored ranges that lie
within `r` -/
def filterK (K : Range α → Prop) (r : Range α) (y : Range α) : Prop :=
  K y ∧ r.b ≤ y.b ∧ y.e ≤ r.e

/-- `filterWithin` keeps exactly the stored ranges that lie within `r`; on points: a point
survives iff the stored range it belongs to is a subset of `r` -/
theorem filter_spec (m : List (Range α)) (r : Range α) (hm : MultiRange.Inv m) :
    MultiRange.Inv (filterWithin m r) ∧ (∀ y, y ∈ filterWithin m r ↔ filterK (· ∈ m) r y) ∧
    (∀ p, pts (filterWithin m r) p ↔ ∃ x ∈ m, mem p x ∧ ∀ q, mem q x → mem q r) := by
  unfold filterWithin
  refine ⟨⟨fun x hx => hm.1 x (List.mem_filter.mp hx).1, hm.2.filter _⟩, ?_, ?_⟩
  · intro x; simp [List.mem_filter, Range.contains, filterK]
  · intro p
    simp only [pts, List.mem_filter]
    constructor
    · rintro ⟨x, ⟨hx, hc⟩, hp⟩
      exact ⟨x, hx, hp, (contains_iff_partial r x (hm.1 x hx)).mp hc⟩
    · rintro ⟨x, hx, hp, hq⟩
      exact ⟨x, ⟨hx, (contains_iff_partial r x (hm.1 x hx)).mpr hq⟩, hp⟩

theorem inv_nil : MultiRange.Inv ([] : List (Range α)) :=
  ⟨(fun _ hx => nomatch hx), List.Pairwise.nil⟩

/-! ## MultiRange: every history -/

variable [Min α] [Max α] [MinMaxLaws α]

inductive Op (α : Type) where
  | add (a b : α)
  | restrict (a b : α)
  | filter (a b : α)
  | clear

def step (m : List (Range α)) : Op α → List (Range α)
  | .add a b => addRange m (Range.make a b)
  | .restrict a b => restrictTo m (Range.make a b)
  | .filter a b => filterWithin m (Range.make a b)
  | .clear => RangeCollection.clear m

def run (ops : List (Op α)) : List (Range α) := ops.foldl step []

theorem step_inv (m : List (Range α)) (hm : MultiRange.Inv m) (o : Op α) :
    MultiRange.Inv (step m o) := by
  cases o with
  | add a b => exact (add_spec m _ hm (make_arg a b)).1
  | restrict a b => exact (restrict_spec m _ hm (make_arg a b)).1
  | filter a b => exact (filter_spec m _ hm).1
  | clear => exact inv_nil

/-- **mr_inv**: after any history the stored ranges are non-empty, ascending and pairwise
disjoint -/
theorem mr_inv (ops : List (Op α)) : MultiRange.Inv (run ops) := by
  suffices h : ∀ m, MultiRange.Inv m → MultiRange.Inv (ops.foldl step m) from h [] inv_nil
  induction ops with
  | nil => intro m hm; exact hm
  | cons o os ih =>
    intro m hm
    exact ih _ (step_inv m hm o)

/-! ## the call of `std::sort` inside `clean_` -/

/-- what `addRange` / `restrictTo` hand to `clean_` (Range.h:456, 465) -/
def cleanInput (m : List (Range α)) : Op α → List (Range α)
  | .add a b =>
    match mergeInto (Range.make a b) m with
    | none => m ++ [(Range.make a b).clone]
    | some (_, l) => l
  | .restrict a b => m.map (·.sliceWith (Range.make a b))
  | .filter _ _ => m
  | .clear => []

/-- **sort_input_ok**: in every history, at every call of `clean_`, the vector `std::sort` is
given (the non-empty elements of what `addRange` / `restrictTo` built) consists of non-empty,
pairwise disjoint ranges — for which the comparator is a strict weak order
(`comparator_consistent`) and total (`comparator_total`): the precondition of `std::sort` holds,
whatever the sign of the coordinates.  (Before the audit repair `std::sort` also received the empty
ranges, and `[0,0[` next to `[-1,1[` violated the precondition: `comparator_inconsistent_negative`.) -/
theorem sort_input_ok (ops : List (Op α)) (o : Op α) :
    let l := cleanInput (run ops) o
    (∀ a b, o = .add a b → step (run ops) o = clean l) ∧
    (∀ a b, o = .restrict a b → step (run ops) o = clean l) ∧
    (∀ x ∈ l.filter (fun x => !x.isEmpty), x.b < x.e) ∧
    (l.filter (fun x => !x.isEmpty)).Pairwise Disj := by
  have hm := mr_inv ops
  generalize run ops = m at hm
  intro l
  have hpre : PreClean l := by
    cases o with
    | add a b =>
      have hr : Arg (Range.make a b) := make_arg a b
      show PreClean (match mergeInto (Range.make a b) m with
        | none => m ++ [(Range.make a b).clone] | some (_, l) => l)
      cases h : mergeInto (Range.make a b) m with
      | none =>
        have hno := (mergeInto_none _ m).mp h
        constructor
        · intro x hx
          rcases List.mem_append.mp hx with e | e
          · have := hm.1 x e; grind
          · simp at e; subst e; exact hr
        · rw [List.pairwise_append]
          refine ⟨hm.2.imp (fun h => Disj.ne (R.disj h)), by simp, ?_⟩
          intro x hx y hy
          simp at hy; rw [hy]
          have h1 := (overlap_false x _).mp (hno x hx)
          have h2 := hm.1 x hx
          simp only [DisjNE, Disj, Arg] at *; grind
      | some v =>
        obtain ⟨mg, l'⟩ := v
        exact (mergeInto_some _ hr m hm mg l' h).1
    | restrict a b =>
      have hr : Arg (Range.make a b) := make_arg a b
      show PreClean (m.map (·.sliceWith (Range.make a b)))
      constructor
      · intro y hy
        simp only [List.mem_map] at hy
        obtain ⟨x, hx, e⟩ := hy
        subst e
        have h1 := hm.1 x hx
        exact (slice_spec x _ (by grind) hr).1
      · rw [List.pairwise_map]
        apply List.Pairwise.imp_of_mem _ hm.2
        intro x y hx hy hxy
        have h1 := hm.1 x hx
        have h2 := hm.1 y hy
        have bx := slice_bounds x (Range.make a b) (by grind)
        have bY := slice_bounds y (Range.make a b) (by grind)
        simp only [R] at hxy
        simp only [DisjNE, Disj]
        rcases bx with e1 | e1 <;> rcases bY with e2 | e2
        · rw [e1]; exact Or.inl rfl
        · rw [e1]; exact Or.inl rfl
        · rw [e2]; exact Or.inr (Or.inl rfl)
        · grind
    | filter a b =>
      show PreClean m
      exact ⟨fun x hx => by have := hm.1 x hx; grind, hm.2.imp (fun h => Disj.ne (R.disj h))⟩
    | clear =>
      show PreClean ([] : List (Range α))
      exact ⟨(by intro x hx; cases hx), List.Pairwise.nil⟩
  have hin := clean_sort_input l hpre
  refine ⟨?_, ?_, hin.1, hin.2⟩
  · intro a b e; subst e
    show addRange m _ = clean (match mergeInto (Range.make a b) m with
        | none => m ++ [(Range.make a b).clone] | some (_, l) => l)
    unfold addRange
    cases mergeInto (Range.make a b) m with
    | none => rfl
    | some v => rfl
  · intro a b e; subst e; rfl

/-- **any_sort**: the insertion sort of the model stands for *any* correct sort: whatever
permutation of the vector `std::sort` returns, if it has no inversion for the source comparator it
is the model's `clean` — so the stored vector does not depend on the sorting algorithm (libstdc++
switches from insertion sort to introsort at 17 elements) -/
theorem any_sort (l l' : List (Range α)) (h : PreClean l)
    (hp : l'.Perm (l.filter (fun x => !x.isEmpty)))
    (hs : l'.Pairwise (fun x y => y.lt x = false)) : l' = clean l := by
  have hin := clean_sort_input l h
  have hd : l'.Pairwise Disj := by
    apply hp.symm.pairwise hin.2
    intro x y hxy; exact Disj.symm hxy
  have hboth := hs.and hd
  apply sorted_ext _ _ _ (clean_spec l h).1
  · intro y
    rw [mem_clean, hp.mem_iff, List.mem_filter]
    simp [Range.isEmpty]
  · refine ⟨fun x hx => hin.1 x (hp.mem_iff.mp hx), ?_⟩
    apply List.Pairwise.imp_of_mem _ hboth
    intro x y hx hy hxy
    have hx1 := hin.1 x (hp.mem_iff.mp hx)
    have hy1 := hin.1 y (hp.mem_iff.mp hy)
    obtain ⟨h1, h2⟩ := hxy
    simp only [Range.lt, Bool.or_eq_false_iff, decide_eq_false_iff_not] at h1
    simp only [Disj, R] at *
    grind

/-- the reference semantics on components: a set of ranges, updated declaratively -/
def specStepK (K : Range α → Prop) : Op α → (Range α → Prop)
  | .add a b => addK K (Range.make a b)
  | .restrict a b => restrictK K (Range.make a b)
  | .filter a b => filterK K (Range.make a b)
  | .clear => fun _ => False

theorem addK_congr (K K' : Range α → Prop) (h : ∀ y, K y ↔ K' y) (r y : Range α) :
    addK K r y ↔ addK K' r y := by
  have : K = K' := funext fun y => propext (h y)
  rw [this]

/-- **mr_refines**: for every history of add / restrict / **filter** / clear the set of stored
ranges is exactly what the declarative component semantics yields; with `mr_inv` (ascending
order) this determines the stored list completely (`mr_canonical`) -/
theorem mr_refines (ops : List (Op α)) :
    ∀ y, y ∈ run ops ↔ ops.foldl specStepK (fun _ => False) y := by
  suffices h : ∀ (m : List (Range α)) (K : Range α → Prop), MultiRange.Inv m → (∀ y, y ∈ m ↔ K y) →
      ∀ y, y ∈ ops.foldl step m ↔ ops.foldl specStepK K y from
    h [] _ inv_nil (by simp)
  induction ops with
  | nil => intro m K _ hK; exact hK
  | cons o os ih =>
    intro m K hm hK
    have hK' : (fun y => y ∈ m) = K := funext fun y => propext (hK y)
    simp only [List.foldl_cons]
    apply ih _ _ (step_inv m hm o)
    intro y
    cases o with
    | add a b => rw [← hK']; exact (add_spec m _ hm (make_arg a b)).2.2 y
    | restrict a b => rw [← hK']; exact (restrict_spec m _ hm (make_arg a b)).2.2 y
    | filter a b => rw [← hK']; exact (filter_spec m _ hm).2.1 y
    | clear => simp [step, specStepK, RangeCollection.clear]

/-- the stored list is the only ascending list of the component set: two implementations that
both satisfy `mr_inv` and `mr_refines` return the same vector -/
theorem mr_canonical (ops : List (Op α)) (l : List (Range α))
    (hl : MultiRange.Inv l) (h : ∀ y, y ∈ l ↔ ops.foldl specStepK (fun _ => False) y) :
    l = run ops :=
  sorted_ext l (run ops) hl (mr_inv ops) (fun y => by rw [h y, mr_refines ops y])

/-- the reference semantics on points: a set of points, updated by union / intersection; a
`filterWithin` is not a function of the point set alone (touching ranges are stored separately),
its point-level meaning needs the components: `mr_denotes_all` -/
def specStep (S : α → Prop) : Op α → (α → Prop)
  | .add a b => fun p => S p ∨ (min a b ≤ p ∧ p < max a b)
  | .restrict a b => fun p => S p ∧ (min a b ≤ p ∧ p < max a b)
  | .filter _ _ => S
  | .clear => fun _ => False

def Op.isFilter : Op α → Bool
  | .filter _ _ => true
  | _ => false

/-- **mr_denotes_from**: from any state satisfying the invariant (in particular any reachable
state, also after a `filterWithin`), every continuation by add / restrict / clear denotes the
set-level fold of unions and intersections applied to the points of that state -/
theorem mr_denotes_from (ops : List (Op α)) (hnf : ∀ o ∈ ops, o.isFilter = false)
    (m : List (Range α)) (S : α → Prop) (hm : MultiRange.Inv m) (hS : ∀ p, pts m p ↔ S p) :
    ∀ p, pts (ops.foldl step m) p ↔ ops.foldl specStep S p := by
  induction ops generalizing m S with
  | nil => exact hS
  | cons o os ih =>
    have hf := hnf o (by simp)
    simp only [List.foldl_cons]
    cases o with
    | add a b =>
      have := add_spec m _ hm (make_arg a b)
      apply ih (fun o' ho' => hnf o' (by simp [ho'])) _ _ this.1
      intro p; show pts _ p ↔ _; rw [this.2.1 p, hS p]; simp [specStep, mem, Range.make]
    | restrict a b =>
      have := restrict_spec m _ hm (make_arg a b)
      apply ih (fun o' ho' => hnf o' (by simp [ho'])) _ _ this.1
      intro p; show pts _ p ↔ _; rw [this.2.1 p, hS p]; simp [specStep, mem, Range.make]
    | filter a b => simp [Op.isFilter] at hf
    | clear =>
      apply ih (fun o' ho' => hnf o' (by simp [ho'])) _ _ inv_nil
      intro p; simp [pts, specStep]

/-- **mr_denotes**: for every history of add / restrict / clear from the empty collection the
stored ranges denote exactly the union of everything added, intersected with every restriction
applied since -/
theorem mr_denotes (ops : List (Op α)) (hnf : ∀ o ∈ ops, o.isFilter = false) :
    ∀ p, pts (run ops) p ↔ ops.foldl specStep (fun _ => False) p :=
  mr_denotes_from ops hnf [] _ inv_nil (by intro p; simp [pts])

/-- **mr_denotes_all**: for every history, *including filters*, the points of the multi-range are
the points of the components of the declarative semantics; a filter step keeps the points of
exactly those components that are subsets of the window (`filter_spec`), and the history may go
on with any operation afterwards -/
theorem mr_denotes_all (ops : List (Op α)) :
    ∀ p, pts (run ops) p ↔ ∃ y, ops.foldl specStepK (fun _ => False) y ∧ mem p y := by
  intro p
  simp only [pts]
  constructor
  · rintro ⟨y, hy, hp⟩; exact ⟨y, (mr_refines ops y).mp hy, hp⟩
  · rintro ⟨y, hy, hp⟩; exact ⟨y, (mr_refines ops y).mpr hy, hp⟩

/-! ## no new coordinates: the stored end points come from the arguments (or are the literal 0) -/

/-- the end points of all arguments of a history -/
def Op.args : Op α → List α
  | .add a b | .restrict a b | .filter a b => [a, b]
  | .clear => []

/-- **endpoints_closed**: the collection operations never compute a new coordinate: every stored
begin / end is an end point of some argument of the history, or the literal `0` written by
`sliceWith`.  (So no arithmetic overflow can occur in them, whatever the coordinate type: the
only arithmetic of the header is `length()` and the shifts.) -/
theorem endpoints_closed (P : α → Prop) (h0 : P 0) (ops : List (Op α))
    (hops : ∀ o ∈ ops, ∀ a ∈ o.args, P a) : ∀ x ∈ run ops, P x.b ∧ P x.e := by
  suffices h : ∀ m : List (Range α), (∀ x ∈ m, P x.b ∧ P x.e) → ∀ x ∈ ops.foldl step m, P x.b ∧ P x.e from
    h [] (by simp)
  have hexp : ∀ x r : Range α, (P x.b ∧ P x.e) → (P r.b ∧ P r.e) →
      P (x.expandWith r).b ∧ P (x.expandWith r).e := by
    intro x r hx hr
    have := (expand_spec x r)
    simp only [Range.expandWith]; grind
  have hfold : ∀ (S : List (Range α)) (acc : Range α), (P acc.b ∧ P acc.e) → (∀ y ∈ S, P y.b ∧ P y.e) →
      P (S.foldl Range.expandWith acc).b ∧ P (S.foldl Range.expandWith acc).e := by
    intro S
    induction S with
    | nil => intro acc ha _; exact ha
    | cons y ys ih =>
      intro acc ha hS
      exact ih _ (hexp acc y ha (hS y (by simp))) (fun z hz => hS z (by simp [hz]))
  have hmerge : ∀ (r : Range α), (P r.b ∧ P r.e) → ∀ (m : List (Range α)), (∀ x ∈ m, P x.b ∧ P x.e) →
      ∀ mg l, mergeInto r m = some (mg, l) → ∀ x ∈ l, P x.b ∧ P x.e := by
    intro r hr m
    induction m with
    | nil => intro _ mg l h; simp [mergeInto] at h
    | cons x xs ih =>
      intro hm mg l h
      unfold mergeInto at h
      split at h
      · simp only [Option.some.injEq, Prod.mk.injEq] at h
        obtain ⟨_, hl⟩ := h
        subst hl
        intro y hy
        rcases List.mem_cons.mp hy with e | e
        · rw [e]
          apply hfold _ _ (hexp x r (hm x (by simp)) hr)
          intro z hz
          simp only [List.mem_reverse, List.mem_filter] at hz
          exact hm z (by simp [hz.1])
        · simp only [List.mem_filter] at e
          exact hm y (by simp [e.1])
      · cases hrec : mergeInto r xs with
        | none => rw [hrec] at h; cases h
        | some v =>
          obtain ⟨mg', l'⟩ := v
          rw [hrec] at h
          simp only [Option.some.injEq, Prod.mk.injEq] at h
          obtain ⟨_, hl⟩ := h
          subst hl
          intro y hy
          rcases List.mem_cons.mp hy with e | e
          · subst e; exact hm y (by simp)
          · exact ih (fun z hz => hm z (by simp [hz])) mg' l' hrec y e
  induction ops with
  | nil => intro m hm; exact hm
  | cons o os ih =>
    intro m hm
    simp only [List.foldl_cons]
    apply ih (fun o' ho' => hops o' (by simp [ho']))
    have ho := hops o (by simp)
    cases o with
    | add a b =>
      have hw := make_wf a b
      have hr : P (Range.make a b).b ∧ P (Range.make a b).e := by
        have ha := ho a (by simp [Op.args]); have hb := ho b (by simp [Op.args])
        rcases hw.2.2.2 with h | h <;> rw [h.1, h.2] <;> simp [ha, hb]
      intro x hx
      simp only [step, addRange] at hx
      cases hmi : mergeInto (Range.make a b) m with
      | none =>
        rw [hmi] at hx
        simp only [mem_clean, List.mem_append, List.mem_singleton, clone_eq] at hx
        rcases hx.1 with e | e
        · exact hm x e
        · rw [e]; exact hr
      | some v =>
        obtain ⟨mg, l⟩ := v
        rw [hmi] at hx
        simp only [mem_clean] at hx
        exact hmerge _ hr m hm mg l hmi x hx.1
    | restrict a b =>
      have hw := make_wf a b
      have hr : P (Range.make a b).b ∧ P (Range.make a b).e := by
        have ha := ho a (by simp [Op.args]); have hb := ho b (by simp [Op.args])
        rcases hw.2.2.2 with h | h <;> rw [h.1, h.2] <;> simp [ha, hb]
      intro x hx
      simp only [step, restrictTo, mem_clean, List.mem_map] at hx
      obtain ⟨⟨y, hy, e⟩, _⟩ := hx
      subst e
      have hy' := hm y hy
      have hs := slice_endpoints y (Range.make a b)
      grind
    | filter a b =>
      intro x hx
      simp only [step, filterWithin, List.mem_filter] at hx
      exact hm x hx.1
    | clear => intro x hx; simp [step, RangeCollection.clear] at hx

/-! ## `getBounds`, `size`, `isEmpty`, `getRange`, `clear`, copies -/

/-- **bounds_sorted**: on every state satisfying the invariant `getBounds` is the ascending list
of all end points (each stored range contributes begin then end; equal neighbours only where two
ranges touch), of length `2 * size` -/
theorem bounds_sorted (m : List (Range α)) (hm : MultiRange.Inv m) :
    (getBounds m).Pairwise (· ≤ ·) ∧ (getBounds m).length = 2 * RangeCollection.size m ∧
    ∀ p, p ∈ getBounds m ↔ ∃ x ∈ m, p = x.b ∨ p = x.e := by
  refine ⟨?_, ?_, ?_⟩
  · induction m with
    | nil => simp [getBounds]
    | cons x xs ih =>
      have hx := hm.1 x (by simp)
      have hxs : MultiRange.Inv xs := ⟨fun y hy => hm.1 y (by simp [hy]), (List.pairwise_cons.mp hm.2).2⟩
      have hR := (List.pairwise_cons.mp hm.2).1
      have ih' := ih hxs
      simp only [getBounds, List.flatMap_cons, List.cons_append, List.nil_append, List.pairwise_cons,
        List.mem_cons, List.mem_flatMap, List.not_mem_nil, or_false] at ih' ⊢
      refine ⟨?_, ?_, ih'⟩
      · rintro p (e | ⟨y, hy, (e | e)⟩)
        · grind
        · have := hR y hy; have := hxs.1 y hy; simp only [R] at *; grind
        · have := hR y hy; have := hxs.1 y hy; simp only [R] at *; grind
      · rintro p ⟨y, hy, (e | e)⟩
        · have := hR y hy; simp only [R] at *; grind
        · have := hR y hy; have := hxs.1 y hy; simp only [R] at *; grind
  · induction m with
    | nil => simp [getBounds, RangeCollection.size]
    | cons x xs ih =>
      have hxs : MultiRange.Inv xs := ⟨fun y hy => hm.1 y (by simp [hy]), (List.pairwise_cons.mp hm.2).2⟩
      have := ih hxs
      simp only [getBounds, List.flatMap_cons, List.length_append, List.length_cons, List.length_nil,
        RangeCollection.size] at this ⊢
      omega
  · intro p
    simp only [getBounds, List.mem_flatMap, List.mem_cons, List.not_mem_nil, or_false]

/-- `isEmpty` ⇔ `size = 0` ⇔ no point; `getRange(i)` is defined exactly for `i < size`; `clear`
empties -/
theorem collection_observers (m : List (Range α)) (hm : MultiRange.Inv m) :
    (RangeCollection.isEmpty m = true ↔ RangeCollection.size m = 0) ∧
    (RangeCollection.isEmpty m = true ↔ ∀ p, ¬ pts m p) ∧
    (∀ i, (RangeCollection.getRange? m i).isSome ↔ i < RangeCollection.size m) ∧
    (∀ i x, RangeCollection.getRange? m i = some x → x ∈ m) ∧
    RangeCollection.size (RangeCollection.clear m) = 0 := by
  refine ⟨by simp [RangeCollection.isEmpty, RangeCollection.size], ?_, ?_, ?_, rfl⟩
  · cases m with
    | nil => simp [RangeCollection.isEmpty, pts]
    | cons x xs =>
      simp only [RangeCollection.isEmpty, List.length_cons, Nat.add_eq_zero_iff, Nat.succ_ne_zero, and_false,
        beq_iff_eq, false_iff, Classical.not_forall, Classical.not_not]
      have := hm.1 x (by simp)
      exact ⟨x.b, x, by simp, by simp only [mem]; grind⟩
  · intro i; simp [RangeCollection.getRange?, RangeCollection.size]
  · intro i x h; exact List.mem_of_getElem? h

/-- **copy_deep**: the copy constructor and `operator=` produce a collection equal to the source,
whatever the target held, and self-assignment leaves the object as it is (the unguarded code of
round 1 emptied it: `findings/C20.json`); in the model collections are values, so a later
operation on one of them cannot change the other (the tie checks this on the implementation) -/
theorem copy_deep (tgt src : List (Range α)) :
    RangeCollection.copy src = src ∧ RangeCollection.assign false tgt src = src ∧
    RangeCollection.assign true tgt tgt = tgt := by
  have : (Range.clone : Range α → Range α) = id := funext fun x => rfl
  simp [RangeCollection.copy, RangeCollection.assign, RangeCollection.clear, this]

/-! ## RangeSet -/

theorem rangeset_add (s : List (Range α)) (r : Range α) :
    RangeSet.addRange s r = if r.b = r.e then s else s ++ [r] := by
  simp [RangeSet.addRange, Range.isEmpty]

/-- every range of the set is sliced individually and kept iff the slice is non-empty -/
theorem rangeset_restrict (s : List (Range α)) (r : Range α) (y : Range α) :
    y ∈ RangeSet.restrictTo s r ↔ ∃ x ∈ s, y = x.sliceWith r ∧ y.b ≠ y.e := by
  simp only [RangeSet.restrictTo, List.mem_filter, List.mem_map, Range.isEmpty]
  constructor
  · rintro ⟨⟨x, hx, e⟩, h⟩; exact ⟨x, hx, e.symm, by simpa using h⟩
  · rintro ⟨x, hx, e, h⟩; exact ⟨⟨x, hx, e.symm⟩, by simpa using h⟩

/-- order and multiplicity: the restricted set is the list of non-empty slices, in order -/
theorem rangeset_restrict_list (s : List (Range α)) (r : Range α) :
    RangeSet.restrictTo s r = (s.map (·.sliceWith r)).filter (fun y => decide (y.b ≠ y.e)) ∧
    (RangeSet.restrictTo s r).length ≤ s.length := by
  refine ⟨by simp [RangeSet.restrictTo, Range.isEmpty], ?_⟩
  simp only [RangeSet.restrictTo]
  exact Nat.le_trans (List.length_filter_le _ _) (by simp)

theorem rangeset_filter (s : List (Range α)) (r : Range α) (y : Range α) :
    y ∈ RangeSet.filterWithin s r ↔ y ∈ s ∧ r.b ≤ y.b ∧ y.e ≤ r.e := by
  simp [RangeSet.filterWithin, List.mem_filter, Range.contains]

def rsStep (s : List (Range α)) : Op α → List (Range α)
  | .add a b => RangeSet.addRange s (Range.make a b)
  | .restrict a b => RangeSet.restrictTo s (Range.make a b)
  | .filter a b => RangeSet.filterWithin s (Range.make a b)
  | .clear => RangeCollection.clear s

/-- the independent description of a range set: the list of (begin,end) pairs, each added range
appended if non-empty, each restriction replacing every element by its intersection
`[max b b', min e e'[` and dropping it when that is empty, each filter keeping the elements inside
the window -/
def rsSpecStep (s : List (Range α)) : Op α → List (Range α)
  | .add a b => if a = b then s else s ++ [⟨min a b, max a b⟩]
  | .restrict a b => s.filterMap (fun x =>
      let lo := max x.b (min a b); let hi := min x.e (max a b)
      if lo < hi then some ⟨lo, hi⟩ else none)
  | .filter a b => s.filter (fun x => decide (min a b ≤ x.b) && decide (x.e ≤ max a b))
  | .clear => []

def RangeSetKeeps (ops : List (Op α)) : Prop :=
  ops.foldl rsStep [] = ops.foldl rsSpecStep [] ∧ ∀ x ∈ ops.foldl rsStep [], x.b < x.e

/-- **rangeset_keeps**: for every history a range set holds, in insertion order and with
multiplicity, every non-empty range that was added, restricted and filtered individually; all
its elements are non-empty well-formed ranges -/
theorem rangeset_keeps (ops : List (Op α)) : RangeSetKeeps ops := by
  unfold RangeSetKeeps
  suffices h : ∀ s : List (Range α), (∀ x ∈ s, x.b < x.e) →
      ops.foldl rsStep s = ops.foldl rsSpecStep s ∧ ∀ x ∈ ops.foldl rsStep s, x.b < x.e from
    h [] (by simp)
  induction ops with
  | nil => intro s hs; exact ⟨rfl, hs⟩
  | cons o os ih =>
    intro s hs
    simp only [List.foldl_cons]
    have key : rsStep s o = rsSpecStep s o ∧ ∀ x ∈ rsStep s o, x.b < x.e := by
      cases o with
      | add a b =>
        have hw := make_wf a b
        simp only [rsStep, rsSpecStep, RangeSet.addRange, Range.isEmpty, clone_eq]
        by_cases hab : a = b
        · subst hab
          have : (Range.make a a).b = (Range.make a a).e := by grind
          simp [this]; exact hs
        · have : (Range.make a b).b ≠ (Range.make a b).e := by grind
          simp only [this, decide_false, Bool.false_eq_true, ↓reduceIte, hab]
          refine ⟨by simp [Range.make], ?_⟩
          intro x hx
          rcases List.mem_append.mp hx with e | e
          · exact hs x e
          · simp at e; subst e; grind
      | restrict a b =>
        have hw := make_wf a b
        simp only [rsStep, rsSpecStep, RangeSet.restrictTo]
        constructor
        · have pw : ∀ x : Range α, x.b < x.e →
              (let lo := max x.b (min a b); let hi := min x.e (max a b)
               if lo < hi then some (⟨lo, hi⟩ : Range α) else none) =
              if (x.sliceWith (Range.make a b)).b = (x.sliceWith (Range.make a b)).e then none
              else some (x.sliceWith (Range.make a b)) := by
            intro x hx'
            cases x
            simp only [Range.make, MinMaxLaws.min_def, MinMaxLaws.max_def, Range.sliceWith, Range.overlap] at *
            grind
          have gen : ∀ t : List (Range α), (∀ x ∈ t, x.b < x.e) →
              (t.map (·.sliceWith (Range.make a b))).filter (fun x => !x.isEmpty) =
              t.filterMap (fun x => let lo := max x.b (min a b); let hi := min x.e (max a b)
                if lo < hi then some (⟨lo, hi⟩ : Range α) else none) := by
            intro t
            induction t with
            | nil => intro _; rfl
            | cons x xs ih =>
              intro ht
              have ihx := ih (fun y hy => ht y (by simp [hy]))
              have px := pw x (ht x (by simp))
              simp only [List.map_cons, List.filter_cons, List.filterMap_cons, Range.isEmpty] at ihx ⊢
              rw [px, ihx]
              split <;> simp_all
          exact gen s hs
        · intro y hy
          simp only [List.mem_filter, List.mem_map, Range.isEmpty] at hy
          obtain ⟨⟨x, hx, e⟩, hne⟩ := hy
          have hx' := hs x hx
          have hsl := slice_spec x (Range.make a b) (by grind) hw.1
          subst e
          have : ¬ ((x.sliceWith (Range.make a b)).b = (x.sliceWith (Range.make a b)).e) := by simpa using hne
          grind
      | filter a b =>
        simp only [rsStep, rsSpecStep, RangeSet.filterWithin, Range.contains, Range.make]
        exact ⟨rfl, fun x hx => hs x (List.mem_filter.mp hx).1⟩
      | clear => simp [rsStep, rsSpecStep, RangeCollection.clear]
    obtain ⟨k1, k2⟩ := key
    rw [k1] at k2 ⊢
    exact ih (rsSpecStep s o) k2

end

end Bpp.C20
