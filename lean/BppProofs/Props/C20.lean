import BppProofs.Lemmas.Range
/-!
# C20 — range collections behave as sets of points   (src/Bpp/Numeric/Range.h)

Property theorems only; helper lemmas are in `Lemmas/Range.lean`.
Universe: integer end points `≥ 0` (the property's universe).  With negative
coordinates `sliceWith`'s reset to `[0,0[` makes the comparator inconsistent
(`comparator_inconsistent_negative` below is the witness), which is outside the
property's quantifier.
-/
namespace Bpp.C20
open Bpp Bpp.Range Bpp.MultiRange

/-! ## Range: predicates, expansion, slicing, shifting -/

theorem make_wf (a b : Int) : (Range.make a b).b ≤ (Range.make a b).e ∧
    (Range.make a b).b = min a b ∧ (Range.make a b).e = max a b := by
  dsimp only [Range.make]; omega

/-- reversed arguments give the same range -/
theorem make_comm (a b : Int) : Range.make a b = Range.make b a := by
  simp only [Range.make, Range.mk.injEq]; omega

theorem isEmpty_iff (x : Range) (hx : x.b ≤ x.e) : x.isEmpty = true ↔ ∀ p, ¬ mem p x := by
  rw [isEmpty_eq]; unfold mem
  constructor
  · intro h p; omega
  · intro h; have := h x.b; omega

/-- two non-empty ranges overlap iff they share a point -/
theorem overlap_iff (x r : Range) (hx : x.b < x.e) (hr : r.b < r.e) :
    x.overlap r = true ↔ ∃ p, mem p x ∧ mem p r := by
  rw [overlap_eq]; unfold mem
  constructor
  · intro h
    refine ⟨max x.b r.b, ?_⟩; omega
  · rintro ⟨p, hp⟩; omega

/-- for an empty operand the code reads it as the position `b`: it "overlaps" a range iff it lies
strictly inside (stated outright so that the degenerate case is not hidden) -/
theorem overlap_empty (x r : Range) (hr : r.b = r.e) :
    x.overlap r = true ↔ (x.b < r.b ∧ r.b < x.e) := by
  rw [overlap_eq]; omega

/-- containment of a non-empty range is set inclusion -/
theorem contains_iff (x r : Range) (hr : r.b < r.e) :
    x.contains r = true ↔ ∀ p, mem p r → mem p x := by
  rw [contains_eq]; unfold mem
  constructor
  · intro h p hp; omega
  · intro h
    have h1 := h r.b (by omega)
    have h2 := h (r.e - 1) (by omega)
    omega

theorem contains_endpoints (x r : Range) : x.contains r = true ↔ (x.b ≤ r.b ∧ r.e ≤ x.e) := by
  simp [Range.contains]

theorem contiguous_iff (x r : Range) : x.isContiguous r = true ↔ (r.b = x.e ∨ r.e = x.b) := by
  simp [Range.isContiguous]

/-- slicing is intersection, for all (possibly empty) well-formed operands -/
theorem slice_spec (x r : Range) (hx : x.b ≤ x.e) (hr : r.b ≤ r.e) :
    (x.sliceWith r).b ≤ (x.sliceWith r).e ∧ ∀ p, mem p (x.sliceWith r) ↔ mem p x ∧ mem p r := by
  unfold Range.sliceWith
  split
  · rename_i h; rw [overlap_eq] at h
    constructor
    · simp only; split <;> split <;> omega
    · intro p; simp only [mem]; split <;> split <;> omega
  · rename_i h; rw [overlap_eq] at h
    constructor
    · simp
    · intro p; simp only [mem]; omega

/-- a slice is either the reset range `[0,0[` or lies inside the sliced range -/
theorem slice_bounds (x r : Range) (hx : x.b ≤ x.e) :
    x.sliceWith r = ⟨0, 0⟩ ∨
    (x.b ≤ (x.sliceWith r).b ∧ (x.sliceWith r).b ≤ (x.sliceWith r).e ∧ (x.sliceWith r).e ≤ x.e) := by
  unfold Range.sliceWith
  split
  · right; dsimp only; split <;> split <;> omega
  · left; rfl

/-- expansion is union whenever the union is an interval (overlapping or touching operands),
and leaves the range unchanged otherwise -/
theorem expand_spec (x r : Range) (hx : x.b ≤ x.e) (_hr : r.b ≤ r.e) :
    (r.b ≤ x.e ∧ x.b ≤ r.e → ∀ p, mem p (x.expandWith r) ↔ mem p x ∨ mem p r) ∧
    (¬ (r.b ≤ x.e ∧ x.b ≤ r.e) → x.expandWith r = x) := by
  constructor
  · intro h p; simp only [Range.expandWith, mem]; split <;> split <;> omega
  · intro h
    have : x = ⟨x.b, x.e⟩ := rfl
    rw [this]
    simp only [Range.expandWith, Range.mk.injEq]; split <;> split <;> omega

theorem shift_length (x : Range) (v : Int) :
    (x.shift v).length = x.length ∧ (x.unshift v).length = x.length ∧ (x.shift v).unshift v = x := by
  simp only [Range.shift, Range.unshift, Range.length]
  refine ⟨by omega, by omega, ?_⟩
  cases x; simp only [Range.mk.injEq]; omega

theorem length_nonneg (a b : Int) : 0 ≤ (Range.make a b).length := by
  simp only [Range.make, Range.length]; omega

/-! ## MultiRange: one step -/

/-- the admissible arguments: built by the normalising constructor from non-negative end points -/
def Arg (r : Range) : Prop := r.b ≤ r.e ∧ 0 ≤ r.b

theorem make_arg (a b : Int) (ha : 0 ≤ a) (hb : 0 ≤ b) : Arg (Range.make a b) := by
  simp only [Arg, Range.make]; omega

theorem add_spec (m : List Range) (r : Range) (hm : MultiRange.Inv m) (hr : Arg r) :
    MultiRange.Inv (addRange m r) ∧ ∀ p, pts (addRange m r) p ↔ pts m p ∨ mem p r := by
  unfold addRange
  cases h : mergeInto r m with
  | none =>
    have hno := (mergeInto_none r m).mp h
    have hpre : PreClean (m ++ [r]) := by
      constructor
      · intro x hx
        rcases List.mem_append.mp hx with e | e
        · have := hm.1 x e; omega
        · simp at e; subst e; exact ⟨hr.2, hr.1⟩
      · rw [List.pairwise_append]
        refine ⟨hm.2.imp R.disj, by simp, ?_⟩
        intro x hx y hy
        simp at hy; subst hy
        have h1 := hno x hx
        have h2 := hm.1 x hx
        simp [Range.overlap] at h1
        unfold Disj; unfold Arg at hr; omega
    have := clean_spec _ hpre
    refine ⟨this.1, ?_⟩
    intro p; rw [this.2 p]
    simp only [pts, List.mem_append, List.mem_singleton]
    constructor
    · rintro ⟨x, (e | e), hp⟩
      · exact Or.inl ⟨x, e, hp⟩
      · subst e; exact Or.inr hp
    · rintro (⟨x, e, hp⟩ | hp)
      · exact ⟨x, Or.inl e, hp⟩
      · exact ⟨r, Or.inr rfl, hp⟩
  | some v =>
    obtain ⟨mg, l⟩ := v
    have := mergeInto_some r hr m hm mg l h
    have hc := clean_spec l this.1
    refine ⟨hc.1, ?_⟩
    intro p; rw [hc.2 p]; exact this.2.1 p

theorem restrict_spec (m : List Range) (r : Range) (hm : MultiRange.Inv m) (hr : Arg r) :
    MultiRange.Inv (restrictTo m r) ∧ ∀ p, pts (restrictTo m r) p ↔ pts m p ∧ mem p r := by
  unfold restrictTo
  have hslice : ∀ x ∈ m, 0 ≤ (x.sliceWith r).b ∧ (x.sliceWith r).b ≤ (x.sliceWith r).e := by
    intro x hx
    have h1 := hm.1 x hx
    unfold Arg at hr
    unfold Range.sliceWith
    split
    · simp only; split <;> split <;> omega
    · simp
  have hpre : PreClean (m.map (·.sliceWith r)) := by
    constructor
    · intro y hy
      simp only [List.mem_map] at hy
      obtain ⟨x, hx, e⟩ := hy
      subst e; exact hslice x hx
    · rw [List.pairwise_map]
      apply List.Pairwise.imp_of_mem _ hm.2
      intro x y hx hy hxy
      have h1 := hm.1 x hx
      have h2 := hm.1 y hy
      have bx := slice_bounds x r (by omega)
      have bY := slice_bounds y r (by omega)
      unfold Arg at hr
      unfold R at hxy
      unfold Disj
      rcases bx with e1 | e1 <;> rcases bY with e2 | e2
      · rw [e1, e2]; simp
      · rw [e1]; dsimp only; omega
      · rw [e2]; dsimp only; omega
      · omega
  have hc := clean_spec _ hpre
  refine ⟨hc.1, ?_⟩
  intro p; rw [hc.2 p]
  simp only [pts, List.mem_map]
  constructor
  · rintro ⟨y, ⟨x, hx, e⟩, hp⟩
    subst e
    have h1 := hm.1 x hx
    have := (slice_spec x r (by omega) hr.1).2 p
    exact ⟨⟨x, hx, (this.mp hp).1⟩, (this.mp hp).2⟩
  · rintro ⟨⟨x, hx, hp⟩, hpr⟩
    have h1 := hm.1 x hx
    exact ⟨_, ⟨x, hx, rfl⟩, ((slice_spec x r (by omega) hr.1).2 p).mpr ⟨hp, hpr⟩⟩

/-- `filterWithin` keeps exactly the stored ranges that lie within `r` -/
theorem filter_spec (m : List Range) (r : Range) (hm : MultiRange.Inv m) :
    MultiRange.Inv (filterWithin m r) ∧ (∀ x, x ∈ filterWithin m r ↔ x ∈ m ∧ r.b ≤ x.b ∧ x.e ≤ r.e) ∧
    ∀ p, pts (filterWithin m r) p → pts m p ∧ mem p r := by
  unfold filterWithin
  refine ⟨⟨fun x hx => hm.1 x (List.mem_filter.mp hx).1, hm.2.filter _⟩, ?_, ?_⟩
  · intro x; simp [List.mem_filter, Range.contains]
  · rintro p ⟨x, hx, hp⟩
    rw [List.mem_filter, contains_eq] at hx
    refine ⟨⟨x, hx.1, hp⟩, ?_⟩
    unfold mem at *; omega

theorem inv_nil : MultiRange.Inv [] := ⟨(fun _ hx => nomatch hx), List.Pairwise.nil⟩

/-! ## MultiRange: every history -/

inductive Op where
  | add (a b : Int)
  | restrict (a b : Int)
  | filter (a b : Int)
  | clear

/-- end points in the non-negative universe -/
def Op.ok : Op → Prop
  | .add a b | .restrict a b | .filter a b => 0 ≤ a ∧ 0 ≤ b
  | .clear => True

def step (m : List Range) : Op → List Range
  | .add a b => addRange m (Range.make a b)
  | .restrict a b => restrictTo m (Range.make a b)
  | .filter a b => filterWithin m (Range.make a b)
  | .clear => []

def run (ops : List Op) : List Range := ops.foldl step []

/-- **mr_inv**: after any history the stored ranges are non-empty, ascending and pairwise
disjoint -/
theorem mr_inv (ops : List Op) (hok : ∀ o ∈ ops, o.ok) : MultiRange.Inv (run ops) := by
  suffices h : ∀ m, MultiRange.Inv m → MultiRange.Inv (ops.foldl step m) from h [] inv_nil
  induction ops with
  | nil => intro m hm; exact hm
  | cons o os ih =>
    intro m hm
    have ho := hok o (by simp)
    apply ih (fun o' ho' => hok o' (by simp [ho']))
    cases o with
    | add a b => exact (add_spec m _ hm (make_arg a b ho.1 ho.2)).1
    | restrict a b => exact (restrict_spec m _ hm (make_arg a b ho.1 ho.2)).1
    | filter a b => exact (filter_spec m _ hm).1
    | clear => exact inv_nil

/-- the reference semantics: a set of points, updated by union / intersection -/
def specStep (S : Int → Prop) : Op → (Int → Prop)
  | .add a b => fun p => S p ∨ (min a b ≤ p ∧ p < max a b)
  | .restrict a b => fun p => S p ∧ (min a b ≤ p ∧ p < max a b)
  | .filter _ _ => S          -- not a set-level operation; excluded below (see `filter_spec`)
  | .clear => fun _ => False

def Op.isFilter : Op → Bool
  | .filter _ _ => true
  | _ => false

/-- **mr_denotes_from**: from any state satisfying the invariant (in particular any reachable
state, also after a `filterWithin`), every continuation by add / restrict / clear denotes the
set-level fold of unions and intersections applied to the points of that state -/
theorem mr_denotes_from (ops : List Op) (hok : ∀ o ∈ ops, o.ok) (hnf : ∀ o ∈ ops, o.isFilter = false)
    (m : List Range) (S : Int → Prop) (hm : MultiRange.Inv m) (hS : ∀ p, pts m p ↔ S p) :
    ∀ p, pts (ops.foldl step m) p ↔ ops.foldl specStep S p := by
  induction ops generalizing m S with
  | nil => exact hS
  | cons o os ih =>
    have ho := hok o (by simp)
    have hf := hnf o (by simp)
    simp only [List.foldl_cons]
    cases o with
    | add a b =>
      have := add_spec m _ hm (make_arg a b ho.1 ho.2)
      apply ih (fun o' ho' => hok o' (by simp [ho'])) (fun o' ho' => hnf o' (by simp [ho'])) _ _ this.1
      intro p; show pts _ p ↔ _; rw [this.2 p, hS p]; simp [specStep, mem, Range.make]
    | restrict a b =>
      have := restrict_spec m _ hm (make_arg a b ho.1 ho.2)
      apply ih (fun o' ho' => hok o' (by simp [ho'])) (fun o' ho' => hnf o' (by simp [ho'])) _ _ this.1
      intro p; show pts _ p ↔ _; rw [this.2 p, hS p]; simp [specStep, mem, Range.make]
    | filter a b => simp [Op.isFilter] at hf
    | clear =>
      apply ih (fun o' ho' => hok o' (by simp [ho'])) (fun o' ho' => hnf o' (by simp [ho'])) _ _ inv_nil
      intro p; simp [pts, specStep]

/-- **mr_denotes**: for every history of add / restrict / clear from the empty collection the
stored ranges denote exactly the union of everything added, intersected with every restriction
applied since -/
theorem mr_denotes (ops : List Op) (hok : ∀ o ∈ ops, o.ok) (hnf : ∀ o ∈ ops, o.isFilter = false) :
    ∀ p, pts (run ops) p ↔ ops.foldl specStep (fun _ => False) p :=
  mr_denotes_from ops hok hnf [] _ inv_nil (by intro p; simp [pts])

/-! ## the comparator handed to `std::sort` -/

/-- on the lists `clean_` sorts (well-formed, pairwise disjoint ranges) the source comparator
`begin < r.begin || end < r.end` is a strict weak order, so the result of any correct sort is
determined -/
theorem comparator_consistent (x y z : Range) (hx : x.b ≤ x.e) (hy : y.b ≤ y.e) (hz : z.b ≤ z.e)
    (hxy : Disj x y) (hyz : Disj y z) (hxz : Disj x z) :
    x.lt x = false ∧ (x.lt y = true → y.lt x = false) ∧
    (x.lt y = true → y.lt z = true → x.lt z = true) ∧
    (x.lt y = false → y.lt x = false → y.lt z = false → z.lt y = false →
      x.lt z = false ∧ z.lt x = false) := by
  unfold Disj at *
  simp only [Range.lt, Bool.or_eq_true, Bool.or_eq_false_iff, decide_eq_true_eq, decide_eq_false_iff_not]
  omega

/-- outside the property's universe: with a negative coordinate, the `[0,0[` produced by
`sliceWith` and the range `[-2,3[` are each "less" than the other -/
theorem comparator_inconsistent_negative :
    (⟨0, 0⟩ : Range).lt ⟨-2, 3⟩ = true ∧ (⟨-2, 3⟩ : Range).lt ⟨0, 0⟩ = true := by decide

/-! ## RangeSet -/

theorem rangeset_add (s : List Range) (r : Range) :
    RangeSet.addRange s r = if r.b = r.e then s else s ++ [r] := by
  simp [RangeSet.addRange, Range.isEmpty]

/-- every range of the set is sliced individually and kept iff the slice is non-empty -/
theorem rangeset_restrict (s : List Range) (r : Range) (y : Range) :
    y ∈ RangeSet.restrictTo s r ↔ ∃ x ∈ s, y = x.sliceWith r ∧ y.b ≠ y.e := by
  simp only [RangeSet.restrictTo, List.mem_filter, List.mem_map, Range.isEmpty]
  constructor
  · rintro ⟨⟨x, hx, e⟩, h⟩; exact ⟨x, hx, e.symm, by simpa using h⟩
  · rintro ⟨x, hx, e, h⟩; exact ⟨⟨x, hx, e.symm⟩, by simpa using h⟩

theorem rangeset_restrict_length (s : List Range) (r : Range) :
    (RangeSet.restrictTo s r).length ≤ s.length := by
  simp only [RangeSet.restrictTo]
  exact Nat.le_trans (List.length_filter_le _ _) (by simp)

theorem rangeset_filter (s : List Range) (r : Range) (y : Range) :
    y ∈ RangeSet.filterWithin s r ↔ y ∈ s ∧ r.b ≤ y.b ∧ y.e ≤ r.e := by
  simp [RangeSet.filterWithin, List.mem_filter, Range.contains]

/-! ## non-vacuity: concrete states meeting the hypotheses -/

example : MultiRange.Inv [⟨1, 3⟩, ⟨3, 5⟩, ⟨7, 9⟩] ∧ Arg (Range.make 8 2) := by
  refine ⟨⟨by intro x hx; simp at hx; rcases hx with h | h | h <;> subst h <;> decide, ?_⟩, by unfold Arg; decide⟩
  simp [R]
example : run [.add 1 5, .add 7 9, .add 4 8, .restrict 2 3] = [⟨2, 3⟩] := by decide
example : Disj ⟨0, 0⟩ ⟨0, 3⟩ ∧ Disj ⟨0, 3⟩ ⟨5, 6⟩ ∧ Disj ⟨0, 0⟩ ⟨5, 6⟩ := by unfold Disj; decide

end Bpp.C20
