import BppProofs.Lemmas.VecTools
/-!
# C07 — vector reductions match their definitions
(src/Bpp/Numeric/VectorTools.h, src/Bpp/Numeric/Stat/StatTools.cpp)

Property theorems only; helper lemmas are in `Lemmas/VecTools.lean`.  Numeric statements are
about the program text of `BppModel/VecTools.lean` read at `ℝ` (rounding is not modelled).
Routines repaired by a `fix:` commit are stated for the repaired text; the `…Orig…` theorems are
the machine-checked witnesses of the defects of the unrepaired text.
-/
namespace Bpp.C07
open Bpp Bpp.VecTools Bpp.ScalarReal

/-! ## reductions -/

/-- `sum` is the sum of the elements -/
theorem sum_spec (v : List ℝ) : VecTools.sum v = v.sum := sum_eq v

/-- `prod` is the product of the elements -/
theorem prod_spec (v : List ℝ) : VecTools.prod v = v.prod := prod_eq v

/-- `cumSum` has the length of its argument and entry `i` is the sum of the first `i+1` elements -/
theorem cumSum_spec (v : List ℝ) :
    (cumSum v).length = v.length ∧ ∀ i, i < v.length → (cumSum v)[i]? = some (v.take (i + 1)).sum := by
  cases v with
  | nil => simp [cumSum]
  | cons x xs =>
    refine ⟨by simp [cumSum, cumSumAux_length], ?_⟩
    intro i hi
    cases i with
    | zero => simp [cumSum]
    | succ j =>
      have hj : j < xs.length := by simpa using hi
      simp [cumSum, cumSumAux_get x xs j hj]

/-- `cumProd`: entry `i` is the product of the first `i+1` elements -/
theorem cumProd_spec (v : List ℝ) :
    (cumProd v).length = v.length ∧ ∀ i, i < v.length → (cumProd v)[i]? = some (v.take (i + 1)).prod := by
  cases v with
  | nil => simp [cumProd]
  | cons x xs =>
    refine ⟨by simp [cumProd, cumProdAux_length], ?_⟩
    intro i hi
    cases i with
    | zero => simp [cumProd]
    | succ j =>
      have hj : j < xs.length := by simpa using hi
      simp [cumProd, cumProdAux_get x xs j hj]

/-- `sumProd` (repaired) is Σ v2ᵢ·v1ᵢ for equal lengths — including two empty vectors (0) -/
theorem sumProd_spec (v1 v2 : List ℝ) (h : v1.length = v2.length) :
    sumProd v1 v2 = .ok (List.zipWith (· * ·) v1 v2).sum := by
  simp only [sumProd, h, ne_eq, not_true_eq_false, if_false, foldl_add_eq, zero_eq, zero_add]
  congr 2
  induction v1 generalizing v2 with
  | nil => simp
  | cons x xs ih => cases v2 with
    | nil => simp
    | cons y ys => simp [mul_comm]

/-- witness: before the repair `sumProd` of two empty vectors read element 0 -/
theorem sumProdOrig_empty_ub : sumProdOrig ([] : List ℝ) [] = .error .ub := by
  rfl

/-- `scalar` is Σ v1ᵢ·v2ᵢ -/
theorem scalar_spec (v1 v2 : List ℝ) (h : v1.length = v2.length) :
    scalar v1 v2 = .ok (List.zipWith (· * ·) v1 v2).sum := scalar_eq v1 v2 h

/-! ## moments -/

/-- `mean` is Σv / n -/
theorem mean_spec (v : List ℝ) : mean v = v.sum / (v.length : ℝ) := mean_eq v

/-- weighted `mean` with normalisation is (Σ vᵢ·wᵢ)/(Σ w), for weights that do not sum to 0.
(`_hw` is not needed by the proof — in exact arithmetic both sides are the same quotient — but for
`Σw = 0` the code divides every weight by zero: the statement is deliberately restricted to the
region where the exact reading means something.) -/
theorem mean_weighted_spec (v w : List ℝ) (h : v.length = w.length) (_hw : w.sum ≠ 0) :
    meanW v w true = .ok ((List.zipWith (· * ·) v w).sum / w.sum) := meanW_eq v w h

example : meanW ([1, 2] : List ℝ) [1, 3] true = .ok ((1 * 1 + 2 * 3) / (1 + 3)) := by
  rw [mean_weighted_spec [1, 2] [1, 3] rfl (by norm_num)]; norm_num

/-- weighted `mean` without normalisation is Σ vᵢ·wᵢ -/
theorem mean_weighted_raw_spec (v w : List ℝ) (h : v.length = w.length) :
    meanW v w false = .ok (List.zipWith (· * ·) v w).sum := by
  simp [meanW, scalar_eq v w h]

/-- `cov` is Σ (aᵢ-ā)(bᵢ-b̄) divided by `n-1` (unbiased, `n ≥ 2`) or `n` (`n ≥ 1`) -/
theorem cov_spec (v1 v2 : List ℝ) (unbiased : Bool) (h : v1.length = v2.length)
    (hn : (if unbiased then 2 else 1) ≤ v1.length) :
    cov v1 v2 unbiased = .ok
      ((List.zipWith (fun x y => (x - v1.sum / (v1.length : ℝ)) * (y - v2.sum / (v2.length : ℝ))) v1 v2).sum /
        (if unbiased then (v1.length : ℝ) - 1 else (v1.length : ℝ))) := by
  rw [cov_eq v1 v2 unbiased h hn, specCov_eq]

/-- `var` is Σ (vᵢ-v̄)² divided by `n-1` (unbiased, `n ≥ 2`) or `n` (`n ≥ 1`) -/
theorem var_spec (v : List ℝ) (unbiased : Bool) (hn : (if unbiased then 2 else 1) ≤ v.length) :
    var v unbiased = .ok
      ((v.map (fun x => (x - v.sum / (v.length : ℝ)) ^ 2)).sum /
        (if unbiased then (v.length : ℝ) - 1 else (v.length : ℝ))) := by
  rw [var, cov_spec v v unbiased rfl hn]
  congr 2
  generalize v.sum / (v.length : ℝ) = c
  induction v with
  | nil => simp
  | cons x xs ih => simp [sq]

/-- the covariance is symmetric (as outcomes: both raise on a size mismatch) -/
theorem cov_symm (v1 v2 : List ℝ) (unbiased : Bool) (hn : (if unbiased then 2 else 1) ≤ v1.length) :
    cov v1 v2 unbiased = cov v2 v1 unbiased := by
  by_cases h : v1.length = v2.length
  · rw [cov_eq v1 v2 unbiased h hn, cov_eq v2 v1 unbiased h.symm (h ▸ hn), specCov_symm v1 v2 unbiased h]
  · rw [cov_mismatch v1 v2 unbiased h, cov_mismatch v2 v1 unbiased (Ne.symm h)]

/-- the variance is non-negative -/
theorem var_nonneg (v : List ℝ) (unbiased : Bool) (hn : (if unbiased then 2 else 1) ≤ v.length) :
    ∃ x, var v unbiased = .ok x ∧ 0 ≤ x := by
  refine ⟨_, cov_spec v v unbiased rfl hn, ?_⟩
  apply div_nonneg (sum_zipWith_sq_nonneg v _)
  cases unbiased with
  | false => simp
  | true =>
    have : (2:ℝ) ≤ (v.length : ℝ) := by exact_mod_cast hn
    simp only [if_true]; linarith

/-! ## extrema and their positions -/

/-- `max` returns an element of the vector that no element exceeds -/
theorem max_spec (v : List ℝ) (m : ℝ) (h : VecTools.max v = .ok m) : m ∈ v ∧ ∀ y ∈ v, y ≤ m := by
  cases v with
  | nil => simp [VecTools.max, extremum] at h
  | cons x xs =>
    simp only [VecTools.max, extremum, Except.ok.injEq] at h
    obtain ⟨hm, hall⟩ := extremum_fold_spec gt_strictWeak xs x
    rw [h] at hm hall
    exact ⟨hm, fun y hy => by have := hall y hy; simpa [Scalar.gtb] using this⟩

/-- `min` returns an element of the vector that is below every element -/
theorem min_spec (v : List ℝ) (m : ℝ) (h : VecTools.min v = .ok m) : m ∈ v ∧ ∀ y ∈ v, m ≤ y := by
  cases v with
  | nil => simp [VecTools.min, extremum] at h
  | cons x xs =>
    simp only [VecTools.min, extremum, Except.ok.injEq] at h
    obtain ⟨hm, hall⟩ := extremum_fold_spec lt_strictWeak xs x
    rw [h] at hm hall
    exact ⟨hm, fun y hy => by have := hall y hy; simpa using this⟩

/-- `max`/`min` of a non-empty vector succeed -/
theorem max_min_defined (v : List ℝ) (h : v ≠ []) : (∃ m, VecTools.max v = .ok m) ∧ (∃ m, VecTools.min v = .ok m) := by
  cases v with
  | nil => exact absurd rfl h
  | cons x xs => exact ⟨⟨_, rfl⟩, ⟨_, rfl⟩⟩

/-- `whichMax` returns the *first* position of a maximal element: the predicate the driver
evaluates on the implementation -/
theorem whichMax_first (v : List ℝ) (p : Nat) (h : whichMax v = .ok p) :
    IsFirstExtremum (fun y m => Scalar.gtb y m) v p :=
  whichExtremum_spec gt_strictWeak v p h

/-- … spelled out: `v[p]` exists, nothing exceeds it, everything before it is strictly smaller -/
theorem whichMax_first_iff (v : List ℝ) (p : Nat) (h : whichMax v = .ok p) :
    ∃ m, v[p]? = some m ∧ (∀ y ∈ v, y ≤ m) ∧ (∀ y ∈ v.take p, y < m) := by
  obtain ⟨m, hm, h1, h2⟩ := (isFirstExtremum_iff _ v p).mp (whichMax_first v p h)
  exact ⟨m, hm, fun y hy => by simpa [Scalar.gtb] using h1 y hy, fun y hy => by simpa [Scalar.gtb] using h2 y hy⟩

/-- `whichMin` returns the first position of a minimal element -/
theorem whichMin_first (v : List ℝ) (p : Nat) (h : whichMin v = .ok p) :
    ∃ m, v[p]? = some m ∧ (∀ y ∈ v, m ≤ y) ∧ (∀ y ∈ v.take p, m < y) := by
  obtain ⟨m, hm, h1, h2⟩ := (isFirstExtremum_iff _ v p).mp (whichExtremum_spec lt_strictWeak v p h)
  exact ⟨m, hm, fun y hy => by simpa using h1 y hy, fun y hy => by simpa using h2 y hy⟩

/-- the position answered is unique: any position with the first-maximum property is the answer -/
theorem whichMax_unique (v : List ℝ) (p q : Nat) (h : whichMax v = .ok p)
    (hq : IsFirstExtremum (fun y m => Scalar.gtb y m) v q) : q = p := by
  obtain ⟨m, hm, h1, h2⟩ := (isFirstExtremum_iff _ v p).mp (whichMax_first v p h)
  obtain ⟨m', hm', h1', h2'⟩ := (isFirstExtremum_iff _ v q).mp hq
  have hmv : m ∈ v := List.mem_of_getElem? hm
  have hmv' : m' ∈ v := List.mem_of_getElem? hm'
  rcases Nat.lt_trichotomy q p with hlt | heq | hgt
  · -- v[q] is before p, so v[q] < m; but m ≤ m' = v[q]
    have hin : m' ∈ v.take p := by
      rw [List.mem_take_iff_getElem]
      have hql : q < v.length := by
        rcases Nat.lt_or_ge q v.length with h | h
        · exact h
        · simp [List.getElem?_eq_none h] at hm'
      refine ⟨q, by omega, ?_⟩
      rw [List.getElem?_eq_getElem hql] at hm'; exact Option.some.inj hm'
    have a := h2 m' hin
    have b := h1' m hmv
    simp [Scalar.gtb] at a b; linarith
  · exact heq
  · have hin : m ∈ v.take q := by
      rw [List.mem_take_iff_getElem]
      have hpl : p < v.length := by
        rcases Nat.lt_or_ge p v.length with h | h
        · exact h
        · simp [List.getElem?_eq_none h] at hm
      refine ⟨p, by omega, ?_⟩
      rw [List.getElem?_eq_getElem hpl] at hm; exact Option.some.inj hm
    have a := h2' m hin
    have b := h1 m' hmv'
    simp [Scalar.gtb] at a b; linarith

/-! ## order and median -/

/-- `order` answers a permutation of the positions along which the vector is non-decreasing
(the predicate the driver evaluates on the implementation; `std::sort` may order ties differently
from the model, every such answer satisfies the same predicate) -/
theorem order_sorted_perm (v : List ℝ) (idx : List Nat) (h : order v = .ok idx) :
    IsSortingPerm Scalar.ltb v idx := order_spec v idx h

/-- … spelled out -/
theorem order_sorted_perm_iff (v : List ℝ) (idx : List Nat) (h : order v = .ok idx) :
    idx.Perm (List.range v.length) ∧
      (idx.filterMap (fun i => v[i]?)).Pairwise (fun a b => a ≤ b) := by
  obtain ⟨hp, hs⟩ := order_spec v idx h
  exact ⟨hp, hs.imp (fun {a b} hab => by simpa using hab)⟩

/-- `order` succeeds exactly on non-empty vectors; the empty vector raises EmptyVectorException -/
theorem order_defined_iff (v : List ℝ) : (∃ idx, order v = .ok idx) ↔ v ≠ [] := by
  unfold order
  constructor
  · rintro ⟨idx, h⟩ hv; subst hv; simp at h
  · intro hv
    have : v.length ≠ 0 := by simpa using hv
    rw [if_neg this]; exact ⟨_, rfl⟩

/-- `median` of a non-empty vector never reads out of range, returns a median — at least half of
the elements are `≤ m` and at least half are `≥ m` — and leaves the vector sorted (a permutation
of the input, non-decreasing when there are at least two elements) -/
theorem median_spec (v : List ℝ) (hv : v ≠ []) :
    ∃ m s, median v = .ok (m, s) ∧ IsMedian Scalar.ltb v m ∧ s.Perm v ∧
      (2 ≤ v.length → SortedBy Scalar.ltb s) := median_spec' v hv

/-- … the counting statement spelled out -/
theorem median_spec_iff (v : List ℝ) (hv : v ≠ []) :
    ∃ m s, median v = .ok (m, s) ∧
      v.length ≤ 2 * v.countP (fun x => decide (x ≤ m)) ∧ v.length ≤ 2 * v.countP (fun x => decide (m ≤ x)) := by
  obtain ⟨m, s, h, ⟨h1, h2⟩, -, -⟩ := median_spec' v hv
  refine ⟨m, s, h, ?_, ?_⟩
  · convert h1 using 3; funext x; simp only [Scalar.ltb]
    by_cases hx : m < x
    · simp [hx, not_le.mpr hx]
    · simp [hx, not_lt.mp hx]
  · convert h2 using 3; funext x; simp only [Scalar.ltb]
    by_cases hx : x < m
    · simp [hx, not_le.mpr hx]
    · simp [hx, not_lt.mp hx]

/-- the median of the empty vector is the documented 0 -/
theorem median_empty : median ([] : List ℝ) = .ok (0, []) := by
  simp [median]

/-! ## correlation -/

/-- Cauchy–Schwarz: the Pearson correlation of two non-constant samples of equal length `≥ 2`
is defined and lies in `[-1, 1]`.  (For a constant sample the code divides by a zero standard
deviation — NaN in floating point — which is why the hypothesis is needed.) -/
theorem cor_sq_le_one (v1 v2 : List ℝ) (h : v1.length = v2.length) (hn : 2 ≤ v1.length)
    (h1 : ∃ x ∈ v1, ∃ y ∈ v1, x ≠ y) (h2 : ∃ x ∈ v2, ∃ y ∈ v2, x ≠ y) :
    ∃ r, cor v1 v2 = .ok r ∧ r ^ 2 ≤ 1 := cor_sq_le_one' v1 v2 h hn h1 h2

theorem cor_range (v1 v2 : List ℝ) (h : v1.length = v2.length) (hn : 2 ≤ v1.length)
    (h1 : ∃ x ∈ v1, ∃ y ∈ v1, x ≠ y) (h2 : ∃ x ∈ v2, ∃ y ∈ v2, x ≠ y) :
    ∃ r, cor v1 v2 = .ok r ∧ -1 ≤ r ∧ r ≤ 1 := by
  obtain ⟨r, hr, hsq⟩ := cor_sq_le_one' v1 v2 h hn h1 h2
  exact ⟨r, hr, by nlinarith, by nlinarith⟩

example : ∃ r, cor ([1, 2, 4] : List ℝ) [3, 1, 0] = .ok r ∧ r ^ 2 ≤ 1 :=
  cor_sq_le_one _ _ rfl (by decide) ⟨1, by simp, 2, by simp, by norm_num⟩ ⟨3, by simp, 1, by simp, by norm_num⟩

/-! ## set-like helpers
Stated for an arbitrary linear order `β`, with `==` and `<` read as `deq`/`dlt` (`decide (a = b)`,
`decide (a < b)`). -/
section Sets
variable {β : Type} [LinearOrder β]

/-- `contains` is membership -/
theorem contains_iff (v : List β) (x : β) : contains deq v x = true ↔ x ∈ v := contains_deq v x

/-- `unique` answers a strictly increasing (hence duplicate-free) vector with the same elements -/
theorem unique_nodup_same_set (v : List β) :
    (unique deq dlt v).Pairwise (· < ·) ∧ (unique deq dlt v).Nodup ∧ ∀ x, x ∈ unique deq dlt v ↔ x ∈ v := by
  obtain ⟨h1, h2⟩ := unique_spec v
  exact ⟨h1, h1.imp (fun {a b} h => ne_of_lt h), h2⟩

/-- witness of the defect repaired in round 2: before the repair `vectorUnion(v1, v2)` kept the
repeated elements of its first argument (documented: "duplicate element will be removed") … -/
theorem unionOrig_keeps_duplicates (x : β) (b : List β) :
    ¬ (vectorUnionOrig deq [x, x] b).Nodup := by
  rw [vectorUnionOrig_eq]; simp

/-- … and was otherwise the first vector followed by the new, pairwise distinct elements of the
second — which is what `extend` (the in-place variant, documented that way) still computes
(`IsUnion` is the predicate the driver evaluates for `extend`) -/
theorem unionOrig_shape (a b : List β) :
    (∀ x, x ∈ vectorUnionOrig deq a b ↔ x ∈ a ∨ x ∈ b) ∧
    IsUnion deq a b (vectorUnionOrig deq a b) ∧ (a.Nodup → (vectorUnionOrig deq a b).Nodup) :=
  ⟨mem_vectorUnionOrig a b, isUnion_vectorUnionOrig a b, nodup_vectorUnionOrig a b⟩

/-- `vectorIntersection` holds exactly the common elements (in the order of the first vector) -/
theorem inter_iff (a b : List β) (x : β) : x ∈ vectorIntersection deq a b ↔ x ∈ a ∧ x ∈ b :=
  mem_vectorIntersection a b x

theorem inter_sublist (a b : List β) : (vectorIntersection deq a b).Sublist a := by
  unfold vectorIntersection; exact List.filter_sublist

/-- `diff` (repaired) holds exactly the elements of the first vector that are not in the second,
strictly increasing — for every second vector, the empty one included -/
theorem diff_iff (a b : List β) :
    (∀ x, x ∈ diff deq dlt a b ↔ x ∈ a ∧ x ∉ b) ∧ (diff deq dlt a b).Pairwise (· < ·) := diff_spec a b

/-- witness: before the repair, `diff` of a non-empty vector and an empty second vector read
`v2[0]` of the empty vector -/
theorem diffOrig_empty_ub (a : List β) (ha : a ≠ []) : diffOrig deq dlt a [] = .error .ub := by
  unfold diffOrig
  have hlen : (a.mergeSort (leOfLt dlt)).length = a.length := List.length_mergeSort a
  cases hs : a.mergeSort (leOfLt dlt) with
  | nil => rw [hs] at hlen; exact absurd (List.length_eq_zero_iff.mp hlen.symm) ha
  | cons x xs => simp [diffLoop, sameAsPrev, advance]

end Sets

/-! ## false discovery rate (StatTools::computeFdr, repaired) -/

/-- `computeFdr` never reads or writes out of range and answers the Benjamini–Hochberg adjustment
along the ranking it sorted: the p-value at position `k` of the decreasing order — rank `n - k` —
is answered `p·n/(n - k)` (`IsFdrVia` is the predicate the driver evaluates on the implementation;
equal p-values may be ranked in any order) -/
theorem fdr_spec (p : List ℝ) :
    ∃ out, computeFdr p = .ok out ∧ IsFdrVia p out ((sortPValues p).map (·.2)) := computeFdr_spec p

/-- for pairwise distinct p-values: `fdrᵢ = pᵢ·n / rank(pᵢ)`, `rank(pᵢ) = #{j | pⱼ ≤ pᵢ}` -/
theorem fdr_rank_formula (p : List ℝ) (hnd : p.Nodup) :
    ∃ out, computeFdr p = .ok out ∧ out.length = p.length ∧
      ∀ (i : Nat) (x : ℝ), p[i]? = some x →
        out[i]? = some (x * (p.length : ℝ) / ((p.countP (fun y => decide (y ≤ x)) : Nat) : ℝ)) :=
  computeFdr_rank p hnd

/-- witness of the defect: before the repair every entry was `pᵢ·n/(i+1)` — the divisor is the
position in the input, not the rank -/
theorem fdrOrig_divides_by_index (p : List ℝ) :
    ∃ out, computeFdrOrig p = .ok out ∧ out.length = p.length ∧
      ∀ (i : Nat) (x : ℝ), p[i]? = some x → out[i]? = some (x * (p.length : ℝ) / ((i : ℝ) + 1)) :=
  computeFdrOrig_spec p

/-- … e.g. the larger of two p-values, listed first, was doubled although its rank is 2 -/
theorem fdrOrig_witness : ∃ out, computeFdrOrig ([4/100, 1/100] : List ℝ) = .ok out ∧ out[0]? = some (8/100) := by
  obtain ⟨out, h, -, h2⟩ := computeFdrOrig_spec [4/100, 1/100]
  refine ⟨out, h, ?_⟩
  rw [h2 0 (4/100) rfl]; norm_num

example : ∃ out, computeFdr ([4/100, 1/100] : List ℝ) = .ok out ∧ out[0]? = some (4/100) := by
  obtain ⟨out, h, -, h2⟩ := computeFdr_rank [4/100, 1/100] (by norm_num)
  refine ⟨out, h, ?_⟩
  rw [h2 0 (4/100) rfl]
  norm_num [List.countP_cons]

/-! ## element-wise operators -/

/-- the binary operators answer the element-wise results for equal lengths -/
theorem elementwise_spec (v1 v2 : List ℝ) (h : v1.length = v2.length) :
    add v1 v2 = .ok (List.zipWith (· + ·) v1 v2) ∧ sub v1 v2 = .ok (List.zipWith (· - ·) v1 v2) ∧
    mul v1 v2 = .ok (List.zipWith (· * ·) v1 v2) ∧ div v1 v2 = .ok (List.zipWith (· / ·) v1 v2) := by
  simp [add, sub, mul, div, zipOp, h]

/-- witness: before the repair the compound operators `v1 op= v2` read `v2` out of range when it
is shorter than `v1` … -/
theorem zipAssignOrig_shorter_ub (f : ℝ → ℝ → ℝ) (x : ℝ) (xs : List ℝ) :
    zipAssignOrig f (x :: xs) [] = .error .ub := rfl

/-- … and silently ignored the tail of a longer `v2` -/
theorem zipAssignOrig_longer_truncates (f : ℝ → ℝ → ℝ) (y : ℝ) (ys : List ℝ) :
    zipAssignOrig f [] (y :: ys) = .ok [] := rfl

/-! ## size mismatches and empty inputs -/

/-- every two-vector routine reports a size mismatch by DimensionException -/
theorem mismatch_raises (v1 v2 : List ℝ) (h : v1.length ≠ v2.length) :
    add v1 v2 = .error .dimension ∧ sub v1 v2 = .error .dimension ∧ mul v1 v2 = .error .dimension ∧
    div v1 v2 = .error .dimension ∧ (∀ f, zipAssign f v1 v2 = .error .dimension) ∧
    sumProd v1 v2 = .error .dimension ∧ scalar v1 v2 = .error .dimension ∧ normW v1 v2 = .error .dimension ∧
    VecTools.cos v1 v2 = .error .dimension ∧ (∀ nw, meanW v1 v2 nw = .error .dimension) ∧
    (∀ nw, centerW v1 v2 nw = .error .dimension) ∧ (∀ u, cov v1 v2 u = .error .dimension) ∧
    cor v1 v2 = .error .dimension := by
  refine ⟨zipOp_mismatch _ _ _ h, zipOp_mismatch _ _ _ h, zipOp_mismatch _ _ _ h, zipOp_mismatch _ _ _ h,
    fun f => zipOp_mismatch f _ _ h, by simp [sumProd, h], scalar_mismatch _ _ h, by simp [normW, h], ?_,
    fun nw => meanW_mismatch _ _ nw h, fun nw => centerW_mismatch _ _ nw h, fun u => cov_mismatch _ _ u h, ?_⟩
  · unfold VecTools.cos; rw [scalar_mismatch _ _ h]; rfl
  · unfold cor; rw [cov_mismatch _ _ _ h]; rfl

/-- the weighted routines raise when either sample does not match the weights -/
theorem mismatch_raises_weighted (v1 v2 w : List ℝ) (h : v1.length ≠ w.length ∨ v2.length ≠ w.length) :
    scalarW v1 v2 w = .error .dimension ∧ (∀ u nw, covW v1 v2 w u nw = .error .dimension) ∧
    (∀ nw, corW v1 v2 w nw = .error .dimension) := by
  have hcov : ∀ (w' : List ℝ), w'.length = w.length → ∀ u, covW v1 v2 w' u false = .error .dimension := by
    intro w' hw' u
    unfold covW
    simp only [Bool.false_eq_true, if_false]
    by_cases h1 : v1.length = w'.length
    · have h2 : v2.length ≠ w'.length := by
        rcases h with h | h
        · exact absurd (h1.trans hw') h
        · rw [hw']; exact h
      obtain ⟨c, hc, -⟩ := centerW_ok v1 w' false h1
      rw [hc, centerW_mismatch v2 w' false h2]; rfl
    · rw [centerW_mismatch v1 w' false h1]; rfl
  refine ⟨?_, ?_, ?_⟩
  · unfold scalarW
    rcases h with h | h
    · simp [h]
    · by_cases h1 : v1.length = w.length <;> simp [h1, h]
  · intro u nw
    cases nw with
    | false => exact hcov w rfl u
    | true =>
      have := hcov (divC w (VecTools.sum w)) (by simp [divC]) u
      unfold covW at this ⊢
      simpa using this
  · intro nw
    unfold corW
    cases nw with
    | false => simp only [Bool.false_eq_true, if_false]; rw [hcov w rfl false]; rfl
    | true => simp only [if_true]; rw [hcov (divC w (VecTools.sum w)) (by simp [divC]) false]; rfl

/-- the routines documented to throw on an empty vector do so -/
theorem empty_raises :
    VecTools.max ([] : List ℝ) = .error .empty ∧ VecTools.min ([] : List ℝ) = .error .empty ∧
    whichMax ([] : List ℝ) = .error .empty ∧ whichMin ([] : List ℝ) = .error .empty ∧
    whichMaxAll ([] : List ℝ) = .error .empty ∧ whichMinAll ([] : List ℝ) = .error .empty ∧
    VecTools.range ([] : List ℝ) = .error .empty ∧ order ([] : List ℝ) = .error .empty := by
  refine ⟨rfl, rfl, rfl, rfl, rfl, rfl, rfl, rfl⟩

/-- no routine of the (repaired) model reads out of range, whatever the sizes: empty vectors,
single elements and mismatched lengths included -/
theorem empty_no_ub (v1 v2 w : List ℝ) (u nw : Bool) (f : ℝ → ℝ → ℝ) (x : ℝ) :
    NoUb (zipOp f v1 v2) ∧ NoUb (zipAssign f v1 v2) ∧ NoUb (sumProd v1 v2) ∧ NoUb (scalar v1 v2) ∧
    NoUb (scalarW v1 v2 w) ∧ NoUb (normW v1 w) ∧ NoUb (VecTools.cos v1 v2) ∧
    NoUb (VecTools.max v1) ∧ NoUb (VecTools.min v1) ∧ NoUb (whichMax v1) ∧ NoUb (whichMin v1) ∧
    NoUb (whichMaxAll v1) ∧ NoUb (whichMinAll v1) ∧ NoUb (VecTools.range v1) ∧ NoUb (order v1) ∧
    NoUb (median v1) ∧ NoUb (meanW v1 w nw) ∧ NoUb (centerW v1 w nw) ∧ NoUb (cov v1 v2 u) ∧
    NoUb (var v1 u) ∧ NoUb (sd v1 u) ∧ NoUb (cor v1 v2) ∧ NoUb (covW v1 v2 w u nw) ∧
    NoUb (varW v1 w u nw) ∧ NoUb (sdW v1 w u nw) ∧ NoUb (corW v1 v2 w nw) ∧
    NoUb (which Scalar.eqb v1 x) ∧ NoUb (computeFdr v1) :=
  ⟨zipOp_noUb _ _ _, zipOp_noUb _ _ _, sumProd_noUb _ _, scalar_noUb _ _, scalarW_noUb _ _ _, normW_noUb _ _,
   cos_noUb _ _, extremum_noUb _ _, extremum_noUb _ _, whichExtremum_noUb _ _, whichExtremum_noUb _ _,
   (whichMaxAll_noUb _).1, (whichMaxAll_noUb _).2, range_noUb _, order_noUb _, median_noUb _, meanW_noUb _ _ _,
   centerW_noUb _ _ _, cov_noUb _ _ _, cov_noUb _ _ _, sd_noUb _ _, cor_noUb _ _, covW_noUb _ _ _ _ _,
   covW_noUb _ _ _ _ _, sdW_noUb _ _ _ _, corW_noUb _ _ _ _, which_noUb _ _ _, computeFdr_noUb _⟩

/-! ## seq (repaired) -/

/-- `seq(from, to, by)` with a positive step has `⌊(|from-to| + by/100)/by⌋ + 1` elements, starts
at `from` and advances by `by` towards `to` -/
theorem seq_spec (frm tt by_ : ℝ) (hby : 0 < by_) :
    ∃ l, seq truncR frm tt by_ = .ok l ∧
      l.length = ⌊(|frm - tt| + by_ / 100) / by_⌋₊ + 1 ∧
      ∀ i, i < l.length → l[i]? = some (frm + i * (if frm < tt then by_ else -by_)) := seq_spec' frm tt by_ hby

/-- when the end point is a whole number `k` of steps away (upwards or downwards) the sequence
has `k+1` elements, the first is `from` and the last is the end point -/
theorem seq_includes_to (frm by_ : ℝ) (k : Nat) (up : Bool) (hby : 0 < by_) :
    let tt := if up then frm + k * by_ else frm - k * by_
    ∃ l, seq truncR frm tt by_ = .ok l ∧ l.length = k + 1 ∧ l[0]? = some frm ∧ l[k]? = some tt :=
  seq_hits_to frm by_ k up hby

/-- witness: before the repair a descending sequence started at the *end* point and walked away
from the range (`seq(5,1,1) = 1 0 -1 -2 -3`) -/
theorem seqOrig_descending_wrong (trunc : ℝ → Nat) (frm tt by_ : ℝ) (hby : 0 < by_) (h : tt < frm) :
    ∃ l, seqOrig trunc frm tt by_ = .ok (tt :: l) := seqOrig_starts_at_to trunc frm tt by_ hby h

/-! ## further definitional statements (each is a clause the driver evaluates) -/

/-- `norm` is √Σxᵢ² -/
theorem norm_spec (v : List ℝ) : norm v = Real.sqrt (v.map (fun x => x * x)).sum := norm_eq v

/-- weighted `scalar` is Σ v1ᵢ·v2ᵢ·wᵢ -/
theorem scalarW_spec (v1 v2 w : List ℝ) (h1 : v1.length = w.length) (h2 : v2.length = w.length) :
    scalarW v1 v2 w = .ok (zipWith3 (fun a b c => a * b * c) v1 v2 w).sum := scalarW_eq v1 v2 w h1 h2

/-- Cauchy–Schwarz for `cos`: the cosine of two non-zero vectors lies in `[-1,1]` -/
theorem cos_range (v1 v2 : List ℝ) (h : v1.length = v2.length)
    (h1 : 0 < (v1.map (fun x => x * x)).sum) (h2 : 0 < (v2.map (fun x => x * x)).sum) :
    ∃ c, VecTools.cos v1 v2 = .ok c ∧ c ^ 2 ≤ 1 := by
  unfold VecTools.cos
  rw [scalar_eq v1 v2 h]
  refine ⟨_, rfl, ?_⟩
  rw [norm_eq, norm_eq, div_pow, mul_pow, Real.sq_sqrt h1.le, Real.sq_sqrt h2.le, div_le_one (mul_pos h1 h2)]
  have := cauchy_schwarz_list v1 v2
  simpa [sq] using this

/-- `range` is (min, max) -/
theorem range_spec (v : List ℝ) (lo hi : ℝ) (h : VecTools.range v = .ok (lo, hi)) :
    VecTools.min v = .ok lo ∧ VecTools.max v = .ok hi := range_spec' v lo hi h

/-- `center` subtracts the mean: the centred sample sums to 0 -/
theorem center_spec (v : List ℝ) :
    center v = v.map (· - v.sum / (v.length : ℝ)) ∧ (v ≠ [] → (center v).sum = 0) :=
  ⟨center_eq v, sum_center v⟩

/-- `whichMaxAll` answers exactly the positions of the maximum, in increasing order -/
theorem whichMaxAll_positions (v : List ℝ) (pos : List Nat) (h : whichMaxAll v = .ok pos) :
    ∃ m, VecTools.max v = .ok m ∧ IsPositionsOf Scalar.eqb v m pos := whichMaxAll_spec v pos h

/-- `which` answers the first position of the element … -/
theorem which_first {β : Type} (eq : β → β → Bool) (v : List β) (x : β) (p : Nat) (h : which eq v x = .ok p) :
    (∃ y, v[p]? = some y ∧ eq y x = true) ∧ ∀ y ∈ v.take p, eq y x = false := by
  have := whichFrom_spec eq x v 0 p h
  simpa using this.2

/-- … and raises ElementNotFoundException when there is none -/
theorem which_notfound_raises {β : Type} (eq : β → β → Bool) (v : List β) (x : β)
    (h : ∀ y ∈ v, eq y x = false) : which eq v x = .error .notfound := whichFrom_notfound eq x v 0 h

/-- `shannon` is `-Σ_{x>0} x·ln x / ln base` -/
theorem shannon_spec (v : List ℝ) (base : ℝ) :
    shannon v base = - ((v.filter (fun x => decide (0 < x))).map (fun x => x * Real.log x / Real.log base)).sum :=
  shannon_eq v base

/-- the entropy of frequencies (entries `≤ 1`) to a base `> 1` is non-negative -/
theorem shannon_nonneg (v : List ℝ) (base : ℝ) (hb : 1 < base) (hv : ∀ x ∈ v, x ≤ 1) : 0 ≤ shannon v base :=
  shannon_nonneg' v base hb hv

section Sets2
variable {β : Type} [LinearOrder β]

/-- `isUnique` holds exactly when no element is repeated -/
theorem isUnique_iff (v : List β) : isUnique deq dlt v = true ↔ v.Nodup := isUnique_iff' v

/-- `haveSameElements` holds exactly for permutations (same elements with the same frequencies) -/
theorem haveSame_iff (a b : List β) : haveSameElements deq dlt a b = true ↔ a.Perm b :=
  haveSameElements_iff' a b
end Sets2

section Sets3
variable {β : Type} [LinearOrder β]

/-- `containsAll` (repaired): the first vector contains every element of the second -/
theorem containsAll_iff (a b : List β) : containsAll deq dlt a b = true ↔ ∀ x ∈ b, x ∈ a := containsAll_iff' a b

/-- witness: before the repair an empty first vector was read out of range -/
theorem containsAllOrig_empty_ub (b : List β) (hb : b ≠ []) : containsAllOrig deq dlt [] b = .error .ub :=
  containsAllOrig_empty_ub' b hb
end Sets3

/-! ## entropy of a sample -/

open scoped BigOperators in
/-- `shannonDiscrete` is `-Σ_x (c_x/n)·ln(c_x/n)/ln base` over the distinct observed values `x`, with
`c_x` the number of occurrences (the `std::map` of counts is modelled by a sorted association
list; the theorem shows that it holds exactly the occurrence counts) -/
theorem shannonDiscrete_spec (v : List ℝ) (base : ℝ) :
    shannonDiscrete v base =
      - ∑ k ∈ v.toFinset, ((v.count k : ℝ) / v.length) * Real.log ((v.count k : ℝ) / v.length) / Real.log base :=
  shannonDiscrete_eq v base

open scoped BigOperators in
/-- `miDiscrete` is `Σ_{(a,b)} (c_ab/n)·ln(c_ab·n/(c_a·c_b))/ln base` over the distinct observed
pairs, `c_ab`, `c_a`, `c_b` the joint and marginal occurrence counts -/
theorem miDiscrete_spec (v1 v2 : List ℝ) (base : ℝ) (h : v1.length = v2.length) :
    miDiscrete v1 v2 base = .ok (∑ p ∈ (List.zip v1 v2).toFinset,
      (((List.zip v1 v2).count p : ℝ) / v1.length) *
        Real.log (((List.zip v1 v2).count p : ℝ) * v1.length / ((v1.count p.1 : ℝ) * (v2.count p.2 : ℝ))) / Real.log base) :=
  miDiscrete_eq v1 v2 base h

/-- samples of different lengths are reported by DimensionException -/
theorem miDiscrete_mismatch_raises (v1 v2 : List ℝ) (base : ℝ) (h : v1.length ≠ v2.length) :
    miDiscrete v1 v2 base = .error .dimension := by
  simp [miDiscrete, h]

/-! ## weighted moments -/

/-- weighted `cov`: with `wn` the weights actually used (`w/Σw` when normalising), the weighted
means `m₁ = Σ v1ᵢ·wnᵢ`, `m₂` and `x = Σ (v1ᵢ-m₁)(v2ᵢ-m₂)·wnᵢ`, the answer is `x`, divided by
`1 - Σ wnᵢ²` for the unbiased estimate -/
theorem covW_spec (v1 v2 w : List ℝ) (u nw : Bool) (h1 : v1.length = w.length) (h2 : v2.length = w.length) :
    covW v1 v2 w u nw = .ok (
      let wn := normW' w nw
      let m1 := (List.zipWith (· * ·) v1 wn).sum
      let m2 := (List.zipWith (· * ·) v2 wn).sum
      let x := (zipWith3 (fun a b c => a * b * c) (v1.map (· - m1)) (v2.map (· - m2)) wn).sum
      if u then x / (1 - (wn.map (fun a => a * a)).sum) else x) := covW_eq v1 v2 w u nw h1 h2

/-- weighted Cauchy–Schwarz: with non-negative weights and positive weighted variances the
weighted correlation lies in `[-1,1]` -/
theorem corW_sq_le_one (v1 v2 w : List ℝ) (nw : Bool) (h1 : v1.length = w.length) (h2 : v2.length = w.length)
    (hw : ∀ c ∈ normW' w nw, 0 ≤ c)
    (hA : ∃ a, varW v1 (normW' w nw) false false = .ok a ∧ 0 < a)
    (hB : ∃ b, varW v2 (normW' w nw) false false = .ok b ∧ 0 < b) :
    ∃ r, corW v1 v2 w nw = .ok r ∧ r ^ 2 ≤ 1 := corW_sq_le_one' v1 v2 w nw h1 h2 hw hA hB

/-! ## whichAll, append -/

/-- `whichAll` answers exactly the positions holding the element, in increasing order, and raises
ElementNotFoundException when there is none -/
theorem whichAll_spec (v : List ℝ) (x : ℝ) :
    (∀ pos, whichAll v x = .ok pos → IsPositionsOf Scalar.eqb v x pos ∧ pos ≠ []) ∧
    ((∀ y ∈ v, y ≠ x) → whichAll v x = .error .notfound) := by
  have hpos : positionsOf x 0 v = (List.range v.length).filter (holdsAt Scalar.eqb v x) := by
    rw [positionsOf_eq]; simp
  constructor
  · intro pos h
    unfold whichAll at h
    simp only at h
    split at h
    · rename_i hne
      simp only [Except.ok.injEq] at h
      subst h
      exact ⟨hpos, fun hnil => hne (by rw [hnil]; rfl)⟩
    · cases h
  · intro hall
    unfold whichAll
    have : positionsOf x 0 v = [] := by
      rw [hpos, List.filter_eq_nil_iff]
      intro i hi
      have hi' : i < v.length := List.mem_range.mp hi
      simp only [holdsAt, List.getElem?_eq_getElem hi', ScalarReal.eqb_iff]
      exact hall _ (List.getElem_mem hi')
    simp [this]

/-- `append` of a vector of vectors (repaired) is their concatenation -/
theorem appendAll_spec {α : Type} (vs : List (List α)) : appendAll vs = vs.flatten := by
  unfold appendAll
  split
  · rfl
  · simp
  · rw [foldl_append_flatten]; simp

/-- witness: before the repair only the first vector was returned -/
theorem appendAllOrig_drops {α : Type} (v w : List α) (rest : List (List α)) (hw : w ≠ []) :
    appendAllOrig (v :: w :: rest) ≠ (v :: w :: rest).flatten := by
  simp only [appendAllOrig, List.flatten_cons]
  intro h
  have := congrArg List.length h
  simp only [List.length_append] at this
  have : w.length = 0 := by omega
  exact hw (List.length_eq_zero_iff.mp this)

end Bpp.C07
