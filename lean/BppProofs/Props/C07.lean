import BppProofs.Lemmas.VecTools
/-!
# C07 — vector reductions match their definitions   (src/Bpp/Numeric/VectorTools.h)

Property theorems only; helper lemmas are in `Lemmas/VecTools.lean`.  Numeric statements are
about the program text read at `ℝ` (rounding is not modelled).
-/
namespace Bpp.C07
open Bpp Bpp.VecTools

/-- `sum` is the sum of the elements -/
theorem sum_spec (v : List ℝ) : VecTools.sum v = v.sum := sum_eq v

end Bpp.C07
