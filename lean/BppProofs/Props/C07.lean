import BppProofs.Lemmas.VecTools
/-!
# C07 — vector reductions match their definitions
(src/Bpp/Numeric/VectorTools.h, src/Bpp/Numeric/Stat/StatTools.cpp)

Property theorems only; helper lemmas are in `Lemmas/VecTools.lean`.  Numeric statements are
about the program text of `BppModel/VecTools.lean` read at `ℝ` (rounding is not modelled).
Routines repaired by a `fix:` commit are stated for the repaired text; the `…Orig…` theorems are
the machine-checked witnesses of the defects of the unrepaired text.
-/
namespace Bpp.C07
open Bpp Bpp.VecTools Bpp.ScalarReal

/-! ## reductions -/

/-- `sum` is the sum of the elements -/
theorem sum_spec (v : List ℝ) : VecTools.sum v = v.sum := sum_eq v

/-- `prod` is the product of the elements -/
theorem prod_spec (v : List ℝ) : VecTools.prod v = v.prod := prod_eq v

/-- `cumSum` has the length of its argument and entry `i` is the sum of the first `i+1` elements -/
theorem cumSum_spec (v : List ℝ) :
    (cumSum v).length = v.length ∧ ∀ i, i < v.length → (cumSum v)[i]? = some (v.take (i + 1)).sum := by
  cases v with
  | nil => simp [cumSum]
  | cons x xs =>
    refine ⟨by simp [cumSum, cumSumAux_length], ?_⟩
    intro i hi
    cases i with
    | zero => simp [cumSum]
    | succ j =>
      have hj : j < xs.length := by simpa using hi
      simp [cumSum, cumSumAux_get x xs j hj]

/-- `cumProd`: entry `i` is the product of the first `i+1` elements -/
theorem cumProd_spec (v : List ℝ) :
    (cumProd v).length = v.length ∧ ∀ i, i < v.length → (cumProd v)[i]? = some (v.take (i + 1)).prod := by
  cases v with
  | nil => simp [cumProd]
  | cons x xs =>
    refine ⟨by simp [cumProd, cumProdAux_length], ?_⟩
    intro i hi
    cases i with
    | zero => simp [cumProd]
    | succ j =>
      have hj : j < xs.length := by simpa using hi
      simp [cumProd, cumProdAux_get x xs j hj]

/-- `sumProd` (repaired) is Σ v2ᵢ·v1ᵢ for equal lengths — including two empty vectors (0) -/
theorem sumProd_spec (v1 v2 : List ℝ) (h : v1.length = v2.length) :
    sumProd v1 v2 = .ok (List.zipWith (· * ·) v1 v2).sum := by
  simp only [sumProd, h, ne_eq, not_true_eq_false, if_false, foldl_add_eq, zero_eq, zero_add]
  congr 2
  induction v1 generalizing v2 with
  | nil => simp
  | cons x xs ih => cases v2 with
    | nil => simp
    | cons y ys => simp [mul_comm]

/-- witness: before the repair `sumProd` of two empty vectors read element 0 -/
theorem sumProdOrig_empty_ub : sumProdOrig ([] : List ℝ) [] = .error .ub := by
  rfl

/-- `scalar` is Σ v1ᵢ·v2ᵢ -/
theorem scalar_spec (v1 v2 : List ℝ) (h : v1.length = v2.length) :
    scalar v1 v2 = .ok (List.zipWith (· * ·) v1 v2).sum := scalar_eq v1 v2 h

/-! ## moments -/

/-- `mean` is Σv / n -/
theorem mean_spec (v : List ℝ) : mean v = v.sum / (v.length : ℝ) := mean_eq v

/-- weighted `mean` with normalisation is (Σ vᵢ·wᵢ)/(Σ w) -/
theorem mean_weighted_spec (v w : List ℝ) (h : v.length = w.length) :
    meanW v w true = .ok ((List.zipWith (· * ·) v w).sum / w.sum) := meanW_eq v w h

/-- weighted `mean` without normalisation is Σ vᵢ·wᵢ -/
theorem mean_weighted_raw_spec (v w : List ℝ) (h : v.length = w.length) :
    meanW v w false = .ok (List.zipWith (· * ·) v w).sum := by
  simp [meanW, scalar_eq v w h]

/-- `cov` is Σ (aᵢ-ā)(bᵢ-b̄) divided by `n-1` (unbiased, `n ≥ 2`) or `n` (`n ≥ 1`) -/
theorem cov_spec (v1 v2 : List ℝ) (unbiased : Bool) (h : v1.length = v2.length)
    (hn : (if unbiased then 2 else 1) ≤ v1.length) :
    cov v1 v2 unbiased = .ok
      ((List.zipWith (fun x y => (x - v1.sum / (v1.length : ℝ)) * (y - v2.sum / (v2.length : ℝ))) v1 v2).sum /
        (if unbiased then (v1.length : ℝ) - 1 else (v1.length : ℝ))) := by
  rw [cov_eq v1 v2 unbiased h hn, specCov_eq]

/-- `var` is Σ (vᵢ-v̄)² divided by `n-1` (unbiased, `n ≥ 2`) or `n` (`n ≥ 1`) -/
theorem var_spec (v : List ℝ) (unbiased : Bool) (hn : (if unbiased then 2 else 1) ≤ v.length) :
    var v unbiased = .ok
      ((v.map (fun x => (x - v.sum / (v.length : ℝ)) ^ 2)).sum /
        (if unbiased then (v.length : ℝ) - 1 else (v.length : ℝ))) := by
  rw [var, cov_spec v v unbiased rfl hn]
  congr 2
  generalize v.sum / (v.length : ℝ) = c
  induction v with
  | nil => simp
  | cons x xs ih => simp [sq]

/-- the covariance is symmetric (as outcomes: both raise on a size mismatch) -/
theorem cov_symm (v1 v2 : List ℝ) (unbiased : Bool) (hn : (if unbiased then 2 else 1) ≤ v1.length) :
    cov v1 v2 unbiased = cov v2 v1 unbiased := by
  by_cases h : v1.length = v2.length
  · rw [cov_eq v1 v2 unbiased h hn, cov_eq v2 v1 unbiased h.symm (h ▸ hn), specCov_symm v1 v2 unbiased h]
  · rw [cov_mismatch v1 v2 unbiased h, cov_mismatch v2 v1 unbiased (Ne.symm h)]

/-- the variance is non-negative -/
theorem var_nonneg (v : List ℝ) (unbiased : Bool) (hn : (if unbiased then 2 else 1) ≤ v.length) :
    ∃ x, var v unbiased = .ok x ∧ 0 ≤ x := by
  refine ⟨_, cov_spec v v unbiased rfl hn, ?_⟩
  apply div_nonneg (sum_zipWith_sq_nonneg v _)
  cases unbiased with
  | false => simp
  | true =>
    have : (2:ℝ) ≤ (v.length : ℝ) := by exact_mod_cast hn
    simp only [if_true]; linarith

end Bpp.C07
