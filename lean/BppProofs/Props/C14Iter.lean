import BppProofs.Lemmas.ObserverReport
import BppProofs.Props.C14Copy
/-!
# C14 — iterators enumerate exactly the items the list queries return

`BppModel/GraphIter.lean` models the iterator objects as what they are in the C++ — a position in an
ordered table with `start / end / next / *` (the observer's iterators wrap a graph iterator and skip
ids without object) — and `drain`, the loop `for (it->start(); !it->end(); it->next()) use(**it)`.
The theorems below are about that loop.  (`iterators_enumerate` of `Props/C14.lean` only relates
`RowQ.iter` to the list query, which is true by definition; it is kept for the `ub` outcome.)
-/
namespace Bpp.C14
open Bpp Bpp.Graph Bpp.AL

/-- the loop over any graph iterator yields its whole table, in order — whatever position it was in -/
theorem cursor_drain {α : Type} (c : Cursor α) : c.drain = c.table := Cursor.drain_eq c

/-- the loop over an observer iterator yields the objects of the ids that have one, in table order,
and never a null object -/
theorem ocursor_drain (c : OCursor) : c.drain = c.it.table.filterMap c.obj := OCursor.drain_eq c

/-- **graph iterators**: `allNodesIterator` / `allEdgesIterator` enumerate `getAllNodes` /
`getAllEdges`; the four per-node iterators enumerate `getOutgoingNeighbors`, `getIncomingNeighbors`,
`getOutgoingEdges`, `getIncomingEdges` of that node; on an absent node the list queries raise and the
iterators cannot be constructed (undefined behaviour: `find(node)` dereferenced) -/
theorem graph_iterators_enumerate (g : G) (n : Nat) :
    g.allNodesIter.drain = g.allNodes ∧ g.allEdgesIter.drain = g.allEdges ∧
    (g.outNodesIter n).map Cursor.drain = g.outNeighbors n ∧
    (g.inNodesIter n).map Cursor.drain = g.inNeighbors n ∧
    (g.outEdgesIter n).map Cursor.drain = g.outEdges n ∧
    (g.inEdgesIter n).map Cursor.drain = g.inEdges n ∧
    (g.hasNode n = false → g.outNodesIter n = none ∧ g.outNeighbors n = none) := by
  refine ⟨Cursor.drain_eq _, Cursor.drain_eq _, ?_, ?_, ?_, ?_, ?_⟩
  · unfold G.outNodesIter G.outNeighbors RowQ.outNeighbors; cases g.rowOf n <;> simp [Cursor.drain_eq, Cursor.mk0]
  · unfold G.inNodesIter G.inNeighbors RowQ.inNeighbors; cases g.rowOf n <;> simp [Cursor.drain_eq, Cursor.mk0]
  · unfold G.outEdgesIter G.outEdges RowQ.outEdges; cases g.rowOf n <;> simp [Cursor.drain_eq, Cursor.mk0]
  · unfold G.inEdgesIter G.inEdges RowQ.inEdges; cases g.rowOf n <;> simp [Cursor.drain_eq, Cursor.mk0]
  · intro h
    have : g.rowOf n = none := by
      unfold G.hasNode has at h; unfold G.rowOf
      cases hf : find n g.nodes <;> simp_all
    simp [G.outNodesIter, G.outNeighbors, RowQ.outNeighbors, this]

/-- **observer iterators, all nodes / all edges**: in a world in order the observer's
`allNodesIterator` (which walks the *graph's* node table and looks every id up) enumerates exactly
`getAllNodes()` (which reads the observer's own `graphidToN_`), and `allEdgesIterator` exactly
`getAllEdges()` -/
theorem observer_all_iterators_enumerate (w : World) (hw : WInv w) (k : Nat) (o : Obs) (hk : w.getObs k = some o) :
    (w.allNodesIter o).drain = World.allNodeObjs o ∧ (w.allEdgesIter o).drain = World.allEdgeObjs o := by
  have hi := hw.obs k o hk
  constructor
  · rw [OCursor.drain_eq, allNodeObjs_eq hw.graph hi]; rfl
  · rw [OCursor.drain_eq, allEdgeObjs_eq hw.graph hi]; rfl

/-- … after every history -/
theorem observer_all_iterators_enumerate_inv (d : Bool) (ops : List WOpX) (k : Nat) (o : Obs)
    (hk : ((World.init d).runX ops).getObs k = some o) :
    (((World.init d).runX ops).allNodesIter o).drain = World.allNodeObjs o ∧
    (((World.init d).runX ops).allEdgesIter o).drain = World.allEdgeObjs o :=
  observer_all_iterators_enumerate _ (assoc_bijective_ext d ops) k o hk

/-- **observer iterators, per node**: for a registered object whose node is in the graph, the
iterator over outgoing neighbours (incoming, outgoing edges, incoming edges alike: `sel`/`q`)
enumerates exactly what the list query `getOutgoingNeighbors(Nref)` returns -/
theorem observer_node_iterators_enumerate (w : World) (o : Obs) (a : Obj) (id : Nat) (ha : find a o.Ng = some id)
    (sel : G → Nat → Option (Cursor Nat)) (q : G → Nat → Option (List Nat)) (edges : Bool)
    (hsel : (sel w.g id).map Cursor.drain = q w.g id) :
    (∀ c, sel w.g id = some c →
      ∃ oc, w.nodeIter o a sel edges = some (some oc) ∧ w.nodeQuery o a q edges = some oc.drain) ∧
    (sel w.g id = none → w.nodeIter o a sel edges = some none ∧ w.nodeQuery o a q edges = none) := by
  constructor
  · intro c hc
    refine ⟨{ it := c, obj := if edges then o.edgeFromGid else o.nodeFromGid }, by simp [World.nodeIter, ha, hc], ?_⟩
    rw [hc] at hsel
    simp only [Option.map_some, Cursor.drain_eq] at hsel
    simp only [World.nodeQuery, ha, ← hsel, Option.map_some, OCursor.drain_eq]
    cases edges <;> rfl
  · intro hn
    rw [hn] at hsel
    simp [World.nodeIter, World.nodeQuery, ha, hn, ← hsel]

/-- non-vacuity: ids 0,1,2 with objects 7, –, 9: the observer's iterator skips id 1 -/
example : (OCursor.mk (Cursor.mk0 [0, 1, 2]) (fun i => if i = 1 then none else some (i + 7))).drain = [7, 9] := by decide
example :
    (((World.init true).run [.createNode 0 4, .graph .createNode, .createNode 0 6]).allNodesIter
      { gN := [some 4, none, some 6], Ng := [(4, 0), (6, 2)] }).drain = [4, 6] := by decide

end Bpp.C14
