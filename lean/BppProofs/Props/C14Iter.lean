import BppProofs.Lemmas.ObserverReport
import BppProofs.Props.C14Copy
/-!
# C14 — iterators enumerate exactly the items the list queries return

`BppModel/GraphIter.lean` models the iterator objects as what they are in the C++ — a position in an
ordered table with `start / end / next / *` (the observer's iterators wrap a graph iterator and skip
ids without object) — and `drain`, the loop `for (it->start(); !it->end(); it->next()) use(**it)`.
The theorems below are about that loop.  (`iterators_enumerate` of `Props/C14.lean` only relates
`RowQ.iter` to the list query, which is true by definition; it is kept for the `ub` outcome.)
-/
namespace Bpp.C14
open Bpp Bpp.Graph Bpp.AL

/-- the loop over any graph iterator yields its whole table, in order — whatever position it was in -/
theorem cursor_drain {α : Type} (c : Cursor α) : c.drain = c.table := Cursor.drain_eq c

/-- the loop over an observer iterator yields the objects of the ids that have one, in table order,
and never a null object -/
theorem ocursor_drain (c : OCursor) : c.drain = c.it.table.filterMap c.obj := OCursor.drain_eq c

/-- **graph iterators**: `allNodesIterator` / `allEdgesIterator` enumerate `getAllNodes` /
`getAllEdges`; the four per-node iterators enumerate `getOutgoingNeighbors`, `getIncomingNeighbors`,
`getOutgoingEdges`, `getIncomingEdges` of that node; on an absent node the list queries raise and the
iterators cannot be constructed (undefined behaviour: `find(node)` dereferenced) -/
theorem graph_iterators_enumerate (g : G) (n : Nat) :
    g.allNodesIter.drain = g.allNodes ∧ g.allEdgesIter.drain = g.allEdges ∧
    (g.outNodesIter n).map Cursor.drain = g.outNeighbors n ∧
    (g.inNodesIter n).map Cursor.drain = g.inNeighbors n ∧
    (g.outEdgesIter n).map Cursor.drain = g.outEdges n ∧
    (g.inEdgesIter n).map Cursor.drain = g.inEdges n ∧
    (g.hasNode n = false → g.outNodesIter n = none ∧ g.outNeighbors n = none) := by
  refine ⟨Cursor.drain_eq _, Cursor.drain_eq _, ?_, ?_, ?_, ?_, ?_⟩
  · unfold G.outNodesIter G.outNeighbors RowQ.outNeighbors; cases g.rowOf n <;> simp [Cursor.drain_eq, Cursor.mk0]
  · unfold G.inNodesIter G.inNeighbors RowQ.inNeighbors; cases g.rowOf n <;> simp [Cursor.drain_eq, Cursor.mk0]
  · unfold G.outEdgesIter G.outEdges RowQ.outEdges; cases g.rowOf n <;> simp [Cursor.drain_eq, Cursor.mk0]
  · unfold G.inEdgesIter G.inEdges RowQ.inEdges; cases g.rowOf n <;> simp [Cursor.drain_eq, Cursor.mk0]
  · intro h
    have : g.rowOf n = none := by
      unfold G.hasNode has at h; unfold G.rowOf
      cases hf : find n g.nodes <;> simp_all
    simp [G.outNodesIter, G.outNeighbors, RowQ.outNeighbors, this]

/-- **iterators_absent_raise**: on a node that is not (or no longer) in the graph each of the four
per-node iterator factories raises — like the four list queries — and nothing else happens (they
are queries).  (Audit round 2: on the unchanged tree they read past the end of the node table.) -/
theorem iterators_absent_raise (g : G) (n : Nat) (h : g.hasNode n = false) :
    g.outNodesIter n = none ∧ g.inNodesIter n = none ∧ g.outEdgesIter n = none ∧ g.inEdgesIter n = none ∧
    g.outNeighbors n = none ∧ g.inNeighbors n = none ∧ g.outEdges n = none ∧ g.inEdges n = none := by
  have : g.rowOf n = none := by
    unfold G.hasNode has at h; unfold G.rowOf
    cases hf : find n g.nodes <;> simp_all
  simp [G.outNodesIter, G.inNodesIter, G.outEdgesIter, G.inEdgesIter, G.outNeighbors, G.inNeighbors, G.outEdges, G.inEdges,
    RowQ.outNeighbors, RowQ.inNeighbors, RowQ.outEdges, RowQ.inEdges, this]

/-- … in particular for a node that has just been deleted, after any history -/
theorem iterators_deleted_raise (d : Bool) (ops : List Op) (n : Nat) (hn : ((Graph.empty d).run ops).hasNode n = true) :
    (((Graph.empty d).run ops).step (.deleteNode n)).outNodesIter n = none ∧
    (((Graph.empty d).run ops).step (.deleteNode n)).inEdgesIter n = none := by
  obtain ⟨g', h', _, hd⟩ := G.deleteNode_spec (consistent_inv d ops) hn
  have hgone : (((Graph.empty d).run ops).step (.deleteNode n)).hasNode n = false := by
    simp only [G.step, G.apply, h', GOut.state]; rw [hd.hasNode]; simp
  have := iterators_absent_raise _ n hgone
  exact ⟨this.1, this.2.2.2.1⟩

/-- in a world in order the observer's per-node iterators never meet that case: the id of a
registered node object is a node of the graph -/
theorem observer_node_iterators_defined (w : World) (hw : WInv w) (k : Nat) (o : Obs) (hk : w.getObs k = some o)
    (a : Obj) (id : Nat) (ha : find a o.Ng = some id) :
    ∃ c, w.g.outNodesIter id = some c ∧ ∃ c', w.g.inEdgesIter id = some c' := by
  have hl := (hw.obs k o hk).n_live a id ha
  obtain ⟨r, hr⟩ := (G.hasNode_iff w.g id).mp hl
  exact ⟨Cursor.mk0 (keys r.out), by simp [G.outNodesIter, G.rowOf, hr], Cursor.mk0 (vals r.inn), by simp [G.inEdgesIter, G.rowOf, hr]⟩

/-- **observer iterators, all nodes / all edges**: in a world in order the observer's
`allNodesIterator` (which walks the *graph's* node table and looks every id up) enumerates exactly
`getAllNodes()` (which reads the observer's own `graphidToN_`), and `allEdgesIterator` exactly
`getAllEdges()` -/
theorem observer_all_iterators_enumerate (w : World) (hw : WInv w) (k : Nat) (o : Obs) (hk : w.getObs k = some o) :
    (w.allNodesIter o).drain = World.allNodeObjs o ∧ (w.allEdgesIter o).drain = World.allEdgeObjs o := by
  have hi := hw.obs k o hk
  constructor
  · rw [OCursor.drain_eq, allNodeObjs_eq hw.graph hi]; rfl
  · rw [OCursor.drain_eq, allEdgeObjs_eq hw.graph hi]; rfl

/-- … after every history -/
theorem observer_all_iterators_enumerate_inv (d : Bool) (ops : List WOpX) (k : Nat) (o : Obs)
    (hk : ((World.init d).runX ops).getObs k = some o) :
    (((World.init d).runX ops).allNodesIter o).drain = World.allNodeObjs o ∧
    (((World.init d).runX ops).allEdgesIter o).drain = World.allEdgeObjs o :=
  observer_all_iterators_enumerate _ (assoc_bijective_ext d ops) k o hk

/-- **observer iterators, per node**: for a registered object whose node is in the graph, the
iterator over outgoing neighbours (incoming, outgoing edges, incoming edges alike: `sel`/`q`)
enumerates exactly what the list query `getOutgoingNeighbors(Nref)` returns -/
theorem observer_node_iterators_enumerate (w : World) (o : Obs) (a : Obj) (id : Nat) (ha : find a o.Ng = some id)
    (sel : G → Nat → Option (Cursor Nat)) (q : G → Nat → Option (List Nat)) (edges : Bool)
    (hsel : (sel w.g id).map Cursor.drain = q w.g id) :
    (∀ c, sel w.g id = some c →
      ∃ oc, w.nodeIter o a sel edges = some (some oc) ∧ w.nodeQuery o a q edges = some oc.drain) ∧
    (sel w.g id = none → w.nodeIter o a sel edges = some none ∧ w.nodeQuery o a q edges = none) := by
  constructor
  · intro c hc
    refine ⟨{ it := c, obj := if edges then o.edgeFromGid else o.nodeFromGid }, by simp [World.nodeIter, ha, hc], ?_⟩
    rw [hc] at hsel
    simp only [Option.map_some, Cursor.drain_eq] at hsel
    simp only [World.nodeQuery, ha, ← hsel, Option.map_some, OCursor.drain_eq]
    cases edges <;> rfl
  · intro hn
    rw [hn] at hsel
    simp [World.nodeIter, World.nodeQuery, ha, hn, ← hsel]

/-- non-vacuity: ids 0,1,2 with objects 7, –, 9: the observer's iterator skips id 1 -/
example : (OCursor.mk (Cursor.mk0 [0, 1, 2]) (fun i => if i = 1 then none else some (i + 7))).drain = [7, 9] := by decide
example :
    (((World.init true).run [.createNode 0 4, .graph .createNode, .createNode 0 6]).allNodesIter
      { gN := [some 4, none, some 6], Ng := [(4, 0), (6, 2)] }).drain = [4, 6] := by decide

end Bpp.C14
