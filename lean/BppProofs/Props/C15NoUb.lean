import BppProofs.Props.C15Queries
import BppProofs.Lemmas.TreeNoUb
/-!
# C15 — no undefined behaviour in the path and MRCA queries, on any graph

`getNodePathBetweenTwoNodes` / `getEdgePathBetweenTwoNodes` check neither validity nor that the two
nodes have a common ancestor.  On a directed forest (two nodes in different components: a graph
under construction) the unrepaired code read `pathMatrix1[tmp1]` with `tmp1 == pathMatrix1.size()`
— a heap-buffer-overflow under ASan, found by the independent audit (`findings/C15.json`,
witness `corpus/C15/06-fixed-audit.txt`).  As repaired the query raises.  In the model the outcome
`.ub` stands for undefined behaviour of the C++; proved here, for **every** graph (consistent or
not) and all arguments:

* `path_no_ub` — the node path and edge path queries never have the outcome `.ub`;
* (examples at the end) on two unrelated nodes of a directed container the queries raise, with or
  without the common ancestor asked for;
* `mrca_no_ub` — `MRCA` neither (the index into the ancestor line of the first node is a rank in
  that line).

(Outcome `.fuel` — a call that does not return — remains possible on directed graphs with a father
cycle: the recorded finding `C15-nontermination-invalid`.)
-/
namespace Bpp.C15
open Bpp Bpp.Graph

/-- the node path query never runs into undefined behaviour -/
theorem nodePath_no_ub (g : G) (a b : Nat) (inc : Bool) : T.nodePath g a b inc ≠ .ub := by
  unfold T.nodePath
  split
  · simp
  · split
    · simp
    · split
      · simp only
        split <;> (try split) <;> simp
      · simp
      · simp
      · simp

/-- **path_no_ub**: on every graph, for all arguments, neither path query has the outcome `ub` -/
theorem path_no_ub (g : G) (a b : Nat) (inc : Bool) : T.nodePath g a b inc ≠ .ub ∧ T.edgePath g a b ≠ .ub := by
  refine ⟨nodePath_no_ub g a b inc, ?_⟩
  unfold T.edgePath
  have h := nodePath_no_ub g a b true
  cases hp : T.nodePath g a b true with
  | ok p =>
    simp only
    cases List.mapM (fun q : Nat × Nat => g.getAnyEdge q.1 q.2) (p.zip p.tail) <;> simp
  | exc => simp
  | fuel => simp
  | ub => exact absurd hp h

/-- **mrca_no_ub**: on every graph, for every list of nodes, `MRCA` never has the outcome `ub` -/
theorem mrca_no_ub (g : G) (l : List Nat) : T.mrca g l ≠ .ub := by
  unfold T.mrca
  split
  · simp
  · split
    · simp
    · simp
    · rename_i x rest _
      cases hc : T.climb g (g.nodes.length + 2) x [] with
      | ok line =>
        simp only
        cases hf : rest.foldl (T.mrcaStep g line (g.nodes.length + 2)) (.ok 0) with
        | ok m =>
          simp only
          have hne := T.climb_ne_nil g _ _ _ _ hc
          have hlt := T.mrcaFold_lt g line _ rest (.ok 0) m
            (by intro k hk; injection hk with hk; subst hk; exact List.length_pos_iff.mpr hne) hf
          rw [List.getElem?_eq_getElem hlt]
          simp
        | exc => simp
        | fuel => simp
        | ub =>
          -- the fold never produces `ub`: `joinRank` has no such outcome
          exfalso
          have : ∀ (r : List Nat) (acc : TRes Nat), acc ≠ .ub → r.foldl (T.mrcaStep g line (g.nodes.length + 2)) acc ≠ .ub := by
            intro r
            induction r with
            | nil => intro acc h; exact h
            | cons y r ih =>
              intro acc h
              rw [List.foldl_cons]
              apply ih
              unfold T.mrcaStep
              cases acc with
              | ok j =>
                simp only
                have hj : ∀ f n, T.joinRank g line f n ≠ .ub := by
                  intro f
                  induction f with
                  | zero => intro n; simp [T.joinRank]
                  | succ f ihf =>
                    intro n
                    simp only [T.joinRank]
                    split
                    · simp
                    · split
                      · simp
                      · simp
                      · split
                        · simp
                        · exact ihf _
                cases hq : T.joinRank g line (g.nodes.length + 2) y with
                | ok q => simp
                | exc => simp
                | fuel => simp
                | ub => exact absurd hq (hj _ _)
              | exc => simp
              | fuel => simp
              | ub => exact absurd rfl h
          exact this rest (.ok 0) (by simp) hf
      | exc => simp
      | fuel => simp
      | ub => exact absurd hc (T.climb_no_ub g _ _ _)

/-! the witness of the repaired defect: two isolated nodes in a directed container (a forest) -/

/-- two nodes, no relation -/
def forest2 : G := ((T.empty true).run [.createNode, .createNode]).g

example : T.nodePath forest2 0 1 true = .exc := by decide
example : T.nodePath forest2 0 1 false = .exc := by decide
example : T.edgePath forest2 0 1 = .exc := by decide
example : T.nodePath forest2 1 1 true = .ok [1] := by decide
example : T.mrca forest2 [0, 1] = .exc := by decide

end Bpp.C15
