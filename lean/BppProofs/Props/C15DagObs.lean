import BppProofs.Lemmas.DagObs
import BppProofs.Props.C15Dag
import BppProofs.Props.C15ObsCopy
/-!
# C15, object level — the DAG container watched by association observers
(src/Bpp/Graph/AssociationDAGraphImplObserver.h, model `BppModel/DagObs.lean`)

Proved here (helper lemmas in `Lemmas/DagObs.lean`):
* over all histories of object-level calls on the observed DAG container (node creations, links, unlinks,
  deletions, `addFather` / `addSon` with or without edge object, `removeFather` / `removeSon`,
  `removeFathers` / `removeSons`, `rootAt`, `isValid`, `isRooted`, observer copy / `clone()` / `operator=`;
  each call succeeding or raising) **the association invariant holds and the graph stays directed** (`dw_inv`)
  and **both cached flags are sound** (`dw_cache_sound`);
* **the edge object given to `addFather` / `addSon` is the one of the new relation**
  (`dag_addFather_keeps_object`, `dag_addSon_keeps_object`);
* **re-rooting changes no association** (`dag_rootAt_keeps_objects`), and the associations are still in order
  against the re-rooted graph, which has the same node and edge ids (`dag_rootAt_keeps_invariant`,
  `dag_rootAt_objects_live`);
* **a copy has the same relations** (`dag_obs_copy_same_relations`, and the same for `clone()` / `operator=`):
  the graph, both flags and the other observers are untouched.
-/
set_option linter.unusedVariables false
namespace Bpp.C15
open Bpp Bpp.Graph Bpp.AL Bpp.Graph.DW

/-! ## the invariants over all histories -/

/-- **the association invariant over all histories** of object-level calls on the observed DAG container: the
graph is consistent with nothing pending, every observer's maps are inverse of each other and only name live
ids, and the graph stays directed -/
theorem dw_inv (ops : List DWOp) : WInv (DW.init.run ops).w ∧ (DW.init.run ops).w.g.directed = true :=
  ⟨(run_inv ops _ (inv_init (C14.winv_init true))).winv, (run_inv ops _ (inv_init (C14.winv_init true))).dir⟩

/-- **cache soundness over all histories** of the observed DAG container: a set `isValid_` means `isDA` answers
true on the graph as it is now, a set `isRooted_` means exactly one node of the current graph is father-less
(the observer's `link` / `unlink` / `deleteNode` / `createNode` run a primitive of the graph, which resets both
flags; copying an observer does not touch the graph; `rootAt` is the container's) -/
theorem dw_cache_sound (ops : List DWOp) : DagCacheSound (DW.init.run ops).toD :=
  (run_inv ops _ (inv_init (C14.winv_init true))).sound

/-- … hence `isValid()` of the observed container answers what `isDA` answers on the current graph -/
theorem dw_isValid_is_isDA (ops : List DWOp) : (DW.init.run ops).isValid.1 = D.isDA (DW.init.run ops).w.g := by
  have h := dw_cache_sound ops
  show (DW.init.run ops).toD.isValid.1 = D.isDA (DW.init.run ops).toD.g
  unfold D.isValid
  split
  · rename_i hv; rw [h.1 hv]
  · rcases hr : D.isDA (DW.init.run ops).toD.g with b | _ | _ | _ <;> rfl

/-! ## the edge object of `addFather` / `addSon` -/

/-- **addFather keeps the edge object**: after a successful `addFather(node n, father f, edgeObject x)` through
observer `k`, `getEdgeLinking(f, n)` answers `x`, and the association invariants still hold -/
theorem dag_addFather_keeps_object (dw dw' : DW) (k : Nat) (n f x : Obj) (hw : WInv dw.w)
    (h : dw.addFather k n f (some x) = (.ok, dw')) :
    ∃ o', dw'.w.getObs k = some o' ∧ World.edgeLinking dw'.w o' f n = some (some x) ∧ WInv dw'.w := by
  have h' : dw.ofO (dw.w.link k f n (some x)) = (.ok, dw') := h
  obtain ⟨u, hl⟩ := ofO_ok h'
  obtain ⟨o, o', ia, ib, e, hk, hk', ha, hb, hNg, he, hx⟩ := TW.world_link_ok_spec hw hl
  have hinv := world_link_inv hw k f n (some x)
  rw [hl] at hinv
  refine ⟨o', hk', ?_, hinv⟩
  simp [World.edgeLinking, hNg, ha, hb, he, hx]

/-- **addSon keeps the edge object**: after a successful `addSon(node n, son s, edgeObject x)` through
observer `k`, `getEdgeLinking(n, s)` answers `x`, and the association invariants still hold -/
theorem dag_addSon_keeps_object (dw dw' : DW) (k : Nat) (n s x : Obj) (hw : WInv dw.w)
    (h : dw.addSon k n s (some x) = (.ok, dw')) :
    ∃ o', dw'.w.getObs k = some o' ∧ World.edgeLinking dw'.w o' n s = some (some x) ∧ WInv dw'.w := by
  have h' : dw.ofO (dw.w.link k n s (some x)) = (.ok, dw') := h
  obtain ⟨u, hl⟩ := ofO_ok h'
  obtain ⟨o, o', ia, ib, e, hk, hk', ha, hb, hNg, he, hx⟩ := TW.world_link_ok_spec hw hl
  have hinv := world_link_inv hw k n s (some x)
  rw [hl] at hinv
  refine ⟨o', hk', ?_, hinv⟩
  simp [World.edgeLinking, hNg, ha, hb, he, hx]

/-! ## re-rooting -/

/-- **re-rooting keeps the attached objects**: `rootAt` changes no association of any observer -/
theorem dag_rootAt_keeps_objects (dw : DW) (k : Nat) (a : Obj) (r : TW.WRes × DW) (h : dw.rootAt k a = .ok r) :
    r.2.w.obs = dw.w.obs := rootAt_obs h

/-- … and the association invariants still hold against the re-rooted graph (consistent, directed, nothing
pending, the same node ids and edge ids), whatever the cached flags said, `rootAt` succeeding or raising half way -/
theorem dag_rootAt_keeps_invariant (dw : DW) (k : Nat) (a : Obj) (r : TW.WRes × DW) (hw : WInv dw.w)
    (hd : dw.w.g.directed = true) (h : dw.rootAt k a = .ok r) : WInv r.2.w ∧ r.2.w.g.directed = true :=
  rootAt_winv hw hd h

/-- … so every object is attached to the same node or edge id as before, and that id is still in the graph -/
theorem dag_rootAt_objects_live (dw : DW) (k : Nat) (a : Obj) (r : TW.WRes × DW) (hw : WInv dw.w)
    (hd : dw.w.g.directed = true) (h : dw.rootAt k a = .ok r) (j : Nat) (o : Obs) (hj : dw.w.getObs j = some o) :
    r.2.w.getObs j = some o ∧ (∀ x e, find x o.Eg = some e → r.2.w.g.hasEdge e = true) ∧
    (∀ b id, find b o.Ng = some id → r.2.w.g.hasNode id = true) := by
  have hj' : r.2.w.getObs j = some o := by simp only [World.getObs, rootAt_obs h]; exact hj
  have hi := (rootAt_winv hw hd h).1.obs j o hj'
  exact ⟨hj', hi.e_live, hi.n_live⟩

/-! ## a copy has the same relations -/

/-- **the copy constructor**: slot `k` (an existing slot: `hk`) holds the copy of observer `j`, with the same
object↔id pairs; the graph, both cached flags and every other observer are as before -/
theorem dag_obs_copy_same_relations (dw dw' : DW) (j k : Nat) (o : Obs) (hw : WInv dw.w) (hj : dw.w.getObs j = some o)
    (hk : k < dw.w.obs.length) (h : dw.copyObs j k = (.ok, dw')) :
    dw'.w.getObs k = some (World.copyObs o) ∧ (World.copyObs o).Ng = o.Ng ∧ (World.copyObs o).Eg = o.Eg ∧
    dw'.w.g = dw.w.g ∧ dw'.valid = dw.valid ∧ dw'.rooted = dw.rooted ∧
    (∀ i, i ≠ k → dw'.w.getObs i = dw.w.getObs i) := by
  have hi := copyObs_ok hj hk h
  exact ⟨hi.slot, rfl, rfl, hi.graph, hi.valid, hi.rooted, hi.others⟩

/-- **`clone()`** -/
theorem dag_obs_clone_same_relations (dw dw' : DW) (j k : Nat) (o : Obs) (hw : WInv dw.w) (hj : dw.w.getObs j = some o)
    (hk : k < dw.w.obs.length) (h : dw.cloneObs j k = (.ok, dw')) :
    dw'.w.getObs k = some (World.copyObs o) ∧ (World.copyObs o).Ng = o.Ng ∧ (World.copyObs o).Eg = o.Eg ∧
    dw'.w.g = dw.w.g ∧ dw'.valid = dw.valid ∧ dw'.rooted = dw.rooted ∧
    (∀ i, i ≠ k → dw'.w.getObs i = dw.w.getObs i) :=
  dag_obs_copy_same_relations dw dw' j k o hw hj hk h

/-- **`operator=`** onto another observer (a successful assignment has a target, so slot `k` exists) -/
theorem dag_obs_assign_same_relations (dw dw' : DW) (j k : Nat) (o : Obs) (hw : WInv dw.w) (hj : dw.w.getObs j = some o)
    (hjk : j ≠ k) (h : dw.assignObs j k = (.ok, dw')) :
    dw'.w.getObs k = some (World.copyObs o) ∧ (World.copyObs o).Ng = o.Ng ∧ (World.copyObs o).Eg = o.Eg ∧
    dw'.w.g = dw.w.g ∧ dw'.valid = dw.valid ∧ dw'.rooted = dw.rooted ∧
    (∀ i, i ≠ k → dw'.w.getObs i = dw.w.getObs i) := by
  have hi := assignObs_ok hj hjk h
  exact ⟨hi.slot, rfl, rfl, hi.graph, hi.valid, hi.rooted, hi.others⟩

/-! ## the hypotheses are satisfiable

The DAG `10 -> 11` (edge object 100, through `addFather(11, 10, 100)`), `10 -> 12` (edge object 101, through
`addSon(10, 12, 101)`), `11 -> 12` (no edge object, through `addFather(12, 11)`), built through observer 0. -/

/-- the history of the examples -/
def exDagHist : List DWOp :=
  [.createNode 0 10, .createNode 0 11, .createNode 0 12, .addFather 0 11 10 (some 100), .addSon 0 10 12 (some 101),
   .addFather 0 12 11 none]

example : WInv (DW.init.run exDagHist).w ∧ (DW.init.run exDagHist).w.g.directed = true := dw_inv exDagHist
example : DagCacheSound (DW.init.run exDagHist).toD := dw_cache_sound exDagHist
/-- every call of the history succeeds -/
example : ((DW.init.run (exDagHist.take 3)).addFather 0 11 10 (some 100)).1 = .ok ∧
    ((DW.init.run (exDagHist.take 4)).addSon 0 10 12 (some 101)).1 = .ok ∧
    ((DW.init.run (exDagHist.take 5)).addFather 0 12 11 none).1 = .ok := by decide
/-- the edge objects are the ones of the new relations; the relation added without object carries none -/
example : ((DW.init.run exDagHist).w.getObs 0).map (fun o =>
    (World.edgeLinking (DW.init.run exDagHist).w o 10 11, World.edgeLinking (DW.init.run exDagHist).w o 10 12,
     World.edgeLinking (DW.init.run exDagHist).w o 11 12)) = some (some (some 100), some (some 101), some none) := by decide
/-- the object-level DAG queries: 12 has the fathers 10 and 11; the edge object 100 runs from 10 to 11 -/
example : ((DW.init.run exDagHist).w.getObs 0).map (fun o =>
    ((DW.init.run exDagHist).fathersObj o 12, (DW.init.run exDagHist).fatherOfEdge o 100, (DW.init.run exDagHist).sonOfEdge o 100)) =
      some (some [10, 11], some (some 10), some (some 11)) := by decide
/-- `isValid()` answers true, and the flag is set afterwards; `isRooted()` too -/
example : (DW.init.run exDagHist).isValid.1 = .ok true ∧ (DW.init.run (exDagHist ++ [.isValid])).valid = true ∧
    (DW.init.run (exDagHist ++ [.isValid])).isRooted.1 = true ∧
    (DW.init.run (exDagHist ++ [.isValid, .isRooted])).rooted = true := by decide
/-- `rootAt(12)` succeeds on this valid rooted DAG; the associations are as before, 12 is the root and the only
father-less node, and the edge object 100 now runs from 11 to 10 -/
example : (match (DW.init.run (exDagHist ++ [.isValid])).rootAt 0 12 with
    | .ok r => r.1 == .ok && (r.2.w.obs == (DW.init.run exDagHist).w.obs) && ((r.2.w.getObs 0).bind (fun o => o.nodeFromGid r.2.w.g.root) == some 12) &&
        D.nbFatherless r.2.w.g == 1 && (D.isDA r.2.w.g == .ok true) &&
        ((r.2.w.getObs 0).map (fun o => (r.2.fatherOfEdge o 100, r.2.sonOfEdge o 100)) == some (some (some 11), some (some 10)))
    | _ => false) = true := by decide
/-- the same as a step of a history; `isValid()` answers true afterwards -/
example : (DW.init.run (exDagHist ++ [.isValid, .rootAt 0 12])).isValid.1 = .ok true ∧
    (DW.init.run (exDagHist ++ [.isValid, .rootAt 0 12])).w.obs = (DW.init.run exDagHist).w.obs := by decide
/-- a copy of observer 0 into slot 1 has the same object↔id pairs and leaves both flags alone -/
example : ((DW.init.run (exDagHist ++ [.isValid])).copyObs 0 1).1 = .ok ∧
    ((DW.init.run (exDagHist ++ [.isValid, .copy 0 1])).w.getObs 1).map (fun c => (c.Ng, c.Eg)) =
      some ([(10, 0), (11, 1), (12, 2)], [(100, 0), (101, 1)]) ∧
    (DW.init.run (exDagHist ++ [.isValid, .copy 0 1])).valid = true := by decide
/-- `removeFathers(12)` returns the objects 10, 11 and resets the validity flag -/
example : ((DW.init.run (exDagHist ++ [.isValid])).removeAll 0 12 true).1 = some [10, 11] ∧
    ((DW.init.run (exDagHist ++ [.isValid])).removeAll 0 12 true).2.2.valid = false := by decide

end Bpp.C15
