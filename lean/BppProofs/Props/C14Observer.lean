import BppProofs.Lemmas.ObserverWorld
import BppProofs.Props.C14
/-!
# C14, association layer (src/Bpp/Graph/AssociationGraphImplObserver.h)

`OInv g o` (Lemmas/Observer.lean): in observer `o` of graph `g` the four (slot vector, map)
pairs — graph id ↔ node object, graph id ↔ edge object, index ↔ node object, index ↔ edge
object — are inverse of each other (so every object has at most one id and one index, and
back), and every associated id is live in the graph.
-/
namespace Bpp.C14
open Bpp Bpp.Graph Bpp.AL

/-- the predicate the driver evaluates on every observer state reported by the implementation -/
theorem obs_check_is_invariant (g : G) (o : Obs) : o.check g = none ↔ OInv g o := Obs.check_iff g o

theorem assoc_empty (g : G) : OInv g {} :=
  ⟨Inverse.empty, Inverse.empty, Inverse.empty, Inverse.empty, by simp [find], by simp [find]⟩

/-- **assoc_bijective**, observer-local operations: association, dissociation, explicit and
allocated indices, `setEdgeLinking` — when they succeed the maps stay inverse of each other;
when they raise the observer is unchanged (they return no new state) -/
theorem assoc_bijective_local (g : G) (o : Obs) (hi : OInv g o) :
    (∀ a id o', World.associateNode g o a id = .ok o' → OInv g o') ∧
    (∀ x e o', World.associateEdge g o x e = .ok o' → OInv g o') ∧
    (∀ a o', World.dissociateNodeO o a = .ok o' → OInv g o') ∧
    (∀ x o', World.dissociateEdgeO o x = .ok o' → OInv g o') ∧
    (∀ a i o', World.setNodeIndexO o a i = .ok o' → OInv g o') ∧
    (∀ x i o', World.setEdgeIndexO o x i = .ok o' → OInv g o') ∧
    (∀ a i o', World.addNodeIndexO o a = .ok (i, o') → OInv g o' ∧ find a o'.Ni = some i ∧ Vec.get o.iN i = none) ∧
    (∀ x i o', World.addEdgeIndexO o x = .ok (i, o') → OInv g o' ∧ find x o'.Ei = some i ∧ Vec.get o.iE i = none) ∧
    (∀ a b x o', World.setEdgeLinkingO g o a b x = .ok o' → OInv g o') :=
  ⟨fun _ _ _ h => associateNode_inv hi h, fun _ _ _ h => associateEdge_inv hi h,
   fun _ _ h => dissociateNode_inv hi h, fun _ _ h => dissociateEdge_inv hi h,
   fun _ _ _ h => setNodeIndex_inv hi h, fun _ _ _ h => setEdgeIndex_inv hi h,
   fun _ _ _ h => addNodeIndex_inv hi h, fun _ _ _ h => addEdgeIndex_inv hi h,
   fun _ _ _ _ h => setEdgeLinking_inv hi h⟩

/-- an allocated index is the first free one -/
theorem addNodeIndex_first_free (o o' : Obs) (a i : Nat) (h : World.addNodeIndexO o a = .ok (i, o')) :
    Vec.get o.iN i = none ∧ ∀ j, j < i → (Vec.get o.iN j).isSome = true := by
  unfold World.addNodeIndexO at h
  split at h; · cases h
  injection h with h; injection h with h1 _; subst h1
  exact ⟨(Vec.firstFree_spec o.iN).2.1, (Vec.firstFree_spec o.iN).2.2⟩

/-- **assoc_bijective**, notifications: when the graph loses edge `e` (resp. node `n`) and tells
the observer, the maps stay inverse of each other and every associated id is live in the new graph -/
theorem assoc_bijective_notified (g g' : G) (o : Obs) (hi : OInv g o) :
    (∀ e, (∀ n, g.hasNode n = true → g'.hasNode n = true) →
          (∀ e', e' ≠ e → g.hasEdge e' = true → g'.hasEdge e' = true) → OInv g' (o.deletedEdge e)) ∧
    (∀ n, (∀ n', n' ≠ n → g.hasNode n' = true → g'.hasNode n' = true) →
          (∀ e, g.hasEdge e = true → g'.hasEdge e = true) → OInv g' (o.deletedNode n)) :=
  ⟨fun _ hn he => deletedEdge_inv hi hn he, fun _ hn he => deletedNode_inv hi hn he⟩

/-- **deleted_forgotten**: the object of a deleted node (edge) is afterwards in none of the four
node (edge) maps: not a key of object→id nor object→index, in no slot of id→object nor index→object -/
theorem deleted_forgotten (g : G) (o : Obs) (hi : OInv g o) :
    (∀ n a, Vec.get o.gN n = some a →
      Forgotten (o.deletedNode n).gN (o.deletedNode n).Ng a ∧ Forgotten (o.deletedNode n).iN (o.deletedNode n).Ni a) ∧
    (∀ e x, Vec.get o.gE e = some x →
      Forgotten (o.deletedEdge e).gE (o.deletedEdge e).Eg x ∧ Forgotten (o.deletedEdge e).iE (o.deletedEdge e).Ei x) :=
  ⟨fun _ _ h => deletedNode_forgets hi h, fun _ _ h => deletedEdge_forgets hi h⟩

/-- unfolding of `World.edgeEnds` (true by definition; the substantive statements — totality, live
end points, agreement with the graph, the objects returned are *the* objects of those nodes — are
`endpoints_reported` / `linking_edge_reported` in `Props/C14Report.lean`): `getNodes(edgeObject)` are the objects of the top and bottom of the
associated edge, and `getEdgeLinking(A,B)` is the object of the graph's edge between the ids of A and B -/
theorem edgeEnds_unfold (w : World) (o : Obs) (x : Obj) (e : Nat) (hx : find x o.Eg = some e) :
    World.edgeEnds w o x = (w.g.getNodes e).map (fun p => (o.nodeFromGid p.1, o.nodeFromGid p.2)) := by
  simp [World.edgeEnds, hx]

theorem edgeLinking_unfold (w : World) (o : Obs) (a b : Obj) (ia ib : Nat)
    (ha : find a o.Ng = some ia) (hb : find b o.Ng = some ib) :
    World.edgeLinking w o a b = (w.g.getEdge ia ib).map o.edgeFromGid := by
  simp [World.edgeLinking, ha, hb]

/-! ## Over all histories of a graph and its observers -/

theorem winv_init (d : Bool) : WInv (World.init d) := by
  refine ⟨consistent_empty d, rfl, ?_⟩
  intro k o hk
  simp only [World.init, World.getObs] at hk
  match k, hk with
  | 0, hk => simp at hk; subst hk; exact assoc_empty _
  | 1, hk => simp at hk
  | 2, hk => simp at hk
  | k + 3, hk => simp at hk

theorem all_world {α : Type} {w : World} {r : OOut α} (hw : WInv w) (h : r.All WInv) : WInv (r.world w) := by
  cases r <;> first | exact h | exact hw

theorem winv_step (w : World) (hw : WInv w) (op : WOp) : WInv (w.step op) := by
  cases op with
  | graph op => exact world_graphOp_inv hw op
  | createNode k a => exact all_world hw (world_createNode_inv hw k a)
  | createNodeFrom k o a x => exact all_world hw (world_createNodeFrom_inv hw k o a x)
  | link k a b x => exact all_world hw (world_link_inv hw k a b x)
  | unlink k a b => exact all_world hw (world_unlink_inv hw k a b)
  | deleteNode k a => exact all_world hw (world_deleteNode_inv hw k a)
  | associateNode k a id => exact all_world hw (localOp_inv hw k _ (fun o o' hi h => associateNode_inv hi h))
  | associateEdge k x e => exact all_world hw (localOp_inv hw k _ (fun o o' hi h => associateEdge_inv hi h))
  | dissociateNode k a => exact all_world hw (localOp_inv hw k _ (fun o o' hi h => dissociateNode_inv hi h))
  | dissociateEdge k x => exact all_world hw (localOp_inv hw k _ (fun o o' hi h => dissociateEdge_inv hi h))
  | setNodeIndex k a i => exact all_world hw (localOp_inv hw k _ (fun o o' hi h => setNodeIndex_inv hi h))
  | addNodeIndex k a =>
    refine all_world hw (localOp_inv hw k _ ?_)
    intro o o' hi h
    rcases hr : World.addNodeIndexO o a with kd | ⟨i, o2⟩ <;> rw [hr] at h
    · cases h
    · injection h with h; subst h; exact (addNodeIndex_inv hi hr).1
  | setEdgeIndex k x i => exact all_world hw (localOp_inv hw k _ (fun o o' hi h => setEdgeIndex_inv hi h))
  | addEdgeIndex k x =>
    refine all_world hw (localOp_inv hw k _ ?_)
    intro o o' hi h
    rcases hr : World.addEdgeIndexO o x with kd | ⟨i, o2⟩ <;> rw [hr] at h
    · cases h
    · injection h with h; subst h; exact (addEdgeIndex_inv hi hr).1
  | setEdgeLinking k a b x => exact all_world hw (localOp_inv hw k _ (fun o o' hi h => setEdgeLinking_inv hi h))
  | copy j k => exact all_world hw (world_copy_inv hw j k)
  | drop k =>
    simp only [World.step]
    split
    · exact hw
    · exact world_drop_inv hw k

/-- **assoc_bijective**, over all histories: after any sequence of operations on a graph and up to
three observers of it (creations, links, unlinks, deletions through any observer or directly on the
shared graph, direction changes, associations, explicit and allocated indices, observer copies and
destructions — each call succeeding or raising), the graph is consistent and in every observer the
object↔id and object↔index maps are inverse of each other with every associated id live in the graph -/
theorem assoc_bijective (d : Bool) (ops : List WOp) : WInv ((World.init d).run ops) := by
  suffices h : ∀ w, WInv w → WInv (w.run ops) from h _ (winv_init d)
  induction ops with
  | nil => intro w hw; exact hw
  | cons op r ih => intro w hw; exact ih _ (winv_step w hw op)

/-- … in particular no object is associated to a node or edge that has been deleted, whoever
deleted it (**deleted_forgotten**, every map of every observer) -/
theorem no_dead_association (d : Bool) (ops : List WOp) (k : Nat) (o : Obs)
    (hk : ((World.init d).run ops).getObs k = some o) :
    (∀ a id, find a o.Ng = some id → ((World.init d).run ops).g.hasNode id = true) ∧
    (∀ x e, find x o.Eg = some e → ((World.init d).run ops).g.hasEdge e = true) ∧
    (∀ id a, Vec.get o.gN id = some a → ((World.init d).run ops).g.hasNode id = true) ∧
    (∀ e x, Vec.get o.gE e = some x → ((World.init d).run ops).g.hasEdge e = true) := by
  have hi := (assoc_bijective d ops).obs k o hk
  exact ⟨hi.n_live, hi.e_live, fun id a h => hi.n_live a id (hi.nodes.fwd id a h), fun e x h => hi.e_live x e (hi.edges.fwd e x h)⟩

/-- **copy_independent_same_relations** (the relations part): a copy holds the same object↔id pairs
and the same index for every registered object, and is in order against the shared graph -/
theorem copy_same_relations (g : G) (o : Obs) (hi : OInv g o) :
    OInv g (World.copyObs o) ∧ (World.copyObs o).Ng = o.Ng ∧ (World.copyObs o).Eg = o.Eg ∧
    (∀ a, find a (World.copyObs o).Ni = if (find a o.Ng).isSome then find a o.Ni else none) ∧
    (∀ x, find x (World.copyObs o).Ei = if (find x o.Eg).isSome then find x o.Ei else none) :=
  ⟨copyObs_inv hi, rfl, rfl, fun a => find_restrict o.Ng o.Ni hi.nodes.asc a, fun x => find_restrict o.Eg o.Ei hi.edges.asc x⟩

end Bpp.C14
