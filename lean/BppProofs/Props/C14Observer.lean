import BppProofs.Lemmas.Observer
/-!
# C14, association layer (src/Bpp/Graph/AssociationGraphImplObserver.h)

`OInv g o` (Lemmas/Observer.lean): in observer `o` of graph `g` the four (slot vector, map)
pairs — graph id ↔ node object, graph id ↔ edge object, index ↔ node object, index ↔ edge
object — are inverse of each other (so every object has at most one id and one index, and
back), and every associated id is live in the graph.
-/
namespace Bpp.C14
open Bpp Bpp.Graph Bpp.AL

/-- the predicate the driver evaluates on every observer state reported by the implementation -/
theorem obs_check_is_invariant (g : G) (o : Obs) : o.check g = none ↔ OInv g o := Obs.check_iff g o

theorem assoc_empty (g : G) : OInv g {} :=
  ⟨Inverse.empty, Inverse.empty, Inverse.empty, Inverse.empty, by simp [find], by simp [find]⟩

/-- **assoc_bijective**, observer-local operations: association, dissociation, explicit and
allocated indices, `setEdgeLinking` — when they succeed the maps stay inverse of each other;
when they raise the observer is unchanged (they return no new state) -/
theorem assoc_bijective_local (g : G) (o : Obs) (hi : OInv g o) :
    (∀ a id o', World.associateNode g o a id = .ok o' → OInv g o') ∧
    (∀ x e o', World.associateEdge g o x e = .ok o' → OInv g o') ∧
    (∀ a o', World.dissociateNodeO o a = .ok o' → OInv g o') ∧
    (∀ x o', World.dissociateEdgeO o x = .ok o' → OInv g o') ∧
    (∀ a i o', World.setNodeIndexO o a i = .ok o' → OInv g o') ∧
    (∀ x i o', World.setEdgeIndexO o x i = .ok o' → OInv g o') ∧
    (∀ a i o', World.addNodeIndexO o a = .ok (i, o') → OInv g o' ∧ find a o'.Ni = some i ∧ Vec.get o.iN i = none) ∧
    (∀ x i o', World.addEdgeIndexO o x = .ok (i, o') → OInv g o' ∧ find x o'.Ei = some i ∧ Vec.get o.iE i = none) ∧
    (∀ a b x o', World.setEdgeLinkingO g o a b x = .ok o' → OInv g o') :=
  ⟨fun _ _ _ h => associateNode_inv hi h, fun _ _ _ h => associateEdge_inv hi h,
   fun _ _ h => dissociateNode_inv hi h, fun _ _ h => dissociateEdge_inv hi h,
   fun _ _ _ h => setNodeIndex_inv hi h, fun _ _ _ h => setEdgeIndex_inv hi h,
   fun _ _ _ h => addNodeIndex_inv hi h, fun _ _ _ h => addEdgeIndex_inv hi h,
   fun _ _ _ _ h => setEdgeLinking_inv hi h⟩

/-- an allocated index is the first free one -/
theorem addNodeIndex_first_free (o o' : Obs) (a i : Nat) (h : World.addNodeIndexO o a = .ok (i, o')) :
    Vec.get o.iN i = none ∧ ∀ j, j < i → (Vec.get o.iN j).isSome = true := by
  unfold World.addNodeIndexO at h
  split at h; · cases h
  injection h with h; injection h with h1 _; subst h1
  exact ⟨(Vec.firstFree_spec o.iN).2.1, (Vec.firstFree_spec o.iN).2.2⟩

/-- **assoc_bijective**, notifications: when the graph loses edge `e` (resp. node `n`) and tells
the observer, the maps stay inverse of each other and every associated id is live in the new graph -/
theorem assoc_bijective_notified (g g' : G) (o : Obs) (hi : OInv g o) :
    (∀ e, (∀ n, g.hasNode n = true → g'.hasNode n = true) →
          (∀ e', e' ≠ e → g.hasEdge e' = true → g'.hasEdge e' = true) → OInv g' (o.deletedEdge e)) ∧
    (∀ n, (∀ n', n' ≠ n → g.hasNode n' = true → g'.hasNode n' = true) →
          (∀ e, g.hasEdge e = true → g'.hasEdge e = true) → OInv g' (o.deletedNode n)) :=
  ⟨fun _ hn he => deletedEdge_inv hi hn he, fun _ hn he => deletedNode_inv hi hn he⟩

/-- **deleted_forgotten**: the object of a deleted node (edge) is afterwards in none of the four
node (edge) maps: not a key of object→id nor object→index, in no slot of id→object nor index→object -/
theorem deleted_forgotten (g : G) (o : Obs) (hi : OInv g o) :
    (∀ n a, Vec.get o.gN n = some a →
      Forgotten (o.deletedNode n).gN (o.deletedNode n).Ng a ∧ Forgotten (o.deletedNode n).iN (o.deletedNode n).Ni a) ∧
    (∀ e x, Vec.get o.gE e = some x →
      Forgotten (o.deletedEdge e).gE (o.deletedEdge e).Eg x ∧ Forgotten (o.deletedEdge e).iE (o.deletedEdge e).Ei x) :=
  ⟨fun _ _ h => deletedNode_forgets hi h, fun _ _ h => deletedEdge_forgets hi h⟩

/-- **endpoints_reported**: `getNodes(edgeObject)` are the objects of the top and bottom of the
associated edge, and `getEdgeLinking(A,B)` is the object of the graph's edge between the ids of A and B -/
theorem endpoints_reported (w : World) (o : Obs) (x : Obj) (e : Nat) (hx : find x o.Eg = some e) :
    World.edgeEnds w o x = (w.g.getNodes e).map (fun p => (o.nodeFromGid p.1, o.nodeFromGid p.2)) := by
  simp [World.edgeEnds, hx]

theorem linking_edge_reported (w : World) (o : Obs) (a b : Obj) (ia ib : Nat)
    (ha : find a o.Ng = some ia) (hb : find b o.Ng = some ib) :
    World.edgeLinking w o a b = (w.g.getEdge ia ib).map o.edgeFromGid := by
  simp [World.edgeLinking, ha, hb]

end Bpp.C14
