import BppProofs.Lemmas.TableU
/-!
C16 for the delimited-table reader DataTable::read (src/Bpp/Numeric/DataTable.cpp:554-627; model
`BppModel/Text/TableU.lean`) with FileTools::getNextLine over an `istringstream`: reading any text
ends in the dimensions of the table or in the library's exception — no dereference of `begin()` of
an empty token list, no cell index out of a row, no hang of the line loops — and the dimensions
are bounded by the input.  The last section has the input on which the code as found violated
this.
-/
namespace Bpp.C16
open Bpp.Text Bpp.Text.U

/-! ## FileTools::getNextLine -/

/-- `getNextLine` returns within the fuel `rest.length + 2` of the model (each `getline` consumes
at least the newline character or sets `eofbit`); the line is a piece of what was left; when the
line is not blank the stream advanced: fewer characters are left, or `eofbit` got set -/
theorem getNextLine_returns (st : Stream) :
    ∃ l st', getNextLine st = .ok (l, st') ∧ st'.rest.length ≤ st.rest.length ∧
      l.length ≤ st.rest.length ∧
      (isEmptyStr l = false →
        st'.rest.length < st.rest.length ∨ (st'.eof = true ∧ st.eof = false)) := by
  obtain ⟨l, st', e, h1, h2, _, _, h5, _⟩ := getNextLine_spec st
  refine ⟨l, st', e, h1, h2, fun hb => ?_⟩
  have hlt := h5 hb
  have e1 : st.mu = st.rest.length + (if st.eof then 0 else 1) := rfl
  have e2 : st'.mu = st'.rest.length + (if st'.eof then 0 else 1) := rfl
  cases h : st.eof <;> cases h' : st'.eof <;> rw [h] at e1 <;> rw [h'] at e2 <;>
    simp at e1 e2 ⊢ <;> omega

/-- the same with the measure `mu = rest.length + (if eof then 0 else 1)` the line loop of
`DataTable::read` is bounded by: it never increases, and strictly decreases whenever `eofbit` was
not yet set or the line returned is not blank; a blank line is only returned with `eofbit` set -/
theorem getNextLine_progress (st : Stream) :
    ∃ l st', getNextLine st = .ok (l, st') ∧ st'.mu ≤ st.mu ∧
      (st.eof = false ∨ isEmptyStr l = false → st'.mu < st.mu) ∧
      (isEmptyStr l = true → st'.eof = true) := by
  obtain ⟨l, st', e, _, _, h3, h4, h5, h6, _⟩ := getNextLine_spec st
  exact ⟨l, st', e, h3, fun h => h.elim h4 h5, h6⟩

example : getNextLine ⟨"\n  \nab\ncd".toList, false⟩ = .ok ("ab".toList, ⟨"cd".toList, false⟩) := by rfl
example : getNextLine ⟨"cd".toList, false⟩ = .ok ("cd".toList, ⟨[], true⟩) := by rfl
example : getNextLine ⟨" \n\n".toList, false⟩ = .ok ([], ⟨[], true⟩) := by rfl
example : getNextLine ⟨[], true⟩ = .ok ([], ⟨[], true⟩) := by rfl
example : (Stream.mk "cd".toList false).mu = 3 ∧ (Stream.mk [] true).mu = 0 := ⟨rfl, rfl⟩

/-! ## DataTable::read -/

/-- reading a table returns its dimensions or throws `bpp::Exception` (duplicated names, a row of
the wrong length, a separator-only line where a row name is expected, a row-name column that does
not exist): the guarded `*begin()` / `begin() + 1` are never reached on an empty token list,
`getColumn` never leaves a row (every row has `nCol` cells), the line loop ends within the fuel
`text.length + 2` -/
theorem readTable_safe (text sep : Str) (header : Bool) (rowNames : Int) (hs : StrOk text) :
    safe (readTable text sep header rowNames) = true := by
  rcases readTable_spec text sep header rowNames hs with e | ⟨r, c, e, _⟩ <;> simp [e]

example : StrOk "a,b\nr1,1,2\nr2,3,4\n".toList := by decide
/-- header and row names (first column, one more cell than the header) -/
example : readTable "a,b\nr1,1,2\nr2,3,4\n".toList ",".toList true (-1) = .ok (2, 2) := by rfl
/-- row names taken from column 0, which is then deleted -/
example : readTable "a,b\n1,2\n3,4\n".toList ",".toList true 0 = .ok (2, 1) := by rfl
/-- no header, blank lines skipped, last line without newline -/
example : readTable "a,b\n1,2\n\n\n3,4".toList ",".toList false (-1) = .ok (3, 2) := by rfl
/-- duplicated row names in column 0 -/
example : readTable "a,b\n1,2\n1,4\n".toList ",".toList true 0 = .error .bpp := by rfl
/-- the row-name column does not exist -/
example : readTable "a,b\n1,2\n3,4\n".toList ",".toList true 2 = .error .bpp := by rfl
/-- a row with one cell too many -/
example : readTable "a,b\n1,2\n1,4,5\n".toList ",".toList true (-1) = .error .bpp := by rfl
/-- the second line has two cells more than the first: DimensionException -/
example : readTable "a\n1,2,3\n".toList ",".toList true (-1) = .error .bpp := by rfl
/-- duplicated column names -/
example : readTable "a,a\n1,2\n".toList ",".toList true (-1) = .error .bpp := by rfl

/-- the bound `r ≤ text.length + 1` on the number of rows fails on the empty text read without
header: both (empty) token lists of the two first `getNextLine` calls are added as rows of a table
with no column -/
theorem readTable_alloc_rows_counterexample :
    readTable [] ",".toList false (-1) = .ok (2, 0) ∧ ¬ (2 ≤ ([] : Str).length + 1) := ⟨rfl, by decide⟩

/-- what holds: the dimensions returned are bounded by the input, at most `size + 1` columns and
`size + 2` rows; `size + 1` rows unless the text is empty and read without header (above) -/
theorem readTable_alloc_partial (text sep : Str) (header : Bool) (rowNames : Int) (hs : StrOk text)
    (r c : Nat) (h : readTable text sep header rowNames = .ok (r, c)) :
    r ≤ text.length + 2 ∧ (header = true ∨ text ≠ [] → r ≤ text.length + 1) ∧
      c ≤ text.length + 1 := by
  rcases readTable_spec text sep header rowNames hs with e | ⟨r', c', e, h1, h2, h3⟩
  · rw [e] at h; cases h
  · rw [e] at h; cases h; exact ⟨h1, h2, h3⟩

/-- the bound as first stated, for a text that is not empty -/
theorem readTable_alloc_nonempty (text sep : Str) (header : Bool) (rowNames : Int) (hs : StrOk text)
    (hne : text ≠ []) (r c : Nat) (h : readTable text sep header rowNames = .ok (r, c)) :
    r ≤ text.length + 1 ∧ c ≤ text.length + 1 :=
  have ⟨_, h2, h3⟩ := readTable_alloc_partial text sep header rowNames hs r c h
  ⟨h2 (.inr hne), h3⟩

example : readTable "\n".toList ",".toList false (-1) = .ok (2, 0) := by rfl
example : readTable "a\nb\nc".toList ",".toList false (-1) = .ok (3, 1) := by rfl

/-! ## the code as found -/

/-- a line of separators only where a row name is expected: the token list is empty and
`*st.begin()` (DataTable.cpp:601) is dereferenced -/
theorem readTable_old_ub : readTableOld "a,b\nr1,1,2\n,,\n".toList ",".toList true (-1) = .error .ub := by rfl

/-- after the repair the same text raises the library's exception -/
example : readTable "a,b\nr1,1,2\n,,\n".toList ",".toList true (-1) = .error .bpp := by rfl

end Bpp.C16
