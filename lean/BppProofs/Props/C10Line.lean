import BppProofs.Lemmas.OptimLineOpt
/-!
# C10, part 10 — searching along a direction, and the optimisers built on it, in full

`DirectionFunction`, `OneDimensionOptimizationTools::lineMinimization` (Brent's method along a
direction) and `lineSearch` (Newton backtracking along a direction), `PowellMultiDimensions`,
`ConjugateGradientMultiDimensions`, `BfgsMultiDimensions` — model in `BppModel/OptimLine.lean` — on the
objective of the harness: any objective `obj : List ℝ → ℝ`, any derivatives `D` (they are *not* assumed
to be the derivatives of `obj`), any dimension, any subset of the function's parameters in any order, any
constraints (interval or none), the three constraint policies, any tolerance / cap / number of steps.
Over `ℝ`.

Hypotheses on the list given to `init` (what `ParameterList` and the harness guarantee): precision 0
and feasible values (`Good`), distinct names that are parameters of the function.
-/
namespace Bpp.C10
open Bpp Bpp.Optim

/-- **line_minimization_descent**.  `lineMinimization` (Brent's method on a `DirectionFunction`, from
the initial interval `[0, 0.01]`) returns the caller's parameters up to feasible values, leaves the
function at them, and the objective there is not above the objective at the parameters the search
started from: the `DirectionFunction` computes a function of the abscissa only (`dirfn_det`), Brent's
method never loses its initial guess (the abscissa 0, where that function is the objective at the
caller's parameters), and the caller's parameters end where the `DirectionFunction`'s auto-correcting
copies were for the abscissa found (`moveAlong_spec`). -/
theorem line_minimization_descent (obj : List ℝ → ℝ) (D : Deriv ℝ) (cap : Option Nat) (fuel : Nat) (fn fn' : Fn ℝ)
    (parameters pl : PList ℝ) (xi xi' : List ℝ) (k : Nat) (hg : Good parameters)
    (h : lineMinimization (Fn.iface obj D cap) fuel fn parameters xi = .ok (fn', pl, xi', k)) :
    Like parameters pl ∧ fn'.point = matchPoint fn.point pl ∧
    Spec.descent (obj fn'.point) (obj (matchPoint fn.point parameters)) = true := by
  obtain ⟨a, b, c⟩ := lineMinimization_spec obj D cap fuel fn fn' parameters pl xi xi' k hg h
  exact ⟨a, b, by simp only [Spec.descent, ScalarReal.leb_iff]; exact c⟩

/-- **line_search_state**.  `lineSearch` (Newton backtracking on a `DirectionFunction`) returns the
caller's parameters up to feasible values and leaves the function at them.  It makes no promise about
the value (it may end on its last trial, and for a positive slope its acceptance test accepts an
increase): `BfgsMultiDimensions::doStep` compares the value itself. -/
theorem line_search_state (obj : List ℝ → ℝ) (D : Deriv ℝ) (cap : Option Nat) (fuel : Nat) (fn fn' : Fn ℝ)
    (parameters pl : PList ℝ) (xi gradient xi' : List ℝ) (k : Nat) (hg : Good parameters)
    (h : lineSearch (Fn.iface obj D cap) fuel fn parameters xi gradient = .ok (fn', pl, xi', k)) :
    Like parameters pl ∧ fn'.point = matchPoint fn.point pl :=
  lineSearch_spec obj D cap fuel fn fn' parameters pl xi gradient xi' k hg h

/-- **line_search_descent** (conditional).  When the slope `xi · gradient` handed to the Newton
backtracking search is `≤ 0` and the search ends with its tolerance flag set (a trial was accepted, or it
gave up and went back to the step length 0), `lineSearch` leaves the function at a point where the
objective is not above the objective at the parameters the search started from.  Neither hypothesis can
be dropped: stopped by its cap of 10000 steps the search reports its last, rejected, trial; for a
positive slope the acceptance test `f ≤ fold + 1e-4 λ slope` accepts an increase (`BfgsExample`). -/
theorem line_search_descent (obj : List ℝ → ℝ) (D : Deriv ℝ) (cap : Option Nat) (fuel : Nat) (fn fn' : Fn ℝ)
    (parameters pl : PList ℝ) (xi gradient xi' : List ℝ) (k : Nat) (hg : Good parameters)
    (hslope : dotFrom (0 : ℝ) xi gradient ≤ 0)
    (h : lineSearch (Fn.iface obj D cap) fuel fn parameters xi gradient = .ok (fn', pl, xi', k))
    (htol : ∀ nb nb2 v,
      (nbackAlgo (DirFn.iface (Fn.iface obj D cap))).init
        (lineNBack (DirFn.init fn .auto parameters xi) (dotFrom Scalar.zero xi gradient) (lsTest Scalar.zero parameters xi)) xParam = .ok nb →
      (nbackAlgo (DirFn.iface (Fn.iface obj D cap))).optimize fuel nb = .ok (nb2, v) → nb2.core.tol = true) :
    Spec.descent (obj fn'.point) (obj (matchPoint fn.point parameters)) = true := by
  simp only [Spec.descent, ScalarReal.leb_iff]
  exact lineSearch_descent obj D cap fuel fn fn' parameters pl xi gradient xi' k hg hslope h htol

/-- **powell_step_descent**.  A `PowellMultiDimensions::doStep` from a state that satisfies the
invariant of a run returns `fret_`, which it has not increased: every line minimisation and the
evaluation that follows it end no higher than they began, so the `throw` "line minimization failed"
plays no role. -/
theorem powell_step_descent (obj : List ℝ → ℝ) (D : Deriv ℝ) (cap : Option Nat) (fuel : Nat) (B : ℝ) (pt0 : List ℝ)
    (ns : List Nat) (s s' : St (Fn ℝ) (Powell ℝ) ℝ) (v : ℝ) (hi : Powell.Inv obj B pt0 ns s)
    (h : powellDoStep (Fn.iface obj D cap) fuel s = .ok (s', v)) :
    Spec.descent v s.ext.fret = true ∧ s'.ext.fret = v ∧ Powell.Base obj pt0 ns s' := by
  obtain ⟨a, b, c⟩ := powellDoStep_spec obj D cap pt0 ns fuel s s' v hi.base h
  exact ⟨by simp only [Spec.descent, ScalarReal.leb_iff]; exact c, b.symm, a⟩

/-- **powell_step_consistent** (the repaired `doStep`).  After *every* step the function is at the
optimiser's parameters and the value the step returns is the objective there — so
`getFunction()->getValue()` after a `step()`, which is what a `MetaOptimizer` holding a Powell optimiser in
step mode returns, is the objective at the reported parameters.  (Before the repair the branch
"extrapolated point better, direction set kept" left the function at the extrapolated point.) -/
theorem powell_step_consistent (obj : List ℝ → ℝ) (D : Deriv ℝ) (cap : Option Nat) (fuel : Nat) (B : ℝ) (pt0 : List ℝ)
    (ns : List Nat) (s s' : St (Fn ℝ) (Powell ℝ) ℝ) (v : ℝ) (hi : Powell.Inv obj B pt0 ns s)
    (h : powellDoStep (Fn.iface obj D cap) fuel s = .ok (s', v)) :
    s'.fn.point = matchPoint pt0 s'.core.params ∧ Spec.consistent obj v s'.fn.point = true ∧
    (Fn.iface obj D cap).value s'.fn = v := by
  obtain ⟨a, b, -⟩ := powellDoStep_spec obj D cap pt0 ns fuel s s' v hi.base h
  have hat := powellDoStep_at obj D cap pt0 ns fuel s s' v hi.base h
  have hv : v = obj s'.fn.point := by rw [b, a.fret, hat]
  exact ⟨hat, by simp only [Spec.consistent, ScalarReal.eqb_iff]; exact hv, hv.symm⟩

/-- **powell_descent** (with `reported_value_consistent` and `state_at_report`).  After `init` and
`optimize`:
* the value returned is not above the objective at the starting point (the function's point with the
  values of `init`'s list written into it);
* it is the objective at the point the function has been left at (`optimize` ends on an evaluation at
  the optimiser's parameters), that point holds the values the optimiser reports, and it is the
  optimiser's current value. -/
theorem powell_descent (obj : List ℝ → ℝ) (D : Deriv ℝ) (cap : Option Nat) (fuel fuel' : Nat)
    (s s1 s2 : St (Fn ℝ) (Powell ℝ) ℝ) (params : PList ℝ) (v : ℝ)
    (hgood : Good params) (hnd : (names params).Nodup) (hlt : ∀ n ∈ names params, n < s.fn.point.length)
    (hinit : (powellAlgo (Fn.iface obj D cap) fuel).init s params = .ok s1)
    (hopt : powellOptimize (Fn.iface obj D cap) fuel' s1 = .ok (s2, v)) :
    Spec.descent v (obj (matchPoint s.fn.point params)) = true ∧
    Spec.consistent obj v s2.fn.point = true ∧
    Spec.stateAt s2.fn.point (names s2.core.params) (values s2.core.params) = true ∧
    s2.core.cur = v := by
  have hi := powell_init_spec obj D cap fuel s s1 params hgood hinit
  obtain ⟨a, b, c, d, e, -⟩ := powellOptimize_spec obj D cap _ _ _ fuel' s1 s2 v hi hopt
  refine ⟨?_, ?_, ?_, d⟩
  · simp only [Spec.descent, ScalarReal.leb_iff]; exact a
  · simp only [Spec.consistent, ScalarReal.eqb_iff]; exact b
  · exact (sync_of_matchPoint s2.fn s.fn.point s2.core.params c (by rw [e]; exact hnd)
      (fun q hq => hlt _ (by rw [← e]; exact mem_names hq))).stateAt

/-- **cg_descent** (with `reported_value_consistent` and `state_at_report`): the same for
`ConjugateGradientMultiDimensions` — `doInit` sets the function to the list given to `init`, every step
is a line minimisation followed by an evaluation at the parameters it returns. -/
theorem cg_descent (obj : List ℝ → ℝ) (D : Deriv ℝ) (cap : Option Nat) (fuel fuel' : Nat)
    (s s1 s2 : St (Fn ℝ) (Cg ℝ) ℝ) (params : PList ℝ) (v : ℝ)
    (hgood : Good params) (hnd : (names params).Nodup) (hlt : ∀ n ∈ names params, n < s.fn.point.length)
    (hinit : (cgAlgo (Fn.iface obj D cap) fuel).init s params = .ok s1)
    (hopt : (cgAlgo (Fn.iface obj D cap) fuel).optimize fuel' s1 = .ok (s2, v)) :
    Spec.descent v (obj (matchPoint s.fn.point params)) = true ∧
    Spec.consistent obj v s2.fn.point = true ∧
    Spec.stateAt s2.fn.point (names s2.core.params) (values s2.core.params) = true ∧
    s2.core.cur = v := by
  have hi := given_init_spec obj D cap (cgAlgo (Fn.iface obj D cap) fuel) rfl rfl s s1 params hgood ⟨hnd, hlt⟩
    (by
      intro s0 sa h
      change cgDoInit (Fn.iface obj D cap) s0 params = .ok sa at h
      unfold cgDoInit at h
      split at h
      · cases h
      · rename_i fn1 hsp
        split at h
        · cases h
        · simp only [Except.ok.injEq] at h
          subst h
          exact ⟨rfl, hsp⟩) hinit
  obtain ⟨h2, hcur⟩ := multi_optimize_spec obj (cgAlgo (Fn.iface obj D cap) fuel) rfl _ _ _
    (fun u u' w hu h => cgDoStep_spec obj D cap _ _ ⟨hnd, hlt⟩ fuel u u' w hu h) fuel' s1 s2 v hi hopt
  refine ⟨?_, ?_, ?_, hcur⟩
  · simp only [Spec.descent, ScalarReal.leb_iff]; rw [← hcur]; exact h2.below
  · simp only [Spec.consistent, ScalarReal.eqb_iff]; rw [← hcur]; exact h2.cur
  · exact h2.coord.sync.stateAt

/-- **bfgs_step_descent**.  A `BfgsMultiDimensions::doStep` (repaired) from a state in which the
optimiser's parameters are good, named `ns`, held by the function, and the current value is the objective
there: the same holds afterwards, the value returned is the objective at the point the function is left
at, and it is not above the optimiser's current value.  A trial that ends higher (possible when the
direction clipped to the bounds is not a descent direction) is given up: the step sets the parameters
back to the values it started from, evaluates there and sets the tolerance flag. -/
theorem bfgs_step_descent (obj : List ℝ → ℝ) (D : Deriv ℝ) (cap : Option Nat) (fuel : Nat) (len : Nat)
    (ns : List Nat) (hns : ns.Nodup ∧ ∀ n ∈ ns, n < len) (s s' : St (Fn ℝ) (Bfgs ℝ) ℝ) (v : ℝ)
    (hi : Coord.Inv len ns s) (hcur : s.core.cur = obj s.fn.point)
    (h : bfgsDoStep (Fn.iface obj D cap) fuel s = .ok (s', v)) :
    Coord.Inv len ns s' ∧ v = obj s'.fn.point ∧ Spec.descent v s.core.cur = true := by
  obtain ⟨a, b, c⟩ := bfgsDoStep_spec obj D cap len ns hns fuel s s' v hi hcur h
  exact ⟨a, b, by simp only [Spec.descent, ScalarReal.leb_iff]; exact c⟩

/-- **bfgs_descent** (with `reported_value_consistent` and `state_at_report`): the same as `cg_descent`
for `BfgsMultiDimensions` — `doInit` sets the function to the list given to `init`, every step is a line
search followed by an evaluation at the parameters it returns, and a step that ends above the current
value goes back to where it started (`bfgs_step_descent`).

Before the repair (findings/C10.json, corpus/C10/bfgs_increase.txt) this was false: a step that
increased the function printed "!!! Function increase !!!", set the tolerance flag and *returned the
higher value*, so the run ended on the worse point.  The direction `-H g` is clipped to the bounds by
`setDirection` — for a parameter within `TINY` of a bound the component is replaced by `bound - p`,
whatever its sign —, which can turn a descent direction into an ascent direction (slope `xi · g > 0`), and
the Newton backtracking search then accepts a trial with `fold < f ≤ fold + 1e-4 · λ · slope`.  The input
that showed it (`Bpp.Optim.BfgsExample`: `x0 ∈ [0, 10]` at `10`, `x1` free at `0`, the objective
`-10⁶ (x0 - 10) + 5·10⁻⁴ x1 - 2.9998 x1²`) now ends back at its starting point: see the `example` below. -/
theorem bfgs_descent (obj : List ℝ → ℝ) (D : Deriv ℝ) (cap : Option Nat) (fuel fuel' : Nat)
    (s s1 s2 : St (Fn ℝ) (Bfgs ℝ) ℝ) (params : PList ℝ) (v : ℝ)
    (hgood : Good params) (hnd : (names params).Nodup) (hlt : ∀ n ∈ names params, n < s.fn.point.length)
    (hinit : (bfgsAlgo (Fn.iface obj D cap) fuel).init s params = .ok s1)
    (hopt : (bfgsAlgo (Fn.iface obj D cap) fuel).optimize fuel' s1 = .ok (s2, v)) :
    Spec.descent v (obj (matchPoint s.fn.point params)) = true ∧
    Spec.consistent obj v s2.fn.point = true ∧
    Spec.stateAt s2.fn.point (names s2.core.params) (values s2.core.params) = true ∧
    s2.core.cur = v := by
  have hi := given_init_spec obj D cap (bfgsAlgo (Fn.iface obj D cap) fuel) rfl rfl s s1 params hgood ⟨hnd, hlt⟩
    (by
      intro s0 sa h
      change bfgsDoInit (Fn.iface obj D cap) s0 params = .ok sa at h
      unfold bfgsDoInit at h
      simp only [] at h
      split at h
      · cases h
      · split at h
        · cases h
        · split at h
          · cases h
          · rename_i fn1 hsp
            split at h
            · cases h
            · simp only [Except.ok.injEq] at h
              subst h
              exact ⟨rfl, hsp⟩) hinit
  obtain ⟨h2, hcur⟩ := bfgs_optimize_spec obj D cap _ _ _ ⟨hnd, hlt⟩ fuel fuel' s1 s2 v hi hopt
  refine ⟨?_, ?_, ?_, hcur⟩
  · simp only [Spec.descent, ScalarReal.leb_iff]; rw [← hcur]; exact h2.below
  · simp only [Spec.consistent, ScalarReal.eqb_iff]; rw [← hcur]; exact h2.cur
  · exact h2.coord.sync.stateAt

/-- non-vacuity: a list as the harness builds them (an interval constraint on the first parameter,
none on the second) satisfies the hypotheses of the theorems above -/
example : let c : Interval ℝ := ⟨.fin 0, .fin 10, true, true, 0⟩
    let params : PList ℝ := [⟨0, ⟨4, 0, some c, false⟩⟩, ⟨1, ⟨-2, 0, none, false⟩⟩]
    Good params ∧ (names params).Nodup ∧ ∀ n ∈ names params, n < ([4, -2] : List ℝ).length := by
  intro c params
  refine ⟨?_, by simp [params, names], by simp [params, names]⟩
  intro q hq
  simp only [params, List.mem_cons, List.not_mem_nil, or_false] at hq
  rcases hq with rfl | rfl
  · refine ⟨rfl, ?_⟩
    simp [Param.invOk, Param.accepts, c, Interval.isCorrect, Interval.isCorrectB, Bound.geb, Bound.leb]; norm_num
  · exact ⟨rfl, rfl⟩

/-- the input on which BFGS used to end above its starting value (see `bfgs_descent`): on the same
program text in exact rational arithmetic, from a feasible list, `init` and `optimize` return, the
increase is seen (the tolerance flag is set), and the run ends back at the starting point with a value
not above the starting value -/
example : BfgsExample.backAtStart = true := BfgsExample.backAtStart_true

end Bpp.C10
