import BppProofs.Lemmas.TreeRemove
import BppProofs.Props.C15ObsCopy
import BppProofs.Props.C15DagObs
/-!
# C15 — a successful removal removes exactly the relation asked for
(`GlobalGraph::unlink`, GlobalGraph.cpp:124; `removeSon` of AssociationTreeGraphImplObserver.h:260;
`removeSon` / `removeFather` of AssociationDAGraphImplObserver.h:259 / :242)

The driver evaluates the predicate `relationRemoved before after a b` (`BppModel/TreeObsCopy.lean`) on the
implementation's reports before / after a successful removal: the edge table after is the edge table before
without the entries joining `a` to `b` (either way round when the graph is undirected), in the same order, and
the node table has the same keys.  Proved here of the model (helper lemmas in `Lemmas/TreeRemove.lean`):

* `unlink_removes_relation`: of a successful `unlink(a, b)` on a consistent graph;
* `removeSon_removes_relation`: of a successful `removeSon(nodeObject, sonObject)` through an observer of the
  tree container, on the ids of the two objects (the notifications delivered to the observers leave the graph
  tables alone);
* `dag_removeSon_removes_relation`, `dag_removeFather_removes_relation`: the same through an observer of the DAG
  container; `removeFather(node, father)` removes the relation father -> node.
-/
set_option linter.unusedVariables false
namespace Bpp.C15
open Bpp Bpp.Graph Bpp.AL Bpp.Graph.TW

/-- **a successful `unlink(a, b)` removes exactly the relation `a -> b`**: from the edge table of a consistent
graph exactly the entries joining `a` to `b` are gone (either way round when the graph is undirected; by
consistency there is exactly one such entry), every other entry is kept in its place, and no node is removed -/
theorem unlink_removes_relation (g : G) (hc : Consistent g) (a b : Nat) (es : List Nat) (g' : G)
    (h : G.unlink a b g = .ok es g') : relationRemoved g g' a b = true :=
  G.unlink_ok_removed hc h

/-- **a successful `removeSon(nodeObject, sonObject)` through an observer of the tree container** removes from
the graph exactly the relation between the ids of the two objects, and no node -/
theorem removeSon_removes_relation (tw tw' : TW) (k : Nat) (a s : Obj) (o : Obs) (ia is : Nat)
    (hw : WInv tw.w) (hk : tw.w.getObs k = some o) (ha : AL.find a o.Ng = some ia) (hs : AL.find s o.Ng = some is)
    (h : tw.removeSon k a s = (.ok, tw')) : relationRemoved tw.w.g tw'.w.g ia is = true := by
  unfold TW.removeSon at h
  simp only [hk, ha, hs] at h
  obtain ⟨ht, u, gq, hfst⟩ := TW.ofG_ok h
  subst ht
  exact TW.removeSonG_removed hw.graph hfst

/-- **a successful `removeSon(nodeObject, sonObject)` through an observer of the DAG container** removes from
the graph exactly the relation node -> son, and no node -/
theorem dag_removeSon_removes_relation (dw dw' : DW) (k : Nat) (n s : Obj) (o : Obs) (inn is : Nat)
    (hw : WInv dw.w) (hk : dw.w.getObs k = some o) (hn : AL.find n o.Ng = some inn) (hs : AL.find s o.Ng = some is)
    (h : dw.removeSon k n s = (.ok, dw')) : relationRemoved dw.w.g dw'.w.g inn is = true := by
  unfold DW.removeSon DW.ids2 at h
  simp only [hk, hn, hs] at h
  obtain ⟨ht, u, gq, hfst⟩ := DW.ofG_ok h
  subst ht
  exact DW.removeSonG_removed hw.graph hfst

/-- **a successful `removeFather(nodeObject, fatherObject)` through an observer of the DAG container** removes
from the graph exactly the relation father -> node, and no node -/
theorem dag_removeFather_removes_relation (dw dw' : DW) (k : Nat) (n f : Obj) (o : Obs) (inn ifa : Nat)
    (hw : WInv dw.w) (hk : dw.w.getObs k = some o) (hn : AL.find n o.Ng = some inn) (hf : AL.find f o.Ng = some ifa)
    (h : dw.removeFather k n f = (.ok, dw')) : relationRemoved dw.w.g dw'.w.g ifa inn = true := by
  unfold DW.removeFather DW.ids2 at h
  simp only [hk, hn, hf] at h
  obtain ⟨ht, u, gq, hfst⟩ := DW.ofG_ok h
  subst ht
  exact DW.removeFatherG_removed hw.graph hfst

/-! ## the hypotheses are satisfiable, the predicate is not vacuous

On the rooted tree `10 -> 11`, `10 -> 12` of `exHist` (`Props/C15Obs.lean`; node ids 0, 1, 2, edge ids 0, 1) and
on the DAG `10 -> 11`, `10 -> 12`, `11 -> 12` of `exDagHist` (`Props/C15DagObs.lean`). -/

/-- `removeSon(10, 11)` succeeds on the example tree, rooted or not … -/
example : (((TW.init true).run exHist).removeSon 0 10 11).1 = .ok ∧
    (((TW.init false).run exHist).removeSon 0 10 11).1 = .ok := by decide
/-- … the ids of the two objects are 0 and 1, and the predicate holds between the two graphs: the edge table
`[(0, 0, 1), (1, 0, 2)]` becomes `[(1, 0, 2)]` -/
example :
    let tw := (TW.init true).run exHist
    (tw.w.getObs 0).map (fun o => (AL.find 10 o.Ng, AL.find 11 o.Ng)) = some (some 0, some 1) ∧
    tw.w.g.edges = [(0, 0, 1), (1, 0, 2)] ∧ (tw.removeSon 0 10 11).2.w.g.edges = [(1, 0, 2)] ∧
    relationRemoved tw.w.g (tw.removeSon 0 10 11).2.w.g 0 1 = true := by decide
/-- on the unrooted (undirected) tree the relation is removed whichever way round it is named -/
example :
    let tw := (TW.init false).run exHist
    relationRemoved tw.w.g (tw.removeSon 0 10 11).2.w.g 0 1 = true ∧
    relationRemoved tw.w.g (tw.removeSon 0 11 10).2.w.g 1 0 = true ∧
    (tw.removeSon 0 11 10).1 = .ok := by decide
/-- the instance of the theorem -/
example : relationRemoved ((TW.init true).run exHist).w.g (((TW.init true).run exHist).removeSon 0 10 11).2.w.g 0 1 = true :=
  removeSon_removes_relation _ _ 0 10 11 _ 0 1 (tw_inv true exHist) rfl (by decide) (by decide) rfl

/-- **not vacuous**: when the relation `0 -> 1` exists and nothing was removed the predicate is false … -/
example : relationRemoved ((TW.init true).run exHist).w.g ((TW.init true).run exHist).w.g 0 1 = false := by decide
/-- … it is false when another relation was removed instead (`removeSon(10, 12)` judged for `0 -> 1`) … -/
example :
    let tw := (TW.init true).run exHist
    relationRemoved tw.w.g (tw.removeSon 0 10 12).2.w.g 0 1 = false := by decide
/-- … when both relations were removed (`removeSons(10)`) … -/
example :
    let tw := (TW.init true).run exHist
    (tw.removeSons 0 10).2.1 = .ok ∧ relationRemoved tw.w.g (tw.removeSons 0 10).2.2.w.g 0 1 = false := by decide
/-- … when a node went with it (`deleteNode(11)` removes the relation `0 -> 1` and node 1) … -/
example :
    let tw := (TW.init true).run exHist
    (tw.deleteNode 0 11).1 = .ok ∧ (tw.deleteNode 0 11).2.w.g.edges = [(1, 0, 2)] ∧
    relationRemoved tw.w.g (tw.deleteNode 0 11).2.w.g 0 1 = false := by decide
/-- … and, on a directed graph, when the relation is named the wrong way round (on the undirected one it holds,
see above) -/
example :
    let tw := (TW.init true).run exHist
    relationRemoved tw.w.g (tw.removeSon 0 10 11).2.w.g 1 0 = false := by decide
/-- a raising `removeSon` (11 is not the father of 12) changes nothing: the conclusion is about successful calls -/
example :
    let tw := (TW.init true).run exHist
    (tw.removeSon 0 11 12).1 = .exc .bpp ∧ (tw.removeSon 0 11 12).2.w.g = tw.w.g := by decide

/-- the DAG: `removeSon(10, 12)` and `removeFather(12, 11)` succeed (objects 10, 11, 12 have ids 0, 1, 2) and the
predicate holds, for `removeFather` on the relation father -> node -/
example :
    let dw := DW.init.run exDagHist
    (dw.removeSon 0 10 12).1 = .ok ∧ relationRemoved dw.w.g (dw.removeSon 0 10 12).2.w.g 0 2 = true ∧
    (dw.removeFather 0 12 11).1 = .ok ∧ relationRemoved dw.w.g (dw.removeFather 0 12 11).2.w.g 1 2 = true ∧
    relationRemoved dw.w.g (dw.removeFather 0 12 11).2.w.g 2 1 = false ∧
    relationRemoved dw.w.g (dw.removeFather 0 12 11).2.w.g 0 2 = false := by decide
/-- the instances of the theorems -/
example : relationRemoved (DW.init.run exDagHist).w.g ((DW.init.run exDagHist).removeSon 0 10 12).2.w.g 0 2 = true :=
  dag_removeSon_removes_relation _ _ 0 10 12 _ 0 2 (dw_inv exDagHist).1 rfl (by decide) (by decide) rfl
example : relationRemoved (DW.init.run exDagHist).w.g ((DW.init.run exDagHist).removeFather 0 12 11).2.w.g 1 2 = true :=
  dag_removeFather_removes_relation _ _ 0 12 11 _ 2 1 (dw_inv exDagHist).1 rfl (by decide) (by decide) rfl

/-- `unlink` itself, on the graph of the example tree -/
example :
    let g := ((TW.init true).run exHist).w.g
    (G.unlink 0 1 g).raised = false ∧ relationRemoved g (G.unlink 0 1 g).state 0 1 = true := by decide

end Bpp.C15
