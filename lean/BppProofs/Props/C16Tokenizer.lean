import BppProofs.Lemmas.TokenizerU
/-!
C16 for StringTokenizer / NestedStringTokenizer (src/Bpp/Text/StringTokenizer.cpp,
NestedStringTokenizer.cpp; model `BppModel/Text/TokenizerU.lean`): the constructors (every option
combination) and every history of method calls end in a value or in the library's exception —
no undefined behaviour, no other exception, no hang — and what they allocate is bounded by the
input.  The last section has the inputs on which the code as found violated this.
-/
namespace Bpp.C16
open Bpp.Text Bpp.Text.U

/-! ## the StringTokenizer constructor -/

/-- the constructor returns or throws `bpp::Exception` (empty solid delimiter) for every option
combination; in particular the fuel `size + 2` of the loops never runs out -/
theorem tokenizer_ctor_safe (s d : Str) (solid allowEmpty : Bool) (hs : StrOk s) :
    safe (mkTokenizer s d solid allowEmpty) = true := by
  rcases mkTokenizer_spec s d solid allowEmpty hs with e | ⟨t, e, _⟩ <;> simp [e]

example : StrOk "a,b,,c".toList := by decide
example : mkTokenizer "a,b,,c".toList ",".toList false false =
    .ok ⟨["a".toList, "b".toList, "c".toList], [",".toList, ",,".toList], 0⟩ := by rfl
example : mkTokenizer "a,b,,c".toList ",".toList false true =
    .ok ⟨["a".toList, "b".toList, [], "c".toList], [",".toList, ",".toList, ",".toList], 0⟩ := by rfl
example : mkTokenizer "a::b::::c".toList "::".toList true false =
    .ok ⟨["a".toList, "b".toList, "c".toList], ["::".toList, "::::".toList], 0⟩ := by rfl
example : mkTokenizer "a::b::::c".toList "::".toList true true =
    .ok ⟨["a".toList, "b".toList, [], "c".toList], ["::".toList, "::".toList, "::".toList], 0⟩ := by rfl
example : mkTokenizer "abc".toList [] true false = .error .bpp := by rfl

/-- the constructor establishes the class invariant -/
theorem tokenizer_ctor_wf (s d : Str) (solid allowEmpty : Bool) (hs : StrOk s) (t : Tokenizer)
    (h : mkTokenizer s d solid allowEmpty = .ok t) : t.WF ∧ t.pos = 0 := by
  rcases mkTokenizer_spec s d solid allowEmpty hs with e | ⟨t', e, h1, h2, _⟩
  · rw [e] at h; cases h
  · rw [e] at h; cases h; exact ⟨h1, h2⟩

example : mkTokenizer "a,b".toList ",".toList false false = .ok ⟨["a".toList, "b".toList], [",".toList], 0⟩ := by rfl

/-- what the constructor allocates is bounded by the input: the tokens and the separators are
disjoint pieces of `s`, there are at most `size + 1` tokens -/
theorem tokenizer_ctor_alloc (s d : Str) (solid allowEmpty : Bool) (hs : StrOk s) (t : Tokenizer)
    (h : mkTokenizer s d solid allowEmpty = .ok t) :
    sumLen t.tokens + sumLen t.splits ≤ s.length ∧ t.tokens.length ≤ s.length + 1 := by
  rcases mkTokenizer_spec s d solid allowEmpty hs with e | ⟨t', e, _, _, h3, h4⟩
  · rw [e] at h; cases h
  · rw [e] at h; cases h; exact ⟨h3, h4⟩

/-- the bound on the number of tokens is reached -/
example : ∃ t, mkTokenizer ",,".toList ",".toList true true = .ok t ∧ t.tokens.length = 3 := ⟨_, rfl, rfl⟩

/-- a solid tokenizer has at least one token (so `tokens_.size() - 1` cannot underflow there) -/
theorem tokenizer_solid_nonempty (s d : Str) (allowEmpty : Bool) (t : Tokenizer)
    (h : mkTokenizer s d true allowEmpty = .ok t) : t.tokens ≠ [] := by
  unfold mkTokenizer mkTokenizerG at h
  simp only [Bool.not_true, Bool.false_eq_true, if_false, Bool.true_and] at h
  split at h
  · cases h
  · obtain ⟨⟨ts, ss⟩, e, h⟩ := bind_eq_ok h
    simp only [pure_eq_ok, Except.ok.injEq] at h
    subst h
    exact solidLoop_nonempty e

example : mkTokenizer [] ",".toList true false = .ok ⟨[[]], [], 0⟩ := by rfl
/-- … which a non-solid one does not -/
example : mkTokenizer "   ".toList " \t\n".toList false false = .ok ⟨[], [], 0⟩ := by rfl

/-! ## the methods, over arbitrary histories -/

/-- every method keeps the class invariant -/
theorem call_preserves_wf (nested : Bool) (t t' : Tokenizer) (c : Call) (a : Ans) (hwf : t.WF)
    (h : callStep nested true t c = .ok (a, t')) : t'.WF := by
  obtain ⟨a', t'', e, h1, _⟩ := callStep_spec nested t hwf c
  rw [e] at h; cases h; exact h1 hwf

example : (⟨["a".toList, [], "c".toList], [",".toList, ",".toList], 1⟩ : Tokenizer).WF :=
  ⟨by decide, by decide, by decide⟩
example : callStep false true ⟨["a".toList, [], "c".toList], [",".toList, ",".toList], 1⟩ .rmEmpty =
    .ok (.unit, ⟨["a".toList, "c".toList], [",".toList, ",".toList], 1⟩) := by rfl

/-- any sequence of calls on an object satisfying the invariant is safe -/
theorem tokenizer_calls_safe (nested : Bool) (t : Tokenizer) (hwf : t.WF) (calls : List Call) :
    safe (runCalls nested true t calls) = true := by
  obtain ⟨l, e⟩ := runCalls_ok nested t hwf calls
  simp [e]

example : runCalls false true ⟨["a".toList, "b".toList], [",".toList], 0⟩
      [.next, .unparse, .next, .next, .get 5, .remaining, .has, .rmEmpty, .unparse] =
    .ok [.str "a".toList, .str "b".toList, .str "b".toList, .raised, .raised, .nat 0, .bool false,
      .unit, .str []] := by rfl

/-- construction followed by any sequence of calls -/
theorem tokenizer_history_safe (s d : Str) (solid allowEmpty : Bool) (hs : StrOk s) (calls : List Call) :
    safe (mkTokenizer s d solid allowEmpty >>= fun t => runCalls false true t calls) = true := by
  refine safe_bind (tokenizer_ctor_safe s d solid allowEmpty hs) (fun t ht => ?_)
  exact tokenizer_calls_safe false t (tokenizer_ctor_wf s d solid allowEmpty hs t ht).1 calls

example : (mkTokenizer "   ".toList " \t\n".toList false false >>= fun t =>
    runCalls false true t [.unparse, .next, .rmEmpty, .get 0]) = .ok [.str [], .raised, .unit, .raised] := by rfl

/-- `unparseRemainingTokens` allocates no more than the object holds -/
theorem unparse_alloc (t : Tokenizer) (hwf : t.WF) (u : Str) (h : t.unparseRemainingTokens = .ok u) :
    u.length ≤ sumLen t.tokens + sumLen t.splits := by
  unfold Tokenizer.unparseRemainingTokens at h
  obtain ⟨b, hb, h⟩ := bind_eq_ok h
  have hl := unparseLoop_len t _ _ b hb
  have d1 := sumLen_drop_le t.tokens t.pos
  have d2 := sumLen_drop_le t.splits t.pos
  rw [numberOfRemainingTokens_eq t hwf.pos_le hwf.size] at h
  split at h
  · rename_i hpos
    obtain ⟨last, hlast, h⟩ := bind_eq_ok h
    simp only [pure_eq_ok, Except.ok.injEq] at h
    subst h
    have e : t.pos + (t.tokens.length - (t.pos + 1)) = t.tokens.length - 1 := by omega
    rw [e, vecBack_drop hlast] at hl
    simp only [sumLen_cons, sumLen_nil, List.length_append] at hl ⊢
    omega
  · simp only [pure_eq_ok, Except.ok.injEq] at h
    subst h
    omega

example : (⟨["a".toList, "b".toList, "c".toList], [",".toList, ";;".toList], 1⟩ : Tokenizer).unparseRemainingTokens =
    .ok "b;;c".toList := by rfl

/-- `nextToken` past the end throws the library's exception -/
theorem nextToken_past_end (t : Tokenizer) (h : t.hasMoreToken = false) : t.nextToken = .error .bpp := by
  unfold Tokenizer.nextToken
  simp [h]

example : (⟨["a".toList], [], 1⟩ : Tokenizer).hasMoreToken = false := by rfl

/-! ## NestedStringTokenizer -/

/-- the constructor returns or throws `bpp::Exception` ("Unclosed block.", empty solid
delimiter); the `int` counter `blocks` cannot overflow (it is bounded by the number of characters
read) and the loops end within their fuel -/
theorem nested_ctor_safe (s op en d : Str) (solid : Bool) (hs : s.length < 2147483648) :
    safe (mkNested s op en d solid) = true := (mkNested_spec s op en d solid hs).1

example : "a(,)b,c".toList.length < 2147483648 := by decide
example : mkNested "a(,)b,c".toList "(".toList ")".toList ",".toList false =
    .ok ⟨["a(,)b".toList, "c".toList], [",".toList], 0⟩ := by rfl
example : mkNested "a((;;));;c".toList "(".toList ")".toList ";;".toList true =
    .ok ⟨["a((;;))".toList, "c".toList], [";;".toList], 0⟩ := by rfl
example : mkNested "a(,b".toList "(".toList ")".toList ",".toList false = .error .bpp := by rfl
example : mkNested "abc".toList "(".toList ")".toList [] true = .error .bpp := by rfl

/-- the constructor establishes the class invariant (a separator for every token but the last):
the full statement, since the repair `fix: NestedStringTokenizer never recorded its separators …`.
Before it the constructor left `splits_` empty (`nested_ctor_not_wf_old`) and this theorem only
held in the form "`t.WF` iff there is at most one token". -/
theorem nested_ctor_wf (s op en d : Str) (solid : Bool) (t : Tokenizer) (hs : s.length < 2147483648)
    (h : mkNested s op en d solid = .ok t) : t.WF ∧ t.pos = 0 := by
  obtain ⟨h1, h2, _, _⟩ := (mkNested_spec s op en d solid hs).2 t h
  exact ⟨h2, h1⟩

/-- any sequence of calls on a well-formed NestedStringTokenizer is safe — also
`unparseRemainingTokens`, which is now the base method whether the object is reached through a
`NestedStringTokenizer` or a `StringTokenizer&` -/
theorem nested_calls_safe (t : Tokenizer) (hwf : t.WF) (calls : List Call) :
    safe (runCalls true true t calls) = true := by
  obtain ⟨l, e⟩ := runCalls_ok true t hwf calls
  simp [e]

/-- construction followed by any sequence of calls -/
theorem nested_history_safe (s op en d : Str) (solid : Bool) (hs : s.length < 2147483648) (calls : List Call) :
    safe (mkNested s op en d solid >>= fun t => runCalls true true t calls) = true :=
  safe_bind (nested_ctor_safe s op en d solid hs)
    (fun t ht => nested_calls_safe t (nested_ctor_wf s op en d solid t hs ht).1 calls)

example : (mkNested "a(,)b,c".toList "(".toList ")".toList ",".toList false >>= fun t =>
    runCalls true true t [.unparse, .next, .unparse, .remaining, .next, .next, .get 1, .rmEmpty]) =
    .ok [.str "a(,)b,c".toList, .str "a(,)b".toList, .str "c".toList, .nat 1, .str "c".toList, .raised,
      .str "c".toList, .unit] := by rfl

/-- what the constructor allocates is bounded by the input -/
theorem nested_ctor_alloc (s op en d : Str) (solid : Bool) (t : Tokenizer) (hs : s.length < 2147483648)
    (h : mkNested s op en d solid = .ok t) :
    sumLen t.tokens + sumLen t.splits ≤ s.length ∧ t.tokens.length ≤ s.length + 1 := by
  obtain ⟨_, _, h3, h4⟩ := (mkNested_spec s op en d solid hs).2 t h
  exact ⟨h3, h4⟩

/-! ## the code as found -/

/-- `unparseRemainingTokens` of a tokenizer without token: `tokens_.size() - 1` wraps to `2^64-1`,
the loop reads `tokens_[0]` of an empty deque -/
theorem unparse_old_ub : (mkTokenizerOld "   ".toList " \t\n".toList false false >>= fun t =>
    runCalls false false t [.unparse]) = .error .ub := by rfl

/-- an empty solid delimiter: `find("", index)` returns `index`, the index never advances -/
theorem tokenizer_old_hangs : mkTokenizerOld "abc".toList [] true false = .error .hang := by rfl

theorem nested_old_hangs : mkNestedOld "abc".toList "(".toList ")".toList [] true = .error .hang := by rfl

/-- NestedStringTokenizer left `splits_` empty and hid `unparseRemainingTokens()` with a
non-virtual stub returning "": through a `StringTokenizer&` (how KeyvalTools holds its nested
tokenizer) the base method runs and reads `splits_[0]` of an empty deque as soon as there are two
tokens -/
theorem nested_unparse_old_ub :
    (mkNestedNoSplits "a,b".toList "(".toList ")".toList ",".toList false >>= fun t =>
      t.unparseRemainingTokens) = .error .ub := by rfl

/-- … because the constructor did not establish the class invariant -/
theorem nested_ctor_not_wf_old :
    ∃ t, mkNestedNoSplits "a,b".toList "(".toList ")".toList ",".toList false = .ok t ∧ ¬ t.WF :=
  ⟨⟨["a".toList, "b".toList], [], 0⟩, rfl, fun w => absurd w.splits (by decide)⟩

/-- `getToken(pos)` read `tokens_[pos]` without a test -/
theorem getToken_old_ub : (⟨[], [], 0⟩ : Tokenizer).getTokenOld 0 = .error .ub := by rfl

end Bpp.C16
