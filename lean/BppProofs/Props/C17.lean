import BppModel.Text.Number
/-!
# C17 — write-then-read round trips and exact grammars

Property theorems only.
-/
namespace Bpp.C17
open Bpp.Text Bpp.Text.Number

/-- the code as found accepted a lone sign (and `toDouble "-"` returned 0) -/
theorem old_accepts_lone_sign :
    isDecimalNumberOld '.' 'e' ['-'] = true ∧ toDoubleOld '.' 'e' ['-'] = some 0 := by
  simp [toDoubleOld, isDecimalNumberOld, decLoopOld, isEmptyStr, isSpace, streamDouble]

end Bpp.C17
