import BppProofs.Lemmas.Number
/-!
# C17 — write-then-read round trips and exact grammars: numbers

Property theorems only (helper lemmas: `Lemmas/Number.lean`).  Model: `BppModel/Text/Number.lean`,
the code of `TextTools::isDecimalNumber / isDecimalInteger / toDouble / toInt` after the repair
"fix: isDecimalNumber/isDecimalInteger require at least one mantissa digit"; `…Old` is the code as found.

`Decimal dec sci s` is the strict grammar  `-`? digits* (`dec` digits*)? (`sci` [+-]? digits+)?  with
at least one mantissa digit, given declaratively as `∃ p : DecParts, p.WF ∧ s = p.render dec sci`;
`p.value : Rat` is the value it assigns.  The final decimal→binary rounding (strtod) is not modelled.
-/
namespace Bpp.C17
open Bpp.Text Bpp.Text.Number

/-! ## defects of the code as found (negations on concrete witnesses) -/

/-- the code as found accepted a lone sign, a lone separator and a lone exponent, none of which
is in the grammar (`accepts_iff_grammar` fails for the old code) -/
theorem old_accepts_lone_sign :
    isDecimalNumberOld '.' 'e' ['-'] = true ∧ isDecimalNumberOld '.' 'e' ['.'] = true
    ∧ isDecimalNumberOld '.' 'e' ['e', '5'] = true ∧ toDoubleOld '.' 'e' ['-'] = some 0 := by
  simp [toDoubleOld, isDecimalNumberOld, decLoopOld, isEmptyStr, isSpace, streamDouble, streamUnsigned,
    streamTail, isDigit]

theorem old_witnesses_not_decimal :
    ¬ Decimal '.' 'e' ['-'] ∧ ¬ Decimal '.' 'e' ['.'] ∧ ¬ Decimal '.' 'e' ['e', '5'] := by
  have hs : SaneChars '.' 'e' := by unfold SaneChars; decide
  refine ⟨?_, ?_, ?_⟩ <;>
  · rintro ⟨p, hwf, hr⟩
    have := parseDecimal_complete hs p hwf
    rw [← hr] at this
    simp [parseDecimal, parseUnsigned, parseTail, isDigit, List.takeWhile, List.dropWhile] at this

/-! ## the repaired code -/

/-- `isDecimalNumber` accepts exactly the strings of the strict decimal grammar -/
theorem accepts_iff_grammar {dec sci : Char} (hs : SaneChars dec sci) (s : Str) :
    isDecimalNumber dec sci s = true ↔ Decimal dec sci s := by
  rw [isDecimalNumber_eq_parse hs]
  constructor
  · intro h
    cases hp : parseDecimal dec sci s with
    | none => rw [hp] at h; cases h
    | some p => exact ⟨p, parseDecimal_sound hs hp⟩
  · rintro ⟨p, hwf, rfl⟩
    rw [parseDecimal_complete hs p hwf]; rfl

/-- the default characters are usable -/
theorem sane_default : SaneChars '.' 'e' ∧ SaneChars '.' 'E' := by unfold SaneChars; decide

/-- the grammar is unambiguous: the parts of a numeral are determined by its text -/
theorem grammar_unambiguous {dec sci : Char} (hs : SaneChars dec sci) (p q : DecParts)
    (hp : p.WF) (hq : q.WF) (h : p.render dec sci = q.render dec sci) : p = q := by
  have h1 := parseDecimal_complete hs p hp
  have h2 := parseDecimal_complete hs q hq
  rw [h] at h1; rw [h1] at h2; exact Option.some.inj h2

/-- `toDouble` returns the value the grammar assigns (as a rational, before strtod's rounding) -/
theorem toDouble_value {sci : Char} (hsci : sci = 'e' ∨ sci = 'E') (p : DecParts) (hwf : p.WF) :
    toDouble '.' sci (p.render '.' sci) = some p.value := by
  have hs : SaneChars '.' sci := by rcases hsci with rfl | rfl <;> (unfold SaneChars; decide)
  have hp := parseDecimal_complete hs p hwf
  have hacc : isDecimalNumber '.' sci (p.render '.' sci) = true := by
    rw [isDecimalNumber_eq_parse hs, hp]; rfl
  simp [toDouble, hacc, streamDouble_of_parse hsci hp]

/-- … and raises for everything else -/
theorem toDouble_raises {dec sci : Char} (hs : SaneChars dec sci) (s : Str) (h : ¬ Decimal dec sci s) :
    toDouble dec sci s = none := by
  have : isDecimalNumber dec sci s = false := by
    cases hh : isDecimalNumber dec sci s
    · rfl
    · exact absurd ((accepts_iff_grammar hs s).mp hh) h
  simp [toDouble, this]

/-- non-vacuity: "-12.50e-3" is in the grammar, with value -0.0125 -/
example : (⟨true, ['1', '2'], true, ['5', '0'], some (some '-', ['3'])⟩ : DecParts).WF
    ∧ (⟨true, ['1', '2'], true, ['5', '0'], some (some '-', ['3'])⟩ : DecParts).render '.' 'e'
        = ['-', '1', '2', '.', '5', '0', 'e', '-', '3'] := by
  refine ⟨⟨?_, ?_, ?_, ?_, ?_⟩, rfl⟩ <;> simp [AllDigits, isDigit]

end Bpp.C17
