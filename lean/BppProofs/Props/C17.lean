import BppProofs.Lemmas.Number
import BppProofs.Lemmas.NumberToInt
import Mathlib.Tactic.NormNum
/-!
# C17 — write-then-read round trips and exact grammars: numbers

Property theorems only (helper lemmas: `Lemmas/Number.lean`).  Model: `BppModel/Text/Number.lean`,
the code of `TextTools::isDecimalNumber / isDecimalInteger / toDouble / toInt` after the repair
"fix: isDecimalNumber/isDecimalInteger require at least one mantissa digit"; `…Old` is the code as found.

`Decimal dec sci s` is the strict grammar  `-`? digits* (`dec` digits*)? (`sci` [+-]? digits+)?  with
at least one mantissa digit, given declaratively as `∃ p : DecParts, p.WF ∧ s = p.render dec sci`;
`p.value : Rat` is the value it assigns.  The final decimal→binary rounding (strtod) is not modelled.
-/
namespace Bpp.C17
open Bpp.Text Bpp.Text.Number

/-! ## defects of the code as found (negations on concrete witnesses) -/

/-- the code as found accepted a lone sign, a lone separator and a lone exponent, none of which
is in the grammar (`accepts_iff_grammar` fails for the old code) -/
theorem old_accepts_lone_sign :
    isDecimalNumberOld '.' 'e' ['-'] = true ∧ isDecimalNumberOld '.' 'e' ['.'] = true
    ∧ isDecimalNumberOld '.' 'e' ['e', '5'] = true ∧ toDoubleOld '.' 'e' ['-'] = some 0 := by
  simp [toDoubleOld, isDecimalNumberOld, decLoopOld, isEmptyStr, isSpace, streamDouble, streamUnsigned,
    streamTail, isDigit]

theorem old_witnesses_not_decimal :
    ¬ Decimal '.' 'e' ['-'] ∧ ¬ Decimal '.' 'e' ['.'] ∧ ¬ Decimal '.' 'e' ['e', '5'] := by
  have hs : SaneChars '.' 'e' := by unfold SaneChars; decide
  refine ⟨?_, ?_, ?_⟩ <;>
  · rintro ⟨p, hwf, hr⟩
    have := parseDecimal_complete hs p hwf
    rw [← hr] at this
    simp [parseDecimal, parseUnsigned, parseTail, isDigit, List.takeWhile, List.dropWhile] at this

/-! ## the repaired code -/

/-- `isDecimalNumber` accepts exactly the strings of the strict decimal grammar -/
theorem accepts_iff_grammar {dec sci : Char} (hs : SaneChars dec sci) (s : Str) :
    isDecimalNumber dec sci s = true ↔ Decimal dec sci s := by
  rw [isDecimalNumber_eq_parse hs]
  constructor
  · intro h
    cases hp : parseDecimal dec sci s with
    | none => rw [hp] at h; cases h
    | some p => exact ⟨p, parseDecimal_sound hs hp⟩
  · rintro ⟨p, hwf, rfl⟩
    rw [parseDecimal_complete hs p hwf]; rfl

/-- the default characters are usable -/
theorem sane_default : SaneChars '.' 'e' ∧ SaneChars '.' 'E' := by unfold SaneChars; decide

/-- the grammar is unambiguous: the parts of a numeral are determined by its text -/
theorem grammar_unambiguous {dec sci : Char} (hs : SaneChars dec sci) (p q : DecParts)
    (hp : p.WF) (hq : q.WF) (h : p.render dec sci = q.render dec sci) : p = q := by
  have h1 := parseDecimal_complete hs p hp
  have h2 := parseDecimal_complete hs q hq
  rw [h] at h1; rw [h1] at h2; exact Option.some.inj h2

/-- `toDouble` returns the value the grammar assigns (as a rational, before strtod's rounding),
whatever usable decimal separator and exponent character the caller chose (the full statement,
since the repair "fix: TextTools::toDouble validated with the caller's decimal separator …") -/
theorem toDouble_value {dec sci : Char} (hs : SaneChars dec sci) (p : DecParts) (hwf : p.WF) :
    toDouble dec sci (p.render dec sci) = some p.value := by
  have hp := parseDecimal_complete hs p hwf
  have hacc : isDecimalNumber dec sci (p.render dec sci) = true := by
    rw [isDecimalNumber_eq_parse hs, hp]; rfl
  have hs' : SaneChars '.' 'e' := by unfold SaneChars; decide
  have hp' := parseDecimal_complete hs' p hwf
  simp [toDouble, hacc, map_trChar_render hs p hwf, streamDouble_of_parse (Or.inl rfl) hp']

example : SaneChars ',' 'x' ∧ SaneChars 'e' '.' := by unfold SaneChars; decide

/-- the code before that repair handed the accepted text to the stream as it was: "1,5" with
separator `,` is accepted, its value is 3/2, the conversion gave 1 -/
theorem toDouble_custom_separator_witness :
    (⟨false, ['1'], true, ['5'], none⟩ : DecParts).WF ∧
    (⟨false, ['1'], true, ['5'], none⟩ : DecParts).render ',' 'e' = ['1', ',', '5'] ∧
    (⟨false, ['1'], true, ['5'], none⟩ : DecParts).value = 3 / 2 ∧
    toDoubleNoTr ',' 'e' ['1', ',', '5'] = some 1 := by
  have hs : SaneChars ',' 'e' := by unfold SaneChars; decide
  have hwf : (⟨false, ['1'], true, ['5'], none⟩ : DecParts).WF := by
    refine ⟨?_, ?_, ?_, ?_, ?_⟩ <;> simp [AllDigits, isDigit]
  have hacc : isDecimalNumber ',' 'e' ['1', ',', '5'] = true :=
    (accepts_iff_grammar hs _).mpr ⟨_, hwf, rfl⟩
  refine ⟨hwf, rfl, ?_, ?_⟩
  · simp [DecParts.value, mkValue, digitsVal, digitVal, pow10]
    norm_num
  · simp only [toDoubleNoTr, hacc, if_true]
    simp [streamDouble, streamUnsigned, streamTail, isDigit, List.takeWhile, List.dropWhile, mkValue, digitsVal,
      digitVal, pow10]

/-- … and raises for everything else -/
theorem toDouble_raises {dec sci : Char} (hs : SaneChars dec sci) (s : Str) (h : ¬ Decimal dec sci s) :
    toDouble dec sci s = none := by
  have : isDecimalNumber dec sci s = false := by
    cases hh : isDecimalNumber dec sci s
    · rfl
    · exact absurd ((accepts_iff_grammar hs s).mp hh) h
  simp [toDouble, this]

/-- non-vacuity: "-12.50e-3" is in the grammar, with value -0.0125 -/
example : (⟨true, ['1', '2'], true, ['5', '0'], some (some '-', ['3'])⟩ : DecParts).WF
    ∧ (⟨true, ['1', '2'], true, ['5', '0'], some (some '-', ['3'])⟩ : DecParts).render '.' 'e'
        = ['-', '1', '2', '.', '5', '0', 'e', '-', '3'] := by
  refine ⟨⟨?_, ?_, ?_, ?_, ?_⟩, rfl⟩ <;> simp [AllDigits, isDigit]

/-! ## integers -/

/-- `isDecimalInteger` accepts exactly  `-`? digits+ (`sci` `+`? digits+)?  -/
theorem integer_accepts_iff_grammar {sci : Char} (hs : isDigit sci = false) (s : Str) :
    isDecimalInteger sci s = true ↔ DecInteger sci s := by
  rw [isDecimalInteger_eq_parse hs]
  constructor
  · intro h
    cases hp : parseInteger sci s with
    | none => rw [hp] at h; cases h
    | some p => exact ⟨p, parseInteger_sound hs hp⟩
  · rintro ⟨p, hwf, rfl⟩
    rw [parseInteger_complete hs p hwf]; rfl

theorem toInt_raises {sci : Char} (hs : isDigit sci = false) (s : Str) (h : ¬ DecInteger sci s) :
    toInt sci s = none := by
  have : isDecimalInteger sci s = false := by
    cases hh : isDecimalInteger sci s
    · rfl
    · exact absurd ((integer_accepts_iff_grammar hs s).mp hh) h
  simp [toInt, this]

/-- **`toInt` returns the value the grammar assigns** (mantissa times power of ten) when it is an
`int`, and raises otherwise — the full statement, since the repair "fix: TextTools::toInt ignored the
exponent it accepts" -/
theorem toInt_value {sci : Char} (hs : isDigit sci = false) (p : IntParts) (hwf : p.WF) :
    toInt sci (p.render sci) = if intMin ≤ p.value ∧ p.value ≤ intMax then some p.value else none :=
  toInt_render hs p hwf

/-- what the code before that repair returned on a grammatical integer: the mantissa, clamped to the
`int` range (`istringstream >> int` stops at the exponent mark) -/
theorem toIntOld_reads_mantissa {sci : Char} (hs : isDigit sci = false) (p : IntParts) (hwf : p.WF) :
    toIntOld sci (p.render sci)
      = some (clampInt (if p.neg then - (digitsVal p.ip : Int) else (digitsVal p.ip : Int))) := by
  have hp := parseInteger_complete hs p hwf
  have hacc : isDecimalInteger sci (p.render sci) = true := by
    rw [isDecimalInteger_eq_parse hs, hp]; rfl
  simp [toIntOld, hacc, streamInt_of_parse hs hp]

/-- witness against the code as found: "1e2" is accepted, the grammar's value is 100, the old
`toInt` returned 1 -/
theorem toInt_exponent_witness :
    (⟨false, ['1'], some (false, ['2'])⟩ : IntParts).WF ∧
    (⟨false, ['1'], some (false, ['2'])⟩ : IntParts).render 'e' = ['1', 'e', '2'] ∧
    (⟨false, ['1'], some (false, ['2'])⟩ : IntParts).value = 100 ∧
    toIntOld 'e' ['1', 'e', '2'] = some 1 := by
  have hwf : (⟨false, ['1'], some (false, ['2'])⟩ : IntParts).WF := by
    refine ⟨?_, ?_, ?_, ?_⟩ <;> simp [AllDigits, isDigit]
  refine ⟨hwf, rfl, by decide, ?_⟩
  have := toIntOld_reads_mantissa (sci := 'e') (by decide) _ hwf
  simpa [IntParts.render, digitsVal, digitVal, clampInt, intMin, intMax] using this

/-- `toInt (toString n) = n` for every `int` -/
theorem int_roundtrip {sci : Char} (hs : isDigit sci = false) (n : Int) (hlo : intMin ≤ n) (hhi : n ≤ intMax) :
    toInt sci (intToString n) = some n := by
  obtain ⟨h1, h2, h3⟩ := natDigits_spec n.natAbs
  let p : IntParts := ⟨decide (n < 0), natDigits n.natAbs, none⟩
  have hwf : p.WF := ⟨h1, h2, trivial⟩
  have hr : intToString n = p.render sci := by
    unfold intToString IntParts.render
    by_cases hn : n < 0 <;> simp [p, hn]
  have hv : p.value = n := by
    simp only [IntParts.value, p, h3]
    by_cases hn : n < 0
    · simp only [hn, decide_true, if_true]; omega
    · simp only [hn, decide_false, Bool.false_eq_true, if_false]; omega
  rw [hr, toInt_value hs p hwf, hv]
  simp [hlo, hhi]

/-- "1e2" is 100 now, and a numeral beyond the range raises (it was clamped to `INT_MAX` before) -/
example : toInt 'e' ['1', 'e', '2'] = some 100 ∧ toInt 'e' ['5', 'e', '9'] = none := by
  have hwf1 : (⟨false, ['1'], some (false, ['2'])⟩ : IntParts).WF := by
    refine ⟨?_, ?_, ?_, ?_⟩ <;> simp [AllDigits, isDigit]
  have hwf2 : (⟨false, ['5'], some (false, ['9'])⟩ : IntParts).WF := by
    refine ⟨?_, ?_, ?_, ?_⟩ <;> simp [AllDigits, isDigit]
  have h1 := toInt_value (sci := 'e') (by decide) _ hwf1
  have h2 := toInt_value (sci := 'e') (by decide) _ hwf2
  constructor
  · simpa [IntParts.render, IntParts.value, digitsVal, digitVal, intMin, intMax] using h1
  · simpa [IntParts.render, IntParts.value, digitsVal, digitVal, intMin, intMax] using h2

/-- non-vacuity of `int_roundtrip` at the limits -/
example : toInt 'e' (intToString intMin) = some intMin ∧ toInt 'e' (intToString intMax) = some intMax :=
  ⟨int_roundtrip (by decide) _ (by decide) (by decide), int_roundtrip (by decide) _ (by decide) (by decide)⟩

end Bpp.C17
