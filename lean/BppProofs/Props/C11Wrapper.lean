import BppProofs.Lemmas.Reparam
import BppProofs.Props.C11
/-!
# C11 — the reparametrisation wrapper  (src/Bpp/Numeric/Function/ReparametrizationFunctionWrapper.{h,cpp})

Property theorems about the wrapper model `BppModel/Reparam.lean` read at `ℝ`, with the wrapped
function abstract.  `pi`, `tiny` stand for `NumConstants::PI()`, `NumConstants::TINY()`; only
`0 < tiny` is used (the wrapper always builds the hyperbolic variant, so `pi` plays no role), and
every statement is specialised to the library's constants at the end.
-/
namespace Bpp.C11
open Bpp Bpp.Transform Bpp.Reparam

/-! ## Construction -/

/-- Immediately after wrapping: the wrapped function's parameters (and the wrapper's copy) still
hold the values they had, every transformed parameter is of the kind `init_` documents for its
constraint, and it back-transforms to the initial value — moved by at most `tiny` when the value
is closer than `tiny` to a closed bound, exactly the initial value otherwise.
Hypotheses (`Admits`): each value is accepted by its constraint and more than `tiny` away from
an open bound; finite intervals are wider than `2 tiny`. -/
theorem wrap_preserves_values (pi tiny : ℝ) (ht : 0 < tiny) (ps : List (Shape ℝ × ℝ))
    (h : ∀ p ∈ ps, Admits tiny p.1 p.2) :
    ∃ w, init pi tiny ps = .ok w ∧
      fnVals w = ps.map (·.2) ∧ w.map (·.fp) = ps.map (·.2) ∧ w.map (·.shape) = ps.map (·.1) ∧
      origs pi w = ps.map (fun p => nudge tiny p.1 p.2) ∧
      (∀ s ∈ w, SlotInv tiny s) := by
  obtain ⟨w, hw, hrel⟩ := init_spec (pi := pi) ht ps h
  refine ⟨w, hw, ?_, ?_, ?_, ?_, ?_⟩
  · exact (forall₂_map_eq (R := InitRel pi tiny) (f := (·.2)) (g := (·.fn))
      (fun a b r => r.2.2.1.symm) hrel).symm
  · exact (forall₂_map_eq (R := InitRel pi tiny) (f := (·.2)) (g := (·.fp))
      (fun a b r => r.2.1.symm) hrel).symm
  · exact (forall₂_map_eq (R := InitRel pi tiny) (f := (·.1)) (g := (·.shape))
      (fun a b r => r.1.symm) hrel).symm
  · exact (forall₂_map_eq (R := InitRel pi tiny) (f := fun p => nudge tiny p.1 p.2)
      (g := fun s => s.tp.getOriginal pi) (fun a b r => r.2.2.2.2.symm) hrel).symm
  · -- the invariant: needs Admits for the matching pair
    have : List.Forall₂ (fun p s => InitRel pi tiny p s ∧ Admits tiny p.1 p.2) ps w :=
      forall₂_and_left (P := fun p => Admits tiny p.1 p.2) hrel h
    refine forall₂_right (R := fun p s => InitRel pi tiny p s ∧ Admits tiny p.1 p.2) ?_ this
    rintro p s ⟨⟨r1, r2, r3, r4, _⟩, ha⟩
    exact ⟨by rw [r1]; exact r4, by rw [r1]; exact admits_wide ht ha,
      by rw [r1, r2]; exact admits_accepts ht ha, by rw [r1, r3]; exact admits_accepts ht ha⟩

/-- the value a transformed parameter starts from is within `tiny` of the initial value, and is
the initial value unless that is closer than `tiny` to a closed bound -/
theorem wrap_nudge (tiny : ℝ) (ht : 0 < tiny) (sh : Shape ℝ) (v : ℝ) (h : Admits tiny sh v) :
    |nudge tiny sh v - v| ≤ tiny ∧ (NotNudged tiny sh v → nudge tiny sh v = v) :=
  ⟨nudge_close ht h, nudge_eq_self⟩

/-- ... hence the two coordinate systems agree right after the construction when no value is
closer than `tiny` to a closed bound -/
theorem wrap_in_sync (pi tiny : ℝ) (ht : 0 < tiny) (ps : List (Shape ℝ × ℝ))
    (h : ∀ p ∈ ps, Admits tiny p.1 p.2) (hn : ∀ p ∈ ps, NotNudged tiny p.1 p.2) :
    ∃ w, init pi tiny ps = .ok w ∧ (∀ s ∈ w, SlotInv tiny s) ∧ (∀ s ∈ w, Sync pi s) ∧
      w.length = ps.length := by
  obtain ⟨w, hw, hrel⟩ := init_spec (pi := pi) ht ps h
  obtain ⟨w', hw', _, _, _, _, hinv⟩ := wrap_preserves_values pi tiny ht ps h
  have hww : w' = w := by rw [hw] at hw'; injection hw' with e; exact e.symm
  subst hww
  refine ⟨w', hw, hinv, ?_, hrel.length_eq.symm⟩
  have : List.Forall₂ (fun p s => InitRel pi tiny p s ∧ NotNudged tiny p.1 p.2) ps w' :=
    forall₂_and_left (P := fun p => NotNudged tiny p.1 p.2) hrel hn
  refine forall₂_right (R := fun p s => InitRel pi tiny p s ∧ NotNudged tiny p.1 p.2) ?_ this
  rintro p s ⟨⟨_, r2, r3, _, r5⟩, hnn⟩
  exact ⟨by rw [r3, r5, nudge_eq_self hnn], by rw [r2, r3]⟩

/-! ## Back-transformation -/

/-- For each of the eight bound configurations and every real coordinate, the back-transformed
value satisfies the original constraint: the wrapped function is only ever evaluated at feasible
points. -/
theorem wrapper_back_in_domain (pi tiny : ℝ) (ht : 0 < tiny) (sh : Shape ℝ) (tp : TP ℝ)
    (hm : Matches tiny sh tp) (hw : sh.Wide tiny) (x : ℝ) :
    sh.Accepts ((tp.setX x).getOriginal pi) :=
  matches_accepts ht (matches_setX hm x) hw

/-- `setParameters` (hence `f(parameters)`) never raises on a wrapper satisfying the invariant,
for any real values of any subset of the coordinates; the invariant is preserved -/
theorem set_never_raises (pi tiny : ℝ) (ht : 0 < tiny) (w : W ℝ) (upd : List (Option ℝ))
    (hinv : ∀ s ∈ w, SlotInv tiny s) (hlen : upd.length = w.length) :
    ∃ w', Reparam.set pi w upd = .ok w' ∧ (∀ s ∈ w', SlotInv tiny s) ∧ w'.length = w.length := by
  refine ⟨_, set_real ht w upd hinv hlen, ?_, ?_⟩
  · exact forall_zipWith (P := SlotInv tiny) (fun s u hs => setSlot_inv ht _ s u hs) w upd hinv
  · simp [hlen]

/-- if the two coordinate systems agree before `setParameters`, they agree after it (whatever
subset of the coordinates is given) -/
theorem set_sync (pi tiny : ℝ) (ht : 0 < tiny) (w : W ℝ) (upd : List (Option ℝ))
    (hinv : ∀ s ∈ w, SlotInv tiny s) (hlen : upd.length = w.length) (hs : ∀ s ∈ w, Sync pi s)
    (w' : W ℝ) (h : Reparam.set pi w upd = .ok w') : ∀ s ∈ w', Sync pi s := by
  rw [set_real ht w upd hinv hlen] at h
  injection h with h
  subst h
  exact sync_zipWith pi _ w upd hs (fun h => h)

/-- when every coordinate is given and at least one changes, the coordinate systems agree afterwards
even if they did not before (e.g. after a construction that nudged a value) -/
theorem set_all_sync (pi tiny : ℝ) (ht : 0 < tiny) (w : W ℝ) (xs : List ℝ)
    (hinv : ∀ s ∈ w, SlotInv tiny s) (hlen : xs.length = w.length)
    (hch : (List.zipWith changed w (xs.map some)).any id = true)
    (w' : W ℝ) (h : Reparam.set pi w (xs.map some) = .ok w') : ∀ s ∈ w', Sync pi s := by
  rw [set_real ht w _ hinv (by simpa using hlen), hch] at h
  injection h with h
  subst h
  intro s' hs'
  have : ∀ (w : W ℝ) (xs : List ℝ), ∀ s' ∈ List.zipWith (setSlot pi true) w (xs.map some), Sync pi s' := by
    intro w
    induction w with
    | nil => intro xs s' hs'; simp at hs'
    | cons s w ih =>
      intro xs s' hs'
      cases xs with
      | nil => simp at hs'
      | cons x xs =>
        simp only [List.map_cons, List.zipWith_cons_cons, List.mem_cons] at hs'
        rcases hs' with rfl | hs'
        · simp [setSlot, Sync]
        · exact ih xs s' hs'
  exact this w xs s' hs'

/-- the wrapper's value is the wrapped function at the back-transformed point -/
theorem wrap_f_eq (pi : ℝ) (f : List ℝ → ℝ) (w : W ℝ) (hs : ∀ s ∈ w, Sync pi s) :
    Reparam.value f w = f (origs pi w) := by
  unfold Reparam.value; rw [fnVals_eq_origs hs]

/-- All histories: starting from a construction with admissible, non-nudged values, any sequence of
`setParameters` calls with any subsets of coordinates and any real values succeeds, and after it
the wrapper's value is the wrapped function at the back-transformed point, which satisfies every
original constraint. -/
theorem all_histories (pi tiny : ℝ) (ht : 0 < tiny) (f : List ℝ → ℝ) (ps : List (Shape ℝ × ℝ))
    (h : ∀ p ∈ ps, Admits tiny p.1 p.2) (hn : ∀ p ∈ ps, NotNudged tiny p.1 p.2)
    (upds : List (List (Option ℝ))) (hl : ∀ u ∈ upds, u.length = ps.length) :
    ∃ w0 w, init pi tiny ps = .ok w0 ∧ Reparam.run pi w0 upds = .ok w ∧
      Reparam.value f w = f (origs pi w) ∧
      (∀ s ∈ w, s.shape.Accepts s.fn ∧ s.fn = s.tp.getOriginal pi) := by
  obtain ⟨w0, hw0, hinv0, hsync0, hlen0⟩ := wrap_in_sync pi tiny ht ps h hn
  have key : ∀ (upds : List (List (Option ℝ))) (w : W ℝ), (∀ u ∈ upds, u.length = w.length) →
      (∀ s ∈ w, SlotInv tiny s) → (∀ s ∈ w, Sync pi s) →
      ∃ w', Reparam.run pi w upds = .ok w' ∧ (∀ s ∈ w', SlotInv tiny s) ∧ (∀ s ∈ w', Sync pi s) := by
    intro upds
    induction upds with
    | nil => intro w _ hi hs; exact ⟨w, rfl, hi, hs⟩
    | cons u us ih =>
      intro w hl hi hs
      obtain ⟨w1, e1, hi1, hlen1⟩ := set_never_raises pi tiny ht w u hi (hl u (by simp))
      have hs1 := set_sync pi tiny ht w u hi (hl u (by simp)) hs w1 e1
      obtain ⟨w2, e2, hi2, hs2⟩ := ih w1 (fun v hv => by rw [hlen1]; exact hl v (by simp [hv])) hi1 hs1
      exact ⟨w2, by simp [Reparam.run, e1, e2], hi2, hs2⟩
  obtain ⟨w, e, hi, hs⟩ := key upds w0 (fun u hu => by rw [hlen0]; exact hl u hu) hinv0 hsync0
  exact ⟨w0, w, hw0, e, wrap_f_eq pi f w hs, fun s hs' => ⟨(hi s hs').fn, (hs s hs').1⟩⟩

end Bpp.C11
