import BppProofs.Lemmas.Reparam
import BppProofs.Props.C11
/-!
# C11 — the reparametrisation wrapper  (src/Bpp/Numeric/Function/ReparametrizationFunctionWrapper.{h,cpp})

Property theorems about the wrapper model `BppModel/Reparam.lean` read at `ℝ`, with the wrapped
function abstract.  `pi`, `tiny` stand for `NumConstants::PI()`, `NumConstants::TINY()`; only
`0 < tiny` is used (the wrapper always builds the hyperbolic variant, so `pi` plays no role), and
every statement is specialised to the library's constants at the end.
-/
namespace Bpp.C11
open Bpp Bpp.Transform Bpp.Reparam

/-! ## Construction -/

/-- Immediately after wrapping: the wrapped function's parameters (and the wrapper's copy) still
hold the values they had, every transformed parameter is of the kind `init_` documents for its
constraint, and it back-transforms to `corrected tiny shape value`, the value `init_` hands to its
constructor — see `wrap_nudge`: at most `2 tiny` away from the initial value, and exactly the
initial value unless that is closer than `tiny` to a closed bound or `2 tiny` to an open bound.
Hypotheses (`Admits`): each value is accepted by its constraint — *any* such value, including
those in the sliver of width `tiny` that `init_` removes next to an open bound — and finite
intervals are wider than `2 tiny` (`3 tiny` when both bounds are open). Note: the first two conjuncts (`fnVals`, `fp` = the initial values) are *structural*: the model's `init`,
like the constructors h:36-59, never writes to the function, so they hold for every successful
`init`; the evidence that the real constructors leave the function alone is the differential tie
(`w.new` / `w.mk` report the function's values).  The conjuncts that carry content are
`origs = corrected …` and the invariant, together with `wrap_nudge`. -/
theorem wrap_preserves_values (pi tiny : ℝ) (ht : 0 < tiny) (ps : List (Shape ℝ × ℝ))
    (h : ∀ p ∈ ps, Admits tiny p.1 p.2) :
    ∃ w, init pi tiny ps = .ok w ∧
      fnVals w = ps.map (·.2) ∧ w.map (·.fp) = ps.map (·.2) ∧ w.map (·.shape) = ps.map (·.1) ∧
      origs pi w = ps.map (fun p => corrected tiny p.1 p.2) ∧
      (∀ s ∈ w, SlotInv tiny s) := by
  obtain ⟨w, hw, hrel⟩ := init_spec (pi := pi) ht ps h
  refine ⟨w, hw, ?_, ?_, ?_, ?_, ?_⟩
  · exact (forall₂_map_eq (R := InitRel pi tiny) (f := (·.2)) (g := (·.fn))
      (fun a b r => r.2.2.1.symm) hrel).symm
  · exact (forall₂_map_eq (R := InitRel pi tiny) (f := (·.2)) (g := (·.fp))
      (fun a b r => r.2.1.symm) hrel).symm
  · exact (forall₂_map_eq (R := InitRel pi tiny) (f := (·.1)) (g := (·.shape))
      (fun a b r => r.1.symm) hrel).symm
  · exact (forall₂_map_eq (R := InitRel pi tiny) (f := fun p => corrected tiny p.1 p.2)
      (g := fun s => s.tp.getOriginal pi) (fun a b r => r.2.2.2.2.symm) hrel).symm
  · -- the invariant: needs Admits for the matching pair
    have : List.Forall₂ (fun p s => InitRel pi tiny p s ∧ Admits tiny p.1 p.2) ps w :=
      forall₂_and_left (P := fun p => Admits tiny p.1 p.2) hrel h
    refine forall₂_right (R := fun p s => InitRel pi tiny p s ∧ Admits tiny p.1 p.2) ?_ this
    rintro p s ⟨⟨r1, r2, r3, r4, _⟩, ha⟩
    exact ⟨by rw [r1]; exact r4, by rw [r1]; exact admits_wide ht ha,
      by rw [r1, r2]; exact admits_accepts ha, by rw [r1, r3]; exact admits_accepts ha⟩

/-- the value a transformed parameter starts from is within `2 tiny` of the initial value (for
every value accepted by the constraint), and is the initial value when that is at least `tiny`
away from every closed bound and `2 tiny` away from every open bound -/
theorem wrap_nudge (tiny : ℝ) (ht : 0 < tiny) (sh : Shape ℝ) (v : ℝ) (h : Admits tiny sh v) :
    |corrected tiny sh v - v| ≤ 2 * tiny ∧ sh.Inner tiny (corrected tiny sh v) ∧
      (NotNudged tiny sh v → corrected tiny sh v = v) :=
  ⟨corrected_close ht h, corrected_inner ht h, corrected_eq_self⟩

/-- right after the construction every slot satisfies the invariant, the wrapped function's value
is within `2 tiny` of the back-transformed coordinate, and equal to it when `init_` did not move
the initial value -/
theorem wrap_tracks (pi tiny : ℝ) (ht : 0 < tiny) (ps : List (Shape ℝ × ℝ))
    (h : ∀ p ∈ ps, Admits tiny p.1 p.2) :
    ∃ w, init pi tiny ps = .ok w ∧ List.Forall₂ (Tracks pi tiny) ps w := by
  obtain ⟨w, hw, hrel⟩ := init_spec (pi := pi) ht ps h
  refine ⟨w, hw, ?_⟩
  have : List.Forall₂ (fun p s => InitRel pi tiny p s ∧ Admits tiny p.1 p.2) ps w :=
    forall₂_and_left (P := fun p => Admits tiny p.1 p.2) hrel h
  refine forall₂_imp_right ?_ this
  rintro p s ⟨⟨r1, r2, r3, r4, r5⟩, ha⟩
  refine ⟨r1, ⟨by rw [r1]; exact r4, by rw [r1]; exact admits_wide ht ha,
      by rw [r1, r2]; exact admits_accepts ha, by rw [r1, r3]; exact admits_accepts ha⟩, ⟨?_, ?_⟩, ?_⟩
  · rw [r3, r5, abs_sub_comm]; exact corrected_close ht ha
  · exact Or.inl (by rw [r2, r3])
  · intro hn
    exact ⟨by rw [r3, r5, corrected_eq_self hn], by rw [r2, r3]⟩

/-- ... hence the two coordinate systems agree right after the construction when no value is
closer than `tiny` to a closed bound or `2 tiny` to an open bound -/
theorem wrap_in_sync (pi tiny : ℝ) (ht : 0 < tiny) (ps : List (Shape ℝ × ℝ))
    (h : ∀ p ∈ ps, Admits tiny p.1 p.2) (hn : ∀ p ∈ ps, NotNudged tiny p.1 p.2) :
    ∃ w, init pi tiny ps = .ok w ∧ (∀ s ∈ w, SlotInv tiny s) ∧ (∀ s ∈ w, Sync pi s) ∧
      w.length = ps.length := by
  obtain ⟨w, hw, htr⟩ := wrap_tracks pi tiny ht ps h
  refine ⟨w, hw, ?_, ?_, htr.length_eq.symm⟩
  · exact forall₂_right (R := Tracks pi tiny) (fun p s r => r.2.1) htr
  · have : List.Forall₂ (fun p s => Tracks pi tiny p s ∧ NotNudged tiny p.1 p.2) ps w :=
      forall₂_and_left (P := fun p => NotNudged tiny p.1 p.2) htr hn
    exact forall₂_right (R := fun p s => Tracks pi tiny p s ∧ NotNudged tiny p.1 p.2)
      (fun p s r => r.1.2.2.2 r.2) this

/-! ## Back-transformation -/

/-- For each of the eight bound configurations and every real coordinate, the back-transformed
value satisfies the original constraint: the wrapped function is only ever evaluated at feasible
points. -/
theorem wrapper_back_in_domain (pi tiny : ℝ) (ht : 0 < tiny) (sh : Shape ℝ) (tp : TP ℝ)
    (hm : Matches tiny sh tp) (hw : sh.Wide tiny) (x : ℝ) :
    sh.Accepts ((tp.setX x).getOriginal pi) :=
  matches_accepts ht (matches_setX hm x) hw

/-- `setParameters` (hence `f(parameters)`) never raises on a wrapper satisfying the invariant,
for any real values of any subset of the coordinates; the invariant is preserved -/
theorem set_never_raises (pi tiny : ℝ) (ht : 0 < tiny) (w : W ℝ) (upd : List (Option ℝ))
    (hinv : ∀ s ∈ w, SlotInv tiny s) (hlen : upd.length = w.length) :
    ∃ w', Reparam.set pi w upd = .ok w' ∧ (∀ s ∈ w', SlotInv tiny s) ∧ w'.length = w.length := by
  refine ⟨_, set_real ht w upd hinv hlen, ?_, ?_⟩
  · exact forall_zipWith (P := SlotInv tiny) (fun s u hs => setSlot_inv ht _ s u hs) w upd hinv
  · simp [hlen]

/-- if the two coordinate systems agree before `setParameters`, they agree after it (whatever
subset of the coordinates is given) -/
theorem set_sync (pi tiny : ℝ) (ht : 0 < tiny) (w : W ℝ) (upd : List (Option ℝ))
    (hinv : ∀ s ∈ w, SlotInv tiny s) (hlen : upd.length = w.length) (hs : ∀ s ∈ w, Sync pi s)
    (w' : W ℝ) (h : Reparam.set pi w upd = .ok w') : ∀ s ∈ w', Sync pi s := by
  rw [set_real ht w upd hinv hlen] at h
  injection h with h
  subst h
  exact sync_zipWith pi _ w upd hs (fun h => h)

/-- when every coordinate is given and at least one changes, the coordinate systems agree afterwards
even if they did not before (e.g. after a construction that nudged a value) -/
theorem set_all_sync (pi tiny : ℝ) (ht : 0 < tiny) (w : W ℝ) (xs : List ℝ)
    (hinv : ∀ s ∈ w, SlotInv tiny s) (hlen : xs.length = w.length)
    (hch : (List.zipWith changed w (xs.map some)).any id = true)
    (w' : W ℝ) (h : Reparam.set pi w (xs.map some) = .ok w') : ∀ s ∈ w', Sync pi s := by
  rw [set_real ht w _ hinv (by simpa using hlen), hch] at h
  injection h with h
  subst h
  intro s' hs'
  have : ∀ (w : W ℝ) (xs : List ℝ), ∀ s' ∈ List.zipWith (setSlot pi true) w (xs.map some), Sync pi s' := by
    intro w
    induction w with
    | nil => intro xs s' hs'; simp at hs'
    | cons s w ih =>
      intro xs s' hs'
      cases xs with
      | nil => simp at hs'
      | cons x xs =>
        simp only [List.map_cons, List.zipWith_cons_cons, List.mem_cons] at hs'
        rcases hs' with rfl | hs'
        · simp [setSlot, Sync]
        · exact ih xs s' hs'
  exact this w xs s' hs'

/-- the wrapper's value is the wrapped function at the back-transformed point -/
theorem wrap_f_eq (pi : ℝ) (f : List ℝ → ℝ) (w : W ℝ) (hs : ∀ s ∈ w, Sync pi s) :
    Reparam.value f w = f (origs pi w) := by
  unfold Reparam.value; rw [fnVals_eq_origs hs]

/-- All histories: starting from a construction with admissible, non-nudged values, any sequence of
`setParameters` calls with any subsets of coordinates and any real values succeeds, and after it
the wrapper's value is the wrapped function at the back-transformed point, which satisfies every
original constraint. -/
theorem all_histories (pi tiny : ℝ) (ht : 0 < tiny) (f : List ℝ → ℝ) (ps : List (Shape ℝ × ℝ))
    (h : ∀ p ∈ ps, Admits tiny p.1 p.2) (hn : ∀ p ∈ ps, NotNudged tiny p.1 p.2)
    (upds : List (List (Option ℝ))) (hl : ∀ u ∈ upds, u.length = ps.length) :
    ∃ w0 w, init pi tiny ps = .ok w0 ∧ Reparam.run pi w0 upds = .ok w ∧
      Reparam.value f w = f (origs pi w) ∧
      (∀ s ∈ w, s.shape.Accepts s.fn ∧ s.fn = s.tp.getOriginal pi) := by
  obtain ⟨w0, hw0, hinv0, hsync0, hlen0⟩ := wrap_in_sync pi tiny ht ps h hn
  have key : ∀ (upds : List (List (Option ℝ))) (w : W ℝ), (∀ u ∈ upds, u.length = w.length) →
      (∀ s ∈ w, SlotInv tiny s) → (∀ s ∈ w, Sync pi s) →
      ∃ w', Reparam.run pi w upds = .ok w' ∧ (∀ s ∈ w', SlotInv tiny s) ∧ (∀ s ∈ w', Sync pi s) := by
    intro upds
    induction upds with
    | nil => intro w _ hi hs; exact ⟨w, rfl, hi, hs⟩
    | cons u us ih =>
      intro w hl hi hs
      obtain ⟨w1, e1, hi1, hlen1⟩ := set_never_raises pi tiny ht w u hi (hl u (by simp))
      have hs1 := set_sync pi tiny ht w u hi (hl u (by simp)) hs w1 e1
      obtain ⟨w2, e2, hi2, hs2⟩ := ih w1 (fun v hv => by rw [hlen1]; exact hl v (by simp [hv])) hi1 hs1
      exact ⟨w2, by simp [Reparam.run, e1, e2], hi2, hs2⟩
  obtain ⟨w, e, hi, hs⟩ := key upds w0 (fun u hu => by rw [hlen0]; exact hl u hu) hinv0 hsync0
  exact ⟨w0, w, hw0, e, wrap_f_eq pi f w hs, fun s hs' => ⟨(hi s hs').fn, (hs s hs').1⟩⟩

/-- All histories, for *every* initial value accepted by its constraint (including a value in the
sliver `init_` removes next to an open bound, or on a closed bound): wrapping succeeds, any sequence
of `setParameters` calls with any subsets of coordinates and any real values succeeds, and
afterwards, parameter by parameter, the wrapped function stands at a point that satisfies the
original constraint, at most `2 tiny` away from the back-transformed coordinate, and exactly at the
back-transformed coordinate when `init_` did not have to move the initial value.  (A coordinate that
was moved stays up to `2 tiny` off until it is named in an update that changes something; see
`set_all_sync`: an update of all the coordinates that changes one re-synchronises everything.) -/
theorem all_histories_accepted (pi tiny : ℝ) (ht : 0 < tiny) (ps : List (Shape ℝ × ℝ))
    (h : ∀ p ∈ ps, Admits tiny p.1 p.2)
    (upds : List (List (Option ℝ))) (hl : ∀ u ∈ upds, u.length = ps.length) :
    ∃ w0 w, init pi tiny ps = .ok w0 ∧ Reparam.run pi w0 upds = .ok w ∧
      List.Forall₂ (fun p s => s.shape = p.1 ∧ p.1.Accepts s.fn ∧
        |s.fn - s.tp.getOriginal pi| ≤ 2 * tiny ∧
        (NotNudged tiny p.1 p.2 → s.fn = s.tp.getOriginal pi)) ps w := by
  obtain ⟨w0, hw0, htr0⟩ := wrap_tracks pi tiny ht ps h
  have key : ∀ (upds : List (List (Option ℝ))) (w : W ℝ), (∀ u ∈ upds, u.length = w.length) →
      List.Forall₂ (Tracks pi tiny) ps w →
      ∃ w', Reparam.run pi w upds = .ok w' ∧ List.Forall₂ (Tracks pi tiny) ps w' := by
    intro upds
    induction upds with
    | nil => intro w _ ht; exact ⟨w, rfl, ht⟩
    | cons u us ih =>
      intro w hl htr
      have hinv : ∀ s ∈ w, SlotInv tiny s := forall₂_right (R := Tracks pi tiny) (fun p s r => r.2.1) htr
      have hlen := hl u (by simp)
      have e1 := set_real (pi := pi) ht w u hinv hlen
      have htr1 : List.Forall₂ (Tracks pi tiny) ps
          (List.zipWith (setSlot pi ((List.zipWith changed w u).any id)) w u) :=
        forall₂_zipWith_right
          (Q := fun s u' => (List.zipWith changed w u).any id = false → changed s u' = false)
          (fun p s u' hq hp => setSlot_tracks ht _ p s u' hq hp) htr u hlen
          (fun p hp hc => changed_of_any_false w u hc p hp)
      obtain ⟨w2, e2, htr2⟩ := ih _ (fun v hv => by
        rw [List.length_zipWith, hlen, Nat.min_self]; exact hl v (by simp [hv])) htr1
      exact ⟨w2, by simp [Reparam.run, e1, e2], htr2⟩
  obtain ⟨w, e, htr⟩ := key upds w0 (fun u hu => by rw [← htr0.length_eq]; exact hl u hu) htr0
  refine ⟨w0, w, hw0, e, forall₂_imp_right ?_ htr⟩
  rintro p s ⟨r1, r2, r3, r4⟩
  exact ⟨r1, by rw [← r1]; exact r2.fn, r3.1, fun hn => (r4 hn).1⟩

/-! ## Derivatives: the chain rule -/

/-- for every transformed parameter `init_` can build, `getFirstOrderDerivative` is the derivative
of the back-transformation with respect to the transformed coordinate -/
theorem tp_d1_is_derivative (pi : ℝ) (tp : TP ℝ) (h : TPWF tp) :
    HasDerivAt (fun x => (tp.setX x).getOriginal pi) (tp.d1 pi) tp.x := by
  cases tp with
  | r t =>
    have := r_d1_is_derivative t h
    simpa [TP.setX, TP.getOriginal, TP.d1, TP.x, RT.at] using this
  | i t =>
    have := interval_d1_is_derivative_hyper pi t h.1 h.2.1.ne' h.2.2
    simpa [TP.setX, TP.getOriginal, TP.d1, TP.x, IT.at] using this
  | p x0 =>
    have h0 : HasDerivAt (fun x : ℝ => x) 1 x0 := hasDerivAt_id x0
    simpa [TP.setX, TP.getOriginal, TP.d1, TP.x] using h0

/-- Full statement: `getSecondOrderDerivative` is the derivative of `getFirstOrderDerivative` at every
coordinate.  False for a half-line transform at the junction `x = 0` (`r_d2_not_derivative_at_junction`;
reached e.g. by `[a,+inf[` wrapped at the value `a + 1`), so this guarded version excludes it; the
statement that holds everywhere is `tp_d2_is_right_derivative`. -/
theorem tp_d2_is_derivative_partial (pi : ℝ) (tp : TP ℝ) (h : TPWF tp)
    (hx : ∀ t, tp = .r t → t.x ≠ 0) :
    HasDerivAt (fun x => (tp.setX x).d1 pi) (tp.d2 pi) tp.x := by
  cases tp with
  | r t =>
    have := r_d2_is_derivative_partial t h (hx t rfl)
    simpa [TP.setX, TP.d1, TP.d2, TP.x, RT.at] using this
  | i t =>
    have := interval_d2_is_derivative pi t h.2.1.ne' (by simp [h.1])
    simpa [TP.setX, TP.d1, TP.d2, TP.x, IT.at] using this
  | p x0 =>
    simpa [TP.setX, TP.d1, TP.d2, TP.x] using hasDerivAt_const x0 (1 : ℝ)

/-- the junction is reached by ordinary inputs: `[0,+inf[` wrapped at the value `1` starts at the
transformed coordinate `0` (so the exclusion in `tp_d2_is_derivative_partial`, `chain_rule_2_partial`
is a real one, and `*_right` are the statements that cover it) -/
example (pi tiny : ℝ) (_ht : 0 < tiny) (ht1 : tiny < 1) :
    ∃ t, initOne pi tiny (Shape.ge (0:ℝ)) 1 = some (TP.r t) ∧ t.x = 0 ∧ t.scale = 1 ∧ t.positive = true := by
  have hc : corrected tiny (Shape.ge (0:ℝ)) 1 = 1 := by
    simp only [corrected, correctLower_real]
    rw [if_neg]; simp; linarith
  refine ⟨{ scale := 1, bound := 0, positive := true, x := 0 }, ?_, rfl, rfl, rfl⟩
  simp only [initOne, hc, RT.new]
  rw [RT.setOriginal_real]
  simp [RT.fwdR]

/-- for every transformed parameter `init_` can build and at **every** coordinate — the half-line
junction included — `getSecondOrderDerivative` is the right derivative of `getFirstOrderDerivative` -/
theorem tp_d2_is_right_derivative (pi : ℝ) (tp : TP ℝ) (h : TPWF tp) :
    HasDerivWithinAt (fun x => (tp.setX x).d1 pi) (tp.d2 pi) (Set.Ici tp.x) tp.x := by
  cases tp with
  | r t =>
    have := r_d2_is_right_derivative t h
    simpa [TP.setX, TP.d1, TP.d2, TP.x, RT.at] using this
  | i t =>
    have := (interval_d2_is_derivative pi t h.2.1.ne' (by simp [h.1])).hasDerivWithinAt (s := Set.Ici t.x)
    simpa [TP.setX, TP.d1, TP.d2, TP.x, IT.at] using this
  | p x0 =>
    simpa [TP.setX, TP.d1, TP.d2, TP.x] using hasDerivWithinAt_const x0 (Set.Ici x0) (1 : ℝ)

/-- every transformed parameter `init_` can build is a strictly monotone change of variable:
increasing, except for `]-inf,b[` / `]-inf,b]` which use the (decreasing) mirror image -/
theorem tp_strict_mono (pi : ℝ) (tp : TP ℝ) (h : TPWF tp) :
    (∀ t, tp = .r t → t.positive = false → StrictAnti (fun x => (tp.setX x).getOriginal pi)) ∧
    ((∀ t, tp = .r t → t.positive = true) → StrictMono (fun x => (tp.setX x).getOriginal pi)) := by
  cases tp with
  | r t =>
    have hm := r_strict_mono t h
    have e : (fun x => ((TP.r t).setX x).getOriginal pi) = fun x => (t.at x).getOriginal := by
      funext x; simp [TP.setX, TP.getOriginal, RT.at]
    rw [e]
    constructor
    · intro t' ht' hp
      injection ht' with ht'; subst ht'
      simpa [hp] using hm
    · intro hp
      have := hp t rfl
      simpa [this] using hm
  | i t =>
    have hm := interval_strict_mono_hyper pi t h.1 h.2.1 h.2.2
    have e : (fun x => ((TP.i t).setX x).getOriginal pi) = fun x => IT.getOriginal pi (t.at x) := by
      funext x; simp [TP.setX, TP.getOriginal, IT.at]
    rw [e]
    exact ⟨fun t' ht' => (by cases ht'), fun _ => hm⟩
  | p x0 =>
    refine ⟨fun t' ht' => (by cases ht'), fun _ => ?_⟩
    have e : (fun x => ((TP.p x0 : TP ℝ).setX x).getOriginal pi) = fun x => x := by
      funext x; simp [TP.setX, TP.getOriginal]
    rw [e]; exact strictMono_id

/-- Chain rule, first order.  `w` is a wrapper whose slot `i` is `s`; the wrapped function `f` has
partial derivative `df p i` with respect to its `i`-th parameter at the back-transformed point.
Then the wrapper's value, as a function of the `i`-th transformed coordinate, has derivative
`df(...) i * getFirstOrderDerivative` — the product `getFirstOrderDerivative(variable)` returns
(h:153-157). -/
theorem chain_rule_1 (pi : ℝ) (f : List ℝ → ℝ) (df : List ℝ → Nat → ℝ) (w : W ℝ) (i : Nat)
    (s : Slot ℝ) (hi : w[i]? = some s) (hwf : TPWF s.tp) (hsync : ∀ s ∈ w, Sync pi s)
    (hf : HasDerivAt (fun y => f ((origs pi w).set i y)) (df (origs pi w) i) (s.tp.getOriginal pi)) :
    ∃ d, Reparam.d1 pi df w i = some d ∧
      HasDerivAt (fun x => f (origs pi (w.set i (s.atX x)))) d s.tp.x := by
  refine ⟨df (origs pi w) i * s.tp.d1 pi, ?_, ?_⟩
  · simp [Reparam.d1, hi, fnVals_eq_origs hsync]
  · have hT := tp_d1_is_derivative pi s.tp hwf
    have e : (fun x => f (origs pi (w.set i (s.atX x))))
        = (fun y => f ((origs pi w).set i y)) ∘ (fun x => (s.tp.setX x).getOriginal pi) := by
      funext x; simp [origs_set]
    rw [e]
    apply HasDerivAt.comp
    · simpa using hf
    · exact hT

/-- Full statement: the wrapper's `getSecondOrderDerivative(variable)` is the derivative of its first
derivative with respect to the transformed coordinate, at every coordinate.  False at the junction
`x = 0` of a half-line transform (`hx` excludes it; `r_d2_not_derivative_at_junction`): there the
statement that holds is `chain_rule_2_right`.  Chain rule, second order, same variable: the derivative of the wrapper's first derivative is
`f'' * T'^2 + f' * T''` (h:207-213) -/
theorem chain_rule_2_partial (pi : ℝ) (df : List ℝ → Nat → ℝ) (d2f : List ℝ → Nat → Nat → ℝ) (w : W ℝ)
    (i : Nat) (s : Slot ℝ) (hi : w[i]? = some s) (hwf : TPWF s.tp) (hsync : ∀ s ∈ w, Sync pi s)
    (hx : ∀ t, s.tp = .r t → t.x ≠ 0)
    (hf2 : HasDerivAt (fun y => df ((origs pi w).set i y) i) (d2f (origs pi w) i i) (s.tp.getOriginal pi)) :
    ∃ d, Reparam.d2 pi df d2f w i = some d ∧
      HasDerivAt (fun x => df (origs pi (w.set i (s.atX x))) i * (s.tp.setX x).d1 pi) d s.tp.x := by
  refine ⟨d2f (origs pi w) i i * (s.tp.d1 pi) ^ 2 + df (origs pi w) i * s.tp.d2 pi, ?_, ?_⟩
  · simp [Reparam.d2, hi, fnVals_eq_origs hsync]
  · have hT := tp_d1_is_derivative pi s.tp hwf
    have hT2 := tp_d2_is_derivative_partial pi s.tp hwf hx
    have e : (fun x => df (origs pi (w.set i (s.atX x))) i)
        = (fun y => df ((origs pi w).set i y) i) ∘ (fun x => (s.tp.setX x).getOriginal pi) := by
      funext x; simp [origs_set]
    have hA : HasDerivAt (fun x => df (origs pi (w.set i (s.atX x))) i)
        (d2f (origs pi w) i i * s.tp.d1 pi) s.tp.x := by
      rw [e]
      apply HasDerivAt.comp
      · simpa using hf2
      · exact hT
    have := hA.mul hT2
    refine this.congr_deriv ?_
    have e0 : origs pi (w.set i (s.atX s.tp.x)) = origs pi w := by
      rw [origs_set]; simp only [setX_self]
      unfold origs
      apply List.ext_getElem? ; intro k
      by_cases hk : k = i
      · subst hk; simp [List.getElem?_set, hi]
        rcases lt_or_ge k w.length with hl | hl
        · simp [hl]
        · simp [List.getElem?_eq_none hl] at hi
      · simp [Ne.symm hk]
    simp only [setX_self, e0]
    ring

/-- Chain rule, second order, same variable, **at every coordinate** (no exclusion of the half-line
junction): the wrapper's second derivative is the *right* derivative of its first derivative with
respect to the transformed coordinate: the derivative of the wrapper's first derivative is
`f'' * T'^2 + f' * T''` (h:207-213) -/
theorem chain_rule_2_right (pi : ℝ) (df : List ℝ → Nat → ℝ) (d2f : List ℝ → Nat → Nat → ℝ) (w : W ℝ)
    (i : Nat) (s : Slot ℝ) (hi : w[i]? = some s) (hwf : TPWF s.tp) (hsync : ∀ s ∈ w, Sync pi s)
    (hf2 : HasDerivAt (fun y => df ((origs pi w).set i y) i) (d2f (origs pi w) i i) (s.tp.getOriginal pi)) :
    ∃ d, Reparam.d2 pi df d2f w i = some d ∧
      HasDerivWithinAt (fun x => df (origs pi (w.set i (s.atX x))) i * (s.tp.setX x).d1 pi) d
        (Set.Ici s.tp.x) s.tp.x := by
  refine ⟨d2f (origs pi w) i i * (s.tp.d1 pi) ^ 2 + df (origs pi w) i * s.tp.d2 pi, ?_, ?_⟩
  · simp [Reparam.d2, hi, fnVals_eq_origs hsync]
  · have hT := tp_d1_is_derivative pi s.tp hwf
    have hT2 := tp_d2_is_right_derivative pi s.tp hwf
    have e : (fun x => df (origs pi (w.set i (s.atX x))) i)
        = (fun y => df ((origs pi w).set i y) i) ∘ (fun x => (s.tp.setX x).getOriginal pi) := by
      funext x; simp [origs_set]
    have hA : HasDerivAt (fun x => df (origs pi (w.set i (s.atX x))) i)
        (d2f (origs pi w) i i * s.tp.d1 pi) s.tp.x := by
      rw [e]
      apply HasDerivAt.comp
      · simpa using hf2
      · exact hT
    have := hA.hasDerivWithinAt.mul hT2
    refine this.congr_deriv ?_
    have e0 : origs pi (w.set i (s.atX s.tp.x)) = origs pi w := by
      rw [origs_set]; simp only [setX_self]
      unfold origs
      apply List.ext_getElem? ; intro k
      by_cases hk : k = i
      · subst hk; simp [List.getElem?_set, hi]
        rcases lt_or_ge k w.length with hl | hl
        · simp [hl]
        · simp [List.getElem?_eq_none hl] at hi
      · simp [Ne.symm hk]
    simp only [setX_self, e0]
    ring

/-- Chain rule, second order, two *different* variables: `f_ij * T_i' * T_j'` (h:215-222).  `hij` is
used: for the same variable twice the two-argument overload is the one-argument one
(`chain_rule_2_diag`), whose value has the additional `f_i T_i''` term. -/
theorem chain_rule_2_cross (pi : ℝ) (df : List ℝ → Nat → ℝ) (d2f : List ℝ → Nat → Nat → ℝ) (w : W ℝ)
    (i j : Nat) (hij : i ≠ j) (si sj : Slot ℝ) (hi : w[i]? = some si) (hj : w[j]? = some sj)
    (hwf : TPWF sj.tp) (hsync : ∀ s ∈ w, Sync pi s)
    (hfx : HasDerivAt (fun y => df ((origs pi w).set j y) i) (d2f (origs pi w) i j) (sj.tp.getOriginal pi)) :
    ∃ d, Reparam.d2x pi df d2f w i j = some d ∧
      HasDerivAt (fun x => df (origs pi (w.set j (sj.atX x))) i * si.tp.d1 pi) d sj.tp.x := by
  refine ⟨d2f (origs pi w) i j * si.tp.d1 pi * sj.tp.d1 pi, ?_, ?_⟩
  · simp [Reparam.d2x, hij, hi, hj, fnVals_eq_origs hsync]
  · have hT := tp_d1_is_derivative pi sj.tp hwf
    have e : (fun x => df (origs pi (w.set j (sj.atX x))) i)
        = (fun y => df ((origs pi w).set j y) i) ∘ (fun x => (sj.tp.setX x).getOriginal pi) := by
      funext x; simp [origs_set]
    have hA : HasDerivAt (fun x => df (origs pi (w.set j (sj.atX x))) i)
        (d2f (origs pi w) i j * sj.tp.d1 pi) sj.tp.x := by
      rw [e]
      apply HasDerivAt.comp
      · simpa using hfx
      · exact hT
    refine (hA.mul_const (si.tp.d1 pi)).congr_deriv ?_
    ring

/-- The two-argument overload called with the same variable twice (the diagonal of a Hessian loop,
`SecondOrderDerivable::d2f(v, v, parameters)`) *is* the one-argument overload, so `chain_rule_2_partial`
/ `chain_rule_2_right` describe it.  (Before the `fix:` "getSecondOrderDerivative(v, v)" of
findings/C11.json it returned `f_ii T'^2` and dropped `f_i T''`: witness
`d2x_diag_before_fix_differs`.) -/
theorem chain_rule_2_diag (pi : ℝ) (df : List ℝ → Nat → ℝ) (d2f : List ℝ → Nat → Nat → ℝ) (w : W ℝ)
    (i : Nat) : Reparam.d2x pi df d2f w i i = Reparam.d2 pi df d2f w i := by
  simp [Reparam.d2x]

/-- what the diagonal call returned before the repair is not the second derivative: for `f(p) = p`
behind the half-line transform of `[0,+inf[` at the coordinate `-1` the formula `f_ii T'^2` gives `0`
while the second derivative `f_ii T'^2 + f_i T''` is `exp(-1)` -/
theorem d2x_diag_before_fix_differs :
    let s : Slot ℝ := ⟨.r ⟨1, 0, true, -1⟩, Shape.ge 0, Real.exp (-1), Real.exp (-1)⟩
    (0 : ℝ) * s.tp.d1 (0 : ℝ) * s.tp.d1 0 ≠ Real.exp (-1) ∧
    Reparam.d2 (0 : ℝ) (fun _ _ => 1) (fun _ _ _ => 0) [s] 0 = some (Real.exp (-1)) := by
  refine ⟨by simpa using (Real.exp_pos (-1)).ne, ?_⟩
  simp [Reparam.d2, TP.d1, TP.d2, RT.d1_real, RT.d2_real]

/-- the factor used in `chain_rule_2_cross` is the wrapper's first derivative with respect to
`i`, which does not depend on the `j`-th transformed coordinate except through the point -/
theorem d1_after_other_coordinate (pi : ℝ) (df : List ℝ → Nat → ℝ) (w : W ℝ) (i j : Nat)
    (hij : i ≠ j) (si sj : Slot ℝ) (hi : w[i]? = some si) (x : ℝ) :
    Reparam.d1 pi df (w.set j (sj.atX x)) i
      = some (df (fnVals (w.set j (sj.atX x))) i * si.tp.d1 pi) := by
  simp [Reparam.d1, Ne.symm hij, hi]

/-! ## With the library's constants (regenerated from NumConstants.h on every run) -/

theorem wrap_preserves_values_lib (ps : List (Shape ℝ × ℝ)) (h : ∀ p ∈ ps, Admits libTINY p.1 p.2) :
    ∃ w, init libPI libTINY ps = .ok w ∧
      fnVals w = ps.map (·.2) ∧ w.map (·.fp) = ps.map (·.2) ∧ w.map (·.shape) = ps.map (·.1) ∧
      origs libPI w = ps.map (fun p => corrected libTINY p.1 p.2) ∧
      (∀ s ∈ w, SlotInv libTINY s) :=
  wrap_preserves_values libPI libTINY libTINY_pos ps h

theorem all_histories_accepted_lib (ps : List (Shape ℝ × ℝ))
    (h : ∀ p ∈ ps, Admits libTINY p.1 p.2)
    (upds : List (List (Option ℝ))) (hl : ∀ u ∈ upds, u.length = ps.length) :
    ∃ w0 w, init libPI libTINY ps = .ok w0 ∧ Reparam.run libPI w0 upds = .ok w ∧
      List.Forall₂ (fun p s => s.shape = p.1 ∧ p.1.Accepts s.fn ∧
        |s.fn - s.tp.getOriginal libPI| ≤ 2 * libTINY ∧
        (NotNudged libTINY p.1 p.2 → s.fn = s.tp.getOriginal libPI)) ps w :=
  all_histories_accepted libPI libTINY libTINY_pos ps h upds hl

theorem all_histories_lib (f : List ℝ → ℝ) (ps : List (Shape ℝ × ℝ))
    (h : ∀ p ∈ ps, Admits libTINY p.1 p.2) (hn : ∀ p ∈ ps, NotNudged libTINY p.1 p.2)
    (upds : List (List (Option ℝ))) (hl : ∀ u ∈ upds, u.length = ps.length) :
    ∃ w0 w, init libPI libTINY ps = .ok w0 ∧ Reparam.run libPI w0 upds = .ok w ∧
      Reparam.value f w = f (origs libPI w) ∧
      (∀ s ∈ w, s.shape.Accepts s.fn ∧ s.fn = s.tp.getOriginal libPI) :=
  all_histories libPI libTINY libTINY_pos f ps h hn upds hl

/-- The property as quantified: for functions with any number of parameters mixing all eight bound
configurations (and unconstrained ones), initial values inside their constraints at least `1e-9`
away from every finite bound, and any history of updates of any subsets of the transformed
coordinates with any real values: wrapping succeeds, no update raises, and afterwards the wrapper's
value is the wrapped function evaluated at the back-transformed point, which satisfies all the
original constraints. -/
theorem all_histories_margin (f : List ℝ → ℝ) (ps : List (Shape ℝ × ℝ))
    (h : ∀ p ∈ ps, Margin p.1 p.2)
    (upds : List (List (Option ℝ))) (hl : ∀ u ∈ upds, u.length = ps.length) :
    ∃ w0 w, init libPI libTINY ps = .ok w0 ∧ fnVals w0 = ps.map (·.2) ∧
      origs libPI w0 = ps.map (·.2) ∧
      Reparam.run libPI w0 upds = .ok w ∧
      Reparam.value f w = f (origs libPI w) ∧
      (∀ s ∈ w, s.shape.Accepts s.fn ∧ s.fn = s.tp.getOriginal libPI) := by
  have ha : ∀ p ∈ ps, Admits libTINY p.1 p.2 := fun p hp => (margin_admits (h p hp)).1
  have hn : ∀ p ∈ ps, NotNudged libTINY p.1 p.2 := fun p hp => (margin_admits (h p hp)).2
  obtain ⟨w0, w, e0, e1, e2, e3⟩ := all_histories_lib f ps ha hn upds hl
  obtain ⟨w0', e0', f1, _, _, f4, _⟩ := wrap_preserves_values_lib ps ha
  have : w0' = w0 := by rw [e0] at e0'; injection e0' with e; exact e.symm
  subst this
  refine ⟨w0', w, e0, f1, ?_, e1, e2, e3⟩
  rw [f4]
  apply List.map_congr_left
  intro p hp
  exact corrected_eq_self (hn p hp)

/-! ## Non-vacuity: the hypotheses are satisfiable -/

/-- `TINY()` is small: the hypotheses `Admits`/`NotNudged` hold for ordinary data -/
theorem libTINY_lt : (libTINY : ℝ) < 1 / 1000 := by
  simp only [libTINY, Generated.TransformConstants.TINY, ScalarReal.ofRat_eq]
  norm_num

/-- admissible: ordinary values, a value on a closed bound, and values in the sliver of width
`TINY()` next to an open bound -/
example : ∀ p ∈ [((Shape.cc 0 1 : Shape ℝ), (1 / 2 : ℝ)), (Shape.gt 0, libTINY / 2),
    (Shape.oo (-1) 1, -1 + libTINY / 2), (Shape.le 3, 3), (Shape.none, 7)],
    Admits libTINY p.1 p.2 := by
  have h1 := libTINY_pos
  have h2 := libTINY_lt
  intro p hp
  simp only [List.mem_cons, List.not_mem_nil, or_false] at hp
  rcases hp with rfl | rfl | rfl | rfl | rfl <;>
    simp only [Admits, Shape.Accepts, Shape.Roomy] <;> refine ⟨?_, ?_⟩ <;>
    (try constructor) <;> first | trivial | linarith

example : ∀ p ∈ [((Shape.cc 0 1 : Shape ℝ), (1 / 2 : ℝ)), (Shape.gt 0, 2), (Shape.oo (-1) 1, 0)],
    NotNudged libTINY p.1 p.2 := by
  have h1 := libTINY_pos
  have h2 := libTINY_lt
  intro p hp
  simp only [List.mem_cons, List.not_mem_nil, or_false] at hp
  rcases hp with rfl | rfl | rfl <;> simp only [NotNudged]
  · constructor <;> norm_num <;> linarith
  · linarith
  · constructor <;> linarith

/-- the value in the sliver next to the open bound of `]0,+inf[` is moved to `2 TINY()` -/
example : corrected (libTINY : ℝ) (Shape.gt (0 : ℝ)) ((libTINY : ℝ) / 2)
    = (0 : ℝ) + libTINY + libTINY := by
  have h1 := libTINY_pos
  simp only [corrected, correctLowerOpen_real]
  rw [if_pos (by linarith)]

/-- the chain rule applies to an actual function: `f(p) = p₀²` behind a placebo transform -/
example : ∃ d, Reparam.d1 libPI (fun p _ => 2 * p.headD 0) [Slot.mk (TP.p 3) Shape.none 3 3] 0 = some d ∧
    HasDerivAt (fun x => (fun p : List ℝ => (p.headD 0) ^ 2)
      (origs libPI ([Slot.mk (TP.p 3) Shape.none 3 3].set 0 ((Slot.mk (TP.p 3) Shape.none 3 3).atX x)))) d 3 := by
  have := chain_rule_1 libPI (fun p : List ℝ => (p.headD 0) ^ 2) (fun p _ => 2 * p.headD 0)
    [Slot.mk (TP.p 3) Shape.none 3 3] 0 (Slot.mk (TP.p 3) Shape.none 3 3) rfl trivial
    (by intro s hs; simp at hs; subst hs; simp [Sync, TP.getOriginal])
    (by
      have h : HasDerivAt (fun y : ℝ => y ^ 2) (2 * 3) 3 := by simpa using hasDerivAt_pow 2 (3 : ℝ)
      simpa [origs, TP.getOriginal] using h)
  simpa [TP.x] using this

end Bpp.C11
