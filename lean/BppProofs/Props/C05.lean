import BppProofs.Lemmas.LU
/-!
# C05 — LU decomposition: solve, inverse, determinant
(`src/Bpp/Numeric/Matrix/LUDecomposition.h`, `MatrixTools::inv`, `MatrixTools::det`)

Property theorems only; helper lemmas are in `Lemmas/LU.lean`.  All statements are about the
model `Bpp.LU` instantiated at `ℝ` (exact arithmetic: rounding is not modelled), for every size.
`toMatrix` reads a model matrix as a Mathlib `Matrix (Fin m) (Fin n) ℝ`; `matMul`, `permuteRows`,
`UnitLower`, `Upper`, `PivInjective` are the executable definitions of `BppModel/LU.lean` that the
driver evaluates on the implementation's answers.
-/
namespace Bpp.C05
open Bpp Bpp.LU

/-! ## the constructor -/

/-- the constructor has defined behaviour exactly for matrices with at least as many rows as
columns (for `m < n` it reads `LU(m,m)`) -/
theorem construct_defined_iff {m n : Nat} (A : Mat ℝ m n) :
    (∃ s, construct A = .ok s) ↔ n ≤ m := by
  unfold construct
  constructor
  · rintro ⟨s, hs⟩
    by_cases h : n ≤ m
    · exact h
    · rw [dif_neg h] at hs; cases hs
  · intro h; exact ⟨factor h A, by rw [dif_pos h]⟩

theorem construct_square {n : Nat} (A : Mat ℝ n n) : construct A = .ok (factor (Nat.le_refl n) A) := by
  unfold construct; rw [dif_pos (Nat.le_refl n)]

/-- `getL` is unit lower triangular, whatever the state -/
theorem getL_unitLower {m n : Nat} (s : State ℝ m n) : UnitLower (getL s) := by
  intro i j
  simp only [getL, Mat.get_ofFn]
  constructor
  · intro h; simp [h]
  · intro h
    have h1 : ¬ j.val < i.val := by omega
    have h2 : ¬ i.val = j.val := by omega
    simp [h1, h2]

/-- `getU` is upper triangular, whatever the state -/
theorem getU_upper {m n : Nat} (h : n ≤ m) (s : State ℝ m n) : Upper (getU h s) := by
  intro i j hji
  simp only [getU, Mat.get_ofFn]
  rw [if_neg (by omega)]

/-- the pivot vector is a permutation of the row numbers -/
theorem piv_is_permutation {m n : Nat} (h : n ≤ m) (A : Mat ℝ m n) :
    ∃ σ : Equiv.Perm (Fin m), ∀ i : Fin m, (factor h A).piv[i.val]'i.isLt = σ i := by
  obtain ⟨σ, h1, _⟩ := permInv_factor h A
  exact ⟨σ, h1⟩

theorem piv_injective {m n : Nat} (h : n ≤ m) (A : Mat ℝ m n) : PivInjective (factor h A).piv := by
  obtain ⟨σ, h1⟩ := piv_is_permutation h A
  intro i j hij
  rw [h1 i, h1 j] at hij
  exact σ.injective hij

/-- **P·A = L·U**: for every `m × n` matrix with `n ≤ m` (in particular every square matrix) the
rows of `A` taken in the order of the pivot vector equal the product of the accessors' `L` and `U`;
`L` is unit lower triangular, `U` upper triangular, the pivot vector has no repetition.  Includes the
iterations skipped because of a zero pivot. -/
theorem lu_factor {m n : Nat} (h : n ≤ m) (A : Mat ℝ m n) :
    permuteRows (factor h A).piv A = matMul (getL (factor h A)) (getU h (factor h A)) ∧
    UnitLower (getL (factor h A)) ∧ Upper (getU h (factor h A)) ∧ PivInjective (factor h A).piv :=
  ⟨Mat.ext (factor_entries h A), getL_unitLower _, getU_upper h _, piv_injective h A⟩

/-- the same as an equation between Mathlib matrices: `P = (permutation matrix of σ)`, i.e.
`A.submatrix σ id = L * U` where `σ i = piv[i]` -/
theorem lu_factor_matrix {m n : Nat} (h : n ≤ m) (A : Mat ℝ m n) (σ : Equiv.Perm (Fin m))
    (hσ : ∀ i : Fin m, (factor h A).piv[i.val]'i.isLt = σ i) :
    (toMatrix A).submatrix σ id = toMatrix (getL (factor h A)) * toMatrix (getU h (factor h A)) := by
  obtain ⟨σ', h1, _, h3⟩ := factor_matrix h A
  have : σ = σ' := Equiv.ext fun i => by rw [← hσ i, h1 i]
  rw [this]; exact h3

/-- the sign kept by the constructor is the sign of the row permutation -/
theorem pivsign_eq_sign {m n : Nat} (h : n ≤ m) (A : Mat ℝ m n) (σ : Equiv.Perm (Fin m))
    (hσ : ∀ i : Fin m, (factor h A).piv[i.val]'i.isLt = σ i) :
    (factor h A).pivsign = ((Equiv.Perm.sign σ : ℤˣ) : ℤ) := by
  obtain ⟨σ', h1, h2, _⟩ := factor_matrix h A
  have : σ = σ' := Equiv.ext fun i => by rw [← hσ i, h1 i]
  rw [this]; exact h2



/-- ... and equals the executable sign `pivSignOf` (product over position pairs of `±1`) that the
driver evaluates on the implementation's pivot vector -/
theorem pivsign_eq_pivSignOf {m n : Nat} (h : n ≤ m) (A : Mat ℝ m n) :
    (factor h A).pivsign = pivSignOf (factor h A).piv := by
  obtain ⟨σ, h1, h2, _⟩ := factor_matrix h A
  rw [h2, pivSignOf_eq_sign _ σ h1]

/-- pivot search (`LUDecomposition.h:170-177`): the chosen row is at or below the diagonal, carries
the largest magnitude of the column from the diagonal down, and is the first such row (strict `>`) -/
theorem pivot_search_spec {m n : Nat} (W : Mat ℝ m n) (k : Fin n) (kr : Fin m) :
    kr.val ≤ (findPivot W k kr).val ∧
    (∀ i : Fin m, kr.val ≤ i.val → |W.get i k| ≤ |W.get (findPivot W k kr) k|) ∧
    (∀ i : Fin m, kr.val ≤ i.val → i.val < (findPivot W k kr).val → |W.get i k| < |W.get (findPivot W k kr) k|) :=
  ⟨(findPivot_spec W k kr).1, (findPivot_spec W k kr).2, findPivot_first W k kr⟩

/-- partial pivoting: every stored multiplier (entry of `L` below the diagonal) has magnitude `≤ 1` -/
theorem multipliers_le_one {m n : Nat} (h : n ≤ m) (A : Mat ℝ m n) (i : Fin m) (j : Fin n) :
    |(getL (factor h A)).get i j| ≤ 1 := by
  simp only [getL, Mat.get_ofFn]
  by_cases h1 : j.val < i.val
  · rw [if_pos h1]; exact multInv_factor h A i j j.isLt h1
  · rw [if_neg h1]
    by_cases h2 : i.val = j.val
    · rw [if_pos h2]; simp
    · rw [if_neg h2]; simp

/-! ## determinant -/

/-- the object's `det()` of a square matrix is its determinant -/
theorem det_eq {n : Nat} (A : Mat ℝ n n) (s : State ℝ n n) (hc : construct A = .ok s) :
    det s = (toMatrix A).det := by
  rw [construct_square] at hc
  injection hc with hc
  rw [← hc]; exact det_factor A

/-- `MatrixTools::det` returns the determinant of every square matrix -/
theorem matDet_eq {n : Nat} (A : Mat ℝ n n) : matDet A = .ok (toMatrix A).det := by
  unfold matDet
  rw [if_neg (by simp), construct_square]
  simp only
  rw [det_factor]

/-- `det()` of a non-square decomposition is `0` and `MatrixTools::det` refuses non-square input -/
theorem det_nonsquare {m n : Nat} (hmn : m ≠ n) (A : Mat ℝ m n) (s : State ℝ m n) :
    det s = 0 ∧ matDet A = .error .dimension := by
  constructor
  · unfold det; rw [dif_neg (fun e => hmn e.symm)]; simp
  · unfold matDet; rw [if_pos hmn]

theorem toMatrix_transpose {m n : Nat} (A : Mat ℝ m n) : toMatrix (transpose A) = (toMatrix A).transpose := by
  ext i j; simp [transpose]

/-- `det(Aᵀ) = det(A)` for the code's determinant -/
theorem det_transpose {n : Nat} (A : Mat ℝ n n) : matDet (transpose A) = matDet A := by
  rw [matDet_eq, matDet_eq, toMatrix_transpose, Matrix.det_transpose]

/-- `det(A·B) = det(A)·det(B)` for the code's determinant -/
theorem det_mul {n : Nat} (A B : Mat ℝ n n) (a b : ℝ) (ha : matDet A = .ok a) (hb : matDet B = .ok b) :
    matDet (matMul A B) = .ok (a * b) := by
  rw [matDet_eq] at ha hb
  injection ha with ha; injection hb with hb
  rw [matDet_eq, toMatrix_matMul, Matrix.det_mul, ha, hb]

/-! ## solve -/

/-- **A·X = B** whenever `solve` returns (exact arithmetic) -/
theorem solve_spec {n nx : Nat} (A : Mat ℝ n n) (s : State ℝ n n) (hc : construct A = .ok s)
    (B : Mat ℝ n nx) (d : ℝ) (X : Mat ℝ n nx) (hs : solve s B = .ok (d, X)) : matMul A X = B := by
  rw [construct_square] at hc
  injection hc with hc
  rw [← hc] at hs
  exact (solve_ok A B d X hs).1


/-- the returned indicator is the smallest pivot magnitude `min_i |U(i,i)|` -/
theorem indicator_spec {n nx : Nat} (A : Mat ℝ n n) (s : State ℝ n n) (hc : construct A = .ok s)
    (B : Mat ℝ n nx) (d : ℝ) (X : Mat ℝ n nx) (hs : solve s B = .ok (d, X)) :
    (∀ i : Fin n, d ≤ |(getU (Nat.le_refl n) s).get i i|) ∧ ∃ i : Fin n, d = |(getU (Nat.le_refl n) s).get i i| := by
  rw [construct_square] at hc
  injection hc with hc
  rw [← hc] at hs
  obtain ⟨hn, hd⟩ := (solve_ok A B d X hs).2.1
  have := minDiag_spec (factor (Nat.le_refl n) A) rfl hn
  rw [← hd, hc] at this
  simpa [getU] using this

/-- when `solve` returns, the matrix is invertible (its determinant is the non-zero product of the
pivots up to sign) and the returned `X` is *the* solution: any `Y` with `A·Y = B` equals `X` -/
theorem solve_unique {n nx : Nat} (A : Mat ℝ n n) (s : State ℝ n n) (hc : construct A = .ok s)
    (B : Mat ℝ n nx) (d : ℝ) (X : Mat ℝ n nx) (hs : solve s B = .ok (d, X)) :
    (toMatrix A).det ≠ 0 ∧ ∀ Y : Mat ℝ n nx, matMul A Y = B → Y = X := by
  have hAX := solve_spec A s hc B d X hs
  have hind := (indicator_spec A s hc B d X hs).1
  rw [construct_square] at hc
  injection hc with hc
  have hs' := hs
  rw [← hc] at hs'
  have hpos := (solve_ok A B d X hs').2.2
  have hdet : (toMatrix A).det ≠ 0 := by
    rw [← det_factor A, hc, det_eq_prod]
    obtain ⟨σ, _, h2, _⟩ := factor_matrix (Nat.le_refl n) A
    rw [hc] at h2
    apply mul_ne_zero
    · rw [h2]
      rcases Int.units_eq_one_or (Equiv.Perm.sign σ) with e | e <;> simp [e]
    · apply Finset.prod_ne_zero_iff.mpr
      intro k _ hk
      have := hind k
      simp only [getU, Mat.get_ofFn, le_refl, if_true, Fin.castLE_refl] at this
      rw [hk, abs_zero] at this
      linarith
  refine ⟨hdet, ?_⟩
  intro Y hY
  apply toMatrix_inj
  have h1 := congrArg toMatrix hY
  have h2 := congrArg toMatrix hAX
  rw [toMatrix_matMul] at h1 h2
  have hu : IsUnit (toMatrix A).det := isUnit_iff_ne_zero.mpr hdet
  have := congrArg (fun M => (toMatrix A)⁻¹ * M) (h1.trans h2.symm)
  simpa [← Matrix.mul_assoc, Matrix.nonsing_inv_mul _ hu] using this

/-- **which number the threshold is.**  At the reals `threshold` is the rational
`Generated.thresholdNum / Generated.thresholdDen` that `tools/gen_lu_constants.py` re-extracts on
every run: the *exact value of the double* denoted by the literal of `NumConstants::SMALL()`
(`1e-6` ↦ `4722366482869645 / 2^72`, slightly below `10⁻⁶`), not the decimal value of the literal.
The translator asserts that `num / den` is exact in binary64 and the driver checks on every `solve`
that the `Float` instantiation's threshold has this very value (`FAIL:threshold_value`), so
`singular_raises` / `solve_returns` / `solve_outcome` speak about the number the C++ compares
with.  The threshold is absolute (not scaled by `‖A‖`) and positive. -/
theorem threshold_value :
    (threshold : ℝ) = (Generated.thresholdNum : ℝ) / (Generated.thresholdDen : ℝ) ∧ (0 : ℝ) < threshold := by
  refine ⟨?_, threshold_pos⟩
  unfold threshold
  simp [ScalarReal.ofRat_eq]

/-- a pivot below the threshold makes `solve` raise `ZeroDivisionException` (never an answer),
whatever the right-hand side of the right height -/
theorem singular_raises {n nx : Nat} (s : State ℝ n n) (B : Mat ℝ n nx)
    (hsing : ∃ i : Fin n, |s.lu.get i i| < threshold) : solve s B = .error .zeroDivision := by
  obtain ⟨i, hi⟩ := hsing
  have hn : 0 < n := Nat.lt_of_le_of_lt (Nat.zero_le _) i.isLt
  unfold solve
  rw [dif_pos rfl, dif_pos ⟨rfl, hn⟩]
  simp only
  have hlt : minDiag s rfl hn < threshold := lt_of_le_of_lt ((minDiag_spec s rfl hn).1 i) hi
  have : belowThreshold (minDiag s rfl hn) = true := by
    unfold belowThreshold
    split
    · simpa using hlt
    · simpa using le_of_lt hlt
  rw [if_pos this]

/-- conversely, with all pivots at or above the threshold (strictly above, should the guard be
`<=`) and at least one right-hand-side column, `solve` returns -/
theorem solve_returns {n nx : Nat} (s : State ℝ n n) (B : Mat ℝ n nx) (hn : 0 < n) (hnx : 0 < nx)
    (hreg : ∀ i : Fin n, threshold < |s.lu.get i i|) : ∃ d X, solve s B = .ok (d, X) := by
  unfold solve
  rw [dif_pos rfl, dif_pos ⟨rfl, hn⟩]
  simp only
  obtain ⟨i, hi⟩ := (minDiag_spec s rfl hn).2
  have hlt : threshold < minDiag s rfl hn := by rw [hi]; exact hreg i
  have : ¬ belowThreshold (minDiag s rfl hn) = true := by
    unfold belowThreshold
    split
    · simpa using le_of_lt hlt
    · simpa using hlt
  rw [if_neg this, if_pos hnx]
  exact ⟨_, _, rfl⟩


/-- "never a silently wrong answer": on a square decomposition with a right-hand side of the
right height and at least one column, `solve` either raises `ZeroDivisionException` (exactly when
the smallest pivot magnitude fails the guard) or returns — nothing else -/
theorem solve_outcome {n nx : Nat} (s : State ℝ n n) (B : Mat ℝ n nx) (hn : 0 < n) (hnx : 0 < nx) :
    (belowThreshold (minDiag s rfl hn) = true ∧ solve s B = .error .zeroDivision) ∨
    (belowThreshold (minDiag s rfl hn) = false ∧ ∃ X, solve s B = .ok (minDiag s rfl hn, X)) := by
  unfold solve
  rw [dif_pos rfl, dif_pos ⟨rfl, hn⟩]
  simp only
  by_cases hb : belowThreshold (minDiag s rfl hn) = true
  · left; rw [if_pos hb]; exact ⟨hb, rfl⟩
  · right; rw [if_neg hb, if_pos hnx]
    exact ⟨by simpa using hb, _, rfl⟩

/-- a right-hand side of the wrong height is refused (`BadIntegerException`) before anything else -/
theorem wrong_height_raises {m n mb nx : Nat} (s : State ℝ m n) (B : Mat ℝ mb nx) (h : mb ≠ m) :
    solve s B = .error .badInteger := by
  unfold solve; rw [dif_neg h]


/-! ## the `std::vector` overload of `solve` (after the `fix:` commit that makes it compile) -/

/-- **A·x = b** whenever the vector `solve` returns, and the indicator is the smallest pivot magnitude -/
theorem solveVec_spec {n : Nat} (A : Mat ℝ n n) (s : State ℝ n n) (hc : construct A = .ok s)
    (b : Vector ℝ n) (d : ℝ) (x : Vector ℝ n) (hs : solveVec s b = .ok (d, x)) :
    matMul A (colMat x) = colMat b ∧
    (∀ i : Fin n, d ≤ |(getU (Nat.le_refl n) s).get i i|) ∧ ∃ i : Fin n, d = |(getU (Nat.le_refl n) s).get i i| := by
  have h1 := solveVec_as_solve s b d x hs
  exact ⟨solve_spec A s hc _ d _ h1, indicator_spec A s hc _ d _ h1⟩

theorem solveVec_singular_raises {n : Nat} (s : State ℝ n n) (b : Vector ℝ n)
    (hsing : ∃ i : Fin n, |s.lu.get i i| < threshold) : solveVec s b = .error .zeroDivision := by
  obtain ⟨i, hi⟩ := hsing
  have hn : 0 < n := Nat.lt_of_le_of_lt (Nat.zero_le _) i.isLt
  unfold solveVec
  rw [dif_pos rfl, dif_pos ⟨rfl, hn⟩]
  simp only
  have hlt : minDiag s rfl hn < threshold := lt_of_le_of_lt ((minDiag_spec s rfl hn).1 i) hi
  have : belowThreshold (minDiag s rfl hn) = true := by
    unfold belowThreshold
    split
    · simpa using hlt
    · simpa using le_of_lt hlt
  rw [if_pos this]

theorem solveVec_wrong_length_raises {m n mb : Nat} (s : State ℝ m n) (b : Vector ℝ mb) (h : mb ≠ m) :
    solveVec s b = .error .badInteger := by
  unfold solveVec; rw [dif_neg h]

/-! ## inverse -/

/-- **A·inv(A) = I** whenever `MatrixTools::inv` returns; the indicator is the smallest pivot -/
theorem inv_spec {n : Nat} (A : Mat ℝ n n) (d : ℝ) (O : Mat ℝ n n) (hi : inv A = .ok (d, O)) :
    matMul A O = identity n ∧ toMatrix A * toMatrix O = 1 ∧ toMatrix O * toMatrix A = 1 := by
  unfold inv at hi
  rw [if_neg (by simp), construct_square] at hi
  simp only at hi
  have h1 := (solve_ok A (identity n) d O hi).1
  have h2 : toMatrix A * toMatrix O = 1 := by
    rw [← toMatrix_matMul, h1]
    ext i j
    simp [identity, Matrix.one_apply, Fin.ext_iff]
  exact ⟨h1, h2, mul_eq_one_comm.mp h2⟩

/-- `MatrixTools::inv` refuses non-square input -/
theorem inv_nonsquare_raises {m n : Nat} (hmn : m ≠ n) (A : Mat ℝ m n) : inv A = .error .dimension := by
  unfold inv; rw [if_pos hmn]

/-! ## non-vacuity: the hypotheses of the theorems above are satisfiable -/
section NonVacuity

/-- the 1×1 matrix `[2]` -/
def A1 : Mat ℝ 1 1 := Mat.ofFn fun _ _ => 2
def B1 : Mat ℝ 1 2 := Mat.ofFn fun _ j => if j.val = 0 then 4 else 6

theorem A1_pivot (i : Fin 1) : (factor (Nat.le_refl 1) A1).lu.get i i = 2 := by
  have : i = 0 := Subsingleton.elim _ _
  subst this
  simp [factor, Fin.foldl_succ, step, findPivot, exchange, eliminate, init, A1]

example : ∃ s, construct A1 = .ok s := ⟨_, construct_square A1⟩

/-- `solve` returns on a regular system (so `solve_spec`, `indicator_spec` are not vacuous) -/
example : ∃ d X, solve (factor (Nat.le_refl 1) A1) B1 = .ok (d, X) := by
  apply solve_returns _ _ (by decide) (by decide)
  intro i
  rw [A1_pivot i]
  have := threshold_pos
  unfold threshold at *
  simp only [ScalarReal.ofRat_eq, Generated.thresholdNum, Generated.thresholdDen]
  norm_num

/-- `inv` returns on a regular matrix -/
example : ∃ d O, inv A1 = .ok (d, O) := by
  unfold inv
  rw [if_neg (by simp), construct_square]
  apply solve_returns _ _ (by decide) (by decide)
  intro i
  rw [A1_pivot i]
  unfold threshold
  simp only [ScalarReal.ofRat_eq, Generated.thresholdNum, Generated.thresholdDen]
  norm_num

/-- a singular matrix exists on which `singular_raises` applies: the 1×1 zero matrix -/
example : solve (factor (Nat.le_refl 1) (Mat.ofFn fun _ _ => (0 : ℝ))) B1 = .error .zeroDivision := by
  apply singular_raises
  refine ⟨0, ?_⟩
  have : (factor (Nat.le_refl 1) (Mat.ofFn fun _ _ => (0 : ℝ))).lu.get 0 0 = 0 := by
    simp [factor, Fin.foldl_succ, step, findPivot, exchange, eliminate, init]
  rw [this, abs_zero]
  exact threshold_pos

end NonVacuity

end Bpp.C05
