import BppProofs.Lemmas.LU
/-!
# C05 — LU decomposition: solve, inverse, determinant
(`src/Bpp/Numeric/Matrix/LUDecomposition.h`, `MatrixTools::inv`, `MatrixTools::det`)

Property theorems only; helper lemmas are in `Lemmas/LU.lean`.  All statements are about the
model `Bpp.LU` instantiated at `ℝ` (exact arithmetic: rounding is not modelled).
-/
namespace Bpp.C05
open Bpp Bpp.LU

/-- `getL` is unit lower triangular, whatever the state -/
theorem getL_unitLower {m n : Nat} (s : State ℝ m n) : UnitLower (getL s) := by
  intro i j
  simp only [getL, Mat.get_ofFn]
  constructor
  · intro h; simp [h]
  · intro h
    have h1 : ¬ j.val < i.val := by omega
    have h2 : ¬ i.val = j.val := by omega
    simp [h1, h2]

/-- `getU` is upper triangular, whatever the state -/
theorem getU_upper {m n : Nat} (h : n ≤ m) (s : State ℝ m n) : Upper (getU h s) := by
  intro i j hji
  simp only [getU, Mat.get_ofFn]
  rw [if_neg (by omega)]

end Bpp.C05
