import BppProofs.Props.C05
import BppProofs.Lemmas.LUStoreIs
/-!
# C05 — LU solve / inverse / determinant on the three storage classes, with in/out parameters in
# any prior state, statement by statement

`BppModel/LUStore.lean` transcribes `LUDecomposition.h` and `MatrixTools::inv`/`det` a second
time, at the level of single statements: every loop (also the innermost) in source order, every
element access through `get`/`set`/`resize` of C04's model of `RowMatrix` / `ColMatrix` /
`LinearMatrix` (`BppModel/Matrix.lean`), operands and in/out parameters being arbitrary stores.
That is the model the driver runs against the C++.

The theorems of this file say that it computes exactly what the abstract model of
`BppModel/LU.lean` computes (the subject of `Props/C05.lean`):

* for **every scalar type** (`[Scalar α]`: in particular `Float` — "each entry undergoes the same
  floating-point operations in the same order" is a theorem, not only an observation of the tie);
* for **every storage class** of the factored matrix, of the right-hand side and of the output
  (`Is A kA m n (fnOf Am)`: `A` is a well-formed store of class `kA` reporting `m × n` whose accessor
  returns the entries of the abstract matrix `Am`);
* for **every prior state of the in/out parameter** (`X` of `solve`, `O` of `inv`, `x` of the vector
  overload: any well-formed store of any class, any shape, any contents): the output keeps its
  class, reports the shape of the result and holds the abstract result — and on an exception it
  has not been touched (the model returns no new state).

The last section combines this with `Props/C05.lean` at `ℝ`: the property's equations (`P·A = L·U`,
`A·X = B`, `A·inv A = 1`, `det`) for stores.
-/
namespace Bpp.C05
open Bpp Bpp.Mx Bpp.LU Bpp.LUS

section AnyScalar
variable {α : Type} [Scalar α]

/-- **constructor**: on a store of any class holding `Am` (`n ≤ m`) the statement-level constructor
returns an object that represents `LU.factor Am`: same `m`, `n`, pivot vector, sign, and a
`RowMatrix` `LU` with the entries of the abstract packed factors -/
theorem construct_on_store {m n : Nat} (Am : Mat α m n) (h : n ≤ m) {A : Store α} {kA : Kind}
    (hA : Is A kA m n (fnOf Am)) :
    ∃ s, constructS A = .ok s ∧ Rep s (factor h Am) := constructS_is hA h

/-- **the factorisation does not depend on the storage class**: two stores of any two classes
holding the same matrix give objects with the same pivot vector, sign and packed entries -/
theorem construct_storage_independent {m n : Nat} (Am : Mat α m n) (h : n ≤ m) {A A' : Store α} {kA kA' : Kind}
    (hA : Is A kA m n (fnOf Am)) (hA' : Is A' kA' m n (fnOf Am)) :
    ∃ s s', constructS A = .ok s ∧ constructS A' = .ok s' ∧ s'.piv = s.piv ∧ s'.pivsign = s.pivsign ∧
      s'.m = s.m ∧ s'.n = s.n ∧ ∀ i j, i < m → j < n → s'.lu.get i j = s.lu.get i j := by
  obtain ⟨s, e, r⟩ := constructS_is hA h
  obtain ⟨s', e', r'⟩ := constructS_is hA' h
  refine ⟨s, s', e, e', by rw [r.2.2.2.2, r'.2.2.2.2], by rw [r.2.2.2.1, r'.2.2.2.1], by rw [r.1, r'.1],
    by rw [r.2.1, r'.2.1], fun i j hi hj => ?_⟩
  rw [r.2.2.1.2.2.2.2 i j hi hj, r'.2.2.1.2.2.2.2 i j hi hj]

/-- `getL`, `getU`, `det()` of the object are those of the abstract state -/
theorem accessors_on_store {m n : Nat} {s : StateS α} {t : LU.State α m n} (hr : Rep s t) (h : n ≤ m) :
    (∃ L, getLS s = .ok L ∧ Is L .row m n (fnOf (getL t))) ∧
    (∃ U, getUS s = .ok U ∧ Is U .row n n (fnOf (getU h t))) ∧
    detS s = .ok (LU.det t) ∧ s.piv = Array.ofFn (n := m) fun i => ((getPivot t)[i.val]'i.isLt).val :=
  ⟨getLS_refines hr h, getUS_refines hr h, detS_refines hr h, hr.2.2.2.2⟩

/-- **`solve(B, X)`**: `B` of any class holding `Bm`, `X` any well-formed store — any class, any
shape (larger, smaller, equal, empty), any contents.  If the abstract `solve` returns `(d, Y)`, the
statement-level `solve` returns `d` and leaves `X` of its own class, with the shape of `Y` and the
entries of `Y`: nothing of the prior state survives.  If the abstract `solve` raises, so does the
statement-level one (and `X` is not touched). -/
theorem solve_on_store {m n mb nx : Nat} {s : StateS α} {t : LU.State α m n} (hr : Rep s t)
    (Bm : Mat α mb nx) {B X : Store α} {kB : Kind} (hB : Is B kB mb nx (fnOf Bm)) (hX : X.WF) :
    (∀ d Y, LU.solve t Bm = .ok (d, Y) → ∃ X', solveS s B X = .ok (d, X') ∧ Is X' X.kind m nx (fnOf Y)) ∧
    (∀ e, LU.solve t Bm = .error e → e ≠ .ub → solveS s B X = .error e) :=
  ⟨fun _ _ h => solveS_ok hr Bm hB hX h, fun _ h hne => solveS_error hr Bm hB X h hne⟩

/-- in particular the outcome of `solve` does not depend on the prior state of the output: two
outputs of the same class end up holding the same matrix -/
theorem solve_output_state_irrelevant {m n mb nx : Nat} {s : StateS α} {t : LU.State α m n} (hr : Rep s t)
    (Bm : Mat α mb nx) {B B' X X' : Store α} {kB kB' : Kind} (hB : Is B kB mb nx (fnOf Bm)) (hB' : Is B' kB' mb nx (fnOf Bm))
    (hX : X.WF) (hX' : X'.WF) {d : α} {Z : Store α} (h : solveS s B X = .ok (d, Z))
    (hdef : ∀ e, LU.solve t Bm ≠ .error e) :
    ∃ Z', solveS s B' X' = .ok (d, Z') ∧ Z'.kind = X'.kind ∧ Z'.nrows = Z.nrows ∧ Z'.ncols = Z.ncols ∧
      ∀ i j, i < Z.nrows → j < Z.ncols → Z'.get i j = Z.get i j := by
  cases hs : LU.solve t Bm with
  | error e => exact absurd hs (hdef e)
  | ok r =>
    obtain ⟨d0, Y⟩ := r
    obtain ⟨Z0, e0, hZ0⟩ := solveS_ok hr Bm hB hX hs
    obtain ⟨Z1, e1, hZ1⟩ := solveS_ok hr Bm hB' hX' hs
    rw [e0] at h
    injection h with h
    injection h with h1 h2
    subst h1 h2
    refine ⟨Z1, e1, hZ1.2.1, by rw [hZ1.2.2.1, hZ0.2.2.1], by rw [hZ1.2.2.2.1, hZ0.2.2.2.1], fun i j hi hj => ?_⟩
    rw [hZ0.2.2.1] at hi
    rw [hZ0.2.2.2.1] at hj
    rw [hZ1.2.2.2.2 i j hi hj, hZ0.2.2.2.2 i j hi hj]

/-- **`solve(B, B)`** — the extreme prior state of the in/out parameter: it *is* the right-hand side.
Since the `fix:` commit of `findings/C05.json` the permuted copy is taken from a copy of `B`, and
`B` ends up, in its own class, holding the abstract result -/
theorem solve_in_place {m n mb nx : Nat} {s : StateS α} {t : LU.State α m n} (hr : Rep s t)
    (Bm : Mat α mb nx) {B : Store α} {kB : Kind} (hB : Is B kB mb nx (fnOf Bm))
    {d : α} {Y : Mat α m nx} (h : LU.solve t Bm = .ok (d, Y)) :
    ∃ X', solveSelfS s B = .ok (d, X') ∧ Is X' kB m nx (fnOf Y) := solveSelfS_ok hr Bm hB h

/-- `solve(b, b)` of the vector overload (same repair) is `solveVecS s b b` -/
theorem solve_vector_in_place {m n mb : Nat} {s : StateS α} {t : LU.State α m n} (hr : Rep s t) (b : Vector α mb)
    {d : α} {y : Vector α m} (h : LU.solveVec t b = .ok (d, y)) :
    solveVecS s b.toArray b.toArray = .ok (d, y.toArray) := solveVecS_ok hr b b.toArray h

/-- **the `std::vector` overload**: whatever the output vector contained and however long it was,
it ends up being the abstract result: `resize(piv_length)` keeps a prefix of the old contents or
appends zeros, then every element is assigned (the `X.clear()` of `permuteCopy` tests the length of the
*operand* `b` against the pivot vector, not the output, and cannot be taken: `solve` has already
refused `b.size() != m`); exceptions as in the abstract model -/
theorem solve_vector_on_store {m n mb : Nat} {s : StateS α} {t : LU.State α m n} (hr : Rep s t) (b : Vector α mb) (x : Array α) :
    (∀ d y, LU.solveVec t b = .ok (d, y) → solveVecS s b.toArray x = .ok (d, y.toArray)) ∧
    (∀ e, LU.solveVec t b = .error e → e ≠ .ub → solveVecS s b.toArray x = .error e) :=
  ⟨fun _ _ h => solveVecS_ok hr b x h, fun _ h hne => solveVecS_error hr b x h hne⟩

/-- **`MatrixTools::inv(A, O)`**: `A` of any class, `O` any well-formed store in any prior state -/
theorem inv_on_store {n : Nat} (Am : Mat α n n) {A O : Store α} {kA : Kind} (hA : Is A kA n n (fnOf Am)) (hO : O.WF) :
    (∀ d Y, LU.inv Am = .ok (d, Y) → ∃ O', invS A O = .ok (d, O') ∧ Is O' O.kind n n (fnOf Y)) ∧
    (∀ e, LU.inv Am = .error e → e ≠ .ub → invS A O = .error e) :=
  ⟨fun _ _ h => invS_is_ok hA hO h, fun _ h hne => invS_is_error hA O h hne⟩

/-- in-place inverse `MatrixTools::inv(A, A)`: the constructor has copied `A` before the output is
resized and `A` is not read afterwards, so the call is `invS A A`; the result replaces `A` -/
theorem inv_in_place {n : Nat} (Am : Mat α n n) {A : Store α} {kA : Kind} (hA : Is A kA n n (fnOf Am))
    {d : α} {Y : Mat α n n} (h : LU.inv Am = .ok (d, Y)) :
    ∃ O', invS A A = .ok (d, O') ∧ Is O' kA n n (fnOf Y) := by
  obtain ⟨O', e, hO'⟩ := invS_is_ok hA hA.1 h
  rw [hA.2.1] at hO'
  exact ⟨O', e, hO'⟩

/-- `MatrixTools::inv` / `det` refuse a non-square store of any class -/
theorem nonsquare_on_store {m n : Nat} (hmn : m ≠ n) (Am : Mat α m n) {A : Store α} {kA : Kind} (hA : Is A kA m n (fnOf Am))
    (O : Store α) : invS A O = .error .dimension ∧ matDetS A = .error .dimension := by
  have h1 : A.nrows ≠ A.ncols := by rw [hA.2.2.1, hA.2.2.2.1]; exact hmn
  exact ⟨by unfold invS; rw [if_pos h1], by unfold matDetS; rw [if_pos h1]⟩

/-- **`MatrixTools::det(A)`** on a store of any class is the abstract `matDet` -/
theorem matDet_on_store {m n : Nat} (Am : Mat α m n) {A : Store α} {kA : Kind} (hA : Is A kA m n (fnOf Am))
    (hne : LU.matDet Am ≠ .error .ub) : matDetS A = LU.matDet Am := matDetS_is hA hne

end AnyScalar

/-! ## the property's equations on stores (exact arithmetic) -/

/-- **P·A = L·U on stores**: for a store of any class holding a matrix with `n ≤ m`, the constructor
returns, `getL`/`getU` return `RowMatrix`es `L`, `U`, and the rows of `A` in pivot order are `L·U` -/
theorem lu_factor_store {m n : Nat} (Am : Mat ℝ m n) (h : n ≤ m) {A : Store ℝ} {kA : Kind} (hA : Is A kA m n (fnOf Am)) :
    ∃ (s : StateS ℝ) (L U : Store ℝ) (Lm : Mat ℝ m n) (Um : Mat ℝ n n), constructS A = .ok s ∧ getLS s = .ok L ∧ getUS s = .ok U ∧
      Is L .row m n (fnOf Lm) ∧ Is U .row n n (fnOf Um) ∧
      UnitLower Lm ∧ Upper Um ∧
      ∃ piv : Vector (Fin m) m, PivInjective piv ∧ s.piv = Array.ofFn (n := m) (fun i => (piv[i.val]'i.isLt).val) ∧
        s.pivsign = pivSignOf piv ∧ permuteRows piv Am = matMul Lm Um := by
  obtain ⟨s, e, r⟩ := constructS_is hA h
  obtain ⟨L, eL, hL⟩ := getLS_refines r h
  obtain ⟨U, eU, hU⟩ := getUS_refines r h
  obtain ⟨h1, h2, h3, h4⟩ := lu_factor h Am
  exact ⟨s, L, U, _, _, e, eL, eU, hL, hU, h2, h3, (factor h Am).piv, h4, r.2.2.2.2,
    by rw [r.2.2.2.1]; exact pivsign_eq_pivSignOf h Am, h1⟩

/-- **A·X = B on stores**: stores of any classes for `A`, `B`; the output `X` of any class in any
prior state.  Whenever the statement-level `solve` returns, the output has kept its class, reports
`n × nx`, and holds a matrix `Y` with `A·Y = B`; the indicator is the smallest pivot magnitude. -/
theorem solve_store_spec {n nx : Nat} (Am : Mat ℝ n n) (Bm : Mat ℝ n nx) (hn : 0 < n) (hnx : 0 < nx)
    {A B X : Store ℝ} {kA kB : Kind} (hA : Is A kA n n (fnOf Am)) (hB : Is B kB n nx (fnOf Bm)) (hX : X.WF)
    {s : StateS ℝ} {d : ℝ} {X' : Store ℝ} (hc : constructS A = .ok s) (hs : solveS s B X = .ok (d, X')) :
    ∃ Y : Mat ℝ n nx, Is X' X.kind n nx (fnOf Y) ∧ matMul Am Y = Bm ∧
      (∀ i : Fin n, d ≤ |(getU (Nat.le_refl n) (factor (Nat.le_refl n) Am)).get i i|) ∧
      ∃ i : Fin n, d = |(getU (Nat.le_refl n) (factor (Nat.le_refl n) Am)).get i i| := by
  obtain ⟨s0, e, r⟩ := constructS_is hA (Nat.le_refl n)
  rw [hc] at e
  injection e with e
  subst e
  cases hab : LU.solve (factor (Nat.le_refl n) Am) Bm with
  | error e =>
    by_cases hub : e = .ub
    · subst hub
      exfalso
      unfold LU.solve at hab
      rw [dif_pos rfl, dif_pos ⟨rfl, hn⟩] at hab
      simp only at hab
      split at hab
      · cases hab
      · first
        | cases hab
        | (rw [if_pos hnx] at hab; cases hab)
    · rw [solveS_error r Bm hB X hab hub] at hs
      cases hs
  | ok p =>
    obtain ⟨d0, Y⟩ := p
    obtain ⟨X0, e0, hX0⟩ := solveS_ok r Bm hB hX hab
    rw [hs] at e0
    injection e0 with e0
    injection e0 with e1 e2
    subst e1 e2
    exact ⟨Y, hX0, solve_spec Am _ (construct_square Am) Bm d Y hab,
      indicator_spec Am _ (construct_square Am) Bm d Y hab⟩

/-- **singular / wrong height on stores**: a pivot below the threshold makes the statement-level
`solve` raise `ZeroDivisionException`, a right-hand side of the wrong height `BadIntegerException`,
for any classes and any output; the output is not touched -/
theorem solve_store_raises {n mb nx : Nat} (Am : Mat ℝ n n) (Bm : Mat ℝ mb nx)
    {A B : Store ℝ} {kA kB : Kind} (hA : Is A kA n n (fnOf Am)) (hB : Is B kB mb nx (fnOf Bm)) (X : Store ℝ)
    {s : StateS ℝ} (hc : constructS A = .ok s) :
    (mb ≠ n → solveS s B X = .error .badInteger) ∧
    (mb = n → (∃ i : Fin n, |(factor (Nat.le_refl n) Am).lu.get i i| < threshold) → solveS s B X = .error .zeroDivision) := by
  obtain ⟨s0, e, r⟩ := constructS_is hA (Nat.le_refl n)
  rw [hc] at e
  injection e with e
  subst e
  constructor
  · intro hne
    exact solveS_error r Bm hB X (wrong_height_raises _ Bm hne) (by decide)
  · intro hmb hsing
    subst hmb
    exact solveS_error r Bm hB X (singular_raises _ Bm hsing) (by decide)

/-- **A·inv(A) = 1 on stores**: `A` of any class, the output `O` of any class in any prior state -/
theorem inv_store_spec {n : Nat} (Am : Mat ℝ n n) {A O : Store ℝ} {kA : Kind} (hA : Is A kA n n (fnOf Am)) (hO : O.WF)
    {d : ℝ} {O' : Store ℝ} (hi : invS A O = .ok (d, O')) :
    ∃ Y : Mat ℝ n n, Is O' O.kind n n (fnOf Y) ∧ matMul Am Y = identity n ∧
      toMatrix Am * toMatrix Y = 1 ∧ toMatrix Y * toMatrix Am = 1 := by
  cases hab : LU.inv Am with
  | error e =>
    by_cases hub : e = .ub
    · subst hub
      exfalso
      have hn : 0 < n := by
        by_contra h0
        have h0' : n = 0 := by omega
        subst h0'
        -- a 0 × 0 store: `LU(0,0)` is out of range
        unfold invS at hi
        have hsq : ¬ A.nrows ≠ A.ncols := by rw [hA.2.2.1, hA.2.2.2.1]; simp
        rw [if_neg hsq] at hi
        obtain ⟨s0, e0, r0⟩ := constructS_is hA (Nat.le_refl 0)
        rw [e0, hA.2.2.1] at hi
        simp only [ok_bind] at hi
        cases hI : liftMx (Mx.getId 0 (Store.empty .row : Store ℝ)) with
        | error e => rw [hI] at hi; cases hi
        | ok I =>
          rw [hI] at hi
          simp only [ok_bind] at hi
          unfold solveS at hi
          split at hi
          · cases hi
          · have : minDiagS s0 = .error .ub := by
              unfold minDiagS
              have hrd : rd s0.lu 0 0 = .error .ub := by
                have hlu := r0.2.2.1
                have hnr : s0.lu.nrows = 0 := hlu.2.2.1
                have hk : s0.lu.kind = .row := hlu.2.1
                unfold rd
                cases hs0 : s0.lu with
                | row mm =>
                  rw [hs0] at hnr
                  have : mm.size = 0 := hnr
                  simp [Store.get, this]
                | col mm => rw [hs0] at hk; cases hk
                | lin mm a b => rw [hs0] at hk; cases hk
              rw [hrd]; rfl
            rw [this] at hi
            cases hi
      unfold LU.inv at hab
      rw [if_neg (by simp), construct_square] at hab
      simp only at hab
      unfold LU.solve at hab
      rw [dif_pos rfl, dif_pos ⟨rfl, hn⟩] at hab
      simp only at hab
      split at hab
      · cases hab
      · first
        | cases hab
        | (rw [if_pos hn] at hab; cases hab)
    · rw [invS_is_error hA O hab hub] at hi
      cases hi
  | ok p =>
    obtain ⟨d0, Y⟩ := p
    obtain ⟨O0, e0, hO0⟩ := invS_is_ok hA hO hab
    rw [hi] at e0
    injection e0 with e0
    injection e0 with e1 e2
    subst e1 e2
    exact ⟨Y, hO0, inv_spec Am d Y hab⟩

/-- **determinant on stores**: `MatrixTools::det` of a square store of any class is the determinant -/
theorem det_store_eq {n : Nat} (Am : Mat ℝ n n) {A : Store ℝ} {kA : Kind} (hA : Is A kA n n (fnOf Am)) :
    matDetS A = .ok (toMatrix Am).det := by
  rw [matDetS_is hA (by rw [matDet_eq]; simp), matDet_eq]

/-- **the `std::vector` overload** (`LUDecomposition.h:378-426`): for a store of any class holding
the square matrix `Am`, a right-hand side `b` and an output vector `x` **in any prior state**
(any length, any contents), whenever the call returns, the new `x` has length `n` and `A·x = b`; the
indicator is the smallest pivot magnitude -/
theorem solve_vector_spec {n : Nat} (Am : Mat ℝ n n) (hn : 0 < n) {A : Store ℝ} {kA : Kind} (hA : Is A kA n n (fnOf Am))
    (b : Vector ℝ n) (x : Array ℝ) {s : StateS ℝ} {d : ℝ} {x' : Array ℝ}
    (hc : constructS A = .ok s) (hs : solveVecS s b.toArray x = .ok (d, x')) :
    ∃ y : Vector ℝ n, x' = y.toArray ∧ matMul Am (colMat y) = colMat b ∧
      (∀ i : Fin n, d ≤ |(getU (Nat.le_refl n) (factor (Nat.le_refl n) Am)).get i i|) ∧
      ∃ i : Fin n, d = |(getU (Nat.le_refl n) (factor (Nat.le_refl n) Am)).get i i| := by
  obtain ⟨s0, e, r⟩ := constructS_is hA (Nat.le_refl n)
  rw [hc] at e
  injection e with e
  subst e
  cases hab : LU.solveVec (factor (Nat.le_refl n) Am) b with
  | error e =>
    by_cases hub : e = .ub
    · subst hub
      exfalso
      unfold LU.solveVec at hab
      rw [dif_pos rfl, dif_pos ⟨rfl, hn⟩] at hab
      simp only at hab
      split at hab <;> cases hab
    · rw [solveVecS_error r b x hab hub] at hs
      cases hs
  | ok p =>
    obtain ⟨d0, y⟩ := p
    have e0 := solveVecS_ok r b x hab
    rw [hs] at e0
    injection e0 with e0
    injection e0 with e1 e2
    subst e1
    have := solveVec_spec Am _ (construct_square Am) b d y hab
    exact ⟨y, e2, this.1, this.2⟩

/-- **witness of the repaired defect** (exact arithmetic): for `A = [[0,1],[1,0]]`, `b = (3,5)ᵀ` the
solution is `(5,3)ᵀ` — returned with separate operands and, after the repair, by `solve(B, B)`; the
text before the repair (`solveSelfOrigS`: the permuted copy reads the rows it has just overwritten)
returned `(5,5)ᵀ`, a silently wrong answer.  Replayed on the C++ in `corpus/C05/edge.txt` (`c_alias`). -/
theorem solve_in_place_witness : witAliasing = true := by decide +kernel

/-! ## non-vacuity -/
section NonVacuity

/-- for each of the three classes there is a store holding a given matrix (what the harness builds) -/
example (k : Kind) : Is (Store.ofFn k 1 1 (fnOf A1)) k 1 1 (fnOf A1) := is_ofFn k (by decide) (by decide) A1

/-- `solve_store_spec` is not vacuous: on `[2]` held by a `LinearMatrix`, with the right-hand side
in a `ColMatrix` and a stale `3 × 5` `RowMatrix` as output, the statement-level `solve` returns -/
example : ∃ s d X', constructS (Store.ofFn .lin 1 1 (fnOf A1)) = .ok s ∧
    solveS s (Store.ofFn .col 1 2 (fnOf B1)) (Store.ofFn .row 3 5 (fun _ _ => (7 : ℝ))) = .ok (d, X') := by
  obtain ⟨s, e, r⟩ := constructS_is (is_ofFn .lin (by decide) (by decide) A1) (Nat.le_refl 1)
  have hret : ∃ d X, solve (factor (Nat.le_refl 1) A1) B1 = .ok (d, X) := by
    apply solve_returns _ _ (by decide) (by decide)
    intro i
    rw [A1_pivot i]
    unfold threshold
    simp only [ScalarReal.ofRat_eq, Generated.thresholdNum, Generated.thresholdDen]
    norm_num
  obtain ⟨d, Y, h⟩ := hret
  obtain ⟨X', e', _⟩ := solveS_ok r B1 (is_ofFn .col (by decide) (by decide) B1)
    (ofFn_holds .row 3 5 (fun _ _ => (7 : ℝ))).1 h
  exact ⟨s, d, X', e, e'⟩

end NonVacuity

end Bpp.C05
