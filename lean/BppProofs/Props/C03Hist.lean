import BppProofs.Props.C03Sound
import BppProofs.Lemmas.AliasReturns
/-!
# C03 (audit round 1) — tracking under the property's *input* guard, and sync along histories of
*all* the operations of the protocol

`update_returns`: an update whose values lie inside the constraints of the parameters written and of
everything that follows them returns normally; so the tracking theorems hold under the input guard of
the property, not only under "the call returned".  `history_keeps_sync`: along every history of alias /
unalias / bulk alias / the four update routes / copy / assign / setNamespace / new / add / queries,
interleaved arbitrarily on any objects, with these input guards, every parameter equals the parameter
it follows through a chain of any length.
-/
namespace Bpp.C03
open Bpp Bpp.Alias
open Bpp.ParamList (Bnd Con Par Store ObjId nameOf find? hasParameter names)

/-- **update_returns**: in every reachable world each of the four update routes returns normally when
the values it is given lie inside the constraints of the parameters they are written to and of all the
parameters that follow those, directly or through a chain (`AcceptedBelow`; for the source-iterating
setters `GuardSome`, for `setAllParametersValues` `GuardAll`, which also asks that every parameter be
named) — no `ConstraintException`, no `Exception` from a listener's name check, no
`ParameterNotFoundException`, no non-termination. -/
theorem update_returns (ops : List Op) (hw : WfRun World.init ops) (k : Nat) (o : Obj)
    (ho : (run World.init ops).objs k = some o) :
    (∀ n v i, find? (run World.init ops).heap o.params (o.pre ++ n) = some i → AcceptedBelow (run World.init ops) i v →
      (apSetParameterValue (run World.init ops) k n v).err = none) ∧
    (∀ src, GuardSome (run World.init ops) o src → (apSetParametersValues (run World.init ops) k src).err = none) ∧
    (∀ src, GuardSome (run World.init ops) o src → (apMatchParametersValues (run World.init ops) k src).1.err = none) ∧
    (∀ src, GuardAll (run World.init ops) o src → (apSetAllParametersValues (run World.init ops) k src).err = none) :=
  Alias.update_returns (inv_reachable ops hw) ho

/-- … and conversely `setParameterValue` raises only `ParameterNotFoundException` (unknown name) or
`ConstraintException` (the named parameter or one that follows it rejects the value) -/
theorem update_raises_only (ops : List Op) (hw : WfRun World.init ops) (k : Nat) (o : Obj)
    (ho : (run World.init ops).objs k = some o) (n : String) (v : Rat) {e : Err}
    (he : (apSetParameterValue (run World.init ops) k n v).err = some e) :
    (e = .notfound ∧ find? (run World.init ops).heap o.params (o.pre ++ n) = none) ∨
    (e = .constraint ∧ ∃ i t, find? (run World.init ops).heap o.params (o.pre ++ n) = some i ∧
      Reach (run World.init ops) i t ∧ ((run World.init ops).heap.get t).rejects v = true) :=
  setParameterValue_raises (inv_reachable ops hw) ho n v he

/-- **alias_tracks under the input guard** (the headline clause): in every reachable world, when
`setParameterValue(n, v)` names a parameter `i` of the object and `v` is inside the constraints of `i`
and of every parameter that follows it, the call returns, `i` holds `v`, and every parameter `a` whose
value changed is equalled by every `b` that follows it directly, and by every `b` that follows it
through a chain whose lower links were in sync -/
theorem alias_tracks (ops : List Op) (hw : WfRun World.init ops) (k : Nat) (o : Obj)
    (ho : (run World.init ops).objs k = some o) (n : String) (v : Rat) (i : ObjId)
    (hf : find? (run World.init ops).heap o.params (o.pre ++ n) = some i) (hg : AcceptedBelow (run World.init ops) i v) :
    (apSetParameterValue (run World.init ops) k n v).err = none ∧
    val (apSetParameterValue (run World.init ops) k n v).w i = v ∧
    (∀ a b l, l ∈ (run World.init ops).lsn a → tgt (run World.init ops) l = some b →
      val (apSetParameterValue (run World.init ops) k n v).w a ≠ val (run World.init ops) a →
      val (apSetParameterValue (run World.init ops) k n v).w b = val (apSetParameterValue (run World.init ops) k n v).w a) ∧
    (∀ a x b l, l ∈ (run World.init ops).lsn a → tgt (run World.init ops) l = some x → SyncPath (run World.init ops) x b →
      val (apSetParameterValue (run World.init ops) k n v).w a ≠ val (run World.init ops) a →
      val (apSetParameterValue (run World.init ops) k n v).w b = val (apSetParameterValue (run World.init ops) k n v).w a) := by
  have ok := (update_returns ops hw k o ho).1 n v i hf hg
  refine ⟨ok, ?_, fun a b l hl ht hc => alias_tracks_direct _ k n v ok hl ht hc,
    fun a x b l hl ht p hc => alias_tracks_chain _ k n v ok hl ht p hc⟩
  have ok' := ok
  simp only [apSetParameterValue, ho, setParameterValue, hf] at ok' ⊢
  exact (setValue_step _ i v ok').2

/-- non-vacuity of the guard: c[0,1] follows b follows a; 1 is accepted below a, 5 is not -/
example :
    let w := run World.init [.new 0 "", .add 0 ⟨"a", 0, none⟩, .add 0 ⟨"b", 0, none⟩,
      .add 0 ⟨"c", 0, some ⟨.fin 0, .fin 1, true, true⟩⟩, .alias 0 "a" "b", .alias 0 "b" "c"]
    (step w (.setv 0 "a" 1)).2 = .ok ∧ (step w (.setv 0 "a" 5)).2 = .err .constraint ∧
    (w.heap.get 2).rejects 5 = true ∧ (w.heap.get 0).rejects 5 = false := by decide

/-! ## Histories of all operations -/

/-- the input guard of one operation of a history that keeps every link in sync.  Updates: the values
are accepted below the parameters written, and only independent parameters are named (or, for
`setAllParametersValues`, both ends of every link get the same value).  `alias`: the two parameters
hold the same value (the pair form does not equalise values; a refused request changes nothing).
`bulk`: empty namespace and normal return (a bulk form that raises half-way has made links without
equalising them).  `add`: well-formed name.  Everything else: no condition. -/
def SafeOp (w : World) : Op → Prop
  | .setv k n v => ∀ o, w.objs k = some o → ∃ i, find? w.heap o.params (o.pre ++ n) = some i ∧ i ∈ o.indep ∧ AcceptedBelow w i v
  | .setvs k src => ∀ o, w.objs k = some o → NamesIndep w o src ∧ GuardSome w o src
  | .matchvs k src => ∀ o, w.objs k = some o → NamesIndep w o src ∧ GuardSome w o src
  | .setallv k src => ∀ o, w.objs k = some o → SrcCons w o src ∧ GuardAll w o src
  | .alias k p1 p2 => ∀ o, w.objs k = some o → ∀ i1 i2, find? w.heap o.params (o.pre ++ p1) = some i1 →
      find? w.heap o.params (o.pre ++ p2) = some i2 → val w i1 = val w i2
  | .bulk k es => ∀ o, w.objs k = some o → o.pre = "" ∧ (bulkAlias w k es).err = none
  | .add k p => Op.wf w (.add k p)
  | _ => True

def SafeHistory : World → List Op → Prop
  | _, [] => True
  | w, op :: rest => SafeOp w op ∧ SafeHistory (step w op).1 rest

theorem SafeOp.wf {w : World} {op : Op} (hs : SafeOp w op) : op.wf w := by
  cases op <;> first | exact hs | trivial

/-- one step: every operation of the protocol, under its guard, keeps all links of all objects in sync -/
theorem safe_step_keeps_sync {w : World} (h : Inv w) (hs : WSynced w) (op : Op) (hop : SafeOp w op) :
    WSynced (step w op).1 := by
  have hwf := hop.wf
  have hI : Inv (step w op).1 := inv_step h op hwf
  intro j o' ho'
  by_cases hj : j = op.slot
  swap
  · exact allSynced_frame h op hwf hj hs ho'
  -- the object the operation acts on
  have unchanged : (step w op).1 = w → AllSynced (step w op).1 o' := fun e => by
    rw [e] at ho' ⊢; exact hs j o' ho'
  cases op with
  | setv k n v =>
    have hj' : j = k := hj
    subst hj'
    have sb := (update_sameBut w j).1 n v
    have ho : w.objs j = some o' := by rw [← sb.objs]; exact ho'
    obtain ⟨i, hf, hind, hacc⟩ := hop o' ho
    have ok := (Alias.update_returns h ho).1 n v i hf hacc
    exact (alias_tracks_independent_updates h ho (hs j o' ho)).1 n v (fun t ht => by rw [hf] at ht; cases ht; exact hind) ok
  | setvs k src =>
    have hj' : j = k := hj
    subst hj'
    have sb := (update_sameBut w j).2.1 src
    have ho : w.objs j = some o' := by rw [← sb.objs]; exact ho'
    obtain ⟨hn, hg⟩ := hop o' ho
    exact (alias_tracks_independent_updates h ho (hs j o' ho)).2.1 src hn ((Alias.update_returns h ho).2.1 src hg)
  | matchvs k src =>
    have hj' : j = k := hj
    subst hj'
    have sb := (update_sameBut w j).2.2.1 src
    have ho : w.objs j = some o' := by rw [← sb.objs]; exact ho'
    obtain ⟨hn, hg⟩ := hop o' ho
    exact (alias_tracks_independent_updates h ho (hs j o' ho)).2.2 src hn ((Alias.update_returns h ho).2.2.1 src hg)
  | setallv k src =>
    have hj' : j = k := hj
    subst hj'
    have sb := (update_sameBut w j).2.2.2 src
    have ho : w.objs j = some o' := by rw [← sb.objs]; exact ho'
    obtain ⟨hc, hg⟩ := hop o' ho
    exact (setAll_consistent (h.obj j o' ho) ho hc ((Alias.update_returns h ho).2.2.2 src hg)).2
  | «alias» k p1 p2 =>
    have hj' : j = k := hj
    subst hj'
    cases ho : w.objs j with
    | none => exact unchanged (by simp [step, stepWR, aliasPair, aliasPairG, ho])
    | some o =>
      cases hh : (aliasPair w j p1 p2).err with
      | some e => exact unchanged (aliasPair_err_unchanged h ho p1 p2 (by rw [hh]; simp))
      | none => exact alias_keeps_sync h ho (hs j o ho) hh (hop o ho) o' ho'
  | unalias k p1 p2 =>
    have hj' : j = k := hj
    subst hj'
    cases ho : w.objs j with
    | none => exact unchanged (by simp [step, stepWR, unalias, ho])
    | some o =>
      obtain ⟨u1, u2⟩ := unalias_restores h ho p1 p2
      cases hh : (unalias w j p1 p2).err with
      | some e => exact unchanged (u1 (by rw [hh]; simp))
      | none =>
        obtain ⟨i1, i2, o2, _, _, ho2, hp, _, _, hreg, _, hheap, hlis, _, _⟩ := u2 hh
        have ho2' : (step w (.unalias j p1 p2)).1.objs j = some o2 := ho2
        rw [ho'] at ho2'; cases ho2'
        have hobj := h.obj j o ho
        have hpre : o'.pre = o.pre := by
          obtain ⟨_, s2⟩ := unalias_spec hobj ho p1 p2
          obtain ⟨a1, a2, _, _, _, _, _, heq⟩ := s2 hh
          have hthis : (unalias w j p1 p2).w.objs j = some (unaliasedObj o p1 p2 a2) := by rw [heq]; simp [unaliased]
          rw [ho2] at hthis
          rw [Option.some.inj hthis]
        intro e he s t hsm hsn ht
        show val (unalias w j p1 p2).w t = val (unalias w j p1 p2).w s
        have hv : ∀ x, val (unalias w j p1 p2).w x = val w x := fun x => by simp only [val, hheap]
        have hn : ∀ x, nameOf (unalias w j p1 p2).w.heap x = nameOf w.heap x := fun x => by simp only [hheap]
        rw [hv, hv]
        have he' : e ∈ o.reg := by rw [hreg] at he; exact ((mem_mapErase _ _ _).1 he).1
        have hsn' : nameOf w.heap s = o.pre ++ (w.lis e.2).src := by
          have := hsn; rw [show (step w (.unalias j p1 p2)).1 = (unalias w j p1 p2).w from rfl, hn, hlis, hpre] at this; exact this
        have ht' : o.params[(w.lis e.2).alias]? = some t := by
          have := ht; rw [show (step w (.unalias j p1 p2)).1 = (unalias w j p1 p2).w from rfl, hlis, hp] at this; exact this
        exact hs j o ho e he' s t (hp ▸ hsm) hsn' ht'
  | bulk k es =>
    have hj' : j = k := hj
    subst hj'
    cases ho : w.objs j with
    | none => exact unchanged (by simp [step, stepWR, bulkAlias, bulkAliasG, ho])
    | some o =>
      obtain ⟨hpre, ok⟩ := hop o ho
      exact bulkAlias_allSynced h ho hpre (hs j o ho) es ok o' ho'
  | copy s d =>
    have hj' : j = d := hj
    subst hj'
    cases ho : w.objs s with
    | none => exact unchanged (by simp [step, stepWR, copyConstruct, ho])
    | some o =>
      obtain ⟨_, od, hod, hsv, _⟩ := copy_carries h (d := j) ho
      have hod' : (step w (.copy s j)).1.objs j = some od := hod
      rw [ho'] at hod'; cases hod'
      rw [← allSynced_view (hI.obj j o' ho') ho']
      show (svOf (copyConstruct w s j).w o').allSynced = true
      rw [hsv, allSynced_view (h.obj s o ho) ho]
      exact hs s o ho
  | assign s d =>
    have hj' : j = d := hj
    subst hj'
    cases ho : w.objs s with
    | none => exact unchanged (by simp [step, stepWR, assign, ho])
    | some o =>
      cases hd : w.objs j with
      | none => exact unchanged (by simp [step, stepWR, assign, ho, hd])
      | some od0 =>
        by_cases hsd : s = j
        · subst hsd
          exact unchanged (by simp [step, stepWR, assign_self w s o ho])
        · obtain ⟨_, od, hod, hsv, _⟩ := assign_carries h ho hd hsd
          have hod' : (step w (.assign s j)).1.objs j = some od := hod
          rw [ho'] at hod'; cases hod'
          rw [← allSynced_view (hI.obj j o' ho') ho']
          show (svOf (assign w s j).w o').allSynced = true
          rw [hsv, allSynced_view (h.obj s o ho) ho]
          exact hs s o ho
  | ns k pre =>
    have hj' : j = k := hj
    subst hj'
    cases ho : w.objs j with
    | none => exact unchanged (by simp [step, stepWR, setNamespace, ho])
    | some o =>
      obtain ⟨_, hobj, hpar, _, hlis, _⟩ := namespace_preserves h ho pre
      have hobj' : (step w (.ns j pre)).1.objs j = some _ := hobj
      rw [ho'] at hobj'; cases hobj'
      intro e he s t hsm hsn ht
      show val (setNamespace w j pre).w t = val (setNamespace w j pre).w s
      obtain ⟨_, ha, hsrc⟩ := hlis e he
      have hsn0 : nameOf (setNamespace w j pre).w.heap s = pre ++ ((setNamespace w j pre).w.lis e.2).src := hsn
      have ht0 : o.params[((setNamespace w j pre).w.lis e.2).alias]? = some t := ht
      rw [hsrc] at hsn0
      rw [ha] at ht0
      obtain ⟨x, hx, hx', hvs, _⟩ := hpar s hsm
      obtain ⟨_, _, _, hvt, _⟩ := hpar t (List.mem_of_getElem? ht0)
      rw [hvs, hvt]
      have : x = (w.lis e.2).src := append_left_cancel' (hx'.symm.trans hsn0)
      exact hs j o ho e he s t hsm (by rw [hx, this]) ht0
  | new k pre =>
    have hj' : j = k := hj
    subst hj'
    have : (step w (.new j pre)).1.objs j = some { params := [], indep := [], reg := [], pre := pre } := by
      simp [step, newObj]
    rw [ho'] at this; cases this
    intro e he; cases he
  | add k p =>
    have hj' : j = k := hj
    subst hj'
    cases ho : w.objs j with
    | none => exact unchanged (by simp [step, stepWR, addParam, ho])
    | some o =>
      have hobj := h.obj j o ho
      by_cases hok : p.ok = true
      swap
      · exact unchanged (by simp [step, stepWR, addParam, ho, hok])
      by_cases hnew : hasParameter w.heap o.params p.name = true
      · exact unchanged (by simp [step, stepWR, addParam, ho, hok, hnew])
      have hnew' : hasParameter w.heap o.params p.name = false := by simpa using hnew
      obtain ⟨x, hx, _⟩ := hop o ho
      have heq := addParam_eq hobj ho hok hx hnew'
      have hW : (step w (.add j p)).1 = (w.allocPar p []).1.setObj j (addedObj o w.heap.next) := by
        simp [step, stepWR, heq]
      have hobjW : (step w (.add j p)).1.objs j = some (addedObj o w.heap.next) := by rw [hW]; simp
      rw [ho'] at hobjW; cases hobjW
      have hiW := hI.obj j _ ho'
      have hold : ∀ i, i < w.heap.next → (step w (.add j p)).1.heap.get i = w.heap.get i := by
        intro i hi; rw [hW]; simp [Nat.ne_of_lt hi]
      have hlisW : (step w (.add j p)).1.lis = w.lis := by rw [hW]; simp
      intro e he s t hsm hsn ht
      rw [hlisW] at hsn ht
      obtain ⟨_, _, _, ⟨s0, hs0, hs0n, _⟩, ⟨t0, _, ht0, _, _, _⟩⟩ := hobj.regOk e he
      have hs0W : nameOf (step w (.add j p)).1.heap s0 = o.pre ++ (w.lis e.2).src := by
        simp only [nameOf, hold s0 (hobj.valid s0 hs0)]; exact hs0n
      have es : s = s0 := hiW.name_inj hsm (List.mem_append_left _ hs0) (hsn.trans hs0W.symm)
      have et : t = t0 := by
        have := getElem?_append_of_some ht0 [w.heap.next]
        rw [this] at ht; exact (Option.some.inj ht).symm
      subst es et
      simp only [val, hold s (hobj.valid s hs0), hold t (hobj.valid t (List.mem_of_getElem? ht0))]
      exact hs j o ho e he s t hs0 hs0n ht0
  | aliases k => exact unchanged (by simp only [step]; split <;> rfl)
  | aliasOf k n => exact unchanged (by simp only [step]; split <;> rfl)
  | «from» k n => exact unchanged (by simp only [step]; split <;> rfl)

/-- **chains of any length along arbitrary interleaved histories**: starting from any world that
satisfies the invariant and has all links in sync — in particular from the empty world — along every
history of the operations of the protocol (alias, unalias, bulk alias, set by name, bulk set, match,
set all, copy-construct, assign, setNamespace, new, add, the queries), on any objects, each under its
input guard `SafeOp`, every object of the world has all its links in sync at the end: each parameter
equals the parameter it follows through a chain of any length (`synced_chain`). -/
theorem history_keeps_sync : ∀ (ops : List Op) {w : World}, Inv w → WSynced w → SafeHistory w ops → WSynced (run w ops)
  | [], _, _, hs, _ => hs
  | op :: rest, _, h, hs, hh =>
    history_keeps_sync rest (inv_step h op hh.1.wf) (safe_step_keeps_sync h hs op hh.1) hh.2

theorem history_keeps_sync_from_init (ops : List Op) (hh : SafeHistory World.init ops) : WSynced (run World.init ops) :=
  history_keeps_sync ops inv_init (fun k o ho => by cases ho) hh

/-- non-vacuity: a history mixing object creation, a pair alias of equal values, a copy, a rename, an
un-alias and a query satisfies the guards (the guards of the updates are exercised by `alias_tracks`) -/
example : SafeHistory World.init [.new 0 "", .add 0 ⟨"a", 1, none⟩, .add 0 ⟨"b", 1, none⟩, .alias 0 "a" "b",
    .copy 0 1, .ns 1 "m.", .unalias 1 "a" "b", .aliases 0] := by
  refine ⟨trivial, ?_, ?_, ?_, trivial, trivial, trivial, trivial, trivial⟩
  · intro o ho
    have : o.pre = "" := by
      have h0 : ((step World.init (.new 0 "")).1.objs 0).map (·.pre) = some "" := by decide
      rw [ho] at h0; simpa using h0
    exact ⟨"a", by rw [this]; decide, by decide, by decide⟩
  · intro o ho
    have : o.pre = "" := by
      have h0 : ((run World.init [.new 0 "", .add 0 ⟨"a", 1, none⟩]).objs 0).map (·.pre) = some "" := by decide
      rw [show (run World.init [.new 0 "", .add 0 ⟨"a", 1, none⟩]) = (step (step World.init (Op.new 0 "")).1 (Op.add 0 ⟨"a", 1, none⟩)).1 from rfl, ho] at h0
      simpa using h0
    exact ⟨"b", by rw [this]; decide, by decide, by decide⟩
  · intro o ho i1 i2 h1 h2
    let w := run World.init [.new 0 "", .add 0 ⟨"a", 1, none⟩, .add 0 ⟨"b", 1, none⟩]
    have hw : (step (step (step World.init (Op.new 0 "")).1 (Op.add 0 ⟨"a", 1, none⟩)).1 (Op.add 0 ⟨"b", 1, none⟩)).1 = w := rfl
    rw [hw] at ho h1 h2 ⊢
    have ho0 : w.objs 0 = some { params := [0, 1], indep := [0, 1], reg := [], pre := "" } := by decide
    rw [ho0] at ho; cases ho
    have e1 : find? w.heap [0, 1] ("" ++ "a") = some 0 := by decide
    have e2 : find? w.heap [0, 1] ("" ++ "b") = some 1 := by decide
    rw [e1] at h1; rw [e2] at h2; cases h1; cases h2
    decide

end Bpp.C03
