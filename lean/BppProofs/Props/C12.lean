import BppProofs.Lemmas.NumDeriv
/-!
# C12 — numerical derivatives are transparent and exact on low-degree polynomials

Property theorems only; helper lemmas are in `Lemmas/NumDeriv.lean`.
-/
namespace Bpp.C12
open Bpp Bpp.NumDeriv

/-! ## Exactness of the difference formulas (as written in the sources, read over ℝ) -/

/-- two-point formula: exact on polynomials of degree ≤ 1, for any step -/
theorem two_point_exact_deg1 (a b x h : ℝ) (hh : h ≠ 0) :
    d1Two (a + b * x) (a + b * (x + h)) h = b := by
  rw [d1Two_real]; field_simp; ring

end Bpp.C12
