import BppProofs.Lemmas.NumDerivExamples
/-!
# C12 — numerical derivatives are transparent and exact on low-degree polynomials

Property theorems only; helper lemmas are in `Lemmas/NumDeriv.lean`.
All statements are about the model of `BppModel/NumDeriv.lean` read over `ℝ` (rounding is not
modelled).

Part 1: exactness and remainder identities of the difference formulas as they are written in the
sources (`d1Two`, `d1Three`, `d2Three`, `crossThree`, `d1Five`, `d2Five`, `d1Side`, `d2Side` are the
expressions of Two:93, Three:137-138, Three:202, Five:63-64, Five:75-76/90-91).
-/
namespace Bpp.C12
open Bpp Bpp.NumDeriv

/-! ## 1. Exactness of the difference formulas -/

/-- two-point formula: exact on polynomials of degree ≤ 1, whichever side the probe is on -/
theorem two_point_exact_deg1 (a b x h : ℝ) (hh : h ≠ 0) :
    d1Two (a + b * x) (a + b * (x + h)) h = b := by
  rw [d1Two_real]; field_simp; ring

/-- … and first order: on a quadratic the error is `c * h` -/
theorem two_point_remainder_deg2 (a b c x h : ℝ) (hh : h ≠ 0) :
    d1Two (a + b * x + c * x ^ 2) (a + b * (x + h) + c * (x + h) ^ 2) h = (b + 2 * c * x) + c * h := by
  rw [d1Two_real]; field_simp; ring

/-- three-point first derivative with symmetric probes (`hf3 = -hf1`): exact on degree ≤ 2 -/
theorem three_point_d1_exact_deg2 (a b c x h : ℝ) (hh : h ≠ 0) :
    d1Three (a + b * (x + h) + c * (x + h) ^ 2) (a + b * (x - h) + c * (x - h) ^ 2) h (-h)
      = b + 2 * c * x := by
  rw [d1Three_real]
  have : h - -h ≠ 0 := by intro e; apply hh; linarith
  field_simp; ring

/-- … second order: on a cubic the error is `d * h^2` -/
theorem three_point_d1_remainder_deg3 (a b c d x h : ℝ) (hh : h ≠ 0) :
    d1Three (a + b * (x + h) + c * (x + h) ^ 2 + d * (x + h) ^ 3)
            (a + b * (x - h) + c * (x - h) ^ 2 + d * (x - h) ^ 3) h (-h)
      = (b + 2 * c * x + 3 * d * x ^ 2) + d * h ^ 2 := by
  rw [d1Three_real]
  have : h - -h ≠ 0 := by intro e; apply hh; linarith
  field_simp; ring

/-- one-sided form (any two distinct steps, e.g. `h` and `h/2` next to a bound): exact on degree ≤ 1,
and on a quadratic the error is `c * (hf1 + hf3)` -/
theorem three_point_d1_one_sided (a b c x hf1 hf3 : ℝ) (hne : hf1 ≠ hf3) :
    d1Three (a + b * (x + hf1) + c * (x + hf1) ^ 2) (a + b * (x + hf3) + c * (x + hf3) ^ 2) hf1 hf3
      = (b + 2 * c * x) + c * (hf1 + hf3) := by
  rw [d1Three_real]
  have : hf1 - hf3 ≠ 0 := sub_ne_zero.mpr hne
  field_simp; ring

theorem three_point_d1_one_sided_exact_deg1 (a b x hf1 hf3 : ℝ) (hne : hf1 ≠ hf3) :
    d1Three (a + b * (x + hf1)) (a + b * (x + hf3)) hf1 hf3 = b := by
  have := three_point_d1_one_sided a b 0 x hf1 hf3 hne
  simpa using this

/-- three-point second derivative with symmetric probes: exact on degree ≤ 3 -/
theorem three_point_d2_exact_deg3 (a b c d x h : ℝ) (hh : h ≠ 0) :
    d2Three (a + b * (x + h) + c * (x + h) ^ 2 + d * (x + h) ^ 3)
            (a + b * x + c * x ^ 2 + d * x ^ 3)
            (a + b * (x - h) + c * (x - h) ^ 2 + d * (x - h) ^ 3) h (-h)
      = 2 * c + 6 * d * x := by
  rw [d2Three_real]
  have : h - -h ≠ 0 := by intro e; apply hh; linarith
  have h' : -h ≠ 0 := neg_ne_zero.mpr hh
  field_simp; ring

/-- … second order: on a quartic the error is `2 * e * h^2` -/
theorem three_point_d2_remainder_deg4 (a b c d e x h : ℝ) (hh : h ≠ 0) :
    d2Three (a + b * (x + h) + c * (x + h) ^ 2 + d * (x + h) ^ 3 + e * (x + h) ^ 4)
            (a + b * x + c * x ^ 2 + d * x ^ 3 + e * x ^ 4)
            (a + b * (x - h) + c * (x - h) ^ 2 + d * (x - h) ^ 3 + e * (x - h) ^ 4) h (-h)
      = (2 * c + 6 * d * x + 12 * e * x ^ 2) + 2 * e * h ^ 2 := by
  rw [d2Three_real]
  have : h - -h ≠ 0 := by intro e; apply hh; linarith
  have h' : -h ≠ 0 := neg_ne_zero.mpr hh
  field_simp; ring

/-- one-sided form (any two distinct non-zero steps): exact on degree ≤ 2, error
`2 * d * (hf1 + hf3)` on a cubic -/
theorem three_point_d2_one_sided (a b c d x hf1 hf3 : ℝ) (h1 : hf1 ≠ 0) (h3 : hf3 ≠ 0) (hne : hf1 ≠ hf3) :
    d2Three (a + b * (x + hf1) + c * (x + hf1) ^ 2 + d * (x + hf1) ^ 3)
            (a + b * x + c * x ^ 2 + d * x ^ 3)
            (a + b * (x + hf3) + c * (x + hf3) ^ 2 + d * (x + hf3) ^ 3) hf1 hf3
      = (2 * c + 6 * d * x) + 2 * d * (hf1 + hf3) := by
  rw [d2Three_real]
  have : hf1 - hf3 ≠ 0 := sub_ne_zero.mpr hne
  field_simp; ring

theorem three_point_d2_one_sided_exact_deg2 (a b c x hf1 hf3 : ℝ) (h1 : hf1 ≠ 0) (h3 : hf3 ≠ 0) (hne : hf1 ≠ hf3) :
    d2Three (a + b * (x + hf1) + c * (x + hf1) ^ 2) (a + b * x + c * x ^ 2)
            (a + b * (x + hf3) + c * (x + hf3) ^ 2) hf1 hf3 = 2 * c := by
  have := three_point_d2_one_sided a b c 0 x hf1 hf3 h1 h3 hne
  simpa using this

/-- a polynomial of degree ≤ 5 in one variable, by its coefficients -/
def poly5 (c : Fin 6 → ℝ) (t : ℝ) : ℝ :=
  c 0 + c 1 * t + c 2 * t ^ 2 + c 3 * t ^ 3 + c 4 * t ^ 4 + c 5 * t ^ 5
def poly5' (c : Fin 6 → ℝ) (t : ℝ) : ℝ :=
  c 1 + 2 * c 2 * t + 3 * c 3 * t ^ 2 + 4 * c 4 * t ^ 3 + 5 * c 5 * t ^ 4
def poly5'' (c : Fin 6 → ℝ) (t : ℝ) : ℝ :=
  2 * c 2 + 6 * c 3 * t + 12 * c 4 * t ^ 2 + 20 * c 5 * t ^ 3

/-- five-point first derivative (central): fourth order — on degree ≤ 5 the error is `-4 c₅ h⁴`,
hence exact on degree ≤ 4 -/
theorem five_point_d1_remainder_deg5 (c : Fin 6 → ℝ) (x h : ℝ) (hh : h ≠ 0) :
    d1Five (poly5 c (x - 2 * h)) (poly5 c (x - h)) (poly5 c (x + h)) (poly5 c (x + 2 * h)) h
      = poly5' c x - 4 * c 5 * h ^ 4 := by
  rw [d1Five_real]; unfold poly5 poly5'; field_simp; ring

theorem five_point_d1_exact_deg4 (c : Fin 6 → ℝ) (hc : c 5 = 0) (x h : ℝ) (hh : h ≠ 0) :
    d1Five (poly5 c (x - 2 * h)) (poly5 c (x - h)) (poly5 c (x + h)) (poly5 c (x + 2 * h)) h
      = poly5' c x := by
  rw [five_point_d1_remainder_deg5 c x h hh, hc]; ring

/-- five-point second derivative (central): exact on degree ≤ 5 -/
theorem five_point_d2_exact_deg5 (c : Fin 6 → ℝ) (x h : ℝ) (hh : h ≠ 0) :
    d2Five (poly5 c (x - 2 * h)) (poly5 c (x - h)) (poly5 c x) (poly5 c (x + h)) (poly5 c (x + 2 * h)) h
      = poly5'' c x := by
  rw [d2Five_real]; unfold poly5 poly5''; field_simp; ring

/-- … fourth order: the error on `t^6` is `-8 h⁴` -/
theorem five_point_d2_remainder_deg6 (x h : ℝ) (hh : h ≠ 0) :
    d2Five ((x - 2 * h) ^ 6) ((x - h) ^ 6) (x ^ 6) ((x + h) ^ 6) ((x + 2 * h) ^ 6) h
      = 30 * x ^ 4 - 8 * h ^ 4 := by
  rw [d2Five_real]; field_simp; ring

/-- the one-sided fallbacks of the five-point scheme (`s = 1` forward, `s = -1` backward, as
`d1Side f4 f3 h` / `d1Side f3 f2 h`): exact on degree ≤ 1 resp. ≤ 2, first order beyond -/
theorem five_point_forward (a b c d x h : ℝ) (hh : h ≠ 0) :
    d1Side (a + b * (x + h) + c * (x + h) ^ 2) (a + b * x + c * x ^ 2) h = (b + 2 * c * x) + c * h ∧
    d2Side (a + b * (x + 2 * h) + c * (x + 2 * h) ^ 2 + d * (x + 2 * h) ^ 3)
           (a + b * (x + h) + c * (x + h) ^ 2 + d * (x + h) ^ 3)
           (a + b * x + c * x ^ 2 + d * x ^ 3) h = (2 * c + 6 * d * x) + 6 * d * h := by
  rw [d1Side_real, d2Side_real]; constructor <;> (field_simp; ring)

theorem five_point_backward (a b c d x h : ℝ) (hh : h ≠ 0) :
    d1Side (a + b * x + c * x ^ 2) (a + b * (x - h) + c * (x - h) ^ 2) h = (b + 2 * c * x) - c * h ∧
    d2Side (a + b * x + c * x ^ 2 + d * x ^ 3)
           (a + b * (x - h) + c * (x - h) ^ 2 + d * (x - h) ^ 3)
           (a + b * (x - 2 * h) + c * (x - 2 * h) ^ 2 + d * (x - 2 * h) ^ 3) h = (2 * c + 6 * d * x) - 6 * d * h := by
  rw [d1Side_real, d2Side_real]; constructor <;> (field_simp; ring)

/-! ### Remainders on the whole quantifier of the property (degree ≤ 5)

"… and otherwise converge with the step at the scheme's order": for every polynomial of degree ≤ 5
the error of each formula is an explicit polynomial in the step with the factor `h` (two-point and
one-sided forms: first order), `h²` (three-point central: second order), `h⁴` (five-point: fourth
order).  `poly5d3 … poly5d5` are the third to fifth derivatives. -/

def poly5d3 (c : Fin 6 → ℝ) (t : ℝ) : ℝ := 6 * c 3 + 24 * c 4 * t + 60 * c 5 * t ^ 2
def poly5d4 (c : Fin 6 → ℝ) (t : ℝ) : ℝ := 24 * c 4 + 120 * c 5 * t
def poly5d5 (c : Fin 6 → ℝ) : ℝ := 120 * c 5

/-- two-point formula (and the one-sided first derivatives of the five-point scheme, which are the
same quotient): first order on every polynomial of degree ≤ 5, whichever side the probe is on -/
theorem two_point_remainder_deg5 (c : Fin 6 → ℝ) (x h : ℝ) (hh : h ≠ 0) :
    d1Two (poly5 c x) (poly5 c (x + h)) h = poly5' c x +
      h * (poly5'' c x / 2 + h * poly5d3 c x / 6 + h ^ 2 * poly5d4 c x / 24 + h ^ 3 * poly5d5 c / 120) := by
  rw [d1Two_real]; unfold poly5 poly5' poly5'' poly5d3 poly5d4 poly5d5; field_simp; ring

theorem five_point_one_sided_d1_remainder_deg5 (c : Fin 6 → ℝ) (x h : ℝ) (hh : h ≠ 0) :
    d1Side (poly5 c (x + h)) (poly5 c x) h = poly5' c x +
      h * (poly5'' c x / 2 + h * poly5d3 c x / 6 + h ^ 2 * poly5d4 c x / 24 + h ^ 3 * poly5d5 c / 120) ∧
    d1Side (poly5 c x) (poly5 c (x - h)) h = poly5' c x -
      h * (poly5'' c x / 2 - h * poly5d3 c x / 6 + h ^ 2 * poly5d4 c x / 24 - h ^ 3 * poly5d5 c / 120) := by
  rw [d1Side_real, d1Side_real]; unfold poly5 poly5' poly5'' poly5d3 poly5d4 poly5d5
  constructor <;> (field_simp; ring)

/-- three-point first derivative, symmetric probes: second order on degree ≤ 5 -/
theorem three_point_d1_remainder_deg5 (c : Fin 6 → ℝ) (x h : ℝ) (hh : h ≠ 0) :
    d1Three (poly5 c (x + h)) (poly5 c (x - h)) h (-h) = poly5' c x +
      h ^ 2 * (poly5d3 c x / 6 + h ^ 2 * poly5d5 c / 120) := by
  rw [d1Three_real]
  have : h - -h ≠ 0 := by intro e; apply hh; linarith
  unfold poly5 poly5' poly5d3 poly5d5; field_simp; ring

/-- three-point second derivative, symmetric probes: second order on degree ≤ 5 -/
theorem three_point_d2_remainder_deg5 (c : Fin 6 → ℝ) (x h : ℝ) (hh : h ≠ 0) :
    d2Three (poly5 c (x + h)) (poly5 c x) (poly5 c (x - h)) h (-h) = poly5'' c x + h ^ 2 * (poly5d4 c x / 12) := by
  rw [d2Three_real]
  have : h - -h ≠ 0 := by intro e; apply hh; linarith
  have h' : -h ≠ 0 := neg_ne_zero.mpr hh
  unfold poly5 poly5'' poly5d4; field_simp; ring

/-- three-point formulas with any two distinct non-zero steps `a`, `b` (the one-sided fall-backs use
`H, H/2`, the halved ones `∓H/2`): first order in the steps on degree ≤ 5 -/
theorem three_point_one_sided_remainder_deg5 (c : Fin 6 → ℝ) (x a b : ℝ) (ha : a ≠ 0) (hb : b ≠ 0) (hne : a ≠ b) :
    d1Three (poly5 c (x + a)) (poly5 c (x + b)) a b = poly5' c x +
      ((a + b) * poly5'' c x / 2 + (a ^ 2 + a * b + b ^ 2) * poly5d3 c x / 6 +
       (a ^ 3 + a ^ 2 * b + a * b ^ 2 + b ^ 3) * poly5d4 c x / 24 +
       (a ^ 4 + a ^ 3 * b + a ^ 2 * b ^ 2 + a * b ^ 3 + b ^ 4) * poly5d5 c / 120) ∧
    d2Three (poly5 c (x + a)) (poly5 c x) (poly5 c (x + b)) a b = poly5'' c x +
      ((a + b) * poly5d3 c x / 3 + (a ^ 2 + a * b + b ^ 2) * poly5d4 c x / 12 +
       (a ^ 3 + a ^ 2 * b + a * b ^ 2 + b ^ 3) * poly5d5 c / 60) := by
  rw [d1Three_real, d2Three_real]
  have : a - b ≠ 0 := sub_ne_zero.mpr hne
  unfold poly5 poly5' poly5'' poly5d3 poly5d4 poly5d5
  constructor <;> (field_simp; ring)

/-- one-sided second derivatives of the five-point scheme: first order on degree ≤ 5 -/
theorem five_point_one_sided_d2_remainder_deg5 (c : Fin 6 → ℝ) (x h : ℝ) (hh : h ≠ 0) :
    d2Side (poly5 c (x + 2 * h)) (poly5 c (x + h)) (poly5 c x) h = poly5'' c x +
      h * (poly5d3 c x + h * (7 / 12) * poly5d4 c x + h ^ 2 * poly5d5 c / 4) ∧
    d2Side (poly5 c x) (poly5 c (x - h)) (poly5 c (x - 2 * h)) h = poly5'' c x -
      h * (poly5d3 c x - h * (7 / 12) * poly5d4 c x + h ^ 2 * poly5d5 c / 4) := by
  rw [d2Side_real, d2Side_real]; unfold poly5 poly5'' poly5d3 poly5d4 poly5d5
  constructor <;> (field_simp; ring)

/-- the cross formula is linear in the function and, on a product `g(s) k(t)`, the product of the
two central first differences: with `three_point_d1_remainder_deg5` this gives the error of the
cross derivative on every monomial `sⁱ tʲ`, `i, j ≤ 5`, hence (linearity) on every polynomial of the
property's quantifier — second order in `h1` and in `h2` -/
theorem cross_product (g k : ℝ → ℝ) (x y h1 h2 : ℝ) (hh1 : h1 ≠ 0) (hh2 : h2 ≠ 0) :
    crossThree (g (x - h1) * k (y - h2)) (g (x - h1) * k (y + h2)) (g (x + h1) * k (y - h2)) (g (x + h1) * k (y + h2)) h1 h2
      = d1Three (g (x + h1)) (g (x - h1)) h1 (-h1) * d1Three (k (y + h2)) (k (y - h2)) h2 (-h2) := by
  rw [crossThree_real, d1Three_real, d1Three_real]
  have : h1 - -h1 ≠ 0 := by intro e; apply hh1; linarith
  have : h2 - -h2 ≠ 0 := by intro e; apply hh2; linarith
  field_simp; ring

theorem cross_linear (a b u11 u12 u21 u22 v11 v12 v21 v22 h1 h2 : ℝ) :
    crossThree (a * u11 + b * v11) (a * u12 + b * v12) (a * u21 + b * v21) (a * u22 + b * v22) h1 h2
      = a * crossThree u11 u12 u21 u22 h1 h2 + b * crossThree v11 v12 v21 v22 h1 h2 := by
  simp only [crossThree_real]; ring

/-- a polynomial of degree ≤ 2 in each of two variables (coefficients `c i j` of `s^i t^j`) -/
def biquad (c : Fin 3 → Fin 3 → ℝ) (s t : ℝ) : ℝ :=
  c 0 0 + c 0 1 * t + c 0 2 * t ^ 2 + c 1 0 * s + c 1 1 * s * t + c 1 2 * s * t ^ 2
    + c 2 0 * s ^ 2 + c 2 1 * s ^ 2 * t + c 2 2 * s ^ 2 * t ^ 2
def biquadXY (c : Fin 3 → Fin 3 → ℝ) (s t : ℝ) : ℝ :=
  c 1 1 + 2 * c 1 2 * t + 2 * c 2 1 * s + 4 * c 2 2 * s * t

/-- cross derivative on the 2×2 stencil: exact when the degree is ≤ 2 in each of the two variables
(in particular on bilinear functions) -/
theorem cross_exact_biquadratic (c : Fin 3 → Fin 3 → ℝ) (x y h1 h2 : ℝ) (hh1 : h1 ≠ 0) (hh2 : h2 ≠ 0) :
    crossThree (biquad c (x - h1) (y - h2)) (biquad c (x - h1) (y + h2))
               (biquad c (x + h1) (y - h2)) (biquad c (x + h1) (y + h2)) h1 h2
      = biquadXY c x y := by
  rw [crossThree_real]; unfold biquad biquadXY; field_simp; ring

theorem cross_exact_bilinear (a b c d x y h1 h2 : ℝ) (hh1 : h1 ≠ 0) (hh2 : h2 ≠ 0) :
    crossThree (a + b * (x - h1) + c * (y - h2) + d * (x - h1) * (y - h2))
               (a + b * (x - h1) + c * (y + h2) + d * (x - h1) * (y + h2))
               (a + b * (x + h1) + c * (y - h2) + d * (x + h1) * (y - h2))
               (a + b * (x + h1) + c * (y + h2) + d * (x + h1) * (y + h2)) h1 h2 = d := by
  rw [crossThree_real]; field_simp; ring

/-- second order: the error on `s^3 t` is `h1^2` (and symmetrically) -/
theorem cross_remainder_cubic (x y h1 h2 : ℝ) (hh1 : h1 ≠ 0) (hh2 : h2 ≠ 0) :
    crossThree ((x - h1) ^ 3 * (y - h2)) ((x - h1) ^ 3 * (y + h2))
               ((x + h1) ^ 3 * (y - h2)) ((x + h1) ^ 3 * (y + h2)) h1 h2 = 3 * x ^ 2 + h1 ^ 2 := by
  rw [crossThree_real]; field_simp; ring


/-! ## 2. Transparency

`W.call f w e` is an entry point of the wrapper (`setParameters`, `setAllParametersValues`,
`setParameterValue`, `setParametersValues`, `matchParametersValues`, `f`) for any of the three
schemes, any selection of variables, any constraints, any objective `f`, any number of probes and
constraint hits.  Hypotheses: the wrapped function's own list has no duplicate name and no
precision (`Own`: with a precision its parameters only follow the requested values up to that
precision), its cached value is the value at its current point (`Fn.OK`; preserved, see
`transparent`), and the list that is passed has no duplicate name (`Entry.Nodup`, guaranteed by
`ParameterList::addParameter`).  `e.apply l` is the requested vector: the values of the passed
list taken over into `l`, nothing else changed. -/

/-- after an entry point that returns normally, the wrapped function's parameter vector is the
requested one, the wrapper reports the function's value there and so does the wrapped function;
the hypotheses hold again for the next call. -/
theorem transparent (f : List ℝ → ℝ) (w : W ℝ) (e : Entry ℝ) (hown : Own w.fn) (hok : w.fn.OK f) (he : e.Nodup)
    (hret : (w.call f e).2.1 = none) :
    (w.call f e).1.fn.params = e.apply w.fn.params ∧
    (w.call f e).1.value = f (values (e.apply w.fn.params)) ∧
    (w.call f e).1.fn.fval = f (values (e.apply w.fn.params)) ∧
    Own (w.call f e).1.fn ∧ (w.call f e).1.fn.OK f := by
  obtain ⟨h0, h1, h2, h3, h4, _⟩ := call_spec f w e hown hok he hret
  have hp := forward_params f w.fn e hown he h0
  rw [hp] at h1
  refine ⟨h1, by rw [h2, h1], ?_, h4, h3⟩
  have := h3; unfold Fn.OK at this; rw [this, h1]

/-- the wrapper is transparent as a `Parametrizable`: the wrapped function ends in the state of
its parameters the same call made directly on it would have produced -/
theorem transparent_as_direct_call (f : List ℝ → ℝ) (w : W ℝ) (e : Entry ℝ) (hown : Own w.fn) (hok : w.fn.OK f)
    (he : e.Nodup) (hret : (w.call f e).2.1 = none) :
    (w.call f e).1.fn.params = (w.fn.forward f e).1.params :=
  (call_spec f w e hown hok he hret).2.1

/-- a call refused by the wrapped function itself (constraint, unknown name) changes nothing -/
theorem raise_unchanged (f : List ℝ → ℝ) (w : W ℝ) (e : Entry ℝ) (hown : Own w.fn) (he : e.Nodup)
    (hraise : (w.fn.forward f e).2.1 ≠ none) :
    (w.call f e).1 = w ∧ (w.call f e).2.1 = (w.fn.forward f e).2.1 := by
  have h := forward_raise f w.fn e hown he hraise
  unfold W.call
  rcases hfw : w.fn.forward f e with ⟨fn1, x, b⟩
  rw [hfw] at h hraise
  cases x with
  | none => simp at hraise
  | some x => simp only [] at h ⊢; subst h; exact ⟨rfl, trivial⟩

/-- the requested vector, spelled out: a name of the passed list gets the passed value … -/
theorem requested_values (own pl : PList ℝ) (hpl : (names pl).Nodup) :
    ∀ q ∈ pl, ∀ b ∈ updL pl own, b.name = q.name → b.value = q.value :=
  synced_updL pl own hpl

/-- … and the other parameters keep theirs -/
theorem requested_frame (own pl : PList ℝ) :
    List.Forall₂ (fun b p => b.name = p.name ∧ b.prec = p.prec ∧ b.con = p.con ∧ (p.name ∉ names pl → b.value = p.value))
      (updL pl own) own := by
  have := dev_updL (B := own) (S := fun _ => False) (S' := fun n => n ∈ names pl) pl (Dev.refl own _) (by
    intro b _ hn
    cases hf : find? pl b.name with
    | none => exact fun h => h
    | some q =>
      have := find?_some hf
      exact absurd (this.2 ▸ List.mem_map_of_mem this.1) hn)
  exact this.imp (fun a b h => ⟨h.1.1, h.1.2.1, h.1.2.2, h.2⟩)

/-- the hypotheses of `transparent` are satisfiable -/
example : ∃ (w : W ℝ) (f : List ℝ → ℝ) (e : Entry ℝ), Own w.fn ∧ w.fn.OK f ∧ e.Nodup :=
  ⟨{ scheme := .three, h := 1 / 16, vars := [0], der1 := [some 0], der2 := [some 0], cross := [[some 0]],
     c1 := true, c2 := true, cx := false, f1 := 0, f2 := 0, f3 := 0,
     fn := { params := [⟨0, 0, 0, none⟩], fval := 0, log := [], kind := 0, en1 := false, en2 := false, pt1 := [], pt2 := [] } },
   fun l => l.sum, .setParameters [⟨0, 1, 0, none⟩],
   ⟨by simp [names], by intro p hp; simp at hp; subst hp; rfl⟩, by simp [Fn.OK, values], by simp [Entry.Nodup, names]⟩


/-! ## 3. Every history; no probe outside the constraints reaches `f` -/

/-- a sequence of entry-point calls, each returning or raising -/
noncomputable def runCalls (f : List ℝ → ℝ) (w : W ℝ) : List (Entry ℝ) → W ℝ
  | [] => w
  | e :: es => runCalls f (w.call f e).1 es

theorem runCalls_inv (f : List ℝ → ℝ) (ref : PList ℝ) : ∀ (es : List (Entry ℝ)) (w : W ℝ), Inv f ref w.fn →
    Inv f ref (runCalls f w es).fn := by
  intro es
  induction es with
  | nil => intro w h; exact h
  | cons e es ih => intro w h; exact ih _ (h.call e).1

/-- `probes_feasible`: whatever the scheme, the selection, the lists passed (duplicates, unknown
names, precisions included) and whether calls return or raise, every point at which the objective
is evaluated satisfies the constraints of the wrapped function's parameters — as the code behaves:
the wrapped function checks a whole list before it moves, and the wrappers only reach it through
its setters.  (`Fn.log` is the evaluation log the harness compares with the implementation's.) -/
theorem probes_feasible (f : List ℝ → ℝ) (w : W ℝ) (es : List (Entry ℝ))
    (hfeas : Feas w.fn.params) (hok : w.fn.OK f) (hlog : ∀ pt ∈ w.fn.log, PtOK w.fn.params pt) :
    (∀ pt ∈ (runCalls f w es).fn.log, PtOK w.fn.params pt) ∧ Feas (runCalls f w es).fn.params := by
  have h0 : Inv f w.fn.params w.fn := ⟨Skel.refl _, hok, hfeas, hlog⟩
  have := runCalls_inv f w.fn.params es w h0
  exact ⟨this.log, this.feas⟩

/-- `probes_feasible`, caller's side: during an entry point (returning or raising) every point at
which the objective is evaluated is also accepted by the constraints of the list the caller
passed, for the parameters that list mentions (`CFpt pl ref pt`: coordinate by coordinate along
the wrapped function's parameter list `ref`).  Each probe value goes through `Parameter::setValue`
of a copy of the caller's parameter, which checks the copied constraint; everything else the
wrappers send to the wrapped function are values of the caller's list itself.  Hypotheses: the
wrapped function's own list has unique names and no precision, the evaluation log is empty before
the call, the caller's parameters satisfy their own constraints. -/
theorem probes_feasible_caller (f : List ℝ → ℝ) (w : W ℝ) (e : Entry ℝ) (hown : Own w.fn) (hok : w.fn.OK f) (he : e.Nodup)
    (hlog : w.fn.log = []) (hfw : (w.fn.forward f e).2.1 = none) (pl : PList ℝ)
    (hl : e.list (w.fn.forward f e).1 = .ok pl) (hfeas : Feas pl) :
    ∀ pt ∈ (w.call f e).1.fn.log, CFpt pl (w.fn.forward f e).1.params pt := by
  obtain ⟨o1, o2, _, pl', hl', hsy, hnd⟩ := forward_spec f w.fn e hown hok he _ rfl hfw
  rw [hl] at hl'
  injection hl' with hl'
  subst hl'
  have hwf : CallerWF pl := ⟨hnd, hfeas⟩
  have hinv : InvC pl (w.fn.forward f e).1.params (w.fn.forward f e).1 := by
    refine ⟨Skel.refl _, CF_of_synced hwf hsy, ?_⟩
    intro pt hpt
    rcases forward_shape f w.fn e with h | ⟨own, h⟩
    · rw [h, hlog] at hpt; cases hpt
    · have hp : (w.fn.forward f e).1.params = own := by rw [h]; rfl
      rw [h] at hpt
      simp only [Fn.fire, hlog, List.mem_cons, List.not_mem_nil, or_false] at hpt
      rw [hpt, hp]
      have hcf := CF_of_synced hwf hsy
      rw [hp] at hcf
      exact CFpt_values (Skel.refl own) hcf
  unfold W.call
  rcases hfwd : w.fn.forward f e with ⟨fn1, x, b⟩
  rw [hfwd] at hfw hl hinv
  simp only [] at hfw hl hinv
  subst hfw
  simp only [hl]
  exact (hinv.reach (update_reachC f hwf ({ w with fn := fn1 } : W ℝ))).log

/-- `transparent` holds after every history of calls (returning or raising): its hypotheses are
invariants of the wrapper -/
theorem transparent_history (f : List ℝ → ℝ) (w : W ℝ) (es : List (Entry ℝ)) (e : Entry ℝ)
    (hown : Own w.fn) (hok : w.fn.OK f) (hfeas : Feas w.fn.params)
    (hlog : ∀ pt ∈ w.fn.log, PtOK w.fn.params pt) (he : e.Nodup)
    (hret : ((runCalls f w es).call f e).2.1 = none) :
    ((runCalls f w es).call f e).1.fn.params = e.apply (runCalls f w es).fn.params ∧
    ((runCalls f w es).call f e).1.value = f (values (e.apply (runCalls f w es).fn.params)) ∧
    ((runCalls f w es).call f e).1.fn.fval = f (values (e.apply (runCalls f w es).fn.params)) := by
  have h0 : Inv f w.fn.params w.fn := ⟨Skel.refl _, hok, hfeas, hlog⟩
  have h1 := runCalls_inv f w.fn.params es w h0
  obtain ⟨a, b, c, _, _⟩ := transparent f (runCalls f w es) e (h1.own hown.1 hown.2) h1.ok he hret
  exact ⟨a, b, c⟩


/-! ## 3b. Selected variables the list does not mention are skipped (known finding)

FULL statement of the property's exactness clause: after every entry point, for EVERY selected
variable, the stored first / second / cross derivative is the scheme's formula at the current
point.  It is FALSE of the code: `if (!parameters.hasParameter(var)) continue;` (Two:40, Three:42,
Five:27, cross loops Three:150/160) — and `setParameterValue` hands over a one-element list.  The
stored-value theorems below are therefore named `…_partial`: they carry the explicit guard
`has params w.vars[k] = true` (the fall-back theorems: `find? params v = some qv`).  Witness of the
defect, for all inputs: an iteration for a variable that the list does not mention is the identity,
so what is stored for it is what was stored before, whatever moved.  Driver clause
`stale_derivative`, known finding C12-unlisted-selected-stale, corpus/C12/stale.txt. -/

theorem unlisted_variable_skipped (f : List ℝ → ℝ) (params : PList ℝ) (lp : Loop ℝ) (i : Nat) (var : Name)
    (hun : has params var = false) :
    step2 f params lp i var = (lp, none) ∧ step3 f params lp i var = (lp, none) ∧ step5 f params lp i var = (lp, none) := by
  refine ⟨?_, ?_, ?_⟩
  · unfold step2; simp [hun]
  · unfold step3; simp [hun]
  · unfold step5; simp [hun]

/-- the same for the cross-derivative block: a pair with an unlisted second variable is skipped, a
row with an unlisted first variable is skipped -/
theorem unlisted_pair_skipped (f : List ℝ → ℝ) (params : PList ℝ) (i j : Nat) (var1 var2 : Name) (vs all : List Name)
    (cl : CLoop ℝ) (hji : j ≠ i) :
    (has params var2 = false → crossRow f params i var1 (var2 :: vs) j cl = crossRow f params i var1 vs (j + 1) cl) ∧
    (has params var1 = false → crossGo f params all (var1 :: vs) i cl = crossGo f params all vs (i + 1) cl) := by
  constructor
  · intro h; conv_lhs => unfold crossRow
    simp [hji, h]
  · intro h; conv_lhs => unfold crossGo
    simp [h]

/-- the hypotheses are satisfiable: `setParameterValue` on one of two selected variables -/
example : ∃ (params : PList ℝ) (var : Name), has params var = false ∧ params ≠ [] :=
  ⟨[⟨0, 3, 0, none⟩], 1, by simp [has], by simp⟩

/-! ## 4. What the three-point wrapper stores, end to end

The nominal situation (`Free`): no constraint on the wrapped function's side, no constraint and no
precision on the parameters of the list that is passed, `|f| < VERY_BIG` everywhere; step `h > 0`,
no duplicate among the selected variables.  Then `updateDerivatives` does not raise and, for every
selected variable present in the list, stores the central differences around the requested point
`B` with step `H = (1 + |x|) h` — `three1`/`three2` are `d1Three`/`d2Three` applied to the values
of `f` at `B` with that one coordinate moved by `∓H`.  Composed with part 1 this is exactness of
the *stored* derivatives. -/

theorem three_point_computes_central_partial (f : List ℝ → ℝ) (w : W ℝ) (params : PList ℝ) (hown : Own w.fn) (hok : w.fn.OK f)
    (hF : Free f params w.fn.params) (hB : BoundedNear f w.fn.params w.h) (hpnd : (names params).Nodup) (hc1 : w.c1 = true) (hcx : w.cx = false)
    (hvars : w.vars.Nodup) (hin : ∀ v ∈ w.vars, has params v = true → v ∈ names w.fn.params) (hh : 0 < w.h)
    (hl1 : w.der1.length = w.vars.length) (hl2 : w.der2.length = w.vars.length) :
    (update3 f w params).2 = none ∧
    ∀ k (hk : k < w.vars.length), has params w.vars[k] = true →
      (update3 f w params).1.der1[k]? = some (three1 f w.fn.params w.h w.vars[k]) ∧
      (update3 f w params).1.der2[k]? = some (three2 f w.fn.params w.h (f (values w.fn.params)) w.vars[k]) :=
  update3_free f w params hown hok hF hB hpnd hc1 hcx hvars hin hh hl1 hl2

/-- the stored three-point derivatives are the analytical ones when `f`, as a function of the
selected variable alone (the others at the requested point), is a cubic: the second derivative
always, the first one when the cubic term vanishes (degree ≤ 2) -/
theorem three_point_stored_exact_partial (f : List ℝ → ℝ) (w : W ℝ) (params : PList ℝ) (hown : Own w.fn) (hok : w.fn.OK f)
    (hF : Free f params w.fn.params) (hB : BoundedNear f w.fn.params w.h) (hpnd : (names params).Nodup) (hc1 : w.c1 = true) (hcx : w.cx = false)
    (hvars : w.vars.Nodup) (hin : ∀ v ∈ w.vars, has params v = true → v ∈ names w.fn.params) (hh : 0 < w.h)
    (hl1 : w.der1.length = w.vars.length) (hl2 : w.der2.length = w.vars.length)
    (k : Nat) (hk : k < w.vars.length) (hhk : has params w.vars[k] = true)
    (b : Param ℝ) (hb : find? w.fn.params w.vars[k] = some b) (a0 a1 a2 a3 : ℝ)
    (hcubic : ∀ t, f (values (upd1 w.fn.params w.vars[k] t)) = a0 + a1 * t + a2 * t ^ 2 + a3 * t ^ 3) :
    (update3 f w params).1.der2[k]? = some (some (2 * a2 + 6 * a3 * b.value)) ∧
    (a3 = 0 → (update3 f w params).1.der1[k]? = some (some (a1 + 2 * a2 * b.value))) := by
  obtain ⟨_, h⟩ := update3_free f w params hown hok hF hB hpnd hc1 hcx hvars hin hh hl1 hl2
  obtain ⟨h1, h2⟩ := h k hk hhk
  have hpos : (0 : ℝ) < (1 + |b.value|) * w.h := mul_pos (by positivity) hh
  have hne : -(Scalar.one + Scalar.abs b.value) * w.h ≠ 0 := by
    simp only [ScalarReal.one_eq, ScalarReal.abs_eq]
    have : -(1 + |b.value|) * w.h = -((1 + |b.value|) * w.h) := by ring
    rw [this]; exact neg_ne_zero.mpr (ne_of_gt hpos)
  have hbase : f (values w.fn.params) = a0 + a1 * b.value + a2 * b.value ^ 2 + a3 * b.value ^ 3 := by
    rw [← hcubic b.value]
    congr 2
    symm
    apply upd1_same
    intro p hp hn
    have := find?_of_mem hown.1 hp
    rw [hn, hb] at this; injection this with this; rw [this]
  constructor
  · rw [h2]
    simp only [three2, hb, hcubic, hbase]
    have := three_point_d2_exact_deg3 a0 a1 a2 a3 b.value (-(Scalar.one + Scalar.abs b.value) * w.h) hne
    simp only [sub_eq_add_neg] at this
    rw [this]
  · intro h3
    rw [h1]
    simp only [three1, hb, hcubic, h3]
    have := three_point_d1_exact_deg2 a0 a1 a2 b.value (-(Scalar.one + Scalar.abs b.value) * w.h) hne
    simp only [sub_eq_add_neg] at this
    simp only [zero_mul, add_zero]
    rw [this]


/-! ## 5. Next to a constraint: one-sided probes instead of raising -/

/-- `one_sided_no_raise`: the two-point and five-point wrappers, and the three-point wrapper
without cross derivatives, raise exactly when the wrapped function itself refuses the requested
values — never because a probe ran into a constraint (two- and three-point: the probe is retried on
the other side, then with halved steps, after ten refusals the NaN marker is stored and the
previous parameter is reset; five-point: backward, then forward one-sided formulas, and — repaired,
the ConstraintException of the forward branch used to escape — the NaN marker with the previous
parameter reset when neither side has room).
Hypotheses besides those of `transparent`: the wrapped function is at a feasible point, the
selection has no duplicate and only names of the wrapped function, the step is not 0.
(The cross-derivative block of the three-point scheme does throw a plain Exception at a limit; see
`transparent_on_raise`.) -/
theorem one_sided_no_raise (f : List ℝ → ℝ) (w : W ℝ) (e : Entry ℝ) (hown : Own w.fn) (hok : w.fn.OK f)
    (hfeas : Feas w.fn.params) (hlog : ∀ pt ∈ w.fn.log, PtOK w.fn.params pt) (he : e.Nodup)
    (hscheme : w.scheme = .two ∨ w.scheme = .five ∨ (w.scheme = .three ∧ w.cx = false))
    (hvars : w.vars.Nodup) (hin : ∀ v ∈ w.vars, v ∈ names w.fn.params) (hh : w.h ≠ 0) :
    (w.call f e).2.1 = (w.fn.forward f e).2.1 := by
  have hinv : Inv f w.fn.params w.fn := ⟨Skel.refl _, hok, hfeas, hlog⟩
  have hfi := (hinv.forward (f := f) e).1
  unfold W.call
  rcases hfw : w.fn.forward f e with ⟨fn1, x, b⟩
  rw [hfw] at hfi
  cases x with
  | some x => rfl
  | none =>
    simp only []
    obtain ⟨o1, o2, _, pl, hl, hsy, hnd⟩ := forward_spec f w.fn e hown hok he _ hfw rfl
    simp only [] at o1 o2 hl hsy hfi
    rw [hl]
    simp only []
    have hin1 : ∀ v ∈ w.vars, v ∈ names fn1.params := by
      intro v hv; rw [hfi.skel.names]; exact hin v hv
    unfold W.update
    rcases hscheme with hs | hs | ⟨hs, hcx⟩
    · have := update2_noexc f ({ w with fn := fn1 } : W ℝ) pl o1 o2 hfi.feas hsy hnd hvars hin1 hh
      simp only [hs] at this ⊢
      exact this
    · have := update5_noexc f ({ w with fn := fn1 } : W ℝ) pl o1 o2 hfi.feas hsy hnd hvars hin1
      simp only [hs] at this ⊢
      exact this
    · have := update3_noexc f ({ w with fn := fn1 } : W ℝ) pl o1 o2 hfi.feas hsy hnd hvars hin1 hh hcx
      simp only [hs] at this ⊢
      exact this

/-- `transparent_on_raise`: with a well-formed selection (no duplicate, only names of the wrapped
function, arrays sized by `setParametersToDerivate`) and a step ≠ 0, an entry point whose forwarded
call was accepted raises only in the three-point scheme with cross derivatives switched on, with
the plain Exception "Could not compute cross derivatives at limit" — and (repaired: the wrapped
function used to stay at a probe point with its analytical derivatives off) the wrapped function
is then at the requested vector, wrapper and wrapped function report the value there, and the
analytical derivatives of the wrapped function are switched as the wrapper's flags say.  The
hypotheses of `transparent` hold again. -/
theorem transparent_on_raise (f : List ℝ → ℝ) (w : W ℝ) (e : Entry ℝ) (hown : Own w.fn) (hok : w.fn.OK f)
    (hfeas : Feas w.fn.params) (hlog : ∀ pt ∈ w.fn.log, PtOK w.fn.params pt) (he : e.Nodup)
    (hvars : w.vars.Nodup) (hin : ∀ v ∈ w.vars, v ∈ names w.fn.params) (hh : w.h ≠ 0)
    (hl2 : w.der2.length = w.vars.length)
    (hfw : (w.fn.forward f e).2.1 = none) (x : Exc) (hraise : (w.call f e).2.1 = some x) :
    x = .bpp ∧ w.scheme = .three ∧ w.cx = true ∧
    (w.call f e).1.fn.params = e.apply w.fn.params ∧
    (w.call f e).1.value = f (values (e.apply w.fn.params)) ∧
    (w.call f e).1.fn.fval = f (values (e.apply w.fn.params)) ∧
    Own (w.call f e).1.fn ∧ (w.call f e).1.fn.OK f ∧
    (w.fn.kind ≥ 1 → (w.call f e).1.fn.en1 = w.c1) ∧ (w.fn.kind ≥ 2 → (w.call f e).1.fn.en2 = w.c2) :=
  call_raise_spec f w e hown hok w.fn.params ⟨Skel.refl _, hok, hfeas, hlog⟩ he hvars hin hh hl2 hfw x hraise

/-- `transparent`, for every call: whether the entry point returns or raises, afterwards the
wrapped function is either untouched (its own setter refused the requested values) or at the
requested vector, with wrapper and wrapped function reporting the value there -/
theorem transparent_every_call (f : List ℝ → ℝ) (w : W ℝ) (e : Entry ℝ) (hown : Own w.fn) (hok : w.fn.OK f)
    (hfeas : Feas w.fn.params) (hlog : ∀ pt ∈ w.fn.log, PtOK w.fn.params pt) (he : e.Nodup)
    (hvars : w.vars.Nodup) (hin : ∀ v ∈ w.vars, v ∈ names w.fn.params) (hh : w.h ≠ 0)
    (hl2 : w.der2.length = w.vars.length) :
    ((w.fn.forward f e).2.1 ≠ none ∧ (w.call f e).1 = w ∧ (w.call f e).2.1 = (w.fn.forward f e).2.1) ∨
    ((w.fn.forward f e).2.1 = none ∧
      (w.call f e).1.fn.params = e.apply w.fn.params ∧
      (w.call f e).1.value = f (values (e.apply w.fn.params)) ∧
      (w.call f e).1.fn.fval = f (values (e.apply w.fn.params))) := by
  by_cases hfw : (w.fn.forward f e).2.1 = none
  · right
    cases hc : (w.call f e).2.1 with
    | none =>
      obtain ⟨a, b, c, _, _⟩ := transparent f w e hown hok he hc
      exact ⟨hfw, a, b, c⟩
    | some x =>
      obtain ⟨_, _, _, a, b, c, _⟩ := transparent_on_raise f w e hown hok hfeas hlog he hvars hin hh hl2 hfw x hc
      exact ⟨hfw, a, b, c⟩
  · left
    obtain ⟨a, b⟩ := raise_unchanged f w e hown he hfw
    exact ⟨hfw, a, b⟩

theorem runCalls_shape (f : List ℝ → ℝ) : ∀ (es : List (Entry ℝ)) (w : W ℝ), Shape w (runCalls f w es) := by
  intro es
  induction es with
  | nil => intro w; exact Shape.refl w
  | cons e es ih => intro w; exact Shape.trans (call_shape f w e) (ih _)

/-- … and after every history of calls, each returning or raising: the hypotheses of
`transparent_every_call` are invariants of the wrapper (the selection, the step and the sizes of
the arrays are never touched by an entry point; feasibility and consistency of the wrapped function
are kept by every path, raising ones included) -/
theorem transparent_every_call_history (f : List ℝ → ℝ) (w : W ℝ) (es : List (Entry ℝ)) (e : Entry ℝ)
    (hown : Own w.fn) (hok : w.fn.OK f) (hfeas : Feas w.fn.params) (hlog : ∀ pt ∈ w.fn.log, PtOK w.fn.params pt)
    (he : e.Nodup) (hvars : w.vars.Nodup) (hin : ∀ v ∈ w.vars, v ∈ names w.fn.params) (hh : w.h ≠ 0)
    (hl2 : w.der2.length = w.vars.length) :
    (((runCalls f w es).fn.forward f e).2.1 ≠ none ∧ ((runCalls f w es).call f e).1 = runCalls f w es) ∨
    (((runCalls f w es).fn.forward f e).2.1 = none ∧
      ((runCalls f w es).call f e).1.fn.params = e.apply (runCalls f w es).fn.params ∧
      ((runCalls f w es).call f e).1.value = f (values (e.apply (runCalls f w es).fn.params)) ∧
      ((runCalls f w es).call f e).1.fn.fval = f (values (e.apply (runCalls f w es).fn.params))) := by
  have h0 : Inv f w.fn.params w.fn := ⟨Skel.refl _, hok, hfeas, hlog⟩
  have h1 := runCalls_inv f w.fn.params es w h0
  obtain ⟨⟨_, _, _, _, sv, sh⟩, _, sd2⟩ := runCalls_shape f es w
  have hown' := h1.own hown.1 hown.2
  have hvars' : (runCalls f w es).vars.Nodup := by rw [sv]; exact hvars
  have hin' : ∀ v ∈ (runCalls f w es).vars, v ∈ names (runCalls f w es).fn.params := by
    rw [sv, h1.skel.names]; exact hin
  have hh' : (runCalls f w es).h ≠ 0 := by rw [sh]; exact hh
  have hl2' : (runCalls f w es).der2.length = (runCalls f w es).vars.length := by rw [sd2, sv]; exact hl2
  by_cases hfw : ((runCalls f w es).fn.forward f e).2.1 = none
  · right
    cases hc : ((runCalls f w es).call f e).2.1 with
    | none =>
      obtain ⟨a, b, c, _, _⟩ := transparent f (runCalls f w es) e hown' h1.ok he hc
      exact ⟨hfw, a, b, c⟩
    | some x =>
      obtain ⟨_, _, _, a, b, c, _⟩ := call_raise_spec f (runCalls f w es) e hown' h1.ok w.fn.params h1 he hvars' hin' hh'
        hl2' hfw x hc
      exact ⟨hfw, a, b, c⟩
  · left
    exact ⟨hfw, (raise_unchanged f (runCalls f w es) e hown' he hfw).1⟩

/-- the raising situation of `transparent_on_raise` exists: two selected variables, the second one
passed on the upper bound of its constraint (corpus/C12/crosslimit.txt) -/
example : ∃ (w : W ℝ) (f : List ℝ → ℝ) (e : Entry ℝ), Own w.fn ∧ w.fn.OK f ∧ Feas w.fn.params ∧ e.Nodup ∧
    w.vars.Nodup ∧ (∀ v ∈ w.vars, v ∈ names w.fn.params) ∧ w.h ≠ 0 ∧ w.der2.length = w.vars.length ∧
    w.scheme = .three ∧ w.cx = true :=
  ⟨{ scheme := .three, h := 1 / 16, vars := [0, 1], der1 := [some 0, some 0], der2 := [some 0, some 0],
     cross := [[some 0, some 0], [some 0, some 0]], c1 := true, c2 := true, cx := true, f1 := 0, f2 := 0, f3 := 0,
     fn := { params := [⟨0, 1, 0, none⟩, ⟨1, 2, 0, none⟩], fval := 3, log := [], kind := 0, en1 := false, en2 := false,
             pt1 := [], pt2 := [] } },
   fun l => l.sum, .setParameters [⟨0, 3 / 2, 0, none⟩, ⟨1, 3, 0, some ⟨some 0, some 3, true, true⟩⟩],
   ⟨by simp [names], by intro p hp; simp at hp; rcases hp with rfl | rfl <;> rfl⟩,
   by simp [Fn.OK, values]; norm_num,
   by intro p hp; simp at hp; rcases hp with rfl | rfl <;> rfl,
   by simp [Entry.Nodup, names], by simp, by simp [names], by norm_num, rfl, rfl, rfl⟩

/-! ## 6. Delegation of the variables that are not selected -/

/-- `delegation_spec`: for a variable that is not selected (or when numerical first-order
derivatives are switched off) the wrapper hands out what the wrapped function answers, when the
wrapped function is first-order derivable (`kind ≥ 1`); otherwise it raises. -/
theorem delegation_spec (D : Deriv ℝ) (w : W ℝ) (n : Name) (hsel : idx w.vars n = none ∨ w.c1 = false) :
    w.getD1 D n = if w.fn.kind ≥ 1 then (w.fn.getD1 D n).map some else .error .bpp := by
  unfold W.getD1
  rcases hsel with h | h
  · rw [h]
  · cases hi : idx w.vars n with
    | none => rfl
    | some i => simp only [h, Bool.false_eq_true, if_false]

/-- the same for second-order and cross derivatives (second-order derivable wrapped function) -/
theorem delegation_spec_d2 (D : Deriv ℝ) (w : W ℝ) (n : Name) (hs : w.scheme ≠ .two)
    (hsel : idx w.vars n = none ∨ w.c2 = false) :
    w.getD2 D n = if w.fn.kind ≥ 2 then (w.fn.getD2 D n).map some else .error .bpp := by
  unfold W.getD2
  rw [if_neg hs]
  rcases hsel with h | h
  · rw [h]
  · cases hi : idx w.vars n with
    | none => rfl
    | some i => simp only [h, Bool.false_eq_true, if_false]

theorem delegation_spec_cross (D : Deriv ℝ) (w : W ℝ) (n m : Name) (hs : w.scheme = .three)
    (hsel : idx w.vars n = none ∨ idx w.vars m = none ∨ w.cx = false) :
    w.getDX D n m = if w.fn.kind ≥ 2 then (w.fn.getDX D n m).map some else .error .bpp := by
  unfold W.getDX
  rw [if_neg (by rw [hs]; exact fun h => h rfl)]
  rcases hsel with h | h | h
  · rw [h]
  · rw [h]; cases idx w.vars n <;> rfl
  · cases hi : idx w.vars n with
    | none => rfl
    | some i =>
      cases hj : idx w.vars m with
      | none => rfl
      | some j => simp only [h, Bool.false_eq_true, if_false]

/-- the wrapped function's answer: the analytical derivative at the point where it was computed -/
theorem delegation_value (D : Deriv ℝ) (fn : Fn ℝ) (n : Name) (k : Nat) (hen : fn.en1 = true)
    (hpos : posOf fn.params n = some k) : fn.getD1 D n = .ok (D.d1 k fn.pt1) := by
  unfold Fn.getD1; simp [hen, hpos]

/-- `delegation_fresh`: an entry point that returns normally leaves the analytical first-order
derivatives of the wrapped function switched on iff the wrapper has first-order derivatives on,
and computed at the requested point — provided they were consistent before the call (`en1 = c1`,
i.e. the flags of the wrapper were not toggled since its last update; `Fresh1`).  This includes the
branch where the value at the requested point is "too large" (NaN everywhere; fixed: the code used
to return with the analytical derivatives left switched off).  Both conclusions are again the
hypotheses for the next call. -/
theorem delegation_fresh (f : List ℝ → ℝ) (w : W ℝ) (e : Entry ℝ) (hown : Own w.fn) (hok : w.fn.OK f) (he : e.Nodup)
    (hk : w.fn.kind ≥ 1) (hcons : w.fn.en1 = w.c1) (hfr : Fresh1 w.fn)
    (hret : (w.call f e).2.1 = none) :
    (w.call f e).1.fn.en1 = (w.call f e).1.c1 ∧ Fresh1 (w.call f e).1.fn ∧ (w.call f e).1.c1 = w.c1 := by
  obtain ⟨h0, _, _, _, _, hkeep⟩ := call_spec f w e hown hok he hret
  have hpar := forward_params f w.fn e hown he h0
  unfold W.call at hret ⊢
  rcases hfw : w.fn.forward f e with ⟨fn1, x, b⟩
  rw [hfw] at hret h0 hpar
  simp only [] at h0 hpar
  subst h0
  simp only [] at hret ⊢
  obtain ⟨o1, o2, o3, pl, hl, hsy, hnd⟩ := forward_spec f w.fn e hown hok he _ hfw rfl
  simp only [] at o1 o2 o3 hl hsy
  have hff := hfr.forward (f := f) e
  rw [hfw] at hff
  simp only [] at hff
  rw [hl] at hret ⊢
  simp only [] at hret ⊢
  have := update_fresh f ({ w with fn := fn1 } : W ℝ) pl o1 o2 hsy hnd (by simpa [o3] using hk)
    (by simpa using hff.2.trans hcons) hff.1 hret
  have hc1 : (({ w with fn := fn1 } : W ℝ).update f pl).1.c1 = w.c1 :=
    (update_spec f ({ w with fn := fn1 } : W ℝ) pl o1 o2 hsy hnd _ rfl hret).2.2.1.c1
  exact ⟨by rw [this.1, hc1], this.2, hc1⟩

/-- `delegation_flags`: whatever happened before (flags toggled, earlier calls raised), after an
entry point that returns the analytical first-order derivatives of a first-order derivable wrapped
function are switched on iff the wrapper's first-order derivatives are on: delegation does not
raise "not computed" -/
theorem delegation_flags (f : List ℝ → ℝ) (w : W ℝ) (e : Entry ℝ) (hk : w.fn.kind ≥ 1)
    (hret : (w.call f e).2.1 = none) :
    (w.call f e).1.fn.en1 = w.c1 := by
  have hfk : (w.fn.forward f e).1.kind = w.fn.kind := by
    rcases forward_shape f w.fn e with h | ⟨own, h⟩ <;> rw [h] <;> rfl
  unfold W.call at hret ⊢
  rcases hfw : w.fn.forward f e with ⟨fn1, x, b⟩
  rw [hfw] at hret hfk
  cases x with
  | some x => simp at hret
  | none =>
    simp only [] at hret hfk ⊢
    split at hret
    · simp at hret
    · rename_i pl hl
      simp only [] at hret ⊢
      exact update_flags f ({ w with fn := fn1 } : W ℝ) pl (by simpa [hfk] using hk) hret

/-- end to end: after such a call with first-order derivatives on, the derivative the wrapper
hands out for a non-selected parameter of the wrapped function is the analytical one at the
requested point -/
theorem delegation_end_to_end (f : List ℝ → ℝ) (D : Deriv ℝ) (w : W ℝ) (e : Entry ℝ) (hown : Own w.fn) (hok : w.fn.OK f)
    (he : e.Nodup) (hk : w.fn.kind ≥ 1) (hc1 : w.c1 = true) (hcons : w.fn.en1 = w.c1) (hfr : Fresh1 w.fn)
    (hret : (w.call f e).2.1 = none)
    (n : Name) (k : Nat) (hsel : idx w.vars n = none) (hpos : posOf w.fn.params n = some k) :
    (w.call f e).1.getD1 D n = .ok (some (D.d1 k (values (e.apply w.fn.params)))) := by
  obtain ⟨a, b, c⟩ := delegation_fresh f w e hown hok he hk hcons hfr hret
  obtain ⟨t1, _, _, _, _⟩ := transparent f w e hown hok he hret
  obtain ⟨_, _, _, _, _, hkeep⟩ := call_spec f w e hown hok he hret
  have hsel' : idx (w.call f e).1.vars n = none := by rw [hkeep.vars]; exact hsel
  rw [delegation_spec D _ n (Or.inl hsel'), if_pos (by rw [hkeep.kind]; exact hk)]
  have hen : (w.call f e).1.fn.en1 = true := by rw [a, c, hc1]
  have hpos' : posOf (w.call f e).1.fn.params n = some k := by
    rw [t1]
    -- positions only depend on names, which `apply` keeps
    have hn : names (e.apply w.fn.params) = names w.fn.params := by
      cases e <;> simp only [Entry.apply, names_updL, names_upd1]
    unfold posOf at hpos ⊢
    have hfi : ∀ l : PList ℝ, List.findIdx (fun p => p.name == n) l = List.findIdx (fun x => x == n) (names l) := by
      intro l; unfold names; rw [List.findIdx_map]; rfl
    have hlen : ∀ l : PList ℝ, l.length = (names l).length := by intro l; simp [names]
    rw [hfi, hlen, hn, ← hfi, ← hlen]; exact hpos
  rw [delegation_value D _ n k hen hpos', b hen, t1]
  rfl


/-! ## 7. What the five-point wrapper stores, end to end (nominal path) -/

theorem five_point_computes_central_partial (f : List ℝ → ℝ) (w : W ℝ) (params : PList ℝ) (hown : Own w.fn) (hok : w.fn.OK f)
    (hF : Free f params w.fn.params) (hpnd : (names params).Nodup) (hc1 : w.c1 = true)
    (hvars : w.vars.Nodup) (hin : ∀ v ∈ w.vars, has params v = true → v ∈ names w.fn.params)
    (hl1 : w.der1.length = w.vars.length) (hl2 : w.der2.length = w.vars.length) :
    (update5 f w params).2 = none ∧
    ∀ k (hk : k < w.vars.length), has params w.vars[k] = true →
      (update5 f w params).1.der1[k]? = some (five1 f w.fn.params w.h w.vars[k]) ∧
      (update5 f w params).1.der2[k]? = some (five2 f w.fn.params w.h (f (values w.fn.params)) w.vars[k]) :=
  update5_free f w params hown hok hF hpnd hc1 hvars hin hl1 hl2

/-- the stored five-point derivatives are the analytical ones when `f`, as a function of the
selected variable alone, is a polynomial of degree ≤ 5: the second derivative always, the first
one when the degree is ≤ 4 -/
theorem five_point_stored_exact_partial (f : List ℝ → ℝ) (w : W ℝ) (params : PList ℝ) (hown : Own w.fn) (hok : w.fn.OK f)
    (hF : Free f params w.fn.params) (hpnd : (names params).Nodup) (hc1 : w.c1 = true)
    (hvars : w.vars.Nodup) (hin : ∀ v ∈ w.vars, has params v = true → v ∈ names w.fn.params) (hh : w.h ≠ 0)
    (hl1 : w.der1.length = w.vars.length) (hl2 : w.der2.length = w.vars.length)
    (k : Nat) (hk : k < w.vars.length) (hhk : has params w.vars[k] = true)
    (b : Param ℝ) (hb : find? w.fn.params w.vars[k] = some b) (c : Fin 6 → ℝ)
    (hpoly : ∀ t, f (values (upd1 w.fn.params w.vars[k] t)) = poly5 c t) :
    (update5 f w params).1.der2[k]? = some (some (poly5'' c b.value)) ∧
    (c 5 = 0 → (update5 f w params).1.der1[k]? = some (some (poly5' c b.value))) := by
  obtain ⟨_, h⟩ := update5_free f w params hown hok hF hpnd hc1 hvars hin hl1 hl2
  obtain ⟨h1, h2⟩ := h k hk hhk
  have hne : (Scalar.one + Scalar.abs b.value) * w.h ≠ 0 := by
    simp only [ScalarReal.one_eq, ScalarReal.abs_eq]
    exact mul_ne_zero (by positivity) hh
  have hbase : f (values w.fn.params) = poly5 c b.value := by
    rw [← hpoly b.value]
    congr 2
    symm
    apply upd1_same
    intro p hp hn
    have := find?_of_mem hown.1 hp
    rw [hn, hb] at this; injection this with this; rw [this]
  constructor
  · rw [h2]
    simp only [five2, hb, hpoly, hbase, ScalarReal.ofInt_eq]
    have := five_point_d2_exact_deg5 c b.value ((Scalar.one + Scalar.abs b.value) * w.h) hne
    push_cast at this ⊢
    rw [this]
  · intro h5
    rw [h1]
    simp only [five1, hb, hpoly, ScalarReal.ofInt_eq]
    have := five_point_d1_exact_deg4 c h5 b.value ((Scalar.one + Scalar.abs b.value) * w.h) hne
    push_cast at this ⊢
    rw [this]


/-! ## 8. What the two-point wrapper stores, end to end (nominal path) -/

/-- the stored two-point derivative is the difference quotient between the requested point and the
point with that coordinate moved by `-(1 + |x|) h`; it is the analytical derivative when `f` is
affine in the selected variable, and off by `-c (1 + |x|) h` on a quadratic `… + c t²` -/
theorem two_point_stored_exact_partial (f : List ℝ → ℝ) (w : W ℝ) (params : PList ℝ) (hown : Own w.fn) (hok : w.fn.OK f)
    (hF : Free f params w.fn.params) (hB : BoundedNear f w.fn.params w.h) (hpnd : (names params).Nodup) (hc1 : w.c1 = true)
    (hvars : w.vars.Nodup) (hin : ∀ v ∈ w.vars, has params v = true → v ∈ names w.fn.params) (hh : w.h ≠ 0)
    (hl1 : w.der1.length = w.vars.length)
    (k : Nat) (hk : k < w.vars.length) (hhk : has params w.vars[k] = true)
    (b : Param ℝ) (hb : find? w.fn.params w.vars[k] = some b) (a0 a1 a2 : ℝ)
    (hquad : ∀ t, f (values (upd1 w.fn.params w.vars[k] t)) = a0 + a1 * t + a2 * t ^ 2) :
    (update2 f w params).2 = none ∧
    (update2 f w params).1.der1[k]? = some (some ((a1 + 2 * a2 * b.value) + a2 * (-(1 + |b.value|) * w.h))) := by
  obtain ⟨h0, h⟩ := update2_free f w params hown hok hF hB hpnd hc1 hvars hin hh hl1
  refine ⟨h0, ?_⟩
  rw [h k hk hhk]
  have hne : -(Scalar.one + Scalar.abs b.value) * w.h ≠ 0 := by
    simp only [ScalarReal.one_eq, ScalarReal.abs_eq]
    have : (1 + |b.value|) ≠ 0 := by positivity
    exact mul_ne_zero (neg_ne_zero.mpr this) hh
  have hbase : f (values w.fn.params) = a0 + a1 * b.value + a2 * b.value ^ 2 := by
    rw [← hquad b.value]
    congr 2
    symm
    apply upd1_same
    intro p hp hn
    have := find?_of_mem hown.1 hp
    rw [hn, hb] at this; injection this with this; rw [this]
  simp only [two1, hb, hquad, hbase]
  have := two_point_remainder_deg2 a0 a1 a2 b.value (-(Scalar.one + Scalar.abs b.value) * w.h) hne
  rw [this]
  simp only [ScalarReal.one_eq, ScalarReal.abs_eq]


/-! ## 9. Cross derivatives, end to end (three-point scheme with cross derivatives, nominal path) -/

/-- with cross derivatives switched on the three-point wrapper does not raise on the nominal path,
stores the same first and second derivatives, and for every ordered pair of distinct selected
variables present in the list stores the 2×2-stencil quotient around the requested point
(`get2 m i j` is the entry `(i, j)` of the matrix `crossDer2_`) -/
theorem three_point_cross_computes_partial (f : List ℝ → ℝ) (w : W ℝ) (params : PList ℝ) (hown : Own w.fn) (hok : w.fn.OK f)
    (hF : Free f params w.fn.params) (hB : BoundedNear f w.fn.params w.h) (hpnd : (names params).Nodup) (hc1 : w.c1 = true) (hcx : w.cx = true)
    (hvars : w.vars.Nodup) (hin : ∀ v ∈ w.vars, has params v = true → v ∈ names w.fn.params) (hh : 0 < w.h)
    (hl1 : w.der1.length = w.vars.length) (hl2 : w.der2.length = w.vars.length) :
    (update3 f w params).2 = none ∧
    (∀ k (hk : k < w.vars.length), has params w.vars[k] = true →
      (update3 f w params).1.der1[k]? = some (three1 f w.fn.params w.h w.vars[k]) ∧
      (update3 f w params).1.der2[k]? = some (three2 f w.fn.params w.h (f (values w.fn.params)) w.vars[k])) ∧
    (∀ i (hi : i < w.vars.length) j (hj : j < w.vars.length), i ≠ j → has params w.vars[i] = true →
      has params w.vars[j] = true → get2 w.cross i j ≠ none →
      get2 (update3 f w params).1.cross i j = some (crossVal f w.fn.params w.h w.vars[i] w.vars[j])) :=
  update3_free_cross f w params hown hok hF hB hpnd hc1 hcx hvars hin hh hl1 hl2

/-- the stored cross derivative is the analytical one when `f`, as a function of the two variables
alone, has degree ≤ 2 in each of them -/
theorem cross_stored_exact_partial (f : List ℝ → ℝ) (w : W ℝ) (params : PList ℝ) (hown : Own w.fn) (hok : w.fn.OK f)
    (hF : Free f params w.fn.params) (hB : BoundedNear f w.fn.params w.h) (hpnd : (names params).Nodup) (hc1 : w.c1 = true) (hcx : w.cx = true)
    (hvars : w.vars.Nodup) (hin : ∀ v ∈ w.vars, has params v = true → v ∈ names w.fn.params) (hh : 0 < w.h)
    (hl1 : w.der1.length = w.vars.length) (hl2 : w.der2.length = w.vars.length)
    (i j : Nat) (hi : i < w.vars.length) (hj : j < w.vars.length) (hij : i ≠ j)
    (hhi : has params w.vars[i] = true) (hhj : has params w.vars[j] = true) (hrange : get2 w.cross i j ≠ none)
    (b1 b2 : Param ℝ) (hb1 : find? w.fn.params w.vars[i] = some b1) (hb2 : find? w.fn.params w.vars[j] = some b2)
    (c : Fin 3 → Fin 3 → ℝ)
    (hbq : ∀ s t, f (values (upd1 (upd1 w.fn.params w.vars[i] s) w.vars[j] t)) = biquad c s t) :
    get2 (update3 f w params).1.cross i j = some (some (biquadXY c b1.value b2.value)) := by
  obtain ⟨_, _, h⟩ := update3_free_cross f w params hown hok hF hB hpnd hc1 hcx hvars hin hh hl1 hl2
  rw [h i hi j hj hij hhi hhj hrange]
  have hne1 : (Scalar.one + Scalar.abs b1.value) * w.h ≠ 0 := by
    simp only [ScalarReal.one_eq, ScalarReal.abs_eq]; exact mul_ne_zero (by positivity) (ne_of_gt hh)
  have hne2 : (Scalar.one + Scalar.abs b2.value) * w.h ≠ 0 := by
    simp only [ScalarReal.one_eq, ScalarReal.abs_eq]; exact mul_ne_zero (by positivity) (ne_of_gt hh)
  simp only [crossVal, hb1, hb2, hbq]
  rw [cross_exact_biquadratic c b1.value b2.value _ _ hne1 hne2]


/-! ## 10. Next to a bound, end to end: the one-sided fall-back of the three-point scheme -/

/-- One selected variable `v`, passed with a constraint that refuses the probe on the left
(`x - H`) but accepts `x + H` and `x + H/2` (`H = (1 + |x|) h`): `updateDerivatives` does not
raise, probes at `x + H` and `x + H/2`, and stores `d1Three`/`d2Three` of those values.  On an `f`
that is quadratic in `v` the stored second derivative is exact and the stored first derivative is
off by `a₂ (H + H/2)` (exact when `f` is affine in `v`). -/
theorem three_point_one_sided_stored (f : List ℝ → ℝ) (w : W ℝ) (params : PList ℝ) (v : Name) (hown : Own w.fn)
    (hok : w.fn.OK f) (hF : FreeFn f params w.fn.params) (hB : BoundedNear f w.fn.params w.h) (hpnd : (names params).Nodup) (hc1 : w.c1 = true)
    (hcx : w.cx = false) (hvars : w.vars = [v]) (hh : 0 < w.h) (b qv : Param ℝ)
    (hqv : find? params v = some qv) (hb : find? w.fn.params v = some b) (hprec : qv.prec = 0)
    (hl1 : w.der1.length = 1) (hl2 : w.der2.length = 1)
    (hrej : qv.violates (b.value - (1 + |b.value|) * w.h) = true)
    (hacc1 : qv.violates (b.value + (1 + |b.value|) * w.h) = false)
    (hacc2 : qv.violates (b.value + (1 + |b.value|) * w.h / 2) = false)
    (a0 a1 a2 : ℝ) (hquad : ∀ t, f (values (upd1 w.fn.params v t)) = a0 + a1 * t + a2 * t ^ 2) :
    (update3 f w params).2 = none ∧
    (update3 f w params).1.der2 = [some (2 * a2)] ∧
    (update3 f w params).1.der1 = [some ((a1 + 2 * a2 * b.value) + a2 * ((1 + |b.value|) * w.h + (1 + |b.value|) * w.h / 2))] := by
  have e1 : b.value + -(Scalar.one + Scalar.abs b.value) * w.h = b.value - (1 + |b.value|) * w.h := by
    simp only [ScalarReal.one_eq, ScalarReal.abs_eq]; ring
  have e2 : b.value + -(-(Scalar.one + Scalar.abs b.value) * w.h) = b.value + (1 + |b.value|) * w.h := by
    simp only [ScalarReal.one_eq, ScalarReal.abs_eq]; ring
  have e3 : b.value + -(-(Scalar.one + Scalar.abs b.value) * w.h) / Scalar.ofInt 2 = b.value + (1 + |b.value|) * w.h / 2 := by
    simp only [ScalarReal.one_eq, ScalarReal.abs_eq, ScalarReal.ofInt_eq]; push_cast; ring
  obtain ⟨h0, h1, h2⟩ := update3_right f w params v hown hok hF hB hpnd hc1 hcx hvars hh b qv hqv hb hprec
    (by rw [e1]; exact hrej) (by rw [e2]; exact hacc1) (by rw [e3]; exact hacc2)
  have hH : (1 + |b.value|) * w.h ≠ 0 := mul_ne_zero (by positivity) (ne_of_gt hh)
  have hbase : f (values w.fn.params) = a0 + a1 * b.value + a2 * b.value ^ 2 := by
    rw [← hquad b.value]
    congr 2
    symm
    apply upd1_same
    intro p hp hn
    have := find?_of_mem hown.1 hp
    rw [hn, hb] at this; injection this with this; rw [this]
  have hs1 : ∀ (l : List (DVal ℝ)) (x : DVal ℝ), l.length = 1 → setAt l 0 x = [x] := by
    intro l x hl
    cases l with
    | nil => simp at hl
    | cons a r =>
      cases r with
      | nil => rfl
      | cons c r' => simp at hl
  have g1 : -(-(Scalar.one + Scalar.abs b.value) * w.h) = (1 + |b.value|) * w.h := by
    simp only [ScalarReal.one_eq, ScalarReal.abs_eq]; ring
  have g2 : -(-(Scalar.one + Scalar.abs b.value) * w.h) / Scalar.ofInt 2 = (1 + |b.value|) * w.h / 2 := by
    simp only [ScalarReal.one_eq, ScalarReal.abs_eq, ScalarReal.ofInt_eq]; push_cast; ring
  refine ⟨h0, ?_, ?_⟩
  · rw [h2, hs1 _ _ hl2, e3, e2, g2, g1, hquad, hquad, hbase]
    have := three_point_d2_one_sided_exact_deg2 a0 a1 a2 b.value ((1 + |b.value|) * w.h) ((1 + |b.value|) * w.h / 2)
      hH (div_ne_zero hH (by norm_num)) (by intro e; apply hH; linarith)
    rw [this]
  · rw [h1, hs1 _ _ hl1, e3, e2, g2, g1, hquad, hquad]
    have := three_point_d1_one_sided a0 a1 a2 b.value ((1 + |b.value|) * w.h) ((1 + |b.value|) * w.h / 2)
      (by intro e; apply hH; linarith)
    rw [this]


/-! ## 11. The other fall-back paths, end to end (round 2)

Same situation as in section 10: one selected variable `v`, at `x` in the wrapped function, passed
with a constraint (`qv`, precision 0) that refuses some probes; `H = (1 + |x|) h`.  Each theorem: under
the guard of the path (which probes are refused, which accepted) `updateDerivatives` does not raise
and the derivatives it stores are the finite-difference formula of that path evaluated at the
requested point; on an `f` that is a cubic in `v` the stored values are given in closed form, which
shows the degree each formula differentiates exactly. -/

/-- five-point scheme, backward one-sided formulas (Five:66-77): `x - 2H` accepted, `x + 2H` refused,
`x - H` accepted.  Stored: `(f(x) - f(x-H)) / H` and `(f(x) - 2 f(x-H) + f(x-2H)) / H²`.  On a cubic
`a₀ + a₁t + a₂t² + a₃t³` the second derivative is off by `-6 a₃ H` (exact on degree ≤ 2), the first
one, for `a₃ = 0`, by `-a₂ H` (exact on degree ≤ 1). -/
theorem five_point_backward_stored (f : List ℝ → ℝ) (w : W ℝ) (params : PList ℝ) (v : Name) (hown : Own w.fn)
    (hok : w.fn.OK f) (hF : FreeFn f params w.fn.params) (hpnd : (names params).Nodup) (hc1 : w.c1 = true)
    (hvars : w.vars = [v]) (hh : w.h ≠ 0) (b qv : Param ℝ)
    (hqv : find? params v = some qv) (hb : find? w.fn.params v = some b) (hprec : qv.prec = 0)
    (hl1 : w.der1.length = 1) (hl2 : w.der2.length = 1)
    (hacc2 : qv.violates (b.value - 2 * ((1 + |b.value|) * w.h)) = false)
    (hrej : qv.violates (b.value + 2 * ((1 + |b.value|) * w.h)) = true)
    (hacc1 : qv.violates (b.value - (1 + |b.value|) * w.h) = false)
    (a0 a1 a2 a3 : ℝ) (hcubic : ∀ t, f (values (upd1 w.fn.params v t)) = a0 + a1 * t + a2 * t ^ 2 + a3 * t ^ 3) :
    (update5 f w params).2 = none ∧
    (update5 f w params).1.der1 = [some (d1Side (f (values w.fn.params))
      (f (values (upd1 w.fn.params v (b.value - (1 + |b.value|) * w.h)))) ((1 + |b.value|) * w.h))] ∧
    (update5 f w params).1.der2 = [some ((2 * a2 + 6 * a3 * b.value) - 6 * a3 * ((1 + |b.value|) * w.h))] ∧
    (a3 = 0 → (update5 f w params).1.der1 = [some ((a1 + 2 * a2 * b.value) - a2 * ((1 + |b.value|) * w.h))]) := by
  have hH : (1 + |b.value|) * w.h ≠ 0 := mul_ne_zero (by positivity) hh
  have eH : (Scalar.one + Scalar.abs b.value) * w.h = (1 + |b.value|) * w.h := by
    simp only [ScalarReal.one_eq, ScalarReal.abs_eq]
  have e2 : (Scalar.ofInt 2 : ℝ) = 2 := by simp only [ScalarReal.ofInt_eq]; push_cast; rfl
  obtain ⟨fn1, hval, hLI0, hfin⟩ := update5_single f w params v hown hok hF hpnd hc1 hvars
  obtain ⟨s1, _, s3, s4⟩ := step5_of_probes f _ hLI0 0 v b qv hqv hb (by simp) _
    (fun rest hri => probes5_backward f hF qv rest hri hprec b.value ((Scalar.one + Scalar.abs b.value) * w.h) fn1.fval
      (by rw [eH]; exact hH) (by rw [eH, e2]; exact hacc2) (by rw [eH, e2]; exact hrej) (by rw [eH]; exact hacc1))
  rcases hs : step5 f params { w := { w with fn := fn1, f3 := fn1.fval }, p := [], lastVar := none } 0 v with ⟨lp1, x1⟩
  rw [hs] at s1 s3 s4
  simp only [] at s1 s3 s4
  subst s1
  obtain ⟨q1, q2, q3⟩ := hfin lp1 hs
  have hbase : f (values w.fn.params) = a0 + a1 * b.value + a2 * b.value ^ 2 + a3 * b.value ^ 3 := by
    rw [← hcubic b.value, base_value f w.fn.params hown.1 v b hb]
  have hd1 : (update5 f w params).1.der1 = [some (d1Side (f (values w.fn.params))
      (f (values (upd1 w.fn.params v (b.value - (1 + |b.value|) * w.h)))) ((1 + |b.value|) * w.h))] := by
    rw [q2, s3, setAt_single _ _ hl1, eH, hval]
  refine ⟨q1, hd1, ?_, ?_⟩
  · rw [q3, s4, setAt_single _ _ hl2, eH, e2, hval, hbase]
    simp only [hcubic, d2Side_real]
    congr 2
    field_simp
    ring
  · intro h3
    rw [hd1, hbase]
    simp only [hcubic, d1Side_real, h3]
    congr 2
    field_simp
    ring

/-- five-point scheme, forward one-sided formulas (Five:82-92): `x - 2H` refused, `x + H` and `x + 2H`
accepted.  Stored: `(f(x+H) - f(x)) / H` and `(f(x+2H) - 2 f(x+H) + f(x)) / H²`.  On a cubic the second
derivative is off by `+6 a₃ H` (exact on degree ≤ 2), the first one, for `a₃ = 0`, by `+a₂ H` (exact
on degree ≤ 1). -/
theorem five_point_forward_stored (f : List ℝ → ℝ) (w : W ℝ) (params : PList ℝ) (v : Name) (hown : Own w.fn)
    (hok : w.fn.OK f) (hF : FreeFn f params w.fn.params) (hpnd : (names params).Nodup) (hc1 : w.c1 = true)
    (hvars : w.vars = [v]) (hh : w.h ≠ 0) (b qv : Param ℝ)
    (hqv : find? params v = some qv) (hb : find? w.fn.params v = some b) (hprec : qv.prec = 0)
    (hl1 : w.der1.length = 1) (hl2 : w.der2.length = 1)
    (hrej : qv.violates (b.value - 2 * ((1 + |b.value|) * w.h)) = true)
    (hacc1 : qv.violates (b.value + (1 + |b.value|) * w.h) = false)
    (hacc2 : qv.violates (b.value + 2 * ((1 + |b.value|) * w.h)) = false)
    (a0 a1 a2 a3 : ℝ) (hcubic : ∀ t, f (values (upd1 w.fn.params v t)) = a0 + a1 * t + a2 * t ^ 2 + a3 * t ^ 3) :
    (update5 f w params).2 = none ∧
    (update5 f w params).1.der1 = [some (d1Side (f (values (upd1 w.fn.params v (b.value + (1 + |b.value|) * w.h))))
      (f (values w.fn.params)) ((1 + |b.value|) * w.h))] ∧
    (update5 f w params).1.der2 = [some ((2 * a2 + 6 * a3 * b.value) + 6 * a3 * ((1 + |b.value|) * w.h))] ∧
    (a3 = 0 → (update5 f w params).1.der1 = [some ((a1 + 2 * a2 * b.value) + a2 * ((1 + |b.value|) * w.h))]) := by
  have hH : (1 + |b.value|) * w.h ≠ 0 := mul_ne_zero (by positivity) hh
  have eH : (Scalar.one + Scalar.abs b.value) * w.h = (1 + |b.value|) * w.h := by
    simp only [ScalarReal.one_eq, ScalarReal.abs_eq]
  have e2 : (Scalar.ofInt 2 : ℝ) = 2 := by simp only [ScalarReal.ofInt_eq]; push_cast; rfl
  have hqval : qv.value = b.value :=
    (hF.ctx.sync qv (find?_some hqv).1 b (find?_some hb).1 (by rw [(find?_some hb).2, (find?_some hqv).2])).symm
  obtain ⟨fn1, hval, hLI0, hfin⟩ := update5_single f w params v hown hok hF hpnd hc1 hvars
  obtain ⟨s1, _, s3, s4⟩ := step5_of_probes f _ hLI0 0 v b qv hqv hb (by simp) _
    (fun rest hri => probes5_forward f hF qv rest hri hprec b.value ((Scalar.one + Scalar.abs b.value) * w.h) fn1.fval
      (by rw [eH]; exact hH) hqval (by rw [eH, e2]; exact hrej) (by rw [eH]; exact hacc1) (by rw [eH, e2]; exact hacc2))
  rcases hs : step5 f params { w := { w with fn := fn1, f3 := fn1.fval }, p := [], lastVar := none } 0 v with ⟨lp1, x1⟩
  rw [hs] at s1 s3 s4
  simp only [] at s1 s3 s4
  subst s1
  obtain ⟨q1, q2, q3⟩ := hfin lp1 hs
  have hbase : f (values w.fn.params) = a0 + a1 * b.value + a2 * b.value ^ 2 + a3 * b.value ^ 3 := by
    rw [← hcubic b.value, base_value f w.fn.params hown.1 v b hb]
  have hd1 : (update5 f w params).1.der1 = [some (d1Side (f (values (upd1 w.fn.params v (b.value + (1 + |b.value|) * w.h))))
      (f (values w.fn.params)) ((1 + |b.value|) * w.h))] := by
    rw [q2, s3, setAt_single _ _ hl1, eH, hval]
  refine ⟨q1, hd1, ?_, ?_⟩
  · rw [q3, s4, setAt_single _ _ hl2, eH, e2, hval, hbase]
    simp only [hcubic, d2Side_real]
    congr 2
    field_simp
    ring
  · intro h3
    rw [hd1, hbase]
    simp only [hcubic, d1Side_real, h3]
    congr 2
    field_simp
    ring

/-- two-point scheme, right-hand probe (Two:86-87): `x - H` refused, `x + H` accepted.  Stored:
`(f(x+H) - f(x)) / H`; on a quadratic off by `+a₂ H` (exact on degree ≤ 1). -/
theorem two_point_right_stored (f : List ℝ → ℝ) (w : W ℝ) (params : PList ℝ) (v : Name) (hown : Own w.fn)
    (hok : w.fn.OK f) (hF : FreeFn f params w.fn.params) (hB : BoundedNear f w.fn.params w.h) (hpnd : (names params).Nodup) (hc1 : w.c1 = true)
    (hvars : w.vars = [v]) (hh : 0 < w.h) (b qv : Param ℝ)
    (hqv : find? params v = some qv) (hb : find? w.fn.params v = some b) (hprec : qv.prec = 0)
    (hl1 : w.der1.length = 1)
    (hrej : qv.violates (b.value - (1 + |b.value|) * w.h) = true)
    (hacc : qv.violates (b.value + (1 + |b.value|) * w.h) = false)
    (a0 a1 a2 : ℝ) (hquad : ∀ t, f (values (upd1 w.fn.params v t)) = a0 + a1 * t + a2 * t ^ 2) :
    (update2 f w params).2 = none ∧
    (update2 f w params).1.der1 = [some (d1Two (f (values w.fn.params))
      (f (values (upd1 w.fn.params v (b.value + (1 + |b.value|) * w.h)))) ((1 + |b.value|) * w.h))] ∧
    (update2 f w params).1.der1 = [some ((a1 + 2 * a2 * b.value) + a2 * ((1 + |b.value|) * w.h))] := by
  have hH : (1 + |b.value|) * w.h ≠ 0 := mul_ne_zero (by positivity) (ne_of_gt hh)
  have eH : (Scalar.one + Scalar.abs b.value) * w.h = (1 + |b.value|) * w.h := by
    simp only [ScalarReal.one_eq, ScalarReal.abs_eq]
  obtain ⟨fn1, hval, hLI0, hfin⟩ := update2_single f w params v hown hok hF hB.base hpnd hc1 hvars
  obtain ⟨s1, _, s3⟩ := step2_right f hF _ hLI0 0 v b qv hqv hb (by simp) hh hprec hB
    (by rw [eH, ← sub_eq_add_neg]; exact hrej) (by rw [eH]; exact hacc)
  rcases hs : step2 f params { w := { w with fn := fn1, f1 := fn1.fval }, p := [], lastVar := none } 0 v with ⟨lp1, x1⟩
  rw [hs] at s1 s3
  simp only [] at s1 s3
  subst s1
  obtain ⟨q1, q2⟩ := hfin lp1 hs
  have hbase : f (values w.fn.params) = a0 + a1 * b.value + a2 * b.value ^ 2 := by
    rw [← hquad b.value, base_value f w.fn.params hown.1 v b hb]
  have hd1 : (update2 f w params).1.der1 = [some (d1Two (f (values w.fn.params))
      (f (values (upd1 w.fn.params v (b.value + (1 + |b.value|) * w.h)))) ((1 + |b.value|) * w.h))] := by
    rw [q2, s3, setAt_single _ _ hl1, eH, hval]
  refine ⟨q1, hd1, ?_⟩
  rw [hd1, hbase]
  simp only [hquad, d1Two_real]
  congr 2
  field_simp
  ring

/-- two-point scheme, halved step (Two:88-89): `x - H` and `x + H` refused, `x - H/2` accepted.
Stored: `(f(x - H/2) - f(x)) / (-H/2)`; on a quadratic off by `-a₂ H/2` (exact on degree ≤ 1). -/
theorem two_point_halved_stored (f : List ℝ → ℝ) (w : W ℝ) (params : PList ℝ) (v : Name) (hown : Own w.fn)
    (hok : w.fn.OK f) (hF : FreeFn f params w.fn.params) (hB : BoundedNear f w.fn.params w.h) (hpnd : (names params).Nodup) (hc1 : w.c1 = true)
    (hvars : w.vars = [v]) (hh : 0 < w.h) (b qv : Param ℝ)
    (hqv : find? params v = some qv) (hb : find? w.fn.params v = some b) (hprec : qv.prec = 0)
    (hl1 : w.der1.length = 1)
    (hrejL : qv.violates (b.value - (1 + |b.value|) * w.h) = true)
    (hrejR : qv.violates (b.value + (1 + |b.value|) * w.h) = true)
    (hacc : qv.violates (b.value - (1 + |b.value|) * w.h / 2) = false)
    (a0 a1 a2 : ℝ) (hquad : ∀ t, f (values (upd1 w.fn.params v t)) = a0 + a1 * t + a2 * t ^ 2) :
    (update2 f w params).2 = none ∧
    (update2 f w params).1.der1 = [some (d1Two (f (values w.fn.params))
      (f (values (upd1 w.fn.params v (b.value - (1 + |b.value|) * w.h / 2)))) (-((1 + |b.value|) * w.h / 2)))] ∧
    (update2 f w params).1.der1 = [some ((a1 + 2 * a2 * b.value) - a2 * ((1 + |b.value|) * w.h / 2))] := by
  have hH : (1 + |b.value|) * w.h ≠ 0 := mul_ne_zero (by positivity) (ne_of_gt hh)
  have eH : (Scalar.one + Scalar.abs b.value) * w.h = (1 + |b.value|) * w.h := by
    simp only [ScalarReal.one_eq, ScalarReal.abs_eq]
  have eh : (1 + |b.value|) * w.h / (-(Scalar.ofInt 2 : ℝ)) = -((1 + |b.value|) * w.h / 2) := by
    simp only [ScalarReal.ofInt_eq]; push_cast; ring
  obtain ⟨fn1, hval, hLI0, hfin⟩ := update2_single f w params v hown hok hF hB.base hpnd hc1 hvars
  obtain ⟨s1, _, s3⟩ := step2_halved f hF _ hLI0 0 v b qv hqv hb (by simp) hh hprec hB
    (by rw [eH, ← sub_eq_add_neg]; exact hrejL) (by rw [eH]; exact hrejR)
    (by rw [eH, eh, ← sub_eq_add_neg]; exact hacc)
  rcases hs : step2 f params { w := { w with fn := fn1, f1 := fn1.fval }, p := [], lastVar := none } 0 v with ⟨lp1, x1⟩
  rw [hs] at s1 s3
  simp only [] at s1 s3
  subst s1
  obtain ⟨q1, q2⟩ := hfin lp1 hs
  have hbase : f (values w.fn.params) = a0 + a1 * b.value + a2 * b.value ^ 2 := by
    rw [← hquad b.value, base_value f w.fn.params hown.1 v b hb]
  have hd1 : (update2 f w params).1.der1 = [some (d1Two (f (values w.fn.params))
      (f (values (upd1 w.fn.params v (b.value - (1 + |b.value|) * w.h / 2)))) (-((1 + |b.value|) * w.h / 2)))] := by
    rw [q2, s3, setAt_single _ _ hl1, eH, eh, ← sub_eq_add_neg, hval]
  refine ⟨q1, hd1, ?_⟩
  rw [hd1, hbase]
  simp only [hquad, d1Two_real]
  congr 2
  field_simp
  ring

/-- `one_sided_no_raise`, positive half, two-point scheme in general: among the ten tries
`x + s₀, x + s₁, …` (`s₀ = -H`, then `H, -H/2, H/2, -H/4, …`; `stepAt`) let the first `j` be refused by
the constraint the variable is passed with and the next one accepted.  Then `updateDerivatives` does
not raise and stores — not the NaN marker but — the difference quotient with the step `s_j`.
(`two_point_stored_exact_partial`, `two_point_right_stored`, `two_point_halved_stored` are `j = 0, 1, 2`.) -/
theorem two_point_falls_back (f : List ℝ → ℝ) (w : W ℝ) (params : PList ℝ) (v : Name) (hown : Own w.fn)
    (hok : w.fn.OK f) (hF : FreeFn f params w.fn.params) (hB : BoundedNear f w.fn.params w.h) (hpnd : (names params).Nodup)
    (hc1 : w.c1 = true) (hvars : w.vars = [v]) (hh : w.h ≠ 0) (b qv : Param ℝ)
    (hqv : find? params v = some qv) (hb : find? w.fn.params v = some b) (hprec : qv.prec = 0)
    (hl1 : w.der1.length = 1) (j : Nat) (hj : j < 10)
    (hrej : ∀ k, k < j → qv.violates (b.value + stepAt (-(1 + |b.value|) * w.h) k) = true)
    (hacc : qv.violates (b.value + stepAt (-(1 + |b.value|) * w.h) j) = false) :
    (update2 f w params).2 = none ∧
    (update2 f w params).1.der1 = [some (d1Two (f (values w.fn.params))
      (f (values (upd1 w.fn.params v (b.value + stepAt (-(1 + |b.value|) * w.h) j)))) (stepAt (-(1 + |b.value|) * w.h) j))] := by
  have eH : -(Scalar.one + Scalar.abs b.value) * w.h = -(1 + |b.value|) * w.h := by
    simp only [ScalarReal.one_eq, ScalarReal.abs_eq]
  obtain ⟨fn1, hval, hLI0, hfin⟩ := update2_single f w params v hown hok hF hB.base hpnd hc1 hvars
  obtain ⟨s1, _, s3⟩ := step2_first_accepted f hF _ hLI0 0 v b qv hqv hb (by simp) hh hprec hB j hj
    (by rw [eH]; exact hrej) (by rw [eH]; exact hacc)
  rcases hs : step2 f params { w := { w with fn := fn1, f1 := fn1.fval }, p := [], lastVar := none } 0 v with ⟨lp1, x1⟩
  rw [hs] at s1 s3
  simp only [] at s1 s3
  subst s1
  obtain ⟨q1, q2⟩ := hfin lp1 hs
  refine ⟨q1, ?_⟩
  rw [q2, s3, setAt_single _ _ hl1, eH, hval]

/-- … on a quadratic the stored value is off by `a₂ s_j`: exact on degree ≤ 1 whatever the try that
went through -/
theorem two_point_falls_back_exact (f : List ℝ → ℝ) (w : W ℝ) (params : PList ℝ) (v : Name) (hown : Own w.fn)
    (hok : w.fn.OK f) (hF : FreeFn f params w.fn.params) (hB : BoundedNear f w.fn.params w.h) (hpnd : (names params).Nodup)
    (hc1 : w.c1 = true) (hvars : w.vars = [v]) (hh : w.h ≠ 0) (b qv : Param ℝ)
    (hqv : find? params v = some qv) (hb : find? w.fn.params v = some b) (hprec : qv.prec = 0)
    (hl1 : w.der1.length = 1) (j : Nat) (hj : j < 10)
    (hrej : ∀ k, k < j → qv.violates (b.value + stepAt (-(1 + |b.value|) * w.h) k) = true)
    (hacc : qv.violates (b.value + stepAt (-(1 + |b.value|) * w.h) j) = false)
    (a0 a1 a2 : ℝ) (hquad : ∀ t, f (values (upd1 w.fn.params v t)) = a0 + a1 * t + a2 * t ^ 2) :
    (update2 f w params).1.der1 = [some ((a1 + 2 * a2 * b.value) + a2 * stepAt (-(1 + |b.value|) * w.h) j)] := by
  obtain ⟨_, hd1⟩ := two_point_falls_back f w params v hown hok hF hB hpnd hc1 hvars hh b qv hqv hb hprec hl1 j hj hrej hacc
  have h0 : -(1 + |b.value|) * w.h ≠ 0 := mul_ne_zero (neg_ne_zero.mpr (by positivity)) hh
  have hsj : stepAt (-(1 + |b.value|) * w.h) j ≠ 0 := stepAt_ne_zero j h0
  have hbase : f (values w.fn.params) = a0 + a1 * b.value + a2 * b.value ^ 2 := by
    rw [← hquad b.value, base_value f w.fn.params hown.1 v b hb]
  rw [hd1, hbase]
  simp only [hquad, d1Two_real]
  generalize stepAt (-(1 + |b.value|) * w.h) j = s at hsj ⊢
  congr 2
  field_simp
  ring

/-- … and conversely: when the two-point scheme stores the NaN marker for the variable, every one of
the ten tries was refused by the constraint it was passed with — the NaN marker is stored only when
there is no room at all -/
theorem two_point_nan_only_without_room (f : List ℝ → ℝ) (w : W ℝ) (params : PList ℝ) (v : Name) (hown : Own w.fn)
    (hok : w.fn.OK f) (hF : FreeFn f params w.fn.params) (hB : BoundedNear f w.fn.params w.h) (hpnd : (names params).Nodup)
    (hc1 : w.c1 = true) (hvars : w.vars = [v]) (hh : w.h ≠ 0) (b qv : Param ℝ)
    (hqv : find? params v = some qv) (hb : find? w.fn.params v = some b) (hprec : qv.prec = 0)
    (hl1 : w.der1.length = 1) (hnan : (update2 f w params).1.der1 = [none]) :
    ∀ k, k < 10 → qv.violates (b.value + stepAt (-(1 + |b.value|) * w.h) k) = true := by
  by_contra hcon
  have hex : ∃ k, k < 10 ∧ qv.violates (b.value + stepAt (-(1 + |b.value|) * w.h) k) ≠ true := by
    by_contra hne
    apply hcon
    intro k hk
    by_contra hk2
    exact hne ⟨k, hk, hk2⟩
  classical
  have hj := Nat.find_spec hex
  have hmin : ∀ k, k < Nat.find hex → qv.violates (b.value + stepAt (-(1 + |b.value|) * w.h) k) = true := by
    intro k hk
    by_contra hne
    exact Nat.find_min hex hk ⟨lt_trans hk hj.1, hne⟩
  obtain ⟨_, h1⟩ := two_point_falls_back f w params v hown hok hF hB hpnd hc1 hvars hh b qv hqv hb hprec hl1
    (Nat.find hex) hj.1 hmin (by simpa using hj.2)
  rw [hnan] at h1
  simp at h1

/-- three-point scheme, halved step (Three:90-91, 98-99): `x - H` and `x + H` refused, `x - H/2` and
`x + H/2` accepted: symmetric probes with half the step.  Stored: `d1Three`/`d2Three` of the values at
`x ∓ H/2`; on a cubic the second derivative is exact (degree ≤ 3), the first one is off by
`a₃ (H/2)²` (exact on degree ≤ 2). -/
theorem three_point_halved_stored (f : List ℝ → ℝ) (w : W ℝ) (params : PList ℝ) (v : Name) (hown : Own w.fn)
    (hok : w.fn.OK f) (hF : FreeFn f params w.fn.params) (hB : BoundedNear f w.fn.params w.h) (hpnd : (names params).Nodup) (hc1 : w.c1 = true)
    (hcx : w.cx = false) (hvars : w.vars = [v]) (hh : 0 < w.h) (b qv : Param ℝ)
    (hqv : find? params v = some qv) (hb : find? w.fn.params v = some b) (hprec : qv.prec = 0)
    (hl1 : w.der1.length = 1) (hl2 : w.der2.length = 1)
    (hrejL : qv.violates (b.value - (1 + |b.value|) * w.h) = true)
    (hrejR : qv.violates (b.value + (1 + |b.value|) * w.h) = true)
    (haccL : qv.violates (b.value - (1 + |b.value|) * w.h / 2) = false)
    (haccR : qv.violates (b.value + (1 + |b.value|) * w.h / 2) = false)
    (a0 a1 a2 a3 : ℝ) (hcubic : ∀ t, f (values (upd1 w.fn.params v t)) = a0 + a1 * t + a2 * t ^ 2 + a3 * t ^ 3) :
    (update3 f w params).2 = none ∧
    (update3 f w params).1.der1 = [some (d1Three (f (values (upd1 w.fn.params v (b.value - (1 + |b.value|) * w.h / 2))))
      (f (values (upd1 w.fn.params v (b.value + (1 + |b.value|) * w.h / 2))))
      (-((1 + |b.value|) * w.h / 2)) ((1 + |b.value|) * w.h / 2))] ∧
    (update3 f w params).1.der2 = [some (2 * a2 + 6 * a3 * b.value)] ∧
    (update3 f w params).1.der1 = [some ((a1 + 2 * a2 * b.value + 3 * a3 * b.value ^ 2) + a3 * ((1 + |b.value|) * w.h / 2) ^ 2)] := by
  have hH : (1 + |b.value|) * w.h ≠ 0 := mul_ne_zero (by positivity) (ne_of_gt hh)
  have eH : (Scalar.one + Scalar.abs b.value) * w.h = (1 + |b.value|) * w.h := by
    simp only [ScalarReal.one_eq, ScalarReal.abs_eq]
  have eh : (1 + |b.value|) * w.h / (-(Scalar.ofInt 2 : ℝ)) = -((1 + |b.value|) * w.h / 2) := by
    simp only [ScalarReal.ofInt_eq]; push_cast; ring
  obtain ⟨fn1, hval, hLI0, hfin⟩ := update3_single f w params v hown hok hF hB.base hpnd hc1 hcx hvars
  obtain ⟨s1, _, s3, s4⟩ := step3_halved f hF _ hLI0 0 v b qv hqv hb (by simp) hh hprec hB
    (by rw [eH, ← sub_eq_add_neg]; exact hrejL) (by rw [eH]; exact hrejR)
    (by rw [eH, eh, ← sub_eq_add_neg]; exact haccL) (by rw [eH, eh, neg_neg]; exact haccR)
  rcases hs : step3 f params { w := { w with fn := fn1, f2 := fn1.fval }, p := [], lastVar := none } 0 v with ⟨lp1, x1⟩
  rw [hs] at s1 s3 s4
  simp only [] at s1 s3 s4
  subst s1
  obtain ⟨q1, q2, q3⟩ := hfin lp1 hs
  have hbase : f (values w.fn.params) = a0 + a1 * b.value + a2 * b.value ^ 2 + a3 * b.value ^ 3 := by
    rw [← hcubic b.value, base_value f w.fn.params hown.1 v b hb]
  have hd1 : (update3 f w params).1.der1 = [some (d1Three (f (values (upd1 w.fn.params v (b.value - (1 + |b.value|) * w.h / 2))))
      (f (values (upd1 w.fn.params v (b.value + (1 + |b.value|) * w.h / 2))))
      (-((1 + |b.value|) * w.h / 2)) ((1 + |b.value|) * w.h / 2))] := by
    rw [q2, s3, setAt_single _ _ hl1, eH, eh, neg_neg, ← sub_eq_add_neg]
  have hne : -((1 + |b.value|) * w.h / 2) - (1 + |b.value|) * w.h / 2 ≠ 0 := by
    intro e; apply hH; linarith
  have hne2 : (1 + |b.value|) * w.h / 2 ≠ 0 := div_ne_zero hH (by norm_num)
  refine ⟨q1, hd1, ?_, ?_⟩
  · rw [q3, s4, setAt_single _ _ hl2, eH, eh, neg_neg, ← sub_eq_add_neg, hval, hbase]
    simp only [hcubic, d2Three_real]
    congr 2
    have hne3 : -((1 + |b.value|) * w.h / 2) ≠ 0 := neg_ne_zero.mpr hne2
    field_simp
    ring
  · rw [hd1]
    simp only [hcubic, d1Three_real]
    congr 2
    field_simp
    ring

/-- the guards of the fall-back paths are satisfiable: a parameter at 0 with step 1/16 (`H = 1/16`)
passed with the constraints `[-1/8, 1/16]` (five-point backward), `[-1/16, 1/8]` (five-point
forward), `[0, 1]` (two-point right-hand probe), `[-3/64, 3/64]` (halved steps) -/
example : ∃ (q1 q2 q3 q4 : Param ℝ) (x h : ℝ), 0 < h ∧
    (q1.violates (x - 2 * ((1 + |x|) * h)) = false ∧ q1.violates (x + 2 * ((1 + |x|) * h)) = true ∧
      q1.violates (x - (1 + |x|) * h) = false) ∧
    (q2.violates (x - 2 * ((1 + |x|) * h)) = true ∧ q2.violates (x + (1 + |x|) * h) = false ∧
      q2.violates (x + 2 * ((1 + |x|) * h)) = false) ∧
    (q3.violates (x - (1 + |x|) * h) = true ∧ q3.violates (x + (1 + |x|) * h) = false) ∧
    (q4.violates (x - (1 + |x|) * h) = true ∧ q4.violates (x + (1 + |x|) * h) = true ∧
      q4.violates (x - (1 + |x|) * h / 2) = false ∧ q4.violates (x + (1 + |x|) * h / 2) = false) := by
  refine ⟨⟨0, 0, 0, some ⟨some (-1 / 8), some (1 / 16), true, true⟩⟩, ⟨0, 0, 0, some ⟨some (-1 / 16), some (1 / 8), true, true⟩⟩,
    ⟨0, 0, 0, some ⟨some 0, some 1, true, true⟩⟩, ⟨0, 0, 0, some ⟨some (-3 / 64), some (3 / 64), true, true⟩⟩,
    0, 1 / 16, by norm_num, ⟨?_, ?_, ?_⟩, ⟨?_, ?_, ?_⟩, ⟨?_, ?_⟩, ⟨?_, ?_, ?_, ?_⟩⟩ <;>
    simp [Param.violates, Interval.isCorrect, Scalar.geb, Scalar.leb] <;> norm_num

/-! ## Non-vacuity of the hypotheses -/

/-- the one-sided situation of `three_point_one_sided_stored` exists: a parameter at 0 passed with
the constraint `[0, +∞[`, step 1/16 -/
example : ∃ (qv : Param ℝ) (x h : ℝ), 0 < h ∧ qv.prec = 0 ∧
    qv.violates (x - (1 + |x|) * h) = true ∧ qv.violates (x + (1 + |x|) * h) = false ∧
    qv.violates (x + (1 + |x|) * h / 2) = false := by
  refine ⟨⟨0, 0, 0, some ⟨some 0, none, true, true⟩⟩, 0, 1 / 16, by norm_num, rfl, ?_, ?_, ?_⟩ <;>
    simp [Param.violates, Interval.isCorrect, Scalar.geb, Scalar.leb] <;> norm_num

/-! ### Non-constant instances of every end-to-end theorem

`Lemmas/NumDerivExamples.lean`: a wrapper at `x = 0` with step `1/16` around `f = p(x)` for the cubic
`p = 1 + x + x² + x³` (or the quadratic `1 + x + x²`), and around `f = x y + x` in two variables.
`BoundedNear` is local (`|p| < 1.7e23` on `[-1/16, 1/16]`), so these polynomials satisfy every
hypothesis; each `example` below is the theorem applied to the instance, with the derivative that
`updateDerivatives` then stores. -/

section instances
open Bpp.NumDeriv

/-- `three_point_computes_central_partial`, `three_point_stored_exact_partial` on the cubic: `f''(0) = 2` stored -/
example : (update3 (exf cubic) (exW cubic .three) (exP none)).2 = none ∧
    (update3 (exf cubic) (exW cubic .three) (exP none)).1.der2[0]? = some (some (2 * 1 + 6 * 1 * 0)) :=
  ⟨(three_point_computes_central_partial (exf cubic) (exW cubic .three) (exP none) (ex_own _ _) (ex_ok _ _) (ex_free _)
      (ex_bounded _ cubic_bound) (by simp [names, exP]) rfl rfl (by simp [exW]) (hin_ex _ _) (by norm_num [exW]) rfl rfl).1,
   (three_point_stored_exact_partial (exf cubic) (exW cubic .three) (exP none) (ex_own _ _) (ex_ok _ _) (ex_free _)
      (ex_bounded _ cubic_bound) (by simp [names, exP]) rfl rfl (by simp [exW]) (hin_ex _ _) (by norm_num [exW]) rfl rfl
      0 (by simp [exW]) rfl ⟨0, 0, 0, none⟩ rfl 1 1 1 1 (fun t => ex_poly cubic t)).1⟩

/-- … and on the quadratic the first derivative `f'(0) = 1` is exact -/
example : (update3 (exf quadr) (exW quadr .three) (exP none)).1.der1[0]? = some (some (1 + 2 * 1 * 0)) :=
  (three_point_stored_exact_partial (exf quadr) (exW quadr .three) (exP none) (ex_own _ _) (ex_ok _ _) (ex_free _)
      (ex_bounded _ quadr_bound) (by simp [names, exP]) rfl rfl (by simp [exW]) (hin_ex _ _) (by norm_num [exW]) rfl rfl
      0 (by simp [exW]) rfl ⟨0, 0, 0, none⟩ rfl 1 1 1 0 (fun t => (ex_poly quadr t).trans (by simp [quadr]))).2 rfl

/-- `two_point_stored_exact_partial` on the quadratic: `f'(0) = 1` off by `-a₂ H = -1/16` -/
example : (update2 (exf quadr) (exW quadr .two) (exP none)).1.der1[0]? =
    some (some ((1 + 2 * 1 * 0) + 1 * (-(1 + |(0 : ℝ)|) * (1 / 16)))) :=
  (two_point_stored_exact_partial (exf quadr) (exW quadr .two) (exP none) (ex_own _ _) (ex_ok _ _) (ex_free _)
      (ex_bounded _ quadr_bound) (by simp [names, exP]) rfl (by simp [exW]) (hin_ex _ _) (by norm_num [exW]) rfl
      0 (by simp [exW]) rfl ⟨0, 0, 0, none⟩ rfl 1 1 1 (fun t => ex_poly quadr t)).2

/-- `five_point_computes_central_partial`, `five_point_stored_exact_partial` (no boundedness hypothesis at all: the
five-point scheme has no VERY_BIG test) on `poly5` with coefficients `1, 1, 1, 1, 0, 0` -/
example : (update5 (exf (poly5 fun i => if i.val ≤ 3 then 1 else 0)) (exW (poly5 fun i => if i.val ≤ 3 then 1 else 0) .five) (exP none)).2 = none ∧
    (update5 (exf (poly5 fun i => if i.val ≤ 3 then 1 else 0)) (exW (poly5 fun i => if i.val ≤ 3 then 1 else 0) .five) (exP none)).1.der1[0]?
      = some (some (poly5' (fun i => if i.val ≤ 3 then 1 else 0) 0)) :=
  ⟨(five_point_computes_central_partial _ (exW _ .five) (exP none) (ex_own _ _) (ex_ok _ _) (ex_free _)
      (by simp [names, exP]) rfl (by simp [exW]) (hin_ex _ _) rfl rfl).1,
   (five_point_stored_exact_partial _ (exW _ .five) (exP none) (ex_own _ _) (ex_ok _ _) (ex_free _)
      (by simp [names, exP]) rfl (by simp [exW]) (hin_ex _ _) (by norm_num [exW]) rfl rfl
      0 (by simp [exW]) rfl ⟨0, 0, 0, none⟩ rfl _ (fun t => ex_poly _ t)).2 (by simp)⟩

/-- `three_point_one_sided_stored`: the parameter passed with `[0, 1]` (left probe refused) -/
example : (update3 (exf quadr) (exW quadr .three) (exP (cn 0 1))).1.der2 = [some (2 * 1)] :=
  (three_point_one_sided_stored (exf quadr) (exW quadr .three) (exP (cn 0 1)) 0 (ex_own _ _) (ex_ok _ _) (ex_freeFn _ _)
    (ex_bounded _ quadr_bound) (by simp [names, exP]) rfl rfl rfl (by norm_num [exW]) ⟨0, 0, 0, none⟩ (qc 0 1) rfl rfl rfl rfl rfl
    (by simp [qc, cn, exW, Param.violates, Interval.isCorrect, Scalar.geb, Scalar.leb])
    (by simp [qc, cn, exW, Param.violates, Interval.isCorrect, Scalar.geb, Scalar.leb] <;> norm_num)
    (by simp [qc, cn, exW, Param.violates, Interval.isCorrect, Scalar.geb, Scalar.leb] <;> norm_num)
    1 1 1 (fun t => ex_poly quadr t)).2.1

/-- `five_point_backward_stored`: passed with `[-1/8, 1/16]` -/
example : (update5 (exf cubic) (exW cubic .five) (exP (cn (-1 / 8) (1 / 16)))).1.der2 =
    [some ((2 * 1 + 6 * 1 * 0) - 6 * 1 * ((1 + |(0 : ℝ)|) * (1 / 16)))] :=
  (five_point_backward_stored (exf cubic) (exW cubic .five) (exP (cn (-1 / 8) (1 / 16))) 0 (ex_own _ _) (ex_ok _ _) (ex_freeFn _ _)
    (by simp [names, exP]) rfl rfl (by norm_num [exW]) ⟨0, 0, 0, none⟩ (qc (-1 / 8) (1 / 16)) rfl rfl rfl rfl rfl
    (by simp [qc, cn, exW, Param.violates, Interval.isCorrect, Scalar.geb, Scalar.leb] <;> norm_num)
    (by simp [qc, cn, exW, Param.violates, Interval.isCorrect, Scalar.geb, Scalar.leb] <;> norm_num)
    (by simp [qc, cn, exW, Param.violates, Interval.isCorrect, Scalar.geb, Scalar.leb] <;> norm_num)
    1 1 1 1 (fun t => ex_poly cubic t)).2.2.1

/-- `five_point_forward_stored`: passed with `[-1/16, 1/8]` -/
example : (update5 (exf cubic) (exW cubic .five) (exP (cn (-1 / 16) (1 / 8)))).1.der2 =
    [some ((2 * 1 + 6 * 1 * 0) + 6 * 1 * ((1 + |(0 : ℝ)|) * (1 / 16)))] :=
  (five_point_forward_stored (exf cubic) (exW cubic .five) (exP (cn (-1 / 16) (1 / 8))) 0 (ex_own _ _) (ex_ok _ _) (ex_freeFn _ _)
    (by simp [names, exP]) rfl rfl (by norm_num [exW]) ⟨0, 0, 0, none⟩ (qc (-1 / 16) (1 / 8)) rfl rfl rfl rfl rfl
    (by simp [qc, cn, exW, Param.violates, Interval.isCorrect, Scalar.geb, Scalar.leb] <;> norm_num)
    (by simp [qc, cn, exW, Param.violates, Interval.isCorrect, Scalar.geb, Scalar.leb] <;> norm_num)
    (by simp [qc, cn, exW, Param.violates, Interval.isCorrect, Scalar.geb, Scalar.leb] <;> norm_num)
    1 1 1 1 (fun t => ex_poly cubic t)).2.2.1

/-- `two_point_right_stored`: passed with `[0, 1]` -/
example : (update2 (exf quadr) (exW quadr .two) (exP (cn 0 1))).1.der1 =
    [some ((1 + 2 * 1 * 0) + 1 * ((1 + |(0 : ℝ)|) * (1 / 16)))] :=
  (two_point_right_stored (exf quadr) (exW quadr .two) (exP (cn 0 1)) 0 (ex_own _ _) (ex_ok _ _) (ex_freeFn _ _)
    (ex_bounded _ quadr_bound) (by simp [names, exP]) rfl rfl (by norm_num [exW]) ⟨0, 0, 0, none⟩ (qc 0 1) rfl rfl rfl rfl
    (by simp [qc, cn, exW, Param.violates, Interval.isCorrect, Scalar.geb, Scalar.leb])
    (by simp [qc, cn, exW, Param.violates, Interval.isCorrect, Scalar.geb, Scalar.leb] <;> norm_num)
    1 1 1 (fun t => ex_poly quadr t)).2.2

/-- `two_point_halved_stored`: passed with `[-3/64, 3/64]` -/
example : (update2 (exf quadr) (exW quadr .two) (exP (cn (-3 / 64) (3 / 64)))).1.der1 =
    [some ((1 + 2 * 1 * 0) - 1 * ((1 + |(0 : ℝ)|) * (1 / 16) / 2))] :=
  (two_point_halved_stored (exf quadr) (exW quadr .two) (exP (cn (-3 / 64) (3 / 64))) 0 (ex_own _ _) (ex_ok _ _) (ex_freeFn _ _)
    (ex_bounded _ quadr_bound) (by simp [names, exP]) rfl rfl (by norm_num [exW]) ⟨0, 0, 0, none⟩ (qc (-3 / 64) (3 / 64)) rfl rfl rfl rfl
    (by simp [qc, cn, exW, Param.violates, Interval.isCorrect, Scalar.geb, Scalar.leb] <;> norm_num)
    (by simp [qc, cn, exW, Param.violates, Interval.isCorrect, Scalar.geb, Scalar.leb] <;> norm_num)
    (by simp [qc, cn, exW, Param.violates, Interval.isCorrect, Scalar.geb, Scalar.leb] <;> norm_num)
    1 1 1 (fun t => ex_poly quadr t)).2.2

/-- `three_point_halved_stored`: passed with `[-3/64, 3/64]`; `f''(0) = 2` exact on the cubic -/
example : (update3 (exf cubic) (exW cubic .three) (exP (cn (-3 / 64) (3 / 64)))).1.der2 = [some (2 * 1 + 6 * 1 * 0)] :=
  (three_point_halved_stored (exf cubic) (exW cubic .three) (exP (cn (-3 / 64) (3 / 64))) 0 (ex_own _ _) (ex_ok _ _) (ex_freeFn _ _)
    (ex_bounded _ cubic_bound) (by simp [names, exP]) rfl rfl rfl (by norm_num [exW]) ⟨0, 0, 0, none⟩ (qc (-3 / 64) (3 / 64)) rfl rfl rfl rfl rfl
    (by simp [qc, cn, exW, Param.violates, Interval.isCorrect, Scalar.geb, Scalar.leb] <;> norm_num)
    (by simp [qc, cn, exW, Param.violates, Interval.isCorrect, Scalar.geb, Scalar.leb] <;> norm_num)
    (by simp [qc, cn, exW, Param.violates, Interval.isCorrect, Scalar.geb, Scalar.leb] <;> norm_num)
    (by simp [qc, cn, exW, Param.violates, Interval.isCorrect, Scalar.geb, Scalar.leb] <;> norm_num)
    1 1 1 1 (fun t => ex_poly cubic t)).2.2.1

/-- `three_point_cross_computes_partial`, `cross_stored_exact_partial` on `f(x, y) = x y + x`: `∂²f/∂x∂y = 1` stored -/
example : (update3 exf2 exW2 exB2).2 = none ∧
    get2 (update3 exf2 exW2 exB2).1.cross 0 1 =
      some (some (biquadXY (fun i j => if i.val = 1 ∧ j.val ≤ 1 then 1 else 0) 0 0)) := by
  have hin : ∀ v ∈ exW2.vars, has exB2 v = true → v ∈ names exW2.fn.params := by
    intro v hv _; simp [exW2] at hv; rcases hv with rfl | rfl <;> simp [exW2, exB2, names]
  refine ⟨(three_point_cross_computes_partial exf2 exW2 exB2 ex2_own ex2_ok ex2_free ex2_bounded (by simp [names, exB2]) rfl rfl
      (by simp [exW2]) hin (by norm_num [exW2]) rfl rfl).1, ?_⟩
  exact cross_stored_exact_partial exf2 exW2 exB2 ex2_own ex2_ok ex2_free ex2_bounded (by simp [names, exB2]) rfl rfl
    (by simp [exW2]) hin (by norm_num [exW2]) rfl rfl 0 1 (by simp [exW2]) (by simp [exW2]) (by decide) rfl rfl
    (by simp [get2, exW2]) ⟨0, 0, 0, none⟩ ⟨1, 0, 0, none⟩ rfl rfl _
    (fun s t => by
      show exf2 (values (upd1 (upd1 exB2 0 s) 1 t)) = _
      rw [ex2_values]; simp [exf2, biquad]; ring)

/-- `two_point_falls_back(_exact)` with `j = 3`: passed with `[-1/64, 3/64]`, the tries at `-1/16`,
`1/16`, `-1/32` are refused, the fourth one at `1/32` goes through -/
example : (update2 (exf quadr) (exW quadr .two) (exP (cn (-1 / 64) (3 / 64)))).1.der1 =
    [some ((1 + 2 * 1 * 0) + 1 * stepAt (-(1 + |(0 : ℝ)|) * (1 / 16)) 3)] ∧
    stepAt (-(1 + |(0 : ℝ)|) * (1 / 16)) 3 = 1 / 32 := by
  have st : ∀ k, k < 4 → stepAt (-(1 + |(0 : ℝ)|) * (1 / 16)) k = [-(1 / 16), 1 / 16, -(1 / 32), 1 / 32].getD k 0 := by
    intro k hk
    rcases k with _ | _ | _ | _ | k
    · simp [stepAt]
    · simp [stepAt, nextStep, Scalar.ltb]
    · simp [stepAt, nextStep, Scalar.ltb]; norm_num
    · simp [stepAt, nextStep, Scalar.ltb]; norm_num
    · omega
  refine ⟨two_point_falls_back_exact (exf quadr) (exW quadr .two) (exP (cn (-1 / 64) (3 / 64))) 0 (ex_own _ _) (ex_ok _ _)
    (ex_freeFn _ _) (ex_bounded _ quadr_bound) (by simp [names, exP]) rfl rfl (by norm_num [exW]) ⟨0, 0, 0, none⟩
    (qc (-1 / 64) (3 / 64)) rfl rfl rfl rfl 3 (by norm_num) ?_ ?_ 1 1 1 (fun t => ex_poly quadr t), ?_⟩
  · intro k hk
    show (qc (-1 / 64) (3 / 64)).violates (0 + stepAt (-(1 + |(0 : ℝ)|) * (1 / 16)) k) = true
    rw [st k (by omega)]
    rcases k with _ | _ | _ | k
    · simp [qc, cn, Param.violates, Interval.isCorrect, Scalar.geb, Scalar.leb] <;> norm_num
    · simp [qc, cn, Param.violates, Interval.isCorrect, Scalar.geb, Scalar.leb] <;> norm_num
    · simp [qc, cn, Param.violates, Interval.isCorrect, Scalar.geb, Scalar.leb] <;> norm_num
    · omega
  · show (qc (-1 / 64) (3 / 64)).violates (0 + stepAt (-(1 + |(0 : ℝ)|) * (1 / 16)) 3) = false
    rw [st 3 (by norm_num)]
    simp [qc, cn, Param.violates, Interval.isCorrect, Scalar.geb, Scalar.leb] <;> norm_num
  · rw [st 3 (by norm_num)]; simp

end instances

end Bpp.C12
