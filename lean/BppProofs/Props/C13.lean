import BppProofs.Lemmas.Hmm
/-!
# C13 — HMM likelihood algorithms   (src/Bpp/Numeric/Hmm)

Property theorems only; helper lemmas are in `Lemmas/Hmm.lean`.  All statements are about the
model `BppModel/Hmm.lean` read at `ℝ` (exact arithmetic: rounding is not modelled).

A sequence of `T` positions is given as the emissions `e0` of position 0 and the list `sites` of
the positions `1 … T-1`, each tagged with "the chain is restarted here".  The theorems hold for
**every** such tagging; `flags_of_valid_breaks` shows that for break points given as a strictly
increasing vector in `1 … T-1` the code's iterator logic (`Hmm.fwdFlags`, used by `Hmm.mkSites`)
restarts exactly at the break points.
-/
namespace Bpp.C13
open Bpp Bpp.Hmm

/-! ## The specification: sum over all hidden paths -/

/-- The unscaled forward recursion, restarted at the flagged sites, computes the sum over **all**
hidden paths of (π·P)(y₀)·Π transitions·Π emissions, for every number of states, every length and
every placement of restarts.  (No sign hypothesis is needed.) -/
theorem forward_is_path_sum (p : Params ℝ) (e0 : Emis ℝ) (sites : List (Site ℝ)) :
    fwdU p e0 sites = pathSum p e0 sites :=
  fwdU_eq_pathSum p e0 sites

/-- The code starts (and restarts) the chain with one transition from the equilibrium vector,
`Σ_k π_k·P(k,y)`.  When `π` is a stationary distribution of `P` this is `π_y`: the chain is started
from its stationary distribution, as the property says. -/
theorem init_stationary (p : Params ℝ) (hst : ∀ y, y < p.n → ∑ k ∈ Finset.range p.n, p.pi k * p.P k y = p.pi y)
    (y : Nat) (hy : y < p.n) : initW p y = p.pi y := by
  rw [initW_eq, ← hst y hy]; apply Finset.sum_congr rfl; intro k _; ring

/-- break points given as a strictly increasing vector in `1 … T-1`: the forward iterator logic of
the three classes restarts the chain exactly at the break points -/
theorem flags_of_valid_breaks (es : List (Emis ℝ)) (bps : List Nat) (hv : ValidBreaks (es.length + 1) bps) :
    (mkSites es bps).map (·.1) = (List.range es.length).map (fun k => decide (k + 1 ∈ bps)) := by
  unfold mkSites
  rw [fwdFlags_eq (es.length + 1) es.length 1 bps (by omega) hv.1 hv.2]
  rw [List.map_fst_zip (by simp)]
  apply List.map_congr_left; intro k _; rw [Nat.add_comm]

/-! ## Rescaled class -/

/-- every scale factor is ≥ 0 and their product is the path sum — including when some scale is 0 -/
theorem rescaled_scales_prod (p : Params ℝ) (hp : NonNegP p) (e0 : Emis ℝ) (he0 : NonNegE e0)
    (sites : List (Site ℝ)) (hs : NonNegS sites) :
    (rescForward p e0 sites).scales.prod = pathSum p e0 sites ∧ ∀ c ∈ (rescForward p e0 sites).scales, 0 ≤ c := by
  refine ⟨by rw [scales_prod_eq_fwdU p hp e0 he0 sites hs, fwdU_eq_pathSum], ?_⟩
  intro c hc
  unfold rescForward at hc
  simp only [List.mem_map] at hc
  obtain ⟨x, hx, rfl⟩ := hc
  have := rescLoop_scales_nonneg p hp ((true, e0) :: sites)
    (by intro s hs'; rcases List.mem_cons.mp hs' with rfl | h; exact he0; exact hs s h) (fun _ => 0) (fun _ _ => le_refl _)
  have hnil : rescLoop p ((true, e0) :: sites) [] = rescLoop p ((true, e0) :: sites) (vec p.n (fun _ => (0:ℝ))) := by
    simp only [rescLoop, rescTmp_true]
  rw [hnil] at hx
  exact this x hx

/-- `exp (logLik_) = Σ over all hidden paths`, when every scale factor is positive -/
theorem rescaled_eq (p : Params ℝ) (hp : NonNegP p) (e0 : Emis ℝ) (he0 : NonNegE e0)
    (sites : List (Site ℝ)) (hs : NonNegS sites) (hpos : ∀ c ∈ (rescForward p e0 sites).scales, 0 < c) :
    Real.exp (rescForward p e0 sites).logLik = pathSum p e0 sites := by
  rw [rescForward_logLik, exp_sum_log _ hpos]
  exact (rescaled_scales_prod p hp e0 he0 sites hs).1

/-- the zero-scale case stated outright: some scale factor is 0 exactly when the data have
probability 0 (the code then sums a `log 0 = -inf`; in `ℝ` there is no such value, so the statement
is about the scale factors themselves) -/
theorem rescaled_zero_scale (p : Params ℝ) (hp : NonNegP p) (e0 : Emis ℝ) (he0 : NonNegE e0)
    (sites : List (Site ℝ)) (hs : NonNegS sites) :
    (∃ c ∈ (rescForward p e0 sites).scales, c = 0) ↔ pathSum p e0 sites = 0 := by
  rw [← (rescaled_scales_prod p hp e0 he0 sites hs).1, List.prod_eq_zero_iff]
  constructor
  · rintro ⟨c, hc, rfl⟩; exact hc
  · intro h; exact ⟨0, h, rfl⟩

/-! ## Low-memory class -/

/-- for **every** chunk size (also larger than the sequence), the low-memory class returns the
log-likelihood of the rescaled class -/
theorem lowmem_eq_rescaled (p : Params ℝ) (hp : NonNegP p) (maxSize : Nat) (e0 : Emis ℝ) (he0 : NonNegE e0)
    (sites : List (Site ℝ)) (hs : NonNegS sites) :
    lowForward p maxSize e0 sites = (rescForward p e0 sites).logLik :=
  lowForward_eq p hp maxSize e0 he0 sites hs

/-! ## Log-sum class -/

/-- for strictly positive transition, equilibrium and emission entries the log-sum class returns
the logarithm of the path sum -/
theorem logsum_eq (p : Params ℝ) (hn : 0 < p.n) (hp : PosP p) (e0 : Emis ℝ) (he0 : PosE e0)
    (sites : List (Site ℝ)) (hs : PosS sites) :
    (logForward p e0 sites).ll = Real.log (pathSum p e0 sites) := by
  rw [logForward_ll p hn hp e0 he0 sites hs, fwdU_eq_pathSum]

/-! ## Non-vacuity -/

/-- a 2-state chain satisfying every hypothesis above -/
noncomputable def exP : Params ℝ := { n := 2, P := fun _ _ => 1 / 2, pi := fun _ => 1 / 2 }
example : PosP exP ∧ NonNegP exP ∧ 0 < exP.n := by
  refine ⟨⟨fun _ _ => by simp [exP], fun _ => by simp [exP]⟩, ⟨fun _ _ => by simp [exP], fun _ => by simp [exP]⟩, by simp [exP]⟩
example : ValidBreaks 5 [1, 3] := by
  refine ⟨by simp, ?_⟩; intro b hb; simp at hb; rcases hb with rfl | rfl <;> omega

end Bpp.C13
