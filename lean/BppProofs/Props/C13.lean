import BppProofs.Lemmas.Hmm
/-!
# C13 — HMM likelihood algorithms   (src/Bpp/Numeric/Hmm)

Property theorems only; helper lemmas are in `Lemmas/Hmm.lean`.  All statements are about the
model `BppModel/Hmm.lean` read at `ℝ` (exact arithmetic: rounding is not modelled).
-/
namespace Bpp.C13
open Bpp Bpp.Hmm

/-- The unscaled forward recursion, restarted at the flagged sites, computes the sum over **all**
hidden paths of (π·P)(y₀)·Π transitions·Π emissions, for every number of states, every length and
every placement of restarts.  (No sign hypothesis is needed.) -/
theorem forward_is_path_sum (p : Params ℝ) (e0 : Emis ℝ) (sites : List (Site ℝ)) :
    fwdU p e0 sites = pathSum p e0 sites :=
  fwdU_eq_pathSum p e0 sites

end Bpp.C13
